import OntVerif.Model.TxPool
/-! Helper lemmas for C35 (transaction pool / increment validator model). Core Lean only. -/
namespace OntVerif.Proofs.TxPool
open OntVerif.Model.TxPool

/-! ### association lists -/
theorem alookup_ainsert {α} (m : List (Nat × α)) (k k' : Nat) (v : α) :
    alookup (ainsert m k v) k' = if k = k' then some v else alookup m k' := by
  induction m with
  | nil => simp [ainsert, alookup]
  | cons a r ih =>
    obtain ⟨a1, a2⟩ := a
    simp only [ainsert]
    by_cases h : a1 = k
    · subst h
      by_cases h2 : a1 = k' <;> simp [alookup, h2]
    · simp only [h, if_false, alookup, ih]
      by_cases h2 : a1 = k'
      · subst h2
        have : ¬ k = a1 := fun e => h e.symm
        simp [this]
      · simp [h2]

theorem read_ainsert (c : Ctx) (k k' v : Nat) : Ctx.read (ainsert c k v) k' = if k = k' then v else Ctx.read c k' := by
  unfold Ctx.read
  rw [alookup_ainsert]
  by_cases h : k = k' <;> simp [h]

/-- the nonce `Verify` will demand next from sender `s` under context `ctx` -/
def startOf (v : Val) (ledger : Nat → Nat) (ctx : Ctx) (s : Nat) : Nat :=
  if ctx.read s = 0 then v.nonceStart ledger s else ctx.read s

theorem lookupCtx_read (v : Val) (ledger : Nat → Nat) (ctx : Ctx) (p : Nat) :
    (v.lookupCtx ledger ctx p).read p = startOf v ledger ctx p := by
  unfold Val.lookupCtx startOf
  by_cases h : ctx.read p = 0 <;> simp [h, read_ainsert]

theorem lookupCtx_startOf (v : Val) (ledger : Nat → Nat) (ctx : Ctx) (p s : Nat) :
    startOf v ledger (v.lookupCtx ledger ctx p) s = startOf v ledger ctx s := by
  unfold Val.lookupCtx
  by_cases h : ctx.read p = 0
  · simp only [h, if_true]
    unfold startOf
    rw [read_ainsert]
    by_cases hp : p = s
    · subst hp
      simp only [if_true, h]
      by_cases hn : v.nonceStart ledger p = 0 <;> simp [hn]
    · simp [hp]
  · simp [h]

theorem verify_ok_window {v : Val} {ledger t start ctx ctx'} (h : v.verify ledger t start ctx = (.ok, ctx')) :
    v.base ≤ start ∧ ∀ b ∈ v.blocks.drop (start - v.base), t.hash ∉ b := by
  unfold Val.verify at h
  split at h
  · cases h
  · split at h
    · cases h
    · rename_i h1 h2
      refine ⟨by omega, ?_⟩
      intro b hb hc
      apply h2
      simp only [List.any_eq_true]
      exact ⟨b, hb, by simpa using hc⟩

/-- an accepted EIP-155 transaction carries exactly the demanded nonce and moves the demand to the next one -/
theorem verify_ok_eip {v : Val} {ledger t start ctx ctx'} (h : v.verify ledger t start ctx = (.ok, ctx')) (he : t.eip = true) :
    t.nonce = startOf v ledger ctx t.payer ∧ startOf v ledger ctx' t.payer = t.nonce + 1 ∧
    ∀ s, s ≠ t.payer → startOf v ledger ctx' s = startOf v ledger ctx s := by
  unfold Val.verify at h
  split at h
  · cases h
  · split at h
    · cases h
    · split at h
      · cases h
      · rename_i hn
        have hn' : t.nonce = (v.lookupCtx ledger ctx t.payer).read t.payer := by
          simpa using hn
        cases h
        refine ⟨by rw [hn', lookupCtx_read], ?_, ?_⟩
        · simp [startOf, read_ainsert]
        · intro s hs
          have : ¬ t.payer = s := fun e => hs e.symm
          rw [← lookupCtx_startOf v ledger ctx t.payer s]
          simp [startOf, read_ainsert, this]

/-- every other outcome leaves every sender's demanded nonce unchanged -/
theorem verify_other {v : Val} {ledger t start ctx} {r : VErr × Ctx} (h : v.verify ledger t start ctx = r)
    (hne : ¬ (r.1 = .ok ∧ t.eip = true)) (s : Nat) : startOf v ledger r.2 s = startOf v ledger ctx s := by
  unfold Val.verify at h
  split at h
  · subst h; rfl
  · split at h
    · subst h; rfl
    · split at h
      · split at h
        · subst h; exact lookupCtx_startOf v ledger ctx t.payer s
        · subst h; rename_i he _; exact absurd ⟨rfl, he⟩ hne
      · subst h; rfl

def proj (s : Nat) (l : List Tx) : List Nat := (l.filter fun t => t.eip && t.payer == s).map (·.nonce)

/-- the nonces of sender `s` that the proposer's loop accepts are consecutive and start at the demanded nonce -/
theorem filterV_run (v : Val) (ledger : Nat → Nat) (start : Nat) (s : Nat) (xs : List Tx) (ctx : Ctx) :
    proj s (filterV v ledger start ctx xs) = List.range' (startOf v ledger ctx s) (proj s (filterV v ledger start ctx xs)).length := by
  induction xs generalizing ctx with
  | nil => simp [filterV, proj]
  | cons t r ih =>
    unfold filterV
    generalize hv : v.verify ledger t start ctx = res
    obtain ⟨e, ctx'⟩ := res
    cases e with
    | ok =>
      simp only
      by_cases he : t.eip = true
      · obtain ⟨h1, h2, h3⟩ := verify_ok_eip hv he
        by_cases hp : t.payer = s
        · subst hp
          have := ih ctx'
          rw [h2] at this
          simp only [proj, List.filter_cons, he, beq_self_eq_true, Bool.and_self, if_true, List.map_cons, List.length_cons] at this ⊢
          rw [List.range'_succ, ← h1, ← this]
        · have := ih ctx'
          rw [h3 s (fun e => hp e.symm)] at this
          have hb : (t.eip && t.payer == s) = false := by simp [hp]
          simp only [proj, List.filter_cons, hb] at this ⊢
          exact this
      · have h4 := verify_other hv (by simp [he]) s
        simp only at h4
        have := ih ctx'
        rw [h4] at this
        have hb : (t.eip && t.payer == s) = false := by simp [he]
        simp only [proj, List.filter_cons, hb] at this ⊢
        exact this
    | base | dup | nonce =>
      simp only
      have h4 := verify_other hv (by simp) s
      simp only at h4
      rw [← h4]
      exact ih ctx'

theorem filterV_sublist (v : Val) (ledger : Nat → Nat) (start : Nat) (xs : List Tx) (ctx : Ctx) :
    (filterV v ledger start ctx xs).Sublist xs := by
  induction xs generalizing ctx with
  | nil => simp [filterV]
  | cons t r ih =>
    unfold filterV
    generalize v.verify ledger t start ctx = res
    obtain ⟨e, ctx'⟩ := res
    cases e with
    | ok => exact (ih ctx').cons_cons t
    | base | dup | nonce => exact (ih ctx').cons t

theorem filterV_window (v : Val) (ledger : Nat → Nat) (start : Nat) (xs : List Tx) (ctx : Ctx) :
    ∀ t ∈ filterV v ledger start ctx xs, v.base ≤ start ∧ ∀ b ∈ v.blocks.drop (start - v.base), t.hash ∉ b := by
  induction xs generalizing ctx with
  | nil => simp [filterV]
  | cons t r ih =>
    unfold filterV
    generalize hv : v.verify ledger t start ctx = res
    obtain ⟨e, ctx'⟩ := res
    cases e with
    | ok =>
      intro u hu
      simp only [List.mem_cons] at hu
      rcases hu with rfl | hu
      · exact verify_ok_window hv
      · exact ih ctx' u hu
    | base | dup | nonce => exact ih ctx'

theorem filterV_nonce_ge (v : Val) (ledger : Nat → Nat) (start : Nat) (xs : List Tx) (ctx : Ctx) :
    ∀ u ∈ filterV v ledger start ctx xs, u.eip = true → startOf v ledger ctx u.payer ≤ u.nonce := by
  intro u hu he
  have hr := filterV_run v ledger start u.payer xs ctx
  have hm : u.nonce ∈ proj u.payer (filterV v ledger start ctx xs) := by
    unfold proj
    simp only [List.mem_map, List.mem_filter]
    exact ⟨u, ⟨hu, by simp [he]⟩, rfl⟩
  rw [hr] at hm
  exact (List.mem_range'_1.mp hm).1

/-- no hash twice in the accepted list, provided equal hashes mean equal transactions among the candidates and the
candidates of other types are pairwise distinct -/
theorem filterV_nodup (v : Val) (ledger : Nat → Nat) (start : Nat) (xs : List Tx) (ctx : Ctx)
    (hcol : ∀ a ∈ xs, ∀ b ∈ xs, a.hash = b.hash → a = b)
    (hnd : (xs.filter fun t => !t.eip).Nodup) :
    ((filterV v ledger start ctx xs).map (·.hash)).Nodup := by
  induction xs generalizing ctx with
  | nil => simp [filterV]
  | cons t r ih =>
    have hcol' : ∀ a ∈ r, ∀ b ∈ r, a.hash = b.hash → a = b :=
      fun a ha b hb => hcol a (List.mem_cons_of_mem _ ha) b (List.mem_cons_of_mem _ hb)
    have hnd' : (r.filter fun t => !t.eip).Nodup := by
      rw [List.filter_cons] at hnd
      split at hnd
      · exact (List.nodup_cons.mp hnd).2
      · exact hnd
    unfold filterV
    generalize hv : v.verify ledger t start ctx = res
    obtain ⟨e, ctx'⟩ := res
    cases e with
    | ok =>
      simp only [List.map_cons, List.nodup_cons]
      refine ⟨?_, ih ctx' hcol' hnd'⟩
      intro hm
      obtain ⟨u, hu, huh⟩ := List.mem_map.mp hm
      have hur : u ∈ r := (filterV_sublist v ledger start r ctx').subset hu
      have hut : u = t := hcol u (List.mem_cons_of_mem _ hur) t (by simp) huh
      subst hut
      by_cases he : u.eip = true
      · have h1 := (verify_ok_eip hv he).2.1
        have h2 := filterV_nonce_ge v ledger start r ctx' u hu he
        omega
      · rw [List.filter_cons] at hnd
        have : (!u.eip) = true := by simp [he]
        simp only [this, if_true, List.nodup_cons, List.mem_filter] at hnd
        exact hnd.1 ⟨hur, trivial⟩
    | base | dup | nonce => exact ih ctx' hcol' hnd'

/-! ### more association-list facts -/
theorem mem_ainsert {α} {m : List (Nat × α)} {k : Nat} {v : α} {x : Nat × α} (h : x ∈ ainsert m k v) :
    x = (k, v) ∨ x ∈ m := by
  induction m with
  | nil => simp [ainsert] at h; exact Or.inl h
  | cons a r ih =>
    obtain ⟨a1, a2⟩ := a
    simp only [ainsert] at h
    split at h
    · simp only [List.mem_cons] at h
      rcases h with h | h
      · exact Or.inl h
      · exact Or.inr (List.mem_cons_of_mem _ h)
    · simp only [List.mem_cons] at h
      rcases h with h | h
      · exact Or.inr (by simp [h])
      · rcases ih h with h | h
        · exact Or.inl h
        · exact Or.inr (List.mem_cons_of_mem _ h)

theorem aerase_sublist {α} (m : List (Nat × α)) (k : Nat) : (aerase m k).Sublist m := by
  induction m with
  | nil => simp [aerase]
  | cons a r ih =>
    obtain ⟨a1, a2⟩ := a
    simp only [aerase]
    split
    · exact ih.cons _
    · exact ih.cons_cons _

theorem alookup_none_keys {α} {m : List (Nat × α)} {k : Nat} (h : alookup m k = none) : k ∉ m.map (·.1) := by
  induction m with
  | nil => simp
  | cons a r ih =>
    obtain ⟨a1, a2⟩ := a
    simp only [alookup] at h
    split at h
    · cases h
    · rename_i hne
      simp only [List.map_cons, List.mem_cons, not_or]
      exact ⟨fun e => hne e.symm, ih h⟩

theorem alookup_some_mem {α} {m : List (Nat × α)} {k : Nat} {v : α} (h : alookup m k = some v) : (k, v) ∈ m := by
  induction m with
  | nil => simp [alookup] at h
  | cons a r ih =>
    obtain ⟨a1, a2⟩ := a
    simp only [alookup] at h
    split at h
    · rename_i he; cases h; subst he; simp
    · exact List.mem_cons_of_mem _ (ih h)

theorem ainsert_absent {α} {m : List (Nat × α)} {k : Nat} (v : α) (h : alookup m k = none) : ainsert m k v = m ++ [(k, v)] := by
  induction m with
  | nil => rfl
  | cons a r ih =>
    obtain ⟨a1, a2⟩ := a
    simp only [alookup] at h
    split at h
    · cases h
    · rename_i hne
      simp [ainsert, hne, ih h]

theorem eraseAll_sublist (m : List (Nat × VTx)) (l : List Tx) : (eraseAll m l).Sublist m := by
  induction l generalizing m with
  | nil => exact List.Sublist.refl _
  | cons t r ih => exact (ih _).trans (aerase_sublist m t.hash)

/-! ### the transactions held by the per-sender lists -/
def eipTxs (p : Pool) : List Tx := p.eip.flatMap fun al => al.2.map (·.2)

theorem mem_eipTxs {p : Pool} {t : Tx} : t ∈ eipTxs p ↔ ∃ a l n, (a, l) ∈ p.eip ∧ (n, t) ∈ l := by
  unfold eipTxs
  simp only [List.mem_flatMap, List.mem_map]
  constructor
  · rintro ⟨⟨a, l⟩, hal, ⟨n, t'⟩, hnt, rfl⟩
    exact ⟨a, l, n, hal, hnt⟩
  · rintro ⟨a, l, n, hal, hnt⟩
    exact ⟨(a, l), hal, (n, t), hnt, rfl⟩

theorem mem_put {m : SMap} {t : Tx} {x : Nat × Tx} (h : x ∈ m.put t) : x = (t.nonce, t) ∨ x ∈ m := by
  induction m with
  | nil => simp [SMap.put] at h; exact Or.inl h
  | cons a r ih =>
    obtain ⟨k, y⟩ := a
    simp only [SMap.put] at h
    split at h
    · simp only [List.mem_cons] at h
      rcases h with h | h | h
      · exact Or.inl h
      · exact Or.inr (by simp [h])
      · exact Or.inr (List.mem_cons_of_mem _ h)
    · split at h
      · rename_i hk
        simp only [List.mem_cons] at h
        rcases h with h | h
        · exact Or.inl (by rw [h, hk])
        · exact Or.inr (List.mem_cons_of_mem _ h)
      · simp only [List.mem_cons] at h
        rcases h with h | h
        · exact Or.inr (by simp [h])
        · rcases ih h with h | h
          · exact Or.inl h
          · exact Or.inr (List.mem_cons_of_mem _ h)

theorem forward_sublist (m : SMap) (thr : Nat) : (m.forward thr).2.Sublist m := by
  induction m with
  | nil => simp [SMap.forward]
  | cons a r ih =>
    obtain ⟨k, y⟩ := a
    simp only [SMap.forward]
    split
    · exact ih.cons _
    · exact List.Sublist.refl _

theorem remove_sublist (m : SMap) (n : Nat) : (m.remove n).2.Sublist m := by
  unfold SMap.remove
  split
  · exact List.Sublist.refl _
  · exact aerase_sublist m n

/-- `p'` holds nothing that `p` does not hold -/
structure Shrink (p' p : Pool) : Prop where
  valid : p'.valid.Sublist p.valid
  eip : ∀ t ∈ eipTxs p', t ∈ eipTxs p

theorem Shrink.refl (p : Pool) : Shrink p p := ⟨List.Sublist.refl _, fun _ h => h⟩
theorem Shrink.trans {a b c : Pool} (h1 : Shrink a b) (h2 : Shrink b c) : Shrink a c :=
  ⟨h1.valid.trans h2.valid, fun t h => h2.eip t (h1.eip t h)⟩

/-- replacing a sender's list by a sub-list, or dropping the sender, only shrinks -/
theorem eipTxs_ainsert_sub {p : Pool} {a : Nat} {l l' : SMap} (hl : alookup p.eip a = some l) (hs : l'.Sublist l)
    {valid user} : ∀ t ∈ eipTxs ⟨valid, ainsert p.eip a l', user⟩, t ∈ eipTxs p := by
  intro t ht
  obtain ⟨a', l'', n, hal, hnt⟩ := mem_eipTxs.mp ht
  rcases mem_ainsert hal with h | h
  · cases h
    exact mem_eipTxs.mpr ⟨a, l, n, alookup_some_mem hl, hs.subset hnt⟩
  · exact mem_eipTxs.mpr ⟨a', l'', n, h, hnt⟩

theorem eipTxs_aerase_sub {p : Pool} {a : Nat} {valid user} :
    ∀ t ∈ eipTxs ⟨valid, aerase p.eip a, user⟩, t ∈ eipTxs p := by
  intro t ht
  obtain ⟨a', l'', n, hal, hnt⟩ := mem_eipTxs.mp ht
  exact mem_eipTxs.mpr ⟨a', l'', n, (aerase_sublist _ _).subset hal, hnt⟩

theorem cleanEipOne_shrink (p : Pool) (h : Nat) (t : Tx) : Shrink (cleanEipOne p h t).2 p := by
  unfold cleanEipOne
  split
  · split
    · exact Shrink.refl p
    · rename_i l hl
      simp only
      split
      · exact ⟨List.Sublist.refl _, eipTxs_aerase_sub⟩
      · exact ⟨List.Sublist.refl _, eipTxs_ainsert_sub hl (forward_sublist l _)⟩
  · exact Shrink.refl p

theorem cleanEip_shrink (p : Pool) (h : Nat) (txs : List Tx) : Shrink (cleanEip p h txs).2 p := by
  induction txs generalizing p with
  | nil => exact Shrink.refl p
  | cons t r ih =>
    simp only [cleanEip]
    exact (ih _).trans (cleanEipOne_shrink p h t)

theorem cleanCompleted_shrink (p : Pool) (txs : List Tx) (h : Nat) : Shrink (cleanCompleted p txs h) p := by
  unfold cleanCompleted
  have := cleanEip_shrink p h txs
  exact ⟨(eraseAll_sublist _ _).trans this.valid, this.eip⟩

theorem removeOld_shrink (p : Pool) (old : List Tx) (p' : Pool) (h : removeOld p old = some p') : Shrink p' p := by
  induction old generalizing p with
  | nil => simp [removeOld] at h; subst h; exact Shrink.refl p
  | cons t r ih =>
    simp only [removeOld] at h
    split at h
    · split at h
      · cases h
      · rename_i l hl
        refine (ih _ h).trans ⟨aerase_sublist _ _, ?_⟩
        exact eipTxs_ainsert_sub (p := ⟨aerase p.valid t.hash, p.eip, p.user⟩) hl (remove_sublist l _)
    · exact (ih _ h).trans ⟨aerase_sublist _ _, fun _ h => h⟩

theorem getTxPool_shrink {p : Pool} {ord byCount height maxTx v old p'}
    (h : getTxPool p ord byCount height maxTx = some (v, old, p')) : Shrink p' p := by
  unfold getTxPool at h
  simp only [Option.map_eq_some_iff] at h
  obtain ⟨q, hq, he⟩ := h
  cases he
  exact removeOld_shrink _ _ _ hq

theorem removeBelow_shrink {p : Pool} {g p'} (h : removeBelow p g = some p') : Shrink p' p :=
  removeOld_shrink _ _ _ h

theorem staleOne_shrink (p : Pool) (h : Nat) (u : Nat × UserInfo) : Shrink (staleOne p h u) p := by
  unfold staleOne
  split
  · simp only
    split
    · exact ⟨eraseAll_sublist _ _, eipTxs_aerase_sub⟩
    · exact ⟨List.Sublist.refl _, fun _ h => h⟩
  · exact Shrink.refl p

theorem staleLoop_shrink (p : Pool) (h : Nat) (us : List (Nat × UserInfo)) : Shrink (staleLoop p h us) p := by
  induction us generalizing p with
  | nil => exact Shrink.refl p
  | cons u r ih => exact (ih _).trans (staleOne_shrink p h u)

theorem cleanStaled_shrink (p : Pool) (h : Nat) : Shrink (cleanStaled p h) p := by
  unfold cleanStaled
  split
  · exact staleLoop_shrink p h p.user
  · exact Shrink.refl p

theorem remain_shrink (p : Pool) : Shrink (remain p).2 p :=
  ⟨by simp [remain], by intro t ht; simp [remain, eipTxs] at ht⟩

/-! ### pool invariant -/

/-- a `validTxMap` entry is well formed w.r.t. the universe `U` of transactions of the history and the chain `c`:
stored under its own hash, verified at an existing height, and not contained in any block up to that height -/
def EntryOK (U : List Tx) (c : List (List Tx)) (h : Nat) (e : VTx) : Prop :=
  e.tx.hash = h ∧ e.tx ∈ U ∧ e.vh < c.length ∧ ∀ k b, k ≤ e.vh → c[k]? = some b → ∀ u ∈ b, u.hash ≠ h

structure PoolInv (U : List Tx) (c : List (List Tx)) (p : Pool) : Prop where
  keys : (p.valid.map (·.1)).Nodup
  ent : ∀ x ∈ p.valid, EntryOK U c x.1 x.2
  lists : ∀ t ∈ eipTxs p, t.eip = true ∧ t ∈ U

theorem PoolInv.shrink {U c p p'} (hi : PoolInv U c p) (hs : Shrink p' p) : PoolInv U c p' :=
  ⟨(hs.valid.map _).nodup hi.keys, fun x hx => hi.ent x (hs.valid.subset hx), fun t ht => hi.lists t (hs.eip t ht)⟩

theorem PoolInv.congr {U c p p'} (hi : PoolInv U c p) (hv : p'.valid = p.valid) (he : p'.eip = p.eip) : PoolInv U c p' :=
  hi.shrink ⟨by rw [hv]; exact List.Sublist.refl _, by intro t ht; unfold eipTxs at ht ⊢; rw [he] at ht; exact ht⟩

theorem PoolInv.empty (U c) : PoolInv U c Pool.empty :=
  ⟨by simp [Pool.empty], by simp [Pool.empty], by simp [Pool.empty, eipTxs]⟩

theorem EntryOK.chain_append {U c h e} (b : List Tx) (hk : EntryOK U c h e) : EntryOK U (c ++ [b]) h e := by
  obtain ⟨h1, h2, h3, h4⟩ := hk
  refine ⟨h1, h2, by simp; omega, ?_⟩
  intro k b' hk hb
  rw [List.getElem?_append_left (by omega)] at hb
  exact h4 k b' hk hb

theorem PoolInv.chain_append {U c p} (b : List Tx) (hi : PoolInv U c p) : PoolInv U (c ++ [b]) p :=
  ⟨hi.keys, fun x hx => (hi.ent x hx).chain_append b, hi.lists⟩

theorem addEip_inv {U c p} (t : Tx) (hi : PoolInv U c p) (he : t.eip = true) (hu : t ∈ U) :
    PoolInv U c (addEip p t).2.2 ∧ (addEip p t).2.2.valid = p.valid := by
  have key : ∀ l' : SMap, (∀ x ∈ l', x = (t.nonce, t) ∨ ∃ l, alookup p.eip t.payer = some l ∧ x ∈ l) →
      PoolInv U c { p with eip := ainsert p.eip t.payer l' } := by
    intro l' hl'
    refine ⟨hi.keys, hi.ent, ?_⟩
    intro t' ht'
    obtain ⟨a, l, n, hal, hnt⟩ := mem_eipTxs.mp ht'
    rcases mem_ainsert hal with h | h
    · cases h
      rcases hl' _ hnt with h | ⟨l0, hl0, hx⟩
      · cases h; exact ⟨he, hu⟩
      · exact hi.lists t' (mem_eipTxs.mpr ⟨_, l0, n, alookup_some_mem hl0, hx⟩)
    · exact hi.lists t' (mem_eipTxs.mpr ⟨a, l, n, h, hnt⟩)
  have hl : ∀ x ∈ (alookup p.eip t.payer).getD [], ∃ l, alookup p.eip t.payer = some l ∧ x ∈ l := by
    intro x hx
    cases h : alookup p.eip t.payer with
    | none => simp [h] at hx
    | some l => exact ⟨l, rfl, by simpa [h] using hx⟩
  have hput : ∀ x ∈ SMap.put ((alookup p.eip t.payer).getD []) t,
      x = (t.nonce, t) ∨ ∃ l, alookup p.eip t.payer = some l ∧ x ∈ l := by
    intro x hx
    rcases mem_put hx with h | h
    · exact Or.inl h
    · exact Or.inr (hl x h)
  unfold addEip
  simp only
  split
  · exact ⟨key _ hput, rfl⟩
  · split
    · exact ⟨key _ hput, rfl⟩
    · exact ⟨key _ (fun x hx => Or.inr (hl x hx)), rfl⟩

theorem dropReplaced_shrink (p : Pool) (r : Option Tx) : Shrink (dropReplaced p r) p := by
  cases r with
  | none => exact Shrink.refl p
  | some old => exact ⟨aerase_sublist _ _, fun _ h => h⟩

theorem noteUser_inv {U c p} (e : VTx) (hi : PoolInv U c p) : PoolInv U c (noteUser p e) := by
  unfold noteUser
  split
  · exact hi.congr rfl rfl
  · exact hi

theorem addValid_inv {U c p} (e : VTx) (rep : Option Tx) (hi : PoolInv U c p) (hk : EntryOK U c e.tx.hash e) :
    PoolInv U c (addValid p e rep).2.2 := by
  unfold addValid
  split
  · exact hi
  · rename_i hn
    simp only
    refine ⟨?_, ?_, hi.lists⟩
    · rw [ainsert_absent e hn]
      simp only [List.map_append, List.map_cons, List.map_nil]
      rw [List.nodup_append]
      refine ⟨hi.keys, by simp, ?_⟩
      intro a ha b hb
      simp only [List.mem_singleton] at hb
      subst hb
      intro hab; subst hab
      exact alookup_none_keys hn ha
    · intro x hx
      rcases mem_ainsert hx with h | h
      · cases h; exact hk
      · exact hi.ent x h

theorem addTxList_inv {U c p} (e : VTx) (hi : PoolInv U c p) (hk : EntryOK U c e.tx.hash e) :
    PoolInv U c (addTxList p e).2.2 := by
  unfold addTxList
  split
  · rename_i he
    split
    · exact hi
    · have h1 := (addEip_inv e.tx hi he hk.2.1).1
      have h2 := h1.shrink (dropReplaced_shrink _ (addEip p e.tx).1)
      simp only
      split
      · exact h2
      · exact addValid_inv e _ (noteUser_inv e h2) hk
  · exact addValid_inv e none hi hk

/-! ### what `GetTxPool` can return -/

theorem mem_headingFrom {n : Nat} {m : SMap} {t : Tx} (h : t ∈ SMap.headingFrom n m) : ∃ k, (k, t) ∈ m := by
  induction m generalizing n with
  | nil => simp [SMap.headingFrom] at h
  | cons a r ih =>
    obtain ⟨k, x⟩ := a
    simp only [SMap.headingFrom] at h
    split at h
    · simp only [List.mem_cons] at h
      rcases h with h | h
      · exact ⟨k, by simp [h]⟩
      · obtain ⟨k', hk'⟩ := ih h
        exact ⟨k', List.mem_cons_of_mem _ hk'⟩
    · simp at h

theorem mem_heading {m : SMap} {t : Tx} (h : t ∈ m.heading) : ∃ k, (k, t) ∈ m := by
  cases m with
  | nil => simp [SMap.heading] at h
  | cons a r => obtain ⟨k, x⟩ := a; exact mem_headingFrom h

theorem popAt_mem {ls : List (List Tx)} {i : Nat} {t : Tx} {ls' : List (List Tx)} (h : popAt ls i = some (t, ls')) :
    (∃ l ∈ ls, t ∈ l) ∧ ∀ l' ∈ ls', ∃ l ∈ ls, ∀ x ∈ l', x ∈ l := by
  induction ls generalizing i ls' with
  | nil => simp [popAt] at h
  | cons l r ih =>
    cases i with
    | zero =>
      cases l with
      | nil => simp [popAt] at h
      | cons a l0 =>
        simp only [popAt, Option.some.injEq, Prod.mk.injEq] at h
        obtain ⟨rfl, rfl⟩ := h
        refine ⟨⟨a :: l0, by simp, by simp⟩, ?_⟩
        intro l' hl'
        simp only [List.mem_cons] at hl'
        rcases hl' with rfl | hl'
        · exact ⟨a :: l', by simp, fun x hx => List.mem_cons_of_mem _ hx⟩
        · exact ⟨l', by simp [hl'], fun x hx => hx⟩
    | succ j =>
      simp only [popAt, Option.map_eq_some_iff] at h
      obtain ⟨⟨t0, r'⟩, hp, he⟩ := h
      simp only [Prod.mk.injEq] at he
      obtain ⟨rfl, rfl⟩ := he
      obtain ⟨⟨l0, hl0, ht⟩, h2⟩ := ih hp
      refine ⟨⟨l0, List.mem_cons_of_mem _ hl0, ht⟩, ?_⟩
      intro l' hl'
      simp only [List.mem_cons] at hl'
      rcases hl' with rfl | hl'
      · exact ⟨l', by simp, fun x hx => hx⟩
      · obtain ⟨l1, hl1, hs⟩ := h2 l' hl'
        exact ⟨l1, List.mem_cons_of_mem _ hl1, hs⟩

theorem mem_selectLoop {fuel : Nat} {ls : List (List Tx)} {t : Tx} (h : t ∈ selectLoop fuel ls) : ∃ l ∈ ls, t ∈ l := by
  induction fuel generalizing ls with
  | zero => simp [selectLoop] at h
  | succ n ih =>
    simp only [selectLoop] at h
    split at h
    · simp at h
    · split at h
      · simp at h
      · rename_i hp
        obtain ⟨h1, h2⟩ := popAt_mem hp
        simp only [List.mem_cons] at h
        rcases h with rfl | h
        · exact h1
        · obtain ⟨l', hl', ht⟩ := ih h
          obtain ⟨l, hl, hs⟩ := h2 l' hl'
          exact ⟨l, hl, hs t ht⟩

theorem insertDesc_perm (x : VTx) (l : List VTx) : (insertDesc x l).Perm (x :: l) := by
  induction l with
  | nil => exact List.Perm.refl _
  | cons y r ih =>
    simp only [insertDesc]
    split
    · exact List.Perm.refl _
    · exact (List.Perm.cons y ih).trans (List.Perm.swap x y r)

theorem sortDesc_perm (l : List VTx) : (sortDesc l).Perm l := by
  induction l with
  | nil => exact List.Perm.refl _
  | cons x r ih => exact (insertDesc_perm x _).trans (List.Perm.cons x ih)

theorem Order.id_isPerm : Order.id.IsPerm := ⟨fun _ => List.Perm.refl _, fun _ => List.Perm.refl _⟩

/-- equal hashes mean equal transactions (no collision among the transactions of the history) -/
def NoCollision (U : List Tx) : Prop := ∀ a ∈ U, ∀ b ∈ U, a.hash = b.hash → a = b

/-- the EIP-155 half of the candidate list: entries of `validTxMap` found under the hash of a listed transaction -/
theorem mem_selectSort {U c p} {ord : Order} (hi : PoolInv U c p) (ho : ord.IsPerm) (hc : NoCollision U) {e : VTx}
    (h : e ∈ selectSort p.valid (ord.eip (p.eip.map fun al => al.2.heading))) :
    (e.tx.hash, e) ∈ p.valid ∧ e.tx.eip = true := by
  unfold selectSort at h
  simp only [List.mem_filterMap] at h
  obtain ⟨t, ht, hl⟩ := h
  obtain ⟨l, hl1, htl⟩ := mem_selectLoop ht
  have hl2 := (ho.eip _).subset hl1
  simp only [List.mem_map] at hl2
  obtain ⟨⟨a, m⟩, ham, rfl⟩ := hl2
  obtain ⟨k, hk⟩ := mem_heading htl
  have htp := hi.lists t (mem_eipTxs.mpr ⟨a, m, k, ham, hk⟩)
  have hm := alookup_some_mem hl
  have he := hi.ent _ hm
  have : e.tx = t := hc _ he.2.1 _ htp.2 he.1
  rw [this]
  exact ⟨hm, htp.1⟩

theorem splitExpired_spec (height count : Nat) (xs acc : List VTx) :
    (splitExpired height count xs acc).1.Sublist (acc.reverse ++ xs) ∧
    ∀ e ∈ (splitExpired height count xs acc).1, e ∈ acc ∨ (e ∈ xs ∧ height ≤ e.vh) := by
  induction xs generalizing acc with
  | nil => simp [splitExpired]
  | cons e r ih =>
    simp only [splitExpired]
    split
    · obtain ⟨h1, h2⟩ := ih acc
      refine ⟨h1.trans (List.Sublist.append_left (List.sublist_cons_self e r) _), ?_⟩
      intro x hx
      rcases h2 x hx with h | h
      · exact Or.inl h
      · exact Or.inr ⟨List.mem_cons_of_mem _ h.1, h.2⟩
    · split
      · obtain ⟨h1, h2⟩ := ih (e :: acc)
        refine ⟨by simpa using h1, ?_⟩
        intro x hx
        rcases h2 x hx with h | h
        · simp only [List.mem_cons] at h
          rcases h with rfl | h
          · exact Or.inr ⟨by simp, by omega⟩
          · exact Or.inl h
        · exact Or.inr ⟨List.mem_cons_of_mem _ h.1, h.2⟩
      · obtain ⟨h1, h2⟩ := ih acc
        refine ⟨h1.trans (List.Sublist.append_left (List.sublist_cons_self e r) _), ?_⟩
        intro x hx
        rcases h2 x hx with h | h
        · exact Or.inl h
        · exact Or.inr ⟨List.mem_cons_of_mem _ h.1, h.2⟩

/-- the candidates of other types are pairwise distinct transactions; every candidate is a `validTxMap` entry -/
theorem candidates_spec {U c p} {ord : Order} (hi : PoolInv U c p) (ho : ord.IsPerm) (hc : NoCollision U) :
    (∀ e ∈ candidates p ord, (e.tx.hash, e) ∈ p.valid) ∧
    (((candidates p ord).map (·.tx)).filter fun t => !t.eip).Nodup := by
  have hvals : ∀ e ∈ p.valid.map (·.2), (e.tx.hash, e) ∈ p.valid := by
    intro e he
    obtain ⟨⟨h, e'⟩, hm, rfl⟩ := List.mem_map.mp he
    have := (hi.ent _ hm).1
    simp only at this ⊢
    rw [this]; exact hm
  have hperm : (sortDesc (ord.vals ((p.valid.map (·.2)).filter fun e => !e.tx.eip))).Perm
      ((p.valid.map (·.2)).filter fun e => !e.tx.eip) := (sortDesc_perm _).trans (ho.vals _)
  constructor
  · intro e he
    unfold candidates at he
    rcases List.mem_append.mp he with h | h
    · exact (mem_selectSort hi ho hc h).1
    · exact hvals e (List.mem_filter.mp (hperm.subset h)).1
  · unfold candidates
    rw [List.map_append, List.filter_append]
    have h1 : ((selectSort p.valid (ord.eip (p.eip.map fun al => al.2.heading))).map (·.tx)).filter (fun t => !t.eip) = [] := by
      rw [List.filter_eq_nil_iff]
      intro t ht
      obtain ⟨e, he, rfl⟩ := List.mem_map.mp ht
      simp [(mem_selectSort hi ho hc he).2]
    rw [h1, List.nil_append]
    apply List.Nodup.sublist (List.filter_sublist)
    -- the transactions of the values are distinct because their hashes are the (distinct) keys
    have hk : (((p.valid.map (·.2)).map (·.tx)).map (·.hash)) = p.valid.map (·.1) := by
      rw [List.map_map, List.map_map]
      apply List.map_congr_left
      intro x hx
      exact (hi.ent x hx).1
    have hnd : ((p.valid.map (·.2)).map (·.tx)).Nodup := by
      have : (((p.valid.map (·.2)).map (·.tx)).map (·.hash)).Nodup := by
        rw [hk]; exact hi.keys
      exact List.Pairwise.of_map (·.hash) (fun a b hab e => hab (by rw [e])) this
    have hnd2 : (((p.valid.map (·.2)).filter fun e => !e.tx.eip).map (·.tx)).Nodup :=
      List.Nodup.sublist (List.Sublist.map _ List.filter_sublist) hnd
    exact (hperm.map _).nodup_iff.mpr hnd2

/-! ### the validator window against the chain -/

theorem lastNonce_append (s : Nat) (a b : List Tx) (c : Nat) : lastNonce s (a ++ b) c = lastNonce s b (lastNonce s a c) := by
  induction a generalizing c with
  | nil => rfl
  | cons t r ih => simp only [List.cons_append, lastNonce]; exact ih _

theorem lastNonce_init (s : Nat) (xs : List Tx) (c : Nat) :
    lastNonce s xs c = if lastNonce s xs 0 = 0 then c else lastNonce s xs 0 := by
  induction xs generalizing c with
  | nil => simp [lastNonce]
  | cons t r ih =>
    simp only [lastNonce]
    by_cases h : t.eip = true ∧ t.payer = s
    · simp only [h, and_self, if_true]
      have e := ih (t.nonce + 1)
      by_cases h0 : lastNonce s r 0 = 0
      · simp only [h0, if_true] at e; simp [e]
      · simp only [h0, if_false] at e; simp [e, h0]
    · simp only [h, if_false]
      exact ih c

theorem alookup_nonceMapOf (s : Nat) (txs : List Tx) (m : List (Nat × Nat)) :
    alookup (nonceMapOf txs m) s = if lastNonce s txs 0 = 0 then alookup m s else some (lastNonce s txs 0) := by
  induction txs generalizing m with
  | nil => simp [nonceMapOf, lastNonce]
  | cons t r ih =>
    simp only [nonceMapOf, lastNonce]
    rw [ih]
    have e := lastNonce_init s r (if t.eip = true ∧ t.payer = s then t.nonce + 1 else 0)
    by_cases h0 : lastNonce s r 0 = 0
    · simp only [h0, if_true] at e ⊢
      simp only [e]
      by_cases he : t.eip = true
      · simp only [he, if_true, true_and, alookup_ainsert]
        by_cases hp : t.payer = s <;> simp [hp]
      · simp [he]
    · simp only [h0, if_false] at e ⊢
      simp [e, h0]

theorem cacheNonce_window (s : Nat) (wtx : List (List Tx)) (c : Nat) :
    cacheNonce s (wtx.map fun b => nonceMapOf b []) c = lastNonce s wtx.flatten c := by
  induction wtx generalizing c with
  | nil => simp [cacheNonce, lastNonce]
  | cons b r ih =>
    simp only [List.map_cons, cacheNonce, List.flatten_cons, lastNonce_append]
    rw [alookup_nonceMapOf, ih]
    congr 1
    rw [lastNonce_init s b c]
    by_cases h0 : lastNonce s b 0 = 0
    · simp [h0, alookup]
    · simp [h0]

/-- the validator's window is a segment of the chain starting at `base` -/
structure WinInv (c : List (List Tx)) (v : Val) : Prop where
  mb : 1 ≤ v.maxBlocks
  win : ∃ wtx rest, v.blocks = wtx.map (fun b => b.map (·.hash)) ∧ v.nonces = wtx.map (fun b => nonceMapOf b []) ∧
          c.drop v.base = wtx ++ rest

theorem WinInv.new (c : List (List Tx)) (mb : Nat) : WinInv c (Val.new mb) := by
  refine ⟨?_, [], c, rfl, rfl, by simp [Val.new]⟩
  unfold Val.new; simp only; split <;> omega

theorem WinInv.clean {c v} (h : WinInv c v) : WinInv c v.clean :=
  ⟨h.mb, [], c, rfl, rfl, by simp [Val.clean]⟩

theorem WinInv.chain_append {c v} (b : List Tx) (h : WinInv c v) : WinInv (c ++ [b]) v := by
  obtain ⟨wtx, rest, h1, h2, h3⟩ := h.win
  by_cases hb : v.base ≤ c.length
  · refine ⟨h.mb, wtx, rest ++ [b], h1, h2, ?_⟩
    rw [List.drop_append_of_le_length hb, h3, List.append_assoc]
  · have h0 : c.drop v.base = [] := List.drop_eq_nil_of_le (by omega)
    rw [h0] at h3
    have hw : wtx = [] := by
      cases wtx with
      | nil => rfl
      | cons _ _ => simp at h3
    subst hw
    refine ⟨h.mb, [], [], h1, h2, ?_⟩
    simp only [List.append_nil]
    exact List.drop_eq_nil_of_le (by simp; omega)

theorem drop_eq_cons_of_getElem? {α} {l : List α} {k : Nat} {x : α} (h : l[k]? = some x) : l.drop k = x :: l.drop (k + 1) := by
  have hk : k < l.length := by
    rcases Nat.lt_or_ge k l.length with h' | h'
    · exact h'
    · rw [List.getElem?_eq_none h'] at h; cases h
  rw [List.getElem?_eq_getElem hk] at h
  cases h
  exact List.drop_eq_getElem_cons hk

theorem WinInv.addBlock {c v} {k : Nat} {b : List Tx} (h : WinInv c v) (hb : c[k]? = some b) : WinInv c (v.addBlock k b) := by
  obtain ⟨wtx, rest, h1, h2, h3⟩ := h.win
  have hlen : v.blocks.length = wtx.length := by rw [h1]; simp
  unfold Val.addBlock
  simp only
  by_cases h0 : v.blocks.length = 0
  · -- empty window: restart at k
    have hw : wtx = [] := by cases wtx with | nil => rfl | cons _ _ => simp [hlen] at h0
    subst hw
    have hbl : v.blocks = [] := by simpa using h1
    have hnl : v.nonces = [] := by simpa using h2
    simp only [h0, if_true, Nat.add_zero, ne_eq, not_true, if_false]
    have hm := h.mb
    have : ¬ (0 ≥ v.maxBlocks) := by omega
    simp only [this, if_false]
    refine ⟨hm, [b], c.drop (k + 1), by simp [hbl], by simp [hnl], ?_⟩
    simpa using drop_eq_cons_of_getElem? hb
  · simp only [h0, if_false]
    by_cases hk : v.base + v.blocks.length = k
    · simp only [hk, ne_eq, not_true, if_false]
      -- the block extends the window
      have hrest : rest = b :: c.drop (k + 1) := by
        have : c.drop (v.base + wtx.length) = rest := by
          rw [← List.drop_drop, h3, List.drop_left]
        rw [← this, ← hlen, hk]
        exact drop_eq_cons_of_getElem? hb
      split
      · -- slide
        cases wtx with
        | nil => simp [hlen] at h0
        | cons w0 wr =>
          refine ⟨h.mb, wr ++ [b], c.drop (k + 1), by simp [h1], by simp [h2], ?_⟩
          have : c.drop (v.base + 1) = (c.drop v.base).drop 1 := by rw [List.drop_drop]
          simp only
          rw [this, h3, hrest]
          simp
      · refine ⟨h.mb, wtx ++ [b], c.drop (k + 1), by simp [h1], by simp [h2], ?_⟩
        simp only
        rw [h3, hrest]; simp
    · simp only [hk, ne_eq, not_false_iff, if_true]
      exact ⟨h.mb, wtx, rest, h1, h2, h3⟩

/-! ### system invariant over histories -/

structure SInv (U : List Tx) (s : Sys) : Prop where
  chain : 1 ≤ s.chain.length
  pool : PoolInv U s.chain s.pool
  win : WinInv s.chain s.val

theorem SInv.new (U : List Tx) (acct0 : List (Nat × Nat)) (mb : Nat) : SInv U (Sys.new acct0 mb) :=
  ⟨by simp [Sys.new], PoolInv.empty _ _, WinInv.new _ _⟩

theorem onChain_false {blocks : List (List Tx)} {h : Nat} (hc : onChain blocks h = false) :
    ∀ b ∈ blocks, ∀ u ∈ b, u.hash ≠ h := by
  intro b hb u hu he
  have : onChain blocks h = true := by
    unfold onChain
    simp only [List.any_eq_true, decide_eq_true_eq]
    exact ⟨b, hb, u, hu, he⟩
  rw [hc] at this; cases this

theorem submit_inv {U s} (t : Tx) (lag : Nat) (h : SInv U s) (hu : t ∈ U) : SInv U (s.submit t lag).2 := by
  unfold Sys.submit
  simp only
  split
  · exact h
  · rename_i hoc
    split
    · exact h
    · refine ⟨h.chain, ?_, h.win⟩
      apply addTxList_inv _ h.pool
      have hc := h.chain
      have hlen : (s.chain.take (max 1 (s.chain.length - lag))).length = max 1 (s.chain.length - lag) := by
        rw [List.length_take]; omega
      refine ⟨rfl, hu, ?_, ?_⟩
      · simp only [hlen]; omega
      · intro k b hk hb
        simp only [hlen] at hk
        apply onChain_false (by simpa using hoc) b
        have : (s.chain.take (max 1 (s.chain.length - lag)))[k]? = some b := by
          rw [List.getElem?_take_of_lt (by omega)]; exact hb
        exact List.mem_of_getElem? this

theorem commit_inv {U s} (txs : List Tx) (h : SInv U s) : SInv U (s.commit txs).2 := by
  unfold Sys.commit
  split
  · exact ⟨by simp, h.pool.chain_append txs, h.win.chain_append txs⟩
  · exact h

theorem SInv.step {U s} (op : Op) (h : SInv U s) (hu : ∀ t ∈ op.txs, t ∈ U) : SInv U (s.step op) := by
  cases op with
  | submit t lag => exact submit_inv t lag h (hu t (by simp [Op.txs]))
  | commit txs => exact commit_inv txs h
  | notify k =>
    simp only [Sys.step, Sys.notify]
    split
    · rename_i b hb; exact ⟨h.chain, h.pool, h.win.addBlock hb⟩
    · exact h
  | cleanBlk k =>
    simp only [Sys.step, Sys.cleanBlk]
    split
    · exact ⟨h.chain, h.pool.shrink (cleanCompleted_shrink _ _ _), h.win⟩
    · exact h
  | getPool ord bc hh m =>
    simp only [Sys.step]
    split
    · rename_i v old p hg; exact ⟨h.chain, h.pool.shrink (getTxPool_shrink hg), h.win⟩
    · exact h
  | propose ord bc hh m =>
    simp only [Sys.step]
    split
    · rename_i vh out s' hp
      unfold Sys.propose at hp
      simp only [Option.map_eq_some_iff] at hp
      obtain ⟨⟨v, old, p⟩, hg, he⟩ := hp
      simp only [Prod.mk.injEq] at he
      obtain ⟨_, _, rfl⟩ := he
      refine ⟨h.chain, h.pool.shrink (getTxPool_shrink hg), ?_⟩
      simp only [Sys.validHeight]
      split
      · exact h.win
      · exact h.win.clean
    · exact h
  | remain => exact ⟨h.chain, h.pool.shrink (remain_shrink _), h.win⟩
  | removeBelow g =>
    simp only [Sys.step]
    split
    · rename_i p hr; exact ⟨h.chain, h.pool.shrink (removeBelow_shrink hr), h.win⟩
    · exact h
  | cleanStaled hh => exact ⟨h.chain, h.pool.shrink (cleanStaled_shrink _ _), h.win⟩
  | valClean => exact ⟨h.chain, h.pool, h.win.clean⟩

theorem SInv.run {U s} (ops : List Op) (h : SInv U s) (hu : ∀ op ∈ ops, ∀ t ∈ op.txs, t ∈ U) : SInv U (s.run ops) := by
  induction ops generalizing s with
  | nil => exact h
  | cons op r ih =>
    simp only [Sys.run]
    exact ih (h.step op (hu op (by simp))) (fun o ho => hu o (List.mem_cons_of_mem _ ho))

/-- every reachable state satisfies the invariant w.r.t. the transactions the history mentions -/
theorem reachable_inv (acct0 : List (Nat × Nat)) (mb : Nat) (ops : List Op) :
    SInv (ops.flatMap Op.txs) ((Sys.new acct0 mb).run ops) :=
  SInv.run ops (SInv.new _ _ _) (fun op ho _ ht => List.mem_flatMap.mpr ⟨op, ho, ht⟩)

theorem getTxPool_spec {p : Pool} {ord byCount height maxTx v old p'}
    (h : getTxPool p ord byCount height maxTx = some (v, old, p')) :
    v.Sublist (candidates p ord) ∧ ∀ e ∈ v, height ≤ e.vh := by
  unfold getTxPool at h
  simp only [Option.map_eq_some_iff] at h
  obtain ⟨q, _, he⟩ := h
  simp only [Prod.mk.injEq] at he
  obtain ⟨rfl, _, _⟩ := he
  have := splitExpired_spec height
    (if (candidates p ord).length < maxTx ∨ (!if maxTx = 0 ∨ maxTx ≥ two64 / 2 then false else byCount) = true then
      (candidates p ord).length else maxTx) (candidates p ord) []
  refine ⟨by simpa using this.1, ?_⟩
  intro e he
  rcases this.2 e he with h | h
  · simp at h
  · exact h.2

/-! ### the proposal -/

/-- with the window in sync with the tip, the nonce `Verify` starts a sender at is the ledger's account nonce -/
theorem nonceStart_in_sync {c : List (List Tx)} {v : Val} (acct0 : List (Nat × Nat)) (hw : WinInv c v)
    (hs : v.base + v.blocks.length = c.length) (p : Nat) :
    v.nonceStart (acctOf acct0 c) p = acctOf acct0 c p := by
  obtain ⟨wtx, rest, h1, h2, h3⟩ := hw.win
  have hlen : v.blocks.length = wtx.length := by rw [h1]; simp
  have hr : rest = [] := by
    have := congrArg List.length h3
    simp only [List.length_drop, List.length_append] at this
    cases rest with
    | nil => rfl
    | cons _ _ => simp at this; omega
  subst hr
  have hc : c = c.take v.base ++ wtx := by
    have := List.take_append_drop v.base c
    rw [h3, List.append_nil] at this; exact this.symm
  unfold Val.nonceStart
  rw [h2, cacheNonce_window]
  by_cases hz : lastNonce p wtx.flatten 0 = 0
  · simp [hz]
  · simp only [hz, if_false]
    unfold acctOf
    have : lastNonce p c.flatten 0 = lastNonce p wtx.flatten 0 := by
      rw [hc, List.flatten_append, lastNonce_append, lastNonce_init]
      simp [hz]
    simp only [this, hz, if_false]

theorem validHeight_sync {s : Sys} {h : Nat} (hs : h + 1 = s.val.base + s.val.blocks.length) :
    s.validHeight h = (s.val.base, s.val) := by simp [Sys.validHeight, Val.range, hs]

theorem validHeight_nosync {s : Sys} {h : Nat} (hs : ¬ h + 1 = s.val.base + s.val.blocks.length) :
    s.validHeight h = (h, s.val.clean) := by simp [Sys.validHeight, Val.range, hs]

theorem propose_spec {U s} {ord : Order} {bc : Bool} {h maxTx vh : Nat} {out : List Tx} {s' : Sys}
    (hi : SInv U s) (hc : NoCollision U) (ho : ord.IsPerm)
    (hp : s.propose ord bc h maxTx = some (vh, out, s')) :
    (out.map (·.hash)).Nodup ∧
    (∀ t ∈ out, ∀ k b, k ≤ h → s.chain[k]? = some b → ∀ u ∈ b, u.hash ≠ t.hash) ∧
    (h + 1 = s.chain.length → ∀ p, proj p out = List.range' (acctOf s.acct0 s.chain p) (proj p out).length) := by
  unfold Sys.propose at hp
  simp only [Option.map_eq_some_iff] at hp
  obtain ⟨⟨v, old, p⟩, hg, he⟩ := hp
  simp only [Prod.mk.injEq] at he
  obtain ⟨rfl, rfl, _⟩ := he
  obtain ⟨hsub, hvh⟩ := getTxPool_spec hg
  obtain ⟨hcand, hnd⟩ := candidates_spec hi.pool ho hc
  have hent : ∀ e ∈ v, EntryOK U s.chain e.tx.hash e := fun e he => hi.pool.ent _ (hcand e (hsub.subset he))
  refine ⟨?_, ?_, ?_⟩
  · apply filterV_nodup
    · intro a ha b hb hab
      obtain ⟨ea, hea, rfl⟩ := List.mem_map.mp ha
      obtain ⟨eb, heb, rfl⟩ := List.mem_map.mp hb
      exact hc _ (hent ea hea).2.1 _ (hent eb heb).2.1 hab
    · exact List.Nodup.sublist (List.Sublist.filter _ (hsub.map _)) hnd
  · intro t ht k b hk hb
    have htv := (filterV_sublist _ _ _ _ _).subset ht
    obtain ⟨e, he, rfl⟩ := List.mem_map.mp htv
    obtain ⟨hbase, hwin⟩ := filterV_window _ _ _ _ _ _ ht
    have hE := hent e he
    have hge := hvh e he
    by_cases hke : k ≤ e.vh
    · exact hE.2.2.2 k b hke hb
    · -- the block lies above the height at which the transaction was verified: it must be in the window
      by_cases hsync : h + 1 = s.val.base + s.val.blocks.length
      · rw [validHeight_sync hsync] at hbase hwin hge
        simp only [Nat.sub_self, List.drop_zero] at hwin hge
        obtain ⟨wtx, rest, h1, h2, h3⟩ := hi.win.win
        have hlen : s.val.blocks.length = wtx.length := by rw [h1]; simp
        have hkb : s.val.base ≤ k := by omega
        have : wtx[k - s.val.base]? = some b := by
          have e1 : (s.chain.drop s.val.base)[k - s.val.base]? = s.chain[k]? := by
            rw [List.getElem?_drop]; congr 1; omega
          rw [h3, List.getElem?_append_left (by omega)] at e1
          rw [e1]; exact hb
        have hbm : b ∈ wtx := List.mem_of_getElem? this
        have hbb : b.map (·.hash) ∈ s.val.blocks := by rw [h1]; exact List.mem_map.mpr ⟨b, hbm, rfl⟩
        intro u hu hne
        exact hwin _ hbb (List.mem_map.mpr ⟨u, hu, hne⟩)
      · rw [validHeight_nosync hsync] at hge
        simp only at hge
        omega
  · intro htip p
    have hrun := filterV_run (s.validHeight h).2 (acctOf s.acct0 s.chain) (s.validHeight h).1 p (v.map (·.tx)) []
    have hst : startOf (s.validHeight h).2 (acctOf s.acct0 s.chain) [] p = acctOf s.acct0 s.chain p := by
      have : startOf (s.validHeight h).2 (acctOf s.acct0 s.chain) [] p
          = (s.validHeight h).2.nonceStart (acctOf s.acct0 s.chain) p := by
        simp [startOf, Ctx.read, alookup]
      rw [this]
      by_cases hsync : h + 1 = s.val.base + s.val.blocks.length
      · rw [validHeight_sync hsync]
        exact nonceStart_in_sync s.acct0 hi.win (by omega) p
      · rw [validHeight_nosync hsync]
        simp [Val.nonceStart, Val.clean, cacheNonce]
    rw [hst] at hrun
    exact hrun


/-! ### the replacement rule -/

theorem addEip_replaced {p : Pool} {t old : Tx} (h : (addEip p t).1 = some old) : replaces t.price old.price = true := by
  unfold addEip at h
  simp only at h
  split at h
  · cases h
  · split at h
    · rename_i hr; cases h; exact hr
    · cases h

theorem addValid_rep (p : Pool) (e : VTx) (rep : Option Tx) : (addValid p e rep).2.1 = rep := by
  unfold addValid; split <;> rfl

theorem addTxList_replaced {p : Pool} {e : VTx} {old : Tx} (h : (addTxList p e).2.1 = some old) :
    e.tx.eip = true ∧ replaces e.tx.price old.price = true := by
  unfold addTxList at h
  split at h
  · rename_i he
    refine ⟨he, ?_⟩
    split at h
    · cases h
    · simp only at h
      split at h
      · exact addEip_replaced h
      · rw [addValid_rep] at h; exact addEip_replaced h
  · rw [addValid_rep] at h; cases h

theorem replaces_higher {n o : Nat} (h : replaces n o = true) (hno : o * 101 < two64) : o * 101 < n * 100 := by
  unfold replaces at h
  simp only [decide_eq_true_eq] at h
  rw [Nat.mod_eq_of_lt hno] at h
  omega

/-! ### more association-list facts (lookup form) -/

theorem alookup_aerase {α} (m : List (Nat × α)) (k k' : Nat) :
    alookup (aerase m k) k' = if k = k' then none else alookup m k' := by
  induction m with
  | nil => simp [aerase, alookup]
  | cons a r ih =>
    obtain ⟨a1, a2⟩ := a
    simp only [aerase]
    by_cases h : a1 = k
    · subst h
      simp only [if_true, ih, alookup]
      by_cases h2 : a1 = k' <;> simp [h2]
    · simp only [h, if_false, alookup, ih]
      by_cases h2 : a1 = k'
      · subst h2
        have : ¬ k = a1 := fun e => h e.symm
        simp [this]
      · simp [h2]

theorem alookup_of_mem {α} {m : List (Nat × α)} {k : Nat} {v : α} (hn : (m.map (·.1)).Nodup) (h : (k, v) ∈ m) :
    alookup m k = some v := by
  induction m with
  | nil => cases h
  | cons a r ih =>
    obtain ⟨a1, a2⟩ := a
    simp only [List.map_cons, List.nodup_cons] at hn
    simp only [List.mem_cons, Prod.mk.injEq] at h
    rcases h with ⟨rfl, rfl⟩ | h
    · simp [alookup]
    · have : a1 ≠ k := by
        intro e; subst e
        exact hn.1 (List.mem_map.mpr ⟨(a1, v), h, rfl⟩)
      simp only [alookup, this, if_false]
      exact ih hn.2 h

theorem keys_ainsert_nodup {α} {m : List (Nat × α)} (k : Nat) (v : α) (hn : (m.map (·.1)).Nodup) :
    ((ainsert m k v).map (·.1)).Nodup := by
  induction m with
  | nil => simp [ainsert]
  | cons a r ih =>
    obtain ⟨a1, a2⟩ := a
    simp only [List.map_cons, List.nodup_cons] at hn
    simp only [ainsert]
    split
    · rename_i he; subst he
      simp only [List.map_cons, List.nodup_cons]; exact hn
    · rename_i hne
      simp only [List.map_cons, List.nodup_cons]
      refine ⟨?_, ih hn.2⟩
      intro hm
      obtain ⟨x, hx, hx1⟩ := List.mem_map.mp hm
      rcases mem_ainsert hx with h | h
      · cases h; exact hne hx1.symm
      · exact hn.1 (List.mem_map.mpr ⟨x, h, hx1⟩)

theorem keys_aerase_nodup {α} {m : List (Nat × α)} (k : Nat) (hn : (m.map (·.1)).Nodup) :
    ((aerase m k).map (·.1)).Nodup := ((aerase_sublist m k).map _).nodup hn

theorem alookup_eraseAll (m : List (Nat × VTx)) (ts : List Tx) (h : Nat) :
    alookup (eraseAll m ts) h = if ∃ t ∈ ts, t.hash = h then none else alookup m h := by
  induction ts generalizing m with
  | nil => simp [eraseAll]
  | cons t r ih =>
    simp only [eraseAll]
    rw [ih, alookup_aerase]
    by_cases h1 : t.hash = h
    · have : ∃ x ∈ t :: r, x.hash = h := ⟨t, by simp, h1⟩
      simp [h1]
    · by_cases h2 : ∃ x ∈ r, x.hash = h
      · obtain ⟨x, hx, hxh⟩ := h2
        have : ∃ x ∈ t :: r, x.hash = h := ⟨x, List.mem_cons_of_mem _ hx, hxh⟩
        have h2' : ∃ x ∈ r, x.hash = h := ⟨x, hx, hxh⟩
        simp [h2']
      · have : ¬ ∃ x ∈ t :: r, x.hash = h := by
          rintro ⟨x, hx, hxh⟩
          simp only [List.mem_cons] at hx
          rcases hx with rfl | hx
          · exact h1 hxh
          · exact h2 ⟨x, hx, hxh⟩
        simp [h1, h2]

/-! ### the nonce-sorted list -/

def Sorted (l : SMap) : Prop := l.Pairwise fun x y => x.1 < y.1

theorem alookup_put (l : SMap) (t : Tx) (n : Nat) : alookup (l.put t) n = if t.nonce = n then some t else alookup l n := by
  induction l with
  | nil => simp [SMap.put, alookup]
  | cons a r ih =>
    obtain ⟨k, x⟩ := a
    simp only [SMap.put]
    split
    · simp only [alookup]
    · split
      · rename_i hk
        simp only [alookup, hk]
        by_cases h2 : k = n <;> simp [h2]
      · rename_i h1 h2
        simp only [alookup, ih]
        by_cases h3 : k = n
        · subst h3
          have : ¬ t.nonce = k := h2
          simp [this]
        · simp [h3]

theorem put_sorted {l : SMap} (t : Tx) (h : Sorted l) : Sorted (l.put t) := by
  unfold Sorted at h ⊢
  induction l with
  | nil => simp [SMap.put]
  | cons a r ih =>
    obtain ⟨k, x⟩ := a
    rw [List.pairwise_cons] at h
    simp only [SMap.put]
    split
    · rename_i hlt
      rw [List.pairwise_cons]
      refine ⟨?_, List.pairwise_cons.mpr h⟩
      intro y hy
      simp only [List.mem_cons] at hy
      rcases hy with rfl | hy
      · exact hlt
      · exact Nat.lt_trans hlt (h.1 y hy)
    · split
      · rename_i hk
        rw [List.pairwise_cons]; exact ⟨h.1, h.2⟩
      · rename_i h1 h2
        rw [List.pairwise_cons]
        refine ⟨?_, ih h.2⟩
        intro y hy
        rcases mem_put hy with hy | hy
        · cases hy; simp only; omega
        · exact h.1 y hy

theorem mem_put_self (l : SMap) (t : Tx) : (t.nonce, t) ∈ l.put t := by
  induction l with
  | nil => simp [SMap.put]
  | cons a r ih =>
    obtain ⟨k, x⟩ := a
    simp only [SMap.put]
    split
    · simp
    · split
      · rename_i hk; simp [hk]
      · exact List.mem_cons_of_mem _ ih

theorem sorted_alookup_iff {l : SMap} (h : Sorted l) (n : Nat) (t : Tx) : alookup l n = some t ↔ (n, t) ∈ l := by
  constructor
  · exact alookup_some_mem
  · intro hm
    apply alookup_of_mem _ hm
    unfold Sorted at h
    exact (List.pairwise_map.mpr (h.imp (fun hlt => Nat.ne_of_lt hlt)))

theorem forward_spec {l : SMap} (h : Sorted l) (thr : Nat) :
    Sorted (l.forward thr).2 ∧
    (∀ n, alookup (l.forward thr).2 n = if n < thr then none else alookup l n) ∧
    (∀ t, t ∈ (l.forward thr).1 ↔ ∃ n, n < thr ∧ alookup l n = some t) := by
  unfold Sorted at h ⊢
  induction l with
  | nil => simp [SMap.forward, alookup]
  | cons a r ih =>
    obtain ⟨k, x⟩ := a
    rw [List.pairwise_cons] at h
    simp only [SMap.forward]
    by_cases hk : k < thr
    · simp only [hk, if_true]
      obtain ⟨i1, i2, i3⟩ := ih h.2
      refine ⟨i1, ?_, ?_⟩
      · intro n
        rw [i2 n]
        by_cases hn : n < thr
        · simp [hn]
        · have : ¬ k = n := by omega
          simp [hn, alookup, this]
      · intro t
        simp only [List.mem_cons, i3 t, alookup]
        constructor
        · rintro (rfl | ⟨n, hn, ha⟩)
          · exact ⟨k, hk, by simp⟩
          · refine ⟨n, hn, ?_⟩
            have : ¬ k = n := by
              intro e; subst e
              have := h.1 (k, t) (alookup_some_mem ha)
              simp at this
            simp [this, ha]
        · rintro ⟨n, hn, ha⟩
          by_cases he : k = n
          · simp only [he, if_true, Option.some.injEq] at ha; exact Or.inl ha.symm
          · simp only [he, if_false] at ha; exact Or.inr ⟨n, hn, ha⟩
    · simp only [hk, if_false]
      refine ⟨List.pairwise_cons.mpr h, ?_, ?_⟩
      · intro n
        by_cases hn : n < thr
        · have : ¬ k = n := by omega
          simp only [hn, if_true, alookup, this, if_false]
          cases hl : alookup r n with
          | none => rfl
          | some y => have := h.1 (n, y) (alookup_some_mem hl); simp at this; omega
        · simp [hn]
      · intro t
        simp only [List.not_mem_nil, false_iff, not_exists, not_and]
        intro n hn ha
        simp only [alookup] at ha
        by_cases he : k = n
        · omega
        · simp only [he, if_false] at ha
          have := h.1 (n, t) (alookup_some_mem ha); simp at this; omega

theorem aerase_sorted {l : SMap} (n : Nat) (h : Sorted l) : Sorted (aerase l n) :=
  List.Pairwise.sublist (aerase_sublist l n) h

theorem forward_sub (l : SMap) (thr : Nat) : ∀ x ∈ (l.forward thr).2, x ∈ l := (forward_sublist l thr).subset

/-! ### the two-way invariant between `validTxMap` and the per-sender lists -/

/-- `tx.Nonce + 1` does not wrap for the EIP-155 transactions of the history -/
def NonceBound (U : List Tx) : Prop := ∀ t ∈ U, t.eip = true → t.nonce + 1 < two32

structure PoolInv2 (p : Pool) : Prop where
  keys : (p.eip.map (·.1)).Nodup
  slots : ∀ a l, alookup p.eip a = some l → Sorted l ∧ ∀ n t, alookup l n = some t → t.nonce = n ∧ t.payer = a
  fwd : ∀ h e, alookup p.valid h = some e → e.tx.eip = true →
    ∃ l, alookup p.eip e.tx.payer = some l ∧ alookup l e.tx.nonce = some e.tx
  bwd : ∀ a l n t, alookup p.eip a = some l → alookup l n = some t → ∃ e, alookup p.valid t.hash = some e ∧ e.tx = t
  usr : ∀ a l, alookup p.eip a = some l → l ≠ [] → (alookup p.user a).isSome = true

theorem PoolInv2.empty : PoolInv2 Pool.empty :=
  ⟨by simp [Pool.empty], by simp [Pool.empty, alookup], by simp [Pool.empty, alookup], by simp [Pool.empty, alookup],
   by simp [Pool.empty, alookup]⟩

theorem list_tx_ok {U c p} (hi : PoolInv U c p) {a : Nat} {l : SMap} {n : Nat} {t : Tx}
    (ha : alookup p.eip a = some l) (hn : alookup l n = some t) : t.eip = true ∧ t ∈ U :=
  hi.lists t (mem_eipTxs.mpr ⟨a, l, n, alookup_some_mem ha, alookup_some_mem hn⟩)

theorem valid_ent {U c p} (hi : PoolInv U c p) {h : Nat} {e : VTx} (hl : alookup p.valid h = some e) : EntryOK U c h e :=
  hi.ent _ (alookup_some_mem hl)

/-- the state after an accepted EIP-155 submission (`L` = the sender's list before, `rep` = what sat in the slot) -/
theorem inv2_accept {U c p} (hi : PoolInv U c p) (h2 : PoolInv2 p) (hc : NoCollision U) (e : VTx)
    (hu : e.tx ∈ U) (he : e.tx.eip = true) (L : SMap) (hL : (alookup p.eip e.tx.payer).getD [] = L)
    (rep : Option Tx) (hrep : alookup L e.tx.nonce = rep) (user' : List (Nat × UserInfo))
    (hus : ∀ a, (alookup p.user a).isSome = true → (alookup user' a).isSome = true)
    (hup : (alookup user' e.tx.payer).isSome = true) :
    alookup (dropReplaced p rep).valid e.tx.hash = none ∧
    PoolInv2 ⟨ainsert (dropReplaced p rep).valid e.tx.hash e, ainsert p.eip e.tx.payer (L.put e.tx), user'⟩ := by
  generalize hV : (dropReplaced p rep).valid = V
  have hl0 : ∀ l, alookup p.eip e.tx.payer = some l → L = l := by
    intro l hl; rw [← hL]; simp [hl]
  have sl0 : Sorted L ∧
      ∀ n x, alookup L n = some x → x.nonce = n ∧ x.payer = e.tx.payer ∧ x ∈ U ∧
        ∃ ex, alookup p.valid x.hash = some ex ∧ ex.tx = x := by
    cases hl : alookup p.eip e.tx.payer with
    | none =>
      have : L = [] := by rw [← hL]; simp [hl]
      subst this; simp [Sorted, alookup]
    | some l =>
      have := hl0 l hl; subst this
      refine ⟨(h2.slots _ L hl).1, ?_⟩
      intro n x hx
      exact ⟨((h2.slots _ L hl).2 n x hx).1, ((h2.slots _ L hl).2 n x hx).2, (list_tx_ok hi hl hx).2, h2.bwd _ L n x hl hx⟩
  have fwd0 : ∀ h' e', alookup p.valid h' = some e' → e'.tx.eip = true → e'.tx.payer = e.tx.payer →
      alookup L e'.tx.nonce = some e'.tx := by
    intro h' e' hv hee hp
    obtain ⟨l, hl, hn⟩ := h2.fwd h' e' hv hee
    rw [hp] at hl
    rw [hl0 l hl]; exact hn
  -- lookups in V
  have hVsub : ∀ h' e', alookup V h' = some e' → alookup p.valid h' = some e' ∧ (∀ o, rep = some o → o.hash ≠ h') := by
    intro h' e' hv
    rw [← hV] at hv
    cases rep with
    | none => exact ⟨hv, fun o ho => by cases ho⟩
    | some o =>
      simp only [dropReplaced, alookup_aerase] at hv
      by_cases ho : o.hash = h'
      · simp [ho] at hv
      · simp only [ho, if_false] at hv
        exact ⟨hv, fun o' ho' => by cases ho'; exact ho⟩
  have hVsup : ∀ h' e', alookup p.valid h' = some e' → (∀ o, rep = some o → o.hash ≠ h') → alookup V h' = some e' := by
    intro h' e' hv hno
    rw [← hV]
    cases rep with
    | none => exact hv
    | some o =>
      simp only [dropReplaced, alookup_aerase]
      simp [hno o rfl, hv]
  have hfresh : alookup V e.tx.hash = none := by
    cases hv : alookup V e.tx.hash with
    | none => rfl
    | some e0 =>
      obtain ⟨hv0, hno⟩ := hVsub _ _ hv
      have h0 := valid_ent hi hv0
      have e0t : e0.tx = e.tx := hc _ h0.2.1 _ hu h0.1
      have := fwd0 _ _ hv0 (by rw [e0t]; exact he) (by rw [e0t])
      rw [e0t, hrep] at this
      exact absurd rfl (hno e.tx this)
  refine ⟨hfresh, ?_, ?_, ?_, ?_, ?_⟩
  · exact keys_ainsert_nodup _ _ h2.keys
  · intro a l hal
    simp only [alookup_ainsert] at hal
    by_cases hp : e.tx.payer = a
    · rw [if_pos hp] at hal
      have hal' := Option.some.inj hal
      subst hal'
      refine ⟨put_sorted _ sl0.1, ?_⟩
      intro n t ht
      rw [alookup_put] at ht
      by_cases hn : e.tx.nonce = n
      · rw [if_pos hn] at ht; have := Option.some.inj ht; subst this; exact ⟨hn, hp⟩
      · rw [if_neg hn] at ht
        exact ⟨(sl0.2 n t ht).1, hp ▸ (sl0.2 n t ht).2.1⟩
    · rw [if_neg hp] at hal
      exact h2.slots a l hal
  · intro h' e' hv hee
    simp only [alookup_ainsert] at hv ⊢
    by_cases hh : e.tx.hash = h'
    · rw [if_pos hh] at hv
      have := Option.some.inj hv; subst this
      exact ⟨L.put e.tx, by simp, by rw [alookup_put]; simp⟩
    · rw [if_neg hh] at hv
      obtain ⟨hv0, hno⟩ := hVsub _ _ hv
      by_cases hp : e'.tx.payer = e.tx.payer
      · refine ⟨L.put e.tx, by simp [hp], ?_⟩
        rw [alookup_put]
        have hold := fwd0 _ _ hv0 hee hp
        by_cases hn : e.tx.nonce = e'.tx.nonce
        · -- the slot of `e'` is the one being written: then `e'` is the replaced transaction, which left `V`
          rw [← hn, hrep] at hold
          have := (valid_ent hi hv0).1
          exact absurd this (hno e'.tx hold)
        · simp [hn, hold]
      · obtain ⟨l, hl, hn⟩ := h2.fwd h' e' hv0 hee
        have : ¬ e.tx.payer = e'.tx.payer := fun x => hp x.symm
        exact ⟨l, by simp [this, hl], hn⟩
  · intro a l n t hal hn
    simp only [alookup_ainsert] at hal ⊢
    -- the replaced transaction, if any, sits in the written slot of this sender
    have hrepo : ∀ o, rep = some o → o.nonce = e.tx.nonce ∧ o.payer = e.tx.payer ∧ o ∈ U := by
      intro o ho
      rw [ho] at hrep
      exact ⟨(sl0.2 _ o hrep).1, (sl0.2 _ o hrep).2.1, (sl0.2 _ o hrep).2.2.1⟩
    by_cases hp : e.tx.payer = a
    · rw [if_pos hp] at hal
      have hal' := Option.some.inj hal
      subst hal'
      rw [alookup_put] at hn
      by_cases hnn : e.tx.nonce = n
      · rw [if_pos hnn] at hn; have := Option.some.inj hn; subst this
        exact ⟨e, by simp, rfl⟩
      · rw [if_neg hnn] at hn
        obtain ⟨x1, _, xu, ex, hex, hext⟩ := sl0.2 n t hn
        have hne : ¬ e.tx.hash = t.hash := by
          intro hh
          have : t = e.tx := hc _ xu _ hu hh.symm
          exact hnn (by rw [← this]; exact x1)
        refine ⟨ex, ?_, hext⟩
        rw [if_neg hne]
        apply hVsup _ _ hex
        intro o ho hh
        have : o = t := hc _ (hrepo o ho).2.2 _ xu hh
        exact hnn (by rw [← (hrepo o ho).1, this]; exact x1)
    · rw [if_neg hp] at hal
      obtain ⟨ex, hex, hext⟩ := h2.bwd a l n t hal hn
      have tok := list_tx_ok hi hal hn
      have tpa := ((h2.slots a l hal).2 n t hn).2
      have hne : ¬ e.tx.hash = t.hash := by
        intro hh
        have : t = e.tx := hc _ tok.2 _ hu hh.symm
        exact hp (by rw [← this]; exact tpa)
      refine ⟨ex, ?_, hext⟩
      rw [if_neg hne]
      apply hVsup _ _ hex
      intro o ho hh
      have : o = t := hc _ (hrepo o ho).2.2 _ tok.2 hh
      exact hp (by rw [← (hrepo o ho).2.1, this]; exact tpa)
  · intro a l hal hne
    simp only [alookup_ainsert] at hal
    by_cases hp : e.tx.payer = a
    · rw [← hp]; exact hup
    · rw [if_neg hp] at hal
      exact hus a (h2.usr a l hal hne)

theorem inv2_congr {p q : Pool} (h2 : PoolInv2 p) (hv : q.valid = p.valid) (hu : q.user = p.user)
    (hk : (q.eip.map (·.1)).Nodup) (he : ∀ a, alookup q.eip a = alookup p.eip a) : PoolInv2 q :=
  ⟨hk, fun a l hal => h2.slots a l (by rw [← he]; exact hal),
   fun h e hve hee => by
    rw [hv] at hve
    obtain ⟨l, hl, hn⟩ := h2.fwd h e hve hee
    exact ⟨l, by rw [he]; exact hl, hn⟩,
   fun a l n t hal hn => by rw [hv]; exact h2.bwd a l n t (by rw [← he]; exact hal) hn,
   fun a l hal hne => by rw [hu]; exact h2.usr a l (by rw [← he]; exact hal) hne⟩

theorem addTxList_inv2 {U c p} (hi : PoolInv U c p) (h2 : PoolInv2 p) (hc : NoCollision U) (e : VTx) (hu : e.tx ∈ U) :
    PoolInv2 (addTxList p e).2.2 := by
  unfold addTxList
  by_cases he : e.tx.eip = true
  · rw [if_pos he]
    split
    · exact h2
    · -- what sits in the slot
      generalize hL : (alookup p.eip e.tx.payer).getD [] = L
      have hus : ∀ q : Pool, q.user = p.user → ∀ a, (alookup p.user a).isSome = true → (alookup (noteUser q e).user a).isSome = true := by
        intro q hq a ha
        unfold noteUser
        split
        · simp only [alookup_ainsert]
          by_cases hp : e.tx.payer = a
          · simp [hp]
          · simp only [hp, if_false]; rw [hq]; exact ha
        · rw [hq]; exact ha
      have hup : ∀ q : Pool, (alookup (noteUser q e).user e.tx.payer).isSome = true := by
        intro q
        unfold noteUser
        split
        · simp [alookup_ainsert]
        · rename_i x hx; simp [hx]
      have hnv : ∀ q : Pool, (noteUser q e).valid = q.valid ∧ (noteUser q e).eip = q.eip := by
        intro q; unfold noteUser; split <;> exact ⟨rfl, rfl⟩
      cases hslot : alookup L e.tx.nonce with
      | none =>
        have hae : addEip p e.tx = (none, true, { p with eip := ainsert p.eip e.tx.payer (L.put e.tx) }) := by
          unfold addEip; simp only [hL, SMap.get, hslot]
        simp only [hae, dropReplaced, Bool.not_true, Bool.false_eq_true, if_false]
        obtain ⟨hf, hinv⟩ := inv2_accept hi h2 hc e hu he L hL none hslot
          (noteUser { p with eip := ainsert p.eip e.tx.payer (L.put e.tx) } e).user (hus _ rfl) (hup _)
        simp only [dropReplaced] at hf hinv
        unfold addValid
        rw [(hnv _).1]
        simp only [hf]
        have : (noteUser { p with eip := ainsert p.eip e.tx.payer (L.put e.tx) } e).eip = ainsert p.eip e.tx.payer (L.put e.tx) := (hnv _).2
        have hv' := (hnv { p with eip := ainsert p.eip e.tx.payer (L.put e.tx) }).1
        refine inv2_congr hinv ?_ rfl ?_ ?_
        · simp only
        · simp only [this]; exact hinv.keys
        · intro a; simp only [this]
      | some o =>
        by_cases hr : replaces e.tx.price o.price = true
        · have hae : addEip p e.tx = (some o, true, { p with eip := ainsert p.eip e.tx.payer (L.put e.tx) }) := by
            unfold addEip; simp only [hL, SMap.get, hslot, hr, if_true]
          simp only [hae, dropReplaced, Bool.not_true, Bool.false_eq_true, if_false]
          obtain ⟨hf, hinv⟩ := inv2_accept hi h2 hc e hu he L hL (some o) hslot
            (noteUser { valid := aerase p.valid o.hash, eip := ainsert p.eip e.tx.payer (L.put e.tx), user := p.user } e).user
            (hus _ rfl) (hup _)
          simp only [dropReplaced] at hf hinv
          unfold addValid
          rw [(hnv _).1]
          simp only [hf]
          have := (hnv { valid := aerase p.valid o.hash, eip := ainsert p.eip e.tx.payer (L.put e.tx), user := p.user }).2
          have hv' := (hnv { valid := aerase p.valid o.hash, eip := ainsert p.eip e.tx.payer (L.put e.tx), user := p.user }).1
          refine inv2_congr hinv ?_ rfl ?_ ?_
          · simp only
          · simp only [this]; exact hinv.keys
          · intro a; simp only [this]
        · have hae : addEip p e.tx = (none, false, { p with eip := ainsert p.eip e.tx.payer L }) := by
            unfold addEip; simp only [hL, SMap.get, hslot, hr]; simp
          simp only [hae, dropReplaced, Bool.not_false, if_true]
          -- the list existed (it has an element), re-inserting it changes no lookup
          have hex : alookup p.eip e.tx.payer = some L := by
            cases hl : alookup p.eip e.tx.payer with
            | none => rw [hl] at hL; simp at hL; subst hL; simp [alookup] at hslot
            | some l => rw [hl] at hL; simp at hL; rw [hL]
          refine inv2_congr h2 rfl rfl (keys_ainsert_nodup _ _ h2.keys) ?_
          intro a
          simp only [alookup_ainsert]
          by_cases hp : e.tx.payer = a
          · simp [hp, ← hex]
          · simp [hp]
  · rw [if_neg he]
    unfold addValid
    split
    · exact h2
    · rename_i hn
      simp only
      refine ⟨h2.keys, h2.slots, ?_, ?_, h2.usr⟩
      · intro h' e' hv hee
        simp only [alookup_ainsert] at hv
        by_cases hh : e.tx.hash = h'
        · rw [if_pos hh] at hv; have := Option.some.inj hv; subst this; exact absurd hee he
        · rw [if_neg hh] at hv; exact h2.fwd h' e' hv hee
      · intro a l n t hal hnn
        obtain ⟨ex, hex, hext⟩ := h2.bwd a l n t hal hnn
        refine ⟨ex, ?_, hext⟩
        simp only [alookup_ainsert]
        have tok := list_tx_ok hi hal hnn
        have : ¬ e.tx.hash = t.hash := by
          intro hh
          have : t = e.tx := hc _ tok.2 _ hu hh.symm
          rw [this] at tok; exact he tok.1
        rw [if_neg this]; exact hex

theorem alookup_remove (l : SMap) (n n' : Nat) : alookup (l.remove n).2 n' = if n = n' then none else alookup l n' := by
  unfold SMap.remove
  split
  · rename_i hn
    by_cases h : n = n'
    · subst h; simp [hn]
    · simp [h]
  · exact alookup_aerase l n n'

theorem remove_sorted {l : SMap} (n : Nat) (h : Sorted l) : Sorted (l.remove n).2 :=
  List.Pairwise.sublist (remove_sublist l n) h

/-- what one iteration of the expiry loop needs from the transaction it removes -/
structure RemPre (U : List Tx) (q : Pool) (t : Tx) : Prop where
  inU : t ∈ U
  key : t.eip = true → (alookup q.eip t.payer).isSome = true
  slot : t.eip = true → ((alookup q.valid t.hash).isSome = true ∨
    (∀ l, alookup q.eip t.payer = some l → alookup l t.nonce = none))

def remStep (q : Pool) (t : Tx) : Pool :=
  if t.eip then
    match alookup q.eip t.payer with
    | some l => { q with valid := aerase q.valid t.hash, eip := ainsert q.eip t.payer (l.remove t.nonce).2 }
    | none => { q with valid := aerase q.valid t.hash }
  else { q with valid := aerase q.valid t.hash }

theorem remStep_shrink (q : Pool) (t : Tx) : Shrink (remStep q t) q := by
  unfold remStep
  split
  · split
    · rename_i l hl
      exact ⟨aerase_sublist _ _, eipTxs_ainsert_sub (p := ⟨aerase q.valid t.hash, q.eip, q.user⟩) hl (remove_sublist l _)⟩
    · exact ⟨aerase_sublist _ _, fun _ h => h⟩
  · exact ⟨aerase_sublist _ _, fun _ h => h⟩

theorem remStep_inv2 {U c q} (hi : PoolInv U c q) (h2 : PoolInv2 q) (hc : NoCollision U) {t : Tx} (hp : RemPre U q t) :
    PoolInv2 (remStep q t) := by
  unfold remStep
  by_cases he : t.eip = true
  · rw [if_pos he]
    cases hl : alookup q.eip t.payer with
    | none => have := hp.key he; rw [hl] at this; cases this
    | some l =>
      simp only
      have hsl := h2.slots _ l hl
      refine ⟨keys_ainsert_nodup _ _ h2.keys, ?_, ?_, ?_, ?_⟩
      · intro a l' hal
        simp only [alookup_ainsert] at hal
        by_cases hpa : t.payer = a
        · rw [if_pos hpa] at hal
          have := Option.some.inj hal; subst this
          refine ⟨remove_sorted _ hsl.1, ?_⟩
          intro n x hx
          rw [alookup_remove] at hx
          by_cases hn : t.nonce = n
          · simp [hn] at hx
          · rw [if_neg hn] at hx; exact hpa ▸ hsl.2 n x hx
        · rw [if_neg hpa] at hal; exact h2.slots a l' hal
      · intro h' e' hv hee
        simp only [alookup_aerase] at hv
        by_cases hh : t.hash = h'
        · simp [hh] at hv
        · rw [if_neg hh] at hv
          obtain ⟨l0, hl0, hn0⟩ := h2.fwd h' e' hv hee
          simp only [alookup_ainsert]
          by_cases hpa : t.payer = e'.tx.payer
          · rw [if_pos hpa]
            rw [← hpa, hl] at hl0
            have := Option.some.inj hl0; subst this
            refine ⟨_, rfl, ?_⟩
            rw [alookup_remove]
            by_cases hn : t.nonce = e'.tx.nonce
            · -- the slot being removed holds `e'.tx`: then `t` is that transaction
              exfalso
              rcases hp.slot he with hs | hs
              · cases hv0 : alookup q.valid t.hash with
                | none => rw [hv0] at hs; cases hs
                | some et =>
                  have het := valid_ent hi hv0
                  have : et.tx = t := hc _ het.2.1 _ hp.inU het.1
                  obtain ⟨l1, hl1, hn1⟩ := h2.fwd _ et hv0 (by rw [this]; exact he)
                  rw [this, hl] at hl1
                  have := Option.some.inj hl1; subst this
                  rw [this, hn, hn0] at hn1
                  have h3 : e'.tx = t := Option.some.inj hn1
                  exact hh (by rw [← h3]; exact (valid_ent hi hv).1)
              · have := hs l hl
                rw [hn, hn0] at this; cases this
            · rw [if_neg hn]; exact hn0
          · rw [if_neg hpa]; exact ⟨l0, hl0, hn0⟩
      · intro a l' n x hal hnx
        simp only [alookup_ainsert] at hal
        simp only [alookup_aerase]
        have hitem : ∃ l0, alookup q.eip a = some l0 ∧ alookup l0 n = some x ∧ ¬ (t.payer = a ∧ t.nonce = n) := by
          by_cases hpa : t.payer = a
          · rw [if_pos hpa] at hal
            have := Option.some.inj hal; subst this
            rw [alookup_remove] at hnx
            by_cases hn : t.nonce = n
            · simp [hn] at hnx
            · rw [if_neg hn] at hnx
              exact ⟨l, hpa ▸ hl, hnx, fun h => hn h.2⟩
          · rw [if_neg hpa] at hal; exact ⟨l', hal, hnx, fun h => hpa h.1⟩
        obtain ⟨l0, hl0, hn0, hne⟩ := hitem
        obtain ⟨ex, hex, hext⟩ := h2.bwd a l0 n x hl0 hn0
        refine ⟨ex, ?_, hext⟩
        have xs := (h2.slots a l0 hl0).2 n x hn0
        have : ¬ t.hash = x.hash := by
          intro hh
          have : x = t := hc _ (list_tx_ok hi hl0 hn0).2 _ hp.inU hh.symm
          exact hne ⟨by rw [← this]; exact xs.2, by rw [← this]; exact xs.1⟩
        rw [if_neg this]; exact hex
      · intro a l' hal hne
        simp only [alookup_ainsert] at hal
        by_cases hpa : t.payer = a
        · rw [if_pos hpa] at hal
          have := Option.some.inj hal; subst this
          apply h2.usr a l (hpa ▸ hl)
          intro e; subst e; simp [SMap.remove, alookup] at hne
        · rw [if_neg hpa] at hal; exact h2.usr a l' hal hne
  · rw [if_neg he]
    refine ⟨h2.keys, h2.slots, ?_, ?_, h2.usr⟩
    · intro h' e' hv hee
      simp only [alookup_aerase] at hv
      by_cases hh : t.hash = h'
      · simp [hh] at hv
      · rw [if_neg hh] at hv; exact h2.fwd h' e' hv hee
    · intro a l n x hal hnx
      obtain ⟨ex, hex, hext⟩ := h2.bwd a l n x hal hnx
      refine ⟨ex, ?_, hext⟩
      simp only [alookup_aerase]
      have tok := list_tx_ok hi hal hnx
      have : ¬ t.hash = x.hash := by
        intro hh
        have : x = t := hc _ tok.2 _ hp.inU hh.symm
        rw [this] at tok; exact he tok.1
      rw [if_neg this]; exact hex

/-- the precondition of the remaining transactions survives an iteration -/
theorem remPre_step {U q} (hc : NoCollision U) {t t' : Tx} (hp : RemPre U q t) (hp' : RemPre U q t') :
    RemPre U (remStep q t) t' := by
  refine ⟨hp'.inU, ?_, ?_⟩
  · intro he'
    have := hp'.key he'
    unfold remStep
    split
    · split
      · simp only [alookup_ainsert]
        by_cases h : t.payer = t'.payer <;> simp [h, this]
      · exact this
    · exact this
  · intro he'
    have hval : ∀ h', alookup (remStep q t).valid h' = if t.hash = h' then none else alookup q.valid h' := by
      intro h'; unfold remStep; split
      · split <;> exact alookup_aerase _ _ _
      · exact alookup_aerase _ _ _
    by_cases hh : t.hash = t'.hash
    · -- same transaction twice in the list: its slot is empty now
      have ht : t' = t := hc _ hp'.inU _ hp.inU hh.symm
      subst ht
      right
      intro l' hl'
      unfold remStep at hl'
      rw [if_pos he'] at hl'
      cases hl : alookup q.eip t'.payer with
      | none => have := hp.key he'; rw [hl] at this; cases this
      | some l =>
        simp only [hl, alookup_ainsert, if_true, Option.some.injEq] at hl'
        subst hl'
        rw [alookup_remove]; simp
    · rcases hp'.slot he' with hs | hs
      · left; rw [hval, if_neg hh]; exact hs
      · right
        intro l' hl'
        unfold remStep at hl'
        by_cases he : t.eip = true
        · rw [if_pos he] at hl'
          cases hl : alookup q.eip t.payer with
          | none => have := hp.key he; rw [hl] at this; cases this
          | some l =>
            simp only [hl, alookup_ainsert] at hl'
            by_cases hpa : t.payer = t'.payer
            · rw [if_pos hpa] at hl'
              have := Option.some.inj hl'; subst this
              rw [alookup_remove]
              by_cases hn : t.nonce = t'.nonce
              · simp [hn]
              · rw [if_neg hn]; exact hs l (hpa ▸ hl)
            · rw [if_neg hpa] at hl'; exact hs l' hl'
        · rw [if_neg he] at hl'; exact hs l' hl'

/-- the expiry loop never dereferences a missing sender list and keeps the two-way invariant -/
theorem removeOld_inv2 {U c} (hc : NoCollision U) (old : List Tx) :
    ∀ {p : Pool}, PoolInv U c p → PoolInv2 p → (∀ t ∈ old, RemPre U p t) →
      ∃ p', removeOld p old = some p' ∧ PoolInv2 p' := by
  induction old with
  | nil => intro p _ h2 _; exact ⟨p, rfl, h2⟩
  | cons t r ih =>
    intro p hi h2 hpre
    have hpt := hpre t (by simp)
    have hstep : removeOld p (t :: r) = removeOld (remStep p t) r := by
      simp only [removeOld, remStep]
      by_cases he : t.eip = true
      · simp only [he, if_true]
        cases hl : alookup p.eip t.payer with
        | none => have := hpt.key he; rw [hl] at this; cases this
        | some l => rfl
      · simp only [he]; rfl
    rw [hstep]
    exact ih (hi.shrink (remStep_shrink p t)) (remStep_inv2 hi h2 hc hpt)
      (fun t' ht' => remPre_step hc hpt (hpre t' (List.mem_cons_of_mem _ ht')))

theorem splitExpired_old (height count : Nat) (xs acc : List VTx) :
    ∀ t ∈ (splitExpired height count xs acc).2, ∃ e ∈ xs, e.tx = t := by
  induction xs generalizing acc with
  | nil => simp [splitExpired]
  | cons e r ih =>
    simp only [splitExpired]
    split
    · intro t ht
      simp only [List.mem_cons] at ht
      rcases ht with rfl | ht
      · exact ⟨e, by simp, rfl⟩
      · obtain ⟨e', he', h⟩ := ih acc t ht; exact ⟨e', List.mem_cons_of_mem _ he', h⟩
    · split
      · intro t ht; obtain ⟨e', he', h⟩ := ih _ t ht; exact ⟨e', List.mem_cons_of_mem _ he', h⟩
      · intro t ht; obtain ⟨e', he', h⟩ := ih _ t ht; exact ⟨e', List.mem_cons_of_mem _ he', h⟩

/-- a transaction of a `validTxMap` entry satisfies the loop's precondition -/
theorem remPre_of_entry {U c p} (hi : PoolInv U c p) (h2 : PoolInv2 p) {h : Nat} {e : VTx} (hm : (h, e) ∈ p.valid) :
    RemPre U p e.tx := by
  have hl := alookup_of_mem hi.keys hm
  have hent := hi.ent _ hm
  have hh : e.tx.hash = h := hent.1
  refine ⟨hent.2.1, ?_, ?_⟩
  · intro he
    obtain ⟨l, hl1, _⟩ := h2.fwd h e hl he
    simp [hl1]
  · intro _; left; rw [hh, hl]; rfl

/-- **no nil dereference**: `GetTxPool` always returns, and the pool it leaves is well formed -/
theorem getTxPool_inv2 {U c p} (hi : PoolInv U c p) (h2 : PoolInv2 p) (hc : NoCollision U) (ord : Order) (ho : ord.IsPerm)
    (byCount : Bool) (height maxTx : Nat) :
    ∃ v old p', getTxPool p ord byCount height maxTx = some (v, old, p') ∧ PoolInv2 p' := by
  unfold getTxPool
  simp only
  generalize hsp : splitExpired height _ (candidates p ord) [] = sp
  obtain ⟨v, old⟩ := sp
  have hold : ∀ t ∈ old, RemPre U p t := by
    intro t ht
    have := splitExpired_old height _ (candidates p ord) [] t (by rw [hsp]; exact ht)
    obtain ⟨e, he, rfl⟩ := this
    exact remPre_of_entry hi h2 ((candidates_spec hi ho hc).1 e he)
  obtain ⟨p', hp', hinv⟩ := removeOld_inv2 hc old hi h2 hold
  exact ⟨v, old, p', by simp [hp'], hinv⟩

theorem removeBelow_inv2 {U c p} (hi : PoolInv U c p) (h2 : PoolInv2 p) (hc : NoCollision U) (g : Nat) :
    ∃ p', removeBelow p g = some p' ∧ PoolInv2 p' := by
  unfold removeBelow
  apply removeOld_inv2 hc _ hi h2
  intro t ht
  obtain ⟨e, he, rfl⟩ := List.mem_map.mp ht
  obtain ⟨⟨h, e'⟩, hm, rfl⟩ := List.mem_map.mp (List.mem_filter.mp he).1
  exact remPre_of_entry hi h2 hm

theorem remain_inv2 (p : Pool) : PoolInv2 (remain p).2 :=
  ⟨by simp [remain], by simp [remain, alookup], by simp [remain, alookup], by simp [remain, alookup], by simp [remain, alookup]⟩

theorem staleOne_inv2 {U c p} (hi : PoolInv U c p) (h2 : PoolInv2 p) (hc : NoCollision U) (height : Nat)
    (u : Nat × UserInfo) : PoolInv2 (staleOne p height u) := by
  unfold staleOne
  split
  · simp only
    cases hl : alookup p.eip u.1 with
    | none =>
      simp only
      refine ⟨h2.keys, h2.slots, h2.fwd, h2.bwd, ?_⟩
      intro a l hal hne
      simp only [alookup_aerase]
      have : ¬ u.1 = a := by intro e; rw [e] at hl; rw [hl] at hal; cases hal
      rw [if_neg this]; exact h2.usr a l hal hne
    | some l0 =>
      simp only
      refine ⟨keys_aerase_nodup _ h2.keys, ?_, ?_, ?_, ?_⟩
      · intro a l hal
        simp only [alookup_aerase] at hal
        by_cases ha : u.1 = a
        · simp [ha] at hal
        · rw [if_neg ha] at hal; exact h2.slots a l hal
      · intro h' e' hv hee
        rw [alookup_eraseAll] at hv
        split at hv
        · cases hv
        · rename_i hne
          obtain ⟨l, hl1, hn1⟩ := h2.fwd h' e' hv hee
          refine ⟨l, ?_, hn1⟩
          simp only [alookup_aerase]
          have : ¬ u.1 = e'.tx.payer := by
            intro e
            rw [← e, hl] at hl1
            have := Option.some.inj hl1; subst this
            apply hne
            exact ⟨e'.tx, List.mem_map.mpr ⟨(_, e'.tx), alookup_some_mem hn1, rfl⟩, (valid_ent hi hv).1⟩
          rw [if_neg this]; exact hl1
      · intro a l n x hal hnx
        simp only [alookup_aerase] at hal
        by_cases ha : u.1 = a
        · simp [ha] at hal
        · rw [if_neg ha] at hal
          obtain ⟨ex, hex, hext⟩ := h2.bwd a l n x hal hnx
          refine ⟨ex, ?_, hext⟩
          rw [alookup_eraseAll]
          have : ¬ ∃ y ∈ l0.map (·.2), y.hash = x.hash := by
            rintro ⟨y, hy, hyh⟩
            obtain ⟨⟨k, y'⟩, hky, rfl⟩ := List.mem_map.mp hy
            have hky' := (sorted_alookup_iff (h2.slots _ l0 hl).1 k y').mpr hky
            have : y' = x := hc _ (list_tx_ok hi hl hky').2 _ (list_tx_ok hi hal hnx).2 hyh
            have p1 := ((h2.slots _ l0 hl).2 k y' hky').2
            have p2 := ((h2.slots a l hal).2 n x hnx).2
            exact ha (by rw [← p1, this, p2])
          rw [if_neg this]; exact hex
      · intro a l hal hne
        simp only [alookup_aerase] at hal ⊢
        by_cases ha : u.1 = a
        · simp [ha] at hal
        · rw [if_neg ha] at hal ⊢; exact h2.usr a l hal hne
  · exact h2

theorem staleLoop_inv2 {U c} (hc : NoCollision U) (height : Nat) (us : List (Nat × UserInfo)) :
    ∀ {p : Pool}, PoolInv U c p → PoolInv2 p → PoolInv2 (staleLoop p height us) := by
  induction us with
  | nil => intro p _ h2; exact h2
  | cons u r ih =>
    intro p hi h2
    exact ih (hi.shrink (staleOne_shrink p height u)) (staleOne_inv2 hi h2 hc height u)

theorem cleanStaled_inv2 {U c p} (hi : PoolInv U c p) (h2 : PoolInv2 p) (hc : NoCollision U) (height : Nat) :
    PoolInv2 (cleanStaled p height) := by
  unfold cleanStaled
  split
  · exact staleLoop_inv2 hc height p.user hi h2
  · exact h2

/-- list-side part of the invariant -/
structure LInv (p : Pool) : Prop where
  keys : (p.eip.map (·.1)).Nodup
  slots : ∀ a l, alookup p.eip a = some l → Sorted l ∧ ∀ n t, alookup l n = some t → t.nonce = n ∧ t.payer = a
  usr : ∀ a l, alookup p.eip a = some l → l ≠ [] → (alookup p.user a).isSome = true

theorem PoolInv2.linv {p : Pool} (h : PoolInv2 p) : LInv p := ⟨h.keys, h.slots, h.usr⟩

/-- effect of `cleanCompletedEipTxPool` on the lists: `cleaned` = the transactions popped, `done` = the block transactions
processed -/
structure CleanRel (p p' : Pool) (cleaned done : List Tx) : Prop where
  valid : p'.valid = p.valid
  linv : LInv p'
  keep : ∀ a l n t, alookup p.eip a = some l → alookup l n = some t →
    t ∈ cleaned ∨ ∃ l1, alookup p'.eip a = some l1 ∧ alookup l1 n = some t
  old : ∀ a l1 n t, alookup p'.eip a = some l1 → alookup l1 n = some t → ∃ l, alookup p.eip a = some l ∧ alookup l n = some t
  above : ∀ b ∈ done, b.eip = true → ∀ l1, alookup p'.eip b.payer = some l1 → ∀ n t, alookup l1 n = some t → b.nonce + 1 ≤ n
  gone : ∀ t ∈ cleaned, ∀ l1, alookup p'.eip t.payer = some l1 → alookup l1 t.nonce = none
  wasItem : ∀ t ∈ cleaned, ∃ l, alookup p.eip t.payer = some l ∧ alookup l t.nonce = some t

theorem CleanRel.refl {p : Pool} (h : LInv p) : CleanRel p p [] [] :=
  ⟨rfl, h, fun a l n t ha hn => Or.inr ⟨l, ha, hn⟩, fun a l n t ha hn => ⟨l, ha, hn⟩, by simp, by simp, by simp⟩

theorem CleanRel.trans {p p1 p2 : Pool} {c1 c2 d1 d2 : List Tx} (r1 : CleanRel p p1 c1 d1) (r2 : CleanRel p1 p2 c2 d2) :
    CleanRel p p2 (c1 ++ c2) (d1 ++ d2) := by
  refine ⟨r2.valid.trans r1.valid, r2.linv, ?_, ?_, ?_, ?_, ?_⟩
  · intro a l n t ha hn
    rcases r1.keep a l n t ha hn with h | ⟨l1, h1, h1n⟩
    · exact Or.inl (List.mem_append_left _ h)
    · rcases r2.keep a l1 n t h1 h1n with h | h
      · exact Or.inl (List.mem_append_right _ h)
      · exact Or.inr h
  · intro a l2 n t ha hn
    obtain ⟨l1, h1, h1n⟩ := r2.old a l2 n t ha hn
    exact r1.old a l1 n t h1 h1n
  · intro b hb he l2 hl2 n t hn
    rcases List.mem_append.mp hb with hb | hb
    · obtain ⟨l1, h1, h1n⟩ := r2.old _ l2 n t hl2 hn
      exact r1.above b hb he l1 h1 n t h1n
    · exact r2.above b hb he l2 hl2 n t hn
  · intro t ht l2 hl2
    rcases List.mem_append.mp ht with ht | ht
    · cases hx : alookup l2 t.nonce with
      | none => rfl
      | some x =>
        obtain ⟨l1, h1, h1n⟩ := r2.old _ l2 _ x hl2 hx
        rw [r1.gone t ht l1 h1] at h1n; cases h1n
    · exact r2.gone t ht l2 hl2
  · intro t ht
    rcases List.mem_append.mp ht with ht | ht
    · exact r1.wasItem t ht
    · obtain ⟨l1, h1, h1n⟩ := r2.wasItem t ht
      exact r1.old _ l1 _ t h1 h1n

theorem cleanOne_core {p q : Pool} (hL : LInv p) (b : Tx) (l : SMap) (hl : alookup p.eip b.payer = some l)
    (rm : List Tx) (l' : SMap) (f1 : Sorted l')
    (f2 : ∀ n, alookup l' n = if n < b.nonce + 1 then none else alookup l n)
    (f3 : ∀ t, t ∈ rm ↔ ∃ n, n < b.nonce + 1 ∧ alookup l n = some t)
    (hqv : q.valid = p.valid) (hqk : (q.eip.map (·.1)).Nodup)
    (hlk : ∀ a, alookup q.eip a = if b.payer = a then (if l' = [] then none else some l') else alookup p.eip a)
    (hqu : ∀ a, b.payer ≠ a → alookup q.user a = alookup p.user a)
    (hqup : l' ≠ [] → (alookup q.user b.payer).isSome = true) : CleanRel p q rm [b] := by
  have hsl := hL.slots _ l hl
  refine ⟨hqv, ⟨hqk, ?_, ?_⟩, ?_, ?_, ?_, ?_, ?_⟩
  · intro a l1 hal
    rw [hlk] at hal
    by_cases hp : b.payer = a
    · rw [if_pos hp] at hal
      by_cases hz : l' = []
      · simp [hz] at hal
      · rw [if_neg hz] at hal
        have := Option.some.inj hal; subst this
        refine ⟨f1, ?_⟩
        intro n t hn
        rw [f2] at hn
        split at hn
        · cases hn
        · exact hp ▸ hsl.2 n t hn
    · rw [if_neg hp] at hal; exact hL.slots a l1 hal
  · intro a l1 hal hne
    rw [hlk] at hal
    by_cases hp : b.payer = a
    · rw [if_pos hp] at hal
      by_cases hz : l' = []
      · simp [hz] at hal
      · rw [← hp]; exact hqup hz
    · rw [if_neg hp] at hal
      rw [hqu a hp]; exact hL.usr a l1 hal hne
  · intro a l0 n t ha hn
    by_cases hp : b.payer = a
    · rw [← hp, hl] at ha
      have := Option.some.inj ha; subst this
      by_cases hlt : n < b.nonce + 1
      · exact Or.inl ((f3 t).mpr ⟨n, hlt, hn⟩)
      · right
        have hl'n : alookup l' n = some t := by rw [f2, if_neg hlt]; exact hn
        have hz : l' ≠ [] := by intro e; rw [e] at hl'n; simp [alookup] at hl'n
        exact ⟨l', by rw [hlk, if_pos hp, if_neg hz], hl'n⟩
    · exact Or.inr ⟨l0, by rw [hlk, if_neg hp]; exact ha, hn⟩
  · intro a l1 n t ha hn
    rw [hlk] at ha
    by_cases hp : b.payer = a
    · rw [if_pos hp] at ha
      by_cases hz : l' = []
      · simp [hz] at ha
      · rw [if_neg hz] at ha
        have := Option.some.inj ha; subst this
        rw [f2] at hn
        split at hn
        · cases hn
        · exact ⟨l, hp ▸ hl, hn⟩
    · rw [if_neg hp] at ha; exact ⟨l1, ha, hn⟩
  · intro b' hb' _ l1 hl1 n t hn
    simp only [List.mem_singleton] at hb'; subst hb'
    rw [hlk, if_pos rfl] at hl1
    by_cases hz : l' = []
    · simp [hz] at hl1
    · rw [if_neg hz] at hl1
      have := Option.some.inj hl1; subst this
      rw [f2] at hn
      split at hn
      · cases hn
      · omega
  · intro t ht l1 hl1
    obtain ⟨n, hlt, hn⟩ := (f3 t).mp ht
    have ts := hsl.2 n t hn
    rw [hlk, ts.2, if_pos rfl] at hl1
    by_cases hz : l' = []
    · simp [hz] at hl1
    · rw [if_neg hz] at hl1
      have := Option.some.inj hl1; subst this
      rw [f2, ts.1, if_pos hlt]
  · intro t ht
    obtain ⟨n, hlt, hn⟩ := (f3 t).mp ht
    have ts := hsl.2 n t hn
    exact ⟨l, by rw [ts.2]; exact hl, by rw [ts.1]; exact hn⟩

theorem cleanEipOne_rel {p : Pool} (hL : LInv p) (height : Nat) (b : Tx) (hb : b.eip = true → b.nonce + 1 < two32) :
    CleanRel p (cleanEipOne p height b).2 (cleanEipOne p height b).1 [b] := by
  unfold cleanEipOne
  by_cases he : b.eip = true
  · rw [if_pos he]
    cases hl : alookup p.eip b.payer with
    | none =>
      simp only
      have := CleanRel.refl hL
      refine ⟨this.valid, this.linv, this.keep, this.old, ?_, this.gone, this.wasItem⟩
      intro b' hb' _ l1 hl1
      simp only [List.mem_singleton] at hb'; subst hb'
      rw [hl] at hl1; cases hl1
    | some l =>
      simp only
      have hthr : (b.nonce + 1) % two32 = b.nonce + 1 := Nat.mod_eq_of_lt (hb he)
      rw [hthr]
      have hsl := hL.slots _ l hl
      obtain ⟨f1, f2, f3⟩ := forward_spec hsl.1 (b.nonce + 1)
      generalize hfw : l.forward (b.nonce + 1) = fw at f1 f2 f3
      obtain ⟨rm, l'⟩ := fw
      simp only at f1 f2 f3 ⊢
      by_cases hz : l'.length = 0
      · have hz' : l' = [] := List.length_eq_zero_iff.mp hz
        rw [if_pos hz]
        apply cleanOne_core (q := { p with eip := aerase p.eip b.payer, user := aerase p.user b.payer }) hL b l hl rm l' f1 f2 f3 rfl (keys_aerase_nodup _ hL.keys)
        · intro a; simp only [alookup_aerase, hz', if_true]
        · intro a ha; simp only [alookup_aerase, if_neg ha]
        · intro hne; exact absurd hz' hne
      · have hz' : l' ≠ [] := fun e => hz (by rw [e]; rfl)
        rw [if_neg hz]
        apply cleanOne_core (q := { p with eip := ainsert p.eip b.payer l', user := ainsert p.user b.payer ⟨height, b.nonce + 1⟩ }) hL b l hl rm l' f1 f2 f3 rfl (keys_ainsert_nodup _ _ hL.keys)
        · intro a; simp only [alookup_ainsert, if_neg hz']
        · intro a ha; simp only [alookup_ainsert, if_neg ha]
        · intro _; simp [alookup_ainsert]
  · rw [if_neg he]
    have := CleanRel.refl hL
    refine ⟨this.valid, this.linv, this.keep, this.old, ?_, this.gone, this.wasItem⟩
    intro b' hb' he'
    simp only [List.mem_singleton] at hb'; subst hb'
    exact absurd he' he

theorem cleanEip_rel (height : Nat) (txs : List Tx) (hb : ∀ b ∈ txs, b.eip = true → b.nonce + 1 < two32) :
    ∀ {p : Pool}, LInv p → CleanRel p (cleanEip p height txs).2 (cleanEip p height txs).1 txs := by
  induction txs with
  | nil => intro p hL; exact CleanRel.refl hL
  | cons b r ih =>
    intro p hL
    simp only [cleanEip]
    have r1 := cleanEipOne_rel hL height b (hb b (by simp))
    have r2 := ih (fun b' hb' => hb b' (List.mem_cons_of_mem _ hb')) r1.linv
    exact r1.trans r2

theorem cleanCompleted_inv2 {U c p} (hi : PoolInv U c p) (h2 : PoolInv2 p) (hc : NoCollision U) (hb : NonceBound U)
    (txs : List Tx) (htx : ∀ t ∈ txs, t ∈ U) (height : Nat) : PoolInv2 (cleanCompleted p txs height) := by
  unfold cleanCompleted
  have rel := cleanEip_rel height txs (fun b hbm he => hb b (htx b hbm) he) h2.linv
  generalize hce : cleanEip p height txs = ce at rel
  obtain ⟨cleaned, p1⟩ := ce
  simp only at rel ⊢
  have hcu : ∀ t ∈ cleaned, t ∈ U ∧ t.eip = true := by
    intro t ht
    obtain ⟨l, hl, hn⟩ := rel.wasItem t ht
    exact ⟨(list_tx_ok hi hl hn).2, (list_tx_ok hi hl hn).1⟩
  have hlook : ∀ h', alookup (eraseAll p1.valid (txs ++ cleaned)) h' =
      if ∃ t ∈ txs ++ cleaned, t.hash = h' then none else alookup p.valid h' := by
    intro h'; rw [alookup_eraseAll, rel.valid]
  refine ⟨rel.linv.keys, rel.linv.slots, ?_, ?_, rel.linv.usr⟩
  · intro h' e' hv hee
    simp only at hv
    rw [hlook] at hv
    split at hv
    · cases hv
    · rename_i hne
      obtain ⟨l, hl, hn⟩ := h2.fwd h' e' hv hee
      rcases rel.keep _ l _ _ hl hn with hcl | hk
      · exact absurd ⟨e'.tx, List.mem_append_right _ hcl, (valid_ent hi hv).1⟩ hne
      · exact hk
  · intro a l1 n x hal hnx
    simp only at hal ⊢
    obtain ⟨l, hl, hn⟩ := rel.old a l1 n x hal hnx
    obtain ⟨ex, hex, hext⟩ := h2.bwd a l n x hl hn
    refine ⟨ex, ?_, hext⟩
    rw [hlook]
    have xok := list_tx_ok hi hl hn
    have xs := (h2.slots a l hl).2 n x hn
    have : ¬ ∃ t ∈ txs ++ cleaned, t.hash = x.hash := by
      rintro ⟨y, hy, hyh⟩
      rcases List.mem_append.mp hy with hy | hy
      · have : y = x := hc _ (htx y hy) _ xok.2 hyh
        subst this
        have := rel.above y hy xok.1 l1 (by rw [xs.2]; exact hal) n y hnx
        omega
      · have : y = x := hc _ (hcu y hy).1 _ xok.2 hyh
        subst this
        have := rel.gone y hy l1 (by rw [xs.2]; exact hal)
        rw [xs.1, hnx] at this; cases this
    rw [if_neg this]; exact hex

/-! ### the pool invariant over histories -/

structure SInv2 (U : List Tx) (s : Sys) : Prop where
  base : SInv U s
  pool2 : PoolInv2 s.pool
  chainU : ∀ b ∈ s.chain, ∀ t ∈ b, t ∈ U

/-- every `getPool`/`propose` of the history enumerates Go maps by a permutation -/
def OrdersOK (ops : List Op) : Prop :=
  ∀ op ∈ ops, ∀ ord bc h m, (op = .getPool ord bc h m ∨ op = .propose ord bc h m) → ord.IsPerm

theorem SInv2.step {U s} (h : SInv2 U s) (hc : NoCollision U) (hb : NonceBound U) (op : Op)
    (hu : ∀ t ∈ op.txs, t ∈ U) (hop : ∀ ord bc h m, (op = .getPool ord bc h m ∨ op = .propose ord bc h m) → ord.IsPerm) :
    SInv2 U (s.step op) := by
  have hs := h.base
  have h2 := h.pool2
  refine ⟨hs.step op hu, ?_, ?_⟩
  · cases op with
    | submit t lag =>
      simp only [Sys.step, Sys.submit]
      split
      · exact h2
      · split
        · exact h2
        · exact addTxList_inv2 hs.pool h2 hc _ (hu t (by simp [Op.txs]))
    | commit txs =>
      simp only [Sys.step, Sys.commit]
      split <;> exact h2
    | notify k =>
      simp only [Sys.step, Sys.notify]
      split <;> exact h2
    | cleanBlk k =>
      simp only [Sys.step, Sys.cleanBlk]
      split
      · rename_i b hbk
        exact cleanCompleted_inv2 hs.pool h2 hc hb b (h.chainU b (List.mem_of_getElem? hbk)) k
      · exact h2
    | getPool ord bc hh m =>
      obtain ⟨v, old, p', hg, hp'⟩ := getTxPool_inv2 hs.pool h2 hc ord (hop ord bc hh m (Or.inl rfl)) bc hh m
      simp only [Sys.step, hg]; exact hp'
    | propose ord bc hh m =>
      obtain ⟨v, old, p', hg, hp'⟩ := getTxPool_inv2 hs.pool h2 hc ord (hop ord bc hh m (Or.inr rfl)) bc (s.validHeight hh).1 m
      simp only [Sys.step, Sys.propose, hg, Option.map_some]; exact hp'
    | remain => exact remain_inv2 _
    | removeBelow g =>
      obtain ⟨p', hr, hp'⟩ := removeBelow_inv2 hs.pool h2 hc g
      simp only [Sys.step, hr]; exact hp'
    | cleanStaled hh => exact cleanStaled_inv2 hs.pool h2 hc hh
    | valClean => exact h2
  · cases op with
    | commit txs =>
      simp only [Sys.step, Sys.commit]
      split
      · intro b hbm t ht
        simp only [List.mem_append, List.mem_singleton] at hbm
        rcases hbm with hbm | rfl
        · exact h.chainU b hbm t ht
        · exact hu t (by simpa [Op.txs] using ht)
      · exact h.chainU
    | submit t lag =>
      simp only [Sys.step, Sys.submit]
      split
      · exact h.chainU
      · split <;> exact h.chainU
    | notify k => simp only [Sys.step, Sys.notify]; split <;> exact h.chainU
    | cleanBlk k => simp only [Sys.step, Sys.cleanBlk]; split <;> exact h.chainU
    | getPool ord bc hh m => simp only [Sys.step]; split <;> exact h.chainU
    | propose ord bc hh m =>
      simp only [Sys.step]
      split
      · rename_i vh out s' hp
        unfold Sys.propose at hp
        simp only [Option.map_eq_some_iff] at hp
        obtain ⟨⟨v, old, p⟩, _, he⟩ := hp
        simp only [Prod.mk.injEq] at he
        obtain ⟨_, _, rfl⟩ := he
        exact h.chainU
      · exact h.chainU
    | remain => exact h.chainU
    | removeBelow g => simp only [Sys.step]; split <;> exact h.chainU
    | cleanStaled hh => exact h.chainU
    | valClean => exact h.chainU

theorem SInv2.run {U} (hc : NoCollision U) (hb : NonceBound U) (ops : List Op) :
    ∀ {s : Sys}, SInv2 U s → (∀ op ∈ ops, ∀ t ∈ op.txs, t ∈ U) → OrdersOK ops → SInv2 U (s.run ops) := by
  induction ops with
  | nil => intro s h _ _; exact h
  | cons op r ih =>
    intro s h hu ho
    simp only [Sys.run]
    exact ih (h.step hc hb op (hu op (by simp)) (ho op (by simp)))
      (fun o hom => hu o (List.mem_cons_of_mem _ hom)) (fun o hom => ho o (List.mem_cons_of_mem _ hom))

/-- every reachable state satisfies the two-way pool invariant -/
theorem reachable_inv2 (acct0 : List (Nat × Nat)) (mb : Nat) (ops : List Op)
    (hc : NoCollision (ops.flatMap Op.txs)) (hb : NonceBound (ops.flatMap Op.txs)) (ho : OrdersOK ops) :
    SInv2 (ops.flatMap Op.txs) ((Sys.new acct0 mb).run ops) :=
  SInv2.run hc hb ops ⟨SInv.new _ _ _, PoolInv2.empty, by simp [Sys.new]⟩
    (fun op hom _ ht => List.mem_flatMap.mpr ⟨op, hom, ht⟩) ho

/-! ### the raw selection: per sender it is the sender's heading, a run of consecutive nonces -/

theorem headingFrom_nonces (l : SMap) (hk : ∀ x ∈ l, x.2.nonce = x.1) (n : Nat) :
    (SMap.headingFrom n l).map (·.nonce) = List.range' n (SMap.headingFrom n l).length := by
  induction l generalizing n with
  | nil => simp [SMap.headingFrom]
  | cons a r ih =>
    obtain ⟨k, x⟩ := a
    simp only [SMap.headingFrom]
    split
    · rename_i hkn
      have hx : x.nonce = k := hk (k, x) (by simp)
      simp only [List.map_cons, List.length_cons, List.range'_succ]
      rw [ih (fun y hy => hk y (List.mem_cons_of_mem _ hy)) (n + 1), hx, hkn]
    · simp

theorem heading_nonces (l : SMap) (hk : ∀ x ∈ l, x.2.nonce = x.1) :
    l.heading.map (·.nonce) = List.range' l.firstKey l.heading.length := by
  cases l with
  | nil => simp [SMap.heading]
  | cons a r => obtain ⟨k, x⟩ := a; exact headingFrom_nonces _ hk k

def flatQ (q : Tx → Bool) (ls : List (List Tx)) : List Tx := (ls.map (List.filter q)).flatten

/-- at most one of the lists has elements satisfying `q` -/
def Excl (q : Tx → Bool) (ls : List (List Tx)) : Prop := ls.Pairwise fun l1 l2 => ¬ (l1.any q = true ∧ l2.any q = true)

theorem popAt_flat {q : Tx → Bool} {ls : List (List Tx)} {i : Nat} {t : Tx} {ls' : List (List Tx)}
    (h : popAt ls i = some (t, ls')) (hx : Excl q ls) :
    flatQ q ls = (if q t then t :: flatQ q ls' else flatQ q ls') ∧ Excl q ls' ∧ totalLen ls = totalLen ls' + 1 := by
  induction ls generalizing i ls' with
  | nil => simp [popAt] at h
  | cons l r ih =>
    unfold Excl at hx
    rw [List.pairwise_cons] at hx
    cases i with
    | zero =>
      cases l with
      | nil => simp [popAt] at h
      | cons a l0 =>
        simp only [popAt, Option.some.injEq, Prod.mk.injEq] at h
        obtain ⟨rfl, rfl⟩ := h
        refine ⟨?_, ?_, ?_⟩
        · simp only [flatQ, List.map_cons, List.flatten_cons, List.filter_cons]
          by_cases hq : q a = true <;> simp [hq]
        · unfold Excl
          rw [List.pairwise_cons]
          refine ⟨?_, hx.2⟩
          intro l2 hl2 hh
          exact hx.1 l2 hl2 ⟨by simp [List.any_cons, hh.1], hh.2⟩
        · simp [totalLen]; omega
    | succ j =>
      simp only [popAt, Option.map_eq_some_iff] at h
      obtain ⟨⟨t0, r'⟩, hp, he⟩ := h
      simp only [Prod.mk.injEq] at he
      obtain ⟨rfl, rfl⟩ := he
      obtain ⟨i1, i2, i3⟩ := ih hp hx.2
      obtain ⟨⟨l2, hl2, htl2⟩, hsub⟩ := popAt_mem hp
      refine ⟨?_, ?_, ?_⟩
      · simp only [flatQ, List.map_cons, List.flatten_cons] at i1 ⊢
        rw [i1]
        by_cases hq : q t0 = true
        · -- `l` has no `q` element, because `l2 ∋ t0` has one
          have : l.filter q = [] := by
            rw [List.filter_eq_nil_iff]
            intro a ha hqa
            exact hx.1 l2 hl2 ⟨List.any_eq_true.mpr ⟨a, ha, hqa⟩, List.any_eq_true.mpr ⟨t0, htl2, hq⟩⟩
          simp [hq, this]
        · simp [hq]
      · unfold Excl
        rw [List.pairwise_cons]
        refine ⟨?_, i2⟩
        intro l' hl' hh
        obtain ⟨l3, hl3, hs3⟩ := hsub l' hl'
        apply hx.1 l3 hl3
        refine ⟨hh.1, ?_⟩
        obtain ⟨a, ha, hqa⟩ := List.any_eq_true.mp hh.2
        exact List.any_eq_true.mpr ⟨a, hs3 a ha, hqa⟩
      · simp only [totalLen]; omega

theorem popAt_shift {l : List Tx} {r : List (List Tx)} {i j : Nat} {t : Tx} {ls' : List (List Tx)} (hle : i + 1 ≤ j)
    (h : popAt r (j - (i + 1)) = some (t, ls')) : ∃ t' ls'', popAt (l :: r) (j - i) = some (t', ls'') := by
  have : j - i = (j - (i + 1)) + 1 := by omega
  rw [this]
  exact ⟨t, l :: ls', by simp [popAt, h]⟩

theorem pickGo_some (ls : List (List Tx)) : ∀ (i : Nat) (best : Option (Nat × Nat)) (j pr : Nat),
    pickGo ls i best = some (j, pr) → best = some (j, pr) ∨ (i ≤ j ∧ ∃ t ls', popAt ls (j - i) = some (t, ls')) := by
  induction ls with
  | nil => intro i best j pr h; simp only [pickGo] at h; exact Or.inl h
  | cons l r ih =>
    intro i best j pr h
    cases l with
    | nil =>
      simp only [pickGo] at h
      rcases ih (i + 1) best j pr h with h1 | ⟨hle, t, ls', hpop⟩
      · exact Or.inl h1
      · exact Or.inr ⟨by omega, popAt_shift hle hpop⟩
    | cons a l0 =>
      have here : i ≤ i ∧ ∃ t ls', popAt ((a :: l0) :: r) (i - i) = some (t, ls') :=
        ⟨Nat.le_refl _, a, l0 :: r, by simp [popAt]⟩
      have win : ∀ j pr, pickGo r (i + 1) (some (i, a.price)) = some (j, pr) →
          (i ≤ j ∧ ∃ t ls', popAt ((a :: l0) :: r) (j - i) = some (t, ls')) := by
        intro j pr h
        rcases ih (i + 1) _ j pr h with h1 | ⟨hle, t, ls', hpop⟩
        · cases h1; exact here
        · exact ⟨by omega, popAt_shift hle hpop⟩
      simp only [pickGo] at h
      cases best with
      | none => simp only at h; exact Or.inr (win j pr h)
      | some b =>
        obtain ⟨b0, bp⟩ := b
        simp only at h
        split at h
        · exact Or.inr (win j pr h)
        · rcases ih (i + 1) _ j pr h with h1 | ⟨hle, t, ls', hpop⟩
          · exact Or.inl h1
          · exact Or.inr ⟨by omega, popAt_shift hle hpop⟩

theorem pickGo_none (ls : List (List Tx)) : ∀ (i : Nat) (best : Option (Nat × Nat)),
    pickGo ls i best = none → best = none ∧ ∀ l ∈ ls, l = [] := by
  induction ls with
  | nil => intro i best h; simp only [pickGo] at h; exact ⟨h, by simp⟩
  | cons l r ih =>
    intro i best h
    cases l with
    | nil =>
      simp only [pickGo] at h
      obtain ⟨h1, h2⟩ := ih (i + 1) best h
      exact ⟨h1, by intro l hl; simp only [List.mem_cons] at hl; rcases hl with rfl | hl; rfl; exact h2 l hl⟩
    | cons a l0 =>
      simp only [pickGo] at h
      cases best with
      | none => simp only at h; exact absurd (ih _ _ h).1 (by simp)
      | some b =>
        obtain ⟨b0, bp⟩ := b
        simp only at h
        split at h
        · exact absurd (ih _ _ h).1 (by simp)
        · exact absurd (ih _ _ h).1 (by simp)

theorem flatQ_all_nil (q : Tx → Bool) (ls : List (List Tx)) (h : ∀ l ∈ ls, l = []) : flatQ q ls = [] ∧ totalLen ls = 0 := by
  induction ls with
  | nil => simp [flatQ, totalLen]
  | cons l r ih =>
    have hl : l = [] := h l (by simp)
    subst hl
    obtain ⟨i1, i2⟩ := ih (fun l hl => h l (List.mem_cons_of_mem _ hl))
    simp only [flatQ, List.map_cons, List.flatten_cons, List.filter_nil, List.nil_append] at i1 ⊢
    exact ⟨i1, by simp [totalLen, i2]⟩

theorem totalLen_zero (ls : List (List Tx)) (h : totalLen ls = 0) : ∀ l ∈ ls, l = [] := by
  induction ls with
  | nil => simp
  | cons x r ih =>
    simp only [totalLen] at h
    intro l hl
    simp only [List.mem_cons] at hl
    rcases hl with rfl | hl
    · exact List.length_eq_zero_iff.mp (by omega)
    · exact ih (by omega) l hl

/-- the merge keeps each sender's order: projected on `q`, the selection is the `q` part of the (single) list that has any -/
theorem selectLoop_filter (q : Tx → Bool) : ∀ (fuel : Nat) (ls : List (List Tx)), totalLen ls ≤ fuel → Excl q ls →
    (selectLoop fuel ls).filter q = flatQ q ls := by
  intro fuel
  induction fuel with
  | zero =>
    intro ls hf _
    simp only [selectLoop, List.filter_nil]
    have := totalLen_zero ls (by omega)
    exact (flatQ_all_nil q ls this).1.symm
  | succ n ih =>
    intro ls hf hx
    simp only [selectLoop]
    cases hp : pickGo ls 0 none with
    | none =>
      simp only [List.filter_nil]
      exact (flatQ_all_nil q ls (pickGo_none ls 0 none hp).2).1.symm
    | some jp =>
      obtain ⟨j, pr⟩ := jp
      simp only
      rcases pickGo_some ls 0 none j pr hp with h | ⟨_, t, ls', hpop⟩
      · cases h
      · simp only [Nat.sub_zero] at hpop
        rw [hpop]
        simp only
        obtain ⟨f1, f2, f3⟩ := popAt_flat hpop hx
        rw [List.filter_cons, ih ls' (by omega) f2, f1]

def qOf (s : Nat) : Tx → Bool := fun t => t.eip && t.payer == s

theorem proj_eq (s : Nat) (l : List Tx) : proj s l = (l.filter (qOf s)).map (·.nonce) := rfl

theorem flatQ_of_mem {q : Tx → Bool} {ls : List (List Tx)} (hx : Excl q ls) {l1 : List Tx} (hm : l1 ∈ ls)
    (hq : l1.any q = true) : flatQ q ls = l1.filter q := by
  induction ls with
  | nil => cases hm
  | cons l r ih =>
    unfold Excl at hx
    rw [List.pairwise_cons] at hx
    simp only [flatQ, List.map_cons, List.flatten_cons]
    simp only [List.mem_cons] at hm
    rcases hm with rfl | hm
    · -- the others contribute nothing
      have : (r.map (List.filter q)).flatten = [] := by
        rw [List.flatten_eq_nil_iff]
        intro x hxm
        obtain ⟨l2, hl2, rfl⟩ := List.mem_map.mp hxm
        rw [List.filter_eq_nil_iff]
        intro a ha hqa
        exact hx.1 l2 hl2 ⟨hq, List.any_eq_true.mpr ⟨a, ha, hqa⟩⟩
      rw [this, List.append_nil]
    · have : l.filter q = [] := by
        rw [List.filter_eq_nil_iff]
        intro a ha hqa
        exact hx.1 l1 hm ⟨List.any_eq_true.mpr ⟨a, ha, hqa⟩, hq⟩
      rw [this, List.nil_append]
      exact ih hx.2 hm

theorem flatQ_none {q : Tx → Bool} {ls : List (List Tx)} (h : ∀ l ∈ ls, l.any q = false) : flatQ q ls = [] := by
  unfold flatQ
  rw [List.flatten_eq_nil_iff]
  intro x hxm
  obtain ⟨l2, hl2, rfl⟩ := List.mem_map.mp hxm
  rw [List.filter_eq_nil_iff]
  intro a ha hqa
  have := h l2 hl2
  rw [List.any_eq_false] at this
  exact this a ha hqa

theorem filterMap_lookup (valid : List (Nat × VTx)) (xs : List Tx)
    (h : ∀ t ∈ xs, ∃ e, alookup valid t.hash = some e ∧ e.tx = t) :
    (xs.filterMap fun t => alookup valid t.hash).map (·.tx) = xs := by
  induction xs with
  | nil => rfl
  | cons t r ih =>
    obtain ⟨e, he, het⟩ := h t (by simp)
    simp only [List.filterMap_cons, he, List.map_cons, het]
    rw [ih (fun x hx => h x (List.mem_cons_of_mem _ hx))]

/-- **raw heading** — before any expiry or truncation, the candidate list of `GetTxPool` restricted to sender `s` is exactly the
heading of `s`'s nonce list (in nonce order), whatever the map iteration order -/
theorem candidates_proj {U c p} (hi : PoolInv U c p) (h2 : PoolInv2 p) (ord : Order) (ho : ord.IsPerm) (s : Nat) :
    ((candidates p ord).map (·.tx)).filter (qOf s) =
      match alookup p.eip s with
      | some l => l.heading
      | none => [] := by
  -- items of a heading
  have hitem : ∀ a l, (a, l) ∈ p.eip → ∀ t ∈ l.heading, alookup p.eip a = some l ∧ t.payer = a ∧ t.eip = true ∧
      ∃ e, alookup p.valid t.hash = some e ∧ e.tx = t := by
    intro a l hal t ht
    have ha := alookup_of_mem h2.keys hal
    obtain ⟨k, hk⟩ := mem_heading ht
    have hk' := (sorted_alookup_iff (h2.slots a l ha).1 k t).mpr hk
    exact ⟨ha, ((h2.slots a l ha).2 k t hk').2, (list_tx_ok hi ha hk').1, h2.bwd a l k t ha hk'⟩
  let ls0 := p.eip.map fun al => al.2.heading
  have hx0 : Excl (qOf s) ls0 := by
    unfold Excl
    rw [List.pairwise_map]
    have hk := h2.keys
    rw [List.Nodup, List.pairwise_map] at hk
    refine List.Pairwise.imp_of_mem ?_ hk
    intro x y hxm hym hne hh
    obtain ⟨a1, l1⟩ := x
    obtain ⟨a2, l2⟩ := y
    obtain ⟨t1, ht1, hq1⟩ := List.any_eq_true.mp hh.1
    obtain ⟨t2, ht2, hq2⟩ := List.any_eq_true.mp hh.2
    have p1 := (hitem a1 l1 hxm t1 ht1).2.1
    have p2 := (hitem a2 l2 hym t2 ht2).2.1
    simp only [qOf, Bool.and_eq_true, beq_iff_eq] at hq1 hq2
    exact hne (by simp only; rw [← p1, ← p2, hq1.2, hq2.2])
  have hperm := ho.eip ls0
  have hx : Excl (qOf s) (ord.eip ls0) :=
    (hperm.pairwise_iff (fun {x y} h hh => h ⟨hh.2, hh.1⟩)).mpr hx0
  -- the candidate transactions
  have hsel : (selectSort p.valid (ord.eip ls0)).map (·.tx) = selectLoop (totalLen (ord.eip ls0)) (ord.eip ls0) := by
    unfold selectSort
    apply filterMap_lookup
    intro t ht
    obtain ⟨l, hl, htl⟩ := mem_selectLoop ht
    have := hperm.subset hl
    obtain ⟨⟨a, m⟩, ham, rfl⟩ := List.mem_map.mp this
    exact (hitem a m ham t htl).2.2.2
  unfold candidates
  rw [List.map_append, List.filter_append]
  have h2nd : ((sortDesc (ord.vals ((p.valid.map (·.2)).filter fun e => !e.tx.eip))).map (·.tx)).filter (qOf s) = [] := by
    rw [List.filter_eq_nil_iff]
    intro t ht hq
    obtain ⟨e, he, rfl⟩ := List.mem_map.mp ht
    have := ((sortDesc_perm _).trans (ho.vals _)).subset he
    have hne := (List.mem_filter.mp this).2
    simp only [qOf, Bool.and_eq_true] at hq
    simp [hq.1] at hne
  rw [h2nd, List.append_nil]
  show ((selectSort p.valid (ord.eip ls0)).map (·.tx)).filter (qOf s) = _
  rw [hsel, selectLoop_filter (qOf s) _ _ (Nat.le_refl _) hx]
  -- which list has `q` elements
  have hid : ∀ l1 ∈ ord.eip ls0, l1.any (qOf s) = true → ∃ l, alookup p.eip s = some l ∧ l1 = l.heading := by
    intro l1 hl1 hq
    obtain ⟨⟨a, m⟩, ham, rfl⟩ := List.mem_map.mp (hperm.subset hl1)
    obtain ⟨t, ht, hqt⟩ := List.any_eq_true.mp hq
    have := hitem a m ham t ht
    simp only [qOf, Bool.and_eq_true, beq_iff_eq] at hqt
    have : a = s := by rw [← this.2.1]; exact hqt.2
    subst this
    exact ⟨m, alookup_of_mem h2.keys ham, rfl⟩
  cases hl : alookup p.eip s with
  | none =>
    simp only
    apply flatQ_none
    intro l1 hl1
    cases hq : l1.any (qOf s) with
    | false => rfl
    | true => obtain ⟨l, hl', _⟩ := hid l1 hl1 hq; rw [hl] at hl'; cases hl'
  | some l =>
    simp only
    have hall : ∀ t ∈ l.heading, qOf s t = true := by
      intro t ht
      have := hitem s l (alookup_some_mem hl) t ht
      simp [qOf, this.2.1, this.2.2.1]
    by_cases hq : l.heading.any (qOf s) = true
    · have hm : l.heading ∈ ord.eip ls0 :=
        hperm.symm.subset (List.mem_map.mpr ⟨(s, l), alookup_some_mem hl, rfl⟩)
      rw [flatQ_of_mem hx hm hq]
      exact List.filter_eq_self.mpr hall
    · -- the heading is empty
      have hemp : l.heading = [] := by
        cases hh : l.heading with
        | nil => rfl
        | cons t r =>
          exfalso; apply hq
          rw [hh]
          exact List.any_eq_true.mpr ⟨t, by simp, hall t (by rw [hh]; simp)⟩
      rw [hemp]
      apply flatQ_none
      intro l1 hl1
      cases hq1 : l1.any (qOf s) with
      | false => rfl
      | true =>
        obtain ⟨l', hl', h1⟩ := hid l1 hl1 hq1
        rw [hl] at hl'; cases hl'
        rw [h1, hemp] at hq1; simp at hq1


theorem no_panic_of_inv {U} {s : Sys} (hi : SInv2 U s) (hcol : NoCollision U)
    (ord : Order) (hord : ord.IsPerm) (byCount : Bool) (h maxTx gasPrice addr : Nat) :
    (getTxPool s.pool ord byCount h maxTx).isSome = true ∧ (s.propose ord byCount h maxTx).isSome = true ∧
    (removeBelow s.pool gasPrice).isSome = true ∧ (nextNonce s.pool addr).isSome = true := by
  refine ⟨?_, ?_, ?_, ?_⟩
  · obtain ⟨v, old, p', hg, _⟩ := getTxPool_inv2 hi.base.pool hi.pool2 hcol ord hord byCount h maxTx
    rw [hg]; rfl
  · obtain ⟨v, old, p', hg, _⟩ := getTxPool_inv2 hi.base.pool hi.pool2 hcol ord hord byCount (s.validHeight h).1 maxTx
    simp only [Sys.propose, hg, Option.map_some, Option.isSome_some]
  · obtain ⟨p', hr, _⟩ := removeBelow_inv2 hi.base.pool hi.pool2 hcol gasPrice
    rw [hr]; rfl
  · unfold nextNonce
    split
    · rfl
    · rename_i l hl
      split
      · rfl
      · rename_i t0 r hh
        split
        · have hne : l ≠ [] := by intro e; subst e; simp [SMap.heading] at hh
          have := hi.pool2.usr addr l hl hne
          cases hu : alookup s.pool.user addr with
          | none => rw [hu] at this; cases this
          | some u => simp only; split <;> rfl
        · rfl

end OntVerif.Proofs.TxPool
