import OntVerif.Model.KV
/-! Helper lemmas for the key/value model (C03, C04, C08): `bytes.Compare` is a strict total order, `MemDB` put/get/sortedness, extensionality of sorted association lists. -/
namespace OntVerif.Proofs.KV
open OntVerif.Util OntVerif.Model.KV

theorem kcmp_refl (a : Key) : kcmp a a = .eq := by
  induction a with
  | nil => rfl
  | cons x xs ih => simp [kcmp, ih]

theorem kcmp_eq_iff {a b : Key} : kcmp a b = .eq ↔ a = b := by
  constructor
  · intro h
    induction a generalizing b with
    | nil => cases b with
      | nil => rfl
      | cons y ys => simp [kcmp] at h
    | cons x xs ih => cases b with
      | nil => simp [kcmp] at h
      | cons y ys =>
        simp only [kcmp] at h
        split at h
        · cases h
        · split at h
          · cases h
          · have : x = y := by apply UInt8.toNat_inj.mp; omega
            rw [this, ih h]
  · intro h; subst h; exact kcmp_refl a

theorem kcmp_swap (a b : Key) : kcmp b a = (kcmp a b).swap := by
  induction a generalizing b with
  | nil => cases b <;> rfl
  | cons x xs ih => cases b with
    | nil => rfl
    | cons y ys =>
      simp only [kcmp]
      by_cases h1 : x.toNat < y.toNat
      · have : ¬ y.toNat < x.toNat := by omega
        simp [h1, this]
      · by_cases h2 : y.toNat < x.toNat
        · simp [h1, h2]
        · simp [h1, h2, ih]

theorem kcmp_gt_iff {a b : Key} : kcmp a b = .gt ↔ kcmp b a = .lt := by
  rw [kcmp_swap a b]; cases kcmp a b <;> simp

theorem kcmp_lt_trans {a b c : Key} (h1 : kcmp a b = .lt) (h2 : kcmp b c = .lt) : kcmp a c = .lt := by
  induction a generalizing b c with
  | nil => cases c with
    | nil => cases b <;> simp [kcmp] at h1 h2
    | cons z zs => rfl
  | cons x xs ih => cases b with
    | nil => simp [kcmp] at h1
    | cons y ys => cases c with
      | nil => simp [kcmp] at h2
      | cons z zs =>
        simp only [kcmp] at h1 h2 ⊢
        by_cases a1 : x.toNat < y.toNat
        · by_cases b1 : y.toNat < z.toNat
          · have : x.toNat < z.toNat := by omega
            simp [this]
          · by_cases b2 : z.toNat < y.toNat
            · simp [b1, b2] at h2
            · have : x.toNat < z.toNat := by omega
              simp [this]
        · by_cases a2 : y.toNat < x.toNat
          · simp [a1, a2] at h1
          · simp only [a1, a2, if_false] at h1
            by_cases b1 : y.toNat < z.toNat
            · have : x.toNat < z.toNat := by omega
              simp [this]
            · by_cases b2 : z.toNat < y.toNat
              · simp [b1, b2] at h2
              · simp only [b1, b2, if_false] at h2
                have e1 : ¬ x.toNat < z.toNat := by omega
                have e2 : ¬ z.toNat < x.toNat := by omega
                simp only [e1, e2, if_false]
                exact ih h1 h2

theorem kcmp_lt_irrefl (a : Key) : kcmp a a ≠ .lt := by rw [kcmp_refl]; decide

/-- strictly sorted by key (hence no duplicate key) -/
def Sorted (m : List KV) : Prop := m.Pairwise (fun a b => kcmp a.1 b.1 = .lt)

theorem put_bound {m : MemDB} {k : Key} {v : Val} {x : Key}
    (hm : ∀ e ∈ m, kcmp x e.1 = .lt) (hk : kcmp x k = .lt) : ∀ e ∈ m.put k v, kcmp x e.1 = .lt := by
  induction m with
  | nil => intro e he; simp [MemDB.put] at he; subst he; exact hk
  | cons a r ih =>
    obtain ⟨k', v'⟩ := a
    intro e he
    simp only [MemDB.put] at he
    split at he
    · simp only [List.mem_cons] at he
      rcases he with rfl | he
      · exact hm _ (by simp)
      · exact ih (fun e he => hm e (by simp [he])) e he
    · simp only [List.mem_cons] at he
      rcases he with rfl | he
      · exact hm (k', v') (by simp)
      · exact hm e (by simp [he])
    · simp only [List.mem_cons] at he
      rcases he with rfl | rfl | he
      · exact hk
      · exact hm _ (by simp)
      · exact hm e (by simp [he])

theorem put_sorted {m : MemDB} (h : Sorted m) (k : Key) (v : Val) : Sorted (m.put k v) := by
  induction m with
  | nil => simp [MemDB.put, Sorted]
  | cons a r ih =>
    obtain ⟨k', v'⟩ := a
    unfold Sorted at h ih ⊢
    rw [List.pairwise_cons] at h
    simp only [MemDB.put]
    split
    · rename_i hc
      rw [List.pairwise_cons]
      exact ⟨put_bound (x := k') h.1 hc, ih h.2⟩
    · rw [List.pairwise_cons]; exact ⟨h.1, h.2⟩
    · rename_i hc
      have hk : kcmp k k' = .lt := kcmp_gt_iff.mp hc
      rw [List.pairwise_cons, List.pairwise_cons]
      refine ⟨?_, h.1, h.2⟩
      intro e he
      simp only [List.mem_cons] at he
      rcases he with rfl | he
      · exact hk
      · exact kcmp_lt_trans hk (h.1 e he)

theorem get_none_of_lt {m : MemDB} {k : Key} (hs : Sorted m) (h : ∀ e ∈ m, kcmp k e.1 = .lt) : m.get k = none := by
  cases m with
  | nil => rfl
  | cons a r =>
    obtain ⟨k', v'⟩ := a
    have := h (k', v') (by simp)
    simp only [MemDB.get]
    rw [kcmp_gt_iff.mpr this]

theorem get_put {m : MemDB} (hs : Sorted m) (k : Key) (v : Val) (q : Key) :
    (m.put k v).get q = if q = k then some v else m.get q := by
  induction m with
  | nil =>
    simp only [MemDB.put, MemDB.get]
    by_cases hq : q = k
    · subst hq; simp [kcmp_refl]
    · simp only [hq, if_false]
      have : kcmp k q ≠ .eq := fun h => hq (kcmp_eq_iff.mp h).symm
      cases hc : kcmp k q <;> simp_all
  | cons a r ih =>
    obtain ⟨k', v'⟩ := a
    unfold Sorted at hs ih
    rw [List.pairwise_cons] at hs
    simp only [MemDB.put]
    split
    · rename_i hc   -- k' < k
      simp only [MemDB.get]
      by_cases hq : q = k
      · subst hq; simp only [hc, if_true]; rw [ih hs.2]; simp
      · simp only [hq, if_false]
        cases hc2 : kcmp k' q with
        | lt => simp only; rw [ih hs.2]; simp [hq]
        | eq => rfl
        | gt => rfl
    · rename_i hc   -- k' = k
      have hkk : k' = k := kcmp_eq_iff.mp hc
      subst hkk
      simp only [MemDB.get]
      by_cases hq : q = k'
      · subst hq; simp [kcmp_refl]
      · simp only [hq, if_false]
        have : kcmp k' q ≠ .eq := fun h => hq (kcmp_eq_iff.mp h).symm
        cases hc2 : kcmp k' q <;> simp_all
    · rename_i hc   -- k' > k
      have hk : kcmp k k' = .lt := kcmp_gt_iff.mp hc
      by_cases hq : q = k
      · subst hq; simp [MemDB.get, kcmp_refl]
      · simp only [hq, if_false]
        have hne : kcmp k q ≠ .eq := fun h => hq (kcmp_eq_iff.mp h).symm
        cases hc2 : kcmp k q with
        | eq => exact absurd hc2 hne
        | lt => simp [MemDB.get, hc2]
        | gt =>
          have hqk : kcmp q k = .lt := kcmp_gt_iff.mp hc2
          have hqk' : kcmp q k' = .lt := kcmp_lt_trans hqk hk
          simp [MemDB.get, hc2, kcmp_gt_iff.mpr hqk']

theorem sorted_ext {a b : MemDB} (ha : Sorted a) (hb : Sorted b) (h : ∀ k, a.get k = b.get k) : a = b := by
  induction a generalizing b with
  | nil =>
    cases b with
    | nil => rfl
    | cons y r =>
      have := h y.1
      simp [MemDB.get, kcmp_refl] at this
  | cons x ra ih =>
    cases b with
    | nil =>
      have := h x.1
      simp [MemDB.get, kcmp_refl] at this
    | cons y rb =>
      obtain ⟨ka, va⟩ := x
      obtain ⟨kb, vb⟩ := y
      unfold Sorted at ha hb ih
      rw [List.pairwise_cons] at ha hb
      have hkeq : ka = kb := by
        cases hc : kcmp ka kb with
        | eq => exact kcmp_eq_iff.mp hc
        | lt =>
          have := h ka
          simp [MemDB.get, kcmp_refl, kcmp_gt_iff.mpr hc] at this
        | gt =>
          have hlt := kcmp_gt_iff.mp hc
          have := h kb
          simp [MemDB.get, kcmp_refl, hc] at this
      subst hkeq
      have hv : va = vb := by
        have := h ka
        simpa [MemDB.get, kcmp_refl] using this
      subst hv
      congr 1
      apply ih ha.2 hb.2
      intro k
      have hk := h k
      simp only [MemDB.get] at hk
      cases hc : kcmp ka k with
      | lt => simpa [hc] using hk
      | eq =>
        have := kcmp_eq_iff.mp hc; subst this
        rw [get_none_of_lt ha.2 ha.1, get_none_of_lt hb.2 hb.1]
      | gt =>
        have hlt := kcmp_gt_iff.mp hc
        rw [get_none_of_lt ha.2 (fun e he => kcmp_lt_trans hlt (ha.1 e he)),
            get_none_of_lt hb.2 (fun e he => kcmp_lt_trans hlt (hb.1 e he))]

theorem step_sorted {m : MemDB} (h : Sorted m) (o : Op) : Sorted (m.step o) := by
  cases o with
  | put k v => exact put_sorted h k v
  | del k => exact put_sorted h k []
  | reset => simp [MemDB.step, Sorted]

theorem foldl_step_sorted (ops : List Op) {m : MemDB} (h : Sorted m) : Sorted (ops.foldl MemDB.step m) := by
  induction ops generalizing m with
  | nil => exact h
  | cons o r ih => exact ih (step_sorted h o)

theorem run_sorted (ops : List Op) : Sorted (run ops) :=
  foldl_step_sorted ops (by simp [Sorted])

theorem get_step {m : MemDB} (h : Sorted m) (o : Op) (q : Key) :
    (m.step o).get q = finalFrom (m.get q) [o] q := by
  cases o with
  | put k v => simp [MemDB.step, finalFrom, get_put h]
  | del k => simp [MemDB.step, MemDB.del, finalFrom, get_put h]
  | reset => simp [MemDB.step, finalFrom, MemDB.get]

theorem finalFrom_cons (i : Option Val) (o : Op) (r : List Op) (q : Key) :
    finalFrom i (o :: r) q = finalFrom (finalFrom i [o] q) r q := by
  simp [finalFrom]

theorem get_foldl_step (ops : List Op) {m : MemDB} (h : Sorted m) (q : Key) :
    (ops.foldl MemDB.step m).get q = finalFrom (m.get q) ops q := by
  induction ops generalizing m with
  | nil => rfl
  | cons o r ih =>
    rw [List.foldl_cons, ih (step_sorted h o), get_step h, ← finalFrom_cons]

theorem get_run (ops : List Op) (q : Key) : (run ops).get q = finalOf ops q :=
  get_foldl_step ops (by simp [Sorted]) q

end OntVerif.Proofs.KV
