import OntVerif.Model.KV
/-! Helper lemmas for the key/value model (C03, C04, C08): `bytes.Compare` is a strict total order, `MemDB` put/get/sortedness, extensionality of sorted association lists. -/
namespace OntVerif.Proofs.KV
open OntVerif.Util OntVerif.Model.KV

theorem kcmp_refl (a : Key) : kcmp a a = .eq := by
  induction a with
  | nil => rfl
  | cons x xs ih => simp [kcmp, ih]

theorem kcmp_eq_iff {a b : Key} : kcmp a b = .eq ↔ a = b := by
  constructor
  · intro h
    induction a generalizing b with
    | nil => cases b with
      | nil => rfl
      | cons y ys => simp [kcmp] at h
    | cons x xs ih => cases b with
      | nil => simp [kcmp] at h
      | cons y ys =>
        simp only [kcmp] at h
        split at h
        · cases h
        · split at h
          · cases h
          · have : x = y := by apply UInt8.toNat_inj.mp; omega
            rw [this, ih h]
  · intro h; subst h; exact kcmp_refl a

theorem kcmp_swap (a b : Key) : kcmp b a = (kcmp a b).swap := by
  induction a generalizing b with
  | nil => cases b <;> rfl
  | cons x xs ih => cases b with
    | nil => rfl
    | cons y ys =>
      simp only [kcmp]
      by_cases h1 : x.toNat < y.toNat
      · have : ¬ y.toNat < x.toNat := by omega
        simp [h1, this]
      · by_cases h2 : y.toNat < x.toNat
        · simp [h1, h2]
        · simp [h1, h2, ih]

theorem kcmp_gt_iff {a b : Key} : kcmp a b = .gt ↔ kcmp b a = .lt := by
  rw [kcmp_swap a b]; cases kcmp a b <;> simp

theorem kcmp_lt_trans {a b c : Key} (h1 : kcmp a b = .lt) (h2 : kcmp b c = .lt) : kcmp a c = .lt := by
  induction a generalizing b c with
  | nil => cases c with
    | nil => cases b <;> simp [kcmp] at h1 h2
    | cons z zs => rfl
  | cons x xs ih => cases b with
    | nil => simp [kcmp] at h1
    | cons y ys => cases c with
      | nil => simp [kcmp] at h2
      | cons z zs =>
        simp only [kcmp] at h1 h2 ⊢
        by_cases a1 : x.toNat < y.toNat
        · by_cases b1 : y.toNat < z.toNat
          · have : x.toNat < z.toNat := by omega
            simp [this]
          · by_cases b2 : z.toNat < y.toNat
            · simp [b1, b2] at h2
            · have : x.toNat < z.toNat := by omega
              simp [this]
        · by_cases a2 : y.toNat < x.toNat
          · simp [a1, a2] at h1
          · simp only [a1, a2, if_false] at h1
            by_cases b1 : y.toNat < z.toNat
            · have : x.toNat < z.toNat := by omega
              simp [this]
            · by_cases b2 : z.toNat < y.toNat
              · simp [b1, b2] at h2
              · simp only [b1, b2, if_false] at h2
                have e1 : ¬ x.toNat < z.toNat := by omega
                have e2 : ¬ z.toNat < x.toNat := by omega
                simp only [e1, e2, if_false]
                exact ih h1 h2

theorem kcmp_lt_irrefl (a : Key) : kcmp a a ≠ .lt := by rw [kcmp_refl]; decide

/-- strictly sorted by key (hence no duplicate key) -/
def Sorted (m : List KV) : Prop := m.Pairwise (fun a b => kcmp a.1 b.1 = .lt)

instance (m : List KV) : Decidable (Sorted m) := by unfold Sorted; infer_instance

theorem put_bound {m : MemDB} {k : Key} {v : Val} {x : Key}
    (hm : ∀ e ∈ m, kcmp x e.1 = .lt) (hk : kcmp x k = .lt) : ∀ e ∈ m.put k v, kcmp x e.1 = .lt := by
  induction m with
  | nil => intro e he; simp [MemDB.put] at he; subst he; exact hk
  | cons a r ih =>
    obtain ⟨k', v'⟩ := a
    intro e he
    simp only [MemDB.put] at he
    split at he
    · simp only [List.mem_cons] at he
      rcases he with rfl | he
      · exact hm _ (by simp)
      · exact ih (fun e he => hm e (by simp [he])) e he
    · simp only [List.mem_cons] at he
      rcases he with rfl | he
      · exact hm (k', v') (by simp)
      · exact hm e (by simp [he])
    · simp only [List.mem_cons] at he
      rcases he with rfl | rfl | he
      · exact hk
      · exact hm _ (by simp)
      · exact hm e (by simp [he])

theorem put_sorted {m : MemDB} (h : Sorted m) (k : Key) (v : Val) : Sorted (m.put k v) := by
  induction m with
  | nil => simp [MemDB.put, Sorted]
  | cons a r ih =>
    obtain ⟨k', v'⟩ := a
    unfold Sorted at h ih ⊢
    rw [List.pairwise_cons] at h
    simp only [MemDB.put]
    split
    · rename_i hc
      rw [List.pairwise_cons]
      exact ⟨put_bound (x := k') h.1 hc, ih h.2⟩
    · rw [List.pairwise_cons]; exact ⟨h.1, h.2⟩
    · rename_i hc
      have hk : kcmp k k' = .lt := kcmp_gt_iff.mp hc
      rw [List.pairwise_cons, List.pairwise_cons]
      refine ⟨?_, h.1, h.2⟩
      intro e he
      simp only [List.mem_cons] at he
      rcases he with rfl | he
      · exact hk
      · exact kcmp_lt_trans hk (h.1 e he)

theorem get_none_of_lt {m : MemDB} {k : Key} (hs : Sorted m) (h : ∀ e ∈ m, kcmp k e.1 = .lt) : m.get k = none := by
  cases m with
  | nil => rfl
  | cons a r =>
    obtain ⟨k', v'⟩ := a
    have := h (k', v') (by simp)
    simp only [MemDB.get]
    rw [kcmp_gt_iff.mpr this]

theorem get_put {m : MemDB} (hs : Sorted m) (k : Key) (v : Val) (q : Key) :
    (m.put k v).get q = if q = k then some v else m.get q := by
  induction m with
  | nil =>
    simp only [MemDB.put, MemDB.get]
    by_cases hq : q = k
    · subst hq; simp [kcmp_refl]
    · simp only [hq, if_false]
      have : kcmp k q ≠ .eq := fun h => hq (kcmp_eq_iff.mp h).symm
      cases hc : kcmp k q <;> simp_all
  | cons a r ih =>
    obtain ⟨k', v'⟩ := a
    unfold Sorted at hs ih
    rw [List.pairwise_cons] at hs
    simp only [MemDB.put]
    split
    · rename_i hc   -- k' < k
      simp only [MemDB.get]
      by_cases hq : q = k
      · subst hq; simp only [hc, if_true]; rw [ih hs.2]; simp
      · simp only [hq, if_false]
        cases hc2 : kcmp k' q with
        | lt => simp only; rw [ih hs.2]; simp [hq]
        | eq => rfl
        | gt => rfl
    · rename_i hc   -- k' = k
      have hkk : k' = k := kcmp_eq_iff.mp hc
      subst hkk
      simp only [MemDB.get]
      by_cases hq : q = k'
      · subst hq; simp [kcmp_refl]
      · simp only [hq, if_false]
        have : kcmp k' q ≠ .eq := fun h => hq (kcmp_eq_iff.mp h).symm
        cases hc2 : kcmp k' q <;> simp_all
    · rename_i hc   -- k' > k
      have hk : kcmp k k' = .lt := kcmp_gt_iff.mp hc
      by_cases hq : q = k
      · subst hq; simp [MemDB.get, kcmp_refl]
      · simp only [hq, if_false]
        have hne : kcmp k q ≠ .eq := fun h => hq (kcmp_eq_iff.mp h).symm
        cases hc2 : kcmp k q with
        | eq => exact absurd hc2 hne
        | lt => simp [MemDB.get, hc2]
        | gt =>
          have hqk : kcmp q k = .lt := kcmp_gt_iff.mp hc2
          have hqk' : kcmp q k' = .lt := kcmp_lt_trans hqk hk
          simp [MemDB.get, hc2, kcmp_gt_iff.mpr hqk']

theorem sorted_ext {a b : MemDB} (ha : Sorted a) (hb : Sorted b) (h : ∀ k, a.get k = b.get k) : a = b := by
  induction a generalizing b with
  | nil =>
    cases b with
    | nil => rfl
    | cons y r =>
      have := h y.1
      simp [MemDB.get, kcmp_refl] at this
  | cons x ra ih =>
    cases b with
    | nil =>
      have := h x.1
      simp [MemDB.get, kcmp_refl] at this
    | cons y rb =>
      obtain ⟨ka, va⟩ := x
      obtain ⟨kb, vb⟩ := y
      unfold Sorted at ha hb ih
      rw [List.pairwise_cons] at ha hb
      have hkeq : ka = kb := by
        cases hc : kcmp ka kb with
        | eq => exact kcmp_eq_iff.mp hc
        | lt =>
          have := h ka
          simp [MemDB.get, kcmp_refl, kcmp_gt_iff.mpr hc] at this
        | gt =>
          have hlt := kcmp_gt_iff.mp hc
          have := h kb
          simp [MemDB.get, kcmp_refl, hc] at this
      subst hkeq
      have hv : va = vb := by
        have := h ka
        simpa [MemDB.get, kcmp_refl] using this
      subst hv
      congr 1
      apply ih ha.2 hb.2
      intro k
      have hk := h k
      simp only [MemDB.get] at hk
      cases hc : kcmp ka k with
      | lt => simpa [hc] using hk
      | eq =>
        have := kcmp_eq_iff.mp hc; subst this
        rw [get_none_of_lt ha.2 ha.1, get_none_of_lt hb.2 hb.1]
      | gt =>
        have hlt := kcmp_gt_iff.mp hc
        rw [get_none_of_lt ha.2 (fun e he => kcmp_lt_trans hlt (ha.1 e he)),
            get_none_of_lt hb.2 (fun e he => kcmp_lt_trans hlt (hb.1 e he))]

theorem step_sorted {m : MemDB} (h : Sorted m) (o : Op) : Sorted (m.step o) := by
  cases o with
  | put k v => exact put_sorted h k v
  | del k => exact put_sorted h k []
  | reset => simp [MemDB.step, Sorted]

theorem foldl_step_sorted (ops : List Op) {m : MemDB} (h : Sorted m) : Sorted (ops.foldl MemDB.step m) := by
  induction ops generalizing m with
  | nil => exact h
  | cons o r ih => exact ih (step_sorted h o)

theorem run_sorted (ops : List Op) : Sorted (run ops) :=
  foldl_step_sorted ops (by simp [Sorted])

theorem get_step {m : MemDB} (h : Sorted m) (o : Op) (q : Key) :
    (m.step o).get q = finalFrom (m.get q) [o] q := by
  cases o with
  | put k v => simp [MemDB.step, finalFrom, get_put h]
  | del k => simp [MemDB.step, MemDB.del, finalFrom, get_put h]
  | reset => simp [MemDB.step, finalFrom, MemDB.get]

theorem finalFrom_cons (i : Option Val) (o : Op) (r : List Op) (q : Key) :
    finalFrom i (o :: r) q = finalFrom (finalFrom i [o] q) r q := by
  simp [finalFrom]

theorem get_foldl_step (ops : List Op) {m : MemDB} (h : Sorted m) (q : Key) :
    (ops.foldl MemDB.step m).get q = finalFrom (m.get q) ops q := by
  induction ops generalizing m with
  | nil => rfl
  | cons o r ih =>
    rw [List.foldl_cons, ih (step_sorted h o), get_step h, ← finalFrom_cons]

theorem get_run (ops : List Op) (q : Key) : (run ops).get q = finalOf ops q :=
  get_foldl_step ops (by simp [Sorted]) q

/-! ### StateDB (C08) -/
namespace SDB
open StateDB

/-- a mutation never touches the snapshot stack or the lower layers, and only appends to the log list -/
theorem applyMut_frame {s s' : StateDB} {m : Mut} (h : s.applyMut m = some s') :
    s'.snaps = s.snaps ∧ (∃ t, s'.logs = s.logs ++ t) ∧ s'.cache.backend = s.cache.backend := by
  cases m with
  | setState a k v => simp [applyMut, Cache.put] at h; subst h; exact ⟨rfl, ⟨[], by simp⟩, rfl⟩
  | setNonce a n => simp [applyMut, putEthAccount, Cache.put] at h; subst h; exact ⟨rfl, ⟨[], by simp⟩, rfl⟩
  | setCode a c hh => simp [applyMut, putEthAccount, Cache.put] at h; subst h; exact ⟨rfl, ⟨[], by simp⟩, rfl⟩
  | addBalance a n =>
    simp [applyMut, setBalance] at h; subst h
    refine ⟨rfl, ⟨[], by simp⟩, ?_⟩
    simp only []; split <;> simp [Cache.put, Cache.delete]
  | subBalance a n =>
    simp only [applyMut] at h
    split at h
    · cases h; exact ⟨rfl, ⟨[], by simp⟩, rfl⟩
    · cases h
      refine ⟨rfl, ⟨[], by simp [setBalance]⟩, ?_⟩
      simp only [setBalance]; split <;> simp [Cache.put, Cache.delete]
  | suicide a =>
    simp only [applyMut] at h
    split at h
    · cases h; exact ⟨rfl, ⟨[], by simp⟩, rfl⟩
    · cases h
      refine ⟨rfl, ⟨[], by simp [setBalance]⟩, ?_⟩
      simp [setBalance, Cache.delete]
  | addLog d => simp [applyMut] at h; subst h; exact ⟨rfl, ⟨[d], rfl⟩, rfl⟩
  | addRefund n => simp [applyMut] at h; subst h; exact ⟨rfl, ⟨[], by simp⟩, rfl⟩
  | subRefund n =>
    simp only [applyMut] at h
    split at h
    · cases h
    · cases h; exact ⟨rfl, ⟨[], by simp⟩, rfl⟩

/-- the snapshot record `Snapshot()` pushes for state `s` -/
def snapOf (s : StateDB) : Snap := ⟨s.cache.mem, s.suicided, s.logs.length, s.refund⟩

/-- invariant of a run above snapshot `i = s1.snaps.length` taken in state `s1` -/
structure Above (s1 s : StateDB) : Prop where
  snaps : ∃ extra, s.snaps = s1.snaps ++ snapOf s1 :: extra ∧ ∀ sn ∈ extra, s1.logs.length ≤ sn.logsSize
  logs : ∃ t, s.logs = s1.logs ++ t
  backend : s.cache.backend = s1.cache.backend

theorem above_snapshot (s1 : StateDB) : Above s1 s1.snapshot.1 := by
  refine ⟨⟨[], ?_, by simp⟩, ⟨[], by simp [snapshot]⟩, rfl⟩
  simp [snapshot, snapOf]

theorem take_prefix {α} (a t : List α) (n : Nat) (h : a.length ≤ n) : ∃ t', (a ++ t).take n = a ++ t' := by
  refine ⟨t.take (n - a.length), ?_⟩
  rw [List.take_append]
  congr 1
  exact List.take_of_length_le h

theorem above_step {s1 s : StateDB} (inv : Above s1 s) (o : SOp) (s' : StateDB) (h : s.step o = some s')
    (hd : s1.snaps.length < s'.snaps.length) : Above s1 s' := by
  obtain ⟨⟨extra, hs, hx⟩, ⟨t, hl⟩, hb⟩ := inv
  cases o with
  | mutate m =>
    obtain ⟨f1, ⟨t', f2⟩, f3⟩ := applyMut_frame (show s.applyMut m = some s' from h)
    exact ⟨⟨extra, by rw [f1, hs], hx⟩, ⟨t ++ t', by rw [f2, hl]; simp⟩, by rw [f3, hb]⟩
  | snapshot =>
    simp only [step, Option.some.injEq] at h; subst h
    refine ⟨⟨extra ++ [snapOf s], by simp [snapshot, hs, snapOf], ?_⟩, ⟨t, by simp [snapshot, hl]⟩, by simp [snapshot, hb]⟩
    intro sn hsn
    simp only [List.mem_append, List.mem_singleton] at hsn
    rcases hsn with hsn | rfl
    · exact hx sn hsn
    · simp [snapOf, hl]
  | revert idx =>
    simp only [step, StateDB.revert] at h
    split at h
    · cases h
    · split at h
      · cases h
      · rename_i sn hsn
        cases h
        simp only [List.length_take] at hd
        generalize idx.toNat = j at *
        have hlen : j < s.snaps.length := (List.getElem?_eq_some_iff.mp hsn).1
        obtain ⟨d, rfl⟩ : ∃ d, j = s1.snaps.length + (d + 1) := ⟨j - s1.snaps.length - 1, by omega⟩
        have hget : extra[d]? = some sn := by
          rw [hs, List.getElem?_append_right (by omega)] at hsn
          have : s1.snaps.length + (d + 1) - s1.snaps.length = d + 1 := by omega
          rw [this, List.getElem?_cons_succ] at hsn
          exact hsn
        have hmem : sn ∈ extra := List.mem_of_getElem? hget
        refine ⟨⟨extra.take d, ?_, ?_⟩, ?_, hb⟩
        · simp only [hs]
          rw [List.take_append]
          have e1 : List.take (s1.snaps.length + (d + 1)) s1.snaps = s1.snaps := List.take_of_length_le (by omega)
          have e2 : s1.snaps.length + (d + 1) - s1.snaps.length = d + 1 := by omega
          rw [e1, e2, List.take_succ_cons]
        · intro x hxm; exact hx x (List.mem_of_mem_take hxm)
        · simp only [hl]
          exact take_prefix _ _ _ (hx sn hmem)
  | discard idx =>
    simp only [step, StateDB.discard] at h
    split at h
    · cases h
    · split at h
      · cases h
      · cases h
        simp only [List.length_take] at hd
        generalize idx.toNat = j at *
        obtain ⟨d, rfl⟩ : ∃ d, j = s1.snaps.length + (d + 1) := ⟨j - s1.snaps.length - 1, by omega⟩
        refine ⟨⟨extra.take d, ?_, ?_⟩, ⟨t, hl⟩, hb⟩
        · simp only [hs]
          rw [List.take_append]
          have e1 : List.take (s1.snaps.length + (d + 1)) s1.snaps = s1.snaps := List.take_of_length_le (by omega)
          have e2 : s1.snaps.length + (d + 1) - s1.snaps.length = d + 1 := by omega
          rw [e1, e2, List.take_succ_cons]
        · intro x hxm; exact hx x (List.mem_of_mem_take hxm)

/-- the snapshot stack never drops to depth `≤ i` during the history (a panicking op leaves the state unchanged) -/
def StaysAbove (i : Nat) : StateDB → List SOp → Prop
  | _, [] => True
  | s, o :: r => i < ((s.step o).getD s).snaps.length ∧ StaysAbove i ((s.step o).getD s) r

instance decStaysAbove : (i : Nat) → (s : StateDB) → (ops : List SOp) → Decidable (StaysAbove i s ops)
  | _, _, [] => isTrue trivial
  | i, s, o :: r =>
    have := decStaysAbove i ((s.step o).getD s) r
    (inferInstance : Decidable (i < ((s.step o).getD s).snaps.length ∧ StaysAbove i ((s.step o).getD s) r))

theorem above_run {s1 : StateDB} (ops : List SOp) {s : StateDB} (inv : Above s1 s)
    (h : StaysAbove s1.snaps.length s ops) : Above s1 (s.runOps ops) := by
  induction ops generalizing s with
  | nil => exact inv
  | cons o r ih =>
    have rc : s.runOps (o :: r) = ((s.step o).getD s).runOps r := rfl
    rw [rc]
    obtain ⟨h1, h2⟩ := h
    cases hs : s.step o with
    | none =>
      simp only [hs, Option.getD_none] at h1 h2 ⊢
      exact ih inv h2
    | some s' =>
      simp only [hs, Option.getD_some] at h1 h2 ⊢
      exact ih (above_step inv o s' hs h1) h2

theorem revert_of_above {s1 s2 : StateDB} (inv : Above s1 s2) :
    s2.revert (s1.snaps.length : Int) = some { s1 with dbErr := s2.dbErr } := by
  obtain ⟨⟨extra, hs, _⟩, ⟨t, hl⟩, hb⟩ := inv
  have hget : s2.snaps[s1.snaps.length]? = some (snapOf s1) := by
    rw [hs, List.getElem?_append_right (Nat.le_refl _)]; simp
  simp only [StateDB.revert]
  have hneg : ¬ ((s1.snaps.length : Int) < 0) := by omega
  simp only [hneg, if_false, Int.toNat_natCast, hget]
  congr 1
  cases s1 with
  | mk c1 su1 lg1 rf1 sn1 e1 =>
    cases s2 with
    | mk c2 su2 lg2 rf2 sn2 e2 =>
      simp only [snapOf] at hs hl hb ⊢
      subst hl
      cases c1; cases c2
      simp only at hb
      subst hb
      simp [hs]

end SDB

/-! ### Store and layered reads (C04) -/

theorem delete_bound {st : Store} {k x : Key} (hm : ∀ e ∈ st, kcmp x e.1 = .lt) :
    ∀ e ∈ Store.delete st k, kcmp x e.1 = .lt := by
  induction st with
  | nil => intro e he; simp [Store.delete] at he
  | cons a r ih =>
    obtain ⟨k', v'⟩ := a
    intro e he
    simp only [Store.delete] at he
    split at he
    · simp only [List.mem_cons] at he
      rcases he with rfl | he
      · exact hm _ (by simp)
      · exact ih (fun e he => hm e (by simp [he])) e he
    · exact hm e (by simp [he])
    · exact hm e he

theorem delete_sorted {st : Store} (h : Sorted st) (k : Key) : Sorted (Store.delete st k) := by
  induction st with
  | nil => simp [Store.delete, Sorted]
  | cons a r ih =>
    obtain ⟨k', v'⟩ := a
    unfold Sorted at h ih ⊢
    rw [List.pairwise_cons] at h
    simp only [Store.delete]
    split
    · rw [List.pairwise_cons]; exact ⟨delete_bound h.1, ih h.2⟩
    · exact h.2
    · rw [List.pairwise_cons]; exact h

theorem get_delete {st : Store} (hs : Sorted st) (k q : Key) :
    MemDB.get (Store.delete st k) q = if q = k then none else MemDB.get st q := by
  induction st with
  | nil => simp [Store.delete, MemDB.get]
  | cons a r ih =>
    obtain ⟨k', v'⟩ := a
    unfold Sorted at hs ih
    rw [List.pairwise_cons] at hs
    simp only [Store.delete]
    split
    · rename_i hc   -- k' < k
      simp only [MemDB.get]
      by_cases hq : q = k
      · subst hq; simp only [hc, if_true]; rw [ih hs.2]; simp
      · simp only [hq, if_false]
        cases hc2 : kcmp k' q with
        | lt => simp only; rw [ih hs.2]; simp [hq]
        | eq => rfl
        | gt => rfl
    · rename_i hc
      have hkk : k' = k := kcmp_eq_iff.mp hc
      subst hkk
      by_cases hq : q = k'
      · subst hq; simp only [if_true]; exact get_none_of_lt hs.2 hs.1
      · simp only [hq, if_false, MemDB.get]
        have hne : kcmp k' q ≠ .eq := fun h => hq (kcmp_eq_iff.mp h).symm
        cases hc2 : kcmp k' q with
        | eq => exact absurd hc2 hne
        | lt => rfl
        | gt =>
          have hlt := kcmp_gt_iff.mp hc2
          exact get_none_of_lt hs.2 (fun e he => kcmp_lt_trans hlt (hs.1 e he))
    · rename_i hc   -- k' > k : k is absent
      have hk : kcmp k k' = .lt := kcmp_gt_iff.mp hc
      by_cases hq : q = k
      · subst hq; simp [MemDB.get, hc]
      · simp [hq]

/-- replaying one write-set entry into the store: a tombstone deletes, anything else is put -/
def applyEntry (st : Store) (e : KV) : Store := if e.2.isEmpty then Store.delete st e.1 else Store.put st e.1 e.2

theorem applyEntry_sorted {st : Store} (h : Sorted st) (e : KV) : Sorted (applyEntry st e) := by
  unfold applyEntry; split
  · exact delete_sorted h _
  · exact put_sorted h _ _

theorem read_applyEntry {st : Store} (h : Sorted st) (e : KV) (q : Key) :
    Store.read (applyEntry st e) q = if q = e.1 then e.2 else Store.read st q := by
  by_cases he : e.2.isEmpty
  · have hz : e.2 = [] := by simpa using he
    simp only [applyEntry, he, if_true, Store.read, Store.get]
    rw [get_delete h]
    by_cases hq : q = e.1 <;> simp [hq, hz]
  · have he' : e.2.isEmpty = false := by simpa using he
    simp only [applyEntry, he', Store.read, Store.get, Store.put, Bool.false_eq_true, if_false]
    rw [get_put h]
    by_cases hq : q = e.1 <;> simp [hq]

/-- reads after replaying a sorted write set: the write set's entry wins, everything else is unchanged -/
theorem read_foldl_applyEntry (es : List KV) (hes : Sorted es) {st : Store} (h : Sorted st) (q : Key) :
    Store.read (es.foldl applyEntry st) q = (match MemDB.get es q with | some v => v | none => Store.read st q)
    ∧ Sorted (es.foldl applyEntry st) := by
  induction es generalizing st with
  | nil => exact ⟨rfl, h⟩
  | cons e r ih =>
    unfold Sorted at hes ih
    rw [List.pairwise_cons] at hes
    obtain ⟨ih1, ih2⟩ := ih hes.2 (applyEntry_sorted h e)
    refine ⟨?_, ih2⟩
    rw [List.foldl_cons, ih1, read_applyEntry h]
    obtain ⟨k, v⟩ := e
    simp only [MemDB.get]
    cases hc : kcmp k q with
    | lt =>
      have : q ≠ k := fun hh => by subst hh; rw [kcmp_refl] at hc; cases hc
      simp [this]
    | eq =>
      have := kcmp_eq_iff.mp hc; subst this
      rw [get_none_of_lt hes.2 hes.1]; simp
    | gt =>
      have hlt := kcmp_gt_iff.mp hc
      have : q ≠ k := fun hh => by subst hh; rw [kcmp_refl] at hc; cases hc
      rw [get_none_of_lt hes.2 (fun e he => kcmp_lt_trans hlt (hes.1 e he))]
      simp [this]

/-- replaying a sorted write set into a memdb (CacheDB.Commit): same shape -/
def putEntry (m : MemDB) (e : KV) : MemDB := m.put e.1 e.2

theorem get_foldl_putEntry (es : List KV) (hes : Sorted es) {m : MemDB} (h : Sorted m) (q : Key) :
    MemDB.get (es.foldl putEntry m) q = (match MemDB.get es q with | some v => some v | none => MemDB.get m q)
    ∧ Sorted (es.foldl putEntry m) := by
  induction es generalizing m with
  | nil => exact ⟨rfl, h⟩
  | cons e r ih =>
    unfold Sorted at hes ih
    rw [List.pairwise_cons] at hes
    obtain ⟨ih1, ih2⟩ := ih hes.2 (show Sorted (putEntry m e) from put_sorted h e.1 e.2)
    refine ⟨?_, ih2⟩
    rw [List.foldl_cons, ih1]
    simp only [putEntry]
    rw [get_put h]
    obtain ⟨k, v⟩ := e
    simp only [MemDB.get]
    cases hc : kcmp k q with
    | lt =>
      have : q ≠ k := fun hh => by subst hh; rw [kcmp_refl] at hc; cases hc
      simp [this]
    | eq =>
      have := kcmp_eq_iff.mp hc; subst this
      rw [get_none_of_lt hes.2 hes.1]; simp
    | gt =>
      have hlt := kcmp_gt_iff.mp hc
      have : q ≠ k := fun hh => by subst hh; rw [kcmp_refl] at hc; cases hc
      rw [get_none_of_lt hes.2 (fun e he => kcmp_lt_trans hlt (hes.1 e he))]
      simp [this]

/-- all three layers strictly sorted -/
structure Inv (c : Cache) : Prop where
  tx : Sorted c.mem
  blk : Sorted c.backend.mem
  per : Sorted c.backend.store

theorem commit_backend_mem (c : Cache) :
    c.commit.backend.mem = c.mem.foldl putEntry c.backend.mem ∧ c.commit.backend.store = c.backend.store := by
  unfold Cache.commit
  simp only
  generalize c.backend = o
  induction c.mem generalizing o with
  | nil => exact ⟨rfl, rfl⟩
  | cons e r ih =>
    simp only [List.foldl_cons]
    have : (if e.2.isEmpty then o.delete e.1 else o.put e.1 e.2) = o.put e.1 e.2 := by
      split
      · rename_i he
        have : e.2 = [] := by simpa using he
        simp [Overlay.delete, Overlay.put, MemDB.del, this]
      · rfl
    rw [this]
    obtain ⟨h1, h2⟩ := ih (o.put e.1 e.2)
    exact ⟨by rw [h1]; rfl, by rw [h2]; rfl⟩

theorem commitTo_store (o : Overlay) : o.commitTo.store = o.mem.foldl applyEntry o.store ∧ o.commitTo.mem = o.mem :=
  ⟨rfl, rfl⟩

theorem step_inv {c : Cache} (inv : Inv c) (op : COp) : Inv (c.step op) := by
  obtain ⟨h1, h2, h3⟩ := inv
  cases op with
  | put k v => exact ⟨put_sorted h1 _ _, h2, h3⟩
  | del k => exact ⟨put_sorted h1 _ _, h2, h3⟩
  | commit =>
    obtain ⟨e1, e2⟩ := commit_backend_mem c
    refine ⟨by simp [Cache.step, Cache.commit, Sorted], ?_, ?_⟩
    · show Sorted c.commit.backend.mem
      rw [e1]; exact (get_foldl_putEntry c.mem h1 h2 []).2
    · show Sorted c.commit.backend.store
      rw [e2]; exact h3
  | reset => exact ⟨by simp [Cache.step, Cache.reset, Sorted], h2, h3⟩
  | bput k v => exact ⟨h1, put_sorted h2 _ _, h3⟩
  | bdel k => exact ⟨h1, put_sorted h2 _ _, h3⟩
  | bcommit keep =>
    have hs : Sorted (c.backend.mem.foldl applyEntry c.backend.store) := (read_foldl_applyEntry _ h2 h3 []).2
    cases keep with
    | true => exact ⟨h1, h2, hs⟩
    | false => exact ⟨h1, by simp [Cache.step, Overlay.reset, Sorted], hs⟩
  | breset => exact ⟨h1, by simp [Cache.step, Overlay.reset, Sorted], h3⟩

/-! ### Iterators (C04) -/

/-- abstract state of an iterator over a list: not positioned yet / positioned on the head of `l` (`[]` = exhausted) -/
inductive Abs
  | fresh (l : List KV)
  | at (l : List KV)

def hdKey : List KV → Bytes
  | [] => []
  | e :: _ => e.1
def hdVal : List KV → Bytes
  | [] => []
  | e :: _ => e.2

/-- `R` relates concrete iterator states to abstract ones and is preserved by the operations: the iterator yields the
list, then reports exhaustion with nil key/value, forever -/
structure Sim {σ : Type} (O : IterOps σ) (R : σ → Abs → Prop) : Prop where
  first : ∀ s l, R s (.fresh l) → (O.first s).1 = !l.isEmpty ∧ R (O.first s).2 (.at l)
  next : ∀ s l, R s (.at l) →
    O.key s = hdKey l ∧ O.value s = hdVal l ∧ (O.next s).1 = !l.tail.isEmpty ∧ R (O.next s).2 (.at l.tail)
  bound : ∀ s l, R s (.at l) → l.length ≤ O.bound s

def RLeaf (s : Leaf) : Abs → Prop
  | .fresh l => s.all = l ∧ s.cur = none
  | .at l => s.cur = some l ∧ l.length ≤ s.all.length

theorem leaf_sim : Sim leafOps RLeaf := by
  refine ⟨?_, ?_, ?_⟩
  · intro s l h
    obtain ⟨h1, h2⟩ := h
    subst h1
    exact ⟨rfl, rfl, Nat.le_refl _⟩
  · intro s l h
    obtain ⟨h1, h2⟩ := h
    cases l with
    | nil =>
      refine ⟨by simp [leafOps, Leaf.key, h1, hdKey], by simp [leafOps, Leaf.value, h1, hdVal], ?_, ?_⟩
      · simp [leafOps, Leaf.next, h1]
      · simp [leafOps, Leaf.next, h1, RLeaf]
    | cons e r =>
      refine ⟨by simp [leafOps, Leaf.key, h1, hdKey], by simp [leafOps, Leaf.value, h1, hdVal], ?_, ?_⟩
      · simp [leafOps, Leaf.next, h1]
      · simp only [leafOps, Leaf.next, h1, RLeaf, List.tail_cons, true_and]
        simp at h2; omega
  · intro s l h
    obtain ⟨_, h2⟩ := h
    simp [leafOps]; omega

/-- merge of two key-sorted lists; on equal keys the first (memory) side wins and the second side's entry is dropped -/
def mergeKV : List KV → List KV → List KV
  | [], lb => lb
  | m :: rm, [] => m :: rm
  | m :: rm, b :: rb =>
    match kcmp m.1 b.1 with
    | .lt => m :: mergeKV rm (b :: rb)
    | .eq => m :: mergeKV rm rb
    | .gt => b :: mergeKV (m :: rm) rb
termination_by a b => a.length + b.length

theorem mergeKV_nil_right (a : List KV) : mergeKV a [] = a := by
  cases a <;> simp [mergeKV]

theorem mergeKV_length (a b : List KV) : (mergeKV a b).length ≤ a.length + b.length := by
  induction a generalizing b with
  | nil => simp [mergeKV]
  | cons m rm iha =>
    induction b with
    | nil => simp [mergeKV]
    | cons x rb ihb =>
      rw [mergeKV]
      split
      · have := iha (x :: rb); simp at this ⊢; omega
      · have := iha rb; simp at this ⊢; omega
      · simp at ihb ⊢; omega

/-- the live entries: tombstones (empty values) are skipped -/
def live (l : List KV) : List KV := l.filter fun e => !e.2.isEmpty

def phantom : KV := ([], [])

/-- what a child still has to offer, as the join iterator sees it: nothing once its end flag is set; a child that is
exhausted but whose flag is not yet set (it was empty from the start) offers a phantom nil/nil element -/
def virt (p : List KV) (ended : Bool) : List KV := if ended then [] else if p.isEmpty then [phantom] else p

theorem virt_false (p : List KV) : virt p false = (hdKey p, hdVal p) :: p.tail := by
  cases p <;> simp [virt, phantom, hdKey, hdVal]

theorem virt_tail (p : List KV) : virt p.tail p.tail.isEmpty = p.tail := by
  unfold virt
  cases h : p.tail with
  | nil => simp
  | cons a r => simp

section join
variable {μ β : Type} (M : IterOps μ) (B : IterOps β) (RM : μ → Abs → Prop) (RB : β → Abs → Prop)

/-- final state: both end flags set, nil key/value -/
def D1 (j : Join μ β) : Prop := j.memEnd = true ∧ j.backEnd = true ∧ j.key = [] ∧ j.value = []

/-- the children are positioned on `pm` / `pb`, the end flags are sound, and the current key/value/origin is the head
of the side(s) named by `origin` -/
structure IState (j : Join μ β) (pm pb : List KV) : Prop where
  hm : RM j.mem (.at pm)
  hb : RB j.back (.at pb)
  me : j.memEnd = true → pm = []
  be : j.backEnd = true → pb = []
  cur : match j.origin with
    | .mem => j.memEnd = false ∧ j.key = hdKey pm ∧ j.value = hdVal pm
    | .back => j.backEnd = false ∧ j.key = hdKey pb ∧ j.value = hdVal pb
    | .both => j.memEnd = false ∧ j.backEnd = false ∧ j.key = hdKey pm ∧ j.value = hdVal pm

/-- the raw stream (before tombstones are skipped) that follows the current element -/
def restOf (j : Join μ β) (pm pb : List KV) : List KV :=
  match j.origin with
  | .mem => mergeKV (virt pm j.memEnd).tail (virt pb j.backEnd)
  | .back => mergeKV (virt pm j.memEnd) (virt pb j.backEnd).tail
  | .both => mergeKV (virt pm j.memEnd).tail (virt pb j.backEnd).tail

/-- second half of `JoinIter.next`: pick the smaller head -/
def sel (j : Join μ β) : Bool × Join μ β :=
  if j.backEnd then
    if j.memEnd then (false, { j with key := [], value := [] })
    else (true, { j with key := M.key j.mem, value := M.value j.mem, origin := .mem })
  else if j.memEnd then (true, { j with key := B.key j.back, value := B.value j.back, origin := .back })
  else
    match kcmp (M.key j.mem) (B.key j.back) with
    | .lt => (true, { j with key := M.key j.mem, value := M.value j.mem, origin := .mem })
    | .eq => (true, { j with key := M.key j.mem, value := M.value j.mem, origin := .both })
    | .gt => (true, { j with key := B.key j.back, value := B.value j.back, origin := .back })

/-- first half: advance the side(s) the current element came from -/
def adv (j : Join μ β) : Join μ β :=
  let mm := if (j.origin == .mem || j.origin == .both) && !j.memEnd then ((M.next j.mem).2, !(M.next j.mem).1) else (j.mem, j.memEnd)
  let bb := if (j.origin == .back || j.origin == .both) && !j.backEnd then ((B.next j.back).2, !(B.next j.back).1) else (j.back, j.backEnd)
  { j with mem := mm.1, back := bb.1, memEnd := mm.2, backEnd := bb.2 }

theorem rawNext_eq (j : Join μ β) : Join.rawNext M B j = sel M B (adv M B j) := by
  unfold Join.rawNext sel adv
  by_cases h1 : ((j.origin == .mem || j.origin == .both) && !j.memEnd) = true <;>
  by_cases h2 : ((j.origin == .back || j.origin == .both) && !j.backEnd) = true <;>
  simp only [h1, h2, if_true, if_false] <;> rfl

variable {M B RM RB}

theorem sel_spec (sm : Sim M RM) (sb : Sim B RB) (j : Join μ β) (pm pb : List KV)
    (hm : RM j.mem (.at pm)) (hb : RB j.back (.at pb))
    (me : j.memEnd = true → pm = []) (be : j.backEnd = true → pb = []) :
    (mergeKV (virt pm j.memEnd) (virt pb j.backEnd) = [] → (sel M B j).1 = false ∧ D1 (sel M B j).2) ∧
    (mergeKV (virt pm j.memEnd) (virt pb j.backEnd) ≠ [] → (sel M B j).1 = true ∧ IState RM RB (sel M B j).2 pm pb ∧
      ((sel M B j).2.key, (sel M B j).2.value) :: restOf (sel M B j).2 pm pb
        = mergeKV (virt pm j.memEnd) (virt pb j.backEnd)) := by
  obtain ⟨km, vm, _, _⟩ := sm.next _ _ hm
  obtain ⟨kb, vb, _, _⟩ := sb.next _ _ hb
  cases hbe : j.backEnd <;> cases hme : j.memEnd
  · -- both sides still open
    rw [virt_false, virt_false]
    constructor
    · intro h; rw [mergeKV] at h; split at h <;> simp at h
    · intro _
      unfold sel
      simp only [hbe, hme, Bool.false_eq_true, if_false, km, kb, vm, vb]
      rw [mergeKV]
      simp only
      cases hc : kcmp (hdKey pm) (hdKey pb) with
      | lt =>
        refine ⟨rfl, ⟨hm, hb, by simp [hme], by simp [hbe], ?_⟩, ?_⟩
        · simp [hme]
        · simp [restOf, hme, hbe, virt_false]
      | eq =>
        refine ⟨rfl, ⟨hm, hb, by simp [hme], by simp [hbe], ?_⟩, ?_⟩
        · simp [hme, hbe]
        · simp [restOf, hme, hbe, virt_false]
      | gt =>
        refine ⟨rfl, ⟨hm, hb, by simp [hme], by simp [hbe], ?_⟩, ?_⟩
        · simp [hbe]
        · simp [restOf, hme, hbe, virt_false]
  · -- memory side ended
    have : virt pm true = [] := rfl
    rw [this, virt_false]
    constructor
    · intro h; simp [mergeKV] at h
    · intro _
      unfold sel
      simp only [hbe, hme, Bool.false_eq_true, if_false, if_true, kb, vb]
      refine ⟨by trivial, ⟨hm, hb, by simpa [hme] using me, by simp [hbe], ?_⟩, ?_⟩
      · simp [hbe]
      · simp [restOf, hme, hbe, virt_false, this, mergeKV]
  · -- backend side ended
    have : virt pb true = [] := rfl
    rw [this, virt_false]
    constructor
    · intro h; simp [mergeKV] at h
    · intro _
      unfold sel
      simp only [hbe, hme, Bool.false_eq_true, if_false, if_true, km, vm]
      refine ⟨by trivial, ⟨hm, hb, by simp [hme], by simpa [hbe] using be, ?_⟩, ?_⟩
      · simp [hme]
      · simp [restOf, hme, hbe, virt_false, this, mergeKV_nil_right]
  · constructor
    · intro _
      unfold sel
      simp [hbe, hme, D1]
    · intro h; simp [virt, mergeKV] at h

end join

section join
variable {μ β : Type} {M : IterOps μ} {B : IterOps β} {RM : μ → Abs → Prop} {RB : β → Abs → Prop}

theorem adv_spec (sm : Sim M RM) (sb : Sim B RB) (j : Join μ β) (pm pb : List KV) (h : IState RM RB j pm pb) :
    ∃ pm₁ pb₁, RM (adv M B j).mem (.at pm₁) ∧ RB (adv M B j).back (.at pb₁) ∧
      ((adv M B j).memEnd = true → pm₁ = []) ∧ ((adv M B j).backEnd = true → pb₁ = []) ∧
      mergeKV (virt pm₁ (adv M B j).memEnd) (virt pb₁ (adv M B j).backEnd) = restOf j pm pb ∧
      pm₁.length ≤ pm.length ∧ pb₁.length ≤ pb.length := by
  obtain ⟨hm, hb, me, be, cur⟩ := h
  obtain ⟨_, _, nm, rm⟩ := sm.next _ _ hm
  obtain ⟨_, _, nb, rb⟩ := sb.next _ _ hb
  have tl (l : List KV) : l.tail.length ≤ l.length := by simp
  cases ho : j.origin with
  | mem =>
    rw [ho] at cur
    obtain ⟨c1, _, _⟩ := cur
    refine ⟨pm.tail, pb, ?_, ?_, ?_, ?_, ?_, tl _, Nat.le_refl _⟩
    · simpa [adv, ho, c1] using rm
    · simpa [adv, ho] using hb
    · simp [adv, ho, c1, nm]
    · simpa [adv, ho] using be
    · simp only [adv, ho, c1, restOf, nm]
      simp [virt_false, virt_tail]
  | back =>
    rw [ho] at cur
    obtain ⟨c1, _, _⟩ := cur
    refine ⟨pm, pb.tail, ?_, ?_, ?_, ?_, ?_, Nat.le_refl _, tl _⟩
    · simpa [adv, ho] using hm
    · simpa [adv, ho, c1] using rb
    · simpa [adv, ho] using me
    · simp [adv, ho, c1, nb]
    · simp only [adv, ho, c1, restOf, nb]
      simp [virt_false, virt_tail]
  | both =>
    rw [ho] at cur
    obtain ⟨c1, c2, _, _⟩ := cur
    refine ⟨pm.tail, pb.tail, ?_, ?_, ?_, ?_, ?_, tl _, tl _⟩
    · simpa [adv, ho, c1] using rm
    · simpa [adv, ho, c2] using rb
    · simp [adv, ho, c1, nm]
    · simp [adv, ho, c2, nb]
    · simp only [adv, ho, c1, c2, restOf, nm, nb]
      simp [virt_false, virt_tail]

/-- the raw stream from the current element on -/
def stream (j : Join μ β) (pm pb : List KV) : List KV := (j.key, j.value) :: restOf j pm pb

theorem rawNext_spec (sm : Sim M RM) (sb : Sim B RB) (j : Join μ β) (pm pb : List KV) (h : IState RM RB j pm pb) :
    (restOf j pm pb = [] → (Join.rawNext M B j).1 = false ∧ D1 (Join.rawNext M B j).2) ∧
    (restOf j pm pb ≠ [] → (Join.rawNext M B j).1 = true ∧ ∃ pm' pb', IState RM RB (Join.rawNext M B j).2 pm' pb' ∧
      stream (Join.rawNext M B j).2 pm' pb' = restOf j pm pb ∧ pm'.length ≤ pm.length ∧ pb'.length ≤ pb.length) := by
  obtain ⟨pm₁, pb₁, a1, a2, a3, a4, a5, l1, l2⟩ := adv_spec sm sb j pm pb h
  obtain ⟨s1, s2⟩ := sel_spec sm sb (adv M B j) pm₁ pb₁ a1 a2 a3 a4
  rw [rawNext_eq, ← a5]
  refine ⟨s1, fun hne => ?_⟩
  obtain ⟨t1, t2, t3⟩ := s2 hne
  exact ⟨t1, pm₁, pb₁, t2, t3, l1, l2⟩

theorem virt_length (p : List KV) (e : Bool) : (virt p e).length ≤ p.length + 1 := by
  unfold virt; split
  · simp
  · split <;> simp_all

theorem stream_length (j : Join μ β) (pm pb : List KV) : (stream j pm pb).length ≤ pm.length + pb.length + 3 := by
  have h1 := virt_length pm j.memEnd
  have h2 := virt_length pb j.backEnd
  have t1 : (virt pm j.memEnd).tail.length ≤ (virt pm j.memEnd).length := by simp
  have t2 : (virt pb j.backEnd).tail.length ≤ (virt pb j.backEnd).length := by simp
  unfold stream restOf
  simp only [List.length_cons]
  split
  · have := mergeKV_length (virt pm j.memEnd).tail (virt pb j.backEnd); omega
  · have := mergeKV_length (virt pm j.memEnd) (virt pb j.backEnd).tail; omega
  · have := mergeKV_length (virt pm j.memEnd).tail (virt pb j.backEnd).tail; omega

theorem skip_spec (sm : Sim M RM) (sb : Sim B RB) (n : Nat) (j : Join μ β) (pm pb : List KV)
    (h : IState RM RB j pm pb) (hn : (stream j pm pb).length ≤ n) :
    (live (stream j pm pb) = [] → (Join.skip M B n j).1 = false ∧ D1 (Join.skip M B n j).2) ∧
    (live (stream j pm pb) ≠ [] → (Join.skip M B n j).1 = true ∧ ∃ pm' pb', IState RM RB (Join.skip M B n j).2 pm' pb' ∧
      live (stream (Join.skip M B n j).2 pm' pb') = live (stream j pm pb) ∧ (Join.skip M B n j).2.value ≠ [] ∧
      pm'.length ≤ pm.length ∧ pb'.length ≤ pb.length) := by
  induction n generalizing j pm pb with
  | zero => simp [stream] at hn
  | succ n ih =>
    by_cases hv : j.value.isEmpty = true
    · have hl : live (stream j pm pb) = live (restOf j pm pb) := by
        simp [stream, live, List.filter_cons, hv]
      obtain ⟨r1, r2⟩ := rawNext_spec sm sb j pm pb h
      by_cases hr : restOf j pm pb = []
      · obtain ⟨q1, q2⟩ := r1 hr
        have e : Join.skip M B (n + 1) j = (false, (Join.rawNext M B j).2) := by
          simp [Join.skip, hv, q1]
        rw [e]
        refine ⟨fun _ => ⟨rfl, q2⟩, fun hne => ?_⟩
        rw [hl, hr] at hne; simp [live] at hne
      · obtain ⟨q1, pm', pb', q2, q3, l1, l2⟩ := r2 hr
        have e : Join.skip M B (n + 1) j = Join.skip M B n (Join.rawNext M B j).2 := by
          simp [Join.skip, hv, q1]
        have hn' : (stream (Join.rawNext M B j).2 pm' pb').length ≤ n := by
          rw [q3]; simp [stream] at hn; omega
        obtain ⟨i1, i2⟩ := ih _ pm' pb' q2 hn'
        rw [e, hl, ← q3]
        refine ⟨i1, fun hne => ?_⟩
        obtain ⟨u1, pm'', pb'', u2, u3, u4, u5, u6⟩ := i2 hne
        exact ⟨u1, pm'', pb'', u2, u3, u4, by omega, by omega⟩
    · have e : Join.skip M B (n + 1) j = (true, j) := by simp [Join.skip, hv]
      have hv' : j.value ≠ [] := by
        intro hh; apply hv; simp [hh]
      rw [e]
      refine ⟨fun hl => ?_, fun _ => ⟨rfl, pm, pb, h, rfl, hv', Nat.le_refl _, Nat.le_refl _⟩⟩
      simp [stream, live, List.filter_cons, hv] at hl

end join

theorem live_cons_dead (e : KV) (l : List KV) (h : e.2 = []) : live (e :: l) = live l := by
  simp [live, List.filter_cons, h]

theorem live_cons_live (e : KV) (l : List KV) (h : e.2 ≠ []) : live (e :: l) = e :: live l := by
  have : e.2.isEmpty = false := by cases hh : e.2 with
    | nil => exact absurd hh h
    | cons a r => rfl
  simp [live, List.filter_cons, this]

theorem live_merge_phantom_right (l : List KV) : live (mergeKV l [phantom]) = live l := by
  induction l with
  | nil => simp [mergeKV, live, phantom]
  | cons m r ih =>
    rw [mergeKV]
    split
    · rename_i hc
      cases hk : m.1 <;> simp [hk, phantom, kcmp] at hc
    · rw [mergeKV_nil_right]
    · rw [live_cons_dead _ _ (by rfl), mergeKV_nil_right]

theorem live_merge_phantom_left (l : List KV) (h : ∀ e ∈ l, e.1 ≠ []) : live (mergeKV [phantom] l) = live l := by
  cases l with
  | nil => simp [mergeKV, live, phantom]
  | cons b r =>
    have hb : b.1 ≠ [] := h b (by simp)
    rw [mergeKV]
    split
    · rw [live_cons_dead _ _ (by rfl)]; simp [mergeKV]
    · rename_i hc
      have : phantom.1 = b.1 := kcmp_eq_iff.mp hc
      exact absurd this.symm hb
    · rename_i hc
      cases hk : b.1 <;> simp [hk, phantom, kcmp] at hc

theorem virt_false_ne (p : List KV) (h : p ≠ []) : virt p false = p := by
  cases p with
  | nil => exact absurd rfl h
  | cons a r => simp [virt]

section join
variable {μ β : Type} {M : IterOps μ} {B : IterOps β} {RM : μ → Abs → Prop} {RB : β → Abs → Prop}

/-- abstraction relation of the join iterator: a fresh join over children that will yield `lm` / `lb` stands for
`live (mergeKV lm lb)`; a positioned one stands for the live part of its raw stream -/
def RJoin (RM : μ → Abs → Prop) (RB : β → Abs → Prop) (j : Join μ β) : Abs → Prop
  | .fresh L => ∃ lm lb, RM j.mem (.fresh lm) ∧ RB j.back (.fresh lb) ∧ (∀ e ∈ lb.tail, e.1 ≠ []) ∧
      L = live (mergeKV lm lb) ∧ j.memEnd = false ∧ j.backEnd = false ∧ j.origin = .mem ∧ j.key = [] ∧ j.value = []
  | .at L => (L = [] ∧ D1 j) ∨
      ∃ pm pb, IState RM RB j pm pb ∧ L = live (stream j pm pb) ∧ (L = [] → j.key = [] ∧ j.value = []) ∧
        (L ≠ [] → j.value ≠ [])

theorem rawFirst_spec (sm : Sim M RM) (sb : Sim B RB) (j : Join μ β) (L : List KV)
    (h : RJoin RM RB j (.fresh L)) :
    ∃ pm pb, IState RM RB (Join.rawFirst M B j).2 pm pb ∧ live (stream (Join.rawFirst M B j).2 pm pb) = L ∧
      ((Join.rawFirst M B j).1 = false → (Join.rawFirst M B j).2.key = [] ∧ (Join.rawFirst M B j).2.value = [] ∧ L = []) := by
  obtain ⟨lm, lb, hm, hb, hne, hL, f1, f2, f3, f4, f5⟩ := h
  obtain ⟨m1, m2⟩ := sm.first _ _ hm
  obtain ⟨b1, b2⟩ := sb.first _ _ hb
  obtain ⟨km, vm, _, _⟩ := sm.next _ _ m2
  obtain ⟨kb, vb, _, _⟩ := sb.next _ _ b2
  refine ⟨lm, lb, ?_⟩
  cases lm with
  | nil =>
    cases lb with
    | nil =>
      have e : Join.rawFirst M B j = (false, { j with mem := (M.first j.mem).2, back := (B.first j.back).2 }) := by
        simp [Join.rawFirst, m1, b1]
      rw [e]
      refine ⟨⟨m2, b2, by simp [f1], by simp [f2], ?_⟩, ?_, ?_⟩
      · simp [f3, f1, f4, f5, hdKey, hdVal]
      · simp [stream, restOf, f3, f1, f2, f4, f5, virt, mergeKV, hL, live, phantom]
      · intro _; simp [f4, f5, hL, mergeKV, live]
    | cons b rb =>
      have e : Join.rawFirst M B j = (true, { j with mem := (M.first j.mem).2, back := (B.first j.back).2, key := b.1, value := b.2, origin := .back }) := by
        simp [Join.rawFirst, m1, b1, kb, vb, hdKey, hdVal]
      rw [e]
      refine ⟨⟨m2, b2, by simp [f1], by simp [f2], ?_⟩, ?_, by simp⟩
      · simp [f2, hdKey, hdVal]
      · simp only [stream, restOf, f1, f2]
        rw [virt_false_ne (b :: rb) (by simp)]
        have : virt [] false = [phantom] := rfl
        rw [this, List.tail_cons, hL]
        simp only [mergeKV]
        by_cases hv : b.2 = []
        · rw [live_cons_dead _ _ (by simpa using hv), live_cons_dead _ _ hv]
          exact live_merge_phantom_left rb (by simpa using hne)
        · rw [live_cons_live _ _ (by simpa using hv), live_cons_live _ _ hv]
          rw [live_merge_phantom_left rb (by simpa using hne)]
  | cons m rm =>
    cases lb with
    | nil =>
      have e : Join.rawFirst M B j = (true, { j with mem := (M.first j.mem).2, back := (B.first j.back).2, key := m.1, value := m.2, origin := .mem }) := by
        simp [Join.rawFirst, m1, b1, km, vm, hdKey, hdVal]
      rw [e]
      refine ⟨⟨m2, b2, by simp [f1], by simp [f2], ?_⟩, ?_, by simp⟩
      · simp [f1, hdKey, hdVal]
      · simp only [stream, restOf, f1, f2]
        rw [virt_false_ne (m :: rm) (by simp)]
        have : virt [] false = [phantom] := rfl
        rw [this, List.tail_cons, hL, mergeKV_nil_right]
        by_cases hv : m.2 = []
        · rw [live_cons_dead _ _ (by simpa using hv), live_cons_dead _ _ hv]
          exact live_merge_phantom_right rm
        · rw [live_cons_live _ _ (by simpa using hv), live_cons_live _ _ hv, live_merge_phantom_right rm]
    | cons b rb =>
      let j0 : Join μ β := { j with mem := (M.first j.mem).2, back := (B.first j.back).2 }
      have e : Join.rawFirst M B j = sel M B j0 := by
        simp only [Join.rawFirst, sel, m1, b1, j0, f1, f2]
        simp only [List.isEmpty_cons, Bool.not_false, Bool.not_true, if_true, Bool.false_eq_true, if_false]
        cases kcmp (M.key (M.first j.mem).2) (B.key (B.first j.back).2) <;> rfl
      rw [e]
      obtain ⟨_, s2⟩ := sel_spec sm sb j0 (m :: rm) (b :: rb) m2 b2 (by simp [j0, f1]) (by simp [j0, f2])
      have hne' : mergeKV (virt (m :: rm) j0.memEnd) (virt (b :: rb) j0.backEnd) ≠ [] := by
        simp only [j0, f1, f2, virt_false_ne _ (List.cons_ne_nil _ _)]
        rw [mergeKV]; split <;> simp
      obtain ⟨t1, t2, t3⟩ := s2 hne'
      refine ⟨t2, ?_, by simp [t1]⟩
      show live (stream (sel M B j0).2 (m :: rm) (b :: rb)) = L
      unfold stream
      rw [t3, hL]
      simp only [j0, f1, f2, virt_false_ne _ (List.cons_ne_nil _ _)]

theorem stream_fuel (sm : Sim M RM) (sb : Sim B RB) (j : Join μ β) (pm pb : List KV) (h : IState RM RB j pm pb) :
    (stream j pm pb).length ≤ Join.fuel M B j := by
  have := stream_length j pm pb
  have := sm.bound _ _ h.hm
  have := sb.bound _ _ h.hb
  unfold Join.fuel; omega

theorem first_spec (sm : Sim M RM) (sb : Sim B RB) (j : Join μ β) (L : List KV)
    (h : RJoin RM RB j (.fresh L)) :
    (Join.first M B j).1 = !L.isEmpty ∧ RJoin RM RB (Join.first M B j).2 (.at L) := by
  obtain ⟨pm, pb, i1, i2, i3⟩ := rawFirst_spec sm sb j L h
  unfold Join.first
  simp only []
  by_cases hf : (Join.rawFirst M B j).1 = true
  · simp only [hf, if_true]
    obtain ⟨k1, k2⟩ := skip_spec sm sb _ _ pm pb i1 (stream_fuel sm sb _ pm pb i1)
    rw [i2] at k1 k2
    by_cases hL : L = []
    · obtain ⟨q1, q2⟩ := k1 hL
      rw [q1, hL]
      exact ⟨rfl, Or.inl ⟨rfl, q2⟩⟩
    · obtain ⟨q1, pm', pb', q2, q3, q4, _, _⟩ := k2 hL
      rw [q1]
      refine ⟨by cases L <;> simp_all, Or.inr ⟨pm', pb', q2, q3.symm, fun h => absurd h hL, fun _ => q4⟩⟩
  · have hf' : (Join.rawFirst M B j).1 = false := by simpa using hf
    simp only [hf', Bool.false_eq_true, if_false]
    obtain ⟨q1, q2, q3⟩ := i3 hf'
    rw [q3]
    exact ⟨rfl, Or.inr ⟨pm, pb, i1, by rw [i2, q3], fun _ => ⟨q1, q2⟩, fun h => absurd rfl h⟩⟩

end join

section join
variable {μ β : Type} {M : IterOps μ} {B : IterOps β} {RM : μ → Abs → Prop} {RB : β → Abs → Prop}

theorem d1_next (j : Join μ β) (h : D1 j) :
    (Join.next M B j).1 = false ∧ D1 (Join.next M B j).2 := by
  obtain ⟨h1, h2, h3, h4⟩ := h
  have e : Join.rawNext M B j = (false, { j with key := [], value := [] }) := by
    rw [rawNext_eq]
    simp [adv, sel, h1, h2]
  unfold Join.next
  simp only [e]
  exact ⟨rfl, h1, h2, rfl, rfl⟩

theorem next_spec (sm : Sim M RM) (sb : Sim B RB) (j : Join μ β) (L : List KV) (h : RJoin RM RB j (.at L)) :
    j.key = hdKey L ∧ j.value = hdVal L ∧ (Join.next M B j).1 = !L.tail.isEmpty ∧
      RJoin RM RB (Join.next M B j).2 (.at L.tail) := by
  rcases h with ⟨hL, hd⟩ | ⟨pm, pb, hi, hL, h0, h1⟩
  · subst hL
    obtain ⟨n1, n2⟩ := d1_next (M := M) (B := B) j hd
    exact ⟨hd.2.2.1, hd.2.2.2, n1, Or.inl ⟨rfl, n2⟩⟩
  · -- L.tail is the live part of what follows the current element
    have htail : L.tail = live (restOf j pm pb) ∧ j.key = hdKey L ∧ j.value = hdVal L := by
      by_cases hv : j.value = []
      · have hLe : L = [] := by
          cases hl : L with
          | nil => rfl
          | cons a r => exact absurd hv (h1 (by simp [hl]))
        have : live (restOf j pm pb) = [] := by
          rw [hLe] at hL
          rw [stream, live_cons_dead _ _ hv] at hL
          exact hL.symm
        obtain ⟨k0, v0⟩ := h0 hLe
        rw [hLe, this]; exact ⟨rfl, k0, v0⟩
      · rw [hL, stream, live_cons_live _ _ hv]
        exact ⟨rfl, rfl, rfl⟩
    obtain ⟨ht, hk, hvv⟩ := htail
    refine ⟨hk, hvv, ?_⟩
    obtain ⟨r1, r2⟩ := rawNext_spec sm sb j pm pb hi
    unfold Join.next
    simp only []
    by_cases hr : restOf j pm pb = []
    · obtain ⟨q1, q2⟩ := r1 hr
      have : L.tail = [] := by rw [ht, hr]; rfl
      simp only [q1, Bool.false_eq_true, if_false, this]
      exact ⟨rfl, Or.inl ⟨rfl, q2⟩⟩
    · obtain ⟨q1, pm', pb', q2, q3, _, _⟩ := r2 hr
      simp only [q1, if_true]
      obtain ⟨k1, k2⟩ := skip_spec sm sb _ _ pm' pb' q2 (stream_fuel sm sb _ pm' pb' q2)
      rw [q3, ← ht] at k1 k2
      by_cases hT : L.tail = []
      · obtain ⟨u1, u2⟩ := k1 hT
        rw [u1, hT]
        exact ⟨rfl, Or.inl ⟨rfl, u2⟩⟩
      · obtain ⟨u1, pm'', pb'', u2, u3, u4, _, _⟩ := k2 hT
        rw [u1]
        refine ⟨by cases h : L.tail <;> simp_all, Or.inr ⟨pm'', pb'', u2, u3.symm, fun h => absurd h hT, fun _ => u4⟩⟩

theorem live_length_le (l : List KV) : (live l).length ≤ l.length := List.length_filter_le _ _

theorem join_sim (sm : Sim M RM) (sb : Sim B RB) : Sim (joinOps M B) (RJoin RM RB) := by
  refine ⟨fun j L h => first_spec sm sb j L h, fun j L h => next_spec sm sb j L h, ?_⟩
  intro j L h
  rcases h with ⟨hL, _⟩ | ⟨pm, pb, hi, hL, _, _⟩
  · subst hL; simp
  · have := stream_length j pm pb
    have := sm.bound _ _ hi.hm
    have := sb.bound _ _ hi.hb
    have := live_length_le (stream j pm pb)
    show L.length ≤ M.bound j.mem + B.bound j.back + 3
    rw [hL]; omega

end join

/-- draining `n` elements of a simulated iterator that has just been `first`-ed yields the first `n` elements of its list -/
theorem drain_spec {σ : Type} {O : IterOps σ} {R : σ → Abs → Prop} (sim : Sim O R) (strip : Bool) (n : Nat)
    (s : σ) (l : List KV) (ok : Bool) (h : R s (.at l)) (hok : ok = !l.isEmpty) :
    drain O strip n (ok, s) = (l.take n).map fun e => ((if strip then e.1.drop 1 else e.1), e.2) := by
  induction n generalizing s l ok with
  | zero => simp [drain]
  | succ n ih =>
    obtain ⟨k, v, nx, rn⟩ := sim.next s l h
    cases l with
    | nil => subst hok; simp [drain]
    | cons e r =>
      subst hok
      simp only [drain, List.isEmpty_cons, Bool.not_false, if_true, k, v, hdKey, hdVal, List.take_succ_cons, List.map_cons]
      congr 1
      have := ih (O.next s).2 r (O.next s).1 rn (by simpa using nx)
      rw [← this]

theorem mem_mergeKV {a b : List KV} {e : KV} (h : e ∈ mergeKV a b) : e ∈ a ∨ e ∈ b := by
  fun_induction mergeKV a b with
  | case1 lb => exact Or.inr h
  | case2 m rm => exact Or.inl h
  | case3 m rm b rb hc ih =>
    simp only [List.mem_cons] at h ⊢
    rcases h with h | h
    · exact Or.inl (Or.inl h)
    · rcases ih h with h | h
      · exact Or.inl (Or.inr h)
      · simp only [List.mem_cons] at h; exact Or.inr h
  | case4 m rm b rb hc ih =>
    simp only [List.mem_cons] at h ⊢
    rcases h with h | h
    · exact Or.inl (Or.inl h)
    · rcases ih h with h | h
      · exact Or.inl (Or.inr h)
      · exact Or.inr (Or.inr h)
  | case5 m rm b rb hc ih =>
    simp only [List.mem_cons] at h ⊢
    rcases h with h | h
    · exact Or.inr (Or.inl h)
    · rcases ih h with h | h
      · simp only [List.mem_cons] at h; exact Or.inl h
      · exact Or.inr (Or.inr h)

theorem get_cons (k : Key) (v : Val) (r : List KV) (q : Key) :
    MemDB.get ((k, v) :: r) q = match kcmp k q with | .lt => MemDB.get r q | .eq => some v | .gt => none := rfl

theorem mergeKV_sorted_get {a b : List KV} (ha : Sorted a) (hb : Sorted b) :
    Sorted (mergeKV a b) ∧ ∀ q, MemDB.get (mergeKV a b) q = (match MemDB.get a q with | some v => some v | none => MemDB.get b q) := by
  fun_induction mergeKV a b with
  | case1 lb => exact ⟨hb, fun q => rfl⟩
  | case2 m rm => exact ⟨ha, fun q => by cases MemDB.get (m :: rm) q <;> rfl⟩
  | case3 m rm b rb hc ih =>
    unfold Sorted at ha hb ih ⊢
    rw [List.pairwise_cons] at ha
    obtain ⟨i1, i2⟩ := ih ha.2 hb
    have hb' := hb
    rw [List.pairwise_cons] at hb'
    constructor
    · rw [List.pairwise_cons]
      refine ⟨fun e he => ?_, i1⟩
      rcases mem_mergeKV he with h | h
      · exact ha.1 e h
      · simp only [List.mem_cons] at h
        rcases h with rfl | h
        · exact hc
        · exact kcmp_lt_trans hc (hb'.1 e h)
    · intro q
      obtain ⟨mk, mv⟩ := m
      obtain ⟨bk, bv⟩ := b
      simp only [get_cons, i2 q]
      cases hq : kcmp mk q with
      | lt => rfl
      | eq => rfl
      | gt =>
        -- q < mk < bk: absent on both sides
        have hlt : kcmp q mk = .lt := kcmp_gt_iff.mp hq
        have : kcmp q bk = .lt := kcmp_lt_trans hlt hc
        simp [kcmp_gt_iff.mpr this]
  | case4 m rm b rb hc ih =>
    unfold Sorted at ha hb ih ⊢
    rw [List.pairwise_cons] at ha hb
    obtain ⟨i1, i2⟩ := ih ha.2 hb.2
    have hk : m.1 = b.1 := kcmp_eq_iff.mp hc
    constructor
    · rw [List.pairwise_cons]
      refine ⟨fun e he => ?_, i1⟩
      rcases mem_mergeKV he with h | h
      · exact ha.1 e h
      · rw [hk]; exact hb.1 e h
    · intro q
      obtain ⟨mk, mv⟩ := m
      obtain ⟨bk, bv⟩ := b
      simp only at hk; subst hk
      simp only [get_cons, i2 q]
      cases hq : kcmp mk q with
      | lt => rfl
      | eq => rfl
      | gt =>
        have hlt : kcmp q mk = .lt := kcmp_gt_iff.mp hq
        rw [get_none_of_lt ha.2 (fun e he => kcmp_lt_trans hlt (ha.1 e he)),
            get_none_of_lt hb.2 (fun e he => kcmp_lt_trans hlt (hb.1 e he))]
  | case5 m rm b rb hc ih =>
    unfold Sorted at ha hb ih ⊢
    have ha' := ha
    rw [List.pairwise_cons] at ha' hb
    obtain ⟨i1, i2⟩ := ih ha hb.2
    have hbm : kcmp b.1 m.1 = .lt := kcmp_gt_iff.mp hc
    constructor
    · rw [List.pairwise_cons]
      refine ⟨fun e he => ?_, i1⟩
      rcases mem_mergeKV he with h | h
      · simp only [List.mem_cons] at h
        rcases h with rfl | h
        · exact hbm
        · exact kcmp_lt_trans hbm (ha'.1 e h)
      · exact hb.1 e h
    · intro q
      obtain ⟨mk, mv⟩ := m
      obtain ⟨bk, bv⟩ := b
      simp only [get_cons, i2 q]
      cases hq : kcmp bk q with
      | lt => rfl
      | eq =>
        have := kcmp_eq_iff.mp hq; subst this
        simp [hc]
      | gt =>
        have hlt : kcmp q bk = .lt := kcmp_gt_iff.mp hq
        have : kcmp q mk = .lt := kcmp_lt_trans hlt hbm
        simp [kcmp_gt_iff.mpr this]

theorem mem_iff_get {l : List KV} (hs : Sorted l) (k : Key) (v : Val) : (k, v) ∈ l ↔ MemDB.get l k = some v := by
  induction l with
  | nil => simp [MemDB.get]
  | cons a r ih =>
    obtain ⟨ak, av⟩ := a
    unfold Sorted at hs ih
    rw [List.pairwise_cons] at hs
    simp only [List.mem_cons, get_cons, Prod.mk.injEq]
    cases hc : kcmp ak k with
    | lt =>
      have : k ≠ ak := fun h => by subst h; rw [kcmp_refl] at hc; cases hc
      simp [this, ih hs.2]
    | eq =>
      have := kcmp_eq_iff.mp hc; subst this
      have hn : (ak, v) ∉ r := fun h => by have := hs.1 _ h; rw [kcmp_refl] at this; cases this
      simp only [true_and, Option.some.injEq]
      constructor
      · rintro (h | h)
        · exact h.symm
        · exact absurd h hn
      · intro h; exact Or.inl h.symm
    | gt =>
      have hlt : kcmp k ak = .lt := kcmp_gt_iff.mp hc
      have : k ≠ ak := fun h => by subst h; rw [kcmp_refl] at hc; cases hc
      have hn : (k, v) ∉ r := fun h => by
        have := kcmp_lt_trans hlt (hs.1 _ h); rw [kcmp_refl] at this; cases this
      simp [this, hn]

theorem sorted_filter {l : List KV} (hs : Sorted l) (f : KV → Bool) : Sorted (l.filter f) :=
  List.Pairwise.sublist List.filter_sublist hs

theorem mem_live {l : List KV} (k : Key) (v : Val) : (k, v) ∈ live l ↔ (k, v) ∈ l ∧ v ≠ [] := by
  simp [live, List.mem_filter]

theorem tail_keys_ne {l : List KV} (hs : Sorted l) : ∀ e ∈ l.tail, e.1 ≠ [] := by
  cases l with
  | nil => simp
  | cons a r =>
    unfold Sorted at hs
    rw [List.pairwise_cons] at hs
    intro e he hh
    have := hs.1 e he
    rw [hh] at this
    cases hk : a.1 <;> rw [hk] at this <;> simp [kcmp] at this

/-- `util.BytesPrefix`: the keys in `[prefix, limit)` are exactly the keys that start with `prefix` -/
theorem prefix_range (p k : Bytes) :
    (kcmp k p ≠ .lt ∧ belowLimit (prefixLimit p) k = true) ↔ p <+: k := by
  induction p generalizing k with
  | nil =>
    simp only [prefixLimit, belowLimit, List.nil_prefix, and_true, iff_true]
    cases k <;> simp [kcmp]
  | cons c r ih =>
    cases k with
    | nil => simp [kcmp]
    | cons d ks =>
      rw [List.cons_prefix_cons]
      simp only [kcmp]
      by_cases h1 : d.toNat < c.toNat
      · have hne : c ≠ d := fun h => by subst h; omega
        simp [h1, hne]
      · by_cases h2 : c.toNat < d.toNat
        · have hne : d ≠ c := fun h => by subst h; omega
          have hne' : c ≠ d := fun h => hne h.symm
          simp only [h1, h2, if_false, if_true, ne_eq, reduceCtorEq, not_false_eq_true, true_and, hne', false_and, iff_false]
          simp only [prefixLimit]
          cases hl : prefixLimit r with
          | some l => simp [belowLimit, kcmp, h1, h2]
          | none =>
            simp only
            by_cases hc : c.toNat < 255
            · have e : (c + 1).toNat = c.toNat + 1 := by simp [UInt8.toNat_add]; omega
              simp only [hc, if_true, belowLimit, kcmp, e]
              have h3 : ¬ d.toNat < c.toNat + 1 := by omega
              by_cases h4 : c.toNat + 1 < d.toNat
              · simp [h3, h4]
              · simp only [h3, h4, if_false]
                cases ks <;> simp [kcmp]
            · have := UInt8.toNat_lt d
              omega
        · have hdc : c = d := by apply UInt8.toNat_inj.mp; omega
          subst hdc
          simp only [h1, if_false, true_and]
          rw [← ih ks]
          simp only [prefixLimit]
          cases hl : prefixLimit r with
          | some l => simp [belowLimit, kcmp]
          | none =>
            simp only
            by_cases hc : c.toNat < 255
            · have e : (c + 1).toNat = c.toNat + 1 := by simp [UInt8.toNat_add]; omega
              simp [hc, belowLimit, kcmp, e]
            · simp [hc, belowLimit]

theorem belowLimit_mono {lim : Option Bytes} {a b : Key} (hab : kcmp a b = .lt) (hb : belowLimit lim b = true) :
    belowLimit lim a = true := by
  cases lim with
  | none => rfl
  | some l =>
    simp only [belowLimit, beq_iff_eq] at hb ⊢
    exact kcmp_lt_trans hab hb

/-- on a sorted list the walk `findGE(start)` … until `limit` selects exactly the keys in range -/
theorem slice_sorted_get {m : List KV} (hs : Sorted m) (start : Bytes) (lim : Option Bytes) :
    Sorted (slice m start lim) ∧ ∀ q, MemDB.get (slice m start lim) q =
      (if kcmp q start ≠ .lt ∧ belowLimit lim q = true then MemDB.get m q else none) := by
  induction m with
  | nil => exact ⟨by simp [slice, Sorted], fun q => by simp [slice, MemDB.get]⟩
  | cons a r ih =>
    obtain ⟨ak, av⟩ := a
    unfold Sorted at hs ih
    rw [List.pairwise_cons] at hs
    obtain ⟨i1, i2⟩ := ih hs.2
    by_cases hd : kcmp ak start = .lt
    · -- dropped
      have e : slice ((ak, av) :: r) start lim = slice r start lim := by
        simp [slice, List.dropWhile_cons, hd]
      rw [e]
      refine ⟨i1, fun q => ?_⟩
      rw [i2 q, get_cons]
      by_cases hr : kcmp q start ≠ .lt ∧ belowLimit lim q = true
      · simp only [hr, and_self, if_true]
        cases hc : kcmp ak q with
        | lt => rfl
        | eq => have := kcmp_eq_iff.mp hc; subst this; exact absurd hd hr.1
        | gt =>
          have := kcmp_lt_trans (kcmp_gt_iff.mp hc) hd
          exact absurd this hr.1
      · simp [hr]
    · -- kept by dropWhile: everything after is ≥ start too
      have hge : ∀ e ∈ r, kcmp e.1 start ≠ .lt := fun e he h => hd (kcmp_lt_trans (hs.1 e he) h)
      have edrop : ((ak, av) :: r).dropWhile (fun e => kcmp e.1 start == .lt) = (ak, av) :: r := by
        simp [List.dropWhile_cons, hd]
      have edrop' : r.dropWhile (fun e => kcmp e.1 start == .lt) = r := by
        cases r with
        | nil => rfl
        | cons b rr => simp [List.dropWhile_cons, hge b (by simp)]
      by_cases hl : belowLimit lim ak = true
      · have e : slice ((ak, av) :: r) start lim = (ak, av) :: slice r start lim := by
          simp only [slice, edrop, edrop', List.takeWhile_cons, hl, if_true]
        rw [e]
        constructor
        · unfold Sorted
          rw [List.pairwise_cons]
          refine ⟨fun x hx => ?_, i1⟩
          have : x ∈ r := by
            simp only [slice, edrop'] at hx
            exact (List.takeWhile_sublist _).subset hx
          exact hs.1 x this
        · intro q
          rw [get_cons, get_cons, i2 q]
          cases hc : kcmp ak q with
          | lt => rfl
          | eq =>
            have := kcmp_eq_iff.mp hc; subst this
            simp [hd, hl]
          | gt => simp
      · have e : slice ((ak, av) :: r) start lim = [] := by
          simp only [slice, edrop, List.takeWhile_cons, hl]; simp
        rw [e]
        refine ⟨by simp [Sorted], fun q => ?_⟩
        simp only [MemDB.get]
        by_cases hr : kcmp q start ≠ .lt ∧ belowLimit lim q = true
        · rw [if_pos hr]
          cases hc : kcmp ak q with
          | lt => exact absurd (belowLimit_mono hc hr.2) hl
          | eq => have := kcmp_eq_iff.mp hc; subst this; exact absurd hr.2 hl
          | gt => rfl
        · simp [hr]

theorem prefixSlice_spec {m : List KV} (hs : Sorted m) (p : Bytes) :
    Sorted (prefixSlice m p) ∧ ∀ k v, (k, v) ∈ prefixSlice m p ↔ (p <+: k ∧ MemDB.get m k = some v) := by
  obtain ⟨s1, s2⟩ := slice_sorted_get hs p (prefixLimit p)
  unfold prefixSlice
  refine ⟨s1, fun k v => ?_⟩
  rw [mem_iff_get s1, s2 k]
  by_cases h : kcmp k p ≠ .lt ∧ belowLimit (prefixLimit p) k = true
  · simp [h, (prefix_range p k).mp h]
  · have : ¬ p <+: k := fun hp => h ((prefix_range p k).mpr hp)
    simp [h, this]

theorem get_prefixSlice {m : List KV} (hs : Sorted m) (p k : Bytes) :
    (p <+: k → MemDB.get (prefixSlice m p) k = MemDB.get m k) ∧ (¬ p <+: k → MemDB.get (prefixSlice m p) k = none) := by
  have s2 := (slice_sorted_get hs p (prefixLimit p)).2 k
  unfold prefixSlice
  constructor
  · intro h; rw [s2, if_pos ((prefix_range p k).mpr h)]
  · intro h; rw [s2, if_neg (fun hh => h ((prefix_range p k).mp hh))]

/-- the list an `OverlayDB` prefix iterator stands for -/
def overlayList (o : Overlay) (p : Bytes) : List KV :=
  live (mergeKV (prefixSlice o.mem p) (prefixSlice o.store p))

theorem overlayList_spec (o : Overlay) (hm : Sorted o.mem) (hs : Sorted o.store) (p : Bytes) :
    Sorted (overlayList o p) ∧ ∀ k v, (k, v) ∈ overlayList o p ↔ (p <+: k ∧ o.get k = v ∧ v ≠ []) := by
  obtain ⟨m1, _⟩ := prefixSlice_spec hm p
  obtain ⟨b1, _⟩ := prefixSlice_spec hs p
  obtain ⟨g1, g2⟩ := mergeKV_sorted_get m1 b1
  refine ⟨sorted_filter g1 _, fun k v => ?_⟩
  unfold overlayList
  rw [mem_live, mem_iff_get g1, g2 k]
  obtain ⟨pm1, pm2⟩ := get_prefixSlice hm p k
  obtain ⟨pb1, pb2⟩ := get_prefixSlice hs p k
  by_cases hp : p <+: k
  · rw [pm1 hp, pb1 hp]
    simp only [Overlay.get, Store.get, hp, true_and]
    cases h1 : MemDB.get o.mem k with
    | some w => simp
    | none =>
      cases h2 : MemDB.get o.store k with
      | some w => simp
      | none => simp
  · rw [pm2 hp, pb2 hp]; simp [hp]

theorem overlay_iterate_spec (o : Overlay) (hs : Sorted o.store) (p : Bytes) (n : Nat) :
    o.iterate p n = (overlayList o p).take n := by
  have sim : Sim overlayIterOps (RJoin RLeaf RLeaf) := join_sim leaf_sim leaf_sim
  have hfresh : RJoin RLeaf RLeaf (o.newIter p) (.fresh (overlayList o p)) :=
    ⟨prefixSlice o.mem p, prefixSlice o.store p, ⟨rfl, rfl⟩, ⟨rfl, rfl⟩,
      tail_keys_ne (prefixSlice_spec hs p).1, rfl, rfl, rfl, rfl, rfl, rfl⟩
  obtain ⟨f1, f2⟩ := sim.first _ _ hfresh
  unfold Overlay.iterate
  have := drain_spec sim false n (overlayIterOps.first (o.newIter p)).2 (overlayList o p)
    (overlayIterOps.first (o.newIter p)).1 f2 f1
  rw [this]
  simp

/-- the list a `CacheDB` prefix iterator stands for (raw keys, i.e. with the ST_STORAGE byte) -/
def cacheList (c : Cache) (p : Bytes) : List KV :=
  live (mergeKV (prefixSlice c.mem (stStorage :: p)) (overlayList c.backend (stStorage :: p)))

theorem cacheList_spec (c : Cache) (inv : Inv c) (p : Bytes) :
    Sorted (cacheList c p) ∧ ∀ k v, (k, v) ∈ cacheList c p ↔ ((stStorage :: p) <+: k ∧ c.read k = v ∧ v ≠ []) := by
  obtain ⟨m1, _⟩ := prefixSlice_spec inv.tx (stStorage :: p)
  obtain ⟨b1, b2⟩ := overlayList_spec c.backend inv.blk inv.per (stStorage :: p)
  obtain ⟨g1, g2⟩ := mergeKV_sorted_get m1 b1
  refine ⟨sorted_filter g1 _, fun k v => ?_⟩
  unfold cacheList
  rw [mem_live, mem_iff_get g1, g2 k]
  obtain ⟨pm1, pm2⟩ := get_prefixSlice inv.tx (stStorage :: p) k
  by_cases hp : (stStorage :: p) <+: k
  · rw [pm1 hp]
    simp only [Cache.read, hp, true_and]
    cases h1 : MemDB.get c.mem k with
    | some w => simp
    | none =>
      simp only [← mem_iff_get b1, b2 k v, hp, true_and]
      constructor
      · intro h; exact h.1
      · intro h; exact ⟨h, h.2⟩
  · rw [pm2 hp]
    simp only [← mem_iff_get b1, b2 k v, hp, false_and]

theorem cache_iterate_spec (c : Cache) (inv : Inv c) (p : Bytes) (n : Nat) :
    c.iterate p n = ((cacheList c p).map fun e => (e.1.drop 1, e.2)).take n := by
  have simO : Sim overlayIterOps (RJoin RLeaf RLeaf) := join_sim leaf_sim leaf_sim
  have sim : Sim cacheIterOps (RJoin RLeaf (RJoin RLeaf RLeaf)) := join_sim leaf_sim simO
  have hback : RJoin RLeaf RLeaf (c.backend.newIter (stStorage :: p)) (.fresh (overlayList c.backend (stStorage :: p))) :=
    ⟨_, _, ⟨rfl, rfl⟩, ⟨rfl, rfl⟩, tail_keys_ne (prefixSlice_spec inv.per _).1, rfl, rfl, rfl, rfl, rfl, rfl⟩
  have hfresh : RJoin RLeaf (RJoin RLeaf RLeaf) (c.newIter p) (.fresh (cacheList c p)) :=
    ⟨_, _, ⟨rfl, rfl⟩, hback, tail_keys_ne (overlayList_spec c.backend inv.blk inv.per _).1, rfl, rfl, rfl, rfl, rfl, rfl⟩
  obtain ⟨f1, f2⟩ := sim.first _ _ hfresh
  unfold Cache.iterate
  have := drain_spec sim true n (cacheIterOps.first (c.newIter p)).2 (cacheList c p)
    (cacheIterOps.first (c.newIter p)).1 f2 f1
  rw [this]
  simp [List.map_take]

/-- the stripped list is still strictly ascending and consists of exactly the live keys (without the ST_STORAGE byte) -/
theorem cacheList_stripped_spec (c : Cache) (inv : Inv c) (p : Bytes) :
    Sorted ((cacheList c p).map fun e => (e.1.drop 1, e.2)) ∧
    ∀ k v, (k, v) ∈ ((cacheList c p).map fun e => (e.1.drop 1, e.2)) ↔ (p <+: k ∧ c.get stStorage k = v ∧ v ≠ []) := by
  obtain ⟨s1, s2⟩ := cacheList_spec c inv p
  have hshape : ∀ e ∈ cacheList c p, ∃ t, e.1 = stStorage :: t := by
    intro e he
    have := ((s2 e.1 e.2).mp he).1
    obtain ⟨t, ht⟩ := this
    exact ⟨p ++ t, by rw [← ht]; rfl⟩
  constructor
  · unfold Sorted
    rw [List.pairwise_map]
    refine List.Pairwise.imp_of_mem ?_ s1
    intro a b ha hb hab
    obtain ⟨ta, hta⟩ := hshape a ha
    obtain ⟨tb, htb⟩ := hshape b hb
    rw [hta, htb] at hab
    simp only [hta, htb, List.drop_succ_cons, List.drop_zero]
    simpa [kcmp] using hab
  · intro k v
    rw [List.mem_map]
    constructor
    · rintro ⟨e, he, hek⟩
      obtain ⟨t, ht⟩ := hshape e he
      simp only [Prod.mk.injEq] at hek
      obtain ⟨hk, hv⟩ := hek
      have hmem : (stStorage :: k, v) ∈ cacheList c p := by
        have : e = (stStorage :: k, v) := by
          rw [ht] at hk; simp at hk
          exact Prod.ext (by rw [ht, hk]) hv
        rw [← this]; exact he
      have := (s2 _ _).mp hmem
      rw [List.cons_prefix_cons] at this
      exact ⟨this.1.2, this.2.1, this.2.2⟩
    · rintro ⟨h1, h2, h3⟩
      refine ⟨(stStorage :: k, v), (s2 _ _).mpr ⟨?_, h2, h3⟩, by simp⟩
      rw [List.cons_prefix_cons]; exact ⟨rfl, h1⟩

/-! ### Permutations of writes to distinct keys (C03) -/

def putOps (ws : List KV) : List Op := ws.map fun e => Op.put e.1 e.2

theorem finalFrom_puts_absent (ws : List KV) (i : Option Val) (q : Key) (h : ∀ e ∈ ws, e.1 ≠ q) :
    finalFrom i (putOps ws) q = i := by
  induction ws generalizing i with
  | nil => rfl
  | cons e r ih =>
    have hne : q ≠ e.1 := fun hh => h e (by simp) hh.symm
    have : finalFrom i (putOps (e :: r)) q = finalFrom i (putOps r) q := by
      simp [putOps, finalFrom, hne]
    rw [this]
    exact ih i (fun x hx => h x (by simp [hx]))

theorem finalFrom_puts_present (ws : List KV) (hnd : (ws.map (·.1)).Nodup) (i : Option Val) (q : Key) (v : Val)
    (h : (q, v) ∈ ws) : finalFrom i (putOps ws) q = some v := by
  induction ws generalizing i with
  | nil => simp at h
  | cons e r ih =>
    simp only [List.map_cons, List.nodup_cons] at hnd
    simp only [List.mem_cons] at h
    rcases h with h | h
    · subst h
      have : finalFrom i (putOps ((q, v) :: r)) q = finalFrom (some v) (putOps r) q := by
        simp [putOps, finalFrom]
      rw [this]
      apply finalFrom_puts_absent
      intro x hx hxq
      exact hnd.1 (List.mem_map.mpr ⟨x, hx, hxq⟩)
    · have hne : q ≠ e.1 := by
        intro hh
        apply hnd.1
        rw [← hh]
        exact List.mem_map.mpr ⟨(q, v), h, rfl⟩
      have : finalFrom i (putOps (e :: r)) q = finalFrom i (putOps r) q := by
        simp [putOps, finalFrom, hne]
      rw [this]
      exact ih hnd.2 i h

theorem finalFrom_puts_perm {ws1 ws2 : List KV} (hp : ws1.Perm ws2) (hnd : (ws1.map (·.1)).Nodup)
    (i : Option Val) (q : Key) : finalFrom i (putOps ws1) q = finalFrom i (putOps ws2) q := by
  have hnd2 : (ws2.map (·.1)).Nodup := (hp.map _).nodup_iff.mp hnd
  by_cases hq : ∃ v, (q, v) ∈ ws1
  · obtain ⟨v, hv⟩ := hq
    rw [finalFrom_puts_present ws1 hnd i q v hv, finalFrom_puts_present ws2 hnd2 i q v (hp.mem_iff.mp hv)]
  · have a1 : ∀ e ∈ ws1, e.1 ≠ q := fun e he hh => hq ⟨e.2, by rw [← hh]; exact he⟩
    have a2 : ∀ e ∈ ws2, e.1 ≠ q := fun e he => a1 e (hp.mem_iff.mpr he)
    rw [finalFrom_puts_absent ws1 i q a1, finalFrom_puts_absent ws2 i q a2]

end OntVerif.Proofs.KV
