import OntVerif.Model.NeoInt
/-!
# C13 — the specification side: exact integer semantics of the NeoVM integer opcodes

Nothing here mirrors code.  `idealUnary/idealBinary/idealWithin` say what the property text says: the mathematically exact
result when operands and result are within the VM's size bound (`some`), a fault otherwise (`none`).
DIV/MOD are `Int.tdiv`/`Int.tmod` (truncation toward zero, remainder with the dividend's sign); SHR is the floor
`x / 2^n`; AND/OR/XOR are the two's complement operations (`bigAnd/bigOr/bigXor` of the model, whose meaning is pinned
bit by bit against `bitAt` in `Props/C13.lean`).
-/
namespace OntVerif.Proofs.NeoIntSpec
open OntVerif.Model.NeoInt

/-- the VM's integer size bound: the magnitude fits 32 bytes -/
def inB (z : Int) : Prop :=
  -115792089237316195423570985008687907853269984665640564039457584007913129639936 < z ∧
  z < 115792089237316195423570985008687907853269984665640564039457584007913129639936

instance (z : Int) : Decidable (inB z) := by unfold inB; infer_instance

/-- what an opcode leaves on the stack, as a mathematical object -/
inductive Res
  | int (z : Int)
  | bool (b : Bool)
  deriving DecidableEq, Repr

/-- the integer a primitive VM value denotes (bytes: little-endian two's complement, see C21) -/
def valInt (a : Val) : Int := a.asBigInt

def obs : Val → Res
  | .int i => .int i.toInt
  | .bigint z => .int z
  | .bool b => .bool b
  | .bytes bs => .int (fromNeo bs)

def bnd (z : Int) : Option Res := if inB z then some (.int z) else none

/-- bit `k` of the infinite two's complement expansion of `z` -/
def bitAt (z : Int) (k : Nat) : Bool := decide (z / 2 ^ k % 2 = 1)

def idealUnary (op : UOp) (x : Int) : Option Res :=
  if ¬ inB x then none else
  match op with
  | .inc => bnd (x + 1)
  | .dec => bnd (x - 1)
  | .sign => some (.int x.sign)
  | .negate => bnd (-x)
  | .abs => bnd (Int.ofNat x.natAbs)
  | .invert => bnd (-x - 1)
  | .nz => some (.bool (decide (x ≠ 0)))

def idealBinary (op : BOp) (x y : Int) : Option Res :=
  if ¬ (inB x ∧ inB y) then none else
  match op with
  | .add => bnd (x + y)
  | .sub => bnd (x - y)
  | .mul => bnd (x * y)
  | .div => if y = 0 then none else bnd (x.tdiv y)
  | .mod => if y = 0 then none else bnd (x.tmod y)
  | .max => bnd (max x y)
  | .min => bnd (min x y)
  | .and => bnd (bigAnd x y)
  | .or => bnd (bigOr x y)
  | .xor => bnd (bigXor x y)
  | .shl => if y < 0 then none else bnd (x * 2 ^ y.toNat)
  | .shr => if y < 0 then none else bnd (x / 2 ^ y.toNat)
  | .lt => some (.bool (decide (x < y)))
  | .gt => some (.bool (decide (x > y)))
  | .lte => some (.bool (decide (x ≤ y)))
  | .gte => some (.bool (decide (x ≥ y)))
  | .numequal => some (.bool (decide (x = y)))
  | .numnotequal => some (.bool (decide (x ≠ y)))

def idealWithin (x a b : Int) : Option Res :=
  if ¬ (inB x ∧ inB a ∧ inB b) then none else some (.bool (decide (a ≤ x ∧ x < b)))

/-- the recorded as-shipped deviations (findings/C13.json); everything else must be exact -/
def deviatesUnary (op : UOp) (x : Int) : Prop :=
  op = .invert ∧ x = 115792089237316195423570985008687907853269984665640564039457584007913129639935

def deviatesBinary (op : BOp) (x y : Int) : Prop :=
  (op = .shl ∧ x = 0 ∧ y > 256) ∨
  (op = .shr ∧ 18446744073709551616 ≤ y) ∨
  (op.isCmp = true ∧ ¬ (inB x ∧ inB y))

end OntVerif.Proofs.NeoIntSpec
