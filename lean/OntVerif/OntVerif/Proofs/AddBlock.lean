import OntVerif.Model.AddBlock
/-! Helper lemmas for C39: step lists with all guards first; acceptance characterisation of the add-block pipeline. -/
namespace OntVerif.Proofs.AddBlock
open OntVerif.Model.AddBlock

/-- every guard/stop precedes every effect -/
def guardsFirst : List Step → Bool
  | [] => true
  | s :: r => if s.isEffect then r.all Step.isEffect else guardsFirst r

def Step.passes (l : Ledger) : Step → Bool
  | .guard _ c => (c l).isNone
  | .stop _ c => !c l
  | .effect _ _ => true

def applyEffects : List Step → Ledger → Ledger
  | [], l => l
  | .effect _ f :: r, l => applyEffects r (f l)
  | _ :: r, l => applyEffects r l

theorem run_effects (ss : List Step) (h : ss.all Step.isEffect = true) (l : Ledger) :
    run ss l = (.added, applyEffects ss l) := by
  induction ss generalizing l with
  | nil => rfl
  | cons s r ih =>
    cases s with
    | guard _ _ => simp [Step.isEffect] at h
    | stop _ _ => simp [Step.isEffect] at h
    | effect _ f =>
      rw [List.all_cons] at h
      simp only [run, applyEffects]
      exact ih (by simpa [Step.isEffect] using h) (f l)

/-- with guards first, the run either stops at a guard with the ledger untouched, or every guard passed on the
initial ledger and all effects were applied -/
theorem run_guardsFirst (ss : List Step) (h : guardsFirst ss = true) (l : Ledger) :
    ((run ss l).1 ≠ .added ∧ (run ss l).2 = l ∧ ∃ s ∈ ss, Step.passes l s = false)
    ∨ (run ss l = (.added, applyEffects ss l) ∧ ∀ s ∈ ss, Step.passes l s = true) := by
  induction ss with
  | nil => right; exact ⟨rfl, by simp⟩
  | cons s r ih =>
    cases s with
    | effect n f =>
      simp only [guardsFirst, Step.isEffect, if_true] at h
      right
      refine ⟨?_, ?_⟩
      · exact run_effects (.effect n f :: r) (by simpa [Step.isEffect] using h) l
      · intro s hs
        have : (Step.effect n f :: r).all Step.isEffect = true := by simpa [Step.isEffect] using h
        have hs' := List.all_eq_true.mp this s hs
        cases s <;> simp_all [Step.isEffect, Step.passes]
    | guard n c =>
      simp only [guardsFirst, Step.isEffect] at h
      have ih := ih (by simpa using h)
      cases hc : c l with
      | some e =>
        left
        simp only [run, hc]
        exact ⟨by simp, trivial, .guard n c, by simp, by simp [Step.passes, hc]⟩
      | none =>
        simp only [run, hc, applyEffects]
        rcases ih with ⟨h1, h2, s, hs, hp⟩ | ⟨h1, h2⟩
        · left; exact ⟨h1, h2, s, by simp [hs], hp⟩
        · right; refine ⟨h1, ?_⟩
          intro s hs
          simp at hs
          rcases hs with rfl | hs
          · simp [Step.passes, hc]
          · exact h2 s hs
    | stop n c =>
      simp only [guardsFirst, Step.isEffect] at h
      have ih := ih (by simpa using h)
      cases hc : c l with
      | true =>
        left
        simp only [run, hc, if_true]
        exact ⟨by simp, trivial, .stop n c, by simp, by simp [Step.passes, hc]⟩
      | false =>
        simp only [run, hc, applyEffects]
        rcases ih with ⟨h1, h2, s, hs, hp⟩ | ⟨h1, h2⟩
        · left; exact ⟨by simpa using h1, by simpa using h2, s, by simp [hs], hp⟩
        · right; refine ⟨by simpa using h1, ?_⟩
          intro s hs
          simp at hs
          rcases hs with rfl | hs
          · simp [Step.passes, hc]
          · exact h2 s hs

theorem addBlock_guardsFirst (P b sr) : guardsFirst (addBlockSteps P b sr) = true := rfl
theorem addBlockBytes_guardsFirst (P b sr) : guardsFirst (addBlockBytesSteps P b sr) = true := rfl
theorem submitBlock_guardsFirst (P b) : guardsFirst (submitBlockSteps P b) = true := rfl
theorem addHeader_guardsFirst (P h) : guardsFirst (addHeaderSteps P h) = true := rfl

/-- what `verifyHeader` (non-VBFT) demands of a header, as a specification -/
structure HeaderOK (P : Prims) (l : Ledger) (h : Hdr) : Prop where
  prev : ∃ ph, lookupHeader l h.u.prev = some ph ∧ (ph.u.height + 1) % u32 = h.u.height ∧ ph.u.ts < h.u.ts
          ∧ P.addrOf h.keys = some ph.u.nextBk
  sigs : verifyMulti P (P.hdrHash h.u) h.keys (OntVerif.Gen.Quorum.ledgerStore_m h.keys.length) h.sigs = none

theorem verifyHeader_passes (P : Prims) (l : Ledger) (h : Hdr) :
    (∀ s ∈ verifyHeaderSteps P h, Step.passes l s = true) ↔ HeaderOK P l h := by
  simp only [verifyHeaderSteps, List.mem_cons, List.mem_nil_iff, or_false, forall_eq_or_imp, forall_eq, Step.passes]
  constructor
  · rintro ⟨h1, h2, h3, h4, h5, h6⟩
    cases hp : lookupHeader l h.u.prev with
    | none => simp [hp] at h1
    | some ph =>
      cases ha : P.addrOf h.keys with
      | none => simp [ha] at h4
      | some a =>
        simp [hp, ha] at h2 h3 h5
        refine ⟨⟨ph, hp, h2, by omega, by rw [ha, h5]⟩, ?_⟩
        simpa using h6
  · rintro ⟨⟨ph, hp, hh, ht, ha⟩, hs⟩
    simp [hp, ha, hh, hs]
    omega

theorem submit_passes (P : Prims) (l : Ledger) (b : Block) :
    (∀ s ∈ submitSteps P b, Step.passes l s = true)
      ↔ (b.hdr.u.height = 0 ∨ P.rootWith l.mem.blockLeaves b.hdr.u.txRoot = b.hdr.u.blockRoot) := by
  simp only [submitSteps, List.mem_cons, List.mem_nil_iff, or_false, forall_eq_or_imp, forall_eq, Step.passes, and_true]
  by_cases h0 : b.hdr.u.height = 0 <;> by_cases hr : P.rootWith l.mem.blockLeaves b.hdr.u.txRoot = b.hdr.u.blockRoot <;> simp [h0, hr]

theorem heightGuards_passes (l : Ledger) (b : Block) :
    (∀ s ∈ heightGuards b, Step.passes l s = true)
      ↔ (l.mem.curHeight < b.hdr.u.height ∧ b.hdr.u.height = (l.mem.curHeight + 1) % u32
          ∧ b.hdr.u.prev = l.mem.curHash) := by
  simp only [heightGuards, List.mem_cons, List.mem_nil_iff, or_false, forall_eq_or_imp, forall_eq, Step.passes]
  by_cases h1 : b.hdr.u.height ≤ l.mem.curHeight <;> by_cases h2 : b.hdr.u.height = (l.mem.curHeight + 1) % u32 <;>
    by_cases h3 : b.hdr.u.prev = l.mem.curHash <;> simp [h1, h2, h3] <;> omega

/-- the acceptance condition of `AddBlock(block, nil, stateRoot)` as a specification -/
structure Acceptable (P : Prims) (l : Ledger) (b : Block) (sr : Hash) : Prop where
  next : l.mem.curHeight < b.hdr.u.height ∧ b.hdr.u.height = (l.mem.curHeight + 1) % u32
  tip : b.hdr.u.prev = l.mem.curHash
  header : HeaderOK P l b.hdr
  notClosing : l.mem.closing = false
  exec : ∃ ws st, execRes P l b = some (ws, st) ∧ (b.txs = [] ∨ P.stateRootWith l.mem.deltaLeaves ws = sr)
  root : P.rootWith l.mem.blockLeaves b.hdr.u.txRoot = b.hdr.u.blockRoot

theorem addBlock_passes (P : Prims) (l : Ledger) (b : Block) (sr : Hash) :
    (∀ s ∈ addBlockSteps P b sr, Step.passes l s = true) ↔ Acceptable P l b sr := by
  simp only [addBlockSteps, List.mem_append, or_imp, forall_and, heightGuards_passes, verifyHeader_passes, submit_passes]
  simp only [List.mem_cons, List.mem_nil_iff, or_false, forall_eq_or_imp, forall_eq, Step.passes, and_true]
  constructor
  · rintro ⟨⟨⟨⟨hlt, hnx, htip⟩, hh⟩, h1, h2, h3, h4, h5⟩, h6⟩
    have hc : l.mem.closing = false := by
      cases hcl : l.mem.closing <;> simp [hcl] at h2 ⊢
    cases he : execRes P l b with
    | none => simp [he] at h4
    | some r =>
      obtain ⟨ws, st⟩ := r
      refine ⟨⟨hlt, hnx⟩, htip, hh, hc, ⟨ws, st, he, ?_⟩, ?_⟩
      · simp [he] at h5
        by_cases ht : b.txs = []
        · exact Or.inl ht
        · exact Or.inr (h5 ht)
      · rcases h6 with h0 | h6
        · omega
        · exact h6
  · rintro ⟨⟨hlt, hnx⟩, htip, hh, hc, ⟨ws, st, he, hs⟩, hr⟩
    refine ⟨⟨⟨⟨hlt, hnx, htip⟩, hh⟩, ?_, ?_, ?_, ?_, ?_⟩, Or.inr hr⟩
    · simp; omega
    · simp [hc]
    · simp; exact Or.inr hnx
    · simp [he]
    · simp [he]
      intro ht
      rcases hs with h | h
      · exact absurd h ht
      · exact h

theorem removeFirst_some (p : Nat → Bool) (ks ks' : List Nat) (h : removeFirst p ks = some ks') :
    (∃ k ∈ ks, p k = true) ∧ (∀ x ∈ ks', x ∈ ks) ∧ ks'.length + 1 = ks.length := by
  induction ks generalizing ks' with
  | nil => simp [removeFirst] at h
  | cons k r ih =>
    simp only [removeFirst] at h
    by_cases hp : p k = true
    · simp only [hp, if_true, Option.some.injEq] at h
      subst h
      exact ⟨⟨k, by simp, hp⟩, fun x hx => by simp [hx], by simp⟩
    · simp only [hp, Bool.false_eq_true, if_false] at h
      cases hr : removeFirst p r with
      | none => simp [hr] at h
      | some r' =>
        simp only [hr, Option.map_some, Option.some.injEq] at h
        subst h
        obtain ⟨⟨k', hk', hpk'⟩, h2, h3⟩ := ih r' hr
        refine ⟨⟨k', by simp [hk'], hpk'⟩, ?_, by simp [h3]⟩
        intro x hx
        simp at hx
        rcases hx with rfl | hx
        · simp
        · simp [h2 x hx]

/-- what a passing multi-signature loop guarantees: `m` signatures were present, each of the first `m` parses and verifies
under a listed key, and there were at least `m` keys (each key is consumed by at most one signature) -/
theorem verifyLoop_sound (P : Prims) (d : Hash) (m : Nat) (sigs : List Sig) (keys : List Nat)
    (h : verifyLoop P d m sigs keys = none) :
    m ≤ sigs.length ∧ m ≤ keys.length ∧ ∀ s ∈ sigs.take m, s.wf = true ∧ ∃ k ∈ keys, P.verify k d s = true := by
  induction m generalizing sigs keys with
  | zero => simp
  | succ m ih =>
    cases sigs with
    | nil => simp [verifyLoop] at h
    | cons s ss =>
      simp only [verifyLoop] at h
      by_cases hw : s.wf = true
      · simp only [hw, Bool.not_true, Bool.false_eq_true, if_false] at h
        cases hr : removeFirst (fun k => P.verify k d s) keys with
        | none => simp [hr] at h
        | some ks' =>
          simp only [hr] at h
          obtain ⟨h1, h2, h3⟩ := ih ss ks' h
          obtain ⟨⟨k, hk, hv⟩, hsub, hlen⟩ := removeFirst_some _ _ _ hr
          refine ⟨by simp; omega, by omega, ?_⟩
          intro x hx
          simp only [List.take_succ_cons, List.mem_cons] at hx
          rcases hx with rfl | hx
          · exact ⟨hw, k, hk, hv⟩
          · obtain ⟨hxw, k', hk', hv'⟩ := h3 x hx
            exact ⟨hxw, k', hsub k' hk', hv'⟩
      · simp [hw] at h

theorem verifyMulti_sound (P : Prims) (d : Hash) (keys : List Nat) (m : Nat) (sigs : List Sig)
    (h : verifyMulti P d keys m sigs = none) :
    m ≤ sigs.length ∧ m ≤ keys.length ∧ ∀ s ∈ sigs.take m, s.wf = true ∧ ∃ k ∈ keys, P.verify k d s = true := by
  unfold verifyMulti at h
  by_cases hl : sigs.length < m
  · simp [hl] at h
  · simp only [hl, if_false] at h
    exact verifyLoop_sound P d m sigs keys h

/-! ### explicit post-state of an added block -/

theorem applyEffects_append (a b : List Step) (l : Ledger) : applyEffects (a ++ b) l = applyEffects b (applyEffects a l) := by
  induction a generalizing l with
  | nil => rfl
  | cons s r ih => cases s <;> simp [applyEffects, ih]

theorem foldl_putBlock (f : Tx → W) (txs : List Tx) (l : Ledger) :
    txs.foldl (fun l t => putBlock (f t) l) l
      = { l with mem := { l.mem with bBlock := (txs.map f).reverse ++ l.mem.bBlock } } := by
  induction txs generalizing l with
  | nil => simp
  | cons t r ih => rw [List.foldl_cons, ih]; simp [putBlock]

theorem foldl_putEvent (f : Hash → W) (hs : List Hash) (l : Ledger) :
    hs.foldl (fun l t => putEvent (f t) l) l
      = { l with mem := { l.mem with bEvent := (hs.map f).reverse ++ l.mem.bEvent } } := by
  induction hs generalizing l with
  | nil => simp
  | cons t r ih => rw [List.foldl_cons, ih]; simp [putEvent]

/-- the writes of one block, newest first, as `submitBlock` batches them -/
def blockBatch (P : Prims) (b : Block) : List W :=
  let hash := P.hdrHash b.hdr.u
  let h := b.hdr.u.height
  .bloom h :: ((b.txs.map fun t => W.tx (P.txHash t) t h).reverse ++ [.header hash b.hdr (b.txs.map P.txHash), .blockHash h hash, .curBlock h hash])

def stateBatch (P : Prims) (b : Block) (l : Ledger) (ws : Hash) (st : St) : List W :=
  [.state st, .curBlock b.hdr.u.height (P.hdrHash b.hdr.u), .blockTree (l.mem.blockLeaves ++ [b.hdr.u.txRoot]),
   .stateRoot b.hdr.u.height ws (P.stateRootWith l.mem.deltaLeaves ws), .stateTree (l.mem.deltaLeaves ++ [ws])]

def eventBatch (P : Prims) (b : Block) : List W :=
  let hs := b.txs.map P.txHash
  .curBlock b.hdr.u.height (P.hdrHash b.hdr.u) :: ((if hs.isEmpty then [] else [W.evBlock b.hdr.u.height hs]) ++ (hs.map W.notify).reverse)

/-- the ledger after `b` was added on top of `l` (execution result `(ws, st)`): the specification of acceptance -/
def addedLedger (P : Prims) (b : Block) (l : Ledger) (ws : Hash) (st : St) : Ledger :=
  let hash := P.hdrHash b.hdr.u
  let h := b.hdr.u.height
  { disk := { block := blockBatch P b ++ l.disk.block, state := stateBatch P b l ws st ++ l.disk.state,
              event := eventBatch P b ++ l.disk.event },
    mem := { curHeight := h, curHash := hash, hdrIndex := (h, hash) :: l.mem.hdrIndex,
             hdrLast := if l.mem.hdrLast < h then h else l.mem.hdrLast,
             hdrCache := l.mem.hdrCache.filter (fun e => e.1 ≠ hash),
             blockLeaves := l.mem.blockLeaves ++ [b.hdr.u.txRoot], deltaLeaves := l.mem.deltaLeaves ++ [ws],
             closing := l.mem.closing, bBlock := blockBatch P b, bState := stateBatch P b l ws st, bEvent := eventBatch P b } }

theorem submit_effects (P : Prims) (b : Block) (l : Ledger) (ws : Hash) (st : St) (he : execRes P l b = some (ws, st)) :
    delHeaderCache (P.hdrHash b.hdr.u) (applyEffects (submitSteps P b) l) = addedLedger P b l ws st := by
  have he' : P.exec (curState l.disk.state) b.hdr.u b.txs = some (ws, st) := he
  simp only [submitSteps, applyEffects, foldl_putBlock, foldl_putEvent]
  simp only [putBlock, putState, putEvent, setHeaderIndex, execRes, he',
    delHeaderCache, addedLedger, blockBatch, stateBatch, eventBatch]
  by_cases hemp : (b.txs.map P.txHash).isEmpty = true <;> simp [hemp]

theorem addBlock_effects (P : Prims) (b : Block) (sr : Hash) (l : Ledger) (ws : Hash) (st : St) (he : execRes P l b = some (ws, st)) :
    applyEffects (addBlockSteps P b sr) l = addedLedger P b l ws st := by
  have e1 : applyEffects (heightGuards b) l = l := rfl
  have e2 : applyEffects (verifyHeaderSteps P b.hdr) l = l := rfl
  simp only [addBlockSteps, applyEffects_append, e1, e2, applyEffects]
  exact submit_effects P b l ws st he

theorem submitBlock_effects (P : Prims) (b : Block) (l : Ledger) (ws : Hash) (st : St) (he : execRes P l b = some (ws, st)) :
    applyEffects (submitBlockSteps P b) l = addedLedger P b l ws st := by
  have e1 : applyEffects (heightGuards b) l = l := rfl
  have e2 : applyEffects (verifyHeaderSteps P b.hdr) l = l := rfl
  simp only [submitBlockSteps, applyEffects_append, e1, e2, applyEffects]
  exact submit_effects P b l ws st he

theorem findHeaderW_skip (x : Hash) (ts r : List W) (h : ∀ w ∈ ts, ∃ a t c, w = W.tx a t c) :
    findHeaderW x (ts ++ r) = findHeaderW x r := by
  induction ts with
  | nil => rfl
  | cons w ts ih =>
    obtain ⟨a, t, c, rfl⟩ := h w (by simp)
    simp only [List.cons_append, findHeaderW]
    exact ih (fun w hw => h w (by simp [hw]))

theorem findBlockHash_skip (n : Nat) (ts r : List W) (h : ∀ w ∈ ts, ∃ a t c, w = W.tx a t c) :
    findBlockHash n (ts ++ r) = findBlockHash n r := by
  induction ts with
  | nil => rfl
  | cons w ts ih =>
    obtain ⟨a, t, c, rfl⟩ := h w (by simp)
    simp only [List.cons_append, findBlockHash]
    exact ih (fun w hw => h w (by simp [hw]))

theorem findCache_filter_self (x : Hash) (c : List (Hash × Hdr)) : findCache x (c.filter (fun e => e.1 ≠ x)) = none := by
  induction c with
  | nil => rfl
  | cons e r ih =>
    obtain ⟨q, hd⟩ := e
    by_cases h : q = x
    · have e : List.filter (fun e => decide (e.1 ≠ x)) ((q, hd) :: r) = List.filter (fun e => decide (e.1 ≠ x)) r :=
        List.filter_cons_of_neg (by simp [h])
      rw [e]; exact ih
    · have e : List.filter (fun e => decide (e.1 ≠ x)) ((q, hd) :: r) = (q, hd) :: List.filter (fun e => decide (e.1 ≠ x)) r :=
        List.filter_cons_of_pos (by simpa using h)
      rw [e]; simp only [findCache, h, if_false]; exact ih

/-- what the queries see after `b` was added -/
theorem addedLedger_reads (P : Prims) (b : Block) (l : Ledger) (ws : Hash) (st : St) :
    let l' := addedLedger P b l ws st
    l'.mem.curHeight = b.hdr.u.height ∧ l'.mem.curHash = P.hdrHash b.hdr.u
      ∧ lookupHeader l' (P.hdrHash b.hdr.u) = some b.hdr
      ∧ findBlockHash b.hdr.u.height l'.disk.block = some (P.hdrHash b.hdr.u)
      ∧ curState l'.disk.state = st
      ∧ l'.mem.blockLeaves = l.mem.blockLeaves ++ [b.hdr.u.txRoot] ∧ l'.mem.deltaLeaves = l.mem.deltaLeaves ++ [ws] := by
  have txs : ∀ w ∈ (b.txs.map fun t => W.tx (P.txHash t) t b.hdr.u.height).reverse, ∃ a t c, w = W.tx a t c := by
    intro w hw
    simp only [List.mem_reverse, List.mem_map] at hw
    obtain ⟨t, _, rfl⟩ := hw
    exact ⟨_, _, _, rfl⟩
  refine ⟨rfl, rfl, ?_, ?_, rfl, rfl, rfl⟩
  · simp only [lookupHeader, addedLedger, findCache_filter_self, blockBatch, List.cons_append, findHeaderW, List.append_assoc]
    rw [findHeaderW_skip _ _ _ txs]
    simp [findHeaderW]
  · simp only [addedLedger, blockBatch, List.cons_append, findBlockHash, List.append_assoc]
    rw [findBlockHash_skip _ _ _ txs]
    simp [findBlockHash]

end OntVerif.Proofs.AddBlock
