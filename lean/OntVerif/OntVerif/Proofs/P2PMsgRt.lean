import OntVerif.Proofs.P2PMsg
import OntVerif.Props.C18
/-! Forward round-trip lemmas for C24 (`Reads`: a decoder started on the encoder's output returns the value) and the
dispatch of `decodePayload`. Core-only (re-uses the round-trip theorems of C18). -/
namespace OntVerif.Proofs.P2PMsg
open OntVerif.Util OntVerif.Model.Codec OntVerif.Proofs.Codec OntVerif.Model.P2PMsg

/-- `d`, started at the beginning of `bytes` (anywhere in a buffer), returns `a`, consumes exactly `bytes`
and leaves the ghost bit `lossy` alone (the allocation counter may grow) -/
def Reads (d : Dec α) (bytes : Bytes) (a : α) : Prop :=
  ∀ (pre rest : Bytes) (l : Bool) (al : Nat), (pre ++ bytes ++ rest).length < two64 →
    ∃ al', d ⟨⟨pre ++ bytes ++ rest, pre.length⟩, l, al⟩ =
      .ok (a, ⟨⟨pre ++ bytes ++ rest, pre.length + bytes.length⟩, l, al'⟩)

theorem Reads.pure (a : α) : Reads (Pure.pure a : Dec α) [] a := by
  intro pre rest l al _
  refine ⟨al, ?_⟩
  show Dec.pure a _ = _
  simp [Dec.pure]

theorem Reads.bind {d : Dec α} {f : α → Dec β} {b1 b2 b : Bytes} {a : α} {c : β}
    (h1 : Reads d b1 a) (h2 : Reads (f a) b2 c) (hb : b = b1 ++ b2) : Reads (d >>= f) b c := by
  subst hb
  intro pre rest l al hlen
  show ∃ al', Dec.bind d f _ = _
  unfold Dec.bind
  have e1 : pre ++ (b1 ++ b2) ++ rest = pre ++ b1 ++ (b2 ++ rest) := by simp
  rw [e1] at hlen ⊢
  obtain ⟨al1, r1⟩ := h1 pre (b2 ++ rest) l al hlen
  rw [r1]
  simp only
  have e2 : pre ++ b1 ++ (b2 ++ rest) = (pre ++ b1) ++ b2 ++ rest := by simp
  have e3 : pre.length + b1.length = (pre ++ b1).length := by simp
  rw [e2] at hlen ⊢
  obtain ⟨al2, r2⟩ := h2 (pre ++ b1) rest l al1 hlen
  rw [e3, r2]
  exact ⟨al2, by simp [Nat.add_assoc]⟩

theorem reads_nUint (k v : Nat) (hv : v < 256 ^ k) : Reads (nUint k) (leN k v) (v, false) := by
  intro pre rest l al hlen
  refine ⟨al, ?_⟩
  unfold nUint liftO
  have := rt_uintN k v hv pre rest hlen
  unfold writeUintN at this
  simp only [this, leN_length]

theorem reads_uN (k v : Nat) (hv : v < 256 ^ k) : Reads (uN k) (leN k v) v := by
  unfold uN
  refine Reads.bind (reads_nUint k v hv) ?_ (List.append_nil _).symm
  simp only [Bool.false_eq_true, if_false]
  exact Reads.pure v

theorem reads_u8 (v : Nat) (hv : v < 256) : Reads u8 (leN 1 v) v := by
  intro pre rest l al hlen
  refine ⟨al, ?_⟩
  unfold u8
  show Dec.bind nByte _ _ = _
  unfold Dec.bind nByte liftT
  have hb : leN 1 v = [UInt8.ofNat v] := by
    simp [leN, Nat.mod_eq_of_lt hv]
  rw [hb]
  have e : pre ++ [UInt8.ofNat v] ++ rest = pre ++ UInt8.ofNat v :: rest := by simp
  simp only [e, nextByte_append, Bool.false_eq_true, if_false]
  show Dec.pure _ _ = _
  simp [Dec.pure, toNat_ofNat_lt v hv]

theorem reads_nBytes (d : Bytes) : Reads (nBytes d.length) d (d, false) := by
  intro pre rest l al hlen
  refine ⟨al, ?_⟩
  unfold nBytes liftO
  simp only [nextBytes_append pre d rest hlen]

theorem reads_fixed (d : Bytes) (k : Nat) (hk : d.length = k) : Reads (fixed k) d d := by
  subst hk
  intro pre rest l al hlen
  refine ⟨al, ?_⟩
  unfold fixed
  show Dec.bind (nFixed _) _ _ = _
  unfold Dec.bind nFixed liftO nextFixed
  simp only [nextBytes_append pre d rest hlen, Bool.false_eq_true, if_false]
  rfl

theorem reads_nBool (b : Bool) : Reads nBool (writeBool b) (b, false, false) := by
  intro pre rest l al hlen
  refine ⟨al, ?_⟩
  unfold nBool liftT
  have := OntVerif.Props.C18.C18_rt_bool b pre rest
  simp only [this]
  simp [writeBool]

theorem reads_nVarBytes (d : Bytes) :
    Reads nVarBytes (writeVarBytes d) (d, getVarUintSize d.length + d.length, false, false) := by
  intro pre rest l al hlen
  refine ⟨al, ?_⟩
  unfold nVarBytes liftO
  have := OntVerif.Props.C18.C18_rt_varbytes d pre rest hlen
  simp only [this]
  congr 3
  simp [writeVarBytes, writeVarUint_length, Nat.add_assoc]

theorem reads_readVarBytes (d : Bytes) : Reads readVarBytes (writeVarBytes d) d := by
  unfold readVarBytes
  refine Reads.bind (reads_nVarBytes d) ?_ (List.append_nil _).symm
  simp only [Bool.false_eq_true, if_false]
  exact Reads.pure d

theorem reads_note_false : Reads (note false) [] () := by
  intro pre rest l al _
  refine ⟨al, ?_⟩
  simp [note]

theorem reads_varBytesLax (d : Bytes) : Reads varBytesLax (writeVarBytes d) d := by
  unfold varBytesLax
  refine Reads.bind (reads_nVarBytes d) ?_ (List.append_nil _).symm
  simp only [Bool.false_eq_true, if_false]
  refine Reads.bind reads_note_false (Reads.pure d) rfl

theorem reads_sliceTo (l : List α) (n : Nat) (h : n ≤ l.length) : Reads (sliceTo l n) [] (l.take n) := by
  intro pre rest lo al _
  refine ⟨al, ?_⟩
  unfold sliceTo
  simp [h]

theorem reads_allocEv {n : Nat} : Reads (allocEv n) [] () := by
  intro pre rest l al _
  exact ⟨al + n, by simp [allocEv]⟩

theorem reads_repeatD {body : Dec α} {e : α → Bytes} (l : List α) (h : ∀ x ∈ l, Reads body (e x) x) :
    Reads (repeatD l.length body) (l.map e).flatten l := by
  induction l with
  | nil => exact Reads.pure []
  | cons x xs ih =>
    simp only [List.length_cons, List.map_cons, List.flatten_cons]
    unfold repeatD
    refine Reads.bind (h x (List.mem_cons_self ..)) ?_ rfl
    refine Reads.bind reads_allocEv ?_ rfl
    refine Reads.bind (ih (fun y hy => h y (List.mem_cons_of_mem _ hy))) (Reads.pure _) (List.append_nil _).symm


theorem p8 : (256:Nat) ^ 1 = 2 ^ 8 := by decide
theorem p16 : (256:Nat) ^ 2 = 2 ^ 16 := by decide
theorem p32 : (256:Nat) ^ 4 = 2 ^ 32 := by decide
theorem p64 : (256:Nat) ^ 8 = 2 ^ 64 := by decide

theorem reads_decPing (h : Nat) (hh : h < 2 ^ 64) : Reads decPing (encode (.ping h)) (.ping h) := by
  unfold decPing
  exact Reads.bind (reads_uN 8 h (by rw [p64]; exact hh)) (Reads.pure _) (by simp [encode])

theorem reads_decPong (h : Nat) (hh : h < 2 ^ 64) : Reads decPong (encode (.pong h)) (.pong h) := by
  unfold decPong
  exact Reads.bind (reads_uN 8 h (by rw [p64]; exact hh)) (Reads.pure _) (by simp [encode])

theorem reads_decVerack (c : Bool) : Reads decVerack (encode (.verack c)) (.verack c) := by
  unfold decVerack
  refine Reads.bind (reads_nBool c) ?_ (b2 := []) (by simp [encode])
  simp only [Bool.false_eq_true, if_false]
  exact Reads.pure _

theorem reads_decHeadersReq (n : Nat) (s e : Bytes) (hn : n < 2 ^ 8) (hs : s.length = 32) (he : e.length = 32) :
    Reads decHeadersReq (encode (.headersReq n s e)) (.headersReq n s e) := by
  unfold decHeadersReq
  refine Reads.bind (reads_u8 n hn) ?_ (b2 := s ++ e) (by simp [encode])
  refine Reads.bind (reads_fixed s 32 hs) ?_ rfl
  exact Reads.bind (reads_fixed e 32 he) (Reads.pure _) (by simp)

theorem reads_decBlocksReq (n : Nat) (s e : Bytes) (hn : n < 2 ^ 8) (hs : s.length = 32) (he : e.length = 32) :
    Reads decBlocksReq (encode (.blocksReq n s e)) (.blocksReq n s e) := by
  unfold decBlocksReq
  refine Reads.bind (reads_u8 n hn) ?_ (b2 := s ++ e) (by simp [encode])
  refine Reads.bind (reads_fixed s 32 hs) ?_ rfl
  exact Reads.bind (reads_fixed e 32 he) (Reads.pure _) (by simp)

theorem reads_decDataReq (ty : Nat) (h : Bytes) (hn : ty < 2 ^ 8) (hh : h.length = 32) :
    Reads decDataReq (encode (.dataReq ty h)) (.dataReq ty h) := by
  unfold decDataReq
  refine Reads.bind (reads_u8 ty hn) ?_ (b2 := h) (by simp [encode])
  exact Reads.bind (reads_fixed h 32 hh) (Reads.pure _) (by simp)

theorem reads_decNotFound (h : Bytes) (hh : h.length = 32) : Reads decNotFound (encode (.notFound h)) (.notFound h) := by
  unfold decNotFound
  exact Reads.bind (reads_fixed h 32 hh) (Reads.pure _) (by simp [encode])

theorem reads_decFindNode (h : Bytes) (hh : h.length = 20) : Reads decFindNode (encode (.findNode h)) (.findNode h) := by
  unfold decFindNode
  exact Reads.bind (reads_fixed h 20 hh) (Reads.pure _) (by simp [encode])

theorem reads_decInv (ty : Nat) (hs : List Bytes) (hty : ty < 2 ^ 8) (hn : hs.length ≤ MAX_INV_BLK_CNT)
    (hh : ∀ h ∈ hs, h.length = 32) : Reads decInv (encode (.inv ty hs)) (.inv ty hs) := by
  unfold decInv
  unfold MAX_INV_BLK_CNT at hn
  refine Reads.bind (reads_u8 ty hty) ?_ (b2 := leN 4 hs.length ++ hs.flatten) (by simp [encode])
  refine Reads.bind (reads_uN 4 hs.length (by rw [p32]; omega)) ?_ rfl
  have hr := reads_repeatD (body := fixed 32) (e := fun x => x) hs (fun x hx => reads_fixed x 32 (hh x hx))
  simp only [List.map_id'] at hr
  refine Reads.bind hr ?_ (List.append_nil _).symm
  have hc : ¬ hs.length > MAX_INV_BLK_CNT := by unfold MAX_INV_BLK_CNT; omega
  simp only [hc, decide_false, if_false]
  refine Reads.bind reads_note_false ?_ rfl
  refine Reads.bind (reads_sliceTo hs hs.length (Nat.le_refl _)) ?_ rfl
  rw [List.take_length]
  exact Reads.pure _

theorem reads_decPeerAddr (a : PeerAddr) (h : a.wf) : Reads decPeerAddr (encPeerAddr a) a := by
  obtain ⟨h1, h2, h3, h4, h5, v, hv, hid⟩ := h
  unfold decPeerAddr encPeerAddr
  refine Reads.bind (reads_uN 8 a.time (by rw [p64]; exact h1)) ?_ (by simp only [List.append_assoc]; rfl)
  refine Reads.bind (reads_uN 8 a.services (by rw [p64]; exact h2)) ?_ rfl
  have hb := reads_nBytes a.ip
  rw [h3] at hb
  refine Reads.bind hb ?_ rfl
  refine Reads.bind (reads_uN 2 a.port (by rw [p16]; exact h4)) ?_ rfl
  refine Reads.bind (reads_uN 2 a.cport (by rw [p16]; exact h5)) ?_ rfl
  refine Reads.bind (reads_uN 8 (peerIdToUint64 a.id) ?_) ?_ (List.append_nil _).symm
  · rw [hid, peerIdToUint64_pseudo v (by rw [p64]; exact hv), p64]; exact hv
  · have : (⟨a.time, a.services, padTo 16 a.ip, a.port, a.cport, pseudoPeerId (peerIdToUint64 a.id)⟩ : PeerAddr) = a := by
      rw [padTo_self 16 a.ip h3, hid, peerIdToUint64_pseudo v (by rw [p64]; exact hv)]
      cases a; simp_all
    rw [this]
    exact Reads.pure a

/-- `source.Len()` in front of a continuation that only needs a lower bound on it -/
theorem Reads.bind_remaining {f : Nat → Dec β} {b : Bytes} {c : β}
    (h : ∀ n, n ≥ b.length → Reads (f n) b c) : Reads (remaining >>= f) b c := by
  intro pre rest l al hlen
  show ∃ al', Dec.bind remaining f _ = _
  unfold Dec.bind remaining
  simp only
  apply h _ _ pre rest l al hlen
  simp only [List.length_append]
  split <;> omega

theorem reads_decAddr (l : List PeerAddr) (hn : l.length ≤ MAX_ADDR_NODE_CNT) (hw : ∀ a ∈ l, a.wf) :
    Reads decAddr (encode (.addr l)) (.addr l) := by
  unfold decAddr
  unfold MAX_ADDR_NODE_CNT at hn
  refine Reads.bind (reads_uN 8 l.length (by rw [p64]; omega)) ?_ (b2 := (l.map encPeerAddr).flatten) (by simp [encode])
  have hrd := reads_repeatD l (fun x hx => reads_decPeerAddr x (hw x hx))
  have hfl : (l.map encPeerAddr).flatten.length = 44 * l.length := by
    apply flatten_length_const
    intro x hx
    have := spec_decPeerAddr (g := false)
    obtain ⟨h1, h2, h3, h4, h5, v', hv, hid⟩ := hw x hx
    simp [encPeerAddr, leN_length, h3]
  apply Reads.bind_remaining
  intro n hn'
  have hgt : ¬ l.length > n := by omega
  have hlb : loopBound64 l.length = l.length := by unfold loopBound64; rw [if_pos (by omega)]
  simp only [hgt, if_false, hlb]
  refine Reads.bind hrd ?_ (List.append_nil _).symm
  have hc : ¬ l.length > MAX_ADDR_NODE_CNT := by unfold MAX_ADDR_NODE_CNT; omega
  simp only [hc, decide_false, if_false]
  refine Reads.bind reads_note_false ?_ rfl
  refine Reads.bind (reads_sliceTo l l.length (Nat.le_refl _)) ?_ rfl
  rw [List.take_length]
  exact Reads.pure _

theorem reads_decCloser (p : Bytes × Bytes) (h : p.1.length = 20) : Reads decCloser (encPair p) p := by
  unfold decCloser encPair
  refine Reads.bind (reads_fixed p.1 20 h) ?_ rfl
  exact Reads.bind (reads_varBytesLax p.2) (Reads.pure _) (List.append_nil _).symm

theorem reads_decFindNodeResp (id : Bytes) (succ : Bool) (addr : Bytes) (closer : List (Bytes × Bytes))
    (hid : id.length = 20) (hn : closer.length < 2 ^ 32) (hc : ∀ p ∈ closer, p.1.length = 20) :
    Reads decFindNodeResp (encode (.findNodeResp id succ addr closer)) (.findNodeResp id succ addr closer) := by
  unfold decFindNodeResp
  refine Reads.bind (reads_fixed id 20 hid) ?_
    (b2 := writeBool succ ++ (writeVarBytes addr ++ (leN 4 closer.length ++ (closer.map encPair).flatten))) (by simp [encode])
  refine Reads.bind (reads_nBool succ) ?_ rfl
  simp only [Bool.false_eq_true, if_false]
  refine Reads.bind reads_note_false ?_ rfl
  refine Reads.bind (reads_varBytesLax addr) ?_ rfl
  refine Reads.bind (reads_uN 4 closer.length (by rw [p32]; exact hn)) ?_ rfl
  exact Reads.bind (reads_repeatD closer (fun p hp => reads_decCloser p (hc p hp))) (Reads.pure _) (List.append_nil _).symm

theorem reads_decMember (p : Bytes × Bytes) : Reads decMember (encStrPair p) p := by
  unfold decMember encStrPair
  refine Reads.bind (reads_readVarBytes p.1) ?_ rfl
  exact Reads.bind (reads_readVarBytes p.2) (Reads.pure _) (List.append_nil _).symm

theorem reads_decMembers (l : List (Bytes × Bytes)) (hn : l.length < 2 ^ 32) :
    Reads decMembers (encode (.members l)) (.members l) := by
  unfold decMembers
  refine Reads.bind (reads_uN 4 l.length (by rw [p32]; exact hn)) ?_ (b2 := (l.map encStrPair).flatten) (by simp [encode])
  exact Reads.bind (reads_repeatD l (fun p _ => reads_decMember p)) (Reads.pure _) (List.append_nil _).symm

theorem reads_decVersion (p : VersionP) (h : p.wf) : Reads decVersion (encode (.version p)) (.version p) := by
  obtain ⟨h1, h2, h3, h4, h5, h6, h7, h8, h9, h10⟩ := h
  unfold decVersion
  simp only [encode, encVersion]
  refine Reads.bind (reads_uN 4 p.version (by rw [p32]; exact h1)) ?_ (by simp only [List.append_assoc]; rfl)
  refine Reads.bind (reads_uN 8 p.services (by rw [p64]; exact h2)) ?_ rfl
  refine Reads.bind (reads_uN 8 p.timestamp (by rw [p64]; exact h3)) ?_ rfl
  refine Reads.bind (reads_uN 2 p.syncPort (by rw [p16]; exact h4)) ?_ rfl
  refine Reads.bind (reads_uN 2 p.httpInfoPort (by rw [p16]; exact h5)) ?_ rfl
  refine Reads.bind (reads_uN 2 p.consPort (by rw [p16]; exact h6)) ?_ rfl
  refine Reads.bind (reads_fixed p.cap 32 h7) ?_ rfl
  refine Reads.bind (reads_uN 8 p.nonce (by rw [p64]; exact h8)) ?_ rfl
  refine Reads.bind (reads_uN 8 p.startHeight (by rw [p64]; exact h9)) ?_ rfl
  refine Reads.bind (reads_u8 p.relay h10) ?_ rfl
  refine Reads.bind (reads_nBool p.isConsensus) ?_ rfl
  simp only [Bool.or_self, Bool.false_eq_true, if_false]
  refine Reads.bind (reads_nVarBytes p.softVersion) ?_ (List.append_nil _).symm
  refine Reads.bind reads_note_false ?_ rfl
  exact Reads.pure _


/-! ### decoders that call out of the package -/

theorem reads_varBytesEofFirst (d : Bytes) : Reads varBytesEofFirst (writeVarBytes d) d := by
  unfold varBytesEofFirst
  refine Reads.bind (reads_nVarBytes d) ?_ (List.append_nil _).symm
  simp only [Bool.false_eq_true, if_false]
  exact Reads.pure d

theorem reads_decHeader (O : Oracle) (h : Bytes) (hO : ∀ rest, O.hdr (h ++ rest) = some (h.length, h)) :
    Reads (decHeader O) h h := by
  have hr : Reads (nBytes h.length >>= fun r => if r.2 then fail .other else do note (h != r.1); Pure.pure h) h h := by
    refine Reads.bind (reads_nBytes h) ?_ (List.append_nil _).symm
    simp only [Bool.false_eq_true, if_false, bne_self_eq_false]
    exact Reads.bind reads_note_false (Reads.pure h) rfl
  intro pre rest l al hlen
  obtain ⟨al', hr'⟩ := hr pre rest l al hlen
  refine ⟨al', ?_⟩
  unfold decHeader
  show Dec.bind peekRest _ _ = _
  unfold Dec.bind peekRest
  have hd : (pre ++ h ++ rest).drop pre.length = h ++ rest := by
    rw [List.append_assoc]; exact List.drop_left' rfl
  simp only [hd, hO rest]
  rw [if_neg (by simp)]
  exact hr'

theorem reads_decHeaders (O : Oracle) (hs : List Bytes) (hn : hs.length < 2 ^ 32)
    (hO : ∀ h ∈ hs, ∀ rest, O.hdr (h ++ rest) = some (h.length, h)) :
    Reads (decHeaders O) (encode (.headers hs)) (.headers hs) := by
  unfold decHeaders
  refine Reads.bind (reads_uN 4 hs.length (by rw [p32]; exact hn)) ?_ (b2 := hs.flatten) (by simp [encode])
  have hr := reads_repeatD (body := decHeader O) (e := fun x => x) hs (fun x hx => reads_decHeader O x (hO x hx))
  simp only [List.map_id'] at hr
  exact Reads.bind hr (Reads.pure _) (List.append_nil _).symm

theorem reads_decMembersReq (O : Oracle) (f t : Bytes) (ts : Nat) (pk sg : Bytes)
    (hw : (Msg.membersReq f t ts pk sg).wf O) :
    Reads (decMembersReq O) (encode (.membersReq f t ts pk sg)) (.membersReq f t ts pk sg) := by
  obtain ⟨hf, ht, hts, h0, h1⟩ := hw
  unfold decMembersReq
  simp only [encode]
  refine Reads.bind (reads_fixed f 20 hf) ?_ (by simp only [List.append_assoc]; rfl)
  refine Reads.bind (reads_fixed t 20 ht) ?_ rfl
  refine Reads.bind (reads_uN 4 ts (by rw [p32]; exact hts)) ?_ rfl
  by_cases hz : ts = 0
  · subst hz
    obtain ⟨rfl, rfl⟩ := h0 rfl
    simp only [bne_self_eq_false, Bool.false_eq_true, if_false]
    exact Reads.pure _
  · obtain ⟨hpk, hexp, hsig⟩ := h1 hz
    have hne : (ts != 0) = true := by simpa using hz
    simp only [hne, if_true]
    refine Reads.bind (reads_readVarBytes pk) ?_ rfl
    simp only [hpk]
    refine Reads.bind (reads_readVarBytes sg) ?_ (List.append_nil _).symm
    simp only [hexp, hsig, Bool.false_eq_true, if_false, Bool.not_true, bne_self_eq_false]
    exact Reads.bind reads_note_false (Reads.pure _) rfl

theorem reads_decConsensus (O : Oracle) (ver : Nat) (prev : Bytes) (height bk ts : Nat) (data owner sg : Bytes)
    (hw : (Msg.consensus ver prev height bk ts data owner sg).wf O) :
    Reads (decConsensus O) (encode (.consensus ver prev height bk ts data owner sg)) (.consensus ver prev height bk ts data owner sg) := by
  obtain ⟨h1, h2, h3, h4, h5, hpk⟩ := hw
  unfold decConsensus
  simp only [encode]
  refine Reads.bind (reads_uN 4 ver (by rw [p32]; exact h1)) ?_ (by simp only [List.append_assoc]; rfl)
  refine Reads.bind (reads_fixed prev 32 h2) ?_ rfl
  refine Reads.bind (reads_uN 4 height (by rw [p32]; exact h3)) ?_ rfl
  refine Reads.bind (reads_uN 2 bk (by rw [p16]; exact h4)) ?_ rfl
  refine Reads.bind (reads_uN 4 ts (by rw [p32]; exact h5)) ?_ rfl
  refine Reads.bind (reads_varBytesEofFirst data) ?_ rfl
  refine Reads.bind (reads_varBytesEofFirst owner) ?_ rfl
  simp only [hpk]
  refine Reads.bind (reads_readVarBytes sg) ?_ (List.append_nil _).symm
  simp only [bne_self_eq_false]
  exact Reads.bind reads_note_false (Reads.pure _) rfl

theorem reads_decUpdateKadId (O : Oracle) (pk : Bytes) (hw : (Msg.updateKadId pk).wf O) :
    Reads (decUpdateKadId O) (encode (.updateKadId pk)) (.updateKadId pk) := by
  obtain ⟨hpk, hkad⟩ := hw
  unfold decUpdateKadId
  simp only [encode]
  refine Reads.bind (reads_readVarBytes pk) ?_ (List.append_nil _).symm
  simp only [hpk, hkad, Bool.not_true, Bool.false_eq_true, if_false, bne_self_eq_false]
  exact Reads.bind reads_note_false (Reads.pure _) rfl

/-! ### dispatch -/
section dispatch
set_option linter.unusedSimpArgs false

theorem decodePayload_unknown (O : Oracle) (c : Bytes) (h : c ∉ knownCmds) : decodePayload O c = decUnknown c := by
  unfold decodePayload
  simp only [knownCmds, List.mem_cons, List.not_mem_nil, or_false, not_or] at h
  simp [h]

theorem decodePayload_known (O : Oracle) :
    decodePayload O cPing = decPing ∧ decodePayload O cPong = decPong ∧ decodePayload O cVerack = decVerack ∧
    decodePayload O cGetAddr = decAddrReq ∧ decodePayload O cAddr = decAddr ∧
    decodePayload O cGetHeaders = decHeadersReq ∧ decodePayload O cGetBlocks = decBlocksReq ∧
    decodePayload O cInv = decInv ∧ decodePayload O cGetData = decDataReq ∧ decodePayload O cNotFound = decNotFound ∧
    decodePayload O cFindNode = decFindNode ∧ decodePayload O cFindNodeAck = decFindNodeResp ∧
    decodePayload O cVersion = decVersion ∧ decodePayload O cMembers = decMembers ∧
    decodePayload O cGetMembers = decMembersReq O ∧ decodePayload O cHeaders = decHeaders O ∧
    decodePayload O cConsensus = decConsensus O ∧ decodePayload O cUpdateKadId = decUpdateKadId O := by
  unfold decodePayload
  simp [cPing, cVersion, cVerack, cAddr, cGetAddr, cPong, cGetHeaders, cHeaders, cInv, cGetData,
    cBlock, cTx, cConsensus, cNotFound, cGetBlocks, cFindNode, cFindNodeAck, cUpdateKadId, cGetMembers, cMembers, cOffline]

end dispatch

theorem Reads.whole {d : Dec α} {b : Bytes} {a : α} (h : Reads d b a) (hl : b.length < two64) :
    ∃ al, d (St.init b) = .ok (a, ⟨⟨b, b.length⟩, false, al⟩) := by
  obtain ⟨al, this⟩ := h [] [] false 0 (by simpa using hl)
  exact ⟨al, by simpa [St.init] using this⟩

/-- `decode (encode m) = m`, the whole payload consumed, nothing lost -/
theorem decodeAll_rt (O : Oracle) (m : Msg) (hw : m.wf O) (hl : (encode m).length < two64) :
    ∃ al, decodeAll O m.cmd (encode m) = .ok (m, ⟨⟨encode m, (encode m).length⟩, false, al⟩) := by
  obtain ⟨k1, k2, k3, k4, k5, k6, k7, k8, k9, k10, k11, k12, k13, k14, k15, k16, k17, k18⟩ := decodePayload_known O
  unfold decodeAll
  cases m with
  | ping h => simp only [Msg.cmd, k1]; exact (reads_decPing h hw).whole hl
  | pong h => simp only [Msg.cmd, k2]; exact (reads_decPong h hw).whole hl
  | verack c => simp only [Msg.cmd, k3]; exact (reads_decVerack c).whole hl
  | addrReq => simp only [Msg.cmd, k4]; exact ⟨0, rfl⟩
  | addr l => simp only [Msg.cmd, k5]; exact (reads_decAddr l hw.1 hw.2).whole hl
  | headersReq n s e => simp only [Msg.cmd, k6]; exact (reads_decHeadersReq n s e hw.1 hw.2.1 hw.2.2).whole hl
  | blocksReq n s e => simp only [Msg.cmd, k7]; exact (reads_decBlocksReq n s e hw.1 hw.2.1 hw.2.2).whole hl
  | inv ty hs => simp only [Msg.cmd, k8]; exact (reads_decInv ty hs hw.1 hw.2.1 hw.2.2).whole hl
  | dataReq ty h => simp only [Msg.cmd, k9]; exact (reads_decDataReq ty h hw.1 hw.2).whole hl
  | notFound h => simp only [Msg.cmd, k10]; exact (reads_decNotFound h hw).whole hl
  | findNode id => simp only [Msg.cmd, k11]; exact (reads_decFindNode id hw).whole hl
  | findNodeResp id succ addr closer =>
    simp only [Msg.cmd, k12]; exact (reads_decFindNodeResp id succ addr closer hw.1 hw.2.1 hw.2.2).whole hl
  | version p => simp only [Msg.cmd, k13]; exact (reads_decVersion p hw).whole hl
  | members l => simp only [Msg.cmd, k14]; exact (reads_decMembers l hw).whole hl
  | membersReq f t ts pk sg => simp only [Msg.cmd, k15]; exact (reads_decMembersReq O f t ts pk sg hw).whole hl
  | headers hs => simp only [Msg.cmd, k16]; exact (reads_decHeaders O hs hw.1 hw.2).whole hl
  | consensus ver prev height bk ts data owner sg =>
    simp only [Msg.cmd, k17]; exact (reads_decConsensus O ver prev height bk ts data owner sg hw).whole hl
  | updateKadId pk => simp only [Msg.cmd, k18]; exact (reads_decUpdateKadId O pk hw).whole hl
  | unknown c p =>
    have he : encode (.unknown c p) = p := rfl
    rw [he] at hl ⊢
    simp only [Msg.cmd, decodePayload_unknown O c hw.1]
    rw [decUnknown_eq c (St.init p) ⟨by simp [St.init], by simpa [St.init] using hl⟩]
    exact ⟨0, by simp [St.init]⟩
  | «opaque» c => exact hw.elim

/-! ### framing -/

theorem padTo_length (k : Nat) (b : Bytes) : (padTo k b).length = k := by
  unfold padTo
  simp
  omega

theorem padTo_of_le (k : Nat) (b : Bytes) (h : b.length ≤ k) : padTo k b = b ++ List.replicate (k - b.length) 0 := by
  unfold padTo
  rw [List.take_of_length_le h]

theorem dropWhile_zeros (k : Nat) (l : Bytes) :
    (List.replicate k (0 : UInt8) ++ l).dropWhile (· == 0) = l.dropWhile (· == 0) := by
  induction k with
  | zero => simp
  | succ k ih => simp [List.replicate_succ, ih]

theorem trimRight0_padTo (c : Bytes) (hl : c.length ≤ 12) (hz : c.getLast? ≠ some 0) : trimRight0 (padTo 12 c) = c := by
  unfold trimRight0
  rw [padTo_of_le 12 c hl, List.reverse_append, List.reverse_replicate, dropWhile_zeros]
  cases hr : c.reverse with
  | nil =>
    have : c = [] := by simpa using hr
    subst this; rfl
  | cons x xs =>
    have hx : c.getLast? = some x := by
      rw [List.getLast?_eq_head?_reverse, hr]; rfl
    have : x ≠ 0 := by intro h; subst h; exact hz hx
    have hne : (x == 0) = false := by simpa using this
    rw [List.dropWhile_cons, hne]
    simp only [Bool.false_eq_true, if_false]
    rw [← hr, List.reverse_reverse]

theorem knownCmd_trim : ∀ c ∈ knownCmds, c.length ≤ 12 ∧ c.getLast? ≠ some 0 := by decide

theorem parseHeader_rt (magic len : Nat) (c k : Bytes) (hm : magic < 2 ^ 32) (hlen : len < 2 ^ 32)
    (hc : c.length = 12) (hk : k.length = 4) :
    Reads parseHeader (leN 4 magic ++ c ++ leN 4 len ++ k) ⟨magic, c, len, k⟩ := by
  unfold parseHeader
  refine Reads.bind (reads_nUint 4 magic (by rw [p32]; exact hm)) ?_ (b2 := c ++ (leN 4 len ++ k)) (by simp)
  have h1 := reads_nBytes c
  rw [hc] at h1
  refine Reads.bind h1 ?_ rfl
  refine Reads.bind (reads_nUint 4 len (by rw [p32]; exact hlen)) ?_ rfl
  have h2 := reads_nBytes k
  rw [hk] at h2
  refine Reads.bind h2 ?_ (List.append_nil _).symm
  simp only [padTo_self 12 c hc, padTo_self 4 k hk]
  exact Reads.pure _

theorem cmd_trim (O : Oracle) (m : Msg) (hw : m.wf O) : m.cmd.length ≤ 12 ∧ m.cmd.getLast? ≠ some 0 := by
  cases m with
  | unknown c p => exact hw.2
  | «opaque» c => exact hw.elim
  | _ => exact knownCmd_trim _ (by simp [Msg.cmd, knownCmds])

theorem readFull_append (a b : Bytes) : readFull (a ++ b) a.length = .ok (a, b) := by
  unfold readFull
  by_cases h : a.length = 0
  · have : a = [] := by simpa using h
    subst this; simp
  · rw [if_neg h, if_pos (by simp)]
    simp

theorem readMessage_rt (O : Oracle) (magic : Nat) (H : Bytes → Bytes) (m : Msg) (rest : Bytes)
    (hf : Framable O H magic m) :
    ∃ al, readMessage O magic H (writeMessage magic H m ++ rest) =
      .ok ⟨m, (encode m).length, rest, (encode m).length, ⟨⟨encode m, (encode m).length⟩, false, al⟩⟩ := by
  obtain ⟨hw, hm, hlen, hH⟩ := hf
  have hlen64 : (encode m).length < two64 := by unfold MAX_PAYLOAD_LEN at hlen; unfold two64; omega
  have hlen32 : (encode m).length < 2 ^ 32 := by unfold MAX_PAYLOAD_LEN at hlen; omega
  obtain ⟨hc1, hc2⟩ := cmd_trim O m hw
  obtain ⟨al, hdec⟩ := decodeAll_rt O m hw hlen64
  refine ⟨al, ?_⟩
  unfold readMessage writeMessage
  simp only
  generalize hhdr : leN 4 magic ++ padTo 12 m.cmd ++ leN 4 (encode m).length ++ padTo 4 (H (encode m)) = hdr
  have hhl : hdr.length = 24 := by
    rw [← hhdr]; simp [leN_length, padTo_length]
  have e1 : hdr ++ encode m ++ rest = hdr ++ (encode m ++ rest) := by simp
  rw [e1]
  have := readFull_append hdr (encode m ++ rest)
  rw [hhl] at this
  rw [this]
  simp only
  obtain ⟨alh, hp⟩ := (parseHeader_rt magic (encode m).length (padTo 12 m.cmd) (padTo 4 (H (encode m))) hm hlen32
    (padTo_length _ _) (padTo_length _ _)).whole (by rw [hhdr, hhl]; unfold two64; omega)
  rw [hhdr] at hp
  rw [hp]
  simp only [ne_eq, not_true_eq_false, if_false]
  rw [if_neg (by omega)]
  rw [readFull_append (encode m) rest]
  simp only
  rw [padTo_self 4 _ (hH _)]
  simp only [not_true_eq_false, if_false]
  rw [trimRight0_padTo m.cmd hc1 hc2]
  unfold decodeAll at hdec
  rw [hdec]

end OntVerif.Proofs.P2PMsg
