import OntVerif.Proofs.ConnCtl
import OntVerif.Model.ConnCtlHist
/-!
# What held for the HISTORICAL controller (before commit 280bc886) — see `Model/ConnCtlHist.lean`

`InvK`: established + in-flight ≤ limit is preserved by `stepHist` along runs in which no two attempts of one direction
are in flight at the same time.
-/
namespace OntVerif.Proofs.ConnCtl
open OntVerif.Model.ConnCtl

/-! ### The historical controller was correct when connection attempts did not overlap -/

theorem filter_length_set (P : Thread → Bool) :
    ∀ {ths : List Thread} {i : Nat} {t : Thread}, ths[i]? = some t → ∀ t' : Thread,
      ((ths.set i t').filter P).length + (if P t then 1 else 0) = (ths.filter P).length + (if P t' then 1 else 0)
  | [], _, _, h, _ => by simp at h
  | x :: r, 0, t, h, t' => by
    simp at h; subst h
    simp only [List.set_cons_zero, List.filter_cons]
    cases P x <;> cases P t' <;> simp <;> omega
  | x :: r, i + 1, t, h, t' => by
    have ih := filter_length_set P (ths := r) (i := i) (t := t) (by simpa using h) t'
    simp only [List.set_cons_succ, List.filter_cons]
    cases P x <;> simp <;> omega

theorem filter_length_le_of_imp (P Q : Thread → Bool) (h : ∀ t, P t = true → Q t = true) :
    ∀ ths : List Thread, (ths.filter P).length ≤ (ths.filter Q).length
  | [] => by simp
  | x :: r => by
    have ih := filter_length_le_of_imp P Q h r
    simp only [List.filter_cons]
    cases hp : P x
    · cases Q x <;> simp <;> omega
    · simp [h x hp]; omega

theorem inFlightIp_le (s : State) (ip : Ip) : inFlightIp s ip ≤ inFlight s .inb := by
  unfold inFlightIp inFlight
  apply filter_length_le_of_imp
  intro t ht
  simp only [decide_eq_true_eq] at ht ⊢
  exact ⟨ht.1, ht.2.2⟩


/-- thread-level contribution to `inFlight` / `inFlightIp` -/
def fl (d : Dir) (t : Thread) : Nat := if t.dir = d ∧ (t.pc = .checked ∨ t.pc = .handshaking) then 1 else 0
def fli (ip : Ip) (t : Thread) : Nat :=
  if t.dir = .inb ∧ t.ip = ip ∧ (t.pc = .checked ∨ t.pc = .handshaking) then 1 else 0

/-- invariant of the shipped controller along runs without overlapping attempts:
established + in-flight ≤ limit -/
def InvK (s : State) : Prop :=
  (∀ d, (s.bound d).length + inFlight s d ≤ s.cfg.max d) ∧
  (∀ ip, cnt ip (s.bound .inb) + inFlightIp s ip ≤ s.cfg.maxIp)

theorem inFlight_set {s : State} {i : Nat} {t : Thread} (ht : s.threads[i]? = some t) (t' : Thread) (d : Dir)
    (s' : State) (hs : s'.threads = s.threads.set i t') :
    inFlight s' d + fl d t = inFlight s d + fl d t' := by
  unfold inFlight fl
  rw [hs]
  have := filter_length_set (fun t => decide (t.dir = d ∧ (t.pc = .checked ∨ t.pc = .handshaking))) ht t'
  simp only [decide_eq_true_eq] at this
  exact this

theorem inFlightIp_set {s : State} {i : Nat} {t : Thread} (ht : s.threads[i]? = some t) (t' : Thread) (ip : Ip)
    (s' : State) (hs : s'.threads = s.threads.set i t') :
    inFlightIp s' ip + fli ip t = inFlightIp s ip + fli ip t' := by
  unfold inFlightIp fli
  rw [hs]
  have := filter_length_set
    (fun t => decide (t.dir = .inb ∧ t.ip = ip ∧ (t.pc = .checked ∨ t.pc = .handshaking))) ht t'
  simp only [decide_eq_true_eq] at this
  exact this

/-- a step that does not put a new attempt in flight -/
theorem InvK.gen {s s' : State} (k : InvK s) {i : Nat} {t : Thread} (ht : s.threads[i]? = some t) (t' : Thread)
    (hc : s'.cfg = s.cfg) (hs : s'.threads = s.threads.set i t')
    (hlen : ∀ d, (s'.bound d).length + fl d t' ≤ (s.bound d).length + fl d t)
    (hcnt : ∀ ip, cnt ip (s'.bound .inb) + fli ip t' ≤ cnt ip (s.bound .inb) + fli ip t) : InvK s' := by
  refine ⟨fun d => ?_, fun ip => ?_⟩
  · have := k.1 d; have := inFlight_set ht t' d s' hs; have := hlen d; rw [hc]; omega
  · have := k.2 ip; have := inFlightIp_set ht t' ip s' hs; have := hcnt ip; rw [hc]; omega

@[simp] theorem releaseHist_cfg (s : State) (d : Dir) (a : Addr) : (releaseHist s d a).cfg = s.cfg := by
  cases d <;> rfl
@[simp] theorem releaseHist_threads (s : State) (d : Dir) (a : Addr) : (releaseHist s d a).threads = s.threads := by
  cases d <;> rfl
@[simp] theorem releaseHist_bound (s : State) (d : Dir) (a : Addr) : (releaseHist s d a).bound = s.bound := by
  cases d <;> rfl

theorem checkHist_none {s : State} {t : Thread} (h : checkHist s t = none) :
    (s.bound t.dir).length < s.cfg.max t.dir ∧ (t.dir = .inb → cnt t.ip (s.bound .inb) < s.cfg.maxIp) := by
  unfold checkHist at h
  split at h; · cases h
  split at h; · cases h
  split at h; · cases h
  split at h; · cases h
  next _ _ h3 h4 =>
  simp only [ge_iff_le, Nat.not_le, not_and] at h3 h4
  exact ⟨h3, h4⟩

theorem stepHist_invK {s : State} (k : InvK s) (i : Nat) (hno : NoOverlap (stepHist s i)) :
    InvK (stepHist s i) := by
  unfold stepHist stepHistR at hno ⊢
  cases ht : s.threads[i]? with
  | none => exact k
  | some t =>
    simp only [ht] at hno
    simp only []
    cases hpc : t.pc with
    | start =>
      simp only [hpc] at hno
      simp only []
      split
      · exact k.gen ht { t with pc := .closed } rfl rfl (by intro d; simp [fl, setPc, setThread]) (by intro ip; simp [fli, Thread.ip, setPc, setThread])
      · next hr =>
        simp only [hr] at hno
        split
        · exact k.gen ht { t with pc := .closed } rfl rfl (by intro d; simp [fl, setPc, setThread]) (by intro ip; simp [fli, Thread.ip, setPc, setThread])
        · next hc =>
          simp only [hc] at hno
          have hno : NoOverlap (setPc s i t .checked) := by simpa using hno
          show InvK (setPc s i t .checked)
          obtain ⟨c1, c2⟩ := checkHist_none hc
          -- the thread enters flight: nobody else of its direction is in flight
          have hfl : ∀ d, inFlight (setPc s i t .checked) d + fl d t = inFlight s d + fl d { t with pc := .checked } :=
            fun d => inFlight_set ht _ d _ rfl
          have hfli : ∀ ip, inFlightIp (setPc s i t .checked) ip + fli ip t
              = inFlightIp s ip + fli ip { t with pc := .checked } :=
            fun ip => inFlightIp_set ht _ ip _ rfl
          have h0 : fl t.dir t = 0 := by simp [fl, hpc]
          have h1 : fl t.dir { t with pc := .checked } = 1 := by simp [fl]
          have hz : inFlight s t.dir = 0 := by have := hno t.dir; have := hfl t.dir; omega
          refine ⟨fun d => ?_, fun ip => ?_⟩
          · have := k.1 d; have := hfl d
            by_cases e : t.dir = d
            · subst e; show (s.bound t.dir).length + _ ≤ s.cfg.max t.dir; omega
            · have a1 : fl d t = 0 := by simp [fl, e]
              have a2 : fl d { t with pc := .checked } = 0 := by simp [fl, e]
              show (s.bound d).length + _ ≤ s.cfg.max d; omega
          · have := k.2 ip; have := hfli ip
            by_cases e : t.dir = .inb ∧ t.ip = ip
            · obtain ⟨e1, e2⟩ := e
              have := c2 e1
              have := inFlightIp_le s ip
              rw [e1] at hz
              have a1 : fli ip t = 0 := by simp [fli, Thread.ip, hpc]
              have a2 : fli ip { t with pc := .checked } = 1 := by
                have e2' := e2; simp only [Thread.ip] at e2'; simp [fli, Thread.ip, e1, e2']
              subst e2
              show cnt t.ip (s.bound .inb) + _ ≤ s.cfg.maxIp; omega
            · have a1 : fli ip t = 0 := by simp [fli, Thread.ip, hpc]
              have a2 : fli ip { t with pc := .checked } = 0 := by
                simp only [fli, Thread.ip] at e ⊢; rw [if_neg]; intro x; exact e ⟨x.1, x.2.1⟩
              show cnt ip (s.bound .inb) + _ ≤ s.cfg.maxIp; omega
    | checked =>
      simp only []
      cases hd : t.dir with
      | inb =>
        simp only []
        exact k.gen ht { t with pc := .handshaking } rfl rfl (by intro d; simp [fl, hpc, setPc, setThread]) (by intro ip; simp [fli, Thread.ip, hpc, setPc, setThread])
      | outb =>
        simp only []
        split
        · exact k.gen ht { t with pc := .closed } rfl rfl (by intro d; simp [fl, setPc, setThread]) (by intro ip; simp [fli, Thread.ip, setPc, setThread])
        · exact k.gen ht { t with pc := .handshaking } rfl rfl (by intro d; simp [fl, hpc, setPc, setThread])
            (by intro ip; simp [fli, Thread.ip, hpc, setPc, setThread])
    | handshaking =>
      simp only []
      have hfail : ∀ s0 : State, s0.cfg = s.cfg → s0.threads = s.threads → s0.bound = s.bound →
          InvK (setPc (releaseHist s0 t.dir t.addr) i t .closed) := by
        intro s0 e1 e2 e3
        refine k.gen ht { t with pc := .closed } ?_ ?_ ?_ ?_
        · simp [setPc, setThread, e1]
        · simp [setPc, setThread, e2]
        · intro d; simp [setPc, setThread, e3, fl]
        · intro ip; simp [setPc, setThread, e3, fli]
      split
      · exact hfail _ rfl rfl rfl
      · exact hfail _ rfl rfl rfl
      · split
        · exact hfail _ rfl rfl rfl
        · split
          · exact hfail _ rfl rfl rfl
          · refine k.gen ht { t with pc := .saved, cid := s.nextCid + 1 } ?_ ?_ ?_ ?_
            · simp [setThread]
            · simp [setThread]
            · intro d
              simp only [setThread, releaseHist_bound, fl, hpc]
              by_cases e : d = t.dir
              · subst e; rw [upd_same]; have := length_ins_le t.addr (s.bound t.dir); simp; omega
              · rw [upd_other _ e]; simp
            · intro ip
              simp only [setThread, releaseHist_bound, fli, hpc]
              by_cases e : Dir.inb = t.dir
              · rw [← e, upd_same]
                have := cnt_ins_le' ip t (s.bound .inb)
                by_cases e2 : t.ip = ip
                · simp [e2] at this ⊢; omega
                · simp [e2] at this ⊢; omega
              · rw [upd_other _ e]; simp
    | saved =>
      simp only []
      have h1 : ∀ s0 : State, s0.cfg = s.cfg → s0.threads = s.threads →
          s0.bound = upd s.bound t.dir (del t.addr) → InvK (setPc s0 i t .closed) := by
        intro s0 e1 e2 e3
        refine k.gen ht { t with pc := .closed } ?_ ?_ ?_ ?_
        · simp [setPc, setThread, e1]
        · simp [setPc, setThread, e2]
        · intro d; simp only [setPc, setThread, e3, fl, hpc]; have := close_len s.bound t.dir t.addr d; simp; omega
        · intro ip; simp only [setPc, setThread, e3, fli, hpc]; have := close_cnt s.bound t.dir t.addr ip; simp; omega
      exact h1 _ (removePeer_cfg s t) (removePeer_threads s t) (removePeer_bound s t)
    | closed => exact k


theorem invK_init (cfg : Cfg) (ths : List Thread) (h : ∀ t ∈ ths, t.pc = .start) : InvK (init cfg ths) := by
  have z1 : ∀ d, inFlight (init cfg ths) d = 0 := by
    intro d
    unfold inFlight
    rw [List.length_eq_zero_iff, List.filter_eq_nil_iff]
    intro t ht
    simp [init] at ht
    simp [h t ht]
  have z2 : ∀ ip, inFlightIp (init cfg ths) ip = 0 := by
    intro ip; have := inFlightIp_le (init cfg ths) ip; have := z1 .inb; omega
  refine ⟨fun d => ?_, fun ip => ?_⟩
  · rw [z1]; simp [init]
  · rw [z2]; simp [init, cnt]

theorem runHist_invK {s : State} (k : InvK s) (sched : List Nat) (hno : NoOverlapRunHist s sched) :
    InvK (runHist s sched) := by
  induction sched generalizing s with
  | nil => exact k
  | cons i r ih => exact ih (stepHist_invK k i hno.1) hno.2

theorem InvK.limits {s : State} (k : InvK s) : LimitsHold s :=
  ⟨by have := k.1 .inb; simp only [Cfg.max] at this; omega, fun ip => by have := k.2 ip; omega,
    by have := k.1 .outb; simp only [Cfg.max] at this; omega⟩

/-! ### Without a repeated `Close()` the controller before 471ac830 was the present one -/

theorem stepStaleHist_eq_of_not_stale {s : State} {i : Nat} (h : staleStep s i = false) :
    stepStaleHist s i = step s i := by
  simp [stepStaleHist, h]

theorem runStaleHist_eq_of_staleFree {s : State} {sched : List Nat} (h : StaleFreeRun s sched) :
    runStaleHist s sched = run s sched := by
  induction sched generalizing s with
  | nil => rfl
  | cons i r ih =>
    show runStaleHist (stepStaleHist s i) r = run (step s i) r
    rw [stepStaleHist_eq_of_not_stale h.1]
    exact ih h.2

end OntVerif.Proofs.ConnCtl
