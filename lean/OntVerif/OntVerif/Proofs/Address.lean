import OntVerif.Model.Address
/-! Helper lemmas for C22: positional digit lists, decimal text, base-58 alphabet, bytes <-> big.Int. Core-only. -/
namespace OntVerif.Proofs.Address
open OntVerif.Util OntVerif.Model.Address

theorem ofLE_toLE (b : Nat) (hb : 2 ≤ b) (f n : Nat) (h : n ≤ f) : ofLE b (toLE b f n) = n := by
  induction f generalizing n with
  | zero => have : n = 0 := by omega
            subst this; rfl
  | succ f ih =>
    unfold toLE
    by_cases hn : n = 0
    · simp [hn, ofLE]
    · simp only [hn, if_false, ofLE]
      have hlt : n / b < n := Nat.div_lt_self (by omega) (by omega)
      rw [ih (n / b) (by omega)]
      exact Nat.mod_add_div n b

theorem toLE_lt (b : Nat) (hb : 0 < b) (f n : Nat) : ∀ d ∈ toLE b f n, d < b := by
  induction f generalizing n with
  | zero => simp [toLE]
  | succ f ih =>
    unfold toLE
    by_cases hn : n = 0
    · simp [hn]
    · simp only [hn, if_false, List.mem_cons]
      intro d hd
      rcases hd with rfl | hd
      · exact Nat.mod_lt _ hb
      · exact ih _ d hd

theorem toLE_length_le (b : Nat) (_hb : 2 ≤ b) (k f n : Nat) (h : n < b ^ k) : (toLE b f n).length ≤ k := by
  induction k generalizing f n with
  | zero =>
    have : n = 0 := by simpa using h
    subst this
    cases f <;> simp [toLE]
  | succ k ih =>
    cases f with
    | zero => simp [toLE]
    | succ f =>
      unfold toLE
      by_cases hn : n = 0
      · simp [hn]
      · simp only [hn, if_false, List.length_cons]
        have : n / b < b ^ k := by
          rw [Nat.pow_succ] at h
          exact Nat.div_lt_of_lt_mul (by rw [Nat.mul_comm]; exact h)
        have := ih f (n / b) this
        omega

/-- a canonical least-significant-first digit list: digits in range, no most-significant zero -/
def Canon (b : Nat) (ds : List Nat) : Prop := (∀ d ∈ ds, d < b) ∧ ds.getLast? ≠ some 0

theorem ofLE_pos (b : Nat) (hb : 2 ≤ b) (ds : List Nat) (hne : ds ≠ []) (hc : ds.getLast? ≠ some 0) : 0 < ofLE b ds := by
  induction ds with
  | nil => exact absurd rfl hne
  | cons d r ih =>
    simp only [ofLE]
    cases r with
    | nil =>
      simp at hc
      simp [ofLE]; omega
    | cons e t =>
      have h1 : (e :: t).getLast? ≠ some 0 := by
        simpa [List.getLast?_cons_cons] using hc
      have := ih (by simp) h1
      have : 0 < b * ofLE b (e :: t) := Nat.mul_pos (by omega) this
      omega

theorem toLE_ofLE (b : Nat) (hb : 2 ≤ b) (ds : List Nat) (hc : Canon b ds) (f : Nat) (hf : ofLE b ds ≤ f) :
    toLE b f (ofLE b ds) = ds := by
  induction ds generalizing f with
  | nil => cases f <;> simp [toLE, ofLE]
  | cons d r ih =>
    obtain ⟨hlt, hlast⟩ := hc
    have hd : d < b := hlt d (by simp)
    have hpos : 0 < ofLE b (d :: r) := ofLE_pos b hb (d :: r) (by simp) hlast
    have hcr : Canon b r := by
      refine ⟨fun x hx => hlt x (by simp [hx]), ?_⟩
      cases r with
      | nil => simp
      | cons e t => simpa [List.getLast?_cons_cons] using hlast
    simp only [ofLE] at hpos hf ⊢
    cases f with
    | zero => omega
    | succ f =>
      unfold toLE
      have hne : ¬ (d + b * ofLE b r = 0) := by omega
      simp only [hne, if_false]
      have h1 : (d + b * ofLE b r) % b = d := by
        rw [Nat.add_mul_mod_self_left]; exact Nat.mod_eq_of_lt hd
      have h2 : (d + b * ofLE b r) / b = ofLE b r := by
        rw [Nat.add_mul_div_left _ _ (by omega : 0 < b), Nat.div_eq_of_lt hd]; simp
      rw [h1, h2]
      have hle : ofLE b r ≤ f := by
        have : ofLE b r * 2 ≤ b * ofLE b r := by rw [Nat.mul_comm]; exact Nat.mul_le_mul_right _ hb
        by_cases hz : ofLE b r = 0
        · omega
        · omega
      rw [ih hcr f hle]

theorem ofLE_snoc2 (b : Nat) (xs : List Nat) (d i : Nat) : ofLE b (xs ++ [d, i]) = ofLE b (xs ++ [i * b + d]) := by
  induction xs with
  | nil => simp [ofLE, Nat.mul_comm]; omega
  | cons x r ih => simp only [List.cons_append, ofLE, ih]

theorem ofLE_snoc0 (b : Nat) (xs : List Nat) : ofLE b (xs ++ [0]) = ofLE b xs := by
  induction xs with
  | nil => simp [ofLE]
  | cons x r ih => simp only [List.cons_append, ofLE, ih]

theorem foldl_eq (b : Nat) (ds : List Nat) (i : Nat) :
    ds.foldl (fun acc d => acc * b + d) i = ofLE b (ds.reverse ++ [i]) := by
  induction ds generalizing i with
  | nil => simp [ofLE]
  | cons d r ih =>
    simp only [List.foldl_cons, ih, List.reverse_cons, List.append_assoc, List.singleton_append]
    exact (ofLE_snoc2 b r.reverse d i).symm

theorem ofBE_eq (b : Nat) (ds : List Nat) : ofBE b ds = ofLE b ds.reverse := by
  unfold ofBE
  rw [foldl_eq, ofLE_snoc0]

theorem ofBE_digits (b : Nat) (hb : 2 ≤ b) (n : Nat) : ofBE b (digits b n) = n := by
  rw [ofBE_eq]; unfold digits
  rw [List.reverse_reverse]
  exact ofLE_toLE b hb n n (Nat.le_refl _)

theorem digits_lt (b : Nat) (hb : 0 < b) (n : Nat) : ∀ d ∈ digits b n, d < b := by
  intro d hd
  unfold digits at hd
  exact toLE_lt b hb n n d (by simpa using hd)

theorem digits_length_le (b : Nat) (hb : 2 ≤ b) (k n : Nat) (h : n < b ^ k) : (digits b n).length ≤ k := by
  unfold digits; rw [List.length_reverse]; exact toLE_length_le b hb k n n h

/-- most-significant-first digit list without a leading zero is what `digits` returns for its value -/
theorem digits_ofBE (b : Nat) (hb : 2 ≤ b) (ds : List Nat) (hlt : ∀ d ∈ ds, d < b) (hh : ds.head? ≠ some 0) :
    digits b (ofBE b ds) = ds := by
  rw [ofBE_eq]; unfold digits
  have hc : Canon b ds.reverse := ⟨by simpa using hlt, by simpa using hh⟩
  rw [toLE_ofLE b hb ds.reverse hc _ (Nat.le_refl _), List.reverse_reverse]


theorem toLE_zero (b f : Nat) : toLE b f 0 = [] := by cases f <;> simp [toLE]

theorem toLE_getLast (b : Nat) (hb : 2 ≤ b) (f n : Nat) (h : n ≤ f) : (toLE b f n).getLast? ≠ some 0 := by
  induction f generalizing n with
  | zero => simp [toLE]
  | succ f ih =>
    unfold toLE
    by_cases hn : n = 0
    · simp [hn]
    · simp only [hn, if_false]
      have hlt : n / b < n := Nat.div_lt_self (by omega) (by omega)
      by_cases hq : n / b = 0
      · rw [hq, toLE_zero]
        have : n < b := by
          rcases Nat.div_eq_zero_iff.mp hq with h | h
          · omega
          · exact h
        simp [Nat.mod_eq_of_lt this, hn]
      · have hne : toLE b f (n / b) ≠ [] := by
          cases f with
          | zero => exact absurd (Nat.lt_one_iff.mp (Nat.lt_of_lt_of_le hlt h)) hq
          | succ f => unfold toLE; simp [hq]
        rw [List.getLast?_cons, ]
        have := ih (n / b) (by omega)
        cases hl : (toLE b f (n / b)).getLast? with
        | none => simp [List.getLast?_eq_none_iff] at hl; exact absurd hl hne
        | some x => rw [hl] at this; simpa using this

theorem digits_head (b : Nat) (hb : 2 ≤ b) (n : Nat) : (digits b n).head? ≠ some 0 := by
  unfold digits
  rw [List.head?_reverse]
  exact toLE_getLast b hb n n (Nat.le_refl _)

theorem digits_ne_nil (b : Nat) (n : Nat) (hn : 0 < n) : digits b n ≠ [] := by
  unfold digits
  cases n with
  | zero => omega
  | succ n => unfold toLE; simp

theorem ofLE_lt (b : Nat) (ds : List Nat) (hlt : ∀ d ∈ ds, d < b) : ofLE b ds < b ^ ds.length := by
  induction ds with
  | nil => simp [ofLE]
  | cons d r ih =>
    have hd : d < b := hlt d (by simp)
    have hr := ih (fun x hx => hlt x (by simp [hx]))
    simp only [ofLE, List.length_cons, Nat.pow_succ]
    have : b * (ofLE b r + 1) ≤ b * b ^ r.length := Nat.mul_le_mul_left _ hr
    rw [Nat.mul_comm (b ^ r.length)]
    rw [Nat.mul_add] at this
    omega


/-! ### decimal text -/

theorem toNat_ofNat_lt (v : Nat) (h : v < 256) : (UInt8.ofNat v).toNat = v := by
  simp [UInt8.toNat_ofNat']; omega

theorem parseDec_toDec (n : Nat) : parseDec (toDec n) = some n := by
  unfold toDec
  by_cases hn : n = 0
  · subst hn; decide
  · simp only [hn, if_false]
    have hne := digits_ne_nil 10 n (by omega)
    have hlt := digits_lt 10 (by omega) n
    unfold parseDec
    have h1 : ((digits 10 n).map (fun d => UInt8.ofNat (48 + d))).isEmpty = false := by
      cases h : digits 10 n with
      | nil => exact absurd h hne
      | cons a t => rfl
    have h2 : ((digits 10 n).map (fun d => UInt8.ofNat (48 + d))).all isDecDigit = true := by
      rw [List.all_eq_true]
      intro c hc
      obtain ⟨d, hd, rfl⟩ := List.mem_map.mp hc
      have := hlt d hd
      unfold isDecDigit
      rw [toNat_ofNat_lt _ (by omega)]
      simp; omega
    have h3 : ((digits 10 n).map (fun d => UInt8.ofNat (48 + d))).map (fun c => c.toNat - 48) = digits 10 n := by
      rw [List.map_map]
      conv => rhs; rw [← List.map_id (digits 10 n)]
      apply List.map_congr_left
      intro d hd
      have := hlt d hd
      simp only [Function.comp, id]
      rw [toNat_ofNat_lt _ (by omega)]; omega
    simp only [h1, h2, h3, Bool.false_eq_true, if_false, if_true, ofBE_digits 10 (by omega) n]

theorem leading_toDec (n : Nat) (hn : 0 < n) : leading 48 (toDec n) = 0 := by
  unfold toDec
  have hn' : ¬ n = 0 := by omega
  simp only [hn', if_false]
  have hh := digits_head 10 (by omega) n
  have hlt := digits_lt 10 (by omega) n
  cases h : digits 10 n with
  | nil => rfl
  | cons d t =>
    rw [h] at hh hlt
    have hd : d < 10 := hlt d (by simp)
    have hd0 : d ≠ 0 := by simpa using hh
    simp only [List.map_cons, leading]
    have : UInt8.ofNat (48 + d) ≠ 48 := by
      intro hc
      have := congrArg UInt8.toNat hc
      rw [toNat_ofNat_lt _ (by omega)] at this
      simp at this; omega
    rw [if_neg this]

/-! ### base 58 -/

theorem decodeMap_alphaAt : ∀ d, d < 58 → decodeMap (alphaAt d) = some d := by decide

theorem decodeDigits_map (ds : List Nat) (hlt : ∀ d ∈ ds, d < 58) : decodeDigits (ds.map alphaAt) = some ds := by
  induction ds with
  | nil => rfl
  | cons d r ih =>
    simp only [List.map_cons, decodeDigits, decodeMap_alphaAt d (hlt d (by simp)),
      ih (fun x hx => hlt x (by simp [hx]))]

theorem leading_map (ds : List Nat) (hlt : ∀ d ∈ ds, d < 58) (hh : ds.head? ≠ some 0) :
    leading (alphaAt 0) (ds.map alphaAt) = 0 := by
  cases ds with
  | nil => rfl
  | cons d t =>
    have hd : d < 58 := hlt d (by simp)
    have hd0 : d ≠ 0 := by simpa using hh
    simp only [List.map_cons, leading]
    have : alphaAt d ≠ alphaAt 0 := by
      intro hc
      have h1 := decodeMap_alphaAt d hd
      rw [hc, decodeMap_alphaAt 0 (by omega)] at h1
      simp at h1; omega
    rw [if_neg this]

/-- the library's encode/decode pair on the decimal text of a positive number -/
theorem b58Encode_toDec (n : Nat) (hn : 0 < n) : b58Encode (toDec n) = some ((digits 58 n).map alphaAt) := by
  unfold b58Encode
  have h1 : (toDec n).isEmpty = false := by
    unfold toDec
    have hn' : ¬ n = 0 := by omega
    simp only [hn', if_false]
    cases h : digits 10 n with
    | nil => exact absurd h (digits_ne_nil 10 n hn)
    | cons a t => rfl
  simp only [h1, Bool.false_eq_true, if_false, parseDec_toDec, leading_toDec n hn, List.replicate_zero, List.nil_append]

theorem b58Decode_digits (n : Nat) (hn : 0 < n) : b58Decode ((digits 58 n).map alphaAt) = some (toDec n) := by
  unfold b58Decode
  have hne := digits_ne_nil 58 n hn
  have hlt := digits_lt 58 (by omega) n
  have h1 : ((digits 58 n).map alphaAt).isEmpty = false := by
    cases h : digits 58 n with
    | nil => exact absurd h hne
    | cons a t => rfl
  simp only [h1, Bool.false_eq_true, if_false, leading_map _ hlt (digits_head 58 (by omega) n),
    decodeDigits_map _ hlt, ofBE_digits 58 (by omega) n, Nat.zero_min, List.replicate_zero, List.nil_append]

/-! ### bytes ↔ big.Int -/

theorem bytesOfBig_bigOfBytes (d : Bytes) (hh : d.head? ≠ some 0) : bytesOfBig (bigOfBytes d) = d := by
  unfold bytesOfBig bigOfBytes
  have hlt : ∀ x ∈ d.map (·.toNat), x < 256 := by
    intro x hx
    obtain ⟨b, _, rfl⟩ := List.mem_map.mp hx
    exact b.toNat_lt
  have hh' : (d.map (·.toNat)).head? ≠ some 0 := by
    cases d with
    | nil => simp
    | cons b t =>
      simp only [List.map_cons, List.head?_cons, ne_eq, Option.some.injEq] at hh ⊢
      intro hc
      exact hh (UInt8.toNat_inj.mp (by simpa using hc))
  rw [digits_ofBE 256 (by omega) _ hlt hh', List.map_map]
  conv => rhs; rw [← List.map_id d]
  apply List.map_congr_left
  intro b _
  simp [Function.comp]

theorem bigOfBytes_lt (d : Bytes) : bigOfBytes d < 256 ^ d.length := by
  unfold bigOfBytes
  rw [ofBE_eq]
  have := ofLE_lt 256 (d.map (·.toNat)).reverse (by
    intro x hx
    obtain ⟨b, _, rfl⟩ := List.mem_map.mp (by simpa using hx)
    exact b.toNat_lt)
  simpa using this

theorem bigOfBytes_pos (b : UInt8) (t : Bytes) (hb : b ≠ 0) : 0 < bigOfBytes (b :: t) := by
  unfold bigOfBytes
  rw [ofBE_eq]
  apply ofLE_pos 256 (by omega)
  · simp
  · simp only [List.map_cons, List.reverse_cons, List.getLast?_append, List.getLast?_singleton]
    simp only [ne_eq]
    intro hc
    exact hb (UInt8.toNat_inj.mp (by simpa using hc))

/-! ### `ToBase58` value, hex -/

/-- what `ToBase58` computes: the base-58 digits of the 25-byte number `23 ‖ a ‖ chk`, through the alphabet -/
theorem toBase58_eq (H : Bytes → Bytes) (a : Bytes) :
    toBase58 H a = (digits 58 (bigOfBytes (23 :: a ++ (H (23 :: a)).take 4))).map alphaAt := by
  unfold toBase58
  simp only [List.cons_append]
  rw [b58Encode_toDec _ (bigOfBytes_pos 23 _ (by decide))]

theorem hexVal_hexChar : ∀ n, n < 16 → hexVal (hexChar n) = some n := by decide

theorem hexDecode_hexEncode (bs : Bytes) : hexDecode (hexEncode bs) = some bs := by
  induction bs with
  | nil => rfl
  | cons b r ih =>
    have hb := b.toNat_lt
    simp only [hexEncode, hexDecode, hexVal_hexChar _ (Nat.div_lt_of_lt_mul (by omega : b.toNat < 16 * 16)),
      hexVal_hexChar _ (Nat.mod_lt _ (by omega : 0 < 16)), ih]
    have : b.toNat / 16 * 16 + b.toNat % 16 = b.toNat := by omega
    rw [this]
    simp

/-- a hex string is accepted only if it has exactly 40 characters, and the result has 20 bytes -/
theorem hexDecode_length (s bs : Bytes) (h : hexDecode s = some bs) : s.length = 2 * bs.length := by
  induction bs generalizing s with
  | nil =>
    match s, h with
    | [], _ => rfl
    | [_], h => simp [hexDecode] at h
    | a :: b :: r, h =>
      simp only [hexDecode] at h
      split at h <;> simp at h
  | cons x t ih =>
    match s, h with
    | [], h => simp [hexDecode] at h
    | [_], h => simp [hexDecode] at h
    | a :: b :: r, h =>
      simp only [hexDecode] at h
      split at h
      · rename_i hr
        injection h with h
        injection h with _ h
        subst h
        have := ih r hr
        simp; omega
      · cases h

end OntVerif.Proofs.Address
