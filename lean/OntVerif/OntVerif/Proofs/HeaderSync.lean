import OntVerif.Model.HeaderSync
/-! Helper lemmas for C33 (header-sync contract): the mask loop of VerifyMultiSignature, the membership loop, state invariants. -/
namespace OntVerif.Proofs.HeaderSync
open OntVerif.Model.HeaderSync OntVerif.Gen.HeaderSync

def usedCount {Key : Type} : List (Key × Bool) → Nat
  | [] => 0
  | (_, b) :: r => (if b then 1 else 0) + usedCount r

theorem usedCount_le {Key : Type} (slots : List (Key × Bool)) : usedCount slots ≤ slots.length := by
  induction slots with
  | nil => simp [usedCount]
  | cons a r ih => obtain ⟨k, b⟩ := a; cases b <;> simp [usedCount] <;> omega

theorem all_used_of_count {Key : Type} (slots : List (Key × Bool)) (h : usedCount slots = slots.length) :
    ∀ p ∈ slots, p.2 = true := by
  induction slots with
  | nil => simp
  | cons a r ih =>
    obtain ⟨k, b⟩ := a
    have hr := usedCount_le r
    intro p hp
    cases b with
    | false => simp [usedCount] at h; omega
    | true =>
      simp [usedCount] at h
      rcases List.mem_cons.mp hp with rfl | hm
      · rfl
      · exact ih (by omega) p hm

theorem usedCount_map_false {Key : Type} (keys : List Key) : usedCount (keys.map fun k => (k, false)) = 0 := by
  induction keys with
  | nil => rfl
  | cons a r ih => simp [usedCount, ih]

/-- one successful inner loop: same keys, exactly one more masked position, and a newly masked key verifies -/
theorem matchSig_some {Key : Type} (vf : Key → Bool) (slots slots' : List (Key × Bool)) (h : matchSig vf slots = some slots') :
    slots'.map Prod.fst = slots.map Prod.fst ∧ usedCount slots' = usedCount slots + 1 ∧
    ∀ P : Key → Prop, (∀ p ∈ slots, p.2 = true → P p.1) → (∀ k, vf k = true → P k) → ∀ p ∈ slots', p.2 = true → P p.1 := by
  induction slots generalizing slots' with
  | nil => simp [matchSig] at h
  | cons a r ih =>
    obtain ⟨k, used⟩ := a
    unfold matchSig at h
    by_cases hu : used = true
    · simp only [hu, if_true, Option.map_eq_some_iff] at h
      obtain ⟨r', hr', rfl⟩ := h
      obtain ⟨h1, h2, h3⟩ := ih r' hr'
      refine ⟨by simp [h1], ?_, ?_⟩
      · simp [usedCount, hu]; omega
      · intro P hP hv p hp hp2
        rcases List.mem_cons.mp hp with rfl | hm
        · exact hP (k, used) (by simp) (by simp [hu])
        · exact h3 P (fun q hq => hP q (List.mem_cons_of_mem _ hq)) hv p hm hp2
    · have hu' : used = false := by cases used <;> simp_all
      subst hu'
      by_cases hv : vf k = true
      · simp [hv] at h
        subst h
        refine ⟨by simp, by simp [usedCount]; omega, ?_⟩
        intro P hP hvf p hp hp2
        rcases List.mem_cons.mp hp with rfl | hm
        · exact hvf k hv
        · exact hP p (List.mem_cons_of_mem _ hm) hp2
      · simp only [Bool.false_eq_true, if_false, hv, Option.map_eq_some_iff] at h
        obtain ⟨r', hr', rfl⟩ := h
        obtain ⟨h1, h2, h3⟩ := ih r' hr'
        refine ⟨by simp [h1], ?_, ?_⟩
        · simp [usedCount]; omega
        · intro P hP hvf p hp hp2
          rcases List.mem_cons.mp hp with rfl | hm
          · simp at hp2
          · exact h3 P (fun q hq => hP q (List.mem_cons_of_mem _ hq)) hvf p hm hp2


theorem matchSig_length {Key : Type} (vf : Key → Bool) (slots slots' : List (Key × Bool)) (h : matchSig vf slots = some slots') :
    slots'.length = slots.length := by
  have := (matchSig_some vf slots slots' h).1
  simpa using congrArg List.length this

/-- the outer loop: when every position is masked at the end (the list of signatures is as long as there are unmasked
positions), every key satisfies any `P` that holds of the already masked keys and of every key verifying one of the signatures -/
theorem multiLoop_ok {Key Msg Sig : Type} (verify : Key → Msg → Sig → Bool) (data : Msg) (P : Key → Prop)
    (l : List (Option Sig)) (slots : List (Key × Bool))
    (h : multiLoop verify data l slots = .ok ())
    (hP : ∀ p ∈ slots, p.2 = true → P p.1)
    (hS : ∀ s, some s ∈ l → ∀ k, verify k data s = true → P k)
    (hc : usedCount slots + l.length = slots.length) :
    ∀ p ∈ slots, P p.1 := by
  induction l generalizing slots with
  | nil =>
    intro p hp
    exact hP p hp (all_used_of_count slots (by simpa using hc) p hp)
  | cons a r ih =>
    cases a with
    | none => simp [multiLoop] at h
    | some s =>
      simp only [multiLoop] at h
      cases hm : matchSig (fun k => verify k data s) slots with
      | none => simp [hm] at h
      | some slots' =>
        simp only [hm] at h
        obtain ⟨h1, h2, h3⟩ := matchSig_some _ slots slots' hm
        have hl := matchSig_length _ slots slots' hm
        have hP' := h3 P hP (fun k hk => hS s (by simp) k hk)
        have := ih slots' h hP' (fun s' hs' => hS s' (List.mem_cons_of_mem _ hs')) (by simp at hc; omega)
        intro p hp
        have hk : p.1 ∈ slots'.map Prod.fst := by rw [h1]; exact List.mem_map_of_mem hp
        obtain ⟨q, hq, hqe⟩ := List.mem_map.mp hk
        rw [← hqe]; exact this q hq

/-- `VerifyMultiSignature(data, keys, m, sigs)` with `m = len(keys)` succeeds only if EVERY listed key position has a
verifying signature among the first `m` signatures -/
theorem verifyMultiSignature_all {Key Msg Sig : Type} (verify : Key → Msg → Sig → Bool) (data : Msg) (keys : List Key)
    (sigs : List (Option Sig)) (h : verifyMultiSignature verify data keys keys.length sigs = .ok ()) :
    ∀ k ∈ keys, ∃ s, some s ∈ sigs ∧ verify k data s = true := by
  unfold verifyMultiSignature at h
  split at h
  · simp at h
  · rename_i hlen
    have := multiLoop_ok verify data (fun k => ∃ s, some s ∈ sigs ∧ verify k data s = true) (sigs.take keys.length)
      (keys.map fun k => (k, false)) h
      (by intro p hp h2; simp at hp; obtain ⟨k, _, rfl⟩ := hp; simp at h2)
      (by intro s hs k hk; exact ⟨s, List.mem_of_mem_take hs, hk⟩)
      (by rw [usedCount_map_false]; simp; omega)
    intro k hk
    exact this (k, false) (List.mem_map_of_mem hk)

/-- the repaired membership loop -/
theorem memberLoop_sound {Key : Type} [DecidableEq Key] (peers bks seen : List Key)
    (h : memberLoop .sound peers bks seen = .ok ()) :
    bks.Nodup ∧ (∀ b ∈ bks, b ∈ peers ∧ b ∉ seen) := by
  induction bks generalizing seen with
  | nil => simp
  | cons b r ih =>
    unfold memberLoop at h
    split at h
    · simp at h
    · rename_i hm
      split at h
      · simp at h
      · rename_i hd
        have hs : b ∉ seen := by simpa using hd
        obtain ⟨h1, h2⟩ := ih (b :: seen) h
        refine ⟨List.nodup_cons.mpr ⟨fun hb => ?_, h1⟩, ?_⟩
        · exact (h2 b hb).2 (by simp)
        · intro x hx
          rcases List.mem_cons.mp hx with rfl | hx
          · exact ⟨by simpa using hm, hs⟩
          · exact ⟨(h2 x hx).1, fun hxs => (h2 x hx).2 (List.mem_cons_of_mem _ hxs)⟩

/-- both variants check membership -/
theorem memberLoop_members {Key : Type} [DecidableEq Key] (v : Variant) (peers bks seen : List Key)
    (h : memberLoop v peers bks seen = .ok ()) : ∀ b ∈ bks, b ∈ peers := by
  induction bks generalizing seen with
  | nil => simp
  | cons b r ih =>
    unfold memberLoop at h
    split at h
    · simp at h
    · rename_i hm
      split at h
      · simp at h
      · intro x hx
        rcases List.mem_cons.mp hx with rfl | hx
        · simpa using hm
        · exact ih _ h x hx

/-- a duplicate-free list contained in another list is not longer -/
theorem nodup_subset_length {α : Type} [DecidableEq α] (l l' : List α) (hn : l.Nodup) (hs : ∀ a ∈ l, a ∈ l') :
    l.length ≤ l'.length := by
  induction l generalizing l' with
  | nil => simp
  | cons a r ih =>
    have ha : a ∈ l' := hs a (by simp)
    have hn' := List.nodup_cons.mp hn
    have := ih (l'.erase a) hn'.2 (fun x hx => by
      have hne : x ≠ a := fun e => hn'.1 (e ▸ hx)
      exact (List.mem_erase_of_ne hne).mpr (hs x (List.mem_cons_of_mem _ hx)))
    rw [List.length_erase_of_mem ha] at this
    have : 0 < l'.length := List.length_pos_of_mem ha
    simp; omega


/-- what an accepted header guarantees in the repaired code -/
theorem verifyHeaderWith_sound {Key Msg Sig : Type} [DecidableEq Key] (verify : Key → Msg → Sig → Bool)
    (peers : List Key) (data : Msg) (bks : List Key) (sigs : List (Option Sig))
    (h : verifyHeaderWith .sound verify peers data bks sigs = .ok ()) :
    bks.Nodup ∧ (∀ b ∈ bks, b ∈ peers) ∧ (∀ b ∈ bks, ∃ s, some s ∈ sigs ∧ verify b data s = true) ∧
    2 * peers.length ≤ 3 * bks.length := by
  unfold verifyHeaderWith at h
  split at h
  · simp at h
  · rename_i hc
    split at h
    · simp at h
    · rename_i hml
      split at h
      · simp at h
      · rename_i hms
        obtain ⟨hn, hmem⟩ := memberLoop_sound peers bks [] hml
        have hm : multisigM bks.length peers.length = bks.length := rfl
        rw [hm] at hms
        refine ⟨hn, fun b hb => (hmem b hb).1, verifyMultiSignature_all verify data bks sigs hms, ?_⟩
        simp [countRejects] at hc
        omega

theorem mem_genuineSigners {Key Msg Sig : Type} (verify : Key → Msg → Sig → Bool) (peers : List Key) (data : Msg)
    (sigs : List (Option Sig)) (k : Key) :
    k ∈ genuineSigners verify peers data sigs ↔ k ∈ peers ∧ ∃ s, some s ∈ sigs ∧ verify k data s = true := by
  unfold genuineSigners
  rw [List.mem_filter, List.any_eq_true]
  constructor
  · rintro ⟨hp, x, hx, hv⟩
    cases x with
    | none => simp at hv
    | some s => exact ⟨hp, s, hx, hv⟩
  · rintro ⟨hp, s, hs, hv⟩
    exact ⟨hp, some s, hs, hv⟩

theorem quorum_of_accept {Key Msg Sig : Type} [DecidableEq Key] (verify : Key → Msg → Sig → Bool)
    (peers : List Key) (data : Msg) (bks : List Key) (sigs : List (Option Sig))
    (h : verifyHeaderWith .sound verify peers data bks sigs = .ok ()) :
    2 * peers.length ≤ 3 * (genuineSigners verify peers data sigs).length := by
  obtain ⟨hn, hm, hs, hc⟩ := verifyHeaderWith_sound verify peers data bks sigs h
  have := nodup_subset_length bks (genuineSigners verify peers data sigs) hn
    (fun b hb => (mem_genuineSigners verify peers data sigs b).mpr ⟨hm b hb, hs b hb⟩)
  omega

/-! ## state invariants -/

theorem dedup_mem {Key : Type} [DecidableEq Key] (l : List Key) (k : Key) : k ∈ dedup l ↔ k ∈ l := by
  induction l with
  | nil => simp [dedup]
  | cons a r ih =>
    unfold dedup
    split
    · rename_i h; rw [ih]; constructor
      · exact List.mem_cons_of_mem _
      · intro hk; rcases List.mem_cons.mp hk with rfl | hk
        · exact h
        · exact hk
    · simp [ih]

theorem dedup_nodup {Key : Type} [DecidableEq Key] (l : List Key) : (dedup l).Nodup := by
  induction l with
  | nil => simp [dedup]
  | cons a r ih =>
    unfold dedup
    split
    · exact ih
    · rename_i h; exact List.nodup_cons.mpr ⟨fun hm => h ((dedup_mem r a).mp hm), ih⟩

def Desc (l : List Nat) : Prop := l.Pairwise (· ≥ ·)

theorem insertDesc_mem (h : Nat) (l : List Nat) (x : Nat) : x ∈ insertDesc h l ↔ x = h ∨ x ∈ l := by
  induction l with
  | nil => simp [insertDesc]
  | cons a r ih =>
    unfold insertDesc
    split
    · simp
    · simp [ih]; constructor
      · rintro (h1 | h1 | h1) <;> simp [h1]
      · rintro (h1 | h1 | h1) <;> simp [h1]

theorem insertDesc_desc (h : Nat) (l : List Nat) (hd : Desc l) : Desc (insertDesc h l) := by
  induction l with
  | nil => simp [insertDesc, Desc]
  | cons a r ih =>
    unfold Desc at hd ih ⊢
    have hd' := List.pairwise_cons.mp hd
    unfold insertDesc
    split
    · rename_i hlt
      refine List.pairwise_cons.mpr ⟨?_, hd⟩
      intro x hx
      rcases List.mem_cons.mp hx with rfl | hx
      · omega
      · have := hd'.1 x hx; omega
    · rename_i hge
      refine List.pairwise_cons.mpr ⟨?_, ih hd'.2⟩
      intro x hx
      rcases (insertDesc_mem h r x).mp hx with rfl | hx
      · omega
      · exact hd'.1 x hx

/-- on a list sorted big → small, `findKeyHeight`'s linear search returns the GREATEST key height below `height` -/
theorem find_desc_greatest (l : List Nat) (height kh : Nat) (hd : Desc l)
    (h : l.find? (fun v => decide (height > v)) = some kh) :
    kh ∈ l ∧ kh < height ∧ ∀ v ∈ l, v < height → v ≤ kh := by
  induction l with
  | nil => simp at h
  | cons a r ih =>
    have hd' := List.pairwise_cons.mp hd
    rw [List.find?_cons] at h
    split at h
    · rename_i ha
      simp at h ha
      subst h
      refine ⟨by simp, ha, ?_⟩
      intro v hv _
      rcases List.mem_cons.mp hv with rfl | hv
      · exact Nat.le_refl _
      · exact hd'.1 v hv
    · rename_i ha
      simp at ha
      obtain ⟨h1, h2, h3⟩ := ih hd'.2 h
      refine ⟨List.mem_cons_of_mem _ h1, h2, ?_⟩
      intro v hv hlt
      rcases List.mem_cons.mp hv with rfl | hv
      · omega
      · exact h3 v hv hlt

theorem putAssoc_mem {α β : Type} [BEq α] (k : α) (v : β) (l : List (α × β)) (e : α × β) (h : e ∈ putAssoc k v l) :
    e = (k, v) ∨ e ∈ l := by
  induction l with
  | nil => simp [putAssoc] at h; exact Or.inl h
  | cons a r ih =>
    obtain ⟨k', v'⟩ := a
    unfold putAssoc at h
    split at h
    · rcases List.mem_cons.mp h with rfl | h
      · exact Or.inl rfl
      · exact Or.inr (List.mem_cons_of_mem _ h)
    · rcases List.mem_cons.mp h with rfl | h
      · exact Or.inr (by simp)
      · rcases ih h with h | h
        · exact Or.inl h
        · exact Or.inr (List.mem_cons_of_mem _ h)

/-- every stored peer set is duplicate free (a Go map) and every stored key-height list is sorted big → small -/
structure Inv {Key : Type} (st : St Key) : Prop where
  peersNodup : ∀ e ∈ st.peers, e.2.Nodup
  khDesc : ∀ e ∈ st.keyHeights, Desc e.2

theorem inv_empty {Key : Type} : Inv ({} : St Key) := ⟨by simp, by simp⟩

theorem getKeyHeights_desc {Key : Type} (st : St Key) (hi : Inv st) (c : Nat) : Desc (getKeyHeights st c) := by
  unfold getKeyHeights
  split
  · rename_i l hf
    exact hi.khDesc _ (List.mem_of_find?_eq_some hf)
  · simp [Desc]

theorem inv_putHeader {Key : Type} (st : St Key) (hi : Inv st) (c h : Nat) : Inv (putHeader st c h) := by
  unfold putHeader; split
  · exact hi
  · exact ⟨hi.peersNodup, hi.khDesc⟩

theorem getKeyHeights_putHeader {Key : Type} (st : St Key) (c h c' : Nat) :
    getKeyHeights (putHeader st c h) c' = getKeyHeights st c' := by
  unfold putHeader; split <;> rfl

theorem inv_update {Key : Type} [DecidableEq Key] (st st' : St Key) (hi : Inv st) (c h : Nat) (cfg : Cfg Key)
    (hu : updateConsensusPeer st c h cfg = .ok st') : Inv st' := by
  cases cfg with
  | none => simp [updateConsensusPeer] at hu; subst hu; exact hi
  | bad => simp [updateConsensusPeer] at hu
  | peers ps =>
    simp [updateConsensusPeer] at hu; subst hu
    constructor
    · intro e he
      rcases putAssoc_mem _ _ _ e he with rfl | he
      · exact dedup_nodup ps
      · exact hi.peersNodup e he
    · intro e he
      rcases putAssoc_mem _ _ _ e he with rfl | he
      · exact insertDesc_desc h _ (getKeyHeights_desc st hi c)
      · exact hi.khDesc e he

theorem inv_step {Key Msg Sig : Type} [DecidableEq Key] (v : Variant) (verify : Key → Msg → Sig → Bool) (st : St Key)
    (hi : Inv st) (op : Op Key Msg Sig) : Inv (step v verify st op).2 := by
  cases op with
  | genesis w h =>
    simp only [step, syncGenesisHeader]
    split
    · exact hi
    · split
      · rename_i st' hu; exact inv_update _ st' (inv_putHeader st hi _ _) _ _ _ hu
      · exact hi
  | block h =>
    simp only [step, syncBlockHeader]
    split
    · exact hi
    · split
      · rename_i st' hp
        unfold processHeader at hp
        split at hp
        · simp at hp
        · exact inv_update _ st' (inv_putHeader st hi _ _) _ _ _ hp
      · exact hi

theorem inv_run {Key Msg Sig : Type} [DecidableEq Key] (v : Variant) (verify : Key → Msg → Sig → Bool) (st : St Key)
    (hi : Inv st) (ops : List (Op Key Msg Sig)) : Inv (run v verify st ops) := by
  induction ops generalizing st with
  | nil => exact hi
  | cons op r ih => exact ih _ (inv_step v verify st hi op)

end OntVerif.Proofs.HeaderSync
