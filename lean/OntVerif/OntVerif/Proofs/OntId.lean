import OntVerif.Model.OntId
/-!
Helper lemmas for C45 (core Lean only): unfolding of one invocation, soundness of every executable authorization
check against the specification vocabulary (`KeyWitness`, `GroupProof`, `CtrlProof`, `Authorized`), frame and
revocation lemmas, the threshold recursion, and permanence of key revocation.
-/
namespace OntVerif.Proofs.OntId
open OntVerif.Util OntVerif.Model.OntId

/-! ### one invocation -/

/-- the guards a successful invocation has passed -/
structure Passed (env : Env) (tx : Tx) (w w' : World) (op : Op) : Prop where
  gate : (plan env op).newOnly = true → tx.newApi = true
  pre : (plan env op).pre = true
  status : statusOk env w (plan env op) = true
  auth : authOk env tx w (plan env op).id (plan env op).auth = true
  eff : ∃ x, applyEff env tx w (plan env op).id (plan env op).eff = .ok x ∧ w' = w.set (plan env op).id x

theorem step_eq (env : Env) (tx : Tx) (w : World) (op : Op) :
    step env tx w op =
      if (plan env op).newOnly && !tx.newApi then (w, .fail)
      else if !(plan env op).pre then (w, .fail)
      else if !statusOk env w (plan env op) then (w, .fail)
      else if !authOk env tx w (plan env op).id (plan env op).auth then (w, .fail)
      else match applyEff env tx w (plan env op).id (plan env op).eff with
        | .ok x => (w.set (plan env op).id x, .ok)
        | .fail => (w, .fail) := rfl

theorem step_ok {env : Env} {tx : Tx} {w w' : World} {op : Op} (h : step env tx w op = (w', .ok)) :
    Passed env tx w w' op := by
  rw [step_eq] at h
  by_cases h1 : ((plan env op).newOnly && !tx.newApi) = true
  · simp [h1] at h
  · by_cases h2 : (plan env op).pre = true
    · by_cases h3 : statusOk env w (plan env op) = true
      · by_cases h4 : authOk env tx w (plan env op).id (plan env op).auth = true
        · simp only [h1, h2, h3, h4, Bool.not_true, if_false, Bool.false_eq_true] at h
          cases h5 : applyEff env tx w (plan env op).id (plan env op).eff with
          | ok x =>
            rw [h5] at h
            simp only [Prod.mk.injEq, and_true] at h
            refine ⟨?_, h2, h3, h4, x, h5, h.symm⟩
            intro hn
            cases hh : tx.newApi
            · simp [hn, hh] at h1
            · rfl
          | fail => rw [h5] at h; simp at h
        · simp [h1, h2, h3, h4] at h
      · simp [h1, h2, h3] at h
    · simp [h1, h2] at h

/-- an invocation that does not succeed leaves the storage untouched -/
theorem step_not_ok {env : Env} {tx : Tx} {w : World} {op : Op} (h : (step env tx w op).2 ≠ .ok) :
    (step env tx w op).1 = w := by
  rw [step_eq] at h ⊢
  by_cases h1 : ((plan env op).newOnly && !tx.newApi) = true
  · simp [h1]
  · by_cases h2 : (plan env op).pre = true
    · by_cases h3 : statusOk env w (plan env op) = true
      · by_cases h4 : authOk env tx w (plan env op).id (plan env op).auth = true
        · simp only [h1, h2, h3, h4, Bool.not_true, if_false, Bool.false_eq_true] at h ⊢
          cases h5 : applyEff env tx w (plan env op).id (plan env op).eff with
          | ok x => rw [h5] at h; simp at h
          | fail => rfl
        · simp [h1, h2, h3, h4]
      · simp [h1, h2, h3]
    · simp [h1, h2]

/-- an invocation writes at most the records of its target -/
theorem step_frame (env : Env) (tx : Tx) (w : World) (op : Op) (j : Bytes) (hj : j ≠ (plan env op).id) :
    (step env tx w op).1 j = w j := by
  by_cases h : (step env tx w op).2 = .ok
  · have hp : step env tx w op = ((step env tx w op).1, .ok) := by rw [← h]
    obtain ⟨x, _, hx⟩ := (step_ok hp).eff
    rw [hx]
    simp [World.set, hj]
  · rw [step_not_ok h]

theorem statusOk_status {env : Env} {w : World} {p : Plan} (h : statusOk env w p = true) :
    (p.reg = true → (w p.id).status = .absent ∧ env.validId p.id = true) ∧
    (p.reg = false → (w p.id).status = .valid) := by
  unfold statusOk at h
  cases hr : p.reg
  · simp only [hr, Bool.false_eq_true, if_false, Bool.and_eq_true, beq_iff_eq] at h
    exact ⟨by simp, fun _ => h.2⟩
  · simp only [hr, if_true, Bool.and_eq_true, beq_iff_eq] at h
    exact ⟨fun _ => ⟨h.2, h.1.1⟩, by simp⟩

theorem statusReq_of_statusOk {env : Env} {w : World} {op : Op} (h : statusOk env w (plan env op) = true) :
    StatusReq env w op := by
  obtain ⟨h1, h2⟩ := statusOk_status h
  unfold StatusReq Op.target
  cases hr : (plan env op).reg
  · simpa using h2 hr
  · simpa using h1 hr

/-- nothing succeeds on a revoked identity -/
theorem step_revoked {env : Env} {tx : Tx} {w : World} {op : Op} (h : (w (plan env op).id).status = .revoked) :
    step env tx w op = (w, .fail) := by
  cases hs : (step env tx w op).2 with
  | ok =>
    have hp : step env tx w op = ((step env tx w op).1, .ok) := by rw [← hs]
    obtain ⟨h1, h2⟩ := statusOk_status (step_ok hp).status
    cases hr : (plan env op).reg
    · rw [h2 hr] at h; cases h
    · rw [(h1 hr).1] at h; cases h
  | fail =>
    have : (step env tx w op).1 = w := step_not_ok (by rw [hs]; decide)
    exact Prod.ext this hs

/-! ### soundness of the executable checks -/

theorem checkWitness_sound {env : Env} {tx : Tx} {k : Bytes} (h : checkWitness env tx k = true) :
    Witnessed env tx k := by
  unfold checkWitness at h
  unfold Witnessed
  simp only [Bool.or_eq_true, Bool.and_eq_true, List.contains_iff_mem] at h
  exact h

theorem getPk_some {keys : List Key} {i : Nat} {k : Key} (h : getPk keys i = some k) :
    1 ≤ i ∧ keys[i - 1]? = some k := by
  unfold getPk at h
  split at h
  · simp at h
  · split at h
    · simp at h
    · rename_i h2
      simp at h2
      exact ⟨by omega, h⟩

theorem cwbi_sound {env : Env} {tx : Tx} {w : World} {id : Bytes} {i : Nat}
    (h : checkWitnessByIndex env tx w id (u32 i) = true) : KeyWitness env tx w id i := by
  unfold checkWitnessByIndex at h
  split at h
  · simp at h
  · rename_i k hk
    obtain ⟨h1, h2⟩ := getPk_some hk
    simp only [Bool.and_eq_true, Bool.not_eq_true'] at h
    exact ⟨k, h1, h2, h.1.1, h.1.2, checkWitness_sound h.2⟩

theorem isOwner_sound {keys : List Key} {pub : Bytes} (h : isOwner keys pub = true) :
    ∃ k ∈ keys, k.key = pub ∧ k.revoked = false ∧ k.isAuth = true := by
  unfold isOwner at h
  split at h
  · rename_i k hk
    have hm := List.mem_of_find?_eq_some hk
    have hp := List.find?_some hk
    simp only [Bool.and_eq_true, beq_iff_eq] at hp
    simp only [Bool.not_eq_true'] at h
    exact ⟨k, hm, hp.1, h, hp.2⟩
  · simp at h

theorem vgs_sound {env : Env} {tx : Tx} {w : World} {g : Grp} {ss : List Signer}
    (h : verifyGroupSignature env tx w g ss = true) : GroupProof env tx w g ss := by
  unfold verifyGroupSignature at h
  simp only [Bool.and_eq_true, List.all_eq_true] at h
  exact ⟨h.1, fun s hs => cwbi_sound (h.2 s hs).2⟩

theorem vsc_sound {env : Env} {tx : Tx} {w : World} {cid : Bytes} {p : Proof}
    (h : verifySingleController env tx w cid p = true) : CtrlProof env tx w (.single cid) p := by
  unfold verifySingleController at h
  unfold CtrlProof
  split at h
  · simp at h
  · rename_i i hi
    simp only [Bool.and_eq_true] at h
    exact ⟨i, hi, cwbi_sound h.2⟩

theorem vgc_sound {env : Env} {tx : Tx} {w : World} {g : Grp} {p : Proof}
    (h : verifyGroupController env tx w g p = true) : CtrlProof env tx w (.group g) p := by
  unfold verifyGroupController at h
  unfold CtrlProof
  split at h
  · simp at h
  · rename_i ss hs
    exact ⟨ss, hs, vgs_sound h⟩

/-- every executable authorization check implies the authorization statement -/
theorem authOk_sound {env : Env} {tx : Tx} {w : World} {id : Bytes} {a : AuthReq}
    (h : authOk env tx w id a = true) : Authorized env tx w id a := by
  cases a with
  | keyIdx i => exact cwbi_sound h
  | keyIdxNoAuth i => trivial
  | ownerPk opk m =>
    simp only [authOk, Bool.and_eq_true] at h
    obtain ⟨hw, hr⟩ := h
    refine ⟨checkWitness_sound hw, ?_⟩
    split at hr
    · exact Or.inl (isOwner_sound hr)
    · rename_i a hm hrec
      simp only [Bool.or_eq_true, Bool.and_eq_true, beq_iff_eq] at hr
      rcases hr with ⟨_, he⟩ | ho
      · refine Or.inr ⟨?_, by rw [hrec, he]⟩
        intro hc; exact hm hc
      · exact Or.inl (isOwner_sound ho)
    · exact Or.inl (isOwner_sound hr)
    · exact Or.inl (isOwner_sound hr)
    · simp at hr
  | controller p =>
    simp only [authOk, verifyControllerSignature] at h
    unfold Authorized
    split at h
    · simp at h
    · rename_i cid hc; exact ⟨_, hc, vsc_sound h⟩
    · rename_i g hc; exact ⟨_, hc, vgc_sound h⟩
  | recovery p =>
    simp only [authOk] at h
    unfold Authorized
    split at h
    · rename_i g ss hr hs; exact ⟨g, ss, hr, hs, vgs_sound h⟩
    · simp at h
  | oldRecovery addr =>
    simp only [authOk] at h
    unfold Authorized
    split at h
    · rename_i a hr
      simp only [Bool.and_eq_true, beq_iff_eq] at h
      exact ⟨by rw [hr, h.1], checkWitness_sound h.2⟩
    · simp at h
  | regPk pk =>
    simp only [authOk, Bool.and_eq_true, List.contains_iff_mem] at h
    exact h
  | regCtrl c p =>
    simp only [authOk] at h
    unfold Authorized
    split at h
    · rename_i cid
      simp only [Bool.and_eq_true] at h
      exact ⟨_, rfl, vsc_sound h.2⟩
    · rename_i g
      simp only [Bool.and_eq_true] at h
      exact ⟨_, rfl, vgc_sound h.2⟩
    · simp at h
  | deny => simp [authOk] at h

/-- methods that demand a registration authorization are registrations (so they need an *unregistered* identity) -/
theorem plan_reg (env : Env) (op : Op) :
    (∀ pk, (plan env op).auth = .regPk pk → (plan env op).reg = true) ∧
    (∀ c p, (plan env op).auth = .regCtrl c p → (plan env op).reg = true) := by
  cases op <;> simp [plan]

/-! ### traces -/

theorem trace_step {env : Env} : ∀ (hist : History) (w : World) (e : Event), e ∈ trace env w hist →
    step env e.tx e.pre e.op = (e.post, e.res)
  | [], _, _, h => by simp [trace] at h
  | (tx, op) :: r, w, e, h => by
    simp only [trace, List.mem_cons] at h
    rcases h with h | h
    · subst h; rfl
    · exact trace_step r _ e h

/-- a revoked identity stays exactly as it is along every history, and every invocation aimed at it fails -/
theorem run_revoked {env : Env} (id : Bytes) : ∀ (hist : History) (w : World), (w id).status = .revoked →
    run env w hist id = w id ∧
    ∀ e ∈ trace env w hist, e.pre id = w id ∧ e.post id = w id ∧ (e.op.target env = id → e.res = .fail)
  | [], w, _ => by simp [run, trace]
  | (tx, op) :: r, w, h => by
    have hs : (step env tx w op).1 id = w id ∧ ((plan env op).id = id → (step env tx w op).2 = .fail) := by
      by_cases ht : (plan env op).id = id
      · have := step_revoked (env := env) (tx := tx) (op := op) (w := w) (by rw [ht]; exact h)
        rw [this]; exact ⟨rfl, fun _ => rfl⟩
      · exact ⟨step_frame env tx w op id (fun hc => ht hc.symm), fun hc => absurd hc ht⟩
    have h' : ((step env tx w op).1 id).status = .revoked := by rw [hs.1]; exact h
    obtain ⟨ih1, ih2⟩ := run_revoked id r (step env tx w op).1 h'
    refine ⟨by simp only [run]; rw [ih1, hs.1], ?_⟩
    intro e he
    simp only [trace, List.mem_cons] at he
    rcases he with he | he
    · subst he
      exact ⟨rfl, hs.1, hs.2⟩
    · obtain ⟨a, b, c⟩ := ih2 e he
      exact ⟨by rw [a, hs.1], by rw [b, hs.1], c⟩

/-! ### thresholds -/

theorem countSigned_eq (ids : List Bytes) (ms : List Grp) :
    countSigned ids ms = (ms.filter (verifyThreshold ids)).length := by
  induction ms with
  | nil => simp [countSigned]
  | cons m r ih =>
    simp only [countSigned, List.filter_cons]
    split <;> simp_all <;> omega

mutual
theorem strict_needs (ids : List Bytes) : (g : Grp) → g.strict = true → verifyThreshold ids g = true →
    ∃ i, i ∈ ids ∧ i ∈ g.leaves
  | .id i, _, h => by
    simp only [verifyThreshold, List.contains_iff_mem] at h
    exact ⟨i, h, by simp [Grp.leaves]⟩
  | .sub ms thr, hs, h => by
    simp only [Grp.strict, Bool.and_eq_true, decide_eq_true_eq] at hs
    simp only [verifyThreshold, decide_eq_true_eq] at h
    have := strictList_needs ids ms hs.2 (by omega)
    simpa [Grp.leaves] using this
theorem strictList_needs (ids : List Bytes) : (ms : List Grp) → Grp.strictList ms = true → 1 ≤ countSigned ids ms →
    ∃ i, i ∈ ids ∧ i ∈ Grp.leavesList ms
  | [], _, h => by simp [countSigned] at h
  | m :: r, hs, h => by
    simp only [Grp.strictList, Bool.and_eq_true] at hs
    simp only [countSigned] at h
    by_cases hm : verifyThreshold ids m = true
    · obtain ⟨i, h1, h2⟩ := strict_needs ids m hs.1 hm
      exact ⟨i, h1, by simp [Grp.leavesList, h2]⟩
    · simp only [hm, Bool.false_eq_true, if_false, Nat.zero_add] at h
      obtain ⟨i, h1, h2⟩ := strictList_needs ids r hs.2 h
      exact ⟨i, h1, by simp [Grp.leavesList, h2]⟩
end

/-! ### a revoked key stays revoked -/

theorem insertPk_prefix {tx : Tx} {id : Bytes} {keys ks : List Key} {pk c : Bytes} {a b : Bool}
    (h : insertPk tx id keys pk c a b = some ks) {j : Nat} {k : Key} (hk : keys[j]? = some k) : ks[j]? = some k := by
  unfold insertPk at h
  have hj : j < keys.length := by
    cases hlt : decide (j < keys.length) with
    | true => exact of_decide_eq_true hlt
    | false =>
      have : keys.length ≤ j := by have := of_decide_eq_false hlt; omega
      rw [List.getElem?_eq_none this] at hk; cases hk
  split at h
  · cases h
  · split at h <;> (cases h; rw [List.getElem?_append_left hj]; exact hk)

theorem revokeLoop_keeps {pub : Bytes} : ∀ {keys ks : List Key} {f : Bool}, revokeLoop pub keys = some (ks, f) →
    ∀ {j : Nat} {k : Key}, keys[j]? = some k → k.revoked = true → ks[j]? = some k
  | [], _, _, _, j, k, hk, _ => by simp at hk
  | k0 :: r, ks, f, h, j, k, hk, hr => by
    unfold revokeLoop at h
    split at h
    · split at h
      · cases h
      · rename_i hnr
        split at h
        · cases h
        · rename_i r' f' hl
          cases h
          cases j with
          | zero => simp at hk; subst hk; simp [hr] at hnr
          | succ j => simp at hk ⊢; exact revokeLoop_keeps hl hk hr
    · split at h
      · cases h
      · rename_i r' f' hl
        cases h
        cases j with
        | zero => simpa using hk
        | succ j => simp at hk ⊢; exact revokeLoop_keeps hl hk hr

theorem set_keeps {keys : List Key} {i : Nat} {k0 k1 : Key} (h0 : keys[i]? = some k0) (hn : k0.revoked = false)
    {j : Nat} {k : Key} (hk : keys[j]? = some k) (hr : k.revoked = true) : (keys.set i k1)[j]? = some k := by
  by_cases hij : i = j
  · subst hij; rw [h0] at hk; cases hk; rw [hn] at hr; cases hr
  · rw [List.getElem?_set_ne hij]; exact hk

/-- an effect either keeps every revoked key entry in place or deletes the identity -/
theorem applyEff_keeps {env : Env} {tx : Tx} {w : World} {id : Bytes} {e : Eff} {x : Ident}
    (h : applyEff env tx w id e = .ok x) {j : Nat} {k : Key} (hk : (w id).keys[j]? = some k) (hr : k.revoked = true) :
    x.keys[j]? = some k ∨ (x.status = .revoked ∧ x.keys = []) := by
  cases e with
  | nop => simp only [applyEff] at h; cases h; exact Or.inl hk
  | regKey pk a attrs =>
    simp only [applyEff] at h
    split at h
    · cases h
    · rename_i ks hi
      split at h
      · cases h
      · cases h; exact Or.inl (insertPk_prefix hi hk)
  | regCtrl c =>
    simp only [applyEff] at h
    split at h
    · cases h
    · cases h; exact Or.inl hk
  | insertKey pk kc a b =>
    simp only [applyEff] at h
    split at h
    · cases h
    · rename_i ks hi; cases h; exact Or.inl (insertPk_prefix hi hk)
  | revokeKey pk =>
    simp only [applyEff] at h
    split at h
    · cases h
    · rename_i ks hi
      cases h
      unfold revokePk at hi
      split at hi
      · rename_i ks' hl; cases hi; exact Or.inl (revokeLoop_keeps hl hk hr)
      · cases hi
  | revokeKeyIdx i =>
    simp only [applyEff] at h
    split at h
    · cases h
    · rename_i ks hi
      cases h
      unfold revokePkByIndex at hi
      split at hi
      · cases hi
      · split at hi
        · cases hi
        · rename_i k0 h0
          split at hi
          · cases hi
          · rename_i hn
            cases hi
            exact Or.inl (set_keeps h0 (by simpa using hn) hk hr)
  | setAuth i b =>
    simp only [applyEff] at h
    split at h
    · cases h
    · rename_i ks hi
      cases h
      unfold changePkAuth at hi
      split at hi
      · cases hi
      · split at hi
        · cases hi
        · rename_i k0 h0
          split at hi
          · cases hi
          · rename_i hn
            cases hi
            exact Or.inl (set_keeps h0 (by simpa using hn) hk hr)
  | insertAttrs l =>
    simp only [applyEff] at h
    split at h
    · cases h
    · cases h; exact Or.inl hk
  | deleteAttr p =>
    simp only [applyEff] at h
    split at h
    · cases h
    · split at h
      · cases h; exact Or.inl hk
      · cases h
  | clearCtrl => simp only [applyEff] at h; cases h; exact Or.inl hk
  | clearRec => simp only [applyEff] at h; cases h; exact Or.inl hk
  | setRecGrp g gs =>
    simp only [applyEff] at h
    split at h
    · cases h
    · split at h
      · cases h
      · split at h
        · cases h; exact Or.inl hk
        · cases h
  | setRecOld a gs =>
    simp only [applyEff] at h
    split at h
    · cases h
    · cases h; exact Or.inl hk
  | deleteID => simp only [applyEff] at h; cases h; exact Or.inr ⟨rfl, rfl⟩
  | addSvc s p =>
    simp only [applyEff] at h
    split at h
    · cases h
    · cases h; exact Or.inl hk
  | updSvc s p =>
    simp only [applyEff] at h
    split at h
    · cases h
    · cases h; exact Or.inl hk
  | rmSvc s =>
    simp only [applyEff] at h
    split at h
    · cases h
    · cases h; exact Or.inl hk
  | addCtx l => simp only [applyEff] at h; cases h; exact Or.inl hk
  | rmCtx l => simp only [applyEff] at h; cases h; exact Or.inl hk


/-- one invocation keeps a revoked key entry where it is, or deletes the identity -/
theorem step_keeps {env : Env} {tx : Tx} {w : World} {op : Op} {id : Bytes} {j : Nat} {k : Key}
    (hk : (w id).keys[j]? = some k) (hr : k.revoked = true) :
    ((step env tx w op).1 id).keys[j]? = some k ∨
      (((step env tx w op).1 id).status = .revoked ∧ ((step env tx w op).1 id).keys = []) := by
  by_cases h : (step env tx w op).2 = .ok
  · have hp : step env tx w op = ((step env tx w op).1, .ok) := by rw [← h]
    obtain ⟨x, hx, hw⟩ := (step_ok hp).eff
    by_cases ht : id = (plan env op).id
    · rw [hw]
      subst ht
      simp only [World.set, if_true]
      exact applyEff_keeps hx hk hr
    · rw [step_frame env tx w op id ht]; exact Or.inl hk
  · rw [step_not_ok h]; exact Or.inl hk

/-- along every history a revoked key entry stays where it is until the identity itself is revoked (and emptied) -/
theorem run_keeps {env : Env} {id : Bytes} {j : Nat} {k : Key} (hr : k.revoked = true) :
    ∀ (hist : History) (w : World),
      ((w id).keys[j]? = some k ∨ ((w id).status = .revoked ∧ (w id).keys = [])) →
      ((run env w hist id).keys[j]? = some k ∨ ((run env w hist id).status = .revoked ∧ (run env w hist id).keys = []))
  | [], _, h => h
  | (tx, op) :: r, w, h => by
    simp only [run]
    apply run_keeps hr r
    rcases h with h | h
    · exact step_keeps h hr
    · have := (run_revoked (env := env) id [(tx, op)] w h.1).1
      simp only [run] at this
      rw [this]; exact Or.inr h

/-! ### where controller and recovery records come from -/

/-- which effects can write the controller record, and what they write -/
theorem applyEff_ctrl {env : Env} {tx : Tx} {w : World} {id : Bytes} {e : Eff} {x : Ident}
    (h : applyEff env tx w id e = .ok x) :
    x.ctrl = (w id).ctrl ∨ (∃ c, e = .regCtrl c ∧ x.ctrl = c.toCtrl) ∨ (x.ctrl = none ∧ (e = .clearCtrl ∨ e = .deleteID)) := by
  cases e <;> simp only [applyEff] at h
  all_goals (try (repeat' split at h))
  all_goals first
    | (cases h; done)
    | (cases h; simp [deleted, *])

/-- which effects can write the recovery record, and what they write -/
theorem applyEff_recov {env : Env} {tx : Tx} {w : World} {id : Bytes} {e : Eff} {x : Ident}
    (h : applyEff env tx w id e = .ok x) :
    x.recov = (w id).recov ∨ (∃ g b, e = .setRecGrp (some g) b ∧ x.recov = .grp g) ∨
    (∃ a b, e = .setRecOld a b ∧ x.recov = .old a) ∨ (x.recov = .none ∧ (e = .clearRec ∨ e = .deleteID)) := by
  cases e <;> simp only [applyEff] at h
  all_goals (try (repeat' split at h))
  all_goals first
    | (cases h; done)
    | (cases h; simp [deleted, *])


theorem plan_eff_regCtrl {env : Env} {op : Op} {c : CtrlArg} (h : (plan env op).eff = .regCtrl c) :
    ∃ p, op = .regIDWithController (plan env op).id c p ∧ (plan env op).auth = .regCtrl c p := by
  cases op <;> simp [plan] at h ⊢
  exact h

theorem plan_eff_setRecGrp {env : Env} {op : Op} {g : Option Grp} {b : Bool} (h : (plan env op).eff = .setRecGrp g b) :
    (∃ idx, op = .setRecovery (plan env op).id g idx ∧ (plan env op).auth = .keyIdx idx) ∨
    (∃ p, op = .updateRecovery (plan env op).id g p ∧ (plan env op).auth = .recovery p) := by
  cases op <;> simp [plan] at h ⊢
  all_goals exact h.1



end OntVerif.Proofs.OntId
