import OntVerif.Proofs.P2PMsg
/-! Allocation accounting for C24 (`PayC`): along every run of a decoder — successful or failing — the ghost counter
`St.allocs` (one unit per appended element / per element of a `make`) is paid for by consumed payload bytes. Core-only. -/
namespace OntVerif.Proofs.P2PMsg
open OntVerif.Util OntVerif.Model.Codec OntVerif.Proofs.Codec OntVerif.Model.P2PMsg

/-- along a run from `s` to `s'`: `k` bytes consumed per allocation unit, plus `c` more -/
def Paid (k c : Nat) (s s' : St) : Prop :=
  Adv s.src s'.src ∧ s.allocs ≤ s'.allocs ∧ k * (s'.allocs - s.allocs) + c ≤ s'.src.off - s.src.off

/-- every run of `d` (on a buffer shorter than 2^63) pays `k` consumed bytes per allocation unit — also when it ends in an
error — and a successful run returning `a` consumes `c a` bytes on top -/
structure PayC (k : Nat) (c : α → Nat) (d : Dec α) : Prop where
  run : ∀ s : St, s.src.wf → s.src.bs.length < 2 ^ 63 →
    match d s with
    | .panic => True
    | .err _ s' => Paid k 0 s s'
    | .ok (a, s') => Paid k (c a) s s'

abbrev Pay (k : Nat) (d : Dec α) : Prop := PayC k (fun _ => 0) d

theorem Paid.refl (k : Nat) (s : St) (w : s.src.wf) : Paid k 0 s s := ⟨Adv.refl w, Nat.le_refl _, by simp⟩

theorem Paid.trans {k c1 c2 : Nat} {s s1 s2 : St} (h1 : Paid k c1 s s1) (h2 : Paid k c2 s1 s2) : Paid k (c1 + c2) s s2 := by
  obtain ⟨a1, m1, p1⟩ := h1
  obtain ⟨a2, m2, p2⟩ := h2
  refine ⟨a1.trans a2, Nat.le_trans m1 m2, ?_⟩
  have o1 := a1.2.1
  have o2 := a2.2.1
  have e : s2.allocs - s.allocs = (s1.allocs - s.allocs) + (s2.allocs - s1.allocs) := by omega
  rw [e, Nat.mul_add]
  omega

theorem Paid.weaken {k c c' : Nat} {s s' : St} (h : Paid k c s s') (hc : c' ≤ c) : Paid k c' s s' :=
  ⟨h.1, h.2.1, by have := h.2.2; omega⟩

theorem PayC.mono {k} {c c' : α → Nat} {d : Dec α} (h : PayC k c d) (hc : ∀ a, c' a ≤ c a) : PayC k c' d := by
  refine ⟨fun s w h63 => ?_⟩
  have := h.run s w h63
  cases hd : d s with
  | panic => trivial
  | err e s' => rw [hd] at this; exact this
  | ok r => obtain ⟨a, s'⟩ := r; rw [hd] at this; exact this.weaken (hc a)

theorem PayC.pure {k} (a : α) : PayC k (fun _ => 0) (Pure.pure a : Dec α) := by
  refine ⟨fun s w _ => ?_⟩
  show Paid k 0 s s
  exact Paid.refl k s w

theorem PayC.fail {k} {c : α → Nat} (e : DErr) : PayC k c (Model.P2PMsg.fail e : Dec α) := by
  refine ⟨fun s w _ => ?_⟩
  show Paid k 0 s s
  exact Paid.refl k s w

/-- to show that `d >>= f` consumes `c b`: `d` consumes `c1 a`, and `f a` the rest -/
theorem PayC.bind {k} {d : Dec α} {f : α → Dec β} {c1 : α → Nat} {c : β → Nat}
    (hd : PayC k c1 d) (hf : ∀ a, PayC k (fun b => c b - c1 a) (f a)) : PayC k c (d >>= f) := by
  refine ⟨fun s w h63 => ?_⟩
  show match Dec.bind d f s with | .panic => True | .err _ s' => Paid k 0 s s' | .ok (a, s') => Paid k (c a) s s'
  unfold Dec.bind
  have h1 := hd.run s w h63
  cases hds : d s with
  | panic => trivial
  | err e s' => rw [hds] at h1; exact h1
  | ok r =>
    obtain ⟨a, s1⟩ := r
    rw [hds] at h1
    simp only
    have h2 := (hf a).run s1 (h1.1.wf w) (by rw [h1.1.1]; exact h63)
    cases hfs : f a s1 with
    | panic => trivial
    | err e s2 =>
      rw [hfs] at h2
      exact (h1.trans h2).weaken (Nat.zero_le _)
    | ok r2 =>
      obtain ⟨b, s2⟩ := r2
      rw [hfs] at h2
      exact (h1.trans h2).weaken (by omega)

theorem Pay.bind {k} {d : Dec α} {f : α → Dec β} (hd : Pay k d) (hf : ∀ a, Pay k (f a)) : Pay k (d >>= f) :=
  PayC.bind (c1 := fun _ => 0) hd (fun a => (hf a).mono (fun _ => by simp))

theorem PayC.ite {k} {c : α → Nat} {p : Prop} [Decidable p] {a b : Dec α} (ha : p → PayC k c a) (hb : ¬ p → PayC k c b) :
    PayC k c (if p then a else b) := by
  split
  · exact ha ‹_›
  · exact hb ‹_›

/-- one allocation unit right after a step that consumed at least `k` bytes -/
theorem PayC.bind_tick {k} {d : Dec α} {g : α → Dec β} {c : β → Nat}
    (hd : PayC k (fun _ => k) d) (hg : ∀ a, PayC k c (g a)) :
    PayC k c (d >>= fun a => allocEv 1 >>= fun _ => g a) := by
  refine ⟨fun s w h63 => ?_⟩
  show match Dec.bind d _ s with | .panic => True | .err _ s' => Paid k 0 s s' | .ok (a, s') => Paid k (c a) s s'
  unfold Dec.bind
  have h1 := hd.run s w h63
  cases hds : d s with
  | panic => trivial
  | err e s' => rw [hds] at h1; exact h1
  | ok r =>
    obtain ⟨a, s1⟩ := r
    rw [hds] at h1
    simp only
    show match Dec.bind (allocEv 1) _ s1 with | .panic => True | .err _ s' => Paid k 0 s s' | .ok (a, s') => Paid k (c a) s s'
    unfold Dec.bind allocEv
    simp only
    -- the state after the tick
    have hs1 : Paid k 0 s { s1 with allocs := s1.allocs + 1 } := by
      obtain ⟨a1, m1, p1⟩ := h1
      have p1 : k * (s1.allocs - s.allocs) + k ≤ s1.src.off - s.src.off := p1
      refine ⟨a1, by simp only; omega, ?_⟩
      simp only
      have e : s1.allocs + 1 - s.allocs = (s1.allocs - s.allocs) + 1 := by omega
      rw [e, Nat.mul_add]
      omega
    have h2 := (hg a).run { s1 with allocs := s1.allocs + 1 } (h1.1.wf w) (by show s1.src.bs.length < _; rw [h1.1.1]; exact h63)
    cases hgs : g a { s1 with allocs := s1.allocs + 1 } with
    | panic => trivial
    | err e s2 => rw [hgs] at h2; exact (hs1.trans h2)
    | ok r2 =>
      obtain ⟨b, s2⟩ := r2
      rw [hgs] at h2
      exact (hs1.trans h2).weaken (by omega)

theorem pay_repeatD {k} {body : Dec α} (hb : PayC k (fun _ => k) body) (n : Nat) : Pay k (repeatD n body) := by
  induction n with
  | zero => exact PayC.pure _
  | succ n ih =>
    unfold repeatD
    apply PayC.bind_tick hb
    intro x
    exact Pay.bind ih (fun xs => PayC.pure _)

/-! ### primitives -/

theorem payC_liftO {k} {c : α → Nat} {f : Src → Option (α × Src)}
    (h : ∀ s : Src, s.wf → ∃ a s', f s = some (a, s') ∧ Adv s s' ∧ c a ≤ s'.off - s.off) : PayC k c (liftO f) := by
  refine ⟨fun s w _ => ?_⟩
  obtain ⟨a, s', hf, adv, hc⟩ := h s.src w
  show match liftO f s with | .panic => True | .err _ s' => Paid k 0 s s' | .ok (a, s') => Paid k (c a) s s'
  unfold liftO
  rw [hf]
  exact ⟨adv, Nat.le_refl _, by simp; exact hc⟩

theorem payC_liftT {k} {c : α → Nat} {f : Src → α × Src}
    (h : ∀ s : Src, s.wf → Adv s (f s).2 ∧ c (f s).1 ≤ (f s).2.off - s.off) : PayC k c (liftT f) := by
  refine ⟨fun s w _ => ?_⟩
  obtain ⟨adv, hc⟩ := h s.src w
  exact ⟨adv, Nat.le_refl _, by simp; exact hc⟩

theorem payC_nBytes {k} (n : Nat) (hn : n < two64) : PayC k (fun r => if r.2 then 0 else n) (nBytes n) := by
  apply payC_liftO
  intro s w
  obtain ⟨d, e, s', h, adv, hd⟩ := nextBytes_total s n w hn
  refine ⟨_, _, h, adv, ?_⟩
  cases e with
  | true => simp
  | false => simp only [Bool.false_eq_true, if_false]; have := (hd rfl).2.1; omega

theorem payC_nUint {k} (j : Nat) (hj : j < two64) : PayC k (fun r => if r.2 then 0 else j) (nUint j) := by
  apply payC_liftO
  intro s w
  obtain ⟨d, e, s', h, adv, hd⟩ := nextBytes_total s j w hj
  unfold nextUintN
  rw [h]
  cases e with
  | true => exact ⟨_, _, rfl, adv, by simp⟩
  | false => exact ⟨_, _, rfl, adv, by simp only [Bool.false_eq_true, if_false]; have := (hd rfl).2.1; omega⟩

theorem payC_nFixed {k} (j : Nat) (hj : j < two64) : PayC k (fun r => if r.2 then 0 else j) (nFixed j) := by
  apply payC_liftO
  intro s w
  obtain ⟨d, e, s', h, adv, hd⟩ := nextBytes_total s j w hj
  unfold nextFixed
  rw [h]
  cases e with
  | true => exact ⟨_, _, rfl, adv, by simp⟩
  | false => exact ⟨_, _, rfl, adv, by simp only [Bool.false_eq_true, if_false]; have := (hd rfl).2.1; omega⟩

theorem payC_uN {k} (j : Nat) (hj : j < two64) : PayC k (fun _ => j) (uN j) := by
  unfold uN
  apply PayC.bind (payC_nUint j hj)
  intro r
  apply PayC.ite
  · intro _; exact PayC.fail _
  · intro he
    have : r.2 = false := by simpa using he
    simp only [this, Bool.false_eq_true, if_false, Nat.sub_self]
    exact PayC.pure _

theorem payC_fixed {k} (j : Nat) (hj : j < two64) : PayC k (fun _ => j) (fixed j) := by
  unfold fixed
  apply PayC.bind (payC_nFixed j hj)
  intro r
  apply PayC.ite
  · intro _; exact PayC.fail _
  · intro he
    have : r.2 = false := by simpa using he
    simp only [this, Bool.false_eq_true, if_false, Nat.sub_self]
    exact PayC.pure _

theorem pay_nByte {k} : Pay k nByte := by
  apply payC_liftT
  intro s w
  exact ⟨nextByte_adv s w, Nat.zero_le _⟩

theorem pay_nBool {k} : Pay k nBool := by
  apply payC_liftT
  intro s w
  exact ⟨nextBool_adv s w, Nat.zero_le _⟩

theorem pay_u8 {k} : Pay k u8 := by
  unfold u8
  apply Pay.bind pay_nByte
  intro r
  exact PayC.ite (fun _ => PayC.fail _) (fun _ => PayC.pure _)

theorem pay_note {k} (b : Bool) : Pay k (note b) := by
  refine ⟨fun s w _ => ?_⟩
  exact ⟨Adv.refl w, Nat.le_refl _, by simp⟩

theorem pay_remaining {k} : Pay k remaining := by
  refine ⟨fun s w _ => ?_⟩
  exact Paid.refl k s w

theorem pay_peekRest {k} : Pay k peekRest := by
  refine ⟨fun s w _ => ?_⟩
  exact Paid.refl k s w

theorem pay_sliceTo {k} (l : List α) (n : Nat) : Pay k (sliceTo l n) := by
  refine ⟨fun s w _ => ?_⟩
  by_cases h : n ≤ l.length
  · simp only [sliceTo, h, if_true]
    exact Paid.refl k s w
  · simp only [sliceTo, h, if_false]

/-- a var-bytes read that does not report eof consumed at least its length prefix -/
theorem nextVarBytes_consumes (s : Src) (w : s.wf) (r : Bytes × Nat × Bool × Bool) (s' : Src)
    (h : nextVarBytes s = some (r, s')) (he : r.2.2.2 = false) : s.off + 1 ≤ s'.off := by
  obtain ⟨v, s1, hv, adv, hval⟩ := nextVarUint_total s w
  unfold nextVarBytes at h
  rw [hv] at h
  simp only at h
  have hsz : ∀ (hre : v.eof = false), s.off + 1 ≤ s1.off := by
    intro hre
    have hoff := nextVarUint_off s w v s1 hv hre
    obtain ⟨pre, fb, tail, hs, hcase⟩ := nextVarUint_shape s w v s1 hv hre
    rcases hcase with ⟨_, hr⟩ | ⟨_, d, rest, _, _, hr⟩ <;> (rw [hr] at hoff; simp only at hoff; omega)
  split at h
  · rename_i hpos
    obtain ⟨d, e, s2, hb, adv2, _⟩ := nextBytes_total s1 v.val (adv.wf w) hval
    rw [hb] at h
    injection h with h; injection h with h1 h2
    subst h2
    have hre : v.eof = false := by
      cases hr : v.eof with
      | false => rfl
      | true =>
        exfalso
        unfold nextVarUint at hv
        generalize nextByte s = nb at hv
        obtain ⟨⟨fb, eof⟩, s0⟩ := nb
        simp only at hv
        split at hv
        · injection hv with hv; injection hv with hv _; subst hv; simp at hpos
        · split at hv
          · injection hv with hv; injection hv with hv _; subst hv; simp at hr
          · split at hv
            · cases hv
            · split at hv
              · injection hv with hv; injection hv with hv _; subst hv; simp at hpos
              · injection hv with hv; injection hv with hv _; subst hv; simp at hr
    have := hsz hre
    have := adv2.2.1
    omega
  · injection h with h; injection h with h1 h2
    subst h2
    rw [← h1] at he
    exact hsz he

theorem payC_nVarBytes {k} : PayC k (fun r => if r.2.2.2 then 0 else 1) nVarBytes := by
  apply payC_liftO
  intro s w
  obtain ⟨r, s', h, adv⟩ := nextVarBytes_total s w
  refine ⟨r, s', h, adv, ?_⟩
  cases he : r.2.2.2 with
  | true => simp
  | false =>
    simp only [Bool.false_eq_true, if_false]
    have := nextVarBytes_consumes s w r s' h he
    omega

theorem payC_readVarBytes {k} : PayC k (fun _ => 1) readVarBytes := by
  unfold readVarBytes
  apply PayC.bind payC_nVarBytes
  intro r
  apply PayC.ite
  · intro _; exact PayC.fail _
  · intro _
    apply PayC.ite
    · intro _; exact PayC.fail _
    · intro he
      have : r.2.2.2 = false := by simpa using he
      simp only [this, Bool.false_eq_true, if_false, Nat.sub_self]
      exact PayC.pure _

theorem payC_varBytesEofFirst {k} : PayC k (fun _ => 1) varBytesEofFirst := by
  unfold varBytesEofFirst
  apply PayC.bind payC_nVarBytes
  intro r
  apply PayC.ite
  · intro _; exact PayC.fail _
  · intro he
    have : r.2.2.2 = false := by simpa using he
    simp only [this, Bool.false_eq_true, if_false, Nat.sub_self]
    exact PayC.ite (fun _ => PayC.fail _) (fun _ => PayC.pure _)

theorem payC_varBytesLax {k} : PayC k (fun _ => 1) varBytesLax := by
  unfold varBytesLax
  apply PayC.bind payC_nVarBytes
  intro r
  apply PayC.ite
  · intro _; exact PayC.fail _
  · intro he
    have : r.2.2.2 = false := by simpa using he
    simp only [this, Bool.false_eq_true, if_false, Nat.sub_self]
    exact Pay.bind (pay_note _) (fun _ => PayC.pure _)


/-! ### decoders -/

theorem pay_uN {k} (j : Nat) (hj : j ≤ 64) : Pay k (uN j) := (payC_uN j (lt64 j hj)).mono (fun _ => Nat.zero_le _)
theorem pay_fixed {k} (j : Nat) (hj : j ≤ 64) : Pay k (fixed j) := (payC_fixed j (lt64 j hj)).mono (fun _ => Nat.zero_le _)
theorem pay_readVarBytes {k} : Pay k readVarBytes := payC_readVarBytes.mono (fun _ => Nat.zero_le _)
theorem pay_varBytesEofFirst {k} : Pay k varBytesEofFirst := payC_varBytesEofFirst.mono (fun _ => Nat.zero_le _)
theorem pay_varBytesLax {k} : Pay k varBytesLax := payC_varBytesLax.mono (fun _ => Nat.zero_le _)
theorem pay_nVarBytes {k} : Pay k nVarBytes := payC_nVarBytes.mono (fun _ => Nat.zero_le _)

/-- decoders without allocation events: sequences of reads, tests, ghost notes -/
macro "pay_seq" : tactic => `(tactic| repeat (first
  | exact PayC.pure _ | exact PayC.fail _ | exact pay_note _ | exact pay_remaining | exact pay_peekRest
  | exact pay_sliceTo _ _ | exact pay_u8 | exact pay_nBool | exact pay_nByte | exact pay_nVarBytes
  | exact pay_uN _ (by omega) | exact pay_fixed _ (by omega)
  | exact pay_readVarBytes | exact pay_varBytesEofFirst | exact pay_varBytesLax
  | apply Pay.bind | intro _ | apply PayC.ite | split))

theorem pay_decPing {k} : Pay k decPing := by unfold decPing; pay_seq
theorem pay_decPong {k} : Pay k decPong := by unfold decPong; pay_seq
theorem pay_decVerack {k} : Pay k decVerack := by unfold decVerack; pay_seq
theorem pay_decAddrReq {k} : Pay k decAddrReq := by unfold decAddrReq; pay_seq
theorem pay_decHeadersReq {k} : Pay k decHeadersReq := by unfold decHeadersReq; pay_seq
theorem pay_decBlocksReq {k} : Pay k decBlocksReq := by unfold decBlocksReq; pay_seq
theorem pay_decDataReq {k} : Pay k decDataReq := by unfold decDataReq; pay_seq
theorem pay_decNotFound {k} : Pay k decNotFound := by unfold decNotFound; pay_seq
theorem pay_decFindNode {k} : Pay k decFindNode := by unfold decFindNode; pay_seq
theorem pay_decVersion {k} : Pay k decVersion := by unfold decVersion; pay_seq
theorem pay_decMembersReq {k} (O : Oracle) : Pay k (decMembersReq O) := by unfold decMembersReq; pay_seq
theorem pay_decConsensus {k} (O : Oracle) : Pay k (decConsensus O) := by unfold decConsensus; pay_seq
theorem pay_decUpdateKadId {k} (O : Oracle) : Pay k (decUpdateKadId O) := by unfold decUpdateKadId; pay_seq

theorem pay_decUnknown {k} (cmd : Bytes) : Pay k (decUnknown cmd) := by
  refine ⟨fun s w _ => ?_⟩
  rw [decUnknown_eq cmd s w]
  exact ⟨⟨rfl, w.1, Nat.le_refl _⟩, Nat.le_refl _, by simp⟩

open Classical in
/-- `bind` where the continuation may use an unconditional fact `Q` about the value read -/
theorem PayC.bindQ {k} {d : Dec α} {f : α → Dec β} {Q : α → Prop} {c1 : α → Nat} {c : β → Nat}
    (hq : Spec false d (fun a _ => Q a)) (hd : PayC k c1 d) (hf : ∀ a, Q a → PayC k (fun b => c b - c1 a) (f a)) :
    PayC k c (d >>= f) := by
  refine ⟨fun s w h63 => ?_⟩
  have key : (d >>= f) s = (d >>= fun a' => if Q a' then f a' else Model.P2PMsg.fail .ueof) s := by
    show Dec.bind d f s = Dec.bind d _ s
    unfold Dec.bind
    cases hds : d s with
    | panic => rfl
    | err e s' => rfl
    | ok r =>
      obtain ⟨a, s1⟩ := r
      simp only
      rw [if_pos (Spec.val hq rfl w h63 hds).1]
  rw [key]
  exact (PayC.bind (c := c) hd (fun a' => by
    by_cases hqa : Q a'
    · rw [if_pos hqa]; exact hf a' hqa
    · rw [if_neg hqa]; exact PayC.fail _)).run s w h63

/-- an `Addr` entry: 8+8+(16)+2+2+8 — the 16 address bytes are read without an eof test, so 28 are certain -/
theorem payC_decPeerAddr {k} : PayC k (fun _ => 28) decPeerAddr := by
  unfold decPeerAddr
  apply PayC.bind (payC_uN 8 (lt64 8)); intro _
  apply PayC.bind (payC_uN 8 (lt64 8)); intro _
  apply PayC.bind ((payC_nBytes 16 (lt64 16)).mono (c' := fun _ => 0) (fun _ => Nat.zero_le _)); intro _
  apply PayC.bind (payC_uN 2 (lt64 2)); intro _
  apply PayC.bind (payC_uN 2 (lt64 2)); intro _
  apply PayC.bind (payC_uN 8 (lt64 8)); intro _
  exact PayC.pure _

theorem pay_decAddr : Pay 28 decAddr := by
  unfold decAddr
  apply Pay.bind (pay_uN 8 (by omega)); intro count
  apply Pay.bind pay_remaining; intro rem
  apply PayC.ite
  · intro _; exact PayC.fail _
  intro _
  apply Pay.bind (pay_repeatD payC_decPeerAddr _); intro l
  pay_seq

theorem pay_decInv : Pay 32 decInv := by
  unfold decInv
  apply Pay.bind pay_u8; intro ty
  apply Pay.bind (pay_uN 4 (by omega)); intro cnt
  apply Pay.bind (pay_repeatD (payC_fixed 32 (lt64 32)) _); intro hs
  pay_seq

theorem payC_decCloser {k} : PayC k (fun _ => 21) decCloser := by
  unfold decCloser
  apply PayC.bind (payC_fixed 20 (lt64 20)); intro _
  apply PayC.bind payC_varBytesLax; intro _
  exact PayC.pure _

theorem pay_decFindNodeResp : Pay 21 decFindNodeResp := by
  unfold decFindNodeResp
  apply Pay.bind (pay_fixed 20 (by omega)); intro id
  apply Pay.bind pay_nBool; intro r
  apply PayC.ite
  · intro _; exact PayC.fail _
  intro _
  apply Pay.bind (pay_note _); intro _
  apply Pay.bind pay_varBytesLax; intro addr
  apply Pay.bind (pay_uN 4 (by omega)); intro n
  apply Pay.bind (pay_repeatD payC_decCloser _); intro closer
  exact PayC.pure _

theorem payC_decMember {k} : PayC k (fun _ => 2) decMember := by
  unfold decMember
  apply PayC.bind payC_readVarBytes; intro _
  apply PayC.bind payC_readVarBytes; intro _
  exact PayC.pure _

theorem pay_decMembers : Pay 2 decMembers := by
  unfold decMembers
  apply Pay.bind (pay_uN 4 (by omega)); intro n
  apply Pay.bind (pay_repeatD payC_decMember _); intro l
  exact PayC.pure _

/-- one embedded header: at least `HDR_MIN` bytes, provided the abstract header decoder is well-behaved -/
theorem payC_decHeader {k} (O : Oracle) (hO : O.wf) : PayC k (fun _ => HDR_MIN) (decHeader O) := by
  unfold decHeader
  apply PayC.bindQ (Q := fun rest : Bytes => rest.length < 2 ^ 63) (c1 := fun _ => 0)
  · exact spec_peekRest.mono (fun _ _ h => h.2)
  · exact pay_peekRest
  intro rest hrest
  cases hh : O.hdr rest with
  | none => exact PayC.fail _
  | some r =>
    obtain ⟨n, re⟩ := r
    simp only
    apply PayC.ite
    · intro _; exact PayC.fail _
    intro hn
    have hmin := (hO rest n re hh).1
    apply PayC.bind (payC_nBytes n (by unfold two64; omega)); intro r
    apply PayC.ite
    · intro _; exact PayC.fail _
    intro he
    have : r.2 = false := by simpa using he
    simp only [this, Bool.false_eq_true, if_false, Nat.sub_zero, Nat.sub_eq_zero_of_le hmin]
    exact Pay.bind (pay_note _) (fun _ => PayC.pure _)

theorem pay_decHeaders (O : Oracle) (hO : O.wf) : Pay HDR_MIN (decHeaders O) := by
  unfold decHeaders
  apply Pay.bind (pay_uN 4 (by omega)); intro n
  apply Pay.bind (pay_repeatD (payC_decHeader O hO) _); intro l
  exact PayC.pure _

/-! ### all commands -/

/-- payload bytes consumed per appended list element, by command -/
def entryCost (cmd : Bytes) : Nat :=
  if cmd = cAddr then 28 else if cmd = cInv then 32 else if cmd = cFindNodeAck then 21
  else if cmd = cMembers then 2 else if cmd = cHeaders then HDR_MIN else 1

set_option linter.unusedSimpArgs false in
theorem pay_decodePayload (O : Oracle) (hO : O.wf) (cmd : Bytes) : Pay (entryCost cmd) (decodePayload O cmd) := by
  unfold decodePayload entryCost
  repeat' (apply PayC.ite <;> intro _)
  all_goals first
    | exact PayC.pure _
    | exact pay_decPing | exact pay_decPong | exact pay_decVersion | exact pay_decVerack | exact pay_decAddrReq
    | exact pay_decHeadersReq | exact pay_decDataReq | exact pay_decNotFound | exact pay_decBlocksReq | exact pay_decFindNode
    | exact pay_decMembersReq O | exact pay_decConsensus O | exact pay_decUpdateKadId O | exact pay_decUnknown _
    | (subst_vars; simp (config := {decide := true}) only [cAddr, cInv, cFindNodeAck, cMembers, cHeaders, if_true, if_false]; first
        | exact pay_decAddr | exact pay_decInv | exact pay_decFindNodeResp | exact pay_decMembers | exact pay_decHeaders O hO)

end OntVerif.Proofs.P2PMsg
