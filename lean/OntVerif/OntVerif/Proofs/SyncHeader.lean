import OntVerif.Model.SyncHeader
import OntVerif.Proofs.SigCheck
import Mathlib.Data.List.Nodup
import Mathlib.Data.List.Perm.Subperm
/-!
# Lemmas about `Model/SyncHeader.lean` (C32)

* `dedup` is duplicate-free with the same members;
* `verifyMultiR` accepts exactly when `SigCheck.verifyMulti` does, hence `SigCheck.vmsLoop_ok` applies: the verified
  signatures sit on pairwise distinct bookkeeper **indexes**;
* inversion of `checkQuorum` / `verifyHeader` / `addHeader`;
* counting: signatures on `k` distinct indexes of a bookkeeper list that names no id twice are signatures of `k`
  distinct members (`signers_ge`).
-/
namespace OntVerif.Proofs.SyncHeader
open OntVerif.Util OntVerif.Model.SigCheck OntVerif.Model.SyncHeader OntVerif.Proofs.SigCheck OntVerif.Gen.Quorum

section dedup
variable {α : Type} [DecidableEq α]

theorem mem_dedup {a : α} {l : List α} : a ∈ dedup l ↔ a ∈ l := by
  induction l with
  | nil => simp [dedup]
  | cons b r ih =>
    simp only [dedup]
    split
    · rename_i hb
      constructor
      · intro h; exact List.mem_cons_of_mem _ (ih.mp h)
      · intro h
        rcases List.mem_cons.mp h with rfl | h
        · exact ih.mpr hb
        · exact ih.mpr h
    · simp [ih]

theorem dedup_nodup (l : List α) : (dedup l).Nodup := by
  induction l with
  | nil => simp [dedup]
  | cons b r ih =>
    simp only [dedup]
    split
    · exact ih
    · rename_i hb
      exact List.nodup_cons.mpr ⟨fun h => hb (mem_dedup.mp h), ih⟩

theorem dedup_length_le (l : List α) : (dedup l).length ≤ l.length := by
  induction l with
  | nil => simp [dedup]
  | cons b r ih =>
    simp only [dedup]
    split
    · simp; omega
    · simp; omega

theorem dedup_of_nodup {l : List α} (h : l.Nodup) : dedup l = l := by
  induction l with
  | nil => rfl
  | cons b r ih =>
    have h' := List.nodup_cons.mp h
    simp [dedup, h'.1, ih h'.2]

/-- a list names no element twice iff removing duplicates keeps its length -/
theorem nodup_of_dedup_length {l : List α} (h : (dedup l).length = l.length) : l.Nodup := by
  induction l with
  | nil => exact List.nodup_nil
  | cons b r ih =>
    simp only [dedup] at h
    split at h
    · have := dedup_length_le r
      simp at h; omega
    · rename_i hb
      simp at h
      exact List.nodup_cons.mpr ⟨hb, ih h⟩

/-- pigeonhole: a duplicate-free list inside `l` is no longer than `dedup l` -/
theorem nodup_length_le_dedup {s l : List α} (hs : s.Nodup) (hsub : ∀ x ∈ s, x ∈ l) : s.length ≤ (dedup l).length := by
  have : s ⊆ dedup l := fun x hx => mem_dedup.mpr (hsub x hx)
  exact (hs.subperm this).length_le

end dedup

section
variable {Key Sig Id Hash : Type}

/-- the record `SigCheck`'s lemmas are stated over; only `parseSig` matters for `VerifyMultiSignature` -/
def libOf (parseSig : Bytes → Option Sig) : Lib Key Sig :=
  { parseKey := fun _ => none, serKey := fun _ => [], keyLt := fun _ _ => false, ethAddr := fun _ => none,
    parseSig := parseSig, h160 := fun _ => [] }

theorem vmsLoopR_ok (parseSig : Bytes → Option Sig) (vf : Key → Sig → VRes) (keys : List Key) (m : Nat)
    (sigs : List Bytes) (mask : List Bool) :
    vmsLoopR parseSig vf keys m sigs mask = .ok () ↔ vmsLoop (libOf parseSig) vf keys m sigs mask = .ok () := by
  induction m generalizing sigs mask with
  | zero => simp [vmsLoopR, vmsLoop]
  | succ m ih =>
    cases sigs with
    | nil => simp [vmsLoopR, vmsLoop]
    | cons raw rest =>
      simp only [vmsLoopR, vmsLoop, libOf]
      cases parseSig raw with
      | none => simp
      | some s =>
        simp only
        cases findIdx (fun k => vf k s) keys mask 0 with
        | found j => simpa [libOf] using ih rest (mask.set j true)
        | none => simp
        | panic => simp

/-- `VerifyMultiSignature` returned nil ⇒ `m ≤ len(sigs)` and the first `m` signatures verify at pairwise distinct indexes -/
theorem verifyMultiR_ok (parseSig : Bytes → Option Sig) (vf : Key → Sig → VRes) (keys : List Key) (m : Nat)
    (sigs : List Bytes) (h : verifyMultiR parseSig vf keys m sigs = .ok ()) :
    m ≤ sigs.length ∧ SetOK (libOf parseSig) vf keys m sigs := by
  unfold verifyMultiR at h
  split at h
  · simp at h
  · rename_i hl
    refine ⟨by omega, ?_⟩
    exact verifyMulti_ok (libOf parseSig) vf keys m sigs (by
      unfold verifyMulti
      simp only [hl, if_false]
      exact (vmsLoopR_ok parseSig vf keys m sigs _).mp h)

variable [DecidableEq Id]

/-- what `checkQuorum = ok` establishes, for either variant -/
structure QuorumFacts (v : Variant) (parseSig : Bytes → Option Sig) (vf : Key → Sig → VRes) (idOf : Key → Id) (c : Nat)
    (ids : List Id) (bk : List Key) (sigs : List Bytes) : Prop where
  enoughBk : ledgerStore_vbft_m (dedup ids).length ≤ bk.length
  members : ∀ k ∈ bk, idOf k ∈ ids
  listed : match v with
    | .asShipped => ledgerStore_vbft_members c % U32 ≤ (dedup (bk.map idOf)).length % U32
    | .sound => ledgerStore_vbft_members c ≤ (dedup (bk.map idOf)).length ∧ (bk.map idOf).Nodup
  enoughSigs : sigsNeeded v (dedup ids).length c ≤ sigs.length
  matched : SetOK (libOf parseSig) vf bk (sigsNeeded v (dedup ids).length c) sigs

theorem checkQuorum_ok (v : Variant) (parseSig : Bytes → Option Sig) (vf : Key → Sig → VRes) (idOf : Key → Id) (c : Nat)
    (ids : List Id) (bk : List Key) (sigs : List Bytes)
    (h : checkQuorum v parseSig vf idOf c ids bk sigs = .ok ()) : QuorumFacts v parseSig vf idOf c ids bk sigs := by
  have key : ∀ need, verifyMultiR parseSig vf bk need sigs = .ok () → allMembers idOf ids bk = true →
      (∀ k ∈ bk, idOf k ∈ ids) ∧ need ≤ sigs.length ∧ SetOK (libOf parseSig) vf bk need sigs := by
    intro need hv h2
    obtain ⟨g1, g2⟩ := verifyMultiR_ok parseSig vf bk need sigs hv
    refine ⟨?_, g1, g2⟩
    intro k hk
    have := List.all_eq_true.mp h2 k hk
    simpa using this
  by_cases h1 : bk.length < ledgerStore_vbft_m (dedup ids).length
  · simp [checkQuorum, h1] at h
  by_cases h2 : allMembers idOf ids bk = true
  swap
  · simp [checkQuorum, h1, h2] at h
  cases v with
  | asShipped =>
    by_cases h3 : (dedup (bk.map idOf)).length % U32 < ledgerStore_vbft_members c % U32
    · simp [checkQuorum, h1, h2, h3] at h
    simp only [checkQuorum, h1, h2, h3, if_false, not_true_eq_false, not_false_eq_true, decide_true,
      reduceCtorEq, false_and] at h
    obtain ⟨g0, g1, g2⟩ := key _ h h2
    exact ⟨by omega, g0, by simp only; omega, g1, g2⟩
  | sound =>
    by_cases h3 : ledgerStore_vbft_members c ≤ (dedup (bk.map idOf)).length
    swap
    · simp [checkQuorum, h1, h2, h3] at h
    by_cases h4 : (dedup (bk.map idOf)).length ≠ bk.length
    · simp [checkQuorum, h1, h2, h3, h4] at h
    simp only [checkQuorum, h1, h2, h3, h4, if_false, not_true_eq_false, decide_true, and_false] at h
    obtain ⟨g0, g1, g2⟩ := key _ h h2
    refine ⟨by omega, g0, ⟨h3, ?_⟩, g1, g2⟩
    apply nodup_of_dedup_length
    simpa using h4

/-- signatures verifying at `k` distinct indexes of a member-only bookkeeper list that names no id twice are valid
signatures of `k` distinct members -/
theorem signers_ge (parseSig : Bytes → Option Sig) (vf : Key → Sig → VRes) (idOf : Key → Id) (ids : List Id)
    (bk : List Key) (sigs : List Bytes) (k : Nat) (hm : ∀ x ∈ bk, idOf x ∈ ids) (hn : (bk.map idOf).Nodup)
    (hs : SetOK (libOf parseSig) vf bk k sigs) :
    k ≤ (validSigners parseSig vf idOf ids bk sigs).length := by
  obtain ⟨ks, hl, hnd, hall⟩ := hs.toKeys (List.Nodup.of_map idOf hn)
  -- every matched key is a listed member with a verifying signature
  have hmem : ∀ x ∈ ks, x ∈ bk ∧ sigs.any (sigOK parseSig vf x) = true := by
    have : ∀ (raws : List Bytes) (ks : List Key), (∀ r ∈ raws, r ∈ sigs) →
        All2 (fun raw k => k ∈ bk ∧ ∃ s, (libOf (Key := Key) parseSig).parseSig raw = some s ∧ vf k s = .ok) raws ks →
        ∀ x ∈ ks, x ∈ bk ∧ sigs.any (sigOK parseSig vf x) = true := by
      intro raws ks hsub h
      induction h with
      | nil => intro x hx; simp at hx
      | @cons raw k' raws' ks' h1 _ ih =>
        intro x hx
        rcases List.mem_cons.mp hx with rfl | hx
        · obtain ⟨hb, s, hp, hv⟩ := h1
          refine ⟨hb, List.any_eq_true.mpr ⟨raw, hsub raw (by simp), ?_⟩⟩
          simp only [libOf] at hp
          simp [sigOK, hp, hv]
        · exact ih (fun r hr => hsub r (by simp [hr])) x hx
    exact this _ ks (fun r hr => List.mem_of_mem_take hr) hall
  have hinj := List.inj_on_of_nodup_map hn
  have hnd' : (ks.map idOf).Nodup :=
    List.Nodup.map_on (fun x hx y hy e => hinj (hmem x hx).1 (hmem y hy).1 e) hnd
  have hsub : ∀ i ∈ ks.map idOf,
      i ∈ (bk.filter (fun k => decide (idOf k ∈ ids) && sigs.any (sigOK parseSig vf k))).map idOf := by
    intro i hi
    obtain ⟨x, hx, rfl⟩ := List.mem_map.mp hi
    refine List.mem_map.mpr ⟨x, List.mem_filter.mpr ⟨(hmem x hx).1, ?_⟩, rfl⟩
    simp [hm x (hmem x hx).1, (hmem x hx).2]
  have := nodup_length_le_dedup hnd' hsub
  simp only [List.length_map] at this
  unfold validSigners
  omega

variable [DecidableEq Hash]

/-- inversion of `verifyHeader` for a header above the genesis block -/
theorem verifyHeader_ok (v : Variant) (parseSig : Bytes → Option Sig) (vf : Key → Hash → Sig → VRes) (idOf : Key → Id)
    (st st' : Store Key Id Hash) (h : Hdr Key Id Hash) (hh : h.height ≠ 0)
    (hv : verifyHeader v parseSig vf idOf st h = .ok st') :
    ∃ prevHdr p ch c ids, byHash st h.prev = some prevHdr ∧ prevHdr.height + 1 = h.height ∧ prevHdr.ts < h.ts ∧
      h.payload = some p ∧ lookupCfg st prevHdr p = .ok (ch, c, ids) ∧
      checkQuorum v parseSig (fun k s => vf k h.hash s) idOf c ids h.bookkeepers h.sigData = .ok () ∧
      st' = (match p.newCfg with
        | some nc => { st with peerMap := (h.height, nc.peers) :: st.peerMap }
        | none => st) := by
  unfold verifyHeader at hv
  simp only [hh, if_false] at hv
  cases hb : byHash st h.prev with
  | none => rw [hb] at hv; simp at hv
  | some prevHdr =>
    rw [hb] at hv
    simp only at hv
    split at hv
    · simp at hv
    rename_i h1
    split at hv
    · simp at hv
    rename_i h2
    cases hp : h.payload with
    | none => rw [hp] at hv; simp at hv
    | some p =>
      rw [hp] at hv
      simp only at hv
      cases hl : lookupCfg st prevHdr p with
      | error e => rw [hl] at hv; simp at hv
      | ok r =>
        obtain ⟨ch, c, ids⟩ := r
        rw [hl] at hv
        simp only at hv
        cases hq : checkQuorum v parseSig (fun k s => vf k h.hash s) idOf c ids h.bookkeepers h.sigData with
        | error e => rw [hq] at hv; simp at hv
        | ok u =>
          rw [hq] at hv
          refine ⟨prevHdr, p, ch, c, ids, rfl, by omega, by omega, rfl, hl, hq, ?_⟩
          cases hn : p.newCfg with
          | none => rw [hn] at hv; simp at hv; exact hv.symm
          | some nc => rw [hn] at hv; simp at hv; exact hv.symm

theorem addHeader_ok (v : Variant) (parseSig : Bytes → Option Sig) (vf : Key → Hash → Sig → VRes) (idOf : Key → Id)
    (st st' : Store Key Id Hash) (h : Hdr Key Id Hash) (ha : addHeader v parseSig vf idOf st h = .ok st') :
    h.height = (st.hdrs.length - 1) + 1 ∧
    ∃ st1, verifyHeader v parseSig vf idOf st h = .ok st1 ∧
      st' = { st1 with hdrs := st1.hdrs ++ [h], known := st1.known ++ [h] } := by
  unfold addHeader at ha
  split at ha
  · simp at ha
  rename_i h1
  cases hv : verifyHeader v parseSig vf idOf st h with
  | error e => rw [hv] at ha; simp at ha
  | ok st1 =>
    rw [hv] at ha
    simp only [Except.ok.injEq] at ha
    exact ⟨by omega, st1, rfl, ha.symm⟩

/-- `verifyHeader` touches nothing but the peer map -/
theorem verifyHeader_frame (v : Variant) (parseSig : Bytes → Option Sig) (vf : Key → Hash → Sig → VRes) (idOf : Key → Id)
    (st st' : Store Key Id Hash) (h : Hdr Key Id Hash) (hv : verifyHeader v parseSig vf idOf st h = .ok st') :
    st'.hdrs = st.hdrs ∧ st'.known = st.known ∧ st'.blockHeight = st.blockHeight := by
  by_cases hh : h.height = 0
  · unfold verifyHeader at hv
    simp only [hh, if_true, Except.ok.injEq] at hv
    subst hv
    exact ⟨rfl, rfl, rfl⟩
  · obtain ⟨_, p, _, _, _, _, _, _, _, _, _, rfl⟩ := verifyHeader_ok v parseSig vf idOf st st' h hh hv
    cases p.newCfg <;> exact ⟨rfl, rfl, rfl⟩

/-- inversion of `addBlock` -/
theorem addBlock_cases (v : Variant) (parseSig : Bytes → Option Sig) (vf : Key → Hash → Sig → VRes) (idOf : Key → Id)
    (st st' : Store Key Id Hash) (h : Hdr Key Id Hash) (rootOK : Bool) (r : Option Rej)
    (ha : addBlock v parseSig vf idOf st h rootOK = (st', r)) :
    (h.height ≤ st.blockHeight ∧ st' = st ∧ r = none) ∨
    (st.blockHeight < h.height ∧ h.height ≠ st.blockHeight + 1 ∧ st' = st ∧ r = some .blockHeight) ∨
    (h.height = st.blockHeight + 1 ∧ st' = st ∧ r = some .blockPrev) ∨
    (h.height = st.blockHeight + 1 ∧ ∃ e, verifyHeader v parseSig vf idOf st h = .error e ∧ st' = st ∧ r = some e) ∨
    (h.height = st.blockHeight + 1 ∧ ∃ st1, verifyHeader v parseSig vf idOf st h = .ok st1 ∧
      ((rootOK = false ∧ r = some .blockRoot ∧
          st' = (match v with | .asShipped => { st with peerMap := st1.peerMap } | .sound => st)) ∨
       (rootOK = true ∧ r = none ∧
          st' = { st1 with hdrs := setIndex st1.hdrs h.height h, known := st1.known ++ [h], blockHeight := h.height }))) := by
  unfold addBlock at ha
  by_cases h1 : h.height ≤ st.blockHeight
  · rw [if_pos h1] at ha
    simp only [Prod.mk.injEq] at ha
    exact Or.inl ⟨h1, ha.1.symm, ha.2.symm⟩
  · rw [if_neg h1] at ha
    by_cases h2 : h.height ≠ st.blockHeight + 1
    · rw [if_pos h2] at ha
      simp only [Prod.mk.injEq] at ha
      exact Or.inr (Or.inl ⟨by omega, h2, ha.1.symm, ha.2.symm⟩)
    · have h2' : h.height = st.blockHeight + 1 := by omega
      rw [if_neg h2] at ha
      by_cases h3 : (st.hdrs[st.blockHeight]?).map (·.hash) ≠ some h.prev
      · rw [if_pos h3] at ha
        simp only [Prod.mk.injEq] at ha
        exact Or.inr (Or.inr (Or.inl ⟨h2', ha.1.symm, ha.2.symm⟩))
      rw [if_neg h3] at ha
      cases hv : verifyHeader v parseSig vf idOf st h with
      | error e =>
        rw [hv] at ha
        simp only [Prod.mk.injEq] at ha
        exact Or.inr (Or.inr (Or.inr (Or.inl ⟨h2', e, rfl, ha.1.symm, ha.2.symm⟩)))
      | ok st1 =>
        rw [hv] at ha
        simp only at ha
        refine Or.inr (Or.inr (Or.inr (Or.inr ⟨h2', st1, rfl, ?_⟩)))
        cases rootOK with
        | false =>
          left
          cases v <;> simp only [Bool.false_eq_true, not_false_eq_true, if_true, Prod.mk.injEq] at ha <;>
            exact ⟨rfl, ha.2.symm, ha.1.symm⟩
        | true =>
          right
          simp only [not_true_eq_false, if_false, Prod.mk.injEq] at ha
          exact ⟨rfl, ha.2.symm, ha.1.symm⟩

end
end OntVerif.Proofs.SyncHeader
