import OntVerif.Model.Sink
import OntVerif.Proofs.Codec
/-! Helper lemmas for C18 (sink with backing memory): every write stores its whole region, so the visible bytes follow the pure model. Core-only. -/
namespace OntVerif.Proofs.Sink
open OntVerif.Util OntVerif.Model.Codec OntVerif.Model.Sink OntVerif.Proofs.Codec

theorem alloc_spec (s : Sink) (w : s.wf) (n : Nat) :
    (alloc s n).1 = s.len ∧ (alloc s n).2.len = s.len + n ∧ (alloc s n).2.wf ∧
    (alloc s n).2.mem.take s.len = s.bytes := by
  unfold Sink.wf at w
  unfold alloc Sink.cap
  split
  · refine ⟨rfl, rfl, ?_, rfl⟩
    unfold Sink.wf; simp only; omega
  · refine ⟨rfl, rfl, ?_, ?_⟩
    · unfold Sink.wf; simp only [List.length_append, List.length_take, List.length_replicate]; omega
    · simp only [Sink.bytes]
      rw [List.take_append_of_le_length (by simp; omega)]
      simp [List.take_take]

/-- storing `d` at the old end of a sink whose length already covers the region (possibly more: `extra`) -/
theorem store_spec (s1 : Sink) (m : Nat) (d : Bytes) (extra : Nat) (hl : s1.len = m + d.length + extra) (w : s1.wf) :
    (store s1 m d).wf ∧ (store s1 m d).len = s1.len ∧ (store s1 m d).mem.take (m + d.length) = s1.mem.take m ++ d := by
  unfold Sink.wf at w
  unfold store Sink.wf
  simp only
  have hm : (s1.mem.take m).length = m := by simp; omega
  refine ⟨?_, ?_, ?_⟩
  · simp only [List.length_append, hm, List.length_drop]; omega
  · trivial
  · have : (s1.mem.take m ++ d).length = m + d.length := by simp [hm]
    rw [List.take_append_of_le_length (by omega), ← this, List.take_length]

theorem writeRaw_spec (s : Sink) (w : s.wf) (d : Bytes) :
    (writeRaw s d).wf ∧ (writeRaw s d).bytes = s.bytes ++ d := by
  unfold writeRaw
  obtain ⟨h1, h2, h3, h4⟩ := alloc_spec s w d.length
  generalize alloc s d.length = r at h1 h2 h3 h4
  obtain ⟨m, s1⟩ := r
  simp only at h1 h2 h3 h4 ⊢
  subst h1
  obtain ⟨g1, g2, g3⟩ := store_spec s1 s.len d 0 (by omega) h3
  refine ⟨g1, ?_⟩
  unfold Sink.bytes at *
  rw [g2, h2, g3, h4]

theorem writeVarUintS_spec (s : Sink) (w : s.wf) (v : Nat) :
    ∃ s', writeVarUintS s v = some s' ∧ s'.wf ∧ s'.bytes = s.bytes ++ writeVarUint v := by
  unfold writeVarUintS
  obtain ⟨h1, h2, h3, h4⟩ := alloc_spec s w 9
  generalize alloc s 9 = r at h1 h2 h3 h4
  obtain ⟨m, s1⟩ := r
  simp only at h1 h2 h3 h4 ⊢
  subst h1
  have hsz : (writeVarUint v).length ≤ 9 := by
    rw [writeVarUint_length]; unfold getVarUintSize; repeat' split
    all_goals omega
  obtain ⟨g1, g2, g3⟩ := store_spec s1 s.len (writeVarUint v) (9 - (writeVarUint v).length) (by omega) h3
  unfold backUp
  have : 9 - (writeVarUint v).length ≤ (store s1 s.len (writeVarUint v)).len := by omega
  simp only [this, if_true]
  refine ⟨_, rfl, ?_, ?_⟩
  · unfold Sink.wf at g1 ⊢; simp only; omega
  · unfold Sink.bytes at *
    simp only
    have : (store s1 s.len (writeVarUint v)).len - (9 - (writeVarUint v).length) = s.len + (writeVarUint v).length := by omega
    rw [this, g3, h4]

/-- one step: the visible bytes evolve as in the pure model, whatever the memory holds -/
theorem step_spec (s : Sink) (w : s.wf) (op : Op) :
    match stepMem s op, stepPure s.bytes op with
    | some s', some o => s'.wf ∧ s'.bytes = o
    | none, none => True
    | _, _ => False := by
  have hlen : s.bytes.length = s.len := by unfold Sink.bytes; unfold Sink.wf at w; simp; omega
  cases op with
  | u8 v => exact writeRaw_spec s w _
  | u16 v => exact writeRaw_spec s w _
  | u32 v => exact writeRaw_spec s w _
  | u64 v => exact writeRaw_spec s w _
  | bytes d => exact writeRaw_spec s w _
  | bool b =>
    simp only [stepMem, stepPure, Op.data, writeBoolS, writeBool]
    cases b
    · exact writeRaw_spec s w [0]
    · exact writeRaw_spec s w [1]
  | varuint v =>
    obtain ⟨s', h, w', hb⟩ := writeVarUintS_spec s w v
    simp only [stepMem, stepPure, Op.data, h]
    exact ⟨w', hb⟩
  | varbytes d =>
    obtain ⟨s', h, w', hb⟩ := writeVarUintS_spec s w d.length
    simp only [stepMem, stepPure, Op.data, h, Option.map_some]
    obtain ⟨w2, hb2⟩ := writeRaw_spec s' w' d
    refine ⟨w2, ?_⟩
    rw [hb2, hb]; simp [writeVarBytes]
  | backup n =>
    simp only [stepMem, stepPure, backUp, hlen]
    by_cases hn : n ≤ s.len
    · simp only [hn, if_true]
      refine ⟨?_, ?_⟩
      · unfold Sink.wf at w ⊢; simp only; omega
      · unfold Sink.bytes; simp only [List.take_take]
        congr 1; omega
    · simp only [hn, if_false]
  | reset =>
    simp only [stepMem, stepPure, reset]
    exact ⟨by unfold Sink.wf; simp, by simp [Sink.bytes]⟩

theorem run_spec (s : Sink) (w : s.wf) (ops : List Op) :
    (runMem s ops).map Sink.bytes = runPure s.bytes ops := by
  induction ops generalizing s with
  | nil => rfl
  | cons op r ih =>
    have h := step_spec s w op
    unfold runMem runPure
    cases hm : stepMem s op <;> cases hp : stepPure s.bytes op <;> simp only [hm, hp] at h
    · rfl
    · obtain ⟨w', hb⟩ := h
      rw [← hb]
      exact ih _ w'

end OntVerif.Proofs.Sink
