import OntVerif.Proofs.Recover
import OntVerif.Proofs.RecoverCycles
import OntVerif.Gen.Recover
import OntVerif.Gen.BatchAtomic
/-!
# C01 — the ledger recovers from a crash at any point of a block commit to a state identical to an uncrashed run

Model: `Model/Recover.lean` (commit protocol of `submitBlock`, crash states, `NewStateStore.init` + `recoverStore`).
The replay-loop bounds, the order of the three `CommitTo` calls, the stores committed by a recovery iteration and the
position of the eager hash-file append are **generated from `ledger_store.go` on every run** (`Gen/Recover.lean`):
`C01_recover` is the statement for the code as it is now. `C01_recover_of_bounds` is the same theorem for every loop
that replays exactly the blocks `stateHeight+1 … blockHeight`; `C01_asShipped_counterexample` is the kernel-checked
witness that the loop the pinned tree ships (`for i := stateHeight; i < blockHeight; i++`, block `i`) does not recover.

Modelled, not verified: a LevelDB batch commit is atomic and durable; `Write`+`Sync` on the hash file is durable on
return, a crash inside the write leaves a prefix; what a block does is a deterministic function of the state (C02).
-/
namespace OntVerif.Props.C01
open OntVerif.Model.Recover OntVerif.Proofs.Recover

variable {β σ ε H : Type}

/-- **The property**, for a replay loop `for i := stateHeight+lo; i < blockHeight+hi; i++ { replay block i+arg }`,
a recovery iteration committing the stores `rc` and a block commit committing the stores in `order`
(0 block, 1 event, 2 state): for every block semantics, every consistent start ledger, every chain offered to the
uncrashed node, every next block `b` it accepts, every number `k` of durable store commits and every number `t` of
durable bytes of the eager hash-file append (complete if the state store committed: the file is synced first) —
the reopen succeeds and yields a `Recovered` ledger. -/
def C01_statement (lo hi arg : Nat) (rc order : List Nat) : Prop :=
  ∀ (β σ ε H : Type) [DecidableEq H] (S : Sem β σ ε H) (L0 : Ledger β σ ε H), Consistent L0 →
  ∀ (chain : List β) (b : β) (L1 : Ledger β σ ε H) (k t : Nat),
    submit S order (run S order L0 chain) b = .ok L1 → (run S order L0 chain).height < S.height b →
    k ≤ 3 → (k = 3 → ∀ F, fill S (run S order L0 chain) b = some F → F.data.length ≤ t) →
    ∃ d L', crashDisk S order (run S order L0 chain) b k t = some d ∧ reopen S lo hi arg rc d = .ok L' ∧
      Recovered S lo hi arg rc order (run S order L0 chain) L1 L'

/-- **C01 for every loop with `lo + arg = 1`, `hi + arg = 1`** (blocks `stateHeight+1 … blockHeight` are replayed),
commit order block → event → state, recovery committing event and state. -/
theorem C01_recover_of_bounds (lo hi arg : Nat) (hlo : lo + arg = 1) (hhi : hi + arg = 1) :
    C01_statement lo hi arg [1, 2] [0, 1, 2] := by
  intro β σ ε H _ S L0 hinv0 chain b L1 k t hsub hnew hk hsync
  have hinv := run_inv S chain L0 hinv0
  generalize run S [0, 1, 2] L0 chain = L at hsub hnew hsync hinv
  obtain ⟨F, hF, hh, rfl⟩ := submit_ok_new S L _ b hsub hnew
  obtain ⟨hinv1, _⟩ := commit_inv S L b F hinv hF hh
  have hh1 : S.height b = L.height + 1 := hh
  unfold crashDisk
  rw [hF]
  rcases (by omega : k = 0 ∨ k = 1 ∨ k = 2 ∨ k = 3) with rfl | rfl | rfl | rfl
  · obtain ⟨hd, ht⟩ := crash_before_block S L b F hinv hF t
    exact ⟨_, _, rfl, reopen_ok S lo hi arg [1, 2] _ hlo hhi hd, recovered_old S lo hi arg hlo hhi L _ _ hd ht hh⟩
  · refine ⟨_, _, rfl, ?_, recovered_new S lo hi arg hlo hhi L _ hinv1 hh⟩
    exact reopen_crash_replay S lo hi arg hlo hhi L b F hinv hF hh _ t rfl rfl (Or.inl rfl) rfl
  · refine ⟨_, _, rfl, ?_, recovered_new S lo hi arg hlo hhi L _ hinv1 hh⟩
    exact reopen_crash_replay S lo hi arg hlo hhi L b F hinv hF hh _ t rfl rfl (Or.inr rfl) rfl
  · refine ⟨_, _, rfl, ?_, recovered_new S lo hi arg hlo hhi L _ hinv1 hh⟩
    have hfull : F.data.take t = F.data := List.take_of_length_le (hsync rfl F hF)
    have := reopen_ok S lo hi arg [1, 2] _ hlo hhi hinv1.2
    rw [← hinv1.1] at this
    simpa [commitStep, hfull] using this


/-! ### Crashes during recovery (any number of crash / reopen cycles) -/

/-- **The property with interrupted recoveries.** After the crash in the commit of `b` (as in `C01_statement`) the node is
restarted any number of times and dies again DURING the reopen, each time after `c.1` of the recovery iteration's commits
(`rc` order) and `c.2` bytes of its hash-file re-append became durable (complete when the state store committed); the
reopen that finally runs to completion yields a `Recovered` ledger: height old or new, state identical to the uncrashed
ledger of that height, following blocks treated identically. `cycles = []` is `C01_statement`. -/
def C01_statement_cycles (lo hi arg : Nat) (rc order : List Nat) : Prop :=
  ∀ (β σ ε H : Type) [DecidableEq H] (S : Sem β σ ε H) (L0 : Ledger β σ ε H), Consistent L0 →
  ∀ (chain : List β) (b : β) (L1 : Ledger β σ ε H) (k t : Nat) (cycles : List (Nat × Nat)),
    submit S order (run S order L0 chain) b = .ok L1 → (run S order L0 chain).height < S.height b →
    k ≤ 3 → (k = 3 → ∀ F, fill S (run S order L0 chain) b = some F → F.data.length ≤ t) →
    (∀ c ∈ cycles, 2 ∈ rc.take c.1 → ∀ F, fill S (run S order L0 chain) b = some F → F.data.length ≤ c.2) →
    ∃ d L', crashDisk S order (run S order L0 chain) b k t = some d ∧
      reopen S lo hi arg rc (cycles.foldl (fun d c => reopenCrash S lo hi arg rc d c.1 c.2) d) = .ok L' ∧
      Recovered S lo hi arg rc order (run S order L0 chain) L1 L'

theorem C01_recover_twice_of_bounds (lo hi arg : Nat) (hlo : lo + arg = 1) (hhi : hi + arg = 1) :
    C01_statement_cycles lo hi arg [1, 2] [0, 1, 2] := by
  intro β σ ε H _ S L0 hinv0 chain b L1 k t cycles hsub hnew hk hsync hcs
  have hinv := run_inv S chain L0 hinv0
  generalize run S [0, 1, 2] L0 chain = L at hsub hnew hsync hcs hinv
  obtain ⟨F, hF, hh, rfl⟩ := submit_ok_new S L _ b hsub hnew
  unfold crashDisk
  rw [hF]
  have h0 := stage_first S L b F hinv hF k t hk (fun h3 => hsync h3 F hF)
  have hc := stage_cycles S lo hi arg hlo hhi L b F hinv hF hh cycles _ h0 (fun c hc h2 => hcs c hc h2 F hF)
  obtain ⟨L', hr, hrec⟩ := stage_reopen S lo hi arg hlo hhi L b F hinv hF hh _ hc
  exact ⟨_, L', rfl, hr, hrec⟩

/-! ### The as-shipped loop (`for i := stateHeight; i < blockHeight; i++`, block `i`) does not recover

Witness (toy semantics, genesis + one block, crash after the block-store commit): the reopened ledger reports height 1
but is not the uncrashed ledger of height 1 — the replay re-executed block 0 and never block 1. -/
open Toy in
theorem C01_asShipped_counterexample : ¬ C01_statement 0 0 0 [1, 2] [0, 1, 2] := by
  intro h
  have hinv : Consistent (genesisLedger [0, 1, 2]) := by unfold Consistent DiskOK WF; decide
  obtain ⟨d, L', hd, hr, hrec⟩ := h Blk (List Nat) Nat Nat sem (genesisLedger [0, 1, 2]) hinv []
    (mkBlock (genesisLedger [0, 1, 2]) 5)
    (match submit sem [0, 1, 2] (genesisLedger [0, 1, 2]) (mkBlock (genesisLedger [0, 1, 2]) 5) with
      | .ok L => L | .error _ => genesisLedger [0, 1, 2])
    1 0 rfl (by decide) (by decide) (by intro h; cases h)
  have hd' : some d = some (match crashDisk sem [0, 1, 2] (genesisLedger [0, 1, 2]) (mkBlock (genesisLedger [0, 1, 2]) 5) 1 0 with
      | some d => d | none => (genesisLedger [0, 1, 2]).disk) := by
    rw [← hd]; rfl
  cases hd'
  have hr' : (Except.ok L' : Except Err TLedger) = Except.ok (match reopen sem 0 0 0 [1, 2] (match crashDisk sem [0, 1, 2] (genesisLedger [0, 1, 2]) (mkBlock (genesisLedger [0, 1, 2]) 5) 1 0 with
      | some d => d | none => (genesisLedger [0, 1, 2]).disk) with | .ok L => L | .error _ => genesisLedger [0, 1, 2]) := by
    rw [← hr]; rfl
  cases hr'
  have hne := hrec.new (by decide)
  revert hne
  decide


/-! ### Auxiliary guarantees -/

/-- reopening a consistent (uncrashed or recovered) data directory reproduces the ledger; nothing is replayed -/
theorem C01_reopen_uncrashed [DecidableEq H] (S : Sem β σ ε H) (lo hi arg : Nat) (hlo : lo + arg = 1) (hhi : hi + arg = 1)
    (L : Ledger β σ ε H) (h : Consistent L) : reopen S lo hi arg [1, 2] L.disk = .ok L := by
  have := reopen_ok S lo hi arg [1, 2] L.disk hlo hhi h.2
  rw [← h.1] at this; exact this

/-- the first-run initialisation yields a consistent ledger, and every ledger the uncrashed node reaches from it is
consistent ("after any prefix of a chain") -/
theorem C01_uncrashed_consistent [DecidableEq H] (S : Sem β σ ε H) (s0 : σ) (g : β) (L0 : Ledger β σ ε H)
    (hg : genesis S [0, 1, 2] s0 g = some L0) (h0 : S.height g = 0) (chain : List β) :
    Consistent (run S [0, 1, 2] L0 chain) :=
  run_inv S chain L0 (genesis_consistent S s0 g L0 hg h0).1

/-! ### The code as it is now (facts regenerated from `core/store/ledgerstore/ledger_store.go`) -/

/-- `saveBlockToStateStore` (the eager, synced hash-file append) precedes every `CommitTo` in `submitBlock`: the crash
states of the model (`k` commits durable ⇒ the append was issued before) are the reachable ones -/
theorem C01_file_append_first : OntVerif.Gen.Recover.fileAppendFirst = true := by decide

/-- **A store's batch reaches the database in one place only** (the model's "a batch commit is all-or-nothing" tied to the
source of `core/store/leveldbstore/leveldb_store.go`, regenerated on every run): the only calls that modify the database
are `db.Write` in `BatchCommit` and the un-batched `Put`/`Delete`; `BatchPut`/`BatchDelete` consist of a single statement,
the append to the batch (`$` = receiver, `#i` = i-th parameter: names do not matter), and nothing else touches the batch; the state store's `BatchPutRawKeyVal`/`BatchDeleteRawKey`/
`CommitTo`/`NewBatch` only forward. An early or partial flush of a pending batch (e.g. "write the batch out when it grows
beyond N operations") breaks this theorem. Atomicity and durability of the single `db.Write(batch)` itself is goleveldb's
contract (modelled). -/
theorem C01_batch_atomic :
    OntVerif.Gen.BatchAtomic.dbWriteSites = [("BatchCommit", "Write"), ("Delete", "Delete"), ("Put", "Put")] ∧
    OntVerif.Gen.BatchAtomic.batchSites = [("BatchDelete", "Delete"), ("BatchPut", "Put")] ∧
    OntVerif.Gen.BatchAtomic.body_BatchPut = "$.batch.Put(#0,#1)" ∧
    OntVerif.Gen.BatchAtomic.body_BatchDelete = "$.batch.Delete(#0)" ∧
    OntVerif.Gen.BatchAtomic.body_NewBatch.length = 1 ∧
    OntVerif.Gen.BatchAtomic.state_BatchPutRawKeyVal = "$.store.BatchPut(#0,#1)" ∧
    OntVerif.Gen.BatchAtomic.state_BatchDeleteRawKey = "$.store.BatchDelete(#0)" ∧
    OntVerif.Gen.BatchAtomic.state_CommitTo = "return $.store.BatchCommit()" ∧
    OntVerif.Gen.BatchAtomic.state_NewBatch = "$.store.NewBatch()" := by
  decide

/-- **Every iteration of the replay loop reaches all its effects, whatever the block contains** (regenerated): the
statements carrying the effects of an iteration (in `recoverStore` and the helpers its body was extracted into) are
guarded by nothing but the absence of an earlier error. This is what the model's `replayAll` (a fold over the heights
`stateHeight+1 … blockHeight`, not over "interesting" blocks) assumes; a conditional skip such as "empty blocks need no
recovery" — an empty block's state batch still carries the current-block marker and the merkle leaves — breaks it. -/
theorem C01_replay_unconditional : OntVerif.Gen.Recover.replayUnconditional = true := by decide

/-- **C01 for the replay loop, commit order and recovery commits extracted from the source on this run.** -/
theorem C01_recover :
    C01_statement OntVerif.Gen.Recover.loopLo OntVerif.Gen.Recover.loopHi OntVerif.Gen.Recover.blockArg
      OntVerif.Gen.Recover.recoverCommits OntVerif.Gen.Recover.commitOrder := by
  have h1 : OntVerif.Gen.Recover.recoverCommits = [1, 2] := by decide
  have h2 : OntVerif.Gen.Recover.commitOrder = [0, 1, 2] := by decide
  rw [h1, h2]
  exact C01_recover_of_bounds _ _ _ (by decide) (by decide)

/-- **C01 with any finite sequence of crash / reopen cycles, for the loop, commit order and recovery commits extracted
from the source on this run.** -/
theorem C01_recover_twice :
    C01_statement_cycles OntVerif.Gen.Recover.loopLo OntVerif.Gen.Recover.loopHi OntVerif.Gen.Recover.blockArg
      OntVerif.Gen.Recover.recoverCommits OntVerif.Gen.Recover.commitOrder := by
  have h1 : OntVerif.Gen.Recover.recoverCommits = [1, 2] := by decide
  have h2 : OntVerif.Gen.Recover.commitOrder = [0, 1, 2] := by decide
  rw [h1, h2]
  exact C01_recover_twice_of_bounds _ _ _ (by decide) (by decide)

/-! ### Non-vacuity: the hypotheses hold on a concrete chain, and the crash states are genuinely intermediate -/
section
open Toy

/-- genesis + two blocks; the third block is accepted by the uncrashed ledger -/
example : ∃ L1, Consistent (genesisLedger [0, 1, 2]) ∧
    submit sem [0, 1, 2] (run sem [0, 1, 2] (genesisLedger [0, 1, 2]) [mkBlock (genesisLedger [0, 1, 2]) 5]) 
      (mkBlock (run sem [0, 1, 2] (genesisLedger [0, 1, 2]) [mkBlock (genesisLedger [0, 1, 2]) 5]) 9) = .ok L1 ∧
    L1.height = 2 :=
  ⟨_, by unfold Consistent DiskOK WF; decide, rfl, by decide⟩

/-- the crash state "block store committed, 13 bytes of the hash-file append durable" is neither the old nor the new
directory, the repaired loop recovers it to the uncrashed ledger of the new height … -/
example :
    let L := genesisLedger [0, 1, 2]
    let b := mkBlock L 5
    ∃ d L1, crashDisk sem [0, 1, 2] L b 1 13 = some d ∧ submit sem [0, 1, 2] L b = .ok L1 ∧
      d ≠ L.disk ∧ d ≠ L1.disk ∧ reopen sem 1 1 0 [1, 2] d = .ok L1 ∧ L1.height = 1 :=
  ⟨_, _, rfl, rfl, by decide, by decide, rfl, by decide⟩

/-- … and a crash inside the hash-file write leaves a torn tail that the old-height ledger carries until the next commit -/
example :
    let L := genesisLedger [0, 1, 2]
    let b := mkBlock L 5
    ∃ d L', crashDisk sem [0, 1, 2] L b 0 13 = some d ∧ reopen sem 1 1 0 [1, 2] d = .ok L' ∧
      L'.height = 0 ∧ L'.disk.file.length = L.disk.file.length + 13 ∧ L' ≠ L :=
  ⟨_, _, rfl, rfl, by decide, by decide, by decide⟩

/- two interrupted recoveries: the first dies after re-appending 7 bytes of the hash file, the second after the event
store committed; the directories are three different intermediate states, and the third reopen completes at height 1 -/
set_option maxRecDepth 10000 in
example :
    ∃ d0 L1, crashDisk sem [0, 1, 2] (genesisLedger [0, 1, 2]) (mkBlock (genesisLedger [0, 1, 2]) 5) 1 0 = some d0 ∧
      submit sem [0, 1, 2] (genesisLedger [0, 1, 2]) (mkBlock (genesisLedger [0, 1, 2]) 5) = .ok L1 ∧
      (reopenCrash sem 1 1 0 [1, 2] d0 0 7).file.length = d0.file.length + 7 ∧
      (reopenCrash sem 1 1 0 [1, 2] (reopenCrash sem 1 1 0 [1, 2] d0 0 7) 1 64).evt = L1.disk.evt ∧
      (reopenCrash sem 1 1 0 [1, 2] (reopenCrash sem 1 1 0 [1, 2] d0 0 7) 1 64).st ≠ L1.disk.st ∧
      reopen sem 1 1 0 [1, 2] (reopenCrash sem 1 1 0 [1, 2] (reopenCrash sem 1 1 0 [1, 2] d0 0 7) 1 64) = .ok L1 :=
  ⟨_, _, rfl, rfl, by decide, by decide, by decide, rfl⟩
end

end OntVerif.Props.C01
