import OntVerif.Proofs.NeoProg
/-!
# C15 — Contract execution results do not depend on Go map iteration order

Models: `Model/NeoVal.lean` (values, detector, `Serialize`) and `Model/NeoProg.lean` (27 opcodes / syscalls that build,
inspect and serialize containers).  Every Go `for … range map` of that code takes its order from an explicit parameter
`perm : Perm` (any permutation, a fresh one for every `range` statement).  Tied to the code by `harness/cmd/c15`
(the same program run up to 48 times in fresh engines).
-/
namespace OntVerif.Props.C15
open OntVerif.Util OntVerif.Model.Codec OntVerif.Model.NeoVal OntVerif.Model.NeoProg
open OntVerif.Proofs.NeoVal OntVerif.Proofs.NeoProg

/-- **`getMapSortedKey` is order free** (KEYS, VALUES, and the entry order written by `Serialize`): whatever permutation of
the entries the `range` statement produces, the sorted sequence is the map's canonical entry list. -/
theorem C15_sorted_keys_perm_free (perm : Perm) (hv : perm.valid) (path : List Nat) (r : Ref) (es : List Entry)
    (hs : SortedK es) : sortedEntries perm path r es = es :=
  sortedEntries_eq perm hv path r hs

/-- **The bytes produced by `Serialize` never depend on the iteration order** — not even as shipped: two successful
serializations of the same value (either detector variant, any iteration orders) produce identical bytes.  (As shipped
the order can still decide *whether* it succeeds: `C15_asShipped_counterexample`.) -/
theorem C15_keys_values_serialize_perm_free (var1 var2 : Variant) (p1 p2 : Perm) (hv1 : p1.valid) (hv2 : p2.valid)
    (h : Heap) (w : WFMaps h) (v : Val) (b1 b2 : Bytes)
    (h1 : serialize var1 p1 h v = .ok b1) (h2 : serialize var2 p2 h v = .ok b2) : b1 = b2 :=
  ser_ok_unique var1 var2 p1 p2 hv1 hv2 h w _ _ _ _ _ _ _ _ h1 h2

/-- with the sound detector the whole result of `Serialize` (bytes or error kind) is order free -/
theorem C15_serialize_sound_perm_free (p1 p2 : Perm) (hv1 : p1.valid) (hv2 : p2.valid) (h : Heap) (w : WFMaps h) (v : Val) :
    serialize .sound p1 h v = serialize .sound p2 h v :=
  serialize_sound_perm_free p1 p2 hv1 hv2 h w v

/-- **Full statement**: the outcome of an invocation (fault kind, or final heap / stacks / number of notifications — the
return value is the top of the stack) is the same for all iteration orders. -/
def ExecPermFree (var : Variant) : Prop :=
  ∀ (p1 p2 : Perm), p1.valid → p2.valid → ∀ prog : List Op, exec var p1 prog = exec var p2 prog

/-- for every program over the modelled opcode / syscall subset, with the sound detector -/
theorem C15_exec_perm_free : ExecPermFree .sound := by
  intro p1 p2 hv1 hv2 prog
  unfold exec
  refine run_perm_free _ _ p1 p2 ?_ ?_ prog {} ?_
  · intro k h v w
    exact serialize_sound_perm_free _ _ (perm_shift_valid hv1 k) (perm_shift_valid hv2 k) h w v
  · intro path r es hs
    rw [sortedEntries_eq p1 hv1 path r hs, sortedEntries_eq p2 hv2 path r hs]
  · intro r es h
    simp at h

/-- `_partial` for the code as shipped: every opcode other than `Serialize` is order free; precisely, two runs under
different orders agree as soon as their `Serialize` calls agree. -/
theorem C15_exec_perm_free_asShipped_partial (p1 p2 : Perm) (hv1 : p1.valid) (hv2 : p2.valid) (prog : List Op)
    (hser : ∀ k h v, WFMaps h → serOf .asShipped p1 k h v = serOf .asShipped p2 k h v) :
    exec .asShipped p1 prog = exec .asShipped p2 prog := by
  unfold exec
  refine run_perm_free _ _ p1 p2 hser ?_ prog {} ?_
  · intro path r es hs
    rw [sortedEntries_eq p1 hv1 path r hs, sortedEntries_eq p2 hv2 path r hs]
  · intro r es h
    simp at h

/-! ### the witness: `{0: 0, 1: <arrays nested 10 deep>}` then `Runtime.Serialize` -/

def chain : Nat → List Op
  | 0 => [.pushInt 1, .newArray]
  | d+1 => [.pushInt 0, .newArray, .dup] ++ chain d ++ [.append]

/-- `NEWMAP; m[0] = 0; m[1] = [[[[[[[[[[false]]]]]]]]]]; SER` -/
def cexProg : List Op :=
  [.newMap, .dup, .pushInt 0, .pushInt 0, .setItem, .dup, .pushInt 1] ++ chain 9 ++ [.setItem, .ser]

/-- the iteration order that visits the entries backwards -/
def revPerm : Perm := fun _ _ es => es.reverse

theorem revPerm_valid : revPerm.valid := fun _ _ es => List.reverse_perm es

def isOk : Except Fault State → Bool
  | .ok _ => true
  | .error _ => false

/-- as shipped, the same program succeeds under one iteration order and faults under another: from the map, the chain
through entry `1` is 11 deep (> MAX_STRUCT_DEPTH), through entry `0` it ends at once. -/
theorem C15_asShipped_counterexample : ¬ ExecPermFree .asShipped := by
  intro hS
  have h := congrArg isOk (hS Perm.id revPerm (fun _ _ _ => List.Perm.refl _) revPerm_valid cexProg)
  revert h
  decide

def isCycleFault : Except Fault State → Bool
  | .error .cycle => true
  | _ => false

theorem C15_asShipped_witness_outcomes :
    isOk (exec .asShipped Perm.id cexProg) = true ∧ isCycleFault (exec .asShipped revPerm cexProg) = true ∧
    isCycleFault (exec .sound Perm.id cexProg) = true := by decide

/-- the detector itself on the witness map (object 0 = the map, objects 1..10 = the nested arrays) -/
def cexHeap : Heap :=
  [.map [⟨[], .int 0, .int 0⟩, ⟨[1], .int 1, .ref 10⟩],
   .arr [.bool false], .arr [.ref 1], .arr [.ref 2], .arr [.ref 3], .arr [.ref 4], .arr [.ref 5], .arr [.ref 6],
   .arr [.ref 7], .arr [.ref 8], .arr [.ref 9]]

theorem C15_asShipped_detector_map_branch :
    detect .asShipped Perm.id [] cexHeap (.ref 0) = false ∧ detect .asShipped revPerm [] cexHeap (.ref 0) = true ∧
    detect .asShipped Perm.id [] cexHeap (.ref 10) = false ∧
    detect .sound Perm.id [] cexHeap (.ref 0) = detect .sound revPerm [] cexHeap (.ref 0) := by decide

/-- non-vacuity of the hypotheses: a valid non-trivial order, a canonical heap with a two-entry map -/
example : revPerm.valid := revPerm_valid
example : WFMaps cexHeap := by
  intro r es h
  match r, h with
  | 0, h => cases h; unfold SortedK; decide
  | n+11, h => simp [cexHeap] at h

end OntVerif.Props.C15
