import OntVerif.Proofs.Wallet
import OntVerif.Gen.WalletImport
import OntVerif.Gen.WalletScrypt
/-!
# C38 — Wallet persists its accounts and only opens them with the current password

Property theorems only (helper lemmas: `Proofs/Wallet.lean`; model: `Model/Wallet.lean`, tied to `account.ClientImpl` by
`harness/cmd/c38`). Crypto and JSON are *modelled*: every theorem about passwords assumes `cr.Ideal` for an arbitrary
`cr : Crypto`; the wallet file is the pair (scrypt parameters, record list) that the last `save` wrote.

An *operation sequence* is any `List Op` (create / import / delete / set default / relabel / change password / change scheme /
reopen, valid or not) run from a wallet that satisfies the invariant — in particular from a fresh one (`C38_fresh`) or one
opened from a file with any scrypt parameters and no accounts (`C38_opened_empty`). The model is the code as it is now, i.e.
after the four repairs this property led to; the four former counterexamples are kept as regression witnesses
(`C38_witness_*`, and `corpus/C38/`).
-/
namespace OntVerif.Props.C38
open OntVerif.Model.Wallet OntVerif.Proofs.Wallet

variable {cr : Crypto}

theorem C38_fresh : Inv (W.fresh cr) := Inv.fresh
theorem C38_opened_empty (prm : Nat) : Inv (W.load (some (prm, [])) : W cr) := Inv.load_empty prm

/-- **Index consistency (all operation sequences).** `accAddrs` / `accLabels` / `defaultAcc` agree with the account list:
an address (non-empty label) is indexed iff a listed account carries it — so addresses and non-empty labels are unique —,
`GetAccountNum` is the list length, the default pointer is exactly the listed account flagged default, a non-empty wallet has
one, every list entry is a live object, and every record is the encryption of its (ghost) key under its (ghost) password. -/
theorem C38_index_consistent (w0 : W cr) (h0 : Inv w0) (ops : List Op) :
    let w := W.run w0 ops
    (∀ ad id, lk w.byAddr ad = some id ↔ (id ∈ w.list ∧ ∃ a, w.deref id = some a ∧ a.addr = ad)) ∧
    (∀ l id, lk w.byLabel l = some id ↔ (l ≠ "" ∧ id ∈ w.list ∧ ∃ a, w.deref id = some a ∧ a.label = l)) ∧
    (∀ id, w.dflt = some id ↔ (id ∈ w.list ∧ ∃ a, w.deref id = some a ∧ a.isDefault = true)) ∧
    (w.list ≠ [] → w.dflt.isSome = true) ∧
    w.num = w.list.length ∧ w.list.Nodup ∧ (∀ id ∈ w.list, ∃ a, w.deref id = some a) ∧
    (∀ a ∈ w.records, a.Sealed) := by
  intro w
  have h := run_inv h0 ops
  refine ⟨h.idx.addr, h.idx.label, h.idx.dflt, h.dfltSome, h.idx.addrLen, h.idx.listNodup, h.idx.listIn, ?_⟩
  intro a ha
  obtain ⟨id, hm, hd⟩ := mem_records.mp ha
  exact h.idx.sealOK id hm a hd

/-- **Single default (all operation sequences, imports of metadata flagged default included).** A non-empty wallet has
exactly one record with `IsDefault`, an empty one none, and `GetDefaultAccountMetadata` is that record: `ImportAccount` never
copies the metadata's flag (see `C38_import_fields`), `SetDefaultAccount` moves the flag, `DeleteAccount` refuses the holder. -/
theorem C38_single_default (w0 : W cr) (h0 : Inv w0) (ops : List Op) :
    let w := W.run w0 ops
    (w.records.filter (·.isDefault)).length = (if w.records = [] then 0 else 1) ∧
    ∀ a ∈ w.records, a.isDefault = true → w.metaDefault = some a.meta :=
  single_default (run_inv h0 ops)

/-- the fields of the fresh `AccountData` that `ImportAccount` assigns, regenerated from `account/client.go` by factgen on
every run: exactly the ten fields the model copies (`Alg ← KeyType`, `Param ← Curve`, the label possibly renamed) — and not
`IsDefault`, `Lock` -/
theorem C38_import_fields :
    OntVerif.Gen.WalletImport.assigned =
      [("Label", "Label"), ("PubKey", "PubKey"), ("SigSch", "SigSch"), ("Key", "Key"), ("Alg", "KeyType"),
       ("Address", "Address"), ("EncAlg", "EncAlg"), ("Hash", "Hash"), ("Salt", "Salt"), ("Param", "Curve"), ("Label", "")] := by
  decide

/-- **Frame: another wallet.** Opening (and using) another wallet file in the same process is a no-op on this wallet: every
`WalletData` owns the `Scrypt` object it decodes its file into (`C38_scrypt_sources`). -/
theorem C38_other_wallet_frame (w : W cr) (prm : Nat) : w.step (.openOther prm) = (.ok, w) := rfl

/-- **The scrypt parameters are per-wallet state** that no operation sequence changes — creations, imports, password changes,
reopening, and other wallets being opened with other parameters included. (With `C38_password`: an account sealed under the
wallet's parameters keeps opening with its current password whatever else happens in the process.) -/
theorem C38_params_stable (w0 : W cr) (h0 : Inv w0) (ops : List Op) : (W.run w0 ops).prm = w0.prm := run_prm h0 ops

/-- where a wallet's `Scrypt` object comes from, regenerated from `account/file_store.go` by factgen on every run:
`NewWalletData` and the default branch of `reencrypt` take it from a call (`keypair.GetScryptParameters()` returns a fresh
object), never from a package-level variable. The one package-level `ScryptParam` of the package, `lowSecurityParam`, is
mentioned only by `ToLowSecurity`, which hands `&lowSecurityParam` to `reencrypt` (`this.Scrypt = param`: that wallet then
aliases the variable — today only on the throw-away `Clone()` of `account export --low-security`, which is never loaded into). -/
theorem C38_scrypt_sources :
    OntVerif.Gen.WalletScrypt.newWalletScrypt = "call:keypair.GetScryptParameters" ∧
    OntVerif.Gen.WalletScrypt.reencryptAssigns = ["ident:param", "call:keypair.GetScryptParameters"] ∧
    OntVerif.Gen.WalletScrypt.pkgScryptVarUses = [("lowSecurityParam", ["ToLowSecurity"])] := by decide

/-- **Reload (all operation sequences).** Closing and reopening the wallet (`load ∘ save`; every successful mutation has
saved) changes nothing observable: account count, metadata by index / address / label, the default account, and for every
index and password whether — and to which key — the account opens. -/
theorem C38_reload (w0 : W cr) (h0 : Inv w0) (ops : List Op) :
    obs (W.run w0 ops).reload = obs (W.run w0 ops) := by
  have h := run_inv h0 ops
  obtain ⟨h1, h2, h3⟩ := reload_spec h
  exact obs_of_records h1.idx h.idx h3 h2

/-- the file holds exactly the listed records after every operation sequence (every successful mutation saves); this needs
no index invariant, so it also holds from a wallet file whose records are not well indexed (e.g. hand-edited duplicates) -/
theorem C38_file_mirrors_list (w0 : W cr) (h0 : FileOK w0) (ops : List Op) : FileOK (W.run w0 ops) := by
  induction ops generalizing w0 with
  | nil => exact h0
  | cons op r ih => exact ih _ (step_fileOK h0 op)

/-- **Password (all operation sequences).** Under the ideal-cipher law every listed account that is encrypted under the
wallet's parameters (all created ones; imported ones unless the caller handed in a record made for other parameters) opens
with exactly one password — its current one (`gPw`: the creation/import password, replaced by `new` on every successful
`ChangePassword`) — and then yields its own key (`gSk`); every other password, and the empty one, is refused. -/
theorem C38_password (hI : cr.Ideal) (w0 : W cr) (h0 : Inv w0) (ops : List Op) :
    let w := W.run w0 ops
    ∀ i a, w.records[i]? = some a → a.gPrm = w.prm →
      ∀ pw, w.openIndex i pw = some (if pw = a.gPw ∧ pw ≠ 0 then some a.gSk else none) := by
  intro w i a hi hp pw
  have h := run_inv h0 ops
  rw [openIndex_eq h.idx, hi]
  simp only [Option.map_some]
  congr 1
  have hs : a.Sealed := by
    have : a ∈ w.records := List.mem_of_getElem? hi
    obtain ⟨id, hm, hd⟩ := mem_records.mp this
    exact h.idx.sealOK id hm a hd
  unfold W.decrypt
  by_cases h0 : pw = 0
  · rw [if_pos h0, if_neg (fun e => e.2 h0)]
  · rw [if_neg h0, hs, hI, hp]
    by_cases hk : pw = a.gPw
    · rw [if_pos ⟨hk, rfl⟩, if_pos ⟨hk, h0⟩]
    · rw [if_neg (fun e => hk e.1), if_neg (fun e => hk e.1)]

/-- the same after reopening the wallet -/
theorem C38_password_after_reload (hI : cr.Ideal) (w0 : W cr) (h0 : Inv w0) (ops : List Op) :
    let w := W.run w0 ops
    ∀ i a, w.records[i]? = some a → a.gPrm = w.prm →
      ∀ pw, w.reload.openIndex i pw = some (if pw = a.gPw ∧ pw ≠ 0 then some a.gSk else none) := by
  intro w i a hi hp pw
  have := congrArg (fun o => o.opens i pw) (C38_reload w0 h0 ops)
  simp only [obs] at this
  rw [this]
  exact C38_password hI w0 h0 ops i a hi hp pw

/-- `ChangePassword` re-encrypts the SAME key: a successful change of a well-sealed account under the wallet's parameters
required the current password and leaves an account that carries the old key, the new (non-empty) password and the wallet's
parameters -/
theorem C38_changePassword_spec (hI : cr.Ideal) (w : W cr) (h : Inv w) (addr old new salt : Nat) (w' : W cr)
    (hr : w.changePassword addr old new salt = (.ok, w')) (hne : old ≠ new) :
    ∃ id a a', lk w.byAddr addr = some id ∧ w.deref id = some a ∧ w'.deref id = some a' ∧
      a.gPw = old ∧ a.gPrm = w.prm ∧ a'.gSk = a.gSk ∧ a'.gPw = new ∧ a'.gPrm = w.prm ∧ new ≠ 0 ∧ a'.addr = a.addr := by
  unfold W.changePassword at hr
  rw [if_neg hne] at hr
  split at hr
  · cases hr
  · rename_i id hl
    split at hr
    · cases hr
    · rename_i a ha
      split at hr
      · cases hr
      · rename_i k hk
        split at hr
        · cases hr
        · rename_i hnz
          simp only [Prod.mk.injEq, true_and] at hr
          subst hr
          have hm := ((h.idx.addr addr id).mp hl).1
          have hs : a.Sealed := h.idx.sealOK id hm a ha
          unfold W.decrypt at hk
          split at hk
          · cases hk
          · rw [hs, hI] at hk
            split at hk
            · rename_i hc
              cases hk
              refine ⟨id, a, { a with key := cr.enc a.gSk new salt w.prm, salt := salt, gSk := a.gSk, gPw := new, gPrm := w.prm },
                hl, ha, ?_, hc.1.symm, hc.2.symm, rfl, rfl, rfl, ?_, rfl⟩
              · show (w.setObj id _).deref id = _
                rw [deref_setObj]; simp
              · exact hnz
            · cases hk

/-! ### Concrete wallets and regression witnesses -/

def initW (prm : Nat) : W Crypto.symbolic := if prm = 0 then W.fresh _ else W.load (some (prm, []))

theorem C38_symbolic_ideal : Crypto.symbolic.Ideal := by
  intro k p s m p' m'
  simp [Crypto.symbolic]

/-- the reload theorem for the wallets the harness starts from: no file yet, or a file with any scrypt parameter set -/
theorem C38_reload_all_wallets (prm : Nat) (ops : List Op) :
    obs (W.run (initW prm) ops).reload = obs (W.run (initW prm) ops) := by
  apply C38_reload
  unfold initW
  split
  · exact Inv.fresh
  · exact Inv.load_empty prm

/-- witness 1 (was: duplicate-address import + delete broke reload): the second import of an address is refused -/
theorem C38_witness_duplicate_address :
    ((W.run (initW 1) [.imp "a" 0 1 1 1 1 1 1 false]).step (.imp "b" 0 1 2 1 1 2 1 false)).1 = .dupAddr := by decide

/-- witness 2 (was: NewAccount ignored the wallet's scrypt parameters): the new account opens with its password -/
theorem C38_witness_newaccount :
    (W.run (initW 1) [.new "a" 1 7 1001 1001 1]).openIndex 0 7 = some (some 1001) := by decide

/-- witness 3 (was: ChangePassword to the empty password bricked the account): refused, the old password still opens -/
theorem C38_witness_empty_password :
    let w := W.run (initW 1) [.imp "a" 0 1 1 1 1 1 1 false]
    (w.step (.changePw 1 1 0 2)).1 = .emptyPw ∧ (w.step (.changePw 1 1 0 2)).2.openIndex 0 1 = some (some 1) := by decide

/-- witness 4 (was: SetLabel(a, "") poisoned the label index): a second account can drop its label too -/
theorem C38_witness_empty_label :
    let w := W.run (initW 1) [.imp "a" 0 1 1 1 1 1 1 false, .imp "b" 0 1 1 2 2 2 1 false, .setLabel 1 ""]
    (w.setLabel 2 "").1 = .ok ∧ (w.reload.setLabel 2 "").1 = .ok := by decide

/-- witness 5 (seeded change C38-r2: the imported metadata's default flag was kept): create A, B, make B the default, import C
whose metadata says "default", make A the default, reopen — one flag, on A, before and after -/
theorem C38_witness_import_flagged_default :
    let w := W.run (initW 1) [.new "a" 1 1 1001 1001 1, .new "b" 1 1 1002 1002 2, .setDefault 1002,
      .imp "c" 0 1 1 1 1 3 1 true, .setDefault 1001]
    (w.records.map fun a => (a.addr, a.isDefault)) = [(1001, true), (1002, false), (1, false)] ∧
    (w.reload.records.map fun a => (a.addr, a.isDefault)) = [(1001, true), (1002, false), (1, false)] ∧
    (w.metaDefault.map (·.addr)) = some 1001 ∧ (w.reload.metaDefault.map (·.addr)) = some 1001 := by decide

/-! ### Non-vacuity -/
def demoOps : List Op :=
  [.imp "a" 0 1 1 1 1 1 1 false, .imp "a" 0 1 2 2 2 2 1 false, .changePw 2 2 3 7, .setDefault 2, .setLabel 1 "c", .del 1 1, .reload]

/-- a history with a renamed duplicate label, a password change, a default move and a delete: one account `a_1` left,
default, opening with password 3 only, to key 2 -/
example : let w := W.run (initW 1) demoOps
    (w.records.map fun a => (a.addr, a.label, a.isDefault, a.gPw, a.gPrm)) = [(2, "a_1", true, 3, 1)] ∧
    w.openIndex 0 3 = some (some 2) ∧ w.openIndex 0 2 = some none := by decide
example : Inv (initW 1) := Inv.load_empty 1

end OntVerif.Props.C38
