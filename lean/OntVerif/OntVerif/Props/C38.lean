import OntVerif.Model.Wallet
namespace OntVerif.Props.C38
open OntVerif.Model.Wallet

theorem C38_symbolic_ideal : Crypto.symbolic.Ideal := by
  intro k p s m p' m'
  simp [Crypto.symbolic]

def initW (prm : Nat) : W Crypto.symbolic := if prm = 0 then W.fresh _ else W.load (some (prm, []))

/-- as shipped: importing the same address twice and deleting it leaves the index and the file in disagreement -/
theorem C38_asShipped_counterexample_reload :
    let w := W.run .asShipped (initW 1) [.imp "a" 0 1 1 1 1 1 1, .imp "b" 0 1 2 1 1 2 1, .del 1 2]
    w.reload.num ≠ w.num := by decide

/-- as shipped: `NewAccount` in a wallet whose file carries non-default scrypt parameters makes an account that its own
password does not open -/
theorem C38_asShipped_counterexample_password :
    (W.run .asShipped (initW 1) [.new "a" 1 7 1001 1001 1]).openIndex 0 7 = some none := by decide

end OntVerif.Props.C38
