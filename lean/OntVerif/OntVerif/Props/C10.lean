import OntVerif.Proofs.GovSplit
import OntVerif.Proofs.GovInv
/-!
# C10 — Governance fee split never distributes more than it is splitting

Property theorems only (lemmas in `Proofs/GovSplit.lean`).  The model is `Model/Gov.lean` (`split2` = `executeSplit2` with
`splitNodeFee`, `executeAddressSplit`, `executePeerSplit`, `splitCurve`; `uint64` truncation modelled exactly, `big.Int`
exact), tied to the Go code by the correspondence harness `harness/cmd/c10` (the real `executeSplit2` on injected storage, and
whole governance histories).

`GovInv` (`Model.Gov.govInv`, a decidable predicate on what the split reads) is a hypothesis here and is *monitored* on
every state the real contract reaches in the correspondence runs; its preservation by the contract's operations is not proved
yet (hence `_partial`).
-/
namespace OntVerif.Props.C10
open OntVerif.Model.Gov OntVerif.Proofs.GovSplit OntVerif.Proofs.GovInv

/-- the ONG sent to the dapp (gas) address -/
def dappOf (r : SplitResult) : Nat := match r.dapp with | none => 0 | some (_, n) => n

/-- what the property states: for every state the contract can reach, a settlement credits at most the income -/
def C10_full_statement : Prop :=
  ∀ (g : Genesis) (ops : List Op) (r : SplitResult),
    let s := run ops (initSt true g)
    split2 (splitEnv s.book s.bank) = .ok r →
    dappOf r + csum r.credits ≤ s.bank.govOng - s.bank.splitFee ∧ r.splitSum = csum r.credits

/-- **Σ credits ≤ income, no underflow of the owner's remainder, split sum = Σ credits** — for *every* input of the split
that satisfies `GovInv`, whatever the stakes, positions, costs, `K`, `A/B`, dapp fee, curve and income (all of `uint64`). -/
theorem C10_sum_le (e : SplitEnv) (r : SplitResult) (hinv : govInv e = true) (h : split2 e = .ok r) :
    dappOf r + csum r.credits ≤ e.balance - e.splitFee ∧ r.splitSum = csum r.credits := by
  obtain ⟨hall, hAB, hd, hsf, hb, hlen, hK, hK0⟩ := govInv_unfold e hinv
  unfold split2 at h
  split at h
  · cases h
  · split at h
    · -- no dapp address: the whole income goes to the nodes
      unfold mkResult at h
      split at h
      · cases h
      · rename_i cr s hn
        cases h
        obtain ⟨b1, b2⟩ := split2Nodes_bound e _ cr s hn hall hAB hlen (by omega)
        simp only [dappOf]
        exact ⟨by omega, b2⟩
    · rename_i g hg
      have hdi : (e.balance - e.splitFee) * e.dappFee / 100 ≤ e.balance - e.splitFee := by
        apply Nat.div_le_of_le_mul
        rw [Nat.mul_comm 100]
        exact Nat.mul_le_mul_left _ hd
      have hdu : u64 ((e.balance - e.splitFee) * e.dappFee / 100) = (e.balance - e.splitFee) * e.dappFee / 100 :=
        u64_id (by omega)
      split at h
      · cases h
      · split at h
        · cases h
        · unfold mkResult at h
          split at h
          · cases h
          · rename_i cr s hn
            cases h
            obtain ⟨b1, b2⟩ := split2Nodes_bound e _ cr s hn hall hAB hlen (by omega)
            simp only [dappOf]
            rw [hdu]
            exact ⟨by omega, b2⟩

/-- the same for the contract's own states: whenever `GovInv` holds in a reachable state, the settlement of that state
credits at most the income.  (`C10_full_statement` without the `GovInv` hypothesis is not proved: it needs `GovInv` as an
invariant of all operations.) -/
theorem C10_partial (g : Genesis) (ops : List Op) (r : SplitResult) :
    let s := run ops (initSt true g)
    govInv (splitEnv s.book s.bank) = true →
    split2 (splitEnv s.book s.bank) = .ok r →
    dappOf r + csum r.credits ≤ s.bank.govOng - s.bank.splitFee ∧ r.splitSum = csum r.credits := by
  intro s hinv h
  exact C10_sum_le _ r hinv h

/-- the deployment the reachability theorems start from: `InitConfig` for `g`, funded -/
def start (g : Genesis) : St := initSt true g

/-- **`GovInv` is an invariant of the contract** — its logical core, for ALL operation sequences (rejected ones included) from
any genesis with distinct, non-empty peers: the position clause (`PosInv`: for every candidate of the settled view the
authorizers' settled positions are bounded by its `TotalPos` of that view, it is still in the current pool with the same
owner, `TotalPos` = Σ active positions, …) and the parameter clauses (`AuxInv`: `A + B ≤ 100`, dapp fee ≤ 100, every peer
cost ≤ 100 / stake cost ≤ 101 in all three epochs' slots, at least `K` candidates in the settled view, `K > 0`). -/
theorem C10_GovInv_invariant (g : Genesis) (ops : List Op) (hn : (g.peers.map (·.1)).Nodup) (hne : g.peers ≠ []) :
    PosInv (run ops (start g)).book ∧ AuxInv (run ops (start g)).book := by
  obtain ⟨h1, h2⟩ := init_inv g hn hne (start g).book rfl
  exact run_inv ops (start g) h1 h2

/-- …hence `GovInv` itself holds in every reachable state that respects the resource bounds (`Bounded`: candidate stakes
≤ 10^10, at most 10^4 candidates, `SplitFee ≤` ONG balance `< 2^64` — consequences of the ONT/ONG supply and of the
`candidateNum` parameter, not of the contract's logic). -/
theorem C10_govInv_reachable (g : Genesis) (ops : List Op) (hn : (g.peers.map (·.1)).Nodup) (hne : g.peers ≠ [])
    (hb : Bounded (run ops (start g)).book (run ops (start g)).bank) :
    govInv (splitEnv (run ops (start g)).book (run ops (start g)).bank) = true := by
  obtain ⟨h1, h2⟩ := C10_GovInv_invariant g ops hn hne
  exact govInv_of_inv _ _ h1 h2 hb

/-- **The property for reachable states**: after any history, a settlement credits at most the income; the only hypotheses
left are the resource bounds. -/
theorem C10_sum_le_reachable (g : Genesis) (ops : List Op) (r : SplitResult) (hn : (g.peers.map (·.1)).Nodup)
    (hne : g.peers ≠ []) (hb : Bounded (run ops (start g)).book (run ops (start g)).bank)
    (h : split2 (splitEnv (run ops (start g)).book (run ops (start g)).bank) = .ok r) :
    dappOf r + csum r.credits ≤ (run ops (start g)).bank.govOng - (run ops (start g)).bank.splitFee ∧
    r.splitSum = csum r.credits :=
  C10_sum_le _ r (C10_govInv_reachable g ops hn hne hb) h

/-- the repaired check of `UpdateGlobalParam` (/repo 73a62e81) rejects `A = 2^32 − 1, B = 101`, whose `uint32` sum is 100
(the former finding `govinv-a-plus-b`; witness in `corpus/C10/ab-wrap.ops`) -/
theorem C10_ab_wrap_rejected :
    gpSumBad { candidateFee := 0, minInitStake := 1, candidateNum := 49, posLimit := 20, A := 4294967295, B := 101,
               yita := 5, penalty := 5 } = true := by
  decide

/-- **`nodeAmount − sumAmount` does not underflow**: under `candOK` the credits of one node add up to exactly the node's
amount – the authorizers' shares never exceed it, the owner's remainder is the exact difference. -/
theorem C10_remain_nowrap (npc ex : Bool) (c : Cand) (nodeAmount : Nat) (cr : List (Nat × Nat))
    (h : splitNodeFee npc ex c nodeAmount = .ok cr) (hc : candOK c = true) (hn : nodeAmount < two64) :
    csum cr = nodeAmount :=
  splitNodeFee_sum npc ex c nodeAmount cr h hc hn

/-- `GovInv` is needed: with an authorizer position above the peer's `TotalPos` (here 1000 against 500) the shares of one
node exceed its amount, `nodeAmount − sumAmount` wraps and the owner is credited ~2^64. -/
theorem C10_needs_GovInv :
    ∃ c : Cand, candOK c = false ∧
      (match splitNodeFee true true c 1000 with
       | .ok cr => cr == [(9, 2000), (1, 18446744073709550616)]
       | .error _ => false) = true :=
  ⟨{ id := 1, owner := 1, initPos := 0, totalPos := 500, stake := 500, preCons := true, curCons := some true,
     peerCost := 0, stakeCost := 101, auths := [(9, 1000, 0)] }, by decide, by decide⟩

/-- a candidate whose `InitPos` and `TotalPos` are both 0 (reachable: setPromisePos 0, reduceInitPos to 0) satisfies `GovInv`
and is covered by `C10_sum_le`: the repaired `splitNodeFee` (commit bf3b894d) gives it no stake fee instead of dividing by 0 -/
example :
    let c : Cand := { id := 5, owner := 4, initPos := 0, totalPos := 0, stake := 0, preCons := true, curCons := some true,
                      peerCost := 100, stakeCost := 0, auths := [] }
    candOK c = true ∧ (match splitNodeFee true true c 1000 with | .ok cr => cr == [(4, 1000)] | .error _ => false) = true := by
  decide

/-! Non-vacuity: a concrete settlement satisfying `GovInv` with three nodes, authorizers and a dapp share. -/
def exampleEnv : SplitEnv :=
  { cands := [ { id := 2, owner := 2, initPos := 20000, totalPos := 0, stake := 20000, preCons := true, curCons := some true,
                 peerCost := 100, stakeCost := 0, auths := [] },
               { id := 1, owner := 1, initPos := 10000, totalPos := 1500, stake := 11500, preCons := true, curCons := some true,
                 peerCost := 10, stakeCost := 0, auths := [(9, 1000, 0), (10, 500, 0)] },
               { id := 3, owner := 6, initPos := 10000, totalPos := 500, stake := 10500, preCons := false, curCons := some false,
                 peerCost := 0, stakeCost := 101, auths := [(11, 0, 500)] } ],
    K := 2, A := 50, B := 50, yita := 5, candidateFeeSplitNum := 3, dappFee := 10, gasAddr := some 13,
    balance := 1000000000000, splitFee := 0, yi := OntVerif.Gen.Gov.Yi0, newPeerCost := true, exactDiv := true }

set_option maxRecDepth 20000 in
example : govInv exampleEnv = true ∧
    (match split2 exampleEnv with
     | .ok r => decide (dappOf r = 100000000000) && decide (0 < csum r.credits) && decide (r.credits.length = 6)
     | .error _ => false) = true := by
  decide

end OntVerif.Props.C10
