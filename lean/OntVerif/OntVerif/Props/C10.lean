import OntVerif.Proofs.GovSplit
/-!
# C10 — Governance fee split never distributes more than it is splitting

Property theorems only (lemmas in `Proofs/GovSplit.lean`).  The model is `Model/Gov.lean` (`split2` = `executeSplit2` with
`splitNodeFee`, `executeAddressSplit`, `executePeerSplit`, `splitCurve`; `uint64` truncation modelled exactly, `big.Int`
exact), tied to the Go code by the correspondence harness `harness/cmd/c10` (the real `executeSplit2` on injected storage, and
whole governance histories).

`GovInv` (`Model.Gov.govInv`, a decidable predicate on what the split reads) is a hypothesis here and is *monitored* on
every state the real contract reaches in the correspondence runs; its preservation by the contract's operations is not proved
yet (hence `_partial`).
-/
namespace OntVerif.Props.C10
open OntVerif.Model.Gov OntVerif.Proofs.GovSplit

/-- the ONG sent to the dapp (gas) address -/
def dappOf (r : SplitResult) : Nat := match r.dapp with | none => 0 | some (_, n) => n

/-- what the property states: for every state the contract can reach, a settlement credits at most the income -/
def C10_full_statement : Prop :=
  ∀ (g : Genesis) (ops : List Op) (r : SplitResult),
    let s := run ops (initSt true g)
    split2 (splitEnv s.book s.bank) = .ok r →
    dappOf r + csum r.credits ≤ s.bank.govOng - s.bank.splitFee ∧ r.splitSum = csum r.credits

/-- **Σ credits ≤ income, no underflow of the owner's remainder, split sum = Σ credits** — for *every* input of the split
that satisfies `GovInv`, whatever the stakes, positions, costs, `K`, `A/B`, dapp fee, curve and income (all of `uint64`). -/
theorem C10_sum_le (e : SplitEnv) (r : SplitResult) (hinv : govInv e = true) (h : split2 e = .ok r) :
    dappOf r + csum r.credits ≤ e.balance - e.splitFee ∧ r.splitSum = csum r.credits := by
  obtain ⟨hall, hAB, hd, hsf, hb, hlen, hK, hK0⟩ := govInv_unfold e hinv
  unfold split2 at h
  split at h
  · cases h
  · split at h
    · -- no dapp address: the whole income goes to the nodes
      unfold mkResult at h
      split at h
      · cases h
      · rename_i cr s hn
        cases h
        obtain ⟨b1, b2⟩ := split2Nodes_bound e _ cr s hn hall hAB hlen (by omega)
        simp only [dappOf]
        exact ⟨by omega, b2⟩
    · rename_i g hg
      have hdi : (e.balance - e.splitFee) * e.dappFee / 100 ≤ e.balance - e.splitFee := by
        apply Nat.div_le_of_le_mul
        rw [Nat.mul_comm 100]
        exact Nat.mul_le_mul_left _ hd
      have hdu : u64 ((e.balance - e.splitFee) * e.dappFee / 100) = (e.balance - e.splitFee) * e.dappFee / 100 :=
        u64_id (by omega)
      split at h
      · cases h
      · split at h
        · cases h
        · unfold mkResult at h
          split at h
          · cases h
          · rename_i cr s hn
            cases h
            obtain ⟨b1, b2⟩ := split2Nodes_bound e _ cr s hn hall hAB hlen (by omega)
            simp only [dappOf]
            rw [hdu]
            exact ⟨by omega, b2⟩

/-- the same for the contract's own states: whenever `GovInv` holds in a reachable state, the settlement of that state
credits at most the income.  (`C10_full_statement` without the `GovInv` hypothesis is not proved: it needs `GovInv` as an
invariant of all operations.) -/
theorem C10_partial (g : Genesis) (ops : List Op) (r : SplitResult) :
    let s := run ops (initSt true g)
    govInv (splitEnv s.book s.bank) = true →
    split2 (splitEnv s.book s.bank) = .ok r →
    dappOf r + csum r.credits ≤ s.bank.govOng - s.bank.splitFee ∧ r.splitSum = csum r.credits := by
  intro s hinv h
  exact C10_sum_le _ r hinv h

/-- **`nodeAmount − sumAmount` does not underflow**: under `candOK` the credits of one node add up to exactly the node's
amount – the authorizers' shares never exceed it, the owner's remainder is the exact difference. -/
theorem C10_remain_nowrap (npc ex : Bool) (c : Cand) (nodeAmount : Nat) (cr : List (Nat × Nat))
    (h : splitNodeFee npc ex c nodeAmount = .ok cr) (hc : candOK c = true) (hn : nodeAmount < two64) :
    csum cr = nodeAmount :=
  splitNodeFee_sum npc ex c nodeAmount cr h hc hn

/-- `GovInv` is needed: with an authorizer position above the peer's `TotalPos` (here 1000 against 500) the shares of one
node exceed its amount, `nodeAmount − sumAmount` wraps and the owner is credited ~2^64. -/
theorem C10_needs_GovInv :
    ∃ c : Cand, candOK c = false ∧
      (match splitNodeFee true true c 1000 with
       | .ok cr => cr == [(9, 2000), (1, 18446744073709550616)]
       | .error _ => false) = true :=
  ⟨{ id := 1, owner := 1, initPos := 0, totalPos := 500, stake := 500, preCons := true, curCons := some true,
     peerCost := 0, stakeCost := 101, auths := [(9, 1000, 0)] }, by decide, by decide⟩

/-- a candidate whose `InitPos` and `TotalPos` are both 0 (reachable: setPromisePos 0, reduceInitPos to 0) satisfies `GovInv`
and is covered by `C10_sum_le`: the repaired `splitNodeFee` (commit bf3b894d) gives it no stake fee instead of dividing by 0 -/
example :
    let c : Cand := { id := 5, owner := 4, initPos := 0, totalPos := 0, stake := 0, preCons := true, curCons := some true,
                      peerCost := 100, stakeCost := 0, auths := [] }
    candOK c = true ∧ (match splitNodeFee true true c 1000 with | .ok cr => cr == [(4, 1000)] | .error _ => false) = true := by
  decide

/-! Non-vacuity: a concrete settlement satisfying `GovInv` with three nodes, authorizers and a dapp share. -/
def exampleEnv : SplitEnv :=
  { cands := [ { id := 2, owner := 2, initPos := 20000, totalPos := 0, stake := 20000, preCons := true, curCons := some true,
                 peerCost := 100, stakeCost := 0, auths := [] },
               { id := 1, owner := 1, initPos := 10000, totalPos := 1500, stake := 11500, preCons := true, curCons := some true,
                 peerCost := 10, stakeCost := 0, auths := [(9, 1000, 0), (10, 500, 0)] },
               { id := 3, owner := 6, initPos := 10000, totalPos := 500, stake := 10500, preCons := false, curCons := some false,
                 peerCost := 0, stakeCost := 101, auths := [(11, 0, 500)] } ],
    K := 2, A := 50, B := 50, yita := 5, candidateFeeSplitNum := 3, dappFee := 10, gasAddr := some 13,
    balance := 1000000000000, splitFee := 0, yi := OntVerif.Gen.Gov.Yi0, newPeerCost := true, exactDiv := true }

set_option maxRecDepth 20000 in
example : govInv exampleEnv = true ∧
    (match split2 exampleEnv with
     | .ok r => decide (dappOf r = 100000000000) && decide (0 < csum r.credits) && decide (r.credits.length = 6)
     | .error _ => false) = true := by
  decide

end OntVerif.Props.C10
