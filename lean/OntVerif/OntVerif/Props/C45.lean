import OntVerif.Proofs.OntId
/-!
# C45 — Only an ONT ID's authorized keys or controllers can change it

Property theorems over the model `Model/OntId.lean` of `smartcontract/service/native/ontid` (all 40 writing methods
the contract registers, see `plan`), for **all** environments (`VerifyID`, key decoding, address derivation are
uninterpreted), all initial storages and all histories — each invocation with its own witness set and fork-height side.
Helper lemmas: `Proofs/OntId.lean`. The model is tied to the Go contract by `harness/cmd/c45` on every run.

Vocabulary (defined in the model file, independent of the executable checks):
`Witnessed tx key` — CheckWitness holds for the key's address (or for the key itself when it is a bare address);
`KeyWitness w id idx` — key `uint32(idx)` of `id` exists, is not revoked, has authentication rights, is `Witnessed`;
`GroupProof w g signers` — the signer IDs meet the recursive thresholds of `g` and every signer is a `KeyWitness` of its ID;
`CtrlProof` — index proof for a single controller, `GroupProof` for a group controller;
`Authorized w id req` — the statement of the property for the authorization `req` a method demands;
`StatusReq` — registrations need an unregistered well-formed ID, everything else a *valid* (not revoked) one.
-/
namespace OntVerif.Props.C45
open OntVerif.Util OntVerif.Model.OntId OntVerif.Proofs.OntId

/-- **Every successful writing invocation was authorized.** In every history, from every storage: if an invocation
of a writing method returned success then, in the state it ran in, the target identity was in the required state
(valid for modifications — never revoked —, unregistered for registrations) and the transaction carried the
authorization the method demands: a witness for a non-revoked authentication key of the identity (by index or by
key bytes), or the deprecated recovery address where `addKey`/`removeKey`/`changeRecovery` accept it, or a valid
proof of the identity's controller (single: a `KeyWitness` of the controller ID; group: a `GroupProof`), or a valid
`GroupProof` of its recovery group. -/
theorem C45_authorized (env : Env) (w : World) (hist : History) (e : Event) (he : e ∈ trace env w hist)
    (hok : e.res = .ok) (_hm : e.op.mutating env = true) :
    StatusReq env e.pre e.op ∧ Authorized env e.tx e.pre (e.op.target env) (plan env e.op).auth := by
  have hs := trace_step hist w e he
  rw [hok] at hs
  have p := step_ok hs
  exact ⟨statusReq_of_statusOk p.status, authOk_sound p.auth⟩

/-- the same for one invocation -/
theorem C45_authorized_step (env : Env) (tx : Tx) (w w' : World) (op : Op) (h : step env tx w op = (w', .ok)) :
    StatusReq env w op ∧ Authorized env tx w (op.target env) (plan env op).auth :=
  ⟨statusReq_of_statusOk (step_ok h).status, authOk_sound (step_ok h).auth⟩

/-- contrapositive with the frame: without the authorization nothing is written at all -/
theorem C45_unauthorized_rejected (env : Env) (tx : Tx) (w : World) (op : Op)
    (h : ¬ Authorized env tx w (op.target env) (plan env op).auth) :
    (step env tx w op).2 ≠ .ok ∧ (step env tx w op).1 = w := by
  have hne : (step env tx w op).2 ≠ .ok := by
    intro hc
    have hp : step env tx w op = ((step env tx w op).1, .ok) := by rw [← hc]
    exact h (authOk_sound (step_ok hp).auth)
  exact ⟨hne, step_not_ok hne⟩

/-- an invocation that fails changes nothing, and a successful one writes only its target's records -/
theorem C45_frame (env : Env) (tx : Tx) (w : World) (op : Op) :
    ((step env tx w op).2 ≠ .ok → (step env tx w op).1 = w) ∧
    (∀ j, j ≠ op.target env → (step env tx w op).1 j = w j) :=
  ⟨step_not_ok, fun j hj => step_frame env tx w op j hj⟩

/-- **Revocation is final.** Once an identity is revoked, along every later history its records never change again
(in particular its state stays `revoked`), and every invocation aimed at it — registrations included — fails. -/
theorem C45_revoked_final (env : Env) (w : World) (id : Bytes) (hist : History) (h : (w id).status = .revoked) :
    run env w hist id = w id ∧
    ∀ e ∈ trace env w hist, e.pre id = w id ∧ e.post id = w id ∧ (e.op.target env = id → e.res = .fail) :=
  run_revoked id hist w h

/-- revoking really reaches that state: a successful `revokeID` / `revokeIDByController` leaves the identity revoked
with no keys, controller or recovery -/
theorem C45_revoke_effect (env : Env) (tx : Tx) (w w' : World) (op : Op) (h : step env tx w op = (w', .ok))
    (hd : (plan env op).eff = .deleteID) :
    (w' (op.target env)).status = .revoked ∧ (w' (op.target env)).keys = [] ∧
    (w' (op.target env)).ctrl = none := by
  obtain ⟨x, hx, hw⟩ := (step_ok h).eff
  rw [hd] at hx
  simp only [applyEff] at hx
  cases hx
  subst hw
  simp [World.set, Op.target, deleted]

/-- **A revoked key never authorizes again.** If key number `j+1` of an identity is revoked then, after every
history, no transaction whatsoever is a `KeyWitness` for that index of that identity (the entry stays in place and
revoked until the identity itself is revoked and emptied; no method un-revokes or replaces it). -/
theorem C45_revoked_key_never_authorizes (env : Env) (w : World) (id : Bytes) (j : Nat) (k : Key)
    (hk : (w id).keys[j]? = some k) (hr : k.revoked = true) (hist : History) (tx : Tx) (idx : Nat)
    (hi : u32 idx = j + 1) : ¬ KeyWitness env tx (run env w hist) id idx := by
  intro ⟨k', _, h2, h3, _⟩
  rw [hi] at h2
  simp only [Nat.add_sub_cancel] at h2
  rcases run_keeps (env := env) hr hist w (Or.inl hk) with h | h
  · rw [h] at h2; cases h2; rw [hr] at h3; cases h3
  · rw [h.2] at h2; simp at h2

/-- the threshold recursion of `verifyThreshold` is what it should be: a group is satisfied iff at least
`threshold` of its members (IDs among the signers, sub-groups recursively) are -/
theorem C45_threshold_spec (ids : List Bytes) (ms : List Grp) (thr : Nat) :
    verifyThreshold ids (.sub ms thr) = true ↔ thr ≤ (ms.filter (verifyThreshold ids)).length := by
  simp [verifyThreshold, countSigned_eq]

/-- a valid proof for a group all of whose thresholds are positive contains a signer that is a member of the group
and a `KeyWitness` of its own identity (with a threshold of 0 somewhere, nobody may be needed: as configured) -/
theorem C45_strict_group_needs_member_witness (env : Env) (tx : Tx) (w : World) (g : Grp) (ss : List Signer)
    (hs : g.strict = true) (h : GroupProof env tx w g ss) :
    ∃ s ∈ ss, s.1 ∈ g.leaves ∧ KeyWitness env tx w s.1 s.2 := by
  obtain ⟨i, hi, hl⟩ := strict_needs (ss.map (·.1)) g hs h.1
  obtain ⟨s, hs1, hs2⟩ := List.mem_map.mp hi
  exact ⟨s, hs1, by rw [hs2]; exact hl, h.2 s hs1⟩

/-- **A group controller is only ever what the registrant configured.** The controller record of an identity becomes
a group `g` (threshold 0 and nested threshold-0 sub-groups included) in exactly one way: a successful
`regIDWithController` of the then-unregistered identity with that very group as argument and a valid `GroupProof`
*of that group*. No method changes a controller afterwards (`removeController` / revocation only delete it). A group
with threshold 0 is accepted (`rDeserialize` only refuses `threshold > len(members)`; `validateMembers` does not look
at thresholds and is not even called for controllers) and is then satisfied by an empty signer list: whoever
registers the identity chooses "everyone may act", nobody can impose it on an existing identity. -/
theorem C45_group_controller_only_by_registration (env : Env) (tx : Tx) (w w' : World) (op : Op) (g : Grp)
    (h : step env tx w op = (w', .ok)) (hnew : (w' (op.target env)).ctrl = some (.group g))
    (hold : (w (op.target env)).ctrl ≠ some (.group g)) :
    ∃ p ss, op = .regIDWithController (op.target env) (.group g) p ∧ (w (op.target env)).status = .absent ∧
      p.asSigners = some ss ∧ GroupProof env tx w g ss := by
  have P := step_ok h
  obtain ⟨x, hx, hw⟩ := P.eff
  have hx' : (w' (op.target env)).ctrl = x.ctrl := by rw [hw]; simp [World.set, Op.target]
  unfold Op.target at *
  rcases applyEff_ctrl hx with h1 | ⟨c, hc, h2⟩ | ⟨h3, _⟩
  · rw [hx', h1] at hnew; exact absurd hnew hold
  · obtain ⟨p, hop, hauth⟩ := plan_eff_regCtrl hc
    have ha := authOk_sound P.auth
    rw [hauth] at ha
    obtain ⟨c', hc', hp⟩ := ha
    rw [hx', h2, hc'] at hnew
    cases hnew
    have hcg : c = .group g := by
      cases c <;> simp [CtrlArg.toCtrl] at hc'
      rw [hc']
    subst hcg
    obtain ⟨ss, hs, hg⟩ := hp
    have hst := (statusOk_status P.status).1 (by rw [hop]; simp [plan])
    exact ⟨p, ss, hop, hst.1, hs, hg⟩
  · rw [hx', h3] at hnew; cases hnew

/-- **A recovery group is only ever what the owner (or the previous recovery group) configured.** The recovery
record of an identity becomes a group `g` only by `setRecovery` witnessed by a non-revoked authentication key of the
identity itself, or by `updateRecovery` carrying a valid `GroupProof` of the recovery group stored before. -/
theorem C45_recovery_group_only_by_owner_or_recovery (env : Env) (tx : Tx) (w w' : World) (op : Op) (g : Grp)
    (h : step env tx w op = (w', .ok)) (hnew : (w' (op.target env)).recov = .grp g)
    (hold : (w (op.target env)).recov ≠ .grp g) :
    (∃ idx, op = .setRecovery (op.target env) (some g) idx ∧ KeyWitness env tx w (op.target env) idx) ∨
    (∃ p g0 ss, op = .updateRecovery (op.target env) (some g) p ∧ (w (op.target env)).recov = .grp g0 ∧
      p.asSigners = some ss ∧ GroupProof env tx w g0 ss) := by
  have P := step_ok h
  obtain ⟨x, hx, hw⟩ := P.eff
  have hx' : (w' (op.target env)).recov = x.recov := by rw [hw]; simp [World.set, Op.target]
  unfold Op.target at *
  have ha := authOk_sound P.auth
  rcases applyEff_recov hx with h1 | ⟨g', b, he, h2⟩ | ⟨a, b, _, h2⟩ | ⟨h3, _⟩
  · rw [hx', h1] at hnew; exact absurd hnew hold
  · rw [hx', h2] at hnew
    cases hnew
    rcases plan_eff_setRecGrp he with ⟨idx, hop, hauth⟩ | ⟨p, hop, hauth⟩
    · rw [hauth] at ha; exact Or.inl ⟨idx, hop, ha⟩
    · rw [hauth] at ha
      obtain ⟨g0, ss, hr, hs, hg⟩ := ha
      exact Or.inr ⟨p, g0, ss, hop, hr, hs, hg⟩
  · rw [hx', h2] at hnew; cases hnew
  · rw [hx', h3] at hnew; cases hnew

/-- **No rights, no change.** A valid identity without controller and without recovery, none of whose witnessed
keys is a non-revoked authentication key, cannot be changed by that transaction through any method. -/
theorem C45_no_rights_no_change (env : Env) (tx : Tx) (w : World) (op : Op)
    (hv : (w (op.target env)).status = .valid) (hc : (w (op.target env)).ctrl = none)
    (hrec : (w (op.target env)).recov = .none)
    (hk : ∀ k ∈ (w (op.target env)).keys, Witnessed env tx k.key → k.revoked = true ∨ k.isAuth = false)
    (hm : op.mutating env = true) :
    (step env tx w op).2 ≠ .ok ∧ (step env tx w op).1 = w := by
  have hne : (step env tx w op).2 ≠ .ok := by
    intro hok
    have hp : step env tx w op = ((step env tx w op).1, .ok) := by rw [← hok]
    obtain ⟨hst, ha⟩ := C45_authorized_step env tx w _ op hp
    have hreg : (plan env op).reg = false := by
      cases hr : (plan env op).reg
      · rfl
      · simp only [StatusReq, hr, if_true] at hst
        rw [hv] at hst; cases hst.1
    unfold Op.target at hv hc hrec hk ha
    cases hauth : (plan env op).auth with
    | keyIdx i =>
      rw [hauth] at ha
      obtain ⟨k, _, h2, h3, h4, h5⟩ := ha
      rcases hk k (List.mem_of_getElem? h2) h5 with h | h
      · rw [h] at h3; cases h3
      · rw [h] at h4; cases h4
    | keyIdxNoAuth i =>
      have : (plan env op).eff = .nop := by
        revert hauth; cases op <;> simp [plan]
      simp [Op.mutating, this, Eff.isNop] at hm
    | ownerPk opk m =>
      rw [hauth] at ha
      obtain ⟨hw, h | h⟩ := ha
      · obtain ⟨k, hmem, he, h3, h4⟩ := h
        rcases hk k hmem (by rw [he]; exact hw) with h | h
        · rw [h] at h3; cases h3
        · rw [h] at h4; cases h4
      · rw [hrec] at h; cases h.2
    | controller p =>
      rw [hauth] at ha
      obtain ⟨c, h, _⟩ := ha
      rw [hc] at h; cases h
    | recovery p =>
      rw [hauth] at ha
      obtain ⟨g, ss, h, _⟩ := ha
      rw [hrec] at h; cases h
    | oldRecovery a =>
      rw [hauth] at ha
      have h := ha.1
      rw [hrec] at h; cases h
    | regPk pk => rw [(plan_reg env op).1 pk hauth] at hreg; cases hreg
    | regCtrl c p => rw [(plan_reg env op).2 c p hauth] at hreg; cases hreg
    | deny => rw [hauth] at ha; exact ha
  exact ⟨hne, step_not_ok hne⟩

/-! ### Non-vacuity: the hypotheses are met by concrete, non-trivial states -/

/-- a concrete environment: IDs start with 'i', keys with 'k', the address of key `k…` is `a…` -/
def exEnv : Env :=
  { validId := fun b => b.head? == some 105, encodable := fun b => !b.isEmpty,
    validPk := fun b => b.head? == some 107, addrOf := fun b => 97 :: b.tail, isAddr := fun b => b.head? == some 97 }

def i0 : Bytes := [105, 0]
def i1 : Bytes := [105, 1]
def k0 : Bytes := [107, 0]
def k1 : Bytes := [107, 1]
def a0 : Bytes := [97, 0]
def a1 : Bytes := [97, 1]
def txOf (wit : List Bytes) : Tx := { wit := wit, newApi := true }
def noProof : Proof := { asIndex := none, asSigners := none }

/-- register i0 with k0; add k1 (no authentication rights); k1 tries to act (refused); register i1 under the group
controller {i0} threshold 1; the controller adds a key; k0 is revoked by itself; k0 tries again (refused);
i1 is revoked by its controller — impossible now, i0 has no live key; -/
def exHist : History :=
  [ (txOf [a0], .regIDWithPublicKey i0 k0),
    (txOf [a0], .addKeyByIndex i0 k1 1 none),
    (txOf [a1], .addService i0 [1] [2] 2),
    (txOf [a0], .regIDWithController i1 (.group (.sub [.id i0] 1)) { asIndex := none, asSigners := some [(i0, 1)] }),
    (txOf [a0], .addKeyByController i1 k1 { asIndex := none, asSigners := some [(i0, 1)] } none),
    (txOf [a0], .removeKeyByIndex i0 k0 1),
    (txOf [a0], .addService i0 [1] [2] 1),
    (txOf [a0], .revokeIDByController i1 { asIndex := none, asSigners := some [(i0, 1)] }) ]

example : (trace exEnv World.empty exHist).map (·.res) = [.ok, .ok, .fail, .ok, .ok, .ok, .fail, .fail] := by decide
example : (exHist.map (fun e => e.2.mutating exEnv)).all id = true := by decide

/-- a revoked identity exists: register, then revoke -/
def exRevoked : World := run exEnv World.empty [(txOf [a0], .regIDWithPublicKey i0 k0), (txOf [a0], .revokeID i0 1)]
example : (exRevoked i0).status = .revoked := by decide
example : (step exEnv (txOf [a0]) exRevoked (.regIDWithPublicKey i0 k0)).2 = .fail := by decide

/-- a revoked key entry exists (hypothesis of `C45_revoked_key_never_authorizes`) -/
example : ((run exEnv World.empty exHist i0).keys[0]?).map (·.revoked) = some true := by decide

/-- a strict group and a valid proof for it -/
example : (Grp.sub [.id i0, .sub [.id i1] 1] 1).strict = true := by decide
example : verifyGroupSignature exEnv (txOf [a0])
    (run exEnv World.empty [(txOf [a0], .regIDWithPublicKey i0 k0)]) (.sub [.id i0, .sub [.id i1] 1] 1) [(i0, 1)] = true := by decide

/-- hypotheses of `C45_no_rights_no_change`: i0 with a single key that is not an authentication key
(`regIDWithAttributes` registers it that way) -/
example : ((run exEnv World.empty [(txOf [a0], .regIDWithAttributes i0 k0 [])]) i0).keys.map (·.isAuth) = [false] := by decide

/-- key index 0 in `removeKeyByController` is refused like any index without a key (before /repo bdce7b3a the
contract panicked here, after the controller's authorization) -/
example : ((trace exEnv World.empty
    [ (txOf [a0], .regIDWithPublicKey i0 k0),
      (txOf [a0], .regIDWithController i1 (.single i0) { asIndex := some 1, asSigners := none }),
      (txOf [a0], .removeKeyByController i1 0 { asIndex := some 1, asSigners := none }),
      (txOf [a0], .removeKeyByController i1 7 { asIndex := some 1, asSigners := none }) ]).map (·.res))
    = [.ok, .ok, .fail, .fail] := by decide

/-- threshold-0 configurations are accepted and then need no witness: controller at registration … -/
example : ((trace exEnv World.empty
    [ (txOf [], .regIDWithController i0 (.group (.sub [] 0)) { asIndex := some 0, asSigners := some [] }),
      (txOf [], .addKeyByController i0 k0 { asIndex := some 0, asSigners := some [] } none) ]).map (·.res)) = [.ok, .ok] := by decide
/-- … and recovery only with the owner's key (second op: same request without the witness) -/
example : ((trace exEnv World.empty
    [ (txOf [a0], .regIDWithPublicKey i0 k0),
      (txOf [], .setRecovery i0 (some (.sub [] 0)) 1),
      (txOf [a0], .setRecovery i0 (some (.sub [] 0)) 1),
      (txOf [], .addKeyByRecovery i0 k1 { asIndex := some 0, asSigners := some [] } none) ]).map (·.res))
    = [.ok, .fail, .ok, .ok] := by decide

end OntVerif.Props.C45
