import OntVerif.Proofs.Merkle
/-!
# C26 — Block-root merkle tree gives verifiable inclusion and consistency proofs

Model: `Model/Merkle.lean` (mirror of `merkle/merkle_tree.go`, `merkle_hasher.go`, `file_hash_store.go`), tied to the
Go code by `harness/cmd/c26`.  `Hash` is an arbitrary type, `H1` (node hash) and `He` (hash of the empty tree) arbitrary:
no injectivity assumption anywhere; soundness statements have the form "accepted ⇒ fact ∨ explicit `H1` collision".
-/
namespace OntVerif.Props.C26
open OntVerif.Util OntVerif.Model.Merkle OntVerif.Proofs.Merkle

variable {Hash : Type}

/-- **Incremental root = full-tree root.**  Starting from `NewTree(0, nil, store)` (any of: nil store, empty store),
appending any list of leaf hashes never panics, and the compact tree's `Root()` is the RFC 6962 tree hash
`HashFullTreeWithLeafHash` of all leaves; size and number of kept hashes are right. -/
theorem C26_root (H1 : Hash → Hash → Hash) (He : Hash) (st : Option (List Hash)) (hst : st = none ∨ st = some [])
    (L : List Hash) :
    ∃ t0 t, newTree 0 [] st = some t0 ∧ t0.appendAll H1 L = some t ∧
      t.root H1 He = mth H1 He L ∧ t.size = L.length ∧ t.hashes.length = countBit t.size := by
  obtain ⟨t, h1, h2, _⟩ := holds_appendAll H1 He L ⟨0, [], st⟩ [] (holds_empty H1 He st hst)
  refine ⟨⟨0, [], st⟩, t, by simp [newTree, countBit, popF], h1, ?_, ?_, ?_⟩
  · simpa using holds_root H1 He t _ h2
  · simpa using h2.size
  · exact holds_hashes_length H1 He t _ h2

/-- **Inclusion, completeness (verifier).**  The RFC 6962 audit path of leaf `m` in a tree of leaves `D` is accepted by
`VerifyLeafHashInclusion` against the tree hash of `D`. -/
theorem C26_incl_complete_verifier [DecidableEq Hash] (H1 : Hash → Hash → Hash) (He : Hash) (D : List Hash) (m : Nat)
    (leaf : Hash) (hm : D[m]? = some leaf) :
    verifyInclusion H1 leaf m (pathSpec H1 He m D) (mth H1 He D) D.length = .ok () := by
  have hlt : m < D.length := by
    rcases Nat.lt_or_ge m D.length with h | h
    · exact h
    · rw [List.getElem?_eq_none h] at hm; cases hm
  rw [verifyInclusion_ok_iff]
  refine ⟨hlt, ?_⟩
  have := evalRec_complete H1 He D.length D m leaf [] rfl hm
  simpa using this

/-- **Inclusion, soundness.**  If `VerifyLeafHashInclusion(leaf, i, proof, root, n)` accepts, then in *every* list of `n`
leaf hashes whose tree hash is `root`, position `i` holds `leaf` — or an explicit collision of the node hash exists. -/
theorem C26_incl_sound [DecidableEq Hash] (H1 : Hash → Hash → Hash) (He : Hash) (leaf : Hash) (i : Nat)
    (proof : List Hash) (root : Hash) (n : Nat)
    (hv : verifyInclusion H1 leaf i proof root n = .ok ()) (D : List Hash) (hn : D.length = n)
    (hr : mth H1 He D = root) :
    D[i]? = some leaf ∨ Collision1 H1 := by
  obtain ⟨hi, hev⟩ := (verifyInclusion_ok_iff H1 leaf i proof root n).1 hv
  exact evalRec_sound H1 He n D i leaf proof [] root hn hi hev hr

/-- **Altered leaf or proof element is rejected.**  Two accepted verifications for the same index, size and root have
the same leaf and the same proof (element by element, same length) — or an explicit collision exists. -/
theorem C26_incl_mutation_rejected [DecidableEq Hash] (H1 : Hash → Hash → Hash) (leaf leaf' : Hash) (i : Nat)
    (proof proof' : List Hash) (root : Hash) (n : Nat)
    (h1 : verifyInclusion H1 leaf i proof root n = .ok ()) (h2 : verifyInclusion H1 leaf' i proof' root n = .ok ()) :
    (leaf = leaf' ∧ proof = proof') ∨ Collision1 H1 := by
  obtain ⟨_, e1⟩ := (verifyInclusion_ok_iff H1 leaf i proof root n).1 h1
  obtain ⟨_, e2⟩ := (verifyInclusion_ok_iff H1 leaf' i proof' root n).1 h2
  rcases evalRec_unique H1 n i leaf leaf' proof proof' [] [] root e1 e2 with ⟨hl, used, hu, hu'⟩ | h
  · left; exact ⟨hl, by simp at hu hu'; rw [hu, hu']⟩
  · right; exact h

/-- an altered root is rejected (the verifier is a function of its inputs) -/
theorem C26_incl_root_mutation_rejected [DecidableEq Hash] (H1 : Hash → Hash → Hash) (leaf : Hash) (i : Nat)
    (proof : List Hash) (root root' : Hash) (n : Nat)
    (h1 : verifyInclusion H1 leaf i proof root n = .ok ()) (h2 : verifyInclusion H1 leaf i proof root' n = .ok ()) :
    root = root' := by
  obtain ⟨_, e1⟩ := (verifyInclusion_ok_iff H1 leaf i proof root n).1 h1
  obtain ⟨_, e2⟩ := (verifyInclusion_ok_iff H1 leaf i proof root' n).1 h2
  rw [e1] at e2
  simpa using e2

/-- **Consistency, completeness (verifier).**  For every `m ≤ |D|` the RFC 6962 consistency proof between the first `m`
leaves and `D` (empty for `m = 0` and `m = |D|`) is accepted by `VerifyConsistency`. -/
theorem C26_cons_complete_verifier [DecidableEq Hash] (H1 : Hash → Hash → Hash) (He : Hash) (D : List Hash) (m : Nat)
    (hm : m ≤ D.length) :
    verifyConsistency H1 He m D.length (mth H1 He (D.take m)) (mth H1 He D) (consProofSpec H1 He m D) = .ok () := by
  by_cases h0 : m = D.length
  · subst h0; simp [verifyConsistency, consProofSpec]
  · by_cases hz : m = 0
    · subst hz; simp [verifyConsistency, consProofSpec, h0]
    · rw [verifyConsistency_mid H1 He m D.length _ _ _ (by omega) (by omega), consFinish_ok]
      have := consRec_complete H1 He D.length false m D (mth H1 He (D.take m)) [] rfl (by omega) hm (fun _ => rfl)
      simpa [consProofSpec, h0, hz] using this

/-- **Consistency, soundness (collision-extraction form).**  If `VerifyConsistency(m, n, old_root,
new_root, proof)` accepts, then for *every* list `D` of `n` leaf hashes with tree hash `new_root`, `old_root` is the tree
hash of its first `m` leaves — or an explicit collision of the node hash exists.  (All cases: `m = 0`, `m = n`, `0 < m < n`.) -/
theorem C26_cons_sound [DecidableEq Hash] (H1 : Hash → Hash → Hash) (He : Hash) (m n : Nat) (oldRoot newRoot : Hash)
    (proof : List Hash) (hv : verifyConsistency H1 He m n oldRoot newRoot proof = .ok ())
    (D : List Hash) (hn : D.length = n) (hr : mth H1 He D = newRoot) :
    mth H1 He (D.take m) = oldRoot ∨ Collision1 H1 := by
  by_cases hgt : m > n
  · simp [verifyConsistency, hgt] at hv
  by_cases heq : m = n
  · subst heq
    simp only [verifyConsistency, Nat.lt_irrefl, if_false, if_true] at hv
    by_cases hrr : oldRoot = newRoot
    · left; rw [← hn, List.take_length, hr, hrr]
    · simp [hrr] at hv
  by_cases hz : m = 0
  · subst hz
    simp only [verifyConsistency, if_neg hgt, if_neg heq, if_true] at hv
    by_cases hoe : oldRoot = He
    · left; simp [hoe]
    · simp [hoe] at hv
  · rw [verifyConsistency_mid H1 He m n _ _ _ (by omega) (by omega), consFinish_ok] at hv
    exact consRec_sound H1 He n false m D oldRoot oldRoot newRoot proof [] hn (by omega) (by omega) hv hr

/-- the same against a committed old tree: if `old_root` is the tree hash of some list of `m` leaf hashes, that list
*is* the prefix of the new tree (append-only) — or a collision is exhibited -/
theorem C26_cons_sound_prefix [DecidableEq Hash] (H1 : Hash → Hash → Hash) (He : Hash) (m n : Nat) (oldRoot newRoot : Hash)
    (proof : List Hash) (hv : verifyConsistency H1 He m n oldRoot newRoot proof = .ok ())
    (D Dold : List Hash) (hn : D.length = n) (hr : mth H1 He D = newRoot)
    (hm : Dold.length = m) (hro : mth H1 He Dold = oldRoot) :
    Dold = D.take m ∨ Collision1 H1 := by
  have hmn : m ≤ n := by
    rcases Nat.lt_or_ge n m with h | h
    · simp [verifyConsistency, h] at hv
    · exact h
  rcases C26_cons_sound H1 He m n oldRoot newRoot proof hv D hn hr with h | c
  · exact mth_inj H1 He m Dold (D.take m) hm (by rw [List.length_take]; omega) (by rw [hro, h])
  · right; exact c

/-- **Altered consistency-proof elements are rejected**: two accepted proofs for the same sizes and roots are equal
(same length, same elements) — or a collision is exhibited -/
theorem C26_cons_mutation_rejected [DecidableEq Hash] (H1 : Hash → Hash → Hash) (He : Hash) (m n : Nat)
    (oldRoot newRoot : Hash) (proof proof' : List Hash)
    (h1 : verifyConsistency H1 He m n oldRoot newRoot proof = .ok ())
    (h2 : verifyConsistency H1 He m n oldRoot newRoot proof' = .ok ()) :
    proof = proof' ∨ Collision1 H1 := by
  by_cases hgt : m > n
  · simp [verifyConsistency, hgt] at h1
  by_cases heq : m = n
  · subst heq
    simp only [verifyConsistency, Nat.lt_irrefl, if_false, if_true] at h1 h2
    left
    by_cases hrr : oldRoot = newRoot
    · by_cases hp : proof = []
      · by_cases hp' : proof' = []
        · rw [hp, hp']
        · simp [hrr, hp'] at h2
      · simp [hrr, hp] at h1
    · simp [hrr] at h1
  by_cases hz : m = 0
  · subst hz
    simp only [verifyConsistency, if_neg hgt, if_neg heq, if_true] at h1 h2
    left
    by_cases hoe : oldRoot = He
    · by_cases hp : proof = []
      · by_cases hp' : proof' = []
        · rw [hp, hp']
        · simp [hoe, hp'] at h2
      · simp [hoe, hp] at h1
    · simp [hoe] at h1
  · rw [verifyConsistency_mid H1 He m n _ _ _ (by omega) (by omega), consFinish_ok] at h1 h2
    rcases consRec_unique H1 n false m oldRoot oldRoot newRoot proof proof' [] [] (by omega) (by omega) h1 h2 with ⟨u, hu, hu'⟩ | c
    · left; simp at hu hu'; rw [hu, hu']
    · right; exact c

/-! ### The verifier before bf734509 (`old_root == new_root → nil`, `old_size == 0 → nil`) was unsound

The statement of `C26_cons_sound` for an arbitrary verifier; the two recorded witnesses (also in `corpus/C26/`, where a
reversion of the repair is a VIOLATION) refute it for `verifyConsistencyBefore` over the free term algebra (no collisions). -/

def ConsSound (verify : Nat → Nat → T → T → List T → Except VErr Unit) : Prop :=
  ∀ (m n : Nat) (oldRoot newRoot : T) (proof : List T), verify m n oldRoot newRoot proof = .ok () →
    ∀ D : List T, D.length = n → mth T.node T.empty D = newRoot →
      mth T.node T.empty (D.take m) = oldRoot ∨ Collision1 T.node

/-- the verifier as it is satisfies it … -/
theorem C26_cons_sound_T : ConsSound (verifyConsistency T.node T.empty) :=
  fun m n o nw proof hv D hn hr => C26_cons_sound T.node T.empty m n o nw proof hv D hn hr

def leaves5 : List T := [T.leaf [0], T.leaf [1], T.leaf [2], T.leaf [3], T.leaf [4]]

/-- … the one before the repair did not: equal roots were accepted for sizes 3 and 5 with an empty proof -/
theorem C26_before_repair_counterexample_equal_roots : ¬ ConsSound (verifyConsistencyBefore T.node) := by
  intro h
  rcases h 3 5 (mth T.node T.empty leaves5) (mth T.node T.empty leaves5) [] (by rfl) leaves5 rfl rfl with h | h
  · exact absurd h (by decide)
  · exact no_collision1_T h

/-- … and an empty old tree was accepted with any "root" -/
theorem C26_before_repair_counterexample_old_size_0 : ¬ ConsSound (verifyConsistencyBefore T.node) := by
  intro h
  rcases h 0 5 (T.leaf [9]) (mth T.node T.empty leaves5) [] (by rfl) leaves5 rfl rfl with h | h
  · exact absurd h (by decide)
  · exact no_collision1_T h

/-! ### The tree with its hash store: generated proofs, store layout, reload -/

def n01 : T := T.node (T.leaf [0]) (T.leaf [1])
def n23 : T := T.node (T.leaf [2]) (T.leaf [3])

/-- **Store layout.**  After any appends the hash store is the post-order layout `lay L` (every leaf followed by the
roots of the full subtrees it completes), it holds exactly `getStoredHashNum(size)` hashes, and `merkleRoot(n)` —
reading the roots at the positions of `getSubTreePos(n)` and folding — is the tree hash of the first `n` leaves. -/
theorem C26_store_layout (H1 : Hash → Hash → Hash) (He : Hash) (t : Tree Hash) (L : List Hash) (h : Built H1 t L) :
    t.store = some (lay H1 He L) ∧ (lay H1 He L).length = storedHashNum t.size ∧
    ∀ n, 1 ≤ n → n ≤ L.length → merkleRootAt H1 (lay H1 He L) n = some (mth H1 He (L.take n)) := by
  obtain ⟨hh, s, hs⟩ := built_holds H1 He t L h
  refine ⟨by rw [hs, hh.store s hs]; rfl, by rw [hh.size]; exact lay_length H1 He _ L rfl, ?_⟩
  intro n h1 hn
  obtain ⟨ext, hext⟩ := lay_take H1 He L n
  have := readFold_spec H1 He n (L.take n) [] ext 0 (by rw [List.length_take]; omega) h1 rfl
  rw [List.nil_append, ← hext] at this
  exact this

/-- **Inclusion, completeness (generator + verifier).**  For every leaf index `m` and every tree size `n` with
`m < n ≤ size`, `InclusionProof(m, n)` succeeds (no out-of-range store read), returns the RFC 6962 audit path, and
`VerifyLeafHashInclusion` accepts it for leaf `L[m]` against the root of the first `n` leaves. -/
theorem C26_incl_complete [DecidableEq Hash] (H1 : Hash → Hash → Hash) (He : Hash) (t : Tree Hash) (L : List Hash)
    (h : Built H1 t L) (m n : Nat) (hm : m < n) (hn : n ≤ L.length) (leaf : Hash) (hl : L[m]? = some leaf) :
    t.inclusionProof H1 m n = .ok (some (pathSpec H1 He m (L.take n))) ∧
    verifyInclusion H1 leaf m (pathSpec H1 He m (L.take n)) (mth H1 He (L.take n)) n = .ok () := by
  obtain ⟨hh, s, hs⟩ := built_holds H1 He t L h
  refine ⟨holds_inclusionProof H1 He t L hh s hs m n hm hn, ?_⟩
  have hlen : (L.take n).length = n := by rw [List.length_take]; omega
  have := C26_incl_complete_verifier H1 He (L.take n) m leaf (by rw [List.getElem?_take_of_lt hm]; exact hl)
  rw [hlen] at this
  exact this

/-- **Consistency, completeness (generator + verifier).**  For all sizes `m ≤ n ≤ size` (including `m = 0` and `m = n`),
`ConsistencyProof(m, n)` returns the RFC 6962 consistency proof and `VerifyConsistency` accepts it between the roots of
the first `m` and the first `n` leaves. -/
theorem C26_cons_complete [DecidableEq Hash] (H1 : Hash → Hash → Hash) (He : Hash) (t : Tree Hash) (L : List Hash)
    (h : Built H1 t L) (m n : Nat) (hm : m ≤ n) (hn : n ≤ L.length) :
    t.consistencyProof H1 m n = some (some (consProofSpec H1 He m (L.take n))) ∧
    verifyConsistency H1 He m n (mth H1 He (L.take m)) (mth H1 He (L.take n)) (consProofSpec H1 He m (L.take n)) = .ok () := by
  obtain ⟨hh, s, hs⟩ := built_holds H1 He t L h
  refine ⟨holds_consistencyProof H1 He t L hh s hs m n hm hn, ?_⟩
  have hlen : (L.take n).length = n := by rw [List.length_take]; omega
  have := C26_cons_complete_verifier H1 He (L.take n) m (by omega)
  rw [hlen, List.take_take, Nat.min_eq_left hm] at this
  exact this

/-- **Reload and the file cursor.**  Take the tree built from the leaves `L`, persist it, and reopen: `NewFileHashStore`
on a file that holds the stored hashes followed by an arbitrary stale tail (a crash after the store write), with the
persisted `(size, hashes)`.  Then after **any** interleaving of `AppendHash` / `GetHash(pos)` (any positions — every
proof generation is such a sequence) / `Flush`, with `GetHash` the positional read the code uses:
no panic; the file up to the cursor is exactly the layout of all leaves `L ++ appended`, the cursor is
`getStoredHashNum(size)`; `Root()` is the tree hash; every `InclusionProof(m, n)` and `ConsistencyProof(m, n)` read from
the file is the RFC 6962 proof — the same roots and proofs as without the reload. -/
theorem C26_file_store (H1 : Hash → Hash → Hash) (He : Hash) (t0 : Tree Hash) (L : List Hash) (h : Built H1 t0 L)
    (tail : List Hash) (ops : List (FOp Hash)) :
    ∃ fs t, FileStore.open (lay H1 He L ++ tail) t0.size = some fs ∧
      (⟨t0.size, t0.hashes, fs⟩ : FTree Hash).run .readAt H1 ops = some t ∧
      t.size = (L ++ FOp.leaves ops).length ∧
      t.fs.content.take t.fs.cursor = lay H1 He (L ++ FOp.leaves ops) ∧ t.fs.cursor = storedHashNum t.size ∧
      t.view.root H1 He = mth H1 He (L ++ FOp.leaves ops) ∧
      (∀ m n, m < n → n ≤ (L ++ FOp.leaves ops).length →
        t.view.inclusionProof H1 m n = .ok (some (pathSpec H1 He m ((L ++ FOp.leaves ops).take n)))) ∧
      (∀ m n, m ≤ n → n ≤ (L ++ FOp.leaves ops).length →
        t.view.consistencyProof H1 m n = some (some (consProofSpec H1 He m ((L ++ FOp.leaves ops).take n)))) := by
  obtain ⟨hh, _, _⟩ := built_holds H1 He t0 L h
  obtain ⟨fs, hopen, hf⟩ := fholds_open H1 He L tail
  rw [hh.size, hh.hashes]
  obtain ⟨t, hrun, hft⟩ := fholds_run H1 He ops _ L hf
  obtain ⟨v1, v2, v3, v4, v5⟩ := fholds_view H1 He t _ hft
  exact ⟨fs, t, hopen, hrun, hft.size, v1, v2, v3, v4, v5⟩

/-- the same for the read kind **regenerated from `merkle/file_hash_store.go` on every run** (`Gen/MerkleStore.lean`):
the code's `GetHash` is the positional `ReadAt`; if it becomes a `Seek` + `Read`, this theorem no longer compiles -/
theorem C26_file_store_code (H1 : Hash → Hash → Hash) (He : Hash) (t0 : Tree Hash) (L : List Hash) (h : Built H1 t0 L)
    (tail : List Hash) (ops : List (FOp Hash)) :
    ∃ fs t, FileStore.open (lay H1 He L ++ tail) t0.size = some fs ∧
      (⟨t0.size, t0.hashes, fs⟩ : FTree Hash).run codeReadKind H1 ops = some t ∧
      t.fs.content.take t.fs.cursor = lay H1 He (L ++ FOp.leaves ops) ∧
      t.view.root H1 He = mth H1 He (L ++ FOp.leaves ops) := by
  have hk : codeReadKind = .readAt := by decide
  rw [hk]
  obtain ⟨fs, t, a, b, _, c, _, d, _⟩ := C26_file_store H1 He t0 L h tail ops
  exact ⟨fs, t, a, b, c, d⟩

/-- a file with fewer hashes than `getStoredHashNum(size)` is refused -/
theorem C26_reload_refuses_short_file (H1 : Hash → Hash → Hash) (He : Hash) (t : Tree Hash) (L : List Hash) (h : Built H1 t L)
    (k : Nat) (h1 : 1 ≤ k) (hk : k ≤ (lay H1 He L).length) :
    FileStore.open ((lay H1 He L).take ((lay H1 He L).length - k)) t.size = none := by
  obtain ⟨_, hlen, _⟩ := C26_store_layout H1 He t L h
  unfold FileStore.open
  rw [if_pos (by rw [List.length_take]; omega)]

/-- **A cursor-moving read breaks it**: with a `Seek` + `Read` `GetHash`, one read after a reopen followed by one append
corrupts the file (over the collision-free term algebra: the statement of `C26_file_store` fails for `.seekRead`) -/
theorem C26_file_store_needs_positional_read :
    ∃ (fs : FileStore T) (t : FTree T),
      FileStore.open [T.leaf [0], T.leaf [1], n01] 2 = some fs ∧
      (⟨2, [n01], fs⟩ : FTree T).run .seekRead T.node [.getHash 0, .append (T.leaf [2])] = some t ∧
      t.fs.content.take t.fs.cursor ≠ [T.leaf [0], T.leaf [1], n01, T.leaf [2]] ∧
      (⟨2, [n01], fs⟩ : FTree T).run .readAt T.node [.getHash 0, .append (T.leaf [2])] =
        some ⟨3, [n01, T.leaf [2]], ⟨[T.leaf [0], T.leaf [1], n01, T.leaf [2]], 4⟩⟩ :=
  ⟨⟨[T.leaf [0], T.leaf [1], n01], 3⟩, ⟨3, [n01, T.leaf [2]], ⟨[T.leaf [0], T.leaf [2], n01], 2⟩⟩,
    by decide, by decide, by decide, by decide⟩

/-- `UnMarshal(Marshal(tree))` restores size and hashes -/
theorem C26_marshal_roundtrip (H1 : Hash → Hash → Hash) (He : Hash) (t : Tree Hash) (L : List Hash) (h : Built H1 t L)
    (st : Option (List Hash)) :
    unmarshal st t.marshal = some ⟨t.size, t.hashes, st⟩ := by
  obtain ⟨hh, _, _⟩ := built_holds H1 He t L h
  have := holds_hashes_length H1 He t L hh
  unfold unmarshal Tree.marshal
  simp only
  rw [if_neg (by omega), ← this, List.take_length]

/-! ### Non-vacuity: concrete trees over the free term algebra (no collisions) -/

def t5 : Tree T := ⟨5, [T.node n01 n23, T.leaf [4]],
  some [T.leaf [0], T.leaf [1], n01, T.leaf [2], T.leaf [3], n23, T.node n01 n23, T.leaf [4]]⟩

example : Built T.node t5 leaves5 := by unfold Built; decide
example : t5.root T.node T.empty = mth T.node T.empty leaves5 := by rfl
example : t5.inclusionProof T.node 2 5 =
    .ok (some [T.leaf [3], T.node (T.leaf [0]) (T.leaf [1]), T.leaf [4]]) := by rfl
example : verifyInclusion T.node (T.leaf [2]) 2 [T.leaf [3], T.node (T.leaf [0]) (T.leaf [1]), T.leaf [4]]
    (mth T.node T.empty leaves5) 5 = .ok () := by rfl
example : verifyInclusion T.node (T.leaf [2]) 3 [T.leaf [3], T.node (T.leaf [0]) (T.leaf [1]), T.leaf [4]]
    (mth T.node T.empty leaves5) 5 = .error .rootMismatch := by rfl
example : t5.consistencyProof T.node 3 5 =
    some (some [T.leaf [2], T.leaf [3], T.node (T.leaf [0]) (T.leaf [1]), T.leaf [4]]) := by decide
example : verifyConsistency T.node T.empty 3 5 (mth T.node T.empty (leaves5.take 3)) (mth T.node T.empty leaves5)
    [T.leaf [2], T.leaf [3], T.node (T.leaf [0]) (T.leaf [1]), T.leaf [4]] = .ok () := by rfl
example : verifyConsistency T.node T.empty 3 5 (mth T.node T.empty leaves5) (mth T.node T.empty leaves5) [] =
    .error .short := by rfl

end OntVerif.Props.C26
