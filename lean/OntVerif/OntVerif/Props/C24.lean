import OntVerif.Proofs.P2PMsgTop
import OntVerif.Gen.P2PAlloc
/-!
# C24 — P2P message decoding never panics and round-trips every message

Property theorems only.  Model: `Model/P2PMsg.lean` (`types.ReadMessage`, `makeEmptyMessage`, the `Deserialization` /
`Serialization` methods of 20 message shapes + unknown commands, for the tree as it is — the two repaired sites,
`Addr.Deserialization` (f30d0344) and `OfflineWitnessMsg.Deserialization` (aec3cc8d), are mirrored as repaired; their old
witnesses stay in `corpus/C24/`).  `block`, `tx`, `offline` return `Msg.opaque` (explored by the harness only).
Abstract parameters: the checksum `H`; `magic` = `config.DefConfig.P2PNode.NetworkMagic`; `O : Oracle` = the calls out of
the package (public-key parsing, kad-id difficulty, `signature.Verify`, the wall-clock test of `getmembers`, the embedded
`core/types.Header` decoder).  All theorems hold for EVERY oracle unless `O.wf` is assumed explicitly.
-/
namespace OntVerif.Props.C24
open OntVerif.Util OntVerif.Model.Codec OntVerif.Model.P2PMsg OntVerif.Proofs.P2PMsg

/-- The literal statement: every payload of every command either is rejected or decodes to a message whose
re-serialization is the payload; never a panic. -/
def C24_full_statement (O : Oracle) : Prop :=
  ∀ cmd p : Bytes, p.length ≤ MAX_PAYLOAD_LEN →
    match decodeAll O cmd p with
    | .panic => False
    | .err _ _ => True
    | .ok (m, _) => m.isOpaque = true ∨ encode m = p

/-- **No panic**: every payload of every command, of any length below 2^63 (a Go `int`; `ReadMessage` caps it at
`MAX_PAYLOAD_LEN`), is decoded to a message or an error, whatever the callees return.  Every Go slice expression reached
(`s[off:end]` in the source, `NodeAddrs[:count]`, `Blk[:blkCnt]`) is in range. -/
theorem C24_total (O : Oracle) (cmd p : Bytes) (hl : p.length < 2 ^ 63) : decodeAll O cmd p ≠ .panic :=
  (spec_decodePayload O cmd).noPanic (St.init p) ⟨by simp [St.init], by simp [St.init]; unfold two64; omega⟩
    (by simpa [St.init] using hl)

/-- `ReadMessage` never panics on any byte stream, any magic, any checksum function, any callee behaviour. -/
theorem C24_readMessage_total (O : Oracle) (magic : Nat) (H : Bytes → Bytes) (stream : Bytes) (hl : stream.length < two64) :
    readMessage O magic H stream ≠ .panic :=
  readMessage_noPanic O magic H stream hl

/-- the reader goroutine `link.Rx` (no `recover`) survives every stream -/
theorem C24_rx_total (O : Oracle) (magic : Nat) (H : Bytes → Bytes) (fuel : Nat) (stream : Bytes) (hl : stream.length < two64) :
    rxLoop O magic H fuel stream ≠ none :=
  rxLoop_noPanic O magic H fuel stream hl

/-- **decode ∘ encode = id** for every well-formed message of every modelled type: the whole payload is consumed and
nothing is dropped.  `Msg.wf O` = field ranges of the Go types, lists within the caps (`Addr`, `Inv`: 64), peer ids in
`Addr` are pseudo ids (the wire carries a uint64), keys are canonical and accepted by the callees (`O.pk k = some k`, a
kad id passes the difficulty test, a signed `getmembers` request is fresh and verifies), embedded headers parse back. -/
theorem C24_rt (O : Oracle) (m : Msg) (hw : m.wf O) (hl : (encode m).length < two64) :
    ∃ al, decodeAll O m.cmd (encode m) = .ok (m, ⟨⟨encode m, (encode m).length⟩, false, al⟩) :=
  decodeAll_rt O m hw hl

/-- `ReadMessage (WriteMessage m ‖ rest) = (m, len, rest)`: header, length, checksum and dispatch included -/
theorem C24_rt_frame (O : Oracle) (magic : Nat) (H : Bytes → Bytes) (m : Msg) (rest : Bytes) (hf : Framable O H magic m) :
    ∃ al, readMessage O magic H (writeMessage magic H m ++ rest) =
      .ok ⟨m, (encode m).length, rest, (encode m).length, ⟨⟨encode m, (encode m).length⟩, false, al⟩⟩ :=
  readMessage_rt O magic H m rest hf

/-- **encode ∘ decode = id on canonical payloads**: if decoding `p` succeeds, consumes all of `p` and never had to drop
information (no ignored `irregular` flag, no list cut to its cap, no `SoftVersion` fallback, no non-canonical key or
header encoding — `canonicalEnd`), then the re-serialization of the decoded message is `p`. -/
theorem C24_reencode_partial (O : Oracle) (cmd p : Bytes) (hl : p.length < 2 ^ 63) (m : Msg) (st : St)
    (h : decodeAll O cmd p = .ok (m, st)) (hc : canonicalEnd p st = true) (ho : m.isOpaque = false) :
    encode m = p :=
  decodeAll_reencode O cmd p hl m st h hc ho

/-- The literal statement is false: decoders ignore trailing bytes (`ping` + 1 byte).
Findings `trailing-bytes-ignored:*`, `list-truncated:*`, `noncanonical-accepted:*`. -/
theorem C24_literal_counterexample (O : Oracle) : ¬ C24_full_statement O := by
  intro h
  have e : decodeAll O cPing [1, 0, 0, 0, 0, 0, 0, 0, 9] = .ok (.ping 1, ⟨⟨[1, 0, 0, 0, 0, 0, 0, 0, 9], 8⟩, false, 0⟩) := by
    unfold decodeAll
    rw [(decodePayload_known O).1]
    decide
  have := h cPing [1, 0, 0, 0, 0, 0, 0, 0, 9] (by decide)
  rw [e] at this
  rcases this with h | h
  · cases h
  · revert h; decide

/-- **Header checks**: a message is delivered only if the stream starts with the configured magic, the announced length
is ≤ `MAX_PAYLOAD_LEN`, that many payload bytes follow, their checksum equals the header's, and the payload decodes under
the zero-trimmed command; the only allocation sized by the header (`make([]byte, hdr.Length)`) is ≤ `MAX_PAYLOAD_LEN`. -/
theorem C24_header_checks (O : Oracle) (magic : Nat) (H : Bytes → Bytes) (stream : Bytes) (r : ReadOk)
    (h : readMessage O magic H stream = .ok r) :
    24 ≤ stream.length ∧ fromLE (stream.take 4) = magic ∧ r.len = fromLE ((stream.drop 16).take 4) ∧
    r.len ≤ MAX_PAYLOAD_LEN ∧ r.alloc ≤ MAX_PAYLOAD_LEN ∧ 24 + r.len + r.rest.length = stream.length ∧
    H ((stream.drop 24).take r.len) = (stream.drop 20).take 4 ∧
    decodePayload O (trimRight0 ((stream.drop 4).take 12)) (St.init ((stream.drop 24).take r.len)) = .ok (r.msg, r.fin) :=
  readMessage_checks O magic H stream r h

/-- **Allocation**: along every run of every decoder — also one that ends in an error — the allocation events
(`St.allocs`: one unit per `append` of a decoded element; a `make(…, n)` would count `n`) are paid for by consumed payload
bytes at the per-command rate `entryCost` (addr 28, inv 32, findnodeack 21, members 2, headers 139, 1 otherwise); hence
at most `|p| / entryCost` elements are ever allocated and nothing is allocated in proportion to an unvalidated count.
(`O.wf`: the embedded header decoder consumes what it reports, at least a minimal header.) -/
theorem C24_alloc (O : Oracle) (hO : O.wf) (cmd p : Bytes) (hl : p.length < 2 ^ 63) :
    match decodeAll O cmd p with
    | .panic => True
    | .err _ s' => entryCost cmd * s'.allocs ≤ s'.src.off ∧ s'.src.off ≤ p.length
    | .ok (_, s') => entryCost cmd * s'.allocs ≤ s'.src.off ∧ s'.src.off ≤ p.length := by
  have h := (pay_decodePayload O hO cmd).run (St.init p) ⟨by simp [St.init], by simp [St.init]; unfold two64; omega⟩
    (by simpa [St.init] using hl)
  unfold decodeAll
  cases hd : decodePayload O cmd (St.init p) with
  | panic => trivial
  | err e s' =>
    rw [hd] at h
    obtain ⟨adv, _, hp⟩ := h
    have := adv.2.2
    rw [adv.1] at this
    simp only [St.init] at hp this ⊢
    exact ⟨by omega, this⟩
  | ok r =>
    obtain ⟨m, s'⟩ := r
    rw [hd] at h
    obtain ⟨adv, _, hp⟩ := h
    have := adv.2.2
    rw [adv.1] at this
    simp only [St.init] at hp this ⊢
    exact ⟨by omega, this⟩

/-- the sharper success bound for `Addr`: 44 bytes per entry -/
theorem C24_alloc_addr (p : Bytes) (hl : p.length < 2 ^ 63) (m : Msg) (st : St)
    (h : decAddr (St.init p) = .ok (m, st)) :
    ∃ l n, m = .addr l ∧ l.length ≤ n ∧ 8 + 44 * n ≤ p.length := by
  have hs := spec_decAddr_alloc (St.init p) ⟨by simp [St.init], by simp [St.init]; unfold two64; omega⟩
    (by simpa [St.init] using hl)
  rw [h] at hs
  obtain ⟨adv, _, r⟩ := hs
  obtain ⟨l, n, hm, hn, hw⟩ := r (by intro h; cases h)
  refine ⟨l, n, hm, hn, ?_⟩
  rw [hw, seg_length adv]
  have := adv.2.2
  have e : st.src.bs = p := adv.1
  rw [e] at this
  simp [St.init]
  omega

/-- **No count-sized `make`, every header-sized `make` checked** (facts regenerated from the Go sources on every run,
located by role from the entry points `ReadMessage` / `*.Deserialization` through same-package helpers, variables renamed
by role: `$c` a value read from the source, `$v` another local, `$src` the source; "checked" = conditions that leave before
the site is reached, a merged `a || b` exit counting as both):
* the only allocations are the constant header buffer and the payload buffer `make([]byte, hdr.Length)`, the latter
  dominated by the magic test and by `hdr.Length > MAX_PAYLOAD_LEN` (mirrored as `ReadOk.alloc`, `C24_header_checks`);
* no `make` is sized by a decoded count (the model would have to mirror it as `allocEv count`, for which `C24_alloc` has no rule);
* the loops bounded by a decoded count are exactly the ones the model mirrors with `repeatD` (plus the two of the
  un-modelled `offline` decoder), with the readers the counts come from and the one count check there is (`Addr`);
  `trips=$c`: a plain counting loop that runs `$c` times, whichever way it counts (integer conversions dropped — whether the
  trip count is `int(count)` or `count` is a matter for the correspondence harness and its hostile counts, not for this fact). -/
theorem C24_make_sites :
    OntVerif.Gen.P2PAlloc.makeSites =
      ["ReadMessage: make([]byte,const)",
       "ReadMessage: make([]byte,$v.Length) checked $v.Magic!=config.DefConfig.P2PNode.NetworkMagic ; $v.Length>common.MAX_PAYLOAD_LEN"] ∧
    OntVerif.Gen.P2PAlloc.countSizedMakes = [] ∧
    OntVerif.Gen.P2PAlloc.countLoops =
      ["Addr.Deserialization: for trips=$c $c=NextUint64 checked $c>$src.Len()",     -- decAddr
       "BlkHeader.Deserialization: for trips=$c $c=NextUint32 unchecked",             -- decHeaders
       "FindNodeResp.Deserialization: for trips=$c $c=NextUint32 unchecked",          -- decFindNodeResp
       "Inv.Deserialization: for trips=$c $c=NextUint32 unchecked",                   -- decInv
       "OfflineWitnessMsg.Deserialization: for trips=$c $c=ReadUint32 checked $c>math.MaxUint8",  -- not modelled
       "OfflineWitnessMsg.Deserialization: for trips=$c $c=ReadUint32 unchecked",          -- not modelled (`offline` is explored only)
       "SubnetMembers.Deserialization: for trips=$c $c=ReadUint32 unchecked"] :=            -- decMembers
  ⟨rfl, rfl, rfl⟩

/-! ### Non-vacuity -/
def O0 : Oracle := ⟨fun b => some b, fun _ => true, fun _ _ _ => true, fun _ => false, fun _ => none⟩
example : O0.wf := by intro b n re h; cases h
example : (Msg.addr [⟨1, 2, List.replicate 16 7, 80, 81, pseudoPeerId 5⟩]).wf O0 := by
  refine ⟨by decide, ?_⟩
  intro a ha
  simp only [List.mem_singleton] at ha
  subst ha
  exact ⟨by decide, by decide, by decide, by decide, by decide, 5, by decide, rfl⟩
example : (Msg.updateKadId [3, 1, 2, 3]).wf O0 := ⟨rfl, rfl⟩
example : canonicalEnd [1, 0, 0, 0, 0, 0, 0, 0] ⟨⟨[1, 0, 0, 0, 0, 0, 0, 0], 8⟩, false, 0⟩ = true := by decide
example : Framable O0 (fun _ => [1, 2, 3, 4]) 7 (.ping 9) := ⟨by show (9 : Nat) < 2 ^ 64; decide, by decide, by decide, fun _ => rfl⟩

end OntVerif.Props.C24
