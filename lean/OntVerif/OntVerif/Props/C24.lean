import OntVerif.Proofs.P2PMsgTop
/-!
# C24 — P2P message decoding never panics and round-trips every message

Property theorems only.  Model: `Model/P2PMsg.lean` (`types.ReadMessage`, `makeEmptyMessage`, the `Deserialization` /
`Serialization` methods of 16 message shapes + unknown commands; the decoders that call into `core/types` or the crypto
library return `Msg.opaque` and are explored by the harness only).  `Variant.asShipped` mirrors the tree as it is
(`Addr.Deserialization` panics for `count ≥ 2^63`), `Variant.sound` mirrors it with `fixes/C24-addr-count.patch`
(`if count > source.Len() { return io.ErrUnexpectedEOF }` before the loop).
The checksum `H` is an abstract function; `magic` is `config.DefConfig.P2PNode.NetworkMagic`.
-/
namespace OntVerif.Props.C24
open OntVerif.Util OntVerif.Model.Codec OntVerif.Model.P2PMsg OntVerif.Proofs.P2PMsg

/-- The literal statement: every payload of every command either is rejected or decodes to a message whose
re-serialization is the payload; never a panic. -/
def C24_full_statement (v : Variant) : Prop :=
  ∀ cmd p : Bytes, p.length ≤ MAX_PAYLOAD_LEN →
    match decodeAll v cmd p with
    | .panic => False
    | .err _ => True
    | .ok (m, _) => m.isOpaque = true ∨ encode m = p

/-- **No panic** (repaired tree): every payload of every command, of any length below 2^63 (a Go `int`; `ReadMessage` caps it
at `MAX_PAYLOAD_LEN`), is decoded to a message or an error.  Every Go slice expression reached (`s[off:end]` in the source,
`NodeAddrs[:count]`, `Blk[:blkCnt]`) is in range. -/
theorem C24_total (cmd p : Bytes) (hl : p.length < 2 ^ 63) : decodeAll .sound cmd p ≠ .panic :=
  (spec_decodePayload cmd).noPanic (St.init p) ⟨by simp [St.init], by simp [St.init]; unfold two64; omega⟩
    (by simpa [St.init] using hl)

/-- `ReadMessage` never panics on any byte stream, any magic, any checksum function. -/
theorem C24_readMessage_total (magic : Nat) (H : Bytes → Bytes) (stream : Bytes) (hl : stream.length < two64) :
    readMessage .sound magic H stream ≠ .panic :=
  readMessage_noPanic magic H stream hl

/-- the reader goroutine `link.Rx` (no `recover`) survives every stream -/
theorem C24_rx_total (magic : Nat) (H : Bytes → Bytes) (fuel : Nat) (stream : Bytes) (hl : stream.length < two64) :
    rxLoop .sound magic H fuel stream ≠ none :=
  rxLoop_noPanic magic H fuel stream hl

/-- **The unchanged tree panics**: `addr` payload = uint64 2^63 (8 bytes): `int(count) < 0`, the loop is skipped,
`this.NodeAddrs[:64]` on a nil slice.  This witness is the replay of finding `decoder-panic:addr`. -/
theorem C24_asShipped_counterexample : ¬ C24_full_statement .asShipped := by
  intro h
  have e : decodeAll .asShipped cAddr [0, 0, 0, 0, 0, 0, 0, 0x80] = .panic := by decide
  have := h cAddr [0, 0, 0, 0, 0, 0, 0, 0x80] (by decide)
  rw [e] at this
  exact this

/-- as shipped, a panic can only come from the `addr` decoder -/
theorem C24_total_asShipped_partial (cmd p : Bytes) (hl : p.length < 2 ^ 63) (hc : cmd ≠ cAddr) :
    decodeAll .asShipped cmd p ≠ .panic := by
  unfold decodeAll
  rw [decodePayload_variant cmd hc]
  exact C24_total cmd p hl

/-- the patch changes nothing but the panic: wherever the shipped decoder returns (a message *or* an error), the
repaired one returns exactly the same -/
theorem C24_patch_conservative (cmd p : Bytes) (hl : p.length < 2 ^ 63) (h : decodeAll .asShipped cmd p ≠ .panic) :
    decodeAll .asShipped cmd p = decodeAll .sound cmd p :=
  decodeAll_conservative cmd p hl h

/-- **decode ∘ encode = id** for every well-formed message of every modelled type (both variants): the whole payload is
consumed and nothing is dropped.  `Msg.wf` = field ranges of the Go types, lists within the caps (`Addr`, `Inv`: 64), peer
ids in `Addr` are pseudo ids (the wire carries a uint64). -/
theorem C24_rt (v : Variant) (m : Msg) (hw : m.wf) (hl : (encode m).length < two64) :
    decodeAll v m.cmd (encode m) = .ok (m, ⟨⟨encode m, (encode m).length⟩, false⟩) :=
  decodeAll_rt v m hw hl

/-- `ReadMessage (WriteMessage m ‖ rest) = (m, len, rest)`: header, length, checksum and dispatch included -/
theorem C24_rt_frame (v : Variant) (magic : Nat) (H : Bytes → Bytes) (m : Msg) (rest : Bytes) (hf : Framable H magic m) :
    readMessage v magic H (writeMessage magic H m ++ rest) =
      .ok ⟨m, (encode m).length, rest, (encode m).length, ⟨⟨encode m, (encode m).length⟩, false⟩⟩ :=
  readMessage_rt v magic H m rest hf

/-- **encode ∘ decode = id on canonical payloads**: if decoding `p` succeeds, consumes all of `p` and never had to drop
information (no ignored `irregular` flag, no list cut to its cap, no `SoftVersion` fallback — `canonicalEnd`), then the
re-serialization of the decoded message is `p`. -/
theorem C24_reencode_partial (v : Variant) (cmd p : Bytes) (hl : p.length < 2 ^ 63) (m : Msg) (st : St)
    (h : decodeAll v cmd p = .ok (m, st)) (hc : canonicalEnd p st = true) (ho : m.isOpaque = false) :
    encode m = p := by
  cases v with
  | sound => exact decodeAll_reencode cmd p hl m st h hc ho
  | asShipped =>
    have := decodeAll_conservative cmd p hl (by rw [h]; simp)
    rw [h] at this
    exact decodeAll_reencode cmd p hl m st this.symm hc ho

/-- The literal statement is false even for the repaired tree: decoders ignore trailing bytes (`ping` + 1 byte).
Findings `trailing-bytes-ignored:*`, `list-truncated:*`, `noncanonical-accepted:*`. -/
theorem C24_sound_literal_counterexample : ¬ C24_full_statement .sound := by
  intro h
  have e : decodeAll .sound cPing [1, 0, 0, 0, 0, 0, 0, 0, 9] = .ok (.ping 1, ⟨⟨[1, 0, 0, 0, 0, 0, 0, 0, 9], 8⟩, false⟩) := by decide
  have := h cPing [1, 0, 0, 0, 0, 0, 0, 0, 9] (by decide)
  rw [e] at this
  rcases this with h | h
  · cases h
  · revert h; decide

/-- **Header checks**: a message is delivered only if the stream starts with the configured magic, the announced length
is ≤ `MAX_PAYLOAD_LEN`, that many payload bytes follow, their checksum equals the header's, and the payload decodes under
the zero-trimmed command; the only allocation sized by the header (`make([]byte, hdr.Length)`) is ≤ `MAX_PAYLOAD_LEN`. -/
theorem C24_header_checks (v : Variant) (magic : Nat) (H : Bytes → Bytes) (stream : Bytes) (r : ReadOk)
    (h : readMessage v magic H stream = .ok r) :
    24 ≤ stream.length ∧ fromLE (stream.take 4) = magic ∧ r.len = fromLE ((stream.drop 16).take 4) ∧
    r.len ≤ MAX_PAYLOAD_LEN ∧ r.alloc ≤ MAX_PAYLOAD_LEN ∧ 24 + r.len + r.rest.length = stream.length ∧
    H ((stream.drop 24).take r.len) = (stream.drop 20).take 4 ∧
    decodePayload v (trimRight0 ((stream.drop 4).take 12)) (St.init ((stream.drop 24).take r.len)) = .ok (r.msg, r.fin) :=
  readMessage_checks v magic H stream r h

/-- **Allocation in the `Addr` loop**: every `append` is paid for by 44 payload bytes (unconditionally, also when the list
is cut afterwards): `n` iterations ⇒ `8 + 44·n ≤ |p|`. -/
theorem C24_alloc_addr (p : Bytes) (hl : p.length < 2 ^ 63) (m : Msg) (st : St)
    (h : decAddr .sound (St.init p) = .ok (m, st)) :
    ∃ l n, m = .addr l ∧ l.length ≤ n ∧ 8 + 44 * n ≤ p.length := by
  have hs := spec_decAddr_alloc (St.init p) ⟨by simp [St.init], by simp [St.init]; unfold two64; omega⟩
    (by simpa [St.init] using hl)
  rw [h] at hs
  obtain ⟨adv, _, r⟩ := hs
  obtain ⟨l, n, hm, hn, hw⟩ := r (by intro h; cases h)
  refine ⟨l, n, hm, hn, ?_⟩
  rw [hw, seg_length adv]
  have := adv.2.2
  have e : st.src.bs = p := adv.1
  rw [e] at this
  simp [St.init]
  omega

/-! ### Non-vacuity -/
example : (Msg.addr [⟨1, 2, List.replicate 16 7, 80, 81, pseudoPeerId 5⟩]).wf := by
  refine ⟨by decide, ?_⟩
  intro a ha
  simp only [List.mem_singleton] at ha
  subst ha
  exact ⟨by decide, by decide, by decide, by decide, by decide, 5, by decide, rfl⟩
example : decodeAll .sound cPing [1, 0, 0, 0, 0, 0, 0, 0] = .ok (.ping 1, ⟨⟨[1, 0, 0, 0, 0, 0, 0, 0], 8⟩, false⟩) := by decide
example : canonicalEnd [1, 0, 0, 0, 0, 0, 0, 0] ⟨⟨[1, 0, 0, 0, 0, 0, 0, 0], 8⟩, false⟩ = true := by decide
example : decodeAll .asShipped cAddr [0, 0, 0, 0, 0, 0, 0, 0] = decodeAll .sound cAddr [0, 0, 0, 0, 0, 0, 0, 0] := by decide
example : decodeAll .sound cAddr [0, 0, 0, 0, 0, 0, 0, 0x80] = .err .ueof := by decide
example : Framable (fun _ => [1, 2, 3, 4]) 7 (.ping 9) := ⟨by show (9 : Nat) < 2 ^ 64; decide, by decide, by decide, fun _ => rfl⟩

end OntVerif.Props.C24
