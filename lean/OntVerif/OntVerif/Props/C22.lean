import OntVerif.Proofs.Address
/-!
# C22 — Base58 and hex addresses round-trip and reject corruption

Model: `Model/Address.lean` (`common/address.go` + the itchyny base58 library, incl. its decimal-text detour).
`H` is the double SHA-256, an arbitrary function here; `C22_rt` only needs that it returns at least 4 bytes,
`C22_exact`/`C22_reject` need nothing about it.
-/
namespace OntVerif.Props.C22
open OntVerif.Util OntVerif.Model.Address OntVerif.Proofs.Address

/-- base-58 digit conversion round trip over `Nat` (every `n`, also 0 ↦ `[]`) -/
theorem C22_b58_digits_rt (n : Nat) : ofBE 58 (digits 58 n) = n := ofBE_digits 58 (by omega) n

/-- …and the other direction: a digit string without leading zero digit is the one `digits` produces -/
theorem C22_b58_digits_canonical (ds : List Nat) (hlt : ∀ d ∈ ds, d < 58) (hh : ds.head? ≠ some 0) :
    digits 58 (ofBE 58 ds) = ds := digits_ofBE 58 (by omega) ds hlt hh

/-- the alphabet is decoded to the digit it encodes -/
theorem C22_alphabet_rt (d : Nat) (hd : d < 58) : decodeMap (alphaAt d) = some d := decodeMap_alphaAt d hd

/-- **Round trip**: every 20-byte address decodes from its own Base58 string. -/
theorem C22_rt (H : Bytes → Bytes) (hH : ∀ d, 4 ≤ (H d).length) (a : Bytes) (ha : a.length = 20) :
    fromBase58 H (toBase58 H a) = .ok a := by
  have heq := toBase58_eq H a
  generalize hdata : (23 : UInt8) :: a ++ (H (23 :: a)).take 4 = data at heq
  have hlen : data.length = 25 := by
    rw [← hdata]; simp [ha]; have := hH (23 :: a); omega
  have hpos : 0 < bigOfBytes data := by
    rw [← hdata]; exact bigOfBytes_pos 23 _ (by decide)
  have hlt : bigOfBytes data < 58 ^ 35 := by
    have := bigOfBytes_lt data
    rw [hlen] at this
    exact Nat.lt_of_lt_of_le this (by decide)
  have hdl : (digits 58 (bigOfBytes data)).length ≤ 35 := digits_length_le 58 (by omega) 35 _ hlt
  have hne := digits_ne_nil 58 _ hpos
  unfold fromBase58
  rw [heq]
  have h1 : ((digits 58 (bigOfBytes data)).map alphaAt).isEmpty = false := by
    cases h : digits 58 (bigOfBytes data) with
    | nil => exact absurd h hne
    | cons x t => rfl
  have h2 : decide (((digits 58 (bigOfBytes data)).map alphaAt).length > maxBase58AddrLen) = false := by
    simp [maxBase58AddrLen]; omega
  simp only [h1, h2, Bool.or_self, Bool.false_eq_true, if_false, b58Decode_digits _ hpos, parseDec_toDec]
  have hb : bytesOfBig (bigOfBytes data) = data := by
    apply bytesOfBig_bigOfBytes; rw [← hdata]; simp
  rw [hb]
  have h3 : (data.length ≠ 25 || data.head? ≠ some 23) = false := by
    rw [hlen, ← hdata]; simp
  have hph : (data.drop 1).take 20 = a := by
    rw [← hdata]; simp [← ha]
  simp only [h3, Bool.false_eq_true, if_false, hph, ha, ne_eq, not_true_eq_false, heq, if_false]

/-- **Exactness**: whatever the hash function is, an accepted string is *the* encoding of the returned address
(and that address has 20 bytes). -/
theorem C22_exact (H : Bytes → Bytes) (s a : Bytes) (h : fromBase58 H s = .ok a) :
    s = toBase58 H a ∧ a.length = 20 := by
  unfold fromBase58 at h
  split at h
  · cases h
  · split at h
    · cases h
    · split at h
      · cases h
      · simp only at h
        split at h
        · cases h
        · split at h
          · cases h
          · split at h
            · cases h
            · rename_i hl hv
              injection h with h
              subst h
              exact ⟨(by simpa using hv : _ = s).symm, by simpa using hl⟩

/-- **Every other string is rejected**: a string that is not the encoding of any 20-byte address — a changed,
inserted or removed character, another version byte, another checksum, leading `1`s, non-alphabet bytes, … — gives an error. -/
theorem C22_reject (H : Bytes → Bytes) (s : Bytes) (h : ∀ a : Bytes, a.length = 20 → s ≠ toBase58 H a) :
    ∃ e, fromBase58 H s = .error e := by
  cases hr : fromBase58 H s with
  | error e => exact ⟨e, rfl⟩
  | ok a =>
    obtain ⟨h1, h2⟩ := C22_exact H s a hr
    exact absurd h1 (h a h2)

/-- distinct addresses have distinct strings -/
theorem C22_injective (H : Bytes → Bytes) (hH : ∀ d, 4 ≤ (H d).length) (a b : Bytes) (ha : a.length = 20) (hb : b.length = 20)
    (h : toBase58 H a = toBase58 H b) : a = b := by
  have h1 := C22_rt H hH a ha
  rw [h, C22_rt H hH b hb] at h1
  injection h1 with h1
  exact h1.symm

/-- an edited string is accepted only if it is itself the canonical encoding of the address it yields; in particular
it never decodes to the original address -/
theorem C22_edit (H : Bytes → Bytes) (a : Bytes) (s' : Bytes) (hne : s' ≠ toBase58 H a) :
    fromBase58 H s' ≠ .ok a := by
  intro hc
  exact hne (C22_exact H s' a hc).1


/-! ### hex -/

/-- **Hex round trip** (`ToHexString` prints the bytes reversed; `AddressFromHexString` reverses back) -/
theorem C22_hex_rt (a : Bytes) (ha : a.length = 20) : fromHexString (toHexString a) = .ok a := by
  unfold fromHexString toHexString
  rw [hexDecode_hexEncode]
  simp [ha]

/-- a hex string is accepted only if it has exactly 40 characters, and the result has 20 bytes -/
theorem C22_hex_len (s a : Bytes) (h : fromHexString s = .ok a) : s.length = 40 ∧ a.length = 20 := by
  unfold fromHexString at h
  split at h
  · cases h
  · rename_i hx hd
    simp only at h
    split at h
    · cases h
    · rename_i hl
      injection h with h
      subst h
      have := hexDecode_length s hx hd
      simp at hl
      simp at *
      omega

/-! ### Non-vacuity -/
/-- a concrete 4-byte "hash" and a concrete address: the hypotheses of `C22_rt` are satisfiable, and the accepted
set of `C22_exact` is inhabited -/
example : ∃ s a, fromBase58 (fun _ => [1, 2, 3, 4]) s = .ok a ∧ a.length = 20 :=
  ⟨_, List.replicate 20 7, C22_rt _ (fun _ => by simp) _ (by simp), by simp⟩
/-- a string that is rejected for each reason -/
example : fromBase58 (fun _ => [1, 2, 3, 4]) [] = .error .invalid := by rfl
example : fromBase58 (fun _ => [1, 2, 3, 4]) [48] = .error .char := by rfl     -- '0' is not in the alphabet
example : fromBase58 (fun _ => [1, 2, 3, 4]) [65, 65] = .error .shape := by rfl
example : fromHexString [48, 49] = .error .len := by rfl
example : fromHexString [48] = .error .hex := by rfl

end OntVerif.Props.C22
