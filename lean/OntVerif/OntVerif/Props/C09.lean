import OntVerif.Proofs.Ong
/-!
# C09 — ONG issuance is interval-additive and totals exactly the ONG supply

Property theorems only (helper lemmas in `Proofs/Ong.lean`, model in `Model/Ong.lean`, constants and tables regenerated
from the Go sources into `Gen/Ong.lean` on every run).  All statements are for **every** network id (`cfgOf net`:
mainnet, polaris, and the default branch taken by every other id) and for all natural-number offsets (the `uint32`
arguments of the Go functions are a subset).

Specification: a release *rate per second* — `rateH` (holders, per ONT: old table until the holder deadline) and
`rateG` (governance, per `ONT_TOTAL_SUPPLY`: new table from the holder deadline to the governance deadline, the
remainder `gap` in the deadline second).  The amount over `[s, e)` is the point-wise sum `sumIco rate s e`.
-/
namespace OntVerif.Props.C09
open OntVerif.Model.Ong OntVerif.Proofs.Ong
open OntVerif.Gen.Ong (ONT_TOTAL_SUPPLY ONG_TOTAL_SUPPLY NETWORK_ID_MAIN_NET NETWORK_ID_POLARIS_NET)

/-! ### the three network configurations pass the computable check (re-evaluated on the regenerated constants) -/

theorem C09_networks_checked (net : Nat) : netOK (cfgOf net) ONG_TOTAL_SUPPLY = true := by
  by_cases h1 : net = NETWORK_ID_MAIN_NET
  · subst h1; decide
  · by_cases h2 : net = NETWORK_ID_POLARIS_NET
    · subst h2; decide
    · rw [cfgOf_other net h1 h2]; decide

/-- the aliases used by the two loops are the tables the deadline derivation uses -/
theorem C09_aliases :
    OntVerif.Gen.Ong.TIME_INTERVAL = OntVerif.Gen.Ong.UNBOUND_TIME_INTERVAL ∧
    OntVerif.Gen.Ong.GENERATION_AMOUNT = OntVerif.Gen.Ong.UNBOUND_GENERATION_AMOUNT ∧
    OntVerif.Gen.Ong.NEW_GENERATION_AMOUNT = OntVerif.Gen.Ong.NEW_UNBOUND_GENERATION_AMOUNT := by decide

/-- **F_prefix** (any table, any interval length): the split / loop / tail computation shared by both functions returns
`Σ_{t ∈ [s, e)} A[t / TI]`, and never indexes outside the table when `e / TI` is inside it. -/
theorem C09_F_prefix (TI : Nat) (A : List Nat) (s e : Nat) (hTI : 0 < TI) (hTI32 : TI ≤ two32) (hse : s ≤ e)
    (he : e / TI < A.length) :
    segment TI A s e = some (sumIco (rate TI A) s e) :=
  segment_eq TI A s e hTI hTI32 hse he

/-- `GetGovUnboundDeadline` does not panic on any network id, and the deadline lies after the holder deadline, inside
the table and inside `uint32` -/
theorem C09_deadline_defined (net : Nat) :
    ∃ dl gap, govDeadline (cfgOf net) = some (dl, gap) ∧ (cfgOf net).D < dl ∧ dl + 1 < two32 ∧ 0 < gap := by
  obtain ⟨dl, gap, H, Gv, f⟩ := netOK_facts _ _ (C09_networks_checked net)
  exact ⟨dl, gap, f.hdl, f.d_lt, f.dl_u32, f.gap_pos⟩

/-- holders: the amount is the point-wise sum of the holder rate (so `CalcUnbindOng` cannot panic) -/
theorem C09_holder_is_sum (net bal s e : Nat) :
    calcUnbind (cfgOf net) bal s e = some ((sumIco (rateH (cfgOf net)) s e * bal) % two64) := by
  obtain ⟨dl, gap, H, Gv, f⟩ := netOK_facts _ _ (C09_networks_checked net)
  unfold calcUnbind
  rw [holderAmount_eq _ f.wf]; rfl

/-- governance (repaired comparison): the amount is the point-wise sum of the governance rate -/
theorem C09_gov_is_sum (net dl gap s e : Nat) (hd : govDeadline (cfgOf net) = some (dl, gap)) :
    calcGov .sound (cfgOf net) s e = some (sumIco (rateG (cfgOf net) dl gap) s e * (cfgOf net).supply) := by
  obtain ⟨dl', gap', H, Gv, f⟩ := netOK_facts _ _ (C09_networks_checked net)
  have e1 := f.hdl
  rw [hd] at e1
  obtain ⟨rfl, rfl⟩ := Prod.mk.inj (Option.some.inj e1)
  unfold calcGov
  rw [govAmount_sound_eq _ f.wf dl gap hd (Nat.le_of_lt f.d_lt) f.dl_in]
  simp only [Option.map_some]
  congr 1
  apply Nat.mod_eq_of_lt
  have := gov_le_total (cfgOf net) dl gap s e
  rw [f.hG] at this
  exact Nat.lt_of_le_of_lt (Nat.mul_le_mul_right _ this) f.bG

/-- **Holder additivity**, every network id, every balance, every `s ≤ m ≤ e` (Go `uint64` addition of the two pieces) -/
theorem C09_holder_additive (net bal s m e : Nat) (h1 : s ≤ m) (h2 : m ≤ e) :
    calcUnbind (cfgOf net) bal s e
      = oaddWrap (calcUnbind (cfgOf net) bal s m) (calcUnbind (cfgOf net) bal m e) := by
  rw [C09_holder_is_sum, C09_holder_is_sum, C09_holder_is_sum]
  simp only [oaddWrap]
  rw [sumIco_split _ s m e h1 h2, Nat.add_mul]
  congr 1
  exact Nat.add_mod _ _ _

/-- … and without any wrap-around for balances up to the ONT total supply -/
theorem C09_holder_additive_exact (net bal s m e : Nat) (h1 : s ≤ m) (h2 : m ≤ e) (hb : bal ≤ ONT_TOTAL_SUPPLY) :
    calcUnbind (cfgOf net) bal s e
      = oadd (calcUnbind (cfgOf net) bal s m) (calcUnbind (cfgOf net) bal m e) := by
  obtain ⟨dl, gap, H, Gv, f⟩ := netOK_facts _ _ (C09_networks_checked net)
  have nowrap : ∀ a b, (sumIco (rateH (cfgOf net)) a b * bal) % two64 = sumIco (rateH (cfgOf net)) a b * bal := by
    intro a b
    apply Nat.mod_eq_of_lt
    have := holder_le_total (cfgOf net) a b
    rw [f.hH] at this
    have hb' : bal ≤ (cfgOf net).supply := hb
    exact Nat.lt_of_le_of_lt (Nat.mul_le_mul this hb') f.bH
  rw [C09_holder_is_sum, C09_holder_is_sum, C09_holder_is_sum, nowrap, nowrap, nowrap]
  simp only [oadd]
  rw [sumIco_split _ s m e h1 h2, Nat.add_mul]

/-- the governance additivity statement, per variant of the comparison in `CalcGovernanceUnbindOng` -/
def C09_gov_additive_stmt (v : Variant) : Prop :=
  ∀ net s m e : Nat, s ≤ m → m ≤ e →
    calcGov v (cfgOf net) s e = oadd (calcGov v (cfgOf net) s m) (calcGov v (cfgOf net) m e)

/-- **Governance additivity** (full statement) for the repaired comparison `startOffset <= deadline` -/
theorem C09_gov_additive : C09_gov_additive_stmt .sound := by
  intro net s m e h1 h2
  obtain ⟨dl, gap, hd, _⟩ := C09_deadline_defined net
  rw [C09_gov_is_sum net dl gap s e hd, C09_gov_is_sum net dl gap s m hd, C09_gov_is_sum net dl gap m e hd]
  simp only [oadd]
  rw [sumIco_split _ s m e h1 h2, Nat.add_mul]

/-- where the shipped code agrees with the repaired one: everywhere except on intervals that *start* in the deadline
second and extend beyond it.  In particular every interval ending at or before the governance deadline — all of the
chain's history until then — is computed identically, so the one-token change is invisible before that second. -/
theorem C09_fix_conservative (net dl gap s e : Nat) (hd : govDeadline (cfgOf net) = some (dl, gap))
    (h : s ≠ dl ∨ e ≤ dl) :
    calcGov .asShipped (cfgOf net) s e = calcGov .sound (cfgOf net) s e := by
  obtain ⟨dl', gap', hd', hlt, _⟩ := C09_deadline_defined net
  rw [hd] at hd'
  obtain ⟨rfl, rfl⟩ := Prod.mk.inj (Option.some.inj hd')
  unfold calcGov
  rw [govAmount_asShipped_eq, hd]
  simp only
  rw [if_neg]
  intro ⟨a1, a2, a3⟩
  split at a1 <;> omega

/-- the shipped code pays nothing for an interval starting in the deadline second -/
theorem C09_asShipped_at_deadline (net dl gap e : Nat) (hd : govDeadline (cfgOf net) = some (dl, gap)) (he : dl < e) :
    calcGov .asShipped (cfgOf net) dl e = some 0 ∧
    calcGov .sound (cfgOf net) dl e = some (gap * (cfgOf net).supply) := by
  obtain ⟨dl', gap', hd', hlt, _⟩ := C09_deadline_defined net
  rw [hd] at hd'
  obtain ⟨rfl, rfl⟩ := Prod.mk.inj (Option.some.inj hd')
  constructor
  · unfold calcGov
    rw [govAmount_asShipped_eq, hd]
    simp only
    rw [if_pos]
    · simp
    · refine ⟨?_, he, by omega⟩
      rw [if_neg (by omega)]
  · rw [C09_gov_is_sum net dl gap dl e hd]
    congr 2
    rw [sumIco_split _ dl (dl + 1) e (by omega) (by omega), sumIco_one]
    have z : sumIco (rateG (cfgOf net) dl gap) (dl + 1) e = 0 := by
      apply sumIco_zero
      intro t t1 t2
      unfold rateG
      rw [if_neg (by omega), if_neg (by omega)]
    rw [z, Nat.add_zero]
    unfold rateG
    rw [if_neg (by omega), if_pos rfl]

/-- **Governance additivity of the code as shipped** holds for every split that is not exactly at the governance
deadline (what is missing for the full statement: `m = deadline`, see `C09_asShipped_counterexample`) -/
theorem C09_gov_additive_asShipped_partial (net dl gap s m e : Nat) (hd : govDeadline (cfgOf net) = some (dl, gap))
    (h1 : s ≤ m) (h2 : m ≤ e) (hm : ¬ (s < dl ∧ m = dl ∧ dl < e)) :
    calcGov .asShipped (cfgOf net) s e
      = oadd (calcGov .asShipped (cfgOf net) s m) (calcGov .asShipped (cfgOf net) m e) := by
  by_cases hs : s = dl
  · -- all three pieces start at or after the deadline second: 0 = 0 + 0
    subst hs
    have z : ∀ a b, s ≤ a → calcGov .asShipped (cfgOf net) a b = some 0 := by
      intro a b ha
      by_cases hab : s < b ∧ a = s
      · rw [hab.2]; exact (C09_asShipped_at_deadline net s gap b hd hab.1).1
      · rw [C09_fix_conservative net s gap a b hd (by omega), C09_gov_is_sum net s gap a b hd]
        rw [sumIco_zero]
        · simp
        · intro t t1 t2
          unfold rateG
          rw [if_neg (by omega), if_neg (by omega)]
    rw [z s e (by omega), z s m (by omega), z m e h1]; rfl
  · rw [C09_fix_conservative net dl gap s e hd (Or.inl hs), C09_fix_conservative net dl gap s m hd (Or.inl hs),
      C09_fix_conservative net dl gap m e hd (by omega)]
    exact C09_gov_additive net s m e h1 h2

/-- the split at the deadline second loses `gap` on the main network (the witness of the finding) -/
theorem C09_asShipped_counterexample : ¬ C09_gov_additive_stmt .asShipped := by
  intro h
  have := h NETWORK_ID_MAIN_NET 0 ((govDeadline (cfgOf NETWORK_ID_MAIN_NET)).getD (0, 0)).1
    (((govDeadline (cfgOf NETWORK_ID_MAIN_NET)).getD (0, 0)).1 + 1) (by decide) (by decide)
  exact absurd this (by decide)

/-- **Total**: on every network id, for every end offset after the governance deadline (in particular `2^32 - 1`),
holders (balance = all ONT) plus governance from offset 0 is exactly the ONG total supply — for the shipped and
the repaired comparison alike. -/
theorem C09_total (v : Variant) (net dl gap e : Nat) (hd : govDeadline (cfgOf net) = some (dl, gap)) (he : dl < e) :
    oadd (calcUnbind (cfgOf net) ONT_TOTAL_SUPPLY 0 e) (calcGov v (cfgOf net) 0 e) = some ONG_TOTAL_SUPPLY := by
  obtain ⟨dl', gap', H, Gv, f⟩ := netOK_facts _ _ (C09_networks_checked net)
  have e1 := f.hdl
  rw [hd] at e1
  obtain ⟨rfl, rfl⟩ := Prod.mk.inj (Option.some.inj e1)
  have hv : calcGov v (cfgOf net) 0 e = calcGov .sound (cfgOf net) 0 e := by
    cases v with
    | sound => rfl
    | asShipped => exact C09_fix_conservative net dl gap 0 e hd (Or.inl (by have := f.d_lt; omega))
  rw [hv, C09_holder_is_sum, C09_gov_is_sum net dl gap 0 e hd]
  simp only [oadd]
  have hh : sumIco (rateH (cfgOf net)) 0 e = H := by
    rw [sumIco_split _ 0 (cfgOf net).D e (by omega) (by have := f.d_lt; omega), f.hH, sumIco_zero]
    · rfl
    · intro t t1 t2
      unfold rateH
      rw [if_neg (by omega)]
  have hg : sumIco (rateG (cfgOf net) dl gap) 0 e = Gv := by
    rw [sumIco_split _ 0 (dl + 1) e (by omega) (by omega), f.hG, sumIco_zero]
    · rfl
    · intro t t1 t2
      unfold rateG
      rw [if_neg (by omega), if_neg (by omega)]
  rw [hh, hg]
  have hs : ONT_TOTAL_SUPPLY = (cfgOf net).supply := rfl
  rw [hs, Nat.mod_eq_of_lt f.bH, f.total]

theorem C09_total_u32 (v : Variant) (net : Nat) :
    oadd (calcUnbind (cfgOf net) ONT_TOTAL_SUPPLY 0 4294967295) (calcGov v (cfgOf net) 0 4294967295)
      = some ONG_TOTAL_SUPPLY := by
  obtain ⟨dl, gap, hd, _, h32, _⟩ := C09_deadline_defined net
  exact C09_total v net dl gap 4294967295 hd (by unfold two32 at h32; omega)

/-- the `uint64` accumulators of the model never come near 2^64 (so modelling them as naturals is exact) -/
theorem C09_amounts_bounded (net dl gap s e : Nat) (hd : govDeadline (cfgOf net) = some (dl, gap)) :
    sumIco (rateH (cfgOf net)) s e * ONT_TOTAL_SUPPLY < two64 ∧
    sumIco (rateG (cfgOf net) dl gap) s e * ONT_TOTAL_SUPPLY < two64 := by
  obtain ⟨dl', gap', H, Gv, f⟩ := netOK_facts _ _ (C09_networks_checked net)
  have e1 := f.hdl
  rw [hd] at e1
  obtain ⟨rfl, rfl⟩ := Prod.mk.inj (Option.some.inj e1)
  have a := holder_le_total (cfgOf net) s e
  have b := gov_le_total (cfgOf net) dl gap s e
  rw [f.hH] at a
  rw [f.hG] at b
  exact ⟨Nat.lt_of_le_of_lt (Nat.mul_le_mul_right _ a) f.bH, Nat.lt_of_le_of_lt (Nat.mul_le_mul_right _ b) f.bG⟩

/-! ### Non-vacuity -/
example : govDeadline (cfgOf 1) = some (564136533, 1) := by decide
example : govDeadline (cfgOf 2) = some (564597333, 1) := by decide
example : govDeadline (cfgOf 3) = some (564597333, 1) := by decide
example : (cfgOf 1).D = 63763200 ∧ (cfgOf 2).D = 62985600 ∧ (cfgOf 3).D = 0 := by decide
-- the lost `gap` on mainnet: [0, dl+1) pays 1 ONT-supply unit more than [0, dl) + [dl, dl+1)
example : calcGov .asShipped (cfgOf 1) 0 564136534 = some 714102400000000000 := by decide
example : calcGov .asShipped (cfgOf 1) 0 564136533 = some 714102399000000000 := by decide
example : calcGov .asShipped (cfgOf 1) 564136533 564136534 = some 0 := by decide
example : calcGov .sound (cfgOf 1) 564136533 564136534 = some 1000000000 := by decide
example : calcUnbind (cfgOf 1) 1000000000 0 4294967295 = some 285897600000000000 := by decide
-- a split across an interval edge and the holder deadline
example : calcUnbind (cfgOf 1) 7 31535999 63763201 = oadd (calcUnbind (cfgOf 1) 7 31535999 63072000) (calcUnbind (cfgOf 1) 7 63072000 63763201) := by decide

end OntVerif.Props.C09
