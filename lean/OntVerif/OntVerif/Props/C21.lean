import OntVerif.Model.NeoInt
namespace OntVerif.Props.C21
open OntVerif.Model.NeoInt
theorem C21_placeholder : toNeo 0 = [] := by decide
end OntVerif.Props.C21
