import OntVerif.Proofs.NeoInt
/-!
# C21 — Numeric encodings round-trip exactly

Model: `Model/NeoInt.lean` (first half), tied to `common/bigint.go`, `common/int128.go`,
`smartcontract/service/native/utils/serialization.go`, `core/states/native_token_balance.go` by `harness/cmd/c21`.
"Each value has exactly one encoding" is read as: the encoder is injective and produces the unique shortest
byte string the decoder maps to the value (decoders do accept sign-extended, non-minimal NeoBytes; see props/C21.json).
-/
namespace OntVerif.Props.C21
open OntVerif.Util OntVerif.Model.Codec OntVerif.Model.NeoInt OntVerif.Proofs.NeoInt OntVerif.Proofs.Codec

/-! ## NeoBytes ⇄ big integer -/

/-- lossless, for every integer (no bound) -/
theorem C21_neo_rt (z : Int) : fromNeo (toNeo z) = z := neo_rt z

theorem C21_neo_injective (a b : Int) (h : toNeo a = toNeo b) : a = b := by
  have := congrArg fromNeo h
  rwa [neo_rt, neo_rt] at this

/-- what the decoder computes: the two's complement value of the little-endian string — congruent to the unsigned
value modulo `256^len` and inside the signed range of `len` bytes -/
theorem C21_neo_decode_twos_complement (bs : Bytes) :
    (fromNeo bs - (fromLE bs : Int)) % ((256 ^ bs.length : Nat) : Int) = 0 ∧
    -((256 ^ bs.length : Nat) : Int) ≤ 2 * fromNeo bs ∧ 2 * fromNeo bs < ((256 ^ bs.length : Nat) : Int) := by
  rw [fromNeo_eq_tc]
  refine ⟨?_, (tc_fits bs).1, (tc_fits bs).2⟩
  unfold tc
  split
  · simp
  · have : (fromLE bs : Int) - ((256 ^ bs.length : Nat) : Int) - (fromLE bs : Int) = -((256 ^ bs.length : Nat) : Int) := by omega
    rw [this]; simp

/-- minimal: no byte string that decodes to `z` is shorter than the encoder's output -/
theorem C21_neo_minimal (z : Int) (bs : Bytes) (h : fromNeo bs = z) : (toNeo z).length ≤ bs.length :=
  neo_minimal z bs h

/-- unique: the encoder's output is the only string of minimal length decoding to `z` -/
theorem C21_neo_unique_shortest (z : Int) (bs : Bytes) (h : fromNeo bs = z) (hl : bs.length = (toNeo z).length) :
    bs = toNeo z := neo_unique z bs h hl

/-! ## 128-bit integers -/

/-- round trip on the whole range `[-2^127, 2^127)`; the encoding is 16 bytes -/
theorem C21_i128_rt (z : Int) (h1 : minI128 ≤ z) (h2 : z ≤ maxI128) :
    ∃ b, i128FromBigInt z = some b ∧ b.length = 16 ∧ i128ToBigInt b = z := i128_rt z h1 h2

/-- everything outside the range is rejected -/
theorem C21_i128_reject (z : Int) (h : z < minI128 ∨ maxI128 < z) : i128FromBigInt z = none := i128_reject z h

/-- the other direction: every 16-byte string is the encoding of the integer it decodes to (bijection) -/
theorem C21_i128_rt_bytes (b : Bytes) (hl : b.length = 16) :
    i128FromBigInt (i128ToBigInt b) = some b ∧ minI128 ≤ i128ToBigInt b ∧ i128ToBigInt b ≤ maxI128 :=
  ⟨i128_rt_bytes b hl, i128ToBigInt_range b hl⟩

theorem C21_i128_injective (a b : Int) (bs : Bytes) (ha : i128FromBigInt a = some bs) (hb : i128FromBigInt b = some bs) :
    a = b := by
  have ra : minI128 ≤ a ∧ a ≤ maxI128 := by
    apply Classical.byContradiction; intro hn
    rw [i128_reject a (by omega)] at ha; cases ha
  have rb : minI128 ≤ b ∧ b ≤ maxI128 := by
    apply Classical.byContradiction; intro hn
    rw [i128_reject b (by omega)] at hb; cases hb
  obtain ⟨x, hx, _, hxa⟩ := i128_rt a ra.1 ra.2
  obtain ⟨y, hy, _, hyb⟩ := i128_rt b rb.1 rb.2
  rw [ha] at hx; rw [hb] at hy
  injection hx with hx; injection hy with hy
  rw [← hxa, ← hyb, ← hx, ← hy]

/-- `I128FromInt64` sign-extends: it denotes the int64 it was built from -/
theorem C21_i128_from_int64 (v : BitVec 64) : i128ToBigInt (i128FromInt64 v) = v.toInt := i128_int64 v

/-! ## native-contract var-uint (`EncodeVarUint` / `DecodeVarUint`) -/

/-- round trip at any cursor position of any buffer, for every uint64 -/
theorem C21_varuint_native_rt (v : Nat) (hv : v < 18446744073709551616) (pre rest : Bytes)
    (hlen : (pre ++ encodeVarUint v ++ rest).length < two64) :
    decodeVarUint ⟨pre ++ encodeVarUint v ++ rest, pre.length⟩
      = some (.ok v, ⟨pre ++ encodeVarUint v ++ rest,
                pre.length + getVarUintSize (toNeo (Int.ofNat v)).length + (toNeo (Int.ofNat v)).length⟩) :=
  decodeVarUint_rt v hv pre rest hlen

theorem C21_varuint_native_injective (a b : Nat) (ha : a < 18446744073709551616) (hb : b < 18446744073709551616)
    (h : encodeVarUint a = encodeVarUint b) : a = b := by
  have la := encodeVarUint_length_lt a ha
  have lb := encodeVarUint_length_lt b hb
  have ra := decodeVarUint_rt a ha [] [] (by simpa using la)
  have rb := decodeVarUint_rt b hb [] [] (by simpa using lb)
  simp only [List.nil_append, List.append_nil, List.length_nil] at ra rb
  rw [h, rb] at ra
  injection ra with ra
  injection ra with ra _
  injection ra with ra
  exact ra.symm

/-! ## token balance storage item -/

/-- every non-negative balance the encoder accepts decodes to itself (version 0: whole tokens with a uint64 quotient,
version 1: everything else) -/
theorem C21_balance_item_rt (z : Int) (hz : 0 ≤ z) (ver : UInt8) (val : Bytes) (h : balanceToItem z = some (ver, val)) :
    balanceFromItem ver val = some (.ok z) := balance_rt z hz ver val h

/-- the encoder is defined exactly outside "whole-token amount with a quotient outside uint64" (where the Go code panics) -/
theorem C21_balance_encoder_defined (z : Int) :
    balanceToItem z = none ↔ (z % scaleFactor = 0 ∧ (z < 0 ∨ 18446744073709551616 * scaleFactor ≤ z)) :=
  balance_defined z

/-- a negative balance never survives a round trip: either the encoder panics or the decoder rejects it -/
theorem C21_balance_negative_rejected (z : Int) (hz : z < 0) :
    balanceToItem z = none ∨
    ∃ val, balanceToItem z = some (1, val) ∧ balanceFromItem 1 val = some (.error .negative) := balance_negative z hz

/-- one storage item per balance (all integers, both versions) -/
theorem C21_balance_item_injective (z1 z2 : Int) (i : UInt8 × Bytes)
    (h1 : balanceToItem z1 = some i) (h2 : balanceToItem z2 = some i) : z1 = z2 := balance_inj z1 z2 i h1 h2

/-- the serialized storage item (`MustToStorageItemBytes`) deserializes to the same (version, value) -/
theorem C21_balance_bytes_rt (z : Int) (hz : 0 ≤ z) (raw : Bytes) (h : balanceToBytes z = some raw)
    (hlen : raw.length + 10 < two64) : balanceFromBytes raw = some (.ok z) := by
  unfold balanceToBytes at h
  cases hi : balanceToItem z with
  | none => rw [hi] at h; cases h
  | some i =>
    obtain ⟨ver, val⟩ := i
    rw [hi] at h
    simp only [Option.map_some, Option.some.injEq] at h
    subst h
    unfold balanceFromBytes
    have hl : val.length + 10 < two64 := by
      simp only [itemToBytes, List.length_cons, writeVarBytes, List.length_append] at hlen; omega
    rw [item_bytes_rt ver val hl]
    exact balance_rt z hz ver val hi

/-! ### Non-vacuity / boundary witnesses -/
example : toNeo 127 = [0x7f] ∧ toNeo 128 = [0x80, 0x00] ∧ toNeo (-128) = [0x80] ∧ toNeo (-129) = [0x7f, 0xff] := by decide
example : toNeo (-1) = [0xff] ∧ toNeo (-256) = [0x00, 0xff] ∧ toNeo 0 = [] ∧ toNeo 256 = [0x00, 0x01] := by decide
-- the decoder accepts sign-extended (non-minimal) strings: the observation recorded in props/C21.json
example : fromNeo [0x05, 0x00] = 5 ∧ fromNeo [0xff, 0xff] = -1 ∧ fromNeo [0x00] = 0 := by decide
example : minI128 ≤ (-5 : Int) ∧ (-5 : Int) ≤ maxI128 := by decide
example : i128FromBigInt maxI128 = some [255,255,255,255,255,255,255,255,255,255,255,255,255,255,255,127] := by decide
example : i128FromBigInt (maxI128 + 1) = none ∧ i128FromBigInt (minI128 - 1) = none := by decide
example : balanceToItem 1500000000 = some (1, [0x00, 0x2f, 0x68, 0x59]) := by decide
example : balanceToItem 2000000000 = some (0, [2, 0, 0, 0, 0, 0, 0, 0]) := by decide
example : balanceToItem (18446744073709551616 * 1000000000) = none := by decide
example : balanceToItem (-5) = some (1, [0xfb]) ∧ balanceFromItem 1 [0xfb] = some (.error .negative) := by decide
example : decodeVarUint ⟨[0xaa] ++ encodeVarUint 128 ++ [0xbb], 1⟩ = some (.ok 128, ⟨[0xaa, 0x02, 0x80, 0x00, 0xbb], 4⟩) := by decide

end OntVerif.Props.C21
