import OntVerif.Proofs.ChainConfig
import OntVerif.Proofs.F64
/-!
# C30 — the chain configuration is a deterministic function of the stake set

`Model/ChainConfig.lean` mirrors `vconfig.GenesisChainConfig` (tied to the real function by the C30 harness on every
run). The theorems hold for every hash `H` (shuffle) and every rank function `R` (the `float64` expression
`uint64(math.Ceil(float64(stake)*float64(scale)*float64(K)/float64(sum)))`) that is `≥ 1` on positive arguments and
monotone in the stake (`RankOK`). Both facts are **proved** for an explicit round-to-nearest-even binary64 model
(`Model/F64.lean`, `C30_rankIEEE_ok`); that model is what the driver runs, so its agreement with Go's `float64` is
checked slot for slot by the harness (including stakes around 2^53 and one stake near 2^64).
-/
namespace OntVerif.Props.C30
open OntVerif.Model.ChainConfig OntVerif.Proofs.ChainConfig

/-- what the slot theorems need of the floating-point rank expression `R stake scale K sum` -/
structure RankOK (R : Nat → Nat → Nat → Nat → Nat) : Prop where
  pos : ∀ s sc k sum, 0 < s → 0 < sc → 0 < k → 0 < sum → sum < u64 → 1 ≤ R s sc k sum
  mono : ∀ s s' sc k sum, 0 < sum → s ≤ s' → R s sc k sum ≤ R s' sc k sum

/-- The IEEE-754 binary64 model of `uint64(math.Ceil(float64(stake)*float64(scale)*float64(K)/float64(sum)))`
(round-to-nearest-even after every operation, `Model/F64.lean`) satisfies both: no assumption about floating point is
left in the slot theorems when `R` is this function — the function the driver runs against the real code. -/
theorem C30_rankIEEE_ok : RankOK OntVerif.Model.F64.rankIEEE where
  pos := fun s sc k sum h1 h2 h3 h4 h5 => OntVerif.Proofs.F64.rankIEEE_pos s sc k sum h1 h2 h3 h4 h5
  mono := fun s s' sc k sum h0 h => OntVerif.Proofs.F64.rankIEEE_mono s s' sc k sum h0 h

/-- valid input: `1 ≤ K ≤ |peers|`, `2K ≤ L < 2^32`, distinct keys, distinct indexes -/
def Valid (K L : Nat) (peers : List StakePeer) : Prop :=
  1 ≤ K ∧ K ≤ peers.length ∧ 2 * K ≤ L ∧ L < u32 ∧ (peers.map (·.key)).Nodup ∧ (peers.map (·.index)).Nodup

instance (K L : Nat) (peers : List StakePeer) : Decidable (Valid K L peers) := by unfold Valid; infer_instance

/-- **C30 (order independence).** Any two orderings of the same peers (distinct keys) give the same outcome — the same
configuration, peer list and position table — for every `K`, `L`, `C`, rank function and hash. -/
theorem C30_perm_invariant (R : Nat → Nat → Nat → Nat → Nat) (H : List Nat → Nat → Nat) (K L C : Nat)
    (peers₁ peers₂ : List StakePeer) (hp : peers₁.Perm peers₂) (hk : (peers₁.map (·.key)).Nodup) :
    genesisChainConfig R H K L C peers₁ = genesisChainConfig R H K L C peers₂ := by
  unfold genesisChainConfig selected
  rw [sortPeers_perm_invariant peers₁ peers₂ hp hk, hp.length_eq]

/-- valid inputs are accepted -/
theorem C30_valid_ok (R : Nat → Nat → Nat → Nat → Nat) (H : List Nat → Nat → Nat) (K L C : Nat) (peers : List StakePeer)
    (hv : Valid K L peers) : ∃ cfg, genesisChainConfig R H K L C peers = .ok cfg := by
  obtain ⟨h1, h2, h3, h4, _, _⟩ := hv
  unfold genesisChainConfig
  have a : ¬ K > peers.length := by omega
  have b : ¬ K = 0 := by omega
  have h5 : 2 ≤ L / K := (Nat.le_div_iff_mul_le (by omega)).mpr (by omega)
  have h6 : L / K ≤ L := Nat.div_le_self L K
  have c : ¬ (L / K + u32 - 1) % u32 = 0 := by unfold u32 at *; omega
  simp only [a, b, c, if_false]
  exact ⟨_, rfl⟩

/-- **C30 (top K).** The configuration lists exactly the `K` peers that come first in the order
"higher stake first, ties towards the larger key": the peers split into the `K` selected ones and a rest none of which
has a higher stake (or the same stake and a larger key) than a selected one. -/
theorem C30_topK (R : Nat → Nat → Nat → Nat → Nat) (H : List Nat → Nat → Nat) (K L C : Nat) (peers : List StakePeer)
    (cfg : Config) (hidx : (peers.map (·.index)).Nodup) (h : genesisChainConfig R H K L C peers = .ok cfg) :
    cfg.n = K ∧ cfg.peers = (selected K peers).map (fun p => (p.index, p.key)) ∧ (selected K peers).length = K ∧
    ∃ rest, (selected K peers ++ rest).Perm peers ∧
      ∀ p ∈ selected K peers, ∀ q ∈ rest, q.stake ≤ p.stake ∧ (q.stake = p.stake → keyLt p.key q.key = false) := by
  unfold genesisChainConfig at h
  split at h
  · cases h
  · rename_i hK
    split at h
    · cases h
    · simp only at h
      split at h
      · cases h
      · injection h with h
        subst h
        refine ⟨rfl, ?_, selected_length K peers (by omega), _, selected_sublist_perm K peers, ?_⟩
        · apply List.map_congr_left
          intro p hp
          rw [idOf_self (selected_index_nodup K peers hidx) hp]
          rfl
        · intro p hp q hq
          exact (le_iff p q).mp (selected_before_rest K peers p hp q hq)

theorem stakeSum_lt (top : List StakePeer) : stakeSum top < u64 := by
  unfold stakeSum
  have : ∀ (l : List Nat) (init : Nat), init < u64 → l.foldl (fun s x => (s + x) % u64) init < u64 := by
    intro l
    induction l with
    | nil => intro init h; exact h
    | cons x l ih => intro init _; exact ih _ (Nat.mod_lt _ (by decide))
  exact this _ 0 (by decide)

/-- the position table of an accepted input is a rearrangement of `rank` copies of each selected peer's index -/
theorem posTable_count (R : Nat → Nat → Nat → Nat → Nat) (H : List Nat → Nat → Nat) (K L C : Nat) (peers : List StakePeer)
    (cfg : Config) (h : genesisChainConfig R H K L C peers = .ok cfg) :
    ∃ scale, 0 < scale ∧ 0 < K ∧
      ∀ x, cfg.posTable.count x = (posTable0 R scale K (stakeSum (selected K peers)) (selected K peers)).count x := by
  unfold genesisChainConfig at h
  split at h
  · cases h
  · split at h
    · cases h
    · rename_i hK0
      simp only at h
      split at h
      · cases h
      · rename_i hs
        injection h with h
        subst h
        exact ⟨_, Nat.pos_of_ne_zero hs, Nat.pos_of_ne_zero hK0, fun x => shuffleLoop_count _ _ _ _ x⟩

theorem rankOf_pos {R : Nat → Nat → Nat → Nat → Nat} (hR : RankOK R) (scale K sum : Nat) (hs : 0 < scale) (hK : 0 < K)
    (hsum : sum < u64) (p : StakePeer) : 1 ≤ rankOf R scale K sum p := by
  unfold rankOf
  split
  · rename_i h; exact hR.pos _ _ _ _ h.2 hs hK h.1 hsum
  · exact Nat.le_refl 1

theorem rankOf_mono {R : Nat → Nat → Nat → Nat → Nat} (hR : RankOK R) (scale K sum : Nat) (hs : 0 < scale) (hK : 0 < K)
    (hsum : sum < u64) (p q : StakePeer) (h : q.stake ≤ p.stake) : rankOf R scale K sum q ≤ rankOf R scale K sum p := by
  unfold rankOf
  by_cases hq : sum > 0 ∧ q.stake > 0
  · have hp : sum > 0 ∧ p.stake > 0 := ⟨hq.1, by omega⟩
    simp only [hq, hp, and_self, if_true]
    exact hR.mono _ _ _ _ _ hq.1 h
  · simp only [hq, if_false]
    exact rankOf_pos hR scale K sum hs hK hsum p

/-- **C30 (slots).** With distinct peer indexes, every selected peer owns at least one slot of the position table, a
peer with at least the stake of another owns at least as many slots, and the table mentions selected peers only. -/
theorem C30_slots (R : Nat → Nat → Nat → Nat → Nat) (hR : RankOK R) (H : List Nat → Nat → Nat) (K L C : Nat)
    (peers : List StakePeer) (cfg : Config) (hidx : (peers.map (·.index)).Nodup)
    (h : genesisChainConfig R H K L C peers = .ok cfg) :
    (∀ p ∈ selected K peers, 1 ≤ cfg.posTable.count p.index) ∧
    (∀ p ∈ selected K peers, ∀ q ∈ selected K peers, q.stake ≤ p.stake →
      cfg.posTable.count q.index ≤ cfg.posTable.count p.index) ∧
    (∀ x ∈ cfg.posTable, ∃ p ∈ selected K peers, p.index = x) := by
  obtain ⟨scale, hs, hK, hc⟩ := posTable_count R H K L C peers cfg h
  have hsum := stakeSum_lt (selected K peers)
  generalize stakeSum (selected K peers) = sum at hc hsum
  have hn := selected_index_nodup K peers hidx
  have cnt : ∀ p ∈ selected K peers, cfg.posTable.count p.index = rankOf R scale K sum p := by
    intro p hp
    rw [hc]
    exact count_posTable0 _ _ hn p hp
  refine ⟨?_, ?_, ?_⟩
  · intro p hp
    rw [cnt p hp]
    exact rankOf_pos hR scale K sum hs hK hsum p
  · intro p hp q hq hst
    rw [cnt p hp, cnt q hq]
    exact rankOf_mono hR scale K sum hs hK hsum p q hst
  · intro x hx
    have : 0 < (posTable0 R scale K sum (selected K peers)).count x := by
      rw [← hc]; exact List.count_pos_iff.mpr hx
    exact mem_posTable0 _ _ x (List.count_pos_iff.mp this)

/-- **C30 (slots), with the binary64 model in place of the abstract rank function**: no floating-point assumption left. -/
theorem C30_slots_ieee (H : List Nat → Nat → Nat) (K L C : Nat)
    (peers : List StakePeer) (cfg : Config) (hidx : (peers.map (·.index)).Nodup)
    (h : genesisChainConfig OntVerif.Model.F64.rankIEEE H K L C peers = .ok cfg) :
    (∀ p ∈ selected K peers, 1 ≤ cfg.posTable.count p.index) ∧
    (∀ p ∈ selected K peers, ∀ q ∈ selected K peers, q.stake ≤ p.stake →
      cfg.posTable.count q.index ≤ cfg.posTable.count p.index) ∧
    (∀ x ∈ cfg.posTable, ∃ p ∈ selected K peers, p.index = x) :=
  C30_slots _ C30_rankIEEE_ok H K L C peers cfg hidx h

/-- Distinct keys are needed for order independence: two peers with the same key and stake keep their input order
(stable sort), so the configuration lists them in the order the caller happened to supply. -/
theorem C30_duplicate_key_counterexample :
    ¬ (∀ (p₁ p₂ : List StakePeer), p₁.Perm p₂ →
        genesisChainConfig (fun s sc k sum => (s * sc * k + sum - 1) / sum) (fun _ _ => 0) 2 4 0 p₁
          = genesisChainConfig (fun s sc k sum => (s * sc * k + sum - 1) / sum) (fun _ _ => 0) 2 4 0 p₂) := by
  intro h
  have := h [⟨1, [97], 5⟩, ⟨2, [97], 5⟩] [⟨2, [97], 5⟩, ⟨1, [97], 5⟩] (List.Perm.swap _ _ _)
  revert this
  decide

/-! ### Non-vacuity -/

/-- the exact (rational) ceiling satisfies the rank assumptions -/
example : RankOK (fun s sc k sum => (s * sc * k + sum - 1) / sum) where
  pos := by
    intro s sc k sum h1 h2 h3 h4 _
    have : 1 ≤ s * sc * k := Nat.mul_pos (Nat.mul_pos h1 h2) h3
    exact (Nat.le_div_iff_mul_le h4).mpr (by omega)
  mono := by
    intro s s' sc k sum _ h
    apply Nat.div_le_div_right
    have : s * sc * k ≤ s' * sc * k := Nat.mul_le_mul_right _ (Nat.mul_le_mul_right _ h)
    omega

example : Valid 3 9 [⟨1, [98], 10⟩, ⟨2, [97], 10⟩, ⟨3, [100], 0⟩, ⟨4, [99], 30⟩] := by decide

example : genesisChainConfig (fun s sc k sum => (s * sc * k + sum - 1) / sum) (fun id i => id.length + 7 * i) 3 9 1
      [⟨1, [98], 10⟩, ⟨2, [97], 10⟩, ⟨3, [100], 0⟩, ⟨4, [99], 30⟩]
    = .ok ⟨3, 1, [(4, [99]), (1, [98]), (2, [97])], [4, 4, 4, 1, 1, 2, 2, 4]⟩ := by decide

end OntVerif.Props.C30
