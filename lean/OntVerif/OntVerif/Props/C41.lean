import OntVerif.Proofs.Auth
/-!
# C41 — Role-based contract authorization grants exactly the assigned functions

Model: `Model/Auth.lean` (auth native contract; constants and expiry/level comparisons regenerated from the Go source,
`Gen/Auth.lean`). The ONT-ID signature check is an abstract per-call result `sig`. "Holds a role" is the contract's own
notion (`getAuthToken`, used by `delegate`, `withdraw` and `assignOntIDsToRole`): a stored permanent token of the role,
or a delegation record of the role with `now < expireTime`.
-/
namespace OntVerif.Props.C41
open OntVerif.Model.Auth OntVerif.Proofs.Auth OntVerif.Gen.Auth

/-- The property: in every state reachable by any history of operations at any block times, `verifyToken` answers TRUE
exactly when the caller proved control of its key and holds — directly or through an unexpired delegation — a role to
which the function is assigned. -/
def C41_full_statement (v : Variant) : Prop :=
  ∀ (V : Nat → Bool) (ops : List (Nat × Op)) (c caller fn : Nat) (sig : Sig) (now : Nat),
    verifyToken v (run V v {} ops) c caller fn sig now = .t ↔
      (sig = .ok ∧ ∃ role, fn ∈ (run V v {} ops).funcs c role ∧ Holds (run V v {} ops) c caller role now)

/-- **Full statement for `verifyToken` with `getAuthToken`'s notion of expiry** (`Variant.sound`). -/
theorem C41_iff : C41_full_statement .sound := by
  intro V ops c caller fn sig now
  rw [verifyToken_t_iff, verifyHit_sound_iff]

/-- the iff does not even need reachability -/
theorem C41_iff_any_state (st : St) (c caller fn : Nat) (sig : Sig) (now : Nat) :
    verifyToken .sound st c caller fn sig now = .t ↔ (sig = .ok ∧ ∃ role, fn ∈ st.funcs c role ∧ Holds st c caller role now) := by
  rw [verifyToken_t_iff, verifyHit_sound_iff]

/-- `Holds` is exactly what the contract's own `hasRole`/`getAuthToken` computes -/
theorem C41_holds_is_hasRole (st : St) (c id role now : Nat) : hasRole st c id role now = true ↔ Holds st c id role now :=
  hasRole_iff_holds st c id role now

/-- **Invariants of every reachable state** (any variant, any history, any block times, any `VerifyID`):
permanent tokens have level 2, expiry `future`, at most one per role and identity; delegation records have level 1,
expire strictly before `future`, at most one per role and delegate, and their `root` holds the role directly —
delegation chains have depth one (a delegate cannot delegate). -/
theorem C41_reachable_inv (V : Nat → Bool) (v : Variant) (ops : List (Nat × Op)) : Inv (run V v {} ops) :=
  inv_run V v {} inv_empty ops

/-- "through an unexpired delegation chain as the code defines it": in a reachable state a delegated holding is a single
record issued by a root that holds the role DIRECTLY, with level 1 and an expiry before `future` -/
theorem C41_delegation_chain (V : Nat → Bool) (v : Variant) (ops : List (Nat × Op)) (c id role now : Nat)
    (h : HoldsDelegated (run V v {} ops) c id role now) :
    ∃ s ∈ (run V v {} ops).status c id, s.role = role ∧ now < s.expire ∧ s.expire < FUTURE ∧ s.level = 1 ∧
      HoldsDirect (run V v {} ops) c s.root role := by
  obtain ⟨s, hs, hr, hl⟩ := h
  obtain ⟨h1, h2, h3⟩ := (C41_reachable_inv V v ops).stShape c id s hs
  exact ⟨s, hs, hr, hl, h2, h1, hr ▸ h3⟩

/-- the two variants differ only in `verifyToken`'s answer: they reach the same states -/
theorem C41_run_variant_independent (V : Nat → Bool) (st : St) (ops : List (Nat × Op)) :
    run V .asShipped st ops = run V .sound st ops := by
  induction ops generalizing st with
  | nil => rfl
  | cons a r ih =>
    obtain ⟨now, op⟩ := a
    have : (step V .asShipped st now op).2 = (step V .sound st now op).2 := by cases op <;> rfl
    simp only [run, this, ih]

/-- **Pinned tree, what is proved** (`_partial`): the iff with the expiry tests as written in `verifyToken`
(`expireTime < native.Time` skips): a permanent token counts while `now ≤ future`, a delegation while `now ≤ expireTime`. -/
theorem C41_asShipped_partial (st : St) (c caller fn : Nat) (sig : Sig) (now : Nat) :
    verifyToken .asShipped st c caller fn sig now = .t ↔
      (sig = .ok ∧ ∃ role, fn ∈ st.funcs c role ∧
        ((∃ t ∈ tokensOf st c caller, t.role = role ∧ now ≤ t.expire) ∨
         (∃ s ∈ st.status c caller, s.role = role ∧ now ≤ s.expire))) := by
  rw [verifyToken_t_iff, verifyHit_asShipped_iff]

/-- the pinned tree meets the full statement at every block time up to `future` that is not the expiry second of one of
the caller's delegation records -/
theorem C41_asShipped_agrees_partial (V : Nat → Bool) (ops : List (Nat × Op)) (c caller fn : Nat) (sig : Sig) (now : Nat)
    (hfut : now ≤ FUTURE) (hexp : ∀ s ∈ (run V .asShipped {} ops).status c caller, s.expire ≠ now) :
    verifyToken .asShipped (run V .asShipped {} ops) c caller fn sig now = .t ↔
      (sig = .ok ∧ ∃ role, fn ∈ (run V .asShipped {} ops).funcs c role ∧ Holds (run V .asShipped {} ops) c caller role now) := by
  have hi := C41_reachable_inv V .asShipped ops
  generalize run V .asShipped {} ops = st at hi hexp
  rw [C41_asShipped_partial]
  constructor
  · rintro ⟨hs, role, hf, ⟨t, ht, hr, _⟩ | ⟨s, hss, hr, hl⟩⟩
    · exact ⟨hs, role, hf, Or.inl ⟨t, ht, hr⟩⟩
    · have := hexp s hss
      exact ⟨hs, role, hf, Or.inr ⟨s, hss, hr, by omega⟩⟩
  · rintro ⟨hs, role, hf, ⟨t, ht, hr⟩ | ⟨s, hss, hr, hl⟩⟩
    · exact ⟨hs, role, hf, Or.inl ⟨t, ht, hr, by rw [(hi.tokShape c caller t ht).1]; exact hfut⟩⟩
    · exact ⟨hs, role, hf, Or.inr ⟨s, hss, hr, by omega⟩⟩

/-! ### the pinned tree violates the full statement in both directions -/

def demoOps : List (Nat × Op) :=
  [(100, .init 1 1), (100, .assignFuncs 1 1 1 [1] .ok), (100, .assignIds 1 1 1 [2] .ok), (200, .delegate 1 2 3 1 10 1 .ok)]

/-- **"⇒" fails at the expiry second**: identity 3 was delegated role 1 at time 200 for 10 s; at block time 210 the
contract's own `getAuthToken` says 3 no longer holds the role (3 may be delegated the role afresh), yet
`verifyToken` answers TRUE. -/
theorem C41_asShipped_counterexample : ¬ C41_full_statement .asShipped := by
  intro h
  have h1 : verifyToken .asShipped (run (fun _ => true) .asShipped {} demoOps) 1 3 1 .ok 210 = .t := by decide
  obtain ⟨_, role, _, hh⟩ := (h (fun _ => true) demoOps 1 3 1 .ok 210).mp h1
  have hs : (run (fun _ => true) .asShipped {} demoOps).status 1 3 = [⟨2, 1, 210, 1⟩] := by decide
  have ht : tokensOf (run (fun _ => true) .asShipped {} demoOps) 1 3 = [] := by decide
  rcases hh with ⟨t, hm, _⟩ | ⟨s, hm, _, hl⟩
  · rw [ht] at hm; simp at hm
  · rw [hs] at hm; simp at hm; subst hm; simp at hl

/-- **"⇐" fails after 2100-01-01T12:00:00Z**: identity 2 holds role 1 directly ("permanent" token) but `verifyToken`
answers FALSE from block time `future + 1` on (uint32 block times run until 2106). -/
theorem C41_asShipped_counterexample_2100 :
    verifyToken .asShipped (run (fun _ => true) .asShipped {} demoOps) 1 2 1 .ok (FUTURE + 1) = .f ∧
    (1 ∈ (run (fun _ => true) .asShipped {} demoOps).funcs 1 1 ∧
      Holds (run (fun _ => true) .asShipped {} demoOps) 1 2 1 (FUTURE + 1)) := by
  refine ⟨by decide, by decide, Or.inl ⟨⟨1, FUTURE, 2⟩, by decide, rfl⟩⟩

/-- non-vacuity of `C41_iff`: in the demo state the delegate may call at 209, and may not at 210 -/
example : verifyToken .sound (run (fun _ => true) .sound {} demoOps) 1 3 1 .ok 209 = .t := by decide
example : verifyToken .sound (run (fun _ => true) .sound {} demoOps) 1 3 1 .ok 210 = .f := by decide
example : verifyToken .sound (run (fun _ => true) .sound {} demoOps) 1 2 1 .ok (FUTURE + 1) = .t := by decide
example : verifyToken .sound (run (fun _ => true) .sound {} demoOps) 1 2 2 .ok 209 = .f := by decide

/-! ### authorisation of state changes -/

/-- an operation whose ONT-ID signature check does not succeed changes nothing (`initContractAdmin` has no signature:
it is authorised by being called from the contract itself) -/
theorem C41_unauth_noop (V : Nat → Bool) (v : Variant) (st : St) (now : Nat) (op : Op)
    (hop : match op with
      | .init _ _ => False
      | .transfer _ _ s | .assignFuncs _ _ _ _ s | .assignIds _ _ _ _ s | .delegate _ _ _ _ _ _ s | .withdraw _ _ _ _ s
      | .verify _ _ _ s => s ≠ .ok) :
    (step V v st now op).2 = st := by
  cases op with
  | init c id => exact hop.elim
  | transfer c a sig =>
    simp only [step, transfer]
    cases sig <;> first | exact absurd rfl hop | (repeat' split) <;> first | rfl | contradiction
  | assignFuncs c a r fns sig =>
    simp only [step, assignFuncs]
    cases sig <;> first | exact absurd rfl hop | (repeat' split) <;> first | rfl | contradiction
  | assignIds c a r ids sig =>
    simp only [step, assignIds]
    cases sig <;> first | exact absurd rfl hop | (repeat' split) <;> first | rfl | contradiction
  | delegate c f t r p l sig =>
    simp only [step, delegate]
    cases sig <;> first | exact absurd rfl hop | (repeat' split) <;> first | rfl | contradiction
  | withdraw c i d r sig =>
    simp only [step, withdraw]
    cases sig <;> first | exact absurd rfl hop | rfl
  | verify c caller fn sig => rfl

/-- only the stored admin assigns functions and roles -/
theorem C41_admin_only (V : Nat → Bool) (st : St) (c admin role : Nat) (xs : List Nat) (sig : Sig) (now : Nat)
    (h : st.admin c ≠ some admin) :
    (assignFuncs st c admin role xs sig).2 = st ∧ (assignIds V st c admin role xs sig now).2 = st := by
  constructor
  · unfold assignFuncs
    split
    · rfl
    · split
      · rfl
      · rename_i a ha
        have : a ≠ admin := fun e => h (e ▸ ha)
        simp [this]
  · unfold assignIds
    split
    · rfl
    · split
      · rfl
      · split
        · rfl
        · rename_i a ha
          have : a ≠ admin := fun e => h (e ▸ ha)
          simp [this]

/-- **withdraw revokes**: in a reachable state, after a successful withdraw of `role` from `dlg`, `dlg` holds the role
at no time through a delegation (it was the only record of that role) -/
theorem C41_withdraw_revokes (V : Nat → Bool) (v : Variant) (ops : List (Nat × Op)) (c ini dlg role : Nat) (sig : Sig)
    (now : Nat) (st' : St) (h : withdraw (run V v {} ops) c ini dlg role sig now = (.t, st')) :
    ∀ now', ¬ HoldsDelegated st' c dlg role now' := by
  have hi := C41_reachable_inv V v ops
  generalize run V v {} ops = st at hi h
  unfold withdraw at h
  cases sig with
  | err => simp at h
  | bad => simp at h
  | ok =>
    simp only at h
    split at h
    · simp at h
    · split at h
      · simp at h
      · rename_i ss hrm
        simp at h; subst h
        intro now' ⟨s, hs, hr, _⟩
        simp at hs
        exact (removeDelegation_sublist _ ss role ini hrm).2 (hi.stUniq c dlg) s hs hr

/-- a successful delegation is issued by a direct holder, to an identity that did not hold the role, with level 1 and an
expiry strictly before `future`; nothing else changes -/
theorem C41_delegate_guard (V : Nat → Bool) (v : Variant) (ops : List (Nat × Op)) (c frm to role period level : Nat)
    (sig : Sig) (now : Nat) (st' : St)
    (h : delegate V (run V v {} ops) c frm to role period level sig now = (.t, st')) :
    sig = .ok ∧ HoldsDirect (run V v {} ops) c frm role ∧ ¬ Holds (run V v {} ops) c to role now ∧ level = 1 ∧
      now + period < FUTURE := by
  have hi := C41_reachable_inv V v ops
  generalize run V v {} ops = st at hi h
  unfold delegate at h
  split at h
  · simp at h
  · split at h
    · simp at h
    · cases sig with
      | err => simp at h
      | bad => simp at h
      | ok =>
        simp only at h
        split at h
        · simp at h
        · split at h
          · simp at h
          · rename_i ft hft
            split at h
            · simp at h
            · rename_i hto
              split at h
              · rename_i hg
                simp only [Bool.and_eq_true, delegateOuter, delegateInner, decide_eq_true_eq] at hg
                obtain ⟨h2, ⟨hlt, hpos⟩, hexp⟩ := hg
                obtain ⟨hm, hr, he⟩ := level2_direct st hi c frm role now ft hft h2
                refine ⟨rfl, ⟨ft, hm, hr⟩, ?_, by omega, by omega⟩
                intro hh
                exact hto ((hasRole_iff_holds st c to role now).mpr hh)
              · simp at h

end OntVerif.Props.C41
