import OntVerif.Proofs.InvokeFee
import OntVerif.Gen.Gas
/-!
# C05 — A failed transaction changes nothing except the fee it is charged

Model: `Model/InvokeFee.lean` (`HandleInvokeTransaction`, `costInvalidGas`, `chargeCostGas`, `tuneGasFeeByHeight`,
`calcGasByCodeLen`, the per-transaction cache discipline of `executeBlock`), fee arithmetic in `UInt64` exactly as
written, the VM a black box whose `ExecOutcome` is universally quantified. Every theorem below is for ALL `uint64`
gas prices / limits (including every wrap-around of `GasLimit*GasPrice`, `MIN_TRANSACTION_GAS*GasPrice`,
`codeLenGasLimit*GasPrice`, `availableGasLimit - codeLenGasLimit`, `availableGasLimit - sc.Gas`), all balances, all
overlays (`σ` arbitrary), all VM outcomes, both variants of the recorded defect.

The only way the as-shipped code falls outside the statement is the Go panic (integer divide by zero in
`tuneGasFeeByHeight`) characterised by `C05_panic_iff_cond` / `C05_asShipped_counterexample`.
-/
namespace OntVerif.Props.C05
open OntVerif.Model.InvokeFee OntVerif.Proofs.InvokeFee

variable {σ : Type}

/-- **Discard**: when the transaction ends in state FAIL (fault, out of gas, insufficient balance before or after the
run, authorization failure, rejected fee transfer), the overlay after the transaction equals the overlay before it
on everything that is not an ONG balance, and on every ONG balance other than the payer's and the governance contract's. -/
theorem C05_discard (v : Variant) (env : Env) (ov : Overlay σ) (tx : Tx) (out : ExecOutcome σ) (ov' : Overlay σ) (n : Notify)
    (h : invoke v env ov tx out = .done ov' n) (hf : n.state = .fail) :
    ov'.rest = ov.rest ∧ ∀ a, a ≠ tx.payer → a ≠ env.gov → ov'.bal a = ov.bal a := by
  have g := good_invoke v env ov tx out
  rw [h] at g
  exact ⟨(g hf).rest, (g hf).frame⟩

/-- **Fee ≤ balance**: the reported fee, in storage precision, never exceeds the payer's balance before the transaction. -/
theorem C05_fee_le_balance (v : Variant) (env : Env) (ov : Overlay σ) (tx : Tx) (out : ExecOutcome σ) (ov' : Overlay σ) (n : Notify)
    (h : invoke v env ov tx out = .done ov' n) (hf : n.state = .fail) :
    n.gasConsumed.toNat * unit ≤ ov.bal tx.payer := by
  have g := good_invoke v env ov tx out
  rw [h] at g
  exact (g hf).le

/-- **Reported = moved**: `notify.GasConsumed` is exactly what left the payer and exactly what reached the governance
contract (so it is 0 when the fee transfer itself was rejected: then both balances are unchanged). -/
theorem C05_reported (v : Variant) (env : Env) (ov : Overlay σ) (tx : Tx) (out : ExecOutcome σ) (ov' : Overlay σ) (n : Notify)
    (h : invoke v env ov tx out = .done ov' n) (hf : n.state = .fail) (hpg : tx.payer ≠ env.gov) :
    ov'.bal tx.payer + n.gasConsumed.toNat * unit = ov.bal tx.payer ∧
    ov'.bal env.gov = ov.bal env.gov + n.gasConsumed.toNat * unit := by
  have g := good_invoke v env ov tx out
  rw [h] at g
  exact ⟨(g hf).payer_ hpg, (g hf).gov_ hpg⟩

/-- degenerate payer = governance contract (cannot sign; kept so that the statement has no hidden hypothesis): net effect zero -/
theorem C05_reported_self (v : Variant) (env : Env) (ov : Overlay σ) (tx : Tx) (out : ExecOutcome σ) (ov' : Overlay σ) (n : Notify)
    (h : invoke v env ov tx out = .done ov' n) (hf : n.state = .fail) (hpg : tx.payer = env.gov) :
    ov'.bal tx.payer = ov.bal tx.payer := by
  have g := good_invoke v env ov tx out
  rw [h] at g
  exact (g hf).self hpg

/-- The only result that is neither a notify nor a rejected block is the Go panic, and it needs all of: unrepaired
code, a height past the gas-round tune height, a charged transaction, and `GasPrice * 20000 ≡ 0 (mod 2^64)`. -/
theorem C05_panic_iff_cond (v : Variant) (env : Env) (ov : Overlay σ) (tx : Tx) (out : ExecOutcome σ)
    (h : invoke v env ov tx out = .panic) :
    v = .asShipped ∧ env.tuned = true ∧ tx.gasPrice * minTxGas = 0 ∧ isCharge env tx = true := by
  have g := po_invoke v env ov tx out
  rw [h] at g
  exact g

/-- totality: every invoke transaction yields a notify (or an explicit block rejection) -/
def C05_total (v : Variant) : Prop :=
  ∀ (env : Env) (ov : Overlay Nat) (tx : Tx) (out : ExecOutcome Nat), invoke v env ov tx out ≠ .panic

theorem C05_total_sound : C05_total .sound := by
  intro env ov tx out h
  have := (C05_panic_iff_cond _ _ _ _ _ h).1
  cases this

/-- transactions admitted by the transaction pool (`GasLimit*GasPrice` does not overflow, `GasLimit ≥ 20000`) never
reach the panic, also in the as-shipped code; the panic needs a transaction that enters through a block -/
theorem C05_total_partial (env : Env) (ov : Overlay σ) (tx : Tx) (out : ExecOutcome σ)
    (hl : minTxGas ≤ tx.gasLimit) (hm : tx.gasLimit.toNat * tx.gasPrice.toNat < 2 ^ 64) :
    invoke .asShipped env ov tx out ≠ .panic := by
  intro h
  obtain ⟨_, _, hz, hc⟩ := C05_panic_iff_cond _ _ _ _ _ h
  have hp : tx.gasPrice ≠ 0 := by
    intro h0; simp [isCharge, h0] at hc
  exact gasRound_ne_zero tx.gasPrice tx.gasLimit hp hl hm hz

/-! ## Tie of the loop-free helpers to the source: `Gen/Gas.lean` is regenerated from tx_handler.go / neovm/config.go
on every run (harness/cmd/factgen/facts_gas.go); these theorems are re-checked against it -/

/-- the regenerated `tuneGasFeeByHeight` is the model's `tune`, in its as-shipped or in its repaired form -/
theorem C05_tune_generated :
    (∀ t g r c, OntVerif.Gen.Gas.tuneGasFeeByHeight t g r c = tune .asShipped t g r c) ∨
    (∀ t g r c, OntVerif.Gen.Gas.tuneGasFeeByHeight t g r c = tune .sound t g r c) := by
  first
  | (left; intro t g r c; unfold OntVerif.Gen.Gas.tuneGasFeeByHeight tune
     by_cases ht : t = true <;> by_cases hr : r = 0 <;> simp [ht, hr, maxU64] <;> (split <;> rfl))
  | (right; intro t g r c; unfold OntVerif.Gen.Gas.tuneGasFeeByHeight tune
     by_cases ht : t = true <;> by_cases hr : r = 0 <;> simp [ht, hr, maxU64] <;> (split <;> rfl))

theorem C05_calcGasByCodeLen_generated (l : Nat) (g : UInt64) :
    OntVerif.Gen.Gas.calcGasByCodeLen l g = calcGasByCodeLen l g := rfl

theorem C05_constants_generated :
    OntVerif.Gen.Gas.minTransactionGas = minTxGas ∧ OntVerif.Gen.Gas.perUnitCodeLen = perUnitCodeLen ∧
    OntVerif.Gen.Gas.uintInvokeCodeLenGas = 20000 := ⟨rfl, rfl, rfl⟩

/-! ## Concrete instances (non-vacuity: one per failure branch; payer = 1, governance = 0, third party = 2) -/

def env0 : Env := ⟨true, false, true, 20000, 0⟩
def ovB (b : Nat) : Overlay Nat := ⟨fun a => if a = 1 then b else if a = 0 then 5 else 77, 0⟩
def txA (gp gl : UInt64) (len : Nat) (w : Bool := true) : Tx := ⟨gp, gl, len, 1, w⟩
/-- an execution that wrote to storage (rest 9), moved `b - b'` away from the payer, and raised 3 events -/
def outW (left : UInt64) (ok : Bool) (b' : Nat) : ExecOutcome Nat := ⟨left, ok, false, ⟨fun a => if a = 1 then b' else if a = 0 then 5 else 78, 9⟩, 3⟩

/-- the recorded defect: `GasPrice = 2^59` (so `GasPrice*20000 = 0 mod 2^64`), trivially successful script -/
theorem C05_asShipped_counterexample : ¬ C05_total .asShipped := by
  intro h
  exact h env0 (ovB 1000000000000000000) (txA 576460752303423488 20000 1) (outW 0 true 1000000000000000000) (by rfl)

/-- same input, repaired code: FAIL, nothing charged (`20000 * 2^59` wraps to 0) -/
example : observe env0 (txA 576460752303423488 20000 1)
    (invoke .sound env0 (ovB 1000000000000000000) (txA 576460752303423488 20000 1) (outW 0 false 0))
    = .done .fail 0 0 1000000000000000000 5 0 := by decide

/-- branch `oldBalance < minGas`: the whole (unit-truncated) balance is taken, the sub-unit remainder stays -/
example : observe env0 (txA 2500 20000 1) (invoke .asShipped env0 (ovB 49999999000000123) (txA 2500 20000 1) (outW 0 true 0))
    = .done .fail 49999999 1 123 49999999000000005 0 := by decide

/-- branch `oldBalance < codeLenGasLimit*GasPrice` (2 KiB of code: 40000 gas) -/
example : observe env0 (txA 2500 50000 2048) (invoke .asShipped env0 (ovB 99999999000000000) (txA 2500 50000 2048) (outW 0 true 0))
    = .done .fail 99999999 1 0 99999999000000005 0 := by decide

/-- branch `GasLimit < codeLenGasLimit`: `GasLimit*GasPrice` is charged -/
example : observe env0 (txA 2500 30000 2048) (invoke .asShipped env0 (ovB (10^18)) (txA 2500 30000 2048) (outW 0 true 0))
    = .done .fail 75000000 1 (10^18 - 75000000 * 10^9) (5 + 75000000 * 10^9) 0 := by decide

/-- same branch with wrapping products (`20000*GasPrice` and `40000*GasPrice` wrap below the balance, `30000*GasPrice`
wraps to more than the total supply): the fee transfer is rejected, nothing moves, 0 reported -/
example : observe env0 (txA 922337203685478 30000 2048) (invoke .asShipped env0 (ovB (10^18)) (txA 922337203685478 30000 2048) (outW 0 true 0))
    = .done .fail 0 0 (10^18) 5 0 := by decide

/-- VM fault after storage writes: writes discarded (rest stays 0, third party stays 77), used gas rounded up to 20000·price -/
example : observe env0 (txA 2500 30000 1) (invoke .asShipped env0 (ovB (10^18)) (txA 2500 30000 1) (outW 4000 false 7))
    = .done .fail 100000000 1 (10^18 - 100000000 * 10^9) (5 + 100000000 * 10^9) 0 := by decide
example : (match invoke .asShipped env0 (ovB (10^18)) (txA 2500 30000 1) (outW 4000 false 7) with
    | .done ov' _ => ov'.bal 2 | _ => 0) = 77 := by decide

/-- out of gas with less balance than the rounded fee: capped at the balance -/
example : observe env0 (txA 2500 30000 1) (invoke .asShipped env0 (ovB 60000000000000000) (txA 2500 30000 1) (outW 0 false 0))
    = .done .fail 60000000 1 0 60000000000000005 0 := by decide

/-- the execution succeeded but spent the payer's ONG (balance after < cost): turned into FAIL, its writes discarded,
fee taken from the balance BEFORE the execution -/
example : observe env0 (txA 2500 30000 1) (invoke .asShipped env0 (ovB (10^17)) (txA 2500 30000 1) (outW 9000 true 1000))
    = .done .fail 100000000 1 0 (5 + 10^17) 0 := by decide

/-- authorization failure of the fee transfer itself (payer not among the signers): FAIL, nothing moves, 0 reported -/
example : observe env0 (txA 2500 30000 1 false) (invoke .asShipped env0 (ovB (10^18)) (txA 2500 30000 1 false) (outW 4000 false 7))
    = .done .fail 0 0 (10^18) 5 0 := by decide

/-- gas price 0 / system transaction: a fault is not charged -/
example : observe env0 (txA 0 30000 1) (invoke .asShipped env0 (ovB (10^18)) (txA 0 30000 1) (outW 4000 false 7))
    = .done .fail 0 0 (10^18) 5 0 := by decide

/-- for contrast, success: writes committed (rest 9), fee taken from the balance after the execution, 3+1 events -/
example : observe env0 (txA 2500 30000 1) (invoke .asShipped env0 (ovB (10^18)) (txA 2500 30000 1) (outW 4000 true (9 * 10^17)))
    = .done .success 100000000 4 (9 * 10^17 - 10^17) (5 + 10^17) 9 := by decide

end OntVerif.Props.C05
