import OntVerif.Proofs.InvokeFee
import OntVerif.Gen.Gas
/-!
# C05 — A failed transaction changes nothing except the fee it is charged

Model: `Model/InvokeFee.lean` (`HandleInvokeTransaction`, `costInvalidGas`, `chargeCostGas`, `tuneGasFeeByHeight`,
`calcGasByCodeLen`, the per-transaction cache discipline of `executeBlock`), fee arithmetic in `UInt64` exactly as
written, the VM a black box whose `ExecOutcome` is universally quantified. Every theorem below is for ALL `uint64`
gas prices / limits (including every wrap-around of `GasLimit*GasPrice`, `MIN_TRANSACTION_GAS*GasPrice`,
`codeLenGasLimit*GasPrice`, `availableGasLimit - codeLenGasLimit`, `availableGasLimit - sc.Gas`), all balances, all
overlays (`σ` arbitrary), all VM outcomes, both variants of the recorded defect (gas-limit underflow, see below).

The ONG fee transfer is not a second model: it is C06's token model (`Model/Token.lean`) called the way
`chargeCostGas` calls the ONG contract, and `C05_fee_le_balance` / `C05_reported` / `C05_fee_authorised` are derived
from C06's lemmas about `transferPrim` (`Proofs/Token.lean`). `tuneGasFeeByHeight` is the repaired function
(`gasRound == 0` guard, /repo 5c254519); the former divide-by-zero witness stays in corpus/C05.
-/
namespace OntVerif.Props.C05
open OntVerif.Model.InvokeFee OntVerif.Proofs.InvokeFee

variable {σ : Type}

/-- **Discard**: when the transaction ends in state FAIL (fault, out of gas, insufficient balance before or after the
run, authorization failure, rejected fee transfer), the overlay after the transaction equals the overlay before it
on everything that is not an ONG balance, and on every ONG balance other than the payer's and the governance contract's. -/
theorem C05_discard (v : Variant) (env : Env) (ov : Overlay σ) (tx : Tx) (out : ExecOutcome σ) (ov' : Overlay σ) (n : Notify)
    (h : invoke v env ov tx out = .done ov' n) (hf : n.state = .fail) :
    ov'.rest = ov.rest ∧ ∀ a, a ≠ tx.payer → a ≠ env.gov → ov'.bal a = ov.bal a := by
  have g := good_invoke v env ov tx out
  rw [h] at g
  exact ⟨(g hf).rest, (g hf).frame⟩

/-- **Fee ≤ balance**: the reported fee, in storage precision, never exceeds the payer's balance before the transaction. -/
theorem C05_fee_le_balance (v : Variant) (env : Env) (ov : Overlay σ) (tx : Tx) (out : ExecOutcome σ) (ov' : Overlay σ) (n : Notify)
    (h : invoke v env ov tx out = .done ov' n) (hf : n.state = .fail) :
    unit * n.gasConsumed.toNat ≤ ov.bal tx.payer := by
  have g := good_invoke v env ov tx out
  rw [h] at g
  exact (g hf).le

/-- **Reported = moved**: `notify.GasConsumed` is exactly what left the payer and exactly what reached the governance
contract (so it is 0 when the fee transfer itself was rejected: then both balances are unchanged). -/
theorem C05_reported (v : Variant) (env : Env) (ov : Overlay σ) (tx : Tx) (out : ExecOutcome σ) (ov' : Overlay σ) (n : Notify)
    (h : invoke v env ov tx out = .done ov' n) (hf : n.state = .fail) (hpg : tx.payer ≠ env.gov) :
    ov'.bal tx.payer + unit * n.gasConsumed.toNat = ov.bal tx.payer ∧
    ov'.bal env.gov = ov.bal env.gov + unit * n.gasConsumed.toNat := by
  have g := good_invoke v env ov tx out
  rw [h] at g
  exact ⟨(g hf).payer_ hpg, (g hf).gov_ hpg⟩

/-- degenerate payer = governance contract (cannot sign; kept so that the statement has no hidden hypothesis): net effect zero -/
theorem C05_reported_self (v : Variant) (env : Env) (ov : Overlay σ) (tx : Tx) (out : ExecOutcome σ) (ov' : Overlay σ) (n : Notify)
    (h : invoke v env ov tx out = .done ov' n) (hf : n.state = .fail) (hpg : tx.payer = env.gov) :
    ov'.bal tx.payer = ov.bal tx.payer := by
  have g := good_invoke v env ov tx out
  rw [h] at g
  exact (g hf).self hpg

/-- a fee can only move with the payer's signature on the transaction (C06's authorization rule, `C06_auth_transfer`,
instantiated at the fee transfer): FAIL with a non-zero reported fee ⇒ the payer is among the signers -/
theorem C05_fee_authorised (v : Variant) (env : Env) (ov : Overlay σ) (tx : Tx) (out : ExecOutcome σ) (ov' : Overlay σ) (n : Notify)
    (h : invoke v env ov tx out = .done ov' n) (hf : n.state = .fail) (hne : n.gasConsumed ≠ 0) :
    tx.payerWitness = true := by
  have key : ∀ g, costInvalid env ov tx g = .done ov' n → tx.payerWitness = true := by
    intro g hg
    unfold costInvalid at hg
    split at hg
    · injection hg with _ hn; subst hn; exact absurd rfl hne
    · cases hg
    · next b hb =>
      injection hg with _ hn
      subst hn
      rcases feeTransfer_auth _ _ _ _ _ _ hb with h0 | hw
      · exfalso
        have : g.toNat = 0 := by
          rcases Nat.mul_eq_zero.mp h0 with hu | hg0
          · exact absurd hu (by decide)
          · exact hg0
        exact hne (UInt64.toNat_inj.mp (by simpa using this))
      · exact hw
  have after : ∀ ob av, afterExec env ov tx out ob av = .done ov' n → tx.payerWitness = true := by
    intro ob av ha
    unfold afterExec at ha
    split at ha; · cases ha
    split at ha
    · split at ha
      · exact key _ ha
      · injection ha with _ hn; subst hn; exact absurd rfl hne
    · split at ha
      · split at ha
        · exact key _ ha
        · unfold chargeAndCommit at ha
          dsimp only at ha
          split at ha
          · injection ha with _ hn; subst hn; exact absurd rfl hne
          · cases ha
          · injection ha with _ hn; subst hn; cases hf
      · injection ha with _ hn; subst hn; cases hf
  unfold invoke at h
  split at h
  · split at h; · cases h
    dsimp only at h
    split at h; · exact key _ h
    split at h; · exact key _ h
    split at h; · exact key _ h
    split at h; · exact key _ h
    exact after _ _ h
  · exact after _ _ h

/-- **Totality**: every invoke transaction yields a notify or an explicit block rejection — no Go panic — as long as
the ONG balances of payer and governance contract, before and after the execution, respect the total supply (the
supply invariant is C06_conserve; beyond it `MustToStorageItem` would panic on a whole balance ≥ 2^64 units). In
particular `tuneGasFeeByHeight` (as repaired) is total for all `uint64` arguments. -/
theorem C05_total (v : Variant) (env : Env) (ov : Overlay σ) (tx : Tx) (out : ExecOutcome σ)
    (hb : Bounded env ov tx out) : invoke v env ov tx out ≠ .panic := by
  intro h
  have g := po_invoke v env ov tx out
  rw [h] at g
  exact g hb

/-! ## The gas the VM is started with (recorded finding `gaslimit-underflow`) -/

/-- the VM never gets more gas than the transaction's gas limit -/
def C05_gas_bounded_statement (v : Variant) : Prop :=
  ∀ (env : Env) (ov : Overlay Nat) (tx : Tx) (g : UInt64), gasGiven v env ov tx = some g → g ≤ tx.gasLimit

/-- with the proposed guard (fixes/C05-gaslimit-underflow.patch) the bound holds for all inputs -/
theorem C05_gas_bounded_sound : C05_gas_bounded_statement .sound :=
  fun env ov tx g h => gasGiven_sound_le env ov tx g h

/-- as shipped: gas price 922337203685478 (`20000·p` and `40000·p` wrap below the balance of 1 ONG), 2 KiB of code,
gas limit 40000 — the VM is started with 2^64 − 40000 gas -/
theorem C05_gas_bounded_asShipped_counterexample : ¬ C05_gas_bounded_statement .asShipped := by
  intro h
  have := h ⟨true, false, true, 20000, 0⟩ ⟨fun a => if a = 1 then 1000000000000000000 else 0, 0⟩
    ⟨922337203685478, 40000, 2048, 1, true⟩ 18446744073709511616 (by decide)
  revert this
  decide

/-- as shipped the bound holds for what the transaction pool admits (`GasLimit*GasPrice` does not overflow) -/
theorem C05_gas_bounded_partial (env : Env) (ov : Overlay σ) (tx : Tx) (g : UInt64)
    (hm : tx.gasLimit.toNat * tx.gasPrice.toNat < 2 ^ 64)
    (h : gasGiven .asShipped env ov tx = some g) : g ≤ tx.gasLimit := by
  unfold gasGiven at h
  split at h
  · next hc =>
    have hp : tx.gasPrice ≠ 0 := by intro h0; simp [isCharge, h0] at hc
    have hp' : 0 < tx.gasPrice.toNat := by
      rcases Nat.eq_zero_or_pos tx.gasPrice.toNat with h0 | h0
      · exact absurd (UInt64.toNat_inj.mp (by simpa using h0)) hp
      · exact h0
    split at h; · cases h
    dsimp only at h
    split at h; · cases h
    split at h; · cases h
    next hbal =>
    split at h; · cases h
    next hgl =>
    simp only [underflows, Bool.false_eq_true, if_false] at h
    injection h with h
    subst h
    -- codeLenGasLimit ≤ gasLimit, so codeLenGasLimit·price does not wrap and is ≤ the balance; hence ≤ balance / price
    have hcl : (calcGasByCodeLen tx.codeLen env.uintCodeGas).toNat ≤ tx.gasLimit.toNat :=
      UInt64.le_iff_toNat_le.mp (UInt64.not_lt.mp hgl)
    have hprod : (calcGasByCodeLen tx.codeLen env.uintCodeGas).toNat * tx.gasPrice.toNat < 2 ^ 64 :=
      Nat.lt_of_le_of_lt (Nat.mul_le_mul_right _ hcl) hm
    have hb : (calcGasByCodeLen tx.codeLen env.uintCodeGas).toNat * tx.gasPrice.toNat ≤ (balUnits (ov.bal tx.payer)).toNat := by
      have := UInt64.le_iff_toNat_le.mp (UInt64.not_lt.mp hbal)
      rwa [UInt64.toNat_mul, Nat.mod_eq_of_lt hprod] at this
    have hdiv : (calcGasByCodeLen tx.codeLen env.uintCodeGas).toNat ≤ (balUnits (ov.bal tx.payer)).toNat / tx.gasPrice.toNat :=
      (Nat.le_div_iff_mul_le hp').mpr hb
    have hge : calcGasByCodeLen tx.codeLen env.uintCodeGas ≤ availOf tx (balUnits (ov.bal tx.payer)) := by
      unfold availOf; dsimp only
      split
      · rw [UInt64.le_iff_toNat_le, UInt64.toNat_div]; exact hdiv
      · exact UInt64.not_lt.mp hgl
    have hav := availOf_le tx (balUnits (ov.bal tx.payer))
    rw [UInt64.le_iff_toNat_le] at hge hav ⊢
    rw [UInt64.toNat_sub_of_le _ _ hge]
    omega
  · injection h with h; subst h; exact UInt64.le_refl _

/-! ## Tie of the loop-free helpers to the source: `Gen/Gas.lean` is regenerated from tx_handler.go / neovm/config.go
on every run (harness/cmd/factgen/facts_gas.go); these theorems are re-checked against it -/

/-- the regenerated `tuneGasFeeByHeight` (a decision list: nested ifs, guard clauses with early returns and inlined
`min` helpers all give such a list) never reaches a division guard and is the model's `tune` -/
theorem C05_tune_generated (t : Bool) (g r c : UInt64) :
    OntVerif.Gen.Gas.tuneGasFeeByHeight t g r c = some (tune t g r c) := by
  unfold OntVerif.Gen.Gas.tuneGasFeeByHeight tune
  cases t <;> by_cases hr : r = 0 <;> simp [hr, maxU64] <;> (repeat' split) <;> simp_all

theorem C05_calcGasByCodeLen_generated (l : Nat) (g : UInt64) :
    OntVerif.Gen.Gas.calcGasByCodeLen l g = calcGasByCodeLen l g := by
  first | rfl | exact UInt64.mul_comm _ _

/-- the fee effects the model gives `HandleInvokeTransaction`, in source order: three pre-checks charging the balance /
the balance / `GasLimit*GasPrice`; VM error: tune against the balance BEFORE the execution, `costInvalidGas`; balance
after the execution below the cost: the same; success: tune against the balance AFTER the execution, `chargeCostGas`.
The rounding unit is `GasPrice*MIN_TRANSACTION_GAS` at all three sites. -/
def modelFeeEffects : List String := [
  "costInvalidGas(old)", "costInvalidGas(old)", "costInvalidGas(mul(Tx.GasLimit,Tx.GasPrice))",
  "tune(round=mul(Tx.GasPrice,neovm.MIN_TRANSACTION_GAS),balance=old)", "costInvalidGas(tuned)",
  "tune(round=mul(Tx.GasPrice,neovm.MIN_TRANSACTION_GAS),balance=old)", "costInvalidGas(tuned)",
  "tune(round=mul(Tx.GasPrice,neovm.MIN_TRANSACTION_GAS),balance=new)", "chargeCostGas(tuned)"]

/-- the regenerated call structure (located by role, followed into same-package helpers) is the model's, as shipped or
with the gas-limit-underflow guard (one more pre-check charging the balance) -/
theorem C05_fee_effects_generated :
    OntVerif.Gen.Gas.feeEffects = modelFeeEffects ∨
    OntVerif.Gen.Gas.feeEffects = modelFeeEffects.take 3 ++ ["costInvalidGas(old)"] ++ modelFeeEffects.drop 3 := by decide

theorem C05_constants_generated :
    OntVerif.Gen.Gas.minTransactionGas = minTxGas ∧ OntVerif.Gen.Gas.perUnitCodeLen = perUnitCodeLen ∧
    OntVerif.Gen.Gas.uintInvokeCodeLenGas = 20000 := ⟨rfl, rfl, rfl⟩

/-! ## Concrete instances (non-vacuity: one per failure branch; payer = 1, governance = 0, third party = 2) -/

def env0 : Env := ⟨true, false, true, 20000, 0⟩
def ovB (b : Nat) : Overlay Nat := ⟨fun a => if a = 1 then b else if a = 0 then 5 else 77, 0⟩
def txA (gp gl : UInt64) (len : Nat) (w : Bool := true) : Tx := ⟨gp, gl, len, 1, w⟩
/-- an execution that wrote to storage (rest 9), moved `b - b'` away from the payer, and raised 3 events -/
def outW (left : UInt64) (ok : Bool) (b' : Nat) : ExecOutcome Nat := ⟨left, ok, false, ⟨fun a => if a = 1 then b' else if a = 0 then 5 else 78, 9⟩, 3⟩

/-- `GasPrice = 2^59` (`GasPrice*20000 = 0 mod 2^64`, the former divide-by-zero input): FAIL, nothing charged
(`20000 * 2^59` wraps to 0) -/
example : observe env0 (txA 576460752303423488 20000 1)
    (invoke .asShipped env0 (ovB 1000000000000000000) (txA 576460752303423488 20000 1) (outW 0 false 0))
    = .done .fail 0 0 1000000000000000000 5 0 := by decide

/-- the gas-limit underflow input (`C05_gas_bounded_asShipped_counterexample`): as shipped the VM runs (here: it ended
with an error after using 3001 gas) and the whole balance is taken; with the guard the VM is not started and the
transaction is charged like any other whose balance does not cover the code-length gas -/
example : gasGiven .asShipped env0 (ovB 1000000000000000000) (txA 922337203685478 40000 2048) = some 18446744073709511616 := by decide
example : gasGiven .sound env0 (ovB 1000000000000000000) (txA 922337203685478 40000 2048) = none := by decide
example : observe env0 (txA 922337203685478 40000 2048)
    (invoke .sound env0 (ovB 1000000000000000000) (txA 922337203685478 40000 2048) (outW 0 true 0))
    = .done .fail 1000000000 1 0 1000000000000000005 0 := by decide

/-- branch `oldBalance < minGas`: the whole (unit-truncated) balance is taken, the sub-unit remainder stays -/
example : observe env0 (txA 2500 20000 1) (invoke .asShipped env0 (ovB 49999999000000123) (txA 2500 20000 1) (outW 0 true 0))
    = .done .fail 49999999 1 123 49999999000000005 0 := by decide

/-- branch `oldBalance < codeLenGasLimit*GasPrice` (2 KiB of code: 40000 gas) -/
example : observe env0 (txA 2500 50000 2048) (invoke .asShipped env0 (ovB 99999999000000000) (txA 2500 50000 2048) (outW 0 true 0))
    = .done .fail 99999999 1 0 99999999000000005 0 := by decide

/-- branch `GasLimit < codeLenGasLimit`: `GasLimit*GasPrice` is charged -/
example : observe env0 (txA 2500 30000 2048) (invoke .asShipped env0 (ovB (10^18)) (txA 2500 30000 2048) (outW 0 true 0))
    = .done .fail 75000000 1 (10^18 - 75000000 * 10^9) (5 + 75000000 * 10^9) 0 := by decide

/-- same branch with wrapping products (`20000*GasPrice` and `40000*GasPrice` wrap below the balance, `30000*GasPrice`
wraps to more than the total supply): the fee transfer is rejected, nothing moves, 0 reported -/
example : observe env0 (txA 922337203685478 30000 2048) (invoke .asShipped env0 (ovB (10^18)) (txA 922337203685478 30000 2048) (outW 0 true 0))
    = .done .fail 0 0 (10^18) 5 0 := by decide

/-- VM fault after storage writes: writes discarded (rest stays 0, third party stays 77), used gas rounded up to 20000·price -/
example : observe env0 (txA 2500 30000 1) (invoke .asShipped env0 (ovB (10^18)) (txA 2500 30000 1) (outW 4000 false 7))
    = .done .fail 100000000 1 (10^18 - 100000000 * 10^9) (5 + 100000000 * 10^9) 0 := by decide
example : (match invoke .asShipped env0 (ovB (10^18)) (txA 2500 30000 1) (outW 4000 false 7) with
    | .done ov' _ => ov'.bal 2 | _ => 0) = 77 := by decide

/-- out of gas with less balance than the rounded fee: capped at the balance -/
example : observe env0 (txA 2500 30000 1) (invoke .asShipped env0 (ovB 60000000000000000) (txA 2500 30000 1) (outW 0 false 0))
    = .done .fail 60000000 1 0 60000000000000005 0 := by decide

/-- the execution succeeded but spent the payer's ONG (balance after < cost): turned into FAIL, its writes discarded,
fee taken from the balance BEFORE the execution -/
example : observe env0 (txA 2500 30000 1) (invoke .asShipped env0 (ovB (10^17)) (txA 2500 30000 1) (outW 9000 true 1000))
    = .done .fail 100000000 1 0 (5 + 10^17) 0 := by decide

/-- authorization failure of the fee transfer itself (payer not among the signers): FAIL, nothing moves, 0 reported -/
example : observe env0 (txA 2500 30000 1 false) (invoke .asShipped env0 (ovB (10^18)) (txA 2500 30000 1 false) (outW 4000 false 7))
    = .done .fail 0 0 (10^18) 5 0 := by decide

/-- gas price 0 / system transaction: a fault is not charged -/
example : observe env0 (txA 0 30000 1) (invoke .asShipped env0 (ovB (10^18)) (txA 0 30000 1) (outW 4000 false 7))
    = .done .fail 0 0 (10^18) 5 0 := by decide

/-- for contrast, success: writes committed (rest 9), fee taken from the balance after the execution, 3+1 events -/
example : observe env0 (txA 2500 30000 1) (invoke .asShipped env0 (ovB (10^18)) (txA 2500 30000 1) (outW 4000 true (9 * 10^17)))
    = .done .success 100000000 4 (9 * 10^17 - 10^17) (5 + 10^17) 9 := by decide

end OntVerif.Props.C05
