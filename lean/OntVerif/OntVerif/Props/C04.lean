import OntVerif.Proofs.KVLive
/-!
# C04 — Layered contract storage behaves like one ordered key/value map

Model: `Model/KV.lean` — `Cache` (transaction memdb of `CacheDB`) over `Overlay` (block memdb of `OverlayDB`) over
`Store` (LevelDB). Reads return a value, `[]` = absent (that is what `Get` returns for a deleted or missing key).
The one ordered map a layer stands for is its read function: `Cache.read c` (through the transaction cache),
`c.backend.get` (through the block overlay), `Store.read c.backend.store` (persistent). `Cache.get c pfx k` is
`Cache.read c (pfx :: k)` by definition. Tied to the real `CacheDB`/`OverlayDB`/LevelDB by `harness/cmd/c04`.
-/
namespace OntVerif.Props.C04
open OntVerif.Util OntVerif.Model.KV OntVerif.Proofs.KV OntVerif.Model.KVLive OntVerif.Proofs.KVLive

/-- strict sortedness of the three layers is an invariant of every operation … -/
theorem C04_inv_step (c : Cache) (inv : Inv c) (op : COp) : Inv (c.step op) := step_inv inv op

/-- … hence of every history, from any sorted persistent store -/
theorem C04_inv_run (st : Store) (hst : Sorted st) (ops : List COp) :
    Inv (ops.foldl Cache.step ⟨[], ⟨[], st⟩⟩) := by
  have h0 : Inv ⟨[], ⟨[], st⟩⟩ := ⟨by simp [Sorted], by simp [Sorted], hst⟩
  generalize (⟨[], ⟨[], st⟩⟩ : Cache) = c at h0
  induction ops generalizing c with
  | nil => exact h0
  | cons o r ih => exact ih _ (step_inv h0 o)

/-- **Reads return the most recent write**: after `Put(k, v)` the key reads `v`, every other key reads as before;
the lower layers are untouched. -/
theorem C04_put (c : Cache) (inv : Inv c) (k : Key) (v : Val) (q : Key) :
    (c.step (.put k v)).read q = (if q = stStorage :: k then v else c.read q) ∧
    (c.step (.put k v)).backend = c.backend := by
  refine ⟨?_, rfl⟩
  simp only [Cache.step, Cache.put, Cache.read]
  rw [get_put inv.tx]
  by_cases h : q = stStorage :: k <;> simp [h]

/-- … or absence after a delete -/
theorem C04_delete (c : Cache) (inv : Inv c) (k : Key) (q : Key) :
    (c.step (.del k)).read q = (if q = stStorage :: k then [] else c.read q) ∧
    (c.step (.del k)).backend = c.backend := by
  refine ⟨?_, rfl⟩
  simp only [Cache.step, Cache.delete, MemDB.del, Cache.read]
  rw [get_put inv.tx]
  by_cases h : q = stStorage :: k <;> simp [h]

theorem C04_get_is_read (c : Cache) (pfx : UInt8) (k : Key) : c.get pfx k = c.read (pfx :: k) := rfl

/-- **Commit publishes exactly the cache's writes**: the block overlay now reads what the cache read, the cache reads
the same as before, the persistent store is untouched, the transaction memdb is empty. -/
theorem C04_commit (c : Cache) (inv : Inv c) (q : Key) :
    (c.step .commit).backend.get q = c.read q ∧ (c.step .commit).read q = c.read q ∧
    (c.step .commit).backend.store = c.backend.store ∧ (c.step .commit).mem = [] := by
  obtain ⟨e1, e2⟩ := commit_backend_mem c
  have hg := (get_foldl_putEntry c.mem inv.tx inv.blk q).1
  have hb : (c.step .commit).backend.get q = c.read q := by
    show c.commit.backend.get q = c.read q
    simp only [Overlay.get, Cache.read, e1, e2, hg]
    cases c.mem.get q <;> rfl
  refine ⟨hb, ?_, e2, rfl⟩
  show c.commit.read q = c.read q
  have : c.commit.read q = c.commit.backend.get q := by simp [Cache.read, Cache.commit, MemDB.get]
  rw [this]; exact hb

/-- **Reset discards them**: the cache reads what the block overlay reads; the lower layers are untouched -/
theorem C04_reset (c : Cache) (q : Key) :
    (c.step .reset).read q = c.backend.get q ∧ (c.step .reset).backend = c.backend := by
  simp [Cache.step, Cache.reset, Cache.read, MemDB.get]

/-- **Block commit**: the store now reads what the overlay read; reads through the overlay and through the cache
are unchanged (whether the overlay is kept or replaced by a fresh one). -/
theorem C04_block_commit (c : Cache) (inv : Inv c) (keep : Bool) (q : Key) :
    Store.read (c.step (.bcommit keep)).backend.store q = c.backend.get q ∧
    (c.step (.bcommit keep)).backend.get q = c.backend.get q ∧
    (c.step (.bcommit keep)).read q = c.read q := by
  have hr := (read_foldl_applyEntry c.backend.mem inv.blk inv.per q).1
  have hst : Store.read c.backend.commitTo.store q = c.backend.get q := by
    show Store.read (c.backend.mem.foldl applyEntry c.backend.store) q = _
    rw [hr]; simp only [Overlay.get, Store.read, Store.get]
    cases c.backend.mem.get q <;> first | rfl | (cases MemDB.get c.backend.store q <;> rfl)
  have hkeep : c.backend.commitTo.get q = c.backend.get q := by
    have : c.backend.commitTo.get q = (match c.backend.mem.get q with | some v => v | none => Store.read c.backend.commitTo.store q) := rfl
    rw [this, hst]
    simp only [Overlay.get]
    cases c.backend.mem.get q <;> rfl
  have hfresh : c.backend.commitTo.reset.get q = c.backend.get q := by
    have : c.backend.commitTo.reset.get q = Store.read c.backend.commitTo.store q := by
      simp [Overlay.get, Overlay.reset, MemDB.get, Store.read]
    rw [this, hst]
  cases keep with
  | true =>
    refine ⟨hst, hkeep, ?_⟩
    simp only [Cache.step, Cache.read, if_true]; rw [hkeep]
  | false =>
    refine ⟨hst, hfresh, ?_⟩
    simp only [Cache.step, Cache.read]; rw [show (if false = true then c.backend.commitTo else c.backend.commitTo.reset) = c.backend.commitTo.reset from rfl, hfresh]

/-- writes made directly on the block overlay: most recent write through the overlay; through the cache unless the
transaction cache itself holds a (more recent) write for the key -/
theorem C04_overlay_put (c : Cache) (inv : Inv c) (k : Key) (v : Val) (q : Key) :
    (c.step (.bput k v)).backend.get q = (if q = k then v else c.backend.get q) ∧
    (c.step (.bput k v)).read q = (if q = k ∧ c.mem.get k = none then v else c.read q) := by
  have hb : (c.step (.bput k v)).backend.get q = (if q = k then v else c.backend.get q) := by
    simp only [Cache.step, Overlay.put, Overlay.get]
    rw [get_put inv.blk]
    by_cases h : q = k <;> simp [h]
  refine ⟨hb, ?_⟩
  have : (c.step (.bput k v)).read q = (match c.mem.get q with | some w => w | none => (c.step (.bput k v)).backend.get q) := rfl
  rw [this, hb]
  simp only [Cache.read]
  by_cases h : q = k
  · subst h
    cases hm : c.mem.get q <;> simp
  · simp only [h, false_and, if_false]
    cases c.mem.get q <;> rfl

theorem C04_overlay_delete (c : Cache) (inv : Inv c) (k : Key) (q : Key) :
    (c.step (.bdel k)).backend.get q = (if q = k then [] else c.backend.get q) :=
  (C04_overlay_put c inv k [] q).1

/-- `OverlayDB.Reset` discards the block's writes -/
theorem C04_overlay_reset (c : Cache) (q : Key) :
    (c.step .breset).backend.get q = Store.read c.backend.store q := by
  simp [Cache.step, Overlay.reset, Overlay.get, MemDB.get, Store.read]

/-- **Prefix iterators (block overlay).** `OverlayDB.NewIterator(p)` — the join iterator of `iterator.go` over the
memdb range iterator and the LevelDB prefix iterator — stands for ONE list `L`: strictly ascending by key and containing
exactly the live keys with prefix `p` (value = what `Get` returns, non-empty). An iterator released after `n` elements
has yielded the first `n` of them; a drained one all of them. -/
theorem C04_iter_overlay (o : Overlay) (hm : Sorted o.mem) (hs : Sorted o.store) (p : Bytes) :
    ∃ L : List KV, (∀ n, o.iterate p n = L.take n) ∧
      L.Pairwise (fun a b => kcmp a.1 b.1 = .lt) ∧
      ∀ k v, (k, v) ∈ L ↔ (p <+: k ∧ o.get k = v ∧ v ≠ []) :=
  ⟨overlayList o p, fun n => overlay_iterate_spec o hs p n, (overlayList_spec o hm hs p).1, (overlayList_spec o hm hs p).2⟩

/-- **Prefix iterators (transaction cache).** `CacheDB.NewIterator(p)` — a join iterator over the transaction memdb and
the overlay's join iterator, keys with the `ST_STORAGE` byte removed — yields, in strictly ascending order, exactly the
keys `k` with prefix `p` whose `CacheDB.Get(k)` is non-empty, with that value. Holds in every reachable state (`Inv` is
an invariant of every history, `C04_inv_run`), drained or abandoned after `n` elements. -/
theorem C04_iter (c : Cache) (inv : Inv c) (p : Bytes) :
    ∃ L : List KV, (∀ n, c.iterate p n = L.take n) ∧
      L.Pairwise (fun a b => kcmp a.1 b.1 = .lt) ∧
      ∀ k v, (k, v) ∈ L ↔ (p <+: k ∧ c.get stStorage k = v ∧ v ≠ []) :=
  ⟨_, fun n => cache_iterate_spec c inv p n, (cacheList_stripped_spec c inv p).1, (cacheList_stripped_spec c inv p).2⟩

/-- the iterator and `Get` agree: a key is yielded iff it has the prefix and reads non-empty -/
theorem C04_iter_get (c : Cache) (inv : Inv c) (p k : Bytes) :
    (∃ v, (k, v) ∈ c.iterate p (c.mem.length + c.backend.mem.length + c.backend.store.length + 1000000)) →
      p <+: k ∧ c.get stStorage k ≠ [] := by
  obtain ⟨L, h1, _, h3⟩ := C04_iter c inv p
  rintro ⟨v, hv⟩
  rw [h1] at hv
  have := (h3 k v).mp (List.mem_of_mem_take hv)
  exact ⟨this.1, by rw [this.2.1]; exact this.2.2⟩

/-! ### Iterators that stay open while other operations run (`Model/KVLive.lean`)

`openCacheIter c0 p` is the OBJECT `CacheDB.NewIterator(p)` returns in state `c0`: two live skip-list cursors (nothing is read
from the memdbs at creation; `First()` seeks, `Next()` follows the current forward pointer of the MemDB it points to) and a
LevelDB iterator over the snapshot of the store taken at creation. `drainCacheIter c1 it n` runs `First()` and up to `n-1`
`Next()` on it in a later state `c1`. -/

/-- **`C04_iter_deferred`.** Whatever happened between `NewIterator` (state `c0`) and `First()` (ANY later state `c1` with
sorted layers — puts, deletes, commits, resets, block commits, other iterators), the iterator yields exactly the keys with the
prefix that are live in "the memory layers of `c1` over the store as it was in `c0`", ascending, with the value `Get` returns
there; it equals what a fresh iterator created in that state yields (`iterate`). -/
theorem C04_iter_deferred (c0 c1 : Cache) (inv1 : Inv c1) (hs0 : Sorted c0.backend.store) (p : Bytes) :
    (∀ n, drainCacheIter c1 (openCacheIter c0 p) n = (seenBy c1 c0.backend.store).iterate p n) ∧
    ∃ L : List KV, (∀ n, drainCacheIter c1 (openCacheIter c0 p) n = L.take n) ∧
      L.Pairwise (fun a b => kcmp a.1 b.1 = .lt) ∧
      ∀ k v, (k, v) ∈ L ↔ (p <+: k ∧ (seenBy c1 c0.backend.store).get stStorage k = v ∧ v ≠ []) := by
  have invS : Inv (seenBy c1 c0.backend.store) := ⟨inv1.tx, inv1.blk, hs0⟩
  have h (n : Nat) := cache_deferred_spec c1 c0.backend.store inv1 hs0 p n
  rw [← openCacheIter_store c0 p] at h
  refine ⟨fun n => by rw [h n, cache_iterate_spec _ invS p n], _, h, (cacheList_stripped_spec _ invS p).1,
    (cacheList_stripped_spec _ invS p).2⟩

/-- with only reads (or any operations that leave the persistent store as it was) in between, that is the `C04_iter` list of
the state in which `First()` is called -/
theorem C04_iter_deferred_same_store (c0 c1 : Cache) (inv1 : Inv c1) (hst : c1.backend.store = c0.backend.store) (p : Bytes) (n : Nat) :
    drainCacheIter c1 (openCacheIter c0 p) n = c1.iterate p n := by
  have hs0 : Sorted c0.backend.store := by rw [← hst]; exact inv1.per
  rw [(C04_iter_deferred c0 c1 inv1 hs0 p).1 n]
  have : seenBy c1 c0.backend.store = c1 := by
    unfold seenBy; rw [← hst]
  rw [this]

/-- the same for an `OverlayDB` iterator -/
theorem C04_iter_deferred_overlay (o0 o1 : Overlay) (hm : Sorted o1.mem) (hs0 : Sorted o0.store) (p : Bytes) (n : Nat) :
    drainOverlayIter o1 (openOverlayIter o0 p) n = ({ o1 with store := o0.store } : Overlay).iterate p n := by
  have h := overlay_deferred_spec o1 o0.store hm hs0 p n
  rw [← openOverlayIter_store o0 p] at h
  rw [h]
  exact (overlay_iterate_spec ({ o1 with store := o0.store } : Overlay) hs0 p n).symm

/-! ### `First()` called again on a used `JoinIter` -/

/-- rewinding statement for the overlay iterator: after `First()` and any number `k` of `Next()` calls, `fst` (a `First()`)
followed by a walk yields the live keys again -/
def C04_refirst_statement (fst : OverlayIter → Bool × OverlayIter) : Prop :=
  ∀ (o : Overlay) (p : Bytes) (k n : Nat), Sorted o.mem → Sorted o.store →
    drain overlayIterOps false n (fst (nexts k (fst (o.newIter p)).2)) = o.iterate p n

/-- the tree as shipped violates it: `JoinIter.first()` keeps `nextMemEnd`/`nextBackEnd` of the earlier pass
(recorded finding `refirst-iter-*`; no caller in the tree rewinds a `JoinIter`) -/
theorem C04_refirst_asShipped_counterexample : ¬ C04_refirst_statement overlayIterOps.first := by
  intro h
  have := h ⟨[([1], [1]), ([2], [2])], []⟩ [] 2 10 (by decide) (by decide)
  revert this; decide

/-- … it holds as shipped as long as no side has been exhausted yet (both end flags still clear) -/
theorem C04_refirst_partial (o : Overlay) (p : Bytes) (k n : Nat)
    (h1 : (nexts k (overlayIterOps.first (o.newIter p)).2).memEnd = false)
    (h2 : (nexts k (overlayIterOps.first (o.newIter p)).2).backEnd = false) :
    drain overlayIterOps false n (overlayIterOps.first (nexts k (overlayIterOps.first (o.newIter p)).2)) = o.iterate p n := by
  have a := nexts_alls k (overlayIterOps.first (o.newIter p)).2
  have b := first_alls (o.newIter p)
  exact first_of_flags_clear _ (o.newIter p) (a.1.trans b.1) (a.2.trans b.2) h1 h2 rfl rfl n

/-- … and with the repaired `first()` (fixes/C04-joiniter-first-clears-flags.patch) it holds always -/
theorem C04_refirst_sound : C04_refirst_statement (Join.firstSound leafOps leafOps) := by
  intro o p k n _ _
  have e0 : Join.firstSound leafOps leafOps (o.newIter p) = overlayIterOps.first (o.newIter p) := rfl
  rw [e0]
  have a := nexts_alls k (overlayIterOps.first (o.newIter p)).2
  have b := first_alls (o.newIter p)
  exact first_of_flags_clear
    { nexts k (overlayIterOps.first (o.newIter p)).2 with memEnd := false, backEnd := false } (o.newIter p)
    (a.1.trans b.1) (a.2.trans b.2) rfl rfl rfl rfl n

/-! ### Non-vacuity -/
def cEx : Cache := ⟨[([5, 1], []), ([5, 2], [7])], ⟨[([5, 1], [8]), ([5, 3], [])], [([5, 1], [9]), ([5, 3], [6]), ([6], [1])]⟩⟩
example : Inv cEx := ⟨by decide, by decide, by decide⟩
example : cEx.read [5, 1] = [] ∧ cEx.backend.get [5, 1] = [8] ∧ Store.read cEx.backend.store [5, 1] = [9] := by decide
example : (cEx.step .commit).backend.get [5, 1] = [] ∧ (cEx.step .reset).read [5, 1] = [8] := by decide
/-- the iterator meets a tombstone in the cache over a live overlay entry, a key on both sides, a tombstone in the overlay
over a live store entry, and a key outside the prefix -/
example : cEx.iterate [] 100 = [([2], [7])] ∧ (cEx.step .reset).iterate [] 100 = [([1], [8])] ∧
    (cEx.step .breset).iterate [] 1 = [([2], [7])] ∧ (cEx.step .reset |>.step .breset).iterate [] 100 = [([1], [9]), ([3], [6])] := by
  decide

/-- an iterator opened before a put and a commit, positioned afterwards: sees both; the store snapshot hides a later store write -/
example : drainCacheIter ((cEx.step (.put [4] [4])).step .commit) (openCacheIter cEx []) 100 = [([2], [7]), ([4], [4])] := by decide

end OntVerif.Props.C04
