import OntVerif.Proofs.KV
/-!
# C03 — Block change hash depends only on the final key/value content

Model: `Model/KV.lean` (`MemDB` = the skip list of `core/store/overlaydb/memdb.go` as a sorted association list,
`run` = a history of `Put`/`Delete`/`Reset` on the write set of a fresh `OverlayDB`, `changeHash H` =
`OverlayDB.ChangeHash` with the hash function `H` abstract, `MemDB.hashInput` = the bytes fed to it in `ForEach` order).
The model is tied to the real skip list by `harness/cmd/c03`.
-/
namespace OntVerif.Props.C03
open OntVerif.Util OntVerif.Model.KV OntVerif.Proofs.KV

/-- `memdb_sorted_inv`: after any history the write set is strictly sorted by key (so it has no duplicate key) -/
theorem C03_memdb_sorted_inv (ops : List Op) :
    (run ops).Pairwise (fun a b => kcmp a.1 b.1 = .lt) :=
  run_sorted ops

/-- `Get` on the write set returns the final content of the key (unknown for an untouched key, empty for a deleted one) -/
theorem C03_get_final (ops : List Op) (k : Key) : (run ops).get k = finalOf ops k :=
  get_run ops k

/-- **Main theorem.** Two histories with the same final content (as functions on keys: last write wins, deletion =
empty value, untouched = `none`) leave the *same* write set, entry by entry in `ForEach` order. -/
theorem C03_final_content (a b : List Op) (h : ∀ k, finalOf a k = finalOf b k) : run a = run b :=
  sorted_ext (run_sorted a) (run_sorted b) (fun k => by rw [get_run, get_run, h k])

/-- … hence the same bytes are hashed and `ChangeHash` agrees, for ANY hash function. -/
theorem C03_change_hash {α : Type} (H : Bytes → α) (a b : List Op) (h : ∀ k, finalOf a k = finalOf b k) :
    changeHash H (run a) = changeHash H (run b) := by
  rw [C03_final_content a b h]

/-- conversely the write set determines the final content: the write set *is* the final content. -/
theorem C03_final_content_iff (a b : List Op) : (∀ k, finalOf a k = finalOf b k) ↔ run a = run b :=
  ⟨C03_final_content a b, fun h k => by rw [← get_run, ← get_run, h]⟩

/-- what follows a history only matters through its effect on final contents (histories compose) -/
theorem finalOf_append (a b : List Op) (k : Key) : finalOf (a ++ b) k = finalFrom (finalOf a k) b k := by
  simp [finalOf, finalFrom, List.foldl_append]

/-- corollary: overwriting with the same value changes nothing -/
theorem C03_overwrite_same (a : List Op) (k : Key) (v : Val) :
    run (a ++ [.put k v, .put k v]) = run (a ++ [.put k v]) := by
  apply C03_final_content
  intro q
  rw [finalOf_append, finalOf_append]
  by_cases h : q = k <;> simp [finalFrom, h]

/-- corollary: any number of intermediate writes to a key are invisible once the key is written again -/
theorem C03_last_write_wins (a : List Op) (k : Key) (v w : Val) :
    run (a ++ [.put k w, .put k v]) = run (a ++ [.put k v]) := by
  apply C03_final_content
  intro q
  rw [finalOf_append, finalOf_append]
  by_cases h : q = k <;> simp [finalFrom, h]

/-- corollary: delete-then-recreate equals a plain write -/
theorem C03_delete_recreate (a : List Op) (k : Key) (v : Val) :
    run (a ++ [.del k, .put k v]) = run (a ++ [.put k v]) := by
  apply C03_final_content
  intro q
  rw [finalOf_append, finalOf_append]
  by_cases h : q = k <;> simp [finalFrom, h]

/-- corollary: a deletion is recorded as a write of the empty value (the tombstone stays in the write set) -/
theorem C03_delete_is_empty_write (a : List Op) (k : Key) :
    run (a ++ [.del k]) = run (a ++ [.put k []]) := by
  apply C03_final_content
  intro q
  rw [finalOf_append, finalOf_append]
  by_cases h : q = k <;> simp [finalFrom, h]

/-- two adjacent operations on different keys commute -/
theorem C03_swap_distinct (a c : List Op) (k1 k2 : Key) (v1 v2 : Val) (hne : k1 ≠ k2) :
    run (a ++ .put k1 v1 :: .put k2 v2 :: c) = run (a ++ .put k2 v2 :: .put k1 v1 :: c) := by
  apply C03_final_content
  intro q
  have two (i : Option Val) (o1 o2 : Op) : finalFrom i (o1 :: o2 :: c) q = finalFrom (finalFrom i [o1, o2] q) c q := by
    simp [finalFrom]
  rw [finalOf_append, finalOf_append, two _ (.put k1 v1), two _ (.put k2 v2)]
  congr 1
  by_cases h1 : q = k1
  · subst h1; simp [finalFrom, hne]
  · by_cases h2 : q = k2
    · subst h2; simp [finalFrom, Ne.symm hne]
    · simp [finalFrom, h1, h2]

/-- corollary: any permutation of a block of writes to pairwise distinct keys (deletions are writes of the empty
value), after any history and before any continuation, leaves the same write set -/
theorem C03_perm_distinct (a c : List Op) (ws1 ws2 : List KV) (hp : ws1.Perm ws2) (hnd : (ws1.map (·.1)).Nodup) :
    run (a ++ putOps ws1 ++ c) = run (a ++ putOps ws2 ++ c) := by
  apply C03_final_content
  intro q
  rw [finalOf_append, finalOf_append, finalOf_append, finalOf_append, finalFrom_puts_perm hp hnd]

/-- the history applied through `OverlayDB.Put/Delete/Reset` over ANY backing store leaves exactly `run ops` as write
set and never touches the store: what the store holds (in particular whether a written value equals the persisted one)
has no influence on the write set -/
theorem C03_overlay_writeset (st : Store) (ops : List Op) :
    (Overlay.runOps ⟨[], st⟩ ops).mem = run ops ∧ (Overlay.runOps ⟨[], st⟩ ops).store = st := by
  have h : ∀ (o : Overlay), (Overlay.runOps o ops).mem = ops.foldl MemDB.step o.mem ∧ (Overlay.runOps o ops).store = o.store := by
    induction ops with
    | nil => intro o; exact ⟨rfl, rfl⟩
    | cons x r ih =>
      intro o
      have e : Overlay.runOps o (x :: r) = Overlay.runOps (o.step x) r := rfl
      rw [e, List.foldl_cons]
      obtain ⟨i1, i2⟩ := ih (o.step x)
      cases x <;> exact ⟨i1, i2⟩
  exact h ⟨[], st⟩

/-- … so two histories with the same final content of touched keys give the same write set and change hash over any
two stores (a write of the value that is already visible is a touch: `finalOf` records it) -/
theorem C03_overlay_final_content {α : Type} (H : Bytes → α) (st1 st2 : Store) (a b : List Op)
    (h : ∀ k, finalOf a k = finalOf b k) :
    (Overlay.runOps ⟨[], st1⟩ a).mem = (Overlay.runOps ⟨[], st2⟩ b).mem ∧
    changeHash H (Overlay.runOps ⟨[], st1⟩ a).mem = changeHash H (Overlay.runOps ⟨[], st2⟩ b).mem := by
  rw [(C03_overlay_writeset st1 a).1, (C03_overlay_writeset st2 b).1, C03_final_content a b h]
  exact ⟨rfl, rfl⟩

/-! ### Non-vacuity and concrete instances -/
example : run [.put [1] [7], .put [0, 255] [8], .del [1], .put [] [9], .put [1] [5]]
    = [([], [9]), ([0, 255], [8]), ([1], [5])] := by decide
example : run [.put [1] [5], .put [] [9], .put [0, 255] [8]]
    = run [.put [1] [7], .put [0, 255] [8], .del [1], .put [] [9], .put [1] [5]] := by decide
example : ∀ k, finalOf [.put [1] [5], .del [2]] k = finalOf [.del [2], .put [1] [4], .put [1] [5]] k := by
  intro k
  by_cases h1 : k = [1]
  · subst h1; decide
  · by_cases h2 : k = [2]
    · subst h2; decide
    · simp [finalOf, finalFrom, h1, h2]
example : run ([.put [9] [1]] ++ putOps [([1], [5]), ([2], []), ([], [7])] ++ [.del [9]])
    = run ([.put [9] [1]] ++ putOps [([], [7]), ([1], [5]), ([2], [])] ++ [.del [9]]) := by decide
/-- a write of the persisted value is recorded -/
example : (Overlay.runOps ⟨[], [([5], [100])]⟩ [.put [5] [100]]).mem = [([5], [100])] := by decide
/-- a tombstone is content: deleting an untouched key is *not* the same as not touching it -/
example : run [.del [3]] ≠ run [] := by decide

end OntVerif.Props.C03
