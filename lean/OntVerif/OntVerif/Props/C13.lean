import OntVerif.Proofs.NeoIntExec
/-!
# C13 — NeoVM integer opcodes compute exact integer results within bounds

Model: `Model/NeoInt.lean` (`IntValue`, `execUnary/execBinary/execWithin`), tied to `vm/neovm/types/int_value.go` and
`vm/neovm/executor.go` by `harness/cmd/c13`.  Specification: `Proofs/NeoIntSpec.lean` (`idealUnary/idealBinary/idealWithin`:
`some r` = the exact result, which is within the size bound; `none` = must fault).  `valInt a` is the integer a VM value
denotes, `obs` what an opcode leaves on the stack; `(·).toOption` forgets the kind of fault.

`Variant.sound` is the code with the recorded deviations removed, `Variant.asShipped` mirrors the code as it is
(with `fixes/C13-div-minint64.patch` applied: `DIV MinInt64 -1` is repaired, not recorded).
-/
namespace OntVerif.Props.C13
open OntVerif.Util OntVerif.Model.NeoInt OntVerif.Proofs.NeoIntSpec OntVerif.Proofs.NeoIntOps OntVerif.Proofs.NeoIntExec

/-! ## The full statement -/

/-- every opcode, on every operand in every representation: exact result when operands and result are in bounds,
fault otherwise -/
def C13_full_statement (v : Variant) : Prop :=
  (∀ op a, ((execUnary v op a).map obs).toOption = idealUnary op (valInt a)) ∧
  (∀ op a b, ((execBinary v op a b).map obs).toOption = idealBinary op (valInt a) (valInt b)) ∧
  (∀ x a b, ((execWithin x a b).map obs).toOption = idealWithin (valInt x) (valInt a) (valInt b))

theorem C13_exact_unary (op : UOp) (a : Val) :
    ((execUnary .sound op a).map obs).toOption = idealUnary op (valInt a) := by
  rw [execUnary_sem]; exact semUnary_sound op (valInt a)

theorem C13_exact_binary (op : BOp) (a b : Val) :
    ((execBinary .sound op a b).map obs).toOption = idealBinary op (valInt a) (valInt b) := by
  rw [execBinary_sem]; exact semBinary_sound op (valInt a) (valInt b)

theorem C13_exact_within (x a b : Val) :
    ((execWithin x a b).map obs).toOption = idealWithin (valInt x) (valInt a) (valInt b) := by
  rw [execWithin_sem]; exact semWithin_sound _ _ _

/-- full strength for the sound variant -/
theorem C13_sound : C13_full_statement .sound := ⟨C13_exact_unary, C13_exact_binary, C13_exact_within⟩

/-! ## The code as shipped: exact outside the four recorded deviation classes -/

/-- unary opcodes as shipped: exact unless `INVERT (2^256-1)` -/
theorem C13_exact_unary_partial (op : UOp) (a : Val) (h : ¬ deviatesUnary op (valInt a)) :
    ((execUnary .asShipped op a).map obs).toOption = idealUnary op (valInt a) := by
  rw [execUnary_sem]; exact semUnary_asShipped op (valInt a) h

/-- binary opcodes as shipped: exact unless `SHL 0 n` with `n > 256`, `SHR x n` with `n ≥ 2^64`, or a comparison with an
operand beyond the size bound -/
theorem C13_exact_binary_partial (op : BOp) (a b : Val) (h : ¬ deviatesBinary op (valInt a) (valInt b)) :
    ((execBinary .asShipped op a b).map obs).toOption = idealBinary op (valInt a) (valInt b) := by
  rw [execBinary_sem]; exact semBinary_asShipped op (valInt a) (valInt b) h

/-- comparisons as shipped are exact for *all* operands (they never fault, also beyond the bound) -/
theorem C13_cmp_asShipped_exact (op : BOp) (hc : op.isCmp = true) (a b : Val) :
    execBinary .asShipped op a b = .ok (.bool (cmpResult op (valInt a) (valInt b))) := by
  unfold execBinary
  simp only [hc, if_true, cmpOperand_eq]

/-- the four recorded deviations are real: each is a counterexample to the full statement for the code as shipped
(these inputs are the replay lines of findings/C13.json) -/
theorem C13_asShipped_cex_invert :
    ((execUnary .asShipped .invert (.bigint 115792089237316195423570985008687907853269984665640564039457584007913129639935)).map obs).toOption
      ≠ idealUnary .invert 115792089237316195423570985008687907853269984665640564039457584007913129639935 := by decide

theorem C13_asShipped_cex_shl_zero :
    ((execBinary .asShipped .shl (.int 0) (.int 257)).map obs).toOption ≠ idealBinary .shl 0 257 := by
  rw [← semBinary_sound]; decide

theorem C13_asShipped_cex_shr_amount :
    ((execBinary .asShipped .shr (.int 5) (.bigint 18446744073709551616)).map obs).toOption
      ≠ idealBinary .shr 5 18446744073709551616 := by
  rw [← semBinary_sound]; decide   -- (the ideal value ⌊5 / 2^(2^64)⌋ = 0 is obtained through the proved-equal `.sound` semantics)

theorem C13_asShipped_cex_cmp :
    ((execBinary .asShipped .lt (.bigint 115792089237316195423570985008687907853269984665640564039457584007913129639936) (.int 0)).map obs).toOption
      ≠ idealBinary .lt 115792089237316195423570985008687907853269984665640564039457584007913129639936 0 := by decide

theorem C13_asShipped_counterexample : ¬ C13_full_statement .asShipped := by
  intro ⟨_, h, _⟩
  exact C13_asShipped_cex_shl_zero (h .shl (.int 0) (.int 257))

/-! ## Representation independence -/

/-- executor level, both variants, fault kinds included: the outcome depends only on the integers the operands denote
(int64 / big integer / minimal or sign-padded byte array / bool) -/
theorem C13_repr_indep_unary (v : Variant) (op : UOp) (a a' : Val) (h : valInt a = valInt a') :
    (execUnary v op a).map obs = (execUnary v op a').map obs := by
  rw [execUnary_sem, execUnary_sem, h]

theorem C13_repr_indep_binary (v : Variant) (op : BOp) (a a' b b' : Val)
    (ha : valInt a = valInt a') (hb : valInt b = valInt b') :
    (execBinary v op a b).map obs = (execBinary v op a' b').map obs := by
  rw [execBinary_sem, execBinary_sem, ha, hb]

theorem C13_repr_indep_within (x x' a a' b b' : Val)
    (hx : valInt x = valInt x') (ha : valInt a = valInt a') (hb : valInt b = valInt b') :
    (execWithin x a b).map obs = (execWithin x' a' b').map obs := by
  rw [execWithin_sem, execWithin_sem, hx, ha, hb]

/-- `IntValue` level: machine-size (`small`) and big-integer (`big`) storage of equal values give equal results, for
every operation of `int_value.go` (also for non-normalised `big` values that hold an int64) -/
theorem C13_repr_indep_intvalue (v : Variant) (op : BOp) (a a' b b' : IntValue)
    (ha : a.toInt = a'.toInt) (hb : b.toInt = b'.toInt) :
    (arithFn v op a b).map IntValue.toInt = (arithFn v op a' b').map IntValue.toInt := by
  rw [arithFn_exact, arithFn_exact, ha, hb]

theorem C13_repr_indep_intvalue_unary (a a' : IntValue) (h : a.toInt = a'.toInt) :
    a.not.toInt = a'.not.toInt ∧ a.abs.toInt = a'.abs.toInt ∧ a.sign = a'.sign ∧ a.isZero = a'.isZero ∧
    ∀ b b' : IntValue, b.toInt = b'.toInt → a.cmp b = a'.cmp b' := by
  refine ⟨by rw [not_exact, not_exact, h], by rw [abs_exact, abs_exact, h], by rw [sign_exact, sign_exact, h], ?_, ?_⟩
  · rw [Bool.eq_iff_iff, isZero_iff, isZero_iff, h]
  · intro b b' hb; rw [cmp_exact, cmp_exact, h, hb]

/-- the overflow-checked int64 fast paths never return a wrapped value: whenever `ok`, the result is the exact integer -/
theorem C13_fast_path_exact (x y : BitVec 64) :
    ((add64 x y).2 = true → (add64 x y).1.toInt = x.toInt + y.toInt) ∧
    ((sub64 x y).2 = true → (sub64 x y).1.toInt = x.toInt - y.toInt) ∧
    ((mul64 x y).2 = true → (mul64 x y).1.toInt = x.toInt * y.toInt) :=
  ⟨add64_exact x y, sub64_exact x y, mul64_exact x y⟩

/-! ## What AND / OR / XOR / INVERT mean: two's complement, bit by bit (`bitAt z k = ⌊z / 2^k⌋ mod 2`) -/
theorem C13_bitwise_meaning (x y : Int) (k : Nat) :
    bitAt (bigAnd x y) k = (bitAt x k && bitAt y k) ∧
    bitAt (bigOr x y) k = (bitAt x k || bitAt y k) ∧
    bitAt (bigXor x y) k = (bitAt x k ^^ bitAt y k) ∧
    bitAt (-x - 1) k = !bitAt x k :=
  ⟨bitAt_bigAnd x y k, bitAt_bigOr x y k, bitAt_bigXor x y k, bitAt_not x k⟩

/-! ### Non-vacuity and boundary witnesses -/
-- the repaired DIV: MinInt64 / -1 = 2^63 (a big integer), in every representation
example : execBinary .asShipped .div (.int (BitVec.intMin 64)) (.int (-1)) = .ok (.bigint 9223372036854775808) := by decide
example : execBinary .asShipped .div (.bigint (-9223372036854775808)) (.bytes [0xff]) = .ok (.bigint 9223372036854775808) := by decide
example : execBinary .asShipped .mod (.int (BitVec.intMin 64)) (.int (-1)) = .ok (.int 0) := by decide
example : execBinary .asShipped .div (.int 7) (.int (-2)) = .ok (.int (-3)) ∧ execBinary .asShipped .mod (.int (-7)) (.int 2) = .ok (.int (-1)) := by decide
example : execBinary .asShipped .mul (.int 3037000500) (.int 3037000500) = .ok (.bigint 9223372037000250000) := by decide
example : execBinary .asShipped .add (.bigint 115792089237316195423570985008687907853269984665640564039457584007913129639935) (.int 1) = .error .oversize := by decide
example : execBinary .asShipped .and (.int (-1)) (.bytes [0xff, 0x00]) = .ok (.int 255) := by decide
example : ¬ deviatesBinary .shl 0 256 ∧ ¬ deviatesBinary .add 5 7 ∧ ¬ deviatesUnary .invert 5 := by
  unfold deviatesBinary deviatesUnary; decide
example : idealBinary .shl 1 255 = some (.int (2 ^ 255)) ∧ idealBinary .shl 1 256 = none := by decide
example : valInt (.bytes [0x05, 0x00]) = valInt (.int 5) ∧ valInt (.bool true) = valInt (.bigint 1) := by decide

end OntVerif.Props.C13
