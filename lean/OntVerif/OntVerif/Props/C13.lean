import OntVerif.Model.NeoInt
namespace OntVerif.Props.C13
open OntVerif.Model.NeoInt
theorem C13_placeholder : bigNot 0 = -1 := by decide
end OntVerif.Props.C13
