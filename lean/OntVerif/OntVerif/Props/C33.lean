import OntVerif.Proofs.HeaderSync
/-!
# C33 — Cross-chain headers need signatures of two thirds of distinct peers

Model: `Model/HeaderSync.lean` (header-sync native contract + `signature.VerifyMultiSignature`), count condition and
multisig arguments regenerated from the Go source (`Gen/HeaderSync.lean`). Signatures are abstract
(`verify : Key → Msg → Sig → Bool`, arbitrary — nothing is assumed about it, in particular one signature may verify
under several keys). `Variant.sound` = tree with `fixes/C33-distinct-bookkeepers.patch`; `Variant.asShipped` = pinned tree.
-/
namespace OntVerif.Props.C33
open OntVerif.Model.HeaderSync OntVerif.Proofs.HeaderSync OntVerif.Gen.HeaderSync

/-- The property for one header against one stored peer set (a duplicate-free id list = the Go map):
accepted ⇒ the peers of the set with a verifying signature among the header's signatures number at least two thirds
of the set. `genuineSigners` filters the duplicate-free peer list, so its length counts DISTINCT peers. -/
def C33_full_statement (v : Variant) : Prop :=
  ∀ (Key Msg Sig : Type) [DecidableEq Key] (verify : Key → Msg → Sig → Bool) (peers : List Key), peers.Nodup →
    ∀ (data : Msg) (bks : List Key) (sigs : List (Option Sig)),
      verifyHeaderWith v verify peers data bks sigs = .ok () →
      2 * peers.length ≤ 3 * (genuineSigners verify peers data sigs).length

/-- **Repaired code: full statement**, all key/message/signature types, every `verify`, every peer set, every header. -/
theorem C33_sound : C33_full_statement .sound := by
  intro Key Msg Sig _ verify peers _ data bks sigs h
  exact quorum_of_accept verify peers data bks sigs h

/-- what acceptance means in the repaired code, itemised: bookkeepers are distinct members, EVERY bookkeeper has a
verifying signature in the header, and they are two thirds of the peer set -/
theorem C33_sound_accept_iff_parts {Key Msg Sig : Type} [DecidableEq Key] (verify : Key → Msg → Sig → Bool)
    (peers : List Key) (data : Msg) (bks : List Key) (sigs : List (Option Sig))
    (h : verifyHeaderWith .sound verify peers data bks sigs = .ok ()) :
    bks.Nodup ∧ (∀ b ∈ bks, b ∈ peers) ∧ (∀ b ∈ bks, ∃ s, some s ∈ sigs ∧ verify b data s = true) ∧
    2 * peers.length ≤ 3 * bks.length :=
  verifyHeaderWith_sound verify peers data bks sigs h

/-- the hypotheses are satisfiable: 5 distinct signers of a 7-peer set are accepted by the repaired code -/
example : verifyHeaderWith .sound (fun (k : Nat) (_ : Unit) (s : Nat) => k == s) [0, 1, 2, 3, 4, 5, 6] ()
    [0, 1, 2, 3, 4] [some 4, some 3, some 2, some 1, some 0] = .ok () := by rfl

/-- **Pinned tree: the statement is false.** Peer set {0..6}, bookkeepers = five times key 0, five copies of key 0's
signature: accepted with ONE genuine signer out of seven (the replay line in `corpus/C33/`). -/
theorem C33_asShipped_counterexample : ¬ C33_full_statement .asShipped := by
  intro h
  have := h Nat Unit Nat (fun k _ s => k == s) [0, 1, 2, 3, 4, 5, 6] (by decide) ()
    [0, 0, 0, 0, 0] [some 0, some 0, some 0, some 0, some 0] (by rfl)
  revert this
  decide

/-- what the pinned tree does guarantee: the listed bookkeepers are members, each listed POSITION is matched by one of the
first `len(bookkeepers)` signatures, and the list LENGTH (not the number of distinct keys) is two thirds of the set.
Missing for the full statement: distinctness of the bookkeepers. -/
theorem C33_asShipped_partial {Key Msg Sig : Type} [DecidableEq Key] (verify : Key → Msg → Sig → Bool)
    (peers : List Key) (data : Msg) (bks : List Key) (sigs : List (Option Sig))
    (h : verifyHeaderWith .asShipped verify peers data bks sigs = .ok ()) :
    (∀ b ∈ bks, b ∈ peers) ∧ (∀ b ∈ bks, ∃ s, some s ∈ sigs ∧ verify b data s = true) ∧
    2 * peers.length ≤ 3 * bks.length := by
  unfold verifyHeaderWith at h
  split at h
  · simp at h
  · rename_i hc
    split at h
    · simp at h
    · rename_i hml
      split at h
      · simp at h
      · rename_i hms
        have hm : multisigM bks.length peers.length = bks.length := rfl
        rw [hm] at hms
        refine ⟨memberLoop_members _ peers bks [] hml, verifyMultiSignature_all verify data bks sigs hms, ?_⟩
        simp [countRejects] at hc
        omega

/-- the repair rejects only headers with a repeated bookkeeper: on duplicate-free bookkeeper lists both variants agree -/
theorem C33_fix_conservative {Key Msg Sig : Type} [DecidableEq Key] (verify : Key → Msg → Sig → Bool)
    (peers : List Key) (data : Msg) (bks : List Key) (sigs : List (Option Sig)) (hn : bks.Nodup) :
    verifyHeaderWith .sound verify peers data bks sigs = verifyHeaderWith .asShipped verify peers data bks sigs := by
  have key : ∀ (l seen : List Key), l.Nodup → (∀ b ∈ l, b ∉ seen) →
      memberLoop .sound peers l seen = memberLoop .asShipped peers l seen := by
    intro l
    induction l with
    | nil => intros; rfl
    | cons b r ih =>
      intro seen hnd hs
      have hnd' := List.nodup_cons.mp hnd
      unfold memberLoop
      split
      · rfl
      · have hb : b ∉ seen := hs b (by simp)
        rw [if_neg (fun h => hb h.2), if_neg (fun h => hb h.2)]
        apply ih _ hnd'.2
        intro x hx hxs
        rcases List.mem_cons.mp hxs with rfl | hxs
        · exact hnd'.1 hx
        · exact hs x (List.mem_cons_of_mem _ hx) hxs
  unfold verifyHeaderWith
  rw [key bks [] hn (by simp)]

/-- **Through the contract, every reachable state**: after ANY history of genesis syncs and header syncs (any
interleaving, any chains/heights, peer-set changes), a header that `syncBlockHeader` newly stores was checked against
the stored peer set of the GREATEST key height below its height, that set is duplicate free, and valid signatures of
at least two thirds of its distinct peers are in the header. -/
theorem C33_contract {Key Msg Sig : Type} [DecidableEq Key] (verify : Key → Msg → Sig → Bool)
    (ops : List (Op Key Msg Sig)) (h : Hdr Key Msg Sig) (st' : St Key)
    (hnew : (h.chain, h.height) ∉ (run .sound verify {} ops).headers)
    (hacc : syncBlockHeader .sound verify (run .sound verify {} ops) h = (true, st')) :
    ∃ kh peers, getPeers (run .sound verify {} ops) h.chain kh = some peers ∧
      kh ∈ getKeyHeights (run .sound verify {} ops) h.chain ∧ kh < h.height ∧
      (∀ v ∈ getKeyHeights (run .sound verify {} ops) h.chain, v < h.height → v ≤ kh) ∧
      peers.Nodup ∧ 2 * peers.length ≤ 3 * (genuineSigners verify peers h.data h.sigs).length := by
  have hi := inv_run .sound verify {} inv_empty ops
  generalize run .sound verify {} ops = st at hnew hacc hi
  unfold syncBlockHeader at hacc
  rw [if_neg hnew] at hacc
  split at hacc
  · rename_i st1 hp
    unfold processHeader at hp
    split at hp
    · simp at hp
    · rename_i hv
      unfold verifyHeader at hv
      split at hv
      · simp at hv
      · rename_i kh hk
        split at hv
        · simp at hv
        · rename_i peers hg
          unfold findKeyHeight at hk
          obtain ⟨h1, h2, h3⟩ := find_desc_greatest _ _ _ (getKeyHeights_desc st hi h.chain) hk
          refine ⟨kh, peers, hg, h1, h2, h3, ?_, quorum_of_accept verify peers h.data h.bks h.sigs hv⟩
          unfold getPeers at hg
          obtain ⟨e, hf, he⟩ := Option.map_eq_some_iff.mp hg
          rw [← he]; exact hi.peersNodup e (List.mem_of_find?_eq_some hf)
  · simp at hacc

/-- non-vacuity of `C33_contract`: a genesis sync storing 3 peers, then a header signed by two of them is newly stored -/
example : let verify := fun (k : Nat) (_ : Unit) (s : Nat) => k == s
    let ops : List (Op Nat Unit Nat) := [.genesis true ⟨1, 0, (), [], [], .peers [0, 1, 2]⟩]
    (syncBlockHeader .sound verify (run .sound verify {} ops) ⟨1, 1, (), [0, 1], [some 1, some 0], .none⟩).1 = true ∧
    (1, 1) ∉ (run .sound verify {} ops).headers := by decide

end OntVerif.Props.C33
