import OntVerif.Proofs.KBucket
/-!
# C37 — DHT routing table stays structurally valid

Property theorems only.  Model: `Model/KBucket.lean` (`RouteTable.Update/Remove/nextBucket/NearestPeers/Find`,
`Bucket.Split/MoveToFront/Remove`, `CommonPrefixLen`, `Distance`, `bytes.Compare`), ids are byte strings of any length
(20 in Go; no hash is involved), buckets are lists.  `Inv t` = at least one bucket ∧ every peer id at most once in the
whole table ∧ every bucket has at most `bucketsize` peers ∧ every peer of bucket `i` has `i = min(cpl(peer, local), last)`.
-/
namespace OntVerif.Props.C37
open OntVerif.Util OntVerif.Model.KBucket OntVerif.Proofs.KBucket

/-- **Invariant over all histories**: from a fresh table with `bucketsize > 0`, every sequence of `Update`/`Remove`
with arbitrary (also adversarially close, also equal-to-local) ids runs without index panic and without unbounded
recursion, and ends in a table satisfying `Inv`. -/
theorem C37_invariant (bucketsize : Nat) (loc : Id) (hbs : bucketsize > 0) (ops : List Op) :
    ∃ t, run (Table.new bucketsize loc) ops = .ok t ∧ Inv t := by
  obtain ⟨t, h, hi, _, _⟩ := run_inv ops (Table.new bucketsize loc) (inv_new bucketsize loc) hbs
  exact ⟨t, h, hi⟩

/-- every single `Update` preserves the invariant (any fuel ≥ `8·|local| + 2` — the recursion depth of `nextBucket`) -/
theorem C37_update_preserves (t : Table) (p : Peer) (hinv : Inv t) (hbs : t.bucketsize > 0) :
    ∃ t' r, update t p = .ok (t', r) ∧ Inv t' :=
  let ⟨t', r, h, hi, _, _⟩ := updateF_inv (fuelFor t) t p hinv hbs (Nat.le_refl _)
  ⟨t', r, h, hi⟩

/-- every single `Remove` preserves the invariant -/
theorem C37_remove_preserves (t : Table) (id : Id) (hinv : Inv t) : ∃ t' r, remove t id = .ok (t', r) ∧ Inv t' :=
  let ⟨t', r, h, hi, _, _⟩ := remove_inv t id hinv
  ⟨t', r, h, hi⟩

/-- **Termination of `nextBucket`** with the explicit measure `8·|local| + 1 − (len(Buckets) − 1)`: whenever
`bucketsize > 0` and the fuel covers the measure, the unfolding returns (no peer can share more than `8·|local|` prefix
bits with the local id, so the bucket split off at that depth is empty) — for *any* table content, invariant or not. -/
theorem C37_nextBucket_terminates (fuel : Nat) (t : Table) (hb : t.bucketsize > 0) (hne : t.buckets ≠ [])
    (hf1 : fuel ≥ 1) (hf : fuel + (t.buckets.length - 1) ≥ 8 * t.loc.length + 1) :
    ∃ t', nextBucket fuel t = .ok t' :=
  nextBucket_ok fuel t hb hne hf1 hf

/-- the requirement `bucketsize > 0` is necessary: with `bucketsize = 0` the test `newBucket.Len() >= rt.bucketsize`
always holds and `nextBucket` recurses forever (Go: stack overflow), whatever the fuel. -/
theorem C37_nextBucket_diverges_bucketsize0 (fuel : Nat) (t : Table) (hb : t.bucketsize = 0) (hne : t.buckets ≠ []) :
    nextBucket fuel t = .error .diverge :=
  nextBucket_diverges fuel t hb hne

/-- unfolding keeps the invariant and the set of peers -/
theorem C37_nextBucket_preserves (fuel : Nat) (t t' : Table) (hinv : Inv t) (h : nextBucket fuel t = .ok t') :
    Inv t' ∧ t'.peers.Perm t.peers :=
  let ⟨a, b, _, _⟩ := nextBucket_inv fuel t t' hinv h
  ⟨a, b⟩

/-- **NearestPeers**: on a table satisfying the invariant the answer is duplicate-free, sorted by XOR distance to the
target, consists of peers of the table, and has exactly `min(count, size)` elements. -/
theorem C37_nearest (t : Table) (id : Id) (count : Nat) (hinv : Inv t) :
    ∃ l, nearestPeers t id count = .ok l ∧ (l.map (·.id)).Nodup ∧ SortedByDist id l ∧
      (∀ p ∈ l, p ∈ t.peers) ∧ l.length = min count t.peers.length :=
  nearestPeers_spec t id count hinv

/-- the three statements together, for every history and every query afterwards -/
theorem C37_history_then_nearest (bucketsize : Nat) (loc : Id) (hbs : bucketsize > 0) (ops : List Op) (id : Id) (count : Nat) :
    ∃ t l, run (Table.new bucketsize loc) ops = .ok t ∧ Inv t ∧ nearestPeers t id count = .ok l ∧
      (l.map (·.id)).Nodup ∧ SortedByDist id l := by
  obtain ⟨t, h, hi⟩ := C37_invariant bucketsize loc hbs ops
  obtain ⟨l, hl, a, b, _, _⟩ := C37_nearest t id count hi
  exact ⟨t, l, h, hi, hl, a, b⟩

/-- **Find**: hit ⇔ member.  On a table satisfying the invariant whose ids all have the length of the target (every Go
`PeerId` has 20 bytes), `Find id` returns a peer exactly when a peer with that id is in the table, and then that peer. -/
theorem C37_find (t : Table) (id : Id) (hinv : Inv t) (hlen : ∀ p ∈ t.peers, p.id.length = id.length) :
    ∃ r, find t id = .ok r ∧ ∀ p, r = some p ↔ (p ∈ t.peers ∧ p.id = id) :=
  find_spec t id hinv hlen

/-- the same after every history of `Update`/`Remove` with ids of one length -/
theorem C37_history_then_find (bucketsize : Nat) (loc : Id) (hbs : bucketsize > 0) (ops : List Op) (id : Id)
    (ho : OpsIdLen id.length ops) :
    ∃ t r, run (Table.new bucketsize loc) ops = .ok t ∧ find t id = .ok r ∧ ∀ p, r = some p ↔ (p ∈ t.peers ∧ p.id = id) := by
  obtain ⟨t, h, hi, hl⟩ := run_idlen id.length ops (Table.new bucketsize loc) (inv_new bucketsize loc) hbs
    (by intro q hq; simp [Table.new, Table.peers] at hq) ho
  obtain ⟨r, hf, hr⟩ := find_spec t id hi hl
  exact ⟨t, r, h, hf, hr⟩

/-- **`Update` never evicts** (the eldest are preferred): every peer of the table is still there afterwards, and the only
peer that can be new is the one `Update` was called with. -/
theorem C37_update_never_evicts (t t' : Table) (p : Peer) (r : UpdRes) (hinv : Inv t) (h : update t p = .ok (t', r)) :
    (∀ q ∈ t.peers, q ∈ t'.peers) ∧ (∀ q ∈ t'.peers, q ∈ t.peers ∨ q = p) :=
  updateF_peers (fuelFor t) t t' p r hinv h

/-- a newcomer whose bucket is full and is not the last one is dropped: `ErrPeerRejectedNoCapacity`, table unchanged -/
theorem C37_update_full_nonlast_rejected (t : Table) (p : Peer) (bucket : List Peer)
    (hb : t.buckets[bucketIdx t (cpl p.id t.loc)]? = some bucket) (hh : has bucket p.id = false)
    (hfull : ¬ bucket.length < t.bucketsize) (hnl : bucketIdx t (cpl p.id t.loc) ≠ t.buckets.length - 1) :
    update t p = .ok (t, .rejected) :=
  updateF_full_nonlast (fuelFor t) t p bucket hb hh hfull hnl

/-- a known peer moves to the front of its bucket (most recently seen first); the others keep their order -/
theorem C37_update_present_moves (t : Table) (p : Peer) (bucket : List Peer)
    (hb : t.buckets[bucketIdx t (cpl p.id t.loc)]? = some bucket) (hh : has bucket p.id = true) :
    update t p = .ok ({ t with buckets := t.buckets.set (bucketIdx t (cpl p.id t.loc)) (moveToFront p.id bucket) }, .moved) :=
  updateF_present (fuelFor t) t p bucket hb hh

/-! ### Non-vacuity: a history that splits twice and rejects once (bucketsize 1, 1-byte ids, local = 0) -/
example : run (Table.new 1 [0]) [.update ⟨[0x80], "a"⟩, .update ⟨[0x40], "b"⟩, .update ⟨[0x20], "c"⟩, .update ⟨[0xc0], "d"⟩,
    .remove [0x40], .update ⟨[0x80], "e"⟩]
    = .ok ⟨[0], [[⟨[0x80], "a"⟩], [], [⟨[0x20], "c"⟩]], 1⟩ := by rfl
example : nearestPeers ⟨[0], [[⟨[0x80], "a"⟩], [⟨[0x40], "b"⟩], [⟨[0x20], "c"⟩]], 1⟩ [0x21] 2
    = .ok [⟨[0x20], "c"⟩, ⟨[0x40], "b"⟩] := by rfl
example : nextBucket 5 ⟨[0], [[⟨[0x80], "a"⟩]], 0⟩ = .error .diverge := by rfl
example : find ⟨[0], [[⟨[0x80], "a"⟩], [⟨[0x40], "b"⟩], [⟨[0x20], "c"⟩]], 1⟩ [0x40] = .ok (some ⟨[0x40], "b"⟩) := by rfl
example : OpsIdLen 1 [.update ⟨[0x80], "a"⟩, .remove [0x40, 1]] := by
  intro op hop p hp
  simp only [List.mem_cons, List.not_mem_nil, or_false] at hop
  rcases hop with rfl | rfl
  · injection hp with hp; subst hp; rfl
  · cases hp

end OntVerif.Props.C37
