import OntVerif.Proofs.KBucket
/-!
# C37 — DHT routing table stays structurally valid

Property theorems only.  Model: `Model/KBucket.lean` (`RouteTable.Update/Remove/nextBucket/NearestPeers/Find`,
`Bucket.Split/MoveToFront/Remove`, `CommonPrefixLen`, `Distance`, `bytes.Compare`), ids are byte strings of any length
(20 in Go; no hash is involved), buckets are lists.  `Inv t` = at least one bucket ∧ every peer id at most once in the
whole table ∧ every bucket has at most `bucketsize` peers ∧ every peer of bucket `i` has `i = min(cpl(peer, local), last)`.
-/
namespace OntVerif.Props.C37
open OntVerif.Util OntVerif.Model.KBucket OntVerif.Proofs.KBucket

/-- **Invariant over all histories**: from a fresh table with `bucketsize > 0`, every sequence of `Update`/`Remove`
with arbitrary (also adversarially close, also equal-to-local) ids runs without index panic and without unbounded
recursion, and ends in a table satisfying `Inv`. -/
theorem C37_invariant (bucketsize : Nat) (loc : Id) (hbs : bucketsize > 0) (ops : List Op) :
    ∃ t, run (Table.new bucketsize loc) ops = .ok t ∧ Inv t := by
  obtain ⟨t, h, hi, _, _⟩ := run_inv ops (Table.new bucketsize loc) (inv_new bucketsize loc) hbs
  exact ⟨t, h, hi⟩

/-- every single `Update` preserves the invariant (any fuel ≥ `8·|local| + 2` — the recursion depth of `nextBucket`) -/
theorem C37_update_preserves (t : Table) (p : Peer) (hinv : Inv t) (hbs : t.bucketsize > 0) :
    ∃ t' r, update t p = .ok (t', r) ∧ Inv t' :=
  let ⟨t', r, h, hi, _, _⟩ := updateF_inv (fuelFor t) t p hinv hbs (Nat.le_refl _)
  ⟨t', r, h, hi⟩

/-- every single `Remove` preserves the invariant -/
theorem C37_remove_preserves (t : Table) (id : Id) (hinv : Inv t) : ∃ t' r, remove t id = .ok (t', r) ∧ Inv t' :=
  let ⟨t', r, h, hi, _, _⟩ := remove_inv t id hinv
  ⟨t', r, h, hi⟩

/-- **Termination of `nextBucket`** with the explicit measure `8·|local| + 1 − (len(Buckets) − 1)`: whenever
`bucketsize > 0` and the fuel covers the measure, the unfolding returns (no peer can share more than `8·|local|` prefix
bits with the local id, so the bucket split off at that depth is empty) — for *any* table content, invariant or not. -/
theorem C37_nextBucket_terminates (fuel : Nat) (t : Table) (hb : t.bucketsize > 0) (hne : t.buckets ≠ [])
    (hf1 : fuel ≥ 1) (hf : fuel + (t.buckets.length - 1) ≥ 8 * t.loc.length + 1) :
    ∃ t', nextBucket fuel t = .ok t' :=
  nextBucket_ok fuel t hb hne hf1 hf

/-- the requirement `bucketsize > 0` is necessary: with `bucketsize = 0` the test `newBucket.Len() >= rt.bucketsize`
always holds and `nextBucket` recurses forever (Go: stack overflow), whatever the fuel. -/
theorem C37_nextBucket_diverges_bucketsize0 (fuel : Nat) (t : Table) (hb : t.bucketsize = 0) (hne : t.buckets ≠ []) :
    nextBucket fuel t = .error .diverge :=
  nextBucket_diverges fuel t hb hne

/-- unfolding keeps the invariant and the set of peers -/
theorem C37_nextBucket_preserves (fuel : Nat) (t t' : Table) (hinv : Inv t) (h : nextBucket fuel t = .ok t') :
    Inv t' ∧ t'.peers.Perm t.peers :=
  let ⟨a, b, _, _⟩ := nextBucket_inv fuel t t' hinv h
  ⟨a, b⟩

/-- **NearestPeers**: on a table satisfying the invariant the answer is duplicate-free, sorted by XOR distance to the
target, consists of peers of the table, and has exactly `min(count, size)` elements. -/
theorem C37_nearest (t : Table) (id : Id) (count : Nat) (hinv : Inv t) :
    ∃ l, nearestPeers t id count = .ok l ∧ (l.map (·.id)).Nodup ∧ SortedByDist id l ∧
      (∀ p ∈ l, p ∈ t.peers) ∧ l.length = min count t.peers.length :=
  nearestPeers_spec t id count hinv

/-- the three statements together, for every history and every query afterwards -/
theorem C37_history_then_nearest (bucketsize : Nat) (loc : Id) (hbs : bucketsize > 0) (ops : List Op) (id : Id) (count : Nat) :
    ∃ t l, run (Table.new bucketsize loc) ops = .ok t ∧ Inv t ∧ nearestPeers t id count = .ok l ∧
      (l.map (·.id)).Nodup ∧ SortedByDist id l := by
  obtain ⟨t, h, hi⟩ := C37_invariant bucketsize loc hbs ops
  obtain ⟨l, hl, a, b, _, _⟩ := C37_nearest t id count hi
  exact ⟨t, l, h, hi, hl, a, b⟩

/-! ### Non-vacuity: a history that splits twice and rejects once (bucketsize 1, 1-byte ids, local = 0) -/
example : run (Table.new 1 [0]) [.update ⟨[0x80], "a"⟩, .update ⟨[0x40], "b"⟩, .update ⟨[0x20], "c"⟩, .update ⟨[0xc0], "d"⟩,
    .remove [0x40], .update ⟨[0x80], "e"⟩]
    = .ok ⟨[0], [[⟨[0x80], "a"⟩], [], [⟨[0x20], "c"⟩]], 1⟩ := by rfl
example : nearestPeers ⟨[0], [[⟨[0x80], "a"⟩], [⟨[0x40], "b"⟩], [⟨[0x20], "c"⟩]], 1⟩ [0x21] 2
    = .ok [⟨[0x20], "c"⟩, ⟨[0x40], "b"⟩] := by rfl
example : nextBucket 5 ⟨[0], [[⟨[0x80], "a"⟩]], 0⟩ = .error .diverge := by rfl

end OntVerif.Props.C37
