import OntVerif.Proofs.SigCheck
/-!
# C17 — A transaction authorizes the same accounts on every node

Property theorems only (helper lemmas: `Proofs/SigCheck.lean`; model: `Model/SigCheck.lean`; harness `harness/cmd/c17`).

Contract code asks `CheckWitness(addr)`, which looks `addr` up in `Transaction.GetSignatureAddresses()`.  That list is
`tx.SignedAddr` when this node's copy of the transaction went through `validation.VerifyTransaction` (the validator
stores the accounts it derived from the *parsed* keys), and otherwise - e.g. on a node that received the transaction
inside a block: `ledger.AddBlock` does not run the transaction validator - the list
`hash160(raw verification script)` of every signature set.  `seen cfg C validatedHere tx` is that list.

* `.asShipped` fallback: the two derivations agree on canonical scripts (`C17_equal_on_canonical`), and agreement on
  a set forces the re-built script to equal the raw script up to a collision of the address hash
  (`C17_differ_or_collision`); the full statement is refuted by kernel-checked witnesses for four classes of accepted
  transactions (Ethereum-type key, alternative public-key encoding, unsorted multi-signature script, non-minimal push).
* `.sound` fallback (derive from the parsed script exactly like the validator): the full statement holds, in the
  strong form that both nodes see the same *list* (`C17_full_sound`, `C17_function_of_bytes`).
-/
namespace OntVerif.Props.C17
open OntVerif.Util OntVerif.Model.Tx OntVerif.Model.SigCheck OntVerif.Proofs.SigCheck

/-- The statement: for every accepted transaction, a node that validated it and a node that did not see the same
set of signer accounts. -/
def C17_full_statement (cfg : Cfg) : Prop :=
  ∀ (Key Sig : Type) [DecidableEq Key] (C : Crypto Key Sig) (tx : Tx) (addrs : List Addr),
    checkSigs cfg C tx = .ok addrs → sameSet (seen cfg C true tx) (seen cfg C false tx)

section
variable {Key Sig : Type} [DecidableEq Key]

/-- what a validating node sees for an accepted transaction is the validator's list -/
theorem C17_seen_validated (cfg : Cfg) (C : Crypto Key Sig) (tx : Tx) (addrs : List Addr)
    (h : checkSigs cfg C tx = .ok addrs) : seen cfg C true tx = addrs := by
  obtain ⟨_, _, hp⟩ := checkSigsWith_ok cfg C.toLib (verifier C tx) tx addrs h
  have hne : addrs.length ≠ 0 := by
    intro h0
    have : addrs = [] := List.eq_nil_of_length_eq_zero h0
    simp [this] at hp
  simp [seen, h, hne]

/-- **Object state.** Whatever was cached in `SignedAddr` before validation (the getter called first, an earlier
pass, an assignment): after an accepting pass the validating node's `GetSignatureAddresses()` is the validator's list. -/
theorem C17_validated_any_state (cfg : Cfg) (C : Crypto Key Sig) (tx : Tx) (pre addrs : List Addr)
    (h : (checkSigsObj cfg C ⟨tx, pre⟩).1 = .ok addrs) :
    (getSigAddrs cfg C.toLib (checkSigsObj cfg C ⟨tx, pre⟩).2).1 = seen cfg C true tx := by
  obtain ⟨hc, hs⟩ := checkSigsObj_ok cfg C tx pre addrs h
  rw [hs, C17_seen_validated cfg C tx addrs hc]
  obtain ⟨_, _, hp⟩ := checkSigsWith_ok cfg C.toLib (verifier C tx) tx addrs hc
  have hne : addrs.length ≠ 0 := by
    intro h0
    have : addrs = [] := List.eq_nil_of_length_eq_zero h0
    simp [this] at hp
  simp [getSigAddrs, hne]

/-- … and a node that did not validate sees the fallback list, which is what `getSigAddrs` computes on a fresh object -/
theorem C17_unvalidated_is_fallback (cfg : Cfg) (C : Crypto Key Sig) (tx : Tx) :
    (getSigAddrs cfg C.toLib ⟨tx, []⟩).1 = seen cfg C false tx := by
  simp [getSigAddrs, seen]

/-- **Repaired fallback: both nodes see the same list** (hence the same set, and `CheckWitness` agrees). -/
theorem C17_function_of_bytes (cfg : Cfg) (hf : cfg.fallback = .sound) (C : Crypto Key Sig) (tx : Tx)
    (addrs : List Addr) (h : checkSigs cfg C tx = .ok addrs) (b1 b2 : Bool) :
    seen cfg C b1 tx = seen cfg C b2 tx := by
  have hv := C17_seen_validated cfg C tx addrs h
  obtain ⟨_, h2, _⟩ := checkSigsWith_ok cfg C.toLib (verifier C tx) tx addrs h
  have hall := checkAll_ok cfg C.toLib _ tx.sigs addrs h2
  have hfb : seen cfg C false tx = addrs := by
    simp only [seen, Bool.false_eq_true, if_false, fallback]
    exact (hall.imp (fun rs a hrs => fallbackAddr_sound cfg hf C.toLib _ rs a hrs)).map_eq
  cases b1 <;> cases b2 <;> simp [hv, hfb]

/-- … in particular, starting from the raw bytes: whatever node decodes `raw`, contract code sees one list. -/
theorem C17_function_of_raw (cfg : Cfg) (hf : cfg.fallback = .sound) (C : Crypto Key Sig) (R : Rlp) (raw : Bytes)
    (tx : Tx) (s : OntVerif.Model.Codec.Src) (_hd : fromRawBytes R raw = .ok tx s) (addrs : List Addr)
    (h : checkSigs cfg C tx = .ok addrs) (b : Bool) : seen cfg C b tx = addrs := by
  rw [C17_function_of_bytes cfg hf C tx addrs h b true]
  exact C17_seen_validated cfg C tx addrs h

/-- **Shipped fallback, canonical scripts.** If every verification script of an accepted transaction is the
canonical encoding of the keys it parses to (canonical key bytes, `SortPublicKeys` order, minimal pushes) and no
single-key script holds an Ethereum-type key, both nodes see the same list. -/
theorem C17_equal_on_canonical (cfg : Cfg) (C : Crypto Key Sig) (tx : Tx) (addrs : List Addr)
    (h : checkSigs cfg C tx = .ok addrs) (hc : ∀ rs ∈ tx.sigs, Canonical C.toLib rs.2) :
    addrs = tx.sigs.map (fun rs => C.h160 rs.2) := by
  obtain ⟨_, h2, _⟩ := checkSigsWith_ok cfg C.toLib (verifier C tx) tx addrs h
  exact canonical_all cfg C.toLib _ tx.sigs addrs (checkAll_ok cfg C.toLib _ tx.sigs addrs h2) hc

theorem C17_equal_on_canonical_seen (cfg : Cfg) (hf : cfg.fallback = .asShipped) (C : Crypto Key Sig) (tx : Tx)
    (addrs : List Addr) (h : checkSigs cfg C tx = .ok addrs) (hc : ∀ rs ∈ tx.sigs, Canonical C.toLib rs.2) :
    seen cfg C true tx = seen cfg C false tx := by
  rw [C17_seen_validated cfg C tx addrs h, C17_equal_on_canonical cfg C tx addrs h hc]
  simp [seen, fallback, fallbackAddr, hf]

omit [DecidableEq Key] in
/-- **Collision extraction.** If for a parsed, non-Ethereum signature set the validator's account equals the hash of
the raw script, then the script the builders would emit for its keys *is* the raw script, or the two scripts are an
explicit collision of the address hash. -/
theorem C17_differ_or_collision (C : Lib Key Sig) (script p : Bytes) (m : Nat) (keys : List Key) (a : Addr)
    (hp : getProgramInfo C script = some (m, keys)) (hr : rebuilt C script = some p)
    (hne : ∀ k, keys = [k] → C.ethAddr k = none) (ha : setAddr C keys m = .ok a) (heq : a = C.h160 script) :
    p = script ∨ (p ≠ script ∧ C.h160 p = C.h160 script) :=
  setAddr_eq_raw_or_collision C script p m keys a hp hr hne ha heq

end

/-- With the fallback derivation repaired the full statement holds. -/
theorem C17_full_sound (cfg : Cfg) (hf : cfg.fallback = .sound) : C17_full_statement cfg := by
  intro Key Sig _ C tx addrs h x
  rw [C17_function_of_bytes cfg hf C tx addrs h true false]

/-! ## Witnesses (toy library `Proofs.SigCheck.toy`) -/

/-- unsorted 2-of-2: keys 9, 5 in that order; the validator derives the account of the *sorted* script -/
def unsortedScript : Bytes := [0x52, 4, 9, 0, 0, 0, 4, 5, 0, 0, 0, 0x52, 0xAE]
def sortedScript : Bytes := [0x52, 4, 5, 0, 0, 0, 4, 9, 0, 0, 0, 0x52, 0xAE]
def unsortedTx : Tx := ⟨0, 0xd1, 0, 0, 0, sortedScript, .invoke [], [([1, 9, 1, 5], unsortedScript)], [], []⟩

theorem C17_unsorted_accepted : checkSigs Cfg.asShipped toy unsortedTx = .ok [sortedScript] := by decide

/-- the shipped tree violates the statement: validating node `[sortedScript]`, other node `[unsortedScript]` -/
theorem C17_asShipped_counterexample : ¬ C17_full_statement Cfg.asShipped := by
  intro h
  have := h Nat Nat toy unsortedTx [sortedScript] C17_unsorted_accepted
  revert this
  decide

/-- class `eth-key`: key 200 is Ethereum-type, account `[0xEE,200]`, raw-script hash is the script -/
example : checkSigs Cfg.asShipped toy ⟨0, 0xd1, 0, 0, 0, [0xEE, 200], .invoke [], [([1, 200], [4, 200, 0, 0, 0, 0xAC])], [], []⟩
      = .ok [[0xEE, 200]]
    ∧ seen Cfg.asShipped toy false ⟨0, 0xd1, 0, 0, 0, [0xEE, 200], .invoke [], [([1, 200], [4, 200, 0, 0, 0, 0xAC])], [], []⟩
      = [[4, 200, 0, 0, 0, 0xAC]] := by decide

/-- class `noncanonical-pubkey-encoding`: `[0x12,7,0,0,0]` parses to key 7 -/
example : checkSigs Cfg.asShipped toy ⟨0, 0xd1, 0, 0, 0, [4, 7, 0, 0, 0, 0xAC], .invoke [], [([1, 7], [5, 0x12, 7, 0, 0, 0, 0xAC])], [], []⟩
      = .ok [[4, 7, 0, 0, 0, 0xAC]]
    ∧ seen Cfg.asShipped toy false ⟨0, 0xd1, 0, 0, 0, [4, 7, 0, 0, 0, 0xAC], .invoke [], [([1, 7], [5, 0x12, 7, 0, 0, 0, 0xAC])], [], []⟩
      = [[5, 0x12, 7, 0, 0, 0, 0xAC]] := by decide

/-- class `nonminimal-push`: the key is pushed with PUSHDATA1 -/
example : checkSigs Cfg.asShipped toy ⟨0, 0xd1, 0, 0, 0, [4, 7, 0, 0, 0, 0xAC], .invoke [], [([1, 7], [0x4C, 4, 7, 0, 0, 0, 0xAC])], [], []⟩
      = .ok [[4, 7, 0, 0, 0, 0xAC]]
    ∧ seen Cfg.asShipped toy false ⟨0, 0xd1, 0, 0, 0, [4, 7, 0, 0, 0, 0xAC], .invoke [], [([1, 7], [0x4C, 4, 7, 0, 0, 0, 0xAC])], [], []⟩
      = [[0x4C, 4, 7, 0, 0, 0, 0xAC]] := by decide

/-- the repaired fallback gives the validator's list on all of them (instance of `C17_function_of_bytes`) -/
example : seen Cfg.sound toy false unsortedTx = [sortedScript] := by decide

/-- non-vacuity of `C17_equal_on_canonical`: a canonical 2-of-2 plus a canonical single-key set -/
def canonTx : Tx := ⟨0, 0xd1, 0, 0, 0, sortedScript, .invoke [],
  [([1, 9, 1, 5], sortedScript), ([1, 3], [4, 3, 0, 0, 0, 0xAC])], [], []⟩
example : checkSigs Cfg.asShipped toy canonTx = .ok [sortedScript, [4, 3, 0, 0, 0, 0xAC]] := by decide
example : rebuilt toy.toLib sortedScript = some sortedScript ∧ rebuilt toy.toLib [4, 3, 0, 0, 0, 0xAC] = some [4, 3, 0, 0, 0, 0xAC]
    ∧ rebuilt toy.toLib unsortedScript = some sortedScript := by decide

end OntVerif.Props.C17
