import OntVerif.Proofs.Merkle
import OntVerif.Gen.MerklePath
/-!
# C27 — Cross-chain merkle paths prove exactly the included values

`MerkleLeafPath(data, hashes)` builds the level-by-level pairing tree (`MerkleHashes`) and emits (flag, sibling) steps;
`MerkleProve(path, root)` folds the steps from `HashLeaf(value)` and compares with `root`; the root the ledger publishes
is `HashFullTreeWithLeafHash(hashes)` (`mth`).  `H0`/`H1` are arbitrary functions into an arbitrary type `Hash`.
-/
namespace OntVerif.Props.C27
open OntVerif.Util OntVerif.Model.Merkle OntVerif.Proofs.Merkle

variable {Hash : Type}

/-- **The pairing tree of `MerkleHashes` and the RFC 6962 tree of `HashFullTreeWithLeafHash` have the same root**:
`levels[0]` of `MerkleHashes(l, depth(len l))` is the single hash `mth l`. -/
theorem C27_pairTree_eq_mth (H1 : Hash → Hash → Hash) (He : Hash) (l : List Hash) (h : l ≠ []) :
    pairRoot H1 (depth l.length) l = [mth H1 He l] :=
  pairTree_eq_mth H1 He l h

/-- **Completeness.**  For a value whose leaf hash is in the list (and within the 1 MiB size limit) `MerkleLeafPath`
returns a path (no panic), and `MerkleProve`'s fold of that path from `HashLeaf(value)` reaches
`HashFullTreeWithLeafHash(hashes)`: the generated path proves the value against the list's root. -/
theorem C27_complete [DecidableEq Hash] (H0 : Bytes → Hash) (H1 : Hash → Hash → Hash) (He : Hash)
    (data : Bytes) (hashes : List Hash) (hmem : H0 data ∈ hashes)
    (hsz : hashes.length * 33 + data.length + 8 ≤ maxSize) :
    ∃ steps, merkleLeafPath H0 H1 data hashes = .ok (some (data, steps)) ∧
      proveSteps H0 H1 data steps (mth H1 He hashes) = true := by
  obtain ⟨i, hi⟩ := getIndex_mem (H0 data) hashes hmem 0
  obtain ⟨_, hget⟩ := getIndex_spec (H0 data) hashes 0 i hi
  simp only [Nat.sub_zero] at hget
  have hlt : i < hashes.length := by
    rcases Nat.lt_or_ge i hashes.length with h | h
    · exact h
    · rw [List.getElem?_eq_none h] at hget; cases hget
  refine ⟨stepsSpec H1 He i hashes, ?_, ?_⟩
  · unfold merkleLeafPath
    rw [if_neg (by omega), hi]
    simp only
    rw [leafPathLoop_spec H1 He (depth hashes.length) hashes i (by omega) (le_two_pow_depth _ (by omega)) hlt]
    rfl
  · simp only [proveSteps, decide_eq_true_eq]
    exact proveFold_complete H1 He hashes.length hashes i (H0 data) rfl hget

/-- **Completeness at byte level.**  With `enc` the 32 bytes of a hash and `dec` any reader with `dec (enc h) = h`: for every
value whose leaf hash is in the list, within the 1 MiB limit, the **bytes** returned by `MerkleLeafPath(value, hashes)`
(`WriteVarBytes(value)`, then flag byte and sibling hash per step) are parsed by `MerkleProve`'s reader — `NextVarBytes`,
then `remaining/32` iterations of `NextByte`/`NextHash` — back to exactly the value and the steps (the path has at most 15
steps, below the 32 at which the loop bound overshoots), and `MerkleProve(path, HashFullTreeWithLeafHash(hashes))` returns
the value. -/
theorem C27_complete_bytes [DecidableEq Hash] (H0 : Bytes → Hash) (H1 : Hash → Hash → Hash) (He : Hash)
    (enc : Hash → Bytes) (dec : Bytes → Hash) (henc : ∀ h, (enc h).length = 32) (hdec : ∀ h, dec (enc h) = h)
    (data : Bytes) (hashes : List Hash) (hmem : H0 data ∈ hashes)
    (hsz : hashes.length * 33 + data.length + 8 ≤ maxSize) :
    ∃ path, merkleLeafPathBytes H0 H1 enc data hashes = .ok (some path) ∧
      merkleProve H0 H1 dec path (mth H1 He hashes) = .ok data := by
  obtain ⟨i, hget, hpath, hlen⟩ := merkleLeafPath_spec H0 H1 He data hashes hmem hsz
  refine ⟨pathBytes enc data (stepsSpec H1 He i hashes), by simp [merkleLeafPathBytes, hpath], ?_⟩
  have hbytes : (pathBytes enc data (stepsSpec H1 He i hashes)).length < OntVerif.Model.Codec.two64 := by
    unfold pathBytes
    rw [List.length_append, flatMap_steps_length enc henc]
    have h1 : (OntVerif.Model.Codec.writeVarBytes data).length ≤ 9 + data.length := by
      simp only [OntVerif.Model.Codec.writeVarBytes, List.length_append, OntVerif.Proofs.Codec.writeVarUint_length]
      have := getVarUintSize_le data.length
      omega
    unfold maxSize at hsz
    unfold OntVerif.Model.Codec.two64
    omega
  unfold merkleProve
  rw [parsePath_pathBytes enc henc data _ (by omega) hbytes]
  simp only [List.map_map]
  have hmap : (stepsSpec H1 He i hashes).map ((fun x => (x.1, dec x.2)) ∘ fun s => (s.1, enc s.2)) = stepsSpec H1 He i hashes := by
    conv => rhs; rw [← List.map_id (stepsSpec H1 He i hashes)]
    apply List.map_congr_left
    intro s _
    simp [hdec]
  have hfold := proveFold_complete H1 He hashes.length hashes i (H0 data) rfl hget
  have hfun : (fun (x : UInt8 × Bytes) => match x with | (f, v) => (f, dec v)) = (fun x => (x.1, dec x.2)) := by
    funext x; rfl
  rw [hfun, hmap, hfold]
  simp

/-- **Soundness (collision-extraction form).**  If a path (any steps, any flags) folds from `HashLeaf(value)` to the tree
hash of a non-empty list whose elements are leaf hashes (`H0` images — `CrossHashes` are `HashLeaf(data)`), then
`HashLeaf(value)` is in the list, or an explicit `H1` collision or an explicit `H0`/`H1` clash exists. -/
theorem C27_sound [DecidableEq Hash] (H0 : Bytes → Hash) (H1 : Hash → Hash → Hash) (He : Hash)
    (L : List Hash) (hne : L ≠ []) (hL : ∀ l ∈ L, ∃ x, H0 x = l) (value : Bytes) (steps : List (UInt8 × Hash))
    (h : proveSteps H0 H1 value steps (mth H1 He L) = true) :
    H0 value ∈ L ∨ Collision H0 H1 := by
  simp only [proveSteps, decide_eq_true_eq] at h
  exact proveFold_sound H0 H1 He L hne hL value steps h

/-- the same for the byte-level `MerkleProve` (value and steps parsed from the path bytes, `dec` = any reading of 32
bytes as a hash): an accepted path proves a member -/
theorem C27_sound_bytes [DecidableEq Hash] (H0 : Bytes → Hash) (H1 : Hash → Hash → Hash) (He : Hash) (dec : Bytes → Hash)
    (L : List Hash) (hne : L ≠ []) (hL : ∀ l ∈ L, ∃ x, H0 x = l) (path value : Bytes)
    (h : merkleProve H0 H1 dec path (mth H1 He L) = .ok value) :
    H0 value ∈ L ∨ Collision H0 H1 := by
  unfold merkleProve at h
  cases hp : parsePath path with
  | error e => simp [hp] at h
  | ok vs =>
    obtain ⟨v, steps⟩ := vs
    simp only [hp] at h
    by_cases hr : proveFold H1 (H0 v) (steps.map fun (f, x) => (f, dec x)) = mth H1 He L
    · simp [hr] at h
      subst h
      exact proveFold_sound H0 H1 He L hne hL v _ hr
    · simp [hr] at h

/-- **The code hashes the value unconditionally** (facts regenerated from `merkle/merkle_hasher.go` on every run):
`MerkleProve` starts from `HashLeaf(value)` of the parsed value and from nothing else, `MerkleLeafPath` looks up
`HashLeaf(data)`, and `HashLeaf` has no branch on its argument — as the model's `merkleProve` / `merkleLeafPath` apply `H0`.
A rewrite of these calls (e.g. using a 32-byte value as the leaf directly) makes this theorem fail. -/
theorem C27_code_hashes_value_unconditionally :
    OntVerif.Gen.MerklePath.proveStartsFromHashLeafOfValue = true ∧
    OntVerif.Gen.MerklePath.leafPathLooksUpHashLeafOfData = true ∧
    OntVerif.Gen.MerklePath.hashLeafIsBranchFree = true := by decide

/-! ### Non-vacuity, and why the hypothesis "list elements are leaf hashes" is needed

Free term algebra: `H0 = leaf`, `H1 = node` are injective with disjoint ranges, so there is no collision. -/

/-- both hypotheses of `C27_sound` hold for a concrete 3-element list, and the conclusion holds through the first disjunct -/
example : proveSteps T.leaf T.node [2] [(0, T.node (T.leaf [0]) (T.leaf [1]))]
    (mth T.node T.empty [T.leaf [0], T.leaf [1], T.leaf [2]]) = true := by decide

/-- **Without the range hypothesis the statement is false**: if a list element is itself a node hash (`node a b`), a path
proves the value `a`, whose leaf hash is not in the list — with no collision anywhere. -/
theorem C27_range_hypothesis_needed :
    ∃ (L : List T) (value : Bytes) (steps : List (UInt8 × T)), L ≠ [] ∧
      proveSteps T.leaf T.node value steps (mth T.node T.empty L) = true ∧
      T.leaf value ∉ L ∧ ¬ Collision T.leaf T.node :=
  ⟨[T.node (T.leaf [7]) (T.leaf [8]), T.leaf [9]], [7], [(1, T.leaf [8]), (1, T.leaf [9])],
    by decide, by decide, by decide, no_collision_T⟩

/-- byte level: the hypotheses of `C27_complete_bytes` are met by a concrete encoding; one step parses back -/
example : parsePath (pathBytes (fun n : Nat => List.replicate 32 (UInt8.ofNat n)) [7, 8] [(1, 5)]) =
    .ok ([7, 8], [(1, List.replicate 32 5)]) := by
  rfl

example : merkleLeafPath T.leaf T.node [1] [T.leaf [0], T.leaf [1], T.leaf [2]]
    = .ok (some ([1], [(0, T.leaf [0]), (1, T.leaf [2])])) := by rfl

end OntVerif.Props.C27
