import OntVerif.Proofs.ConnCtl
import OntVerif.Proofs.ConnCtlHist
/-!
# C36 — peer connection limits hold under concurrent connection attempts

`Model/ConnCtl.lean` mirrors the controller as it is in the tree (slot reservation of commit 280bc886, `Conn.Close`
once per `Conn` of commit 471ac830): every connection attempt is a thread with a program counter, the shared state is
the controller's address sets, a schedule is a list of thread ids — including repeated `Close()`s of stale `Conn`
handles around reconnects from the same address.

* `C36_sound`: after EVERY schedule of ANY number of threads (hence in every reachable state) the controller's counters
  respect the three configured limits; `C36_sound_reserved` strengthens the conclusion to established + reserved slots.
* `C36_sound_established`: the number of connections actually ESTABLISHED (not only the size of the address sets)
  respects the limits.
* `C36_historical_*`: the controller before 280bc886 (`Model/ConnCtlHist.lean:stepHist`) violated all three limits by
  check-then-act; the controller before 471ac830 (`stepStaleHist`) admitted one connection too many after a repeated
  `Close()` of a stale `Conn`.  Explicitly historical step functions, kept as checked refutations next to what did
  hold for them; their witnesses are in `corpus/C36/`, so a reversion of either commit is a VIOLATION.
-/
namespace OntVerif.Props.C36
open OntVerif.Model.ConnCtl OntVerif.Proofs.ConnCtl

/-- a thread from its address strings: remote address, the listen address the controller derives for it -/
def mkT (d : Dir) (addr listen : String) (pid : Nat) (f : Fate) : Thread :=
  { dir := d, addr := addr.toList, listenAddr := listen.toList, pid := pid, fate := f }

/-- `ipOf` is `net.SplitHostPort`'s host on the textual forms the net stack produces; the per-IP statements below
quantify over arbitrary address strings with this function -/
example : ipOf "1.2.3.4:80".toList = "1.2.3.4".toList ∧ ipOf "1.2.3.40:80".toList = "1.2.3.40".toList ∧
    ipOf "[::1]:80".toList = "::1".toList ∧ ipOf "[fe80::1%eth0]:80".toList = "fe80::1%eth0".toList ∧
    ipOf "[2001:db8::1]:80".toList = "2001:db8::1".toList ∧ ipOf "[::ffff:1.2.3.4]:80".toList = "::ffff:1.2.3.4".toList ∧
    ipOf "::1:80".toList = [] := by decide

/-- **The property on the controller's counters**: for all configurations, all sets of connection attempts and all
interleavings of their atomic actions (accepts, dials, handshake outcomes, closes, repeated closes),
inbound ≤ MaxConnInBound ∧ per-IP inbound ≤ MaxConnInBoundForSingleIP ∧ outbound ≤ MaxConnOutBound. -/
def C36_full : Prop :=
  ∀ (cfg : Cfg) (ths : List Thread) (sched : List Nat), (∀ t ∈ ths, t.pc = .start) →
    LimitsHold (run (init cfg ths) sched)

/-- the controller as it is: every schedule, any number of connections -/
theorem C36_sound : C36_full := fun cfg ths sched h =>
  (run_inv (inv_init cfg ths h) sched).limits

/-- stronger: established **plus reserved** slots never exceed the limits (a reservation is never over-committed) -/
theorem C36_sound_reserved (cfg : Cfg) (ths : List Thread) (sched : List Nat)
    (h : ∀ t ∈ ths, t.pc = .start) :
    let s := run (init cfg ths) sched
    (∀ d, (s.bound d).length + (s.pend d).length ≤ cfg.max d) ∧
    (∀ ip, cnt ip (s.bound .inb) + cnt ip (s.pend .inb) ≤ cfg.maxIp) := by
  have hi := run_inv (inv_init cfg ths h) sched
  have := hi.reserved_le
  rw [run_cfg] at this
  exact this

/-! ## Established connections, stale `Conn` handles -/

/-- **The property on the connections themselves**: the number of connections actually established (returned by
`AcceptConnect`/`Connect`, not yet closed) — not only the size of the controller's address sets — respects the
limits, in total and per remote ip, after every schedule (closes, reconnects from the same address and repeated
closes of stale handles included). -/
def C36_established_full (run : State → List Nat → State) : Prop :=
  ∀ (cfg : Cfg) (ths : List Thread) (sched : List Nat), (∀ t ∈ ths, t.pc = .start) →
    let s := run (init cfg ths) sched
    established s .inb ≤ cfg.maxIn ∧ (∀ ip, establishedIp s ip ≤ cfg.maxIp) ∧ established s .outb ≤ cfg.maxOut

/-- full statement for the controller as it is -/
theorem C36_sound_established : C36_established_full run := by
  intro cfg ths sched h
  have hf := run_invF ⟨inv_init cfg ths h, invE_init cfg ths h⟩ sched
  obtain ⟨l1, l2, l3⟩ := hf.1.limits
  rw [run_cfg] at l1 l2 l3
  exact ⟨Nat.le_trans (hf.2.established_le .inb) l1,
    fun ip => Nat.le_trans (hf.2.establishedIp_le ip) (l2 ip),
    Nat.le_trans (hf.2.established_le .outb) l3⟩

/-- A connects from 10.0.0.1:5000 and closes; B reconnects from the same address; C comes from another port -/
def staleThreads : List Thread :=
  [mkT .inb "10.0.0.1:5000" "10.0.0.1:20338" 1 .ok,
   mkT .inb "10.0.0.1:5000" "10.0.0.1:20338" 2 .ok,
   mkT .inb "10.0.0.1:5001" "10.0.0.1:20338" 3 .ok]

/-- A: check, reserve, save, close · B: check, reserve, save · A: Close() AGAIN · C: check, reserve, save -/
def staleSchedule : List Nat := [0, 0, 0, 0, 1, 1, 1, 0, 2, 2, 2]

/-- on that schedule the controller keeps B's record and refuses C (limit 1) -/
example :
    let s := run (init { maxIn := 1, maxIp := 1, maxOut := 1 } staleThreads) staleSchedule
    s.bound .inb = ["10.0.0.1:5000".toList] ∧ s.threads.map (·.pc) = [.closed, .saved, .closed] := by
  decide

/-- the per-IP limit binds IPv6 remotes (bracketed records `[::1]:port`, bare ip `::1`): the second connection from
`::1` is refused, the one from `::2` admitted -/
example :
    let ths := [mkT .inb "[::1]:5000" "::1:20338" 1 .ok, mkT .inb "[::1]:5001" "::1:20338" 2 .ok,
                mkT .inb "[::2]:5000" "::2:20338" 3 .ok]
    let s := run (init { maxIn := 3, maxIp := 1, maxOut := 1 } ths) [0, 0, 0, 1, 2, 2, 2]
    s.threads.map (·.pc) = [.saved, .closed, .saved] ∧ cnt "::1".toList (s.bound .inb) = 1 := by
  decide

/-! ## Non-vacuity: the controller admits connections up to the limits and refuses the racing one -/

/-- two remote peers (different ips), each a well-behaved inbound connection -/
def twoInbound : List Thread :=
  [mkT .inb "10.0.0.1:5000" "10.0.0.1:20338" 1 .ok,
   mkT .inb "10.0.0.2:5001" "10.0.0.2:20338" 2 .ok]

/-- T1.check, T2.check, (enter handshakes), T1.save, T2.save -/
def raceSchedule : List Nat := [0, 1, 0, 1, 0, 1]

/-- on the race schedule the first connection is established and the second refused at its check -/
example : (run (init { maxIn := 1, maxIp := 3, maxOut := 1 } twoInbound) raceSchedule).bound .inb = ["10.0.0.1:5000".toList]
    ∧ ((run (init { maxIn := 1, maxIp := 3, maxOut := 1 } twoInbound) raceSchedule).threads.map (·.pc))
        = [.saved, .closed] := by decide

/-- with room for both, both handshakes overlap and both connections are established: the limit is reached, not
merely respected (T2's check waits for `reserveMu` until T1 has recorded its reservation) -/
example : ((run (init { maxIn := 2, maxIp := 3, maxOut := 1 } twoInbound) [0, 1, 0, 1, 1, 0, 1]).bound .inb).length = 2 := by
  decide

/-- a reservation released by a failed handshake is available again -/
example :
    let ths : List Thread :=
      [mkT .inb "10.0.0.1:5000" "10.0.0.1:20338" 1 .hsFail,
       mkT .inb "10.0.0.1:5001" "10.0.0.1:20338" 2 .ok]
    ((run (init { maxIn := 1, maxIp := 1, maxOut := 1 } ths) [0, 0, 0, 1, 1, 1]).bound .inb) = ["10.0.0.1:5001".toList] := by
  decide

/-- a refused duplicate dial does not touch the reservation of the dial in flight: a third dial to another address
still finds the only slot taken (the regression seeded against 280bc886) -/
example :
    let ths : List Thread :=
      [mkT .outb "10.0.0.1:20338" "10.0.0.1:20338" 1 .ok,
       mkT .outb "10.0.0.1:20338" "10.0.0.1:20338" 2 .ok,
       mkT .outb "10.0.0.2:20338" "10.0.0.2:20338" 3 .ok]
    let s := run (init { maxIn := 1, maxIp := 1, maxOut := 1 } ths) [0, 0, 1, 2, 0]
    s.threads.map (·.pc) = [.saved, .closed, .closed] ∧ s.bound .outb = ["10.0.0.1:20338".toList] := by
  decide

/-! ## HISTORICAL: the controller before commit 471ac830 (`stepStaleHist`) — every `Close()` ran `removePeer` -/

/-- the stale close dropped B's record, C was admitted: two connections established with limit 1 (and per-IP
limit 1).  Replay (corpus/C36/stale-close.ops):
`S:1:1:1:* i0.1.5000.20338.1.ok;i0…;i0…;i1.1.5000.20338.2.ok;i1…;i0…;i2.1.5001.20338.3.ok;i2…` -/
theorem C36_historical_staleClose_counterexample : ¬ C36_established_full runStaleHist := by
  intro h
  have := (h { maxIn := 1, maxIp := 1, maxOut := 1 } staleThreads staleSchedule (by decide)).1
  revert this
  decide

/-- what did hold before 471ac830: along every schedule that closes no `Conn` twice (the only way the shipped call
chain `Link.CloseConn` uses it) established connections respected the limits -/
theorem C36_historical_staleClose_partial (cfg : Cfg) (ths : List Thread) (sched : List Nat)
    (h : ∀ t ∈ ths, t.pc = .start) (hs : StaleFreeRun (init cfg ths) sched) :
    let s := runStaleHist (init cfg ths) sched
    established s .inb ≤ cfg.maxIn ∧ (∀ ip, establishedIp s ip ≤ cfg.maxIp) ∧ established s .outb ≤ cfg.maxOut := by
  rw [runStaleHist_eq_of_staleFree hs]
  exact C36_sound_established cfg ths sched h

/-- the hypothesis is satisfiable by a run with overlapping handshakes that fills the limit -/
example : StaleFreeRun (init { maxIn := 2, maxIp := 2, maxOut := 1 } staleThreads) [0, 2, 0, 2, 2, 0, 2, 0] ∧
    established (runStaleHist (init { maxIn := 2, maxIp := 2, maxOut := 1 } staleThreads) [0, 2, 0, 2, 2, 0, 2]) .inb = 2 := by
  refine ⟨?_, by decide⟩
  simp only [StaleFreeRun, and_true]
  decide

/-! ## HISTORICAL: the controller before commit 280bc886 (`stepHist`) — check-then-act -/

/-- the counter-level property, stated for the explicitly historical step function -/
def C36_full_historical : Prop :=
  ∀ (cfg : Cfg) (ths : List Thread) (sched : List Nat), (∀ t ∈ ths, t.pc = .start) →
    LimitsHold (runHist (init cfg ths) sched)

/-- two connections from the same remote ip -/
def twoSameIp : List Thread :=
  [mkT .inb "10.0.0.1:5000" "10.0.0.1:20338" 1 .ok,
   mkT .inb "10.0.0.1:5001" "10.0.0.1:20339" 2 .ok]

/-- two dials to different addresses -/
def twoOutbound : List Thread :=
  [mkT .outb "10.0.0.1:20338" "10.0.0.1:20338" 1 .ok,
   mkT .outb "10.0.0.2:20338" "10.0.0.2:20338" 2 .ok]

/-- inbound limit 1, witness `S:1:3:1:* i0.1.5000.20338.1.ok;i1.2.5001.20338.2.ok;i0…;i1…` (corpus/C36: a reversion
of 280bc886 is a VIOLATION) -/
theorem C36_historical_counterexample : ¬ C36_full_historical := by
  intro h
  have := (h { maxIn := 1, maxIp := 3, maxOut := 1 } twoInbound raceSchedule (by decide)).1
  revert this
  decide

/-- the per-IP limit alone was violated the same way (total inbound limit 3 respected) -/
theorem C36_historical_counterexample_perIp :
    ¬ ∀ (cfg : Cfg) (ths : List Thread) (sched : List Nat), (∀ t ∈ ths, t.pc = .start) →
        ∀ ip, cnt ip ((runHist (init cfg ths) sched).bound .inb) ≤ cfg.maxIp := by
  intro h
  have := h { maxIn := 3, maxIp := 1, maxOut := 3 } twoSameIp raceSchedule (by decide) "10.0.0.1".toList
  revert this
  decide

/-- so was the outbound limit: the `connecting` set holds the dialled address, it does not reserve a slot -/
theorem C36_historical_counterexample_outbound :
    ¬ ∀ (cfg : Cfg) (ths : List Thread) (sched : List Nat), (∀ t ∈ ths, t.pc = .start) →
        ((runHist (init cfg ths) sched).bound .outb).length ≤ cfg.maxOut := by
  intro h
  have := h { maxIn := 1, maxIp := 1, maxOut := 1 } twoOutbound raceSchedule (by decide)
  revert this
  decide

/-- two dials to the SAME address whose checks both precede the first `savePeer`: two connections established, one
set entry (model-only: no I/O separates the check from `tryAddConnecting`, the harness cannot force it).  The
reservation of 280bc886 closes this too: the second check sees the pending address (`dup`). -/
theorem C36_historical_sameAddr_undercount :
    let ths : List Thread :=
      [mkT .outb "10.0.0.1:20338" "10.0.0.1:20338" 1 .ok,
       mkT .outb "10.0.0.1:20338" "10.0.0.1:20338" 1 .ok]
    let s := runHist (init { maxIn := 1, maxIp := 1, maxOut := 1 } ths) [0, 1, 0, 0, 1, 1]
    (s.bound .outb).length = 1 ∧ established s .outb = 2 := by
  decide

/-- what did hold for the historical controller (and is what the repository's sequential tests exercise): along a
run in which connection attempts of one direction never overlap between their check and their `savePeer`, the
limits hold. -/
theorem C36_historical_sequential_partial (cfg : Cfg) (ths : List Thread) (sched : List Nat)
    (h : ∀ t ∈ ths, t.pc = .start) (hno : NoOverlapRunHist (init cfg ths) sched) :
    LimitsHold (runHist (init cfg ths) sched) :=
  (runHist_invK (invK_init cfg ths h) sched hno).limits

/-- the hypothesis is satisfiable by a run that establishes a connection and refuses the next one -/
example : NoOverlapRunHist (init { maxIn := 1, maxIp := 3, maxOut := 1 } twoInbound) [0, 0, 0, 1, 1, 0] ∧
    ((runHist (init { maxIn := 1, maxIp := 3, maxOut := 1 } twoInbound) [0, 0, 0, 1]).threads.map (·.pc))
      = [.saved, .closed] := by
  refine ⟨?_, by decide⟩
  simp only [NoOverlapRunHist, and_true]
  refine ⟨?_, ?_, ?_, ?_, ?_, ?_⟩ <;> (intro d; cases d <;> decide)

end OntVerif.Props.C36
