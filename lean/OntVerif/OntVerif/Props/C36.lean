import OntVerif.Proofs.ConnCtl
/-!
# C36 — peer connection limits hold under concurrent connection attempts

`Model/ConnCtl.lean`: every connection attempt is a thread with a program counter, the shared state is the
controller's address sets, a schedule is a list of thread ids.  `C36_full v` says that after EVERY schedule of ANY
number of threads (hence in every reachable state) the controller's counters respect the three configured limits.

* `Variant.asShipped` (the code as it is): false — `beforeHandshakeCheck` … handshake … `savePeer` is
  check-then-act, for the inbound, the per-IP and the outbound limit alike (`C36_asShipped_counterexample*`).
* `Variant.sound` (the controller with `fixes/C36-reserve-slot.patch`): `C36_sound`, by invariant induction over all
  schedules; `C36_sound_established` strengthens the conclusion from the counters to the number of connections
  actually established, `C36_sound_reserved` to established + reserved slots.
-/
namespace OntVerif.Props.C36
open OntVerif.Model.ConnCtl OntVerif.Proofs.ConnCtl

/-- **The property**: for all configurations, all sets of connection attempts and all interleavings of their
atomic actions, inbound ≤ MaxConnInBound ∧ per-IP inbound ≤ MaxConnInBoundForSingleIP ∧ outbound ≤ MaxConnOutBound. -/
def C36_full (v : Variant) : Prop :=
  ∀ (cfg : Cfg) (ths : List Thread) (sched : List Nat), (∀ t ∈ ths, t.pc = .start) →
    LimitsHold (run v (init cfg ths) sched)

/-- full statement for the repaired controller: every schedule, any number of connections -/
theorem C36_sound : C36_full .sound := fun cfg ths sched h =>
  (run_sound_inv (inv_init cfg ths h) sched).limits

/-- stronger: established **plus reserved** slots never exceed the limits (a reservation is never over-committed) -/
theorem C36_sound_reserved (cfg : Cfg) (ths : List Thread) (sched : List Nat) (h : ∀ t ∈ ths, t.pc = .start) :
    let s := run .sound (init cfg ths) sched
    (∀ d, (s.bound d).length + (s.pend d).length ≤ cfg.max d) ∧
    (∀ ip, cnt ip (s.bound .inb) + cnt ip (s.pend .inb) ≤ cfg.maxIp) := by
  have hi := run_sound_inv (inv_init cfg ths h) sched
  have hc : (run .sound (init cfg ths) sched).cfg = cfg := by
    have : ∀ (s : State) (sched : List Nat), (run .sound s sched).cfg = s.cfg := by
      intro s sched
      induction sched generalizing s with
      | nil => rfl
      | cons i r ih =>
        show (run .sound (step .sound s i) r).cfg = s.cfg
        rw [ih]; exact step_cfg .sound s i
    exact this _ _
  have := hi.reserved_le
  rw [hc] at this
  exact this

/-- stronger: the number of connections actually **established** (returned by `AcceptConnect`/`Connect`, not yet
closed) — not only the size of the controller's address sets — respects the limits, in total and per remote ip -/
theorem C36_sound_established (cfg : Cfg) (ths : List Thread) (sched : List Nat) (h : ∀ t ∈ ths, t.pc = .start) :
    let s := run .sound (init cfg ths) sched
    established s .inb ≤ s.cfg.maxIn ∧ (∀ ip, establishedIp s ip ≤ s.cfg.maxIp) ∧ established s .outb ≤ s.cfg.maxOut := by
  have hf := run_sound_invF ⟨inv_init cfg ths h, invE_init cfg ths h⟩ sched
  obtain ⟨l1, l2, l3⟩ := hf.1.limits
  exact ⟨Nat.le_trans (hf.2.established_le .inb) l1,
    fun ip => Nat.le_trans (hf.2.establishedIp_le ip) (l2 ip),
    Nat.le_trans (hf.2.established_le .outb) l3⟩

/-! ## The shipped controller: check-then-act -/

/-- two remote peers (different ips), each a well-behaved inbound connection -/
def twoInbound : List Thread :=
  [{ dir := .inb, ip := 1, port := 5000, lport := 20338, pid := 1, fate := .ok },
   { dir := .inb, ip := 2, port := 5001, lport := 20338, pid := 2, fate := .ok }]

/-- two connections from the same remote ip -/
def twoSameIp : List Thread :=
  [{ dir := .inb, ip := 1, port := 5000, lport := 20338, pid := 1, fate := .ok },
   { dir := .inb, ip := 1, port := 5001, lport := 20339, pid := 2, fate := .ok }]

/-- two dials to different addresses -/
def twoOutbound : List Thread :=
  [{ dir := .outb, ip := 1, port := 20338, lport := 20338, pid := 1, fate := .ok },
   { dir := .outb, ip := 2, port := 20338, lport := 20338, pid := 2, fate := .ok }]

/-- T1.check, T2.check, (enter handshakes), T1.save, T2.save -/
def raceSchedule : List Nat := [0, 1, 0, 1, 0, 1]

/-- inbound limit 1, witness `S:1:3:1:* i0.1.5000.20338.1.ok;i1.2.5001.20338.2.ok;i0…;i1…` (the finding's replay) -/
theorem C36_asShipped_counterexample : ¬ C36_full .asShipped := by
  intro h
  have := (h { maxIn := 1, maxIp := 3, maxOut := 1 } twoInbound raceSchedule (by decide)).1
  revert this
  decide

/-- the per-IP limit alone is violated the same way (total inbound limit 3 respected) -/
theorem C36_asShipped_counterexample_perIp :
    ¬ ∀ (cfg : Cfg) (ths : List Thread) (sched : List Nat), (∀ t ∈ ths, t.pc = .start) →
        ∀ ip, cnt ip ((run .asShipped (init cfg ths) sched).bound .inb) ≤ cfg.maxIp := by
  intro h
  have := h { maxIn := 3, maxIp := 1, maxOut := 3 } twoSameIp raceSchedule (by decide) 1
  revert this
  decide

/-- so is the outbound limit: the `connecting` set holds the dialled address, it does not reserve a slot -/
theorem C36_asShipped_counterexample_outbound :
    ¬ ∀ (cfg : Cfg) (ths : List Thread) (sched : List Nat), (∀ t ∈ ths, t.pc = .start) →
        ((run .asShipped (init cfg ths) sched).bound .outb).length ≤ cfg.maxOut := by
  intro h
  have := h { maxIn := 1, maxIp := 1, maxOut := 1 } twoOutbound raceSchedule (by decide)
  revert this
  decide

/-- two dials to the SAME address whose checks both precede the first `savePeer` (the second passes
`tryAddConnecting` after the first dial has finished): two connections are established while the address set — a set —
holds one entry.  The shipped controller's counter then under-counts the established connections (and drops to 0 when
either of them closes).  Exhibited by the model only: this interleaving separates the check from `tryAddConnecting`
without any I/O in between, so the harness cannot force it. -/
theorem C36_asShipped_sameAddr_undercount :
    let ths : List Thread :=
      [{ dir := .outb, ip := 1, port := 20338, lport := 20338, pid := 1, fate := .ok },
       { dir := .outb, ip := 1, port := 20338, lport := 20338, pid := 1, fate := .ok }]
    let s := run .asShipped (init { maxIn := 1, maxIp := 1, maxOut := 1 } ths) [0, 1, 0, 0, 1, 1]
    (s.bound .outb).length = 1 ∧ established s .outb = 2 := by
  decide

/-- what does hold for the shipped controller (and is what the repository's sequential tests exercise): along a run in
which connection attempts of one direction never overlap between their check and their `savePeer`, the limits hold.
The full statement fails exactly because overlapping attempts are possible (`C36_asShipped_counterexample`). -/
theorem C36_asShipped_sequential_partial (cfg : Cfg) (ths : List Thread) (sched : List Nat)
    (h : ∀ t ∈ ths, t.pc = .start) (hno : NoOverlapRun .asShipped (init cfg ths) sched) :
    LimitsHold (run .asShipped (init cfg ths) sched) :=
  (run_asShipped_invK (invK_init cfg ths h) sched hno).limits

/-- the hypothesis is satisfiable by a run that establishes a connection and refuses the next one -/
example : NoOverlapRun .asShipped (init { maxIn := 1, maxIp := 3, maxOut := 1 } twoInbound) [0, 0, 0, 1, 1, 0] ∧
    ((run .asShipped (init { maxIn := 1, maxIp := 3, maxOut := 1 } twoInbound) [0, 0, 0, 1]).threads.map (·.pc))
      = [.saved, .closed] := by
  refine ⟨?_, by decide⟩
  simp only [NoOverlapRun, and_true]
  refine ⟨?_, ?_, ?_, ?_, ?_, ?_⟩ <;> (intro d; cases d <;> decide)

/-! ## Non-vacuity: the repaired controller still admits connections up to the limits, and refuses the racing one -/

/-- on the race schedule the repaired controller establishes the first connection and refuses the second at its check -/
example : (run .sound (init { maxIn := 1, maxIp := 3, maxOut := 1 } twoInbound) raceSchedule).bound .inb = [(1, 5000)]
    ∧ ((run .sound (init { maxIn := 1, maxIp := 3, maxOut := 1 } twoInbound) raceSchedule).threads.map (·.pc))
        = [.saved, .closed] := by decide

/-- with room for both, both handshakes overlap and both connections are established: the limit is reached, not
merely respected (T2's check waits for `reserveMu` until T1 has recorded its reservation) -/
example : ((run .sound (init { maxIn := 2, maxIp := 3, maxOut := 1 } twoInbound) [0, 1, 0, 1, 1, 0, 1]).bound .inb).length = 2 := by
  decide

/-- a reservation released by a failed handshake is available again -/
example :
    let ths : List Thread :=
      [{ dir := .inb, ip := 1, port := 5000, lport := 20338, pid := 1, fate := .hsFail },
       { dir := .inb, ip := 1, port := 5001, lport := 20338, pid := 2, fate := .ok }]
    ((run .sound (init { maxIn := 1, maxIp := 1, maxOut := 1 } ths) [0, 0, 0, 1, 1, 1]).bound .inb) = [(1, 5001)] := by
  decide

end OntVerif.Props.C36
