import OntVerif.Proofs.TxPool
/-!
# C35 — Proposed EVM transactions have consecutive nonces and no duplicates

Property theorems only (helper lemmas live in `Proofs/TxPool.lean`). The model is `Model/TxPool.lean`: the pool
(`TXPool`, `txSortedMap`), the increment validator, the stateful submission check and the proposer glue over an
append-only chain, tied to the Go code by the correspondence harness `harness/cmd/c35`.

A *history* is any `List Op` run from a fresh node (`Sys.new acct0 maxBlocks`): submissions (with any verification lag),
same-nonce resubmissions (replacements), block commits (accepted by the ledger rule or not), the block notifications
to the validator and to the pool delivered in any order / dropped / repeated, raw `GetTxPool` calls at any height
(expiry), `Remain`, `RemoveTxsBelowGasPrice`, validator resets and earlier proposals. Every `getPool`/`propose` carries its
own Go-map iteration order.  `U = ops.flatMap Op.txs` are the transactions the history mentions; `NoCollision U` is the
collision-freeness of the (abstract) hash on them.
-/
namespace OntVerif.Props.C35
open OntVerif.Model.TxPool OntVerif.Proofs.TxPool

/-- **Main theorem (all histories).** What the proposer puts into block `h+1` — `GetTxPool` filtered through
`IncrementValidator.Verify` — contains no hash twice, no transaction of any chain block up to `h`, and, when `h` is the
ledger tip, for every EVM sender `p` exactly the nonces `acct p, acct p + 1, …` where `acct p` is the ledger's current
account nonce of `p` (`proj p out` = nonces of `p`'s EIP-155 transactions in proposal order). -/
theorem C35_filtered (acct0 : List (Nat × Nat)) (maxBlocks : Nat) (ops : List Op)
    (hcol : NoCollision (ops.flatMap Op.txs))
    (ord : Order) (hord : ord.IsPerm) (byCount : Bool) (h maxTx : Nat) (vh : Nat) (out : List Tx) (s' : Sys)
    (hp : ((Sys.new acct0 maxBlocks).run ops).propose ord byCount h maxTx = some (vh, out, s')) :
    let s := (Sys.new acct0 maxBlocks).run ops
    (out.map (·.hash)).Nodup ∧
    (∀ t ∈ out, ∀ k b, k ≤ h → s.chain[k]? = some b → ∀ u ∈ b, u.hash ≠ t.hash) ∧
    (h + 1 = s.chain.length → ∀ p, proj p out = List.range' (acctOf s.acct0 s.chain p) (proj p out).length) :=
  propose_spec (reachable_inv acct0 maxBlocks ops) hcol hord hp

/-- the proposer never panics away the validator's window check: every proposed transaction passed `Verify` at
`validHeight`, so it is in no block of the validator's window from `validHeight` on — for *any* validator state, ledger
nonce source, context and candidate list (in particular any `GetTxPool` output) -/
theorem C35_filtered_not_in_window (v : Val) (ledger : Nat → Nat) (start : Nat) (ctx : Ctx) (xs : List Tx) :
    ∀ t ∈ filterV v ledger start ctx xs, v.base ≤ start ∧ ∀ b ∈ v.blocks.drop (start - v.base), t.hash ∉ b :=
  filterV_window v ledger start xs ctx

/-- per sender the accepted nonces are consecutive from the nonce `Verify` demands first (cached window nonce, else the
ledger's; `0` in the context = unset) — for any validator state and any candidate list, gaps in the pool's raw
output included -/
theorem C35_filtered_consecutive (v : Val) (ledger : Nat → Nat) (start : Nat) (xs : List Tx) (p : Nat) :
    proj p (filterV v ledger start [] xs)
      = List.range' (v.nonceStart ledger p) (proj p (filterV v ledger start [] xs)).length := by
  have h := filterV_run v ledger start p xs []
  have e : startOf v ledger [] p = v.nonceStart ledger p := by simp [startOf, Ctx.read, alookup]
  rw [e] at h; exact h

/-- the filter only drops: the proposal is a sub-list of the `GetTxPool` output -/
theorem C35_filtered_sublist (v : Val) (ledger : Nat → Nat) (start : Nat) (ctx : Ctx) (xs : List Tx) :
    (filterV v ledger start ctx xs).Sublist xs := filterV_sublist v ledger start xs ctx

/-- **Replacement threshold (exact).** Whenever `AddTxList` evicts a pooled transaction `old` — in any pool state, hence
in every history — the new transaction is EIP-155 and `new.GasPrice > old.GasPrice*101/100` in uint64 arithmetic. -/
theorem C35_replace_threshold (p : Pool) (e : VTx) (old : Tx) (h : (addTxList p e).2.1 = some old) :
    e.tx.eip = true ∧ e.tx.price > (old.price * 101 % two64) / 100 := by
  obtain ⟨h1, h2⟩ := addTxList_replaced h
  exact ⟨h1, by simpa [replaces] using h2⟩

/-- … which, as long as `old*101` does not wrap, is a strictly higher gas price: `100*new > 101*old` -/
theorem C35_replace_higher (p : Pool) (e : VTx) (old : Tx) (h : (addTxList p e).2.1 = some old)
    (hno : old.price * 101 < two64) : old.price * 101 < e.tx.price * 100 ∧ old.price < e.tx.price := by
  have := replaces_higher (addTxList_replaced h).2 hno
  exact ⟨this, by omega⟩

/-- EIP-155 transactions enter through `TransactionFromEIP155`, whose `GasPrice` is a uint64 wei price divided by 10^9:
for those the product cannot wrap -/
theorem C35_replace_higher_eip155 (p : Pool) (e : VTx) (old : Tx) (h : (addTxList p e).2.1 = some old)
    (hgwei : old.price ≤ (two64 - 1) / 1000000000) : old.price < e.tx.price :=
  (C35_replace_higher p e old h (by unfold two64 at hgwei ⊢; omega)).2

/-- the same on the submission path of every history state -/
theorem C35_replace_higher_submit (s : Sys) (t : Tx) (lag : Nat) (c : Code) (old : Tx)
    (h : (s.submit t lag).1 = .pool c (some old)) (hgwei : old.price ≤ (two64 - 1) / 1000000000) :
    t.eip = true ∧ old.price < t.price := by
  unfold Sys.submit at h
  simp only at h
  split at h
  · cases h
  · split at h
    · cases h
    · simp only [SubRes.pool.injEq] at h
      have h2 := h.2
      exact ⟨(addTxList_replaced h2).1, C35_replace_higher_eip155 _ _ old h2 hgwei⟩

/-- without the bound the uint64 product wraps and a *lower* price replaces (not reachable through `TransactionFromEIP155`) -/
theorem C35_replace_wrap_witness : replaces 5 182641030432767838 = true ∧ ¬ 5 > 182641030432767838 := by decide

/-! ### The pool's own consistency (all histories) -/

/-- **Two-way consistency of `validTxMap` and `eipTxPool`.** For every history whose transactions are collision free and whose
EIP-155 nonces stay below 2^32-1 (`NonceBound`: `tx.Nonce+1` is computed in uint32 in `cleanCompletedEipTxPool`):
every pooled EIP-155 transaction sits in its sender's list at its nonce; every listed transaction is pooled under its hash;
the lists are strictly nonce-sorted with `key = tx.Nonce`, `payer = sender`; senders are distinct keys; a sender with a
non-empty list has a `userLatestEiptxHeight` record. -/
theorem C35_pool_consistent (acct0 : List (Nat × Nat)) (maxBlocks : Nat) (ops : List Op)
    (hcol : NoCollision (ops.flatMap Op.txs)) (hb : NonceBound (ops.flatMap Op.txs)) (ho : OrdersOK ops) :
    let p := ((Sys.new acct0 maxBlocks).run ops).pool
    (∀ h e, alookup p.valid h = some e → e.tx.eip = true →
      ∃ l, alookup p.eip e.tx.payer = some l ∧ alookup l e.tx.nonce = some e.tx) ∧
    (∀ a l n t, alookup p.eip a = some l → alookup l n = some t → ∃ e, alookup p.valid t.hash = some e ∧ e.tx = t) ∧
    (∀ a l, alookup p.eip a = some l → Sorted l ∧ ∀ n t, alookup l n = some t → t.nonce = n ∧ t.payer = a) ∧
    (p.eip.map (·.1)).Nodup ∧
    (∀ a l, alookup p.eip a = some l → l ≠ [] → (alookup p.user a).isSome = true) := by
  intro p
  have h := (reachable_inv2 acct0 maxBlocks ops hcol hb ho).pool2
  exact ⟨h.fwd, h.bwd, h.slots, h.keys, h.usr⟩

/-- **No nil dereference.** In every reachable state `GetTxPool` (any height, any count, any map order), the proposer and
`RemoveTxsBelowGasPrice` return: `tp.eipTxPool[tx.Payer].Remove(…)` always finds the sender's list (the model outcome
`none` = PANIC is unreachable), and `NextNonce` never dereferences a missing `userLatestEiptxHeight` record. -/
theorem C35_no_panic (acct0 : List (Nat × Nat)) (maxBlocks : Nat) (ops : List Op)
    (hcol : NoCollision (ops.flatMap Op.txs)) (hb : NonceBound (ops.flatMap Op.txs)) (ho : OrdersOK ops)
    (ord : Order) (hord : ord.IsPerm) (byCount : Bool) (h maxTx gasPrice addr : Nat) :
    let s := (Sys.new acct0 maxBlocks).run ops
    (getTxPool s.pool ord byCount h maxTx).isSome = true ∧ (s.propose ord byCount h maxTx).isSome = true ∧
    (removeBelow s.pool gasPrice).isSome = true ∧ (nextNonce s.pool addr).isSome = true := by
  exact no_panic_of_inv (reachable_inv2 acct0 maxBlocks ops hcol hb ho) hcol ord hord byCount h maxTx gasPrice addr

/-- **Raw heading.** Before expiry and truncation, the candidate list of `GetTxPool` restricted to an EVM sender is exactly
the heading of that sender's list: consecutive nonces starting at the lowest pooled nonce of the sender (which need not be
the account nonce — that is what the validator filter is for). -/
theorem C35_raw_heading (acct0 : List (Nat × Nat)) (maxBlocks : Nat) (ops : List Op)
    (hcol : NoCollision (ops.flatMap Op.txs)) (hb : NonceBound (ops.flatMap Op.txs)) (ho : OrdersOK ops)
    (ord : Order) (hord : ord.IsPerm) (s : Nat) :
    let p := ((Sys.new acct0 maxBlocks).run ops).pool
    proj s ((candidates p ord).map (·.tx)) =
      match alookup p.eip s with
      | some l => List.range' l.firstKey l.heading.length
      | none => [] := by
  intro p
  have hi := reachable_inv2 acct0 maxBlocks ops hcol hb ho
  rw [proj_eq, candidates_proj hi.base.pool hi.pool2 ord hord s]
  cases hl : alookup p.eip s with
  | none => rfl
  | some l =>
    simp only
    apply heading_nonces
    intro x hx
    obtain ⟨k, t⟩ := x
    have := (sorted_alookup_iff (hi.pool2.slots s l hl).1 k t).mpr hx
    exact ((hi.pool2.slots s l hl).2 k t this).1

/-- `NonceBound` is needed: with nonce 2^32-1 the uint32 addition `tx.Nonce+1` wraps, `Forward(0)` pops nothing, and the
committed transaction stays in the sender's list although it left `validTxMap` -/
theorem C35_nonce_wrap_witness :
    let t : Tx := ⟨9, true, 0, 4294967295, 1000⟩
    let s := (Sys.new [(0, 4294967295)] 20).run [.submit t 0, .commit [t], .cleanBlk 1]
    s.pool.valid = [] ∧ s.pool.eip = [(0, [(4294967295, t)])] := by decide

/-! ### The raw pool output is not enough -/

/-- the statement the pool alone would have to satisfy: the raw `GetTxPool` list of every history already has, per
sender, consecutive nonces from the account nonce -/
def C35_raw_statement : Prop :=
  ∀ (acct0 : List (Nat × Nat)) (maxBlocks : Nat) (ops : List Op) (ord : Order) (byCount : Bool) (height maxTx : Nat) v old p',
    let s := (Sys.new acct0 maxBlocks).run ops
    getTxPool s.pool ord byCount height maxTx = some (v, old, p') →
    ∀ p, proj p (v.map (·.tx)) = List.range' (acctOf s.acct0 s.chain p) (proj p (v.map (·.tx))).length

def w0 : Tx := ⟨100, true, 0, 0, 1000⟩
def w1 : Tx := ⟨101, true, 0, 1, 1000⟩
def rawOps : List Op := [.submit w0 0, .commit [], .submit w1 0]

/-- after an expiry the raw output has a gap: nonce 0 (verified at height 0) expires at height 1, nonce 1 is returned
alone although the account nonce is 0. Only the filtered statement (`C35_filtered`) holds. -/
theorem C35_pool_raw_partial :
    (getTxPool ((Sys.new [] 20).run rawOps).pool Order.id true 1 60000).map (fun r => (proj 0 (r.1.map (·.tx)), r.2.1))
      = some ([1], [w0]) ∧ acctOf [] ((Sys.new [] 20).run rawOps).chain 0 = 0 := by decide

theorem C35_raw_counterexample : ¬ C35_raw_statement := by
  intro h
  have hg : getTxPool ((Sys.new [] 20).run rawOps).pool Order.id true 1 60000
      = some ([⟨w1, 1, 0⟩], [w0], ⟨[(101, ⟨w1, 1, 0⟩)], [(0, [(1, w1)])], [(0, ⟨0, 0⟩)]⟩) := by decide
  have := h [] 20 rawOps Order.id true 1 60000 _ _ _ hg 0
  revert this
  decide

/-! ### Non-vacuity -/
def o0 : Tx := ⟨7, false, 3, 0, 500⟩
def demoOps : List Op :=
  [.notify 0, .submit w0 0, .submit w1 0, .submit ⟨102, true, 0, 0, 1010⟩ 0, .submit ⟨103, true, 0, 0, 1011⟩ 0,
   .submit o0 0, .commit [⟨103, true, 0, 0, 1011⟩], .notify 1]

example : NoCollision (demoOps.flatMap Op.txs) := by unfold NoCollision; decide
example : Order.id.IsPerm := Order.id_isPerm
example : NonceBound (demoOps.flatMap Op.txs) := by unfold NonceBound two32; decide
example : OrdersOK demoOps := by intro op hop; simp [demoOps] at hop; rcases hop with rfl | rfl | rfl | rfl | rfl | rfl | rfl | rfl <;> (intro ord bc h m hh; rcases hh with hh | hh <;> cases hh)
/-- 1010 does not replace 1000, 1011 does; after the commit of nonce 0 (the pool was not told) the proposal is nonce 1 and
the other-type transaction: the committed transaction is filtered by the window -/
example : (((Sys.new [] 20).run demoOps).propose Order.id true 1 60000).map (fun r => (r.1, r.2.1)) = some (0, [w1, o0]) := by decide
example : (addTxList ((Sys.new [] 20).run [.submit w0 0]).pool ⟨⟨103, true, 0, 0, 1011⟩, 0, 0⟩).2.1 = some w0 := by decide

end OntVerif.Props.C35
