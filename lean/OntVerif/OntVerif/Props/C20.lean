import OntVerif.Proofs.Block
/-!
# C20 — Block encoding round-trips and binds the transaction list

Property theorems only (helper lemmas: `Proofs/Block.lean`, `Proofs/Tx.lean`).  Model: `Model/Block.lean` —
`parseHeader` = `Header.Deserialization`, `parseBlock` = `Block.Deserialization` (`BlockFromRawBytes`),
`serHeader`/`serBlock` = `Serialization`/`ToArray`, `headerHashInput` = what `Header.Hash` hashes,
`computeMerkleRoot` = `common.ComputeMerkleRoot`.  Abstract parameters: `K.canon` (public-key decode + re-encode),
`R` (go-ethereum RLP, only through C19), `hs` (hash functions).

The shipped decoder (`Variant.asShipped`) does **not** re-encode to the input in two situations (both recorded as
low-severity findings: the block hash is not affected):
 * a bookkeeper key blob that `keypair.DeserializePublicKey` accepts but that is not the canonical serialisation;
 * a bookkeeper / signature count `≥ 2^63`: `int(n)` is negative, the loop body never runs, the list is empty.
`Variant.sound` (iterate `n` times, reject non-canonical blobs) satisfies the full statement.
-/
namespace OntVerif.Props.C20
open OntVerif.Util OntVerif.Model.Codec OntVerif.Model.Tx OntVerif.Model.Block
open OntVerif.Proofs.Codec OntVerif.Proofs.Tx OntVerif.Proofs.Block

/-- **No panic** on any byte string, for the header and the block decoder -/
theorem C20_total_header (V : Variant) (K : Keys) (s : Src) (w : s.wf) : parseHeader V K s ≠ .panic := by
  have := parseHeader_spec V K s w
  unfold SpecAt at this
  intro h; rw [h] at this; exact this

theorem C20_total (V : Variant) (K : Keys) (R : Rlp) (hs : Hashes) (s : Src) (w : s.wf) :
    parseBlock V K R hs s ≠ .panic := by
  have := parseBlock_spec V K R hs s w
  unfold SpecAt at this
  intro h; rw [h] at this; exact this

/-- the full round-trip statement for headers -/
def C20_full_statement (V : Variant) : Prop :=
  ∀ (K : Keys) (s : Src) (h : Header) (s' : Src), s.wf → parseHeader V K s = .ok h s' → serHeader h = consumed s s'

/-- **Header round trip, as shipped**: the decoded header re-encodes to the consumed bytes provided every bookkeeper
blob is its own canonical encoding and the two list counts are below `2^63`. -/
theorem C20_header_reencode_partial (K : Keys) (s : Src) (w : s.wf) (h : Header) (s' : Src)
    (hp : parseHeader .asShipped K s = .ok h s')
    (hcanon : h.bookkeepers = h.bkRaw) (hn : h.bkCount < two63) (hm : h.sigCount < two63) :
    serHeader h = consumed s s' := by
  obtain ⟨_, post⟩ := header_post_of_ok w hp
  rw [← seg_eq_consumed]
  exact header_reencode post hcanon (by simp [loopCount, hn]) (by simp [loopCount, hm])

/-- the hypothesis `h.bookkeepers = h.bkRaw` says: every blob on the wire is a fixed point of decode-then-encode -/
theorem C20_canon_hypothesis_meaning (V : Variant) (K : Keys) (s : Src) (w : s.wf) (h : Header) (s' : Src)
    (hp : parseHeader V K s = .ok h s') :
    h.bookkeepers = h.bkRaw ↔ ∀ i (hi : i < h.bkRaw.length), K.canon h.bkRaw[i] = some h.bkRaw[i] := by
  obtain ⟨_, _, _, _, _, hlen, hcan, _⟩ := header_post_of_ok w hp
  constructor
  · intro heq i hi
    have := hcan i hi (by rw [hlen]; exact hi)
    simp only [heq] at this
    exact this
  · intro hall
    apply List.ext_getElem hlen
    intro i h1 h2
    have := hcan i h2 h1
    rw [hall i h2] at this
    exact (Option.some.inj this).symm

/-- **Header round trip, sound variant**: unconditional. -/
theorem C20_sound_full : C20_full_statement .sound := by
  intro K s h s' w hp
  obtain ⟨_, post⟩ := header_post_of_ok w hp
  rw [← seg_eq_consumed]
  exact header_reencode post (post.2.2.2.2.2.2 rfl) rfl rfl

/-- **Block round trip**: header as above, then the u32 count and the `Raw` of every transaction (C19). -/
theorem C20_reencode_partial (K : Keys) (R : Rlp) (hR : R.canonical) (hs : Hashes) (s : Src) (w : s.wf)
    (b : Block) (s' : Src) (hp : parseBlock .asShipped K R hs s = .ok b s')
    (hcanon : b.header.bookkeepers = b.header.bkRaw) (hn : b.header.bkCount < two63) (hm : b.header.sigCount < two63) :
    serBlock b = consumed s s' := by
  obtain ⟨_, s1, adv1, adv2, hpost, hlt, _, _, hseg⟩ := block_post_of_ok w hp
  rw [← seg_eq_consumed, seg_trans adv1 adv2, hseg hR,
    ← header_reencode hpost hcanon (by simp [loopCount, hn]) (by simp [loopCount, hm])]
  unfold serBlock
  rw [Nat.mod_eq_of_lt (by omega), List.append_assoc]

theorem C20_reencode_sound (K : Keys) (R : Rlp) (hR : R.canonical) (hs : Hashes) (s : Src) (w : s.wf)
    (b : Block) (s' : Src) (hp : parseBlock .sound K R hs s = .ok b s') : serBlock b = consumed s s' := by
  obtain ⟨_, s1, adv1, adv2, hpost, hlt, _, _, hseg⟩ := block_post_of_ok w hp
  rw [← seg_eq_consumed, seg_trans adv1 adv2, hseg hR, ← header_reencode hpost (hpost.2.2.2.2.2.2 rfl) rfl rfl]
  unfold serBlock
  rw [Nat.mod_eq_of_lt (by omega), List.append_assoc]

/-- **Root mismatch is rejected**: an accepted block's transaction root is the merkle root of its transactions' hashes. -/
theorem C20_root_checked (V : Variant) (K : Keys) (R : Rlp) (hs : Hashes) (s : Src) (w : s.wf) (b : Block) (s' : Src)
    (hp : parseBlock V K R hs s = .ok b s') :
    b.header.u.txRoot = computeMerkleRoot hs.node (b.txs.map hs.txHash) := by
  obtain ⟨_, s1, _, _, _, _, _, hroot, _⟩ := block_post_of_ok w hp
  exact hroot

/-- **Duplicates are rejected**: the transaction hashes of an accepted block are pairwise different. -/
theorem C20_dup_rejected (V : Variant) (K : Keys) (R : Rlp) (hs : Hashes) (s : Src) (w : s.wf) (b : Block) (s' : Src)
    (hp : parseBlock V K R hs s = .ok b s') : (b.txs.map hs.txHash).Nodup := by
  obtain ⟨_, s1, _, _, _, _, hnd, _, _⟩ := block_post_of_ok w hp
  exact hnd

/-- **The header hash covers exactly the unsigned fields**: its input is the serialisation of the unsigned fields —
(1) two headers with the same unsigned fields are hashed from the same bytes whatever their bookkeepers and signatures
are, (2) two decoded headers that differ in any unsigned field are hashed from different bytes, and (3) the input is
the part of the consumed bytes in front of the bookkeeper list. -/
theorem C20_hash_covers (V : Variant) (K : Keys) (s₁ s₂ : Src) (w₁ : s₁.wf) (w₂ : s₂.wf) (h₁ h₂ : Header) (s₁' s₂' : Src)
    (p₁ : parseHeader V K s₁ = .ok h₁ s₁') (p₂ : parseHeader V K s₂ = .ok h₂ s₂') :
    (h₁.u = h₂.u → headerHashInput h₁ = headerHashInput h₂) ∧
    (headerHashInput h₁ = headerHashInput h₂ → h₁.u = h₂.u) ∧
    (∃ rest, consumed s₁ s₁' = headerHashInput h₁ ++ rest) := by
  obtain ⟨_, post1⟩ := header_post_of_ok w₁ p₁
  obtain ⟨_, post2⟩ := header_post_of_ok w₂ p₂
  refine ⟨fun h => by unfold headerHashInput; rw [h], ?_, ?_⟩
  · intro h
    exact serHeaderU_inj _ _ post1.2.1 post2.2.1 h
  · rw [← seg_eq_consumed, post1.1]
    exact ⟨_, by unfold headerHashInput; rw [List.append_assoc]⟩

/-- a collision of the node hash: two different pairs with the same hash -/
def Collision (node : Bytes → Bytes → Bytes) : Prop := ∃ a b c d, (a ≠ c ∨ b ≠ d) ∧ node a b = node c d

/-- **The transaction root binds the transaction list** (collision-extraction form).  Two duplicate-free hash lists
with the same `ComputeMerkleRoot` are equal, unless one of the explicit ambiguities of this tree is exhibited:
a collision of the node hash; a *leaf equal to an inner node* (a transaction hash that is the hash of a 64-byte pair —
the trees then have different depths); or the all-zero hash as a leaf / node (the root of the empty list).
The duplicate-free hypothesis is what `C20_dup_rejected` provides and is necessary: `[a,b,c]` and `[a,b,c,c]` have the
same root. -/
theorem C20_txroot_binds (node : Bytes → Bytes → Bytes) (xs ys : List Bytes) (hx : xs.Nodup) (hy : ys.Nodup)
    (h : computeMerkleRoot node xs = computeMerkleRoot node ys) :
    xs = ys ∨ Collision node ∨ (∃ x, x ∈ xs ++ ys ∧ ∃ p q, x = node p q) ∨
      (zeroHash ∈ xs ++ ys ∨ ∃ p q, node p q = zeroHash) := by
  by_cases hc : Collision node
  · exact Or.inr (Or.inl hc)
  have inj : NodeInj node := by
    intro a b c d hn
    by_cases hac : a = c
    · by_cases hbd : b = d
      · exact ⟨hac, hbd⟩
      · exact absurd ⟨a, b, c, d, Or.inr hbd, hn⟩ hc
    · exact absurd ⟨a, b, c, d, Or.inl hac, hn⟩ hc
  -- a non-empty list whose root is the zero hash
  have zero_case : ∀ l : List Bytes, l ≠ [] → computeMerkleRoot node l = zeroHash →
      zeroHash ∈ l ∨ ∃ p q, node p q = zeroHash := by
    intro l hne hz
    obtain ⟨k, hk⟩ := root_iter node l hne
    rw [hz] at hk
    cases k with
    | zero => left; show zeroHash ∈ iter node 0 l; rw [hk]; simp
    | succ k =>
      right
      obtain ⟨p, q, hpq⟩ := iter_mem_node node (k+1) (by omega) l zeroHash (by rw [hk]; simp)
      exact ⟨p, q, hpq.symm⟩
  by_cases hxe : xs = []
  · by_cases hye : ys = []
    · left; rw [hxe, hye]
    · right; right; right
      rw [hxe, root_nil] at h
      rcases zero_case ys hye h.symm with hz | hz
      · left; simp [hz]
      · right; exact hz
  · by_cases hye : ys = []
    · right; right; right
      rw [hye, root_nil] at h
      rcases zero_case xs hxe h with hz | hz
      · left; simp [hz]
      · right; exact hz
    · obtain ⟨i, hi⟩ := root_iter node xs hxe
      obtain ⟨j, hj⟩ := root_iter node ys hye
      rw [h] at hi
      rcases iter_eq node inj xs ys hx hy i j (by rw [hi, hj]) with heq | ⟨d, hd, hxd⟩ | ⟨d, hd, hyd⟩
      · exact Or.inl heq
      · right; right; left
        obtain ⟨x, r, hxr⟩ := List.exists_cons_of_ne_nil hxe
        have hmem : x ∈ iter node d ys := by rw [← hxd, hxr]; simp
        exact ⟨x, by rw [hxr]; simp, iter_mem_node node d hd ys x hmem⟩
      · right; right; left
        obtain ⟨y, r, hyr⟩ := List.exists_cons_of_ne_nil hye
        have hmem : y ∈ iter node d xs := by rw [← hyd, hyr]; simp
        exact ⟨y, by rw [hyr]; simp, iter_mem_node node d hd xs y hmem⟩

/-- the duplicate-free hypothesis cannot be dropped: the classic duplicate-last ambiguity -/
theorem C20_dup_last_same_root (node : Bytes → Bytes → Bytes) (a b c : Bytes) :
    computeMerkleRoot node [a, b, c] = computeMerkleRoot node [a, b, c, c] := rfl


/-! ### After `fixes/C20-header-count-wrap.patch` (`Variant.countFixed`): only the key-encoding hypothesis remains -/

theorem C20_header_reencode_countFixed_partial (K : Keys) (s : Src) (w : s.wf) (h : Header) (s' : Src)
    (hp : parseHeader .countFixed K s = .ok h s') (hcanon : h.bookkeepers = h.bkRaw) :
    serHeader h = consumed s s' := by
  obtain ⟨_, post⟩ := header_post_of_ok w hp
  rw [← seg_eq_consumed]
  exact header_reencode post hcanon rfl rfl

theorem C20_reencode_countFixed_partial (K : Keys) (R : Rlp) (hR : R.canonical) (hs : Hashes) (s : Src) (w : s.wf)
    (b : Block) (s' : Src) (hp : parseBlock .countFixed K R hs s = .ok b s')
    (hcanon : b.header.bookkeepers = b.header.bkRaw) : serBlock b = consumed s s' := by
  obtain ⟨_, s1, adv1, adv2, hpost, hlt, _, _, hseg⟩ := block_post_of_ok w hp
  rw [← seg_eq_consumed, seg_trans adv1 adv2, hseg hR, ← header_reencode hpost hcanon rfl rfl]
  unfold serBlock
  rw [Nat.mod_eq_of_lt (by omega), List.append_assoc]

/-! ### `RawHeader.Deserialization` -/

theorem C20_rawheader_total (V : Variant) (s : Src) (w : s.wf) : parseRawHeader V s ≠ .panic := by
  have := parseRawHeader_spec V s w
  unfold SpecAt at this
  intro h; rw [h] at this; exact this

/-- `RawHeader.Payload` is exactly the consumed bytes (so `RawHeader.Serialization` reproduces the input) -/
theorem C20_rawheader_payload (V : Variant) (s : Src) (w : s.wf) (r : RawHeader) (s' : Src)
    (hp : parseRawHeader V s = .ok r s') :
    r.payload = consumed s s' ∧ s'.bs = s.bs ∧ s.off ≤ s'.off ∧ s'.off ≤ s.bs.length := by
  have := parseRawHeader_spec V s w
  unfold SpecAt at this
  rw [hp] at this
  obtain ⟨adv, hpl⟩ := this
  exact ⟨hpl, adv.1, adv.2.1, by have := adv.2.2; rw [adv.1] at this; exact this⟩

/-! ### `CrossChainMsg.Deserialization` -/

/-- the repaired decoder never panics -/
theorem C20_ccm_total (V : Variant) (hV : V ≠ .asShipped) (s : Src) (w : s.wf) : parseCCMsg V s ≠ .panic := by
  have : SpecAt (parseCCMsg V) s (fun _ _ => True) := by
    unfold parseCCMsg
    apply spec_bind' (parseCCMPrefix_spec s w)
    intro a s1 adv1 _
    exact spec_true (parseCCMRest_spec V a (fun h => absurd h hV) s1 (adv1.wf w))
  unfold SpecAt at this
  intro h; rw [h] at this; exact this

/-- the shipped decoder panics only through `make([][]byte, 0, sigLen)`: the four leading fields were read and the
count times 24 exceeds `maxAlloc` -/
theorem C20_ccm_total_partial (s : Src) (w : s.wf) (hp : parseCCMsg .asShipped s = .panic) :
    ∃ a s1, parseCCMPrefix s = .ok a s1 ∧ a.2.2.2 * sliceHeaderSize > maxAlloc := by
  have hpre := parseCCMPrefix_spec s w
  unfold SpecAt at hpre
  unfold parseCCMsg at hp
  rw [bind_eval] at hp
  cases hq : parseCCMPrefix s with
  | ok a s1 =>
    rw [hq] at hp hpre
    simp only at hp
    refine ⟨a, s1, rfl, ?_⟩
    by_cases hbig : makeslicePanics a.2.2.2 = true
    · unfold makeslicePanics at hbig; simpa using hbig
    · exfalso
      have := parseCCMRest_spec .asShipped a (fun _ => by simpa using hbig) s1 (hpre.1.wf w)
      unfold SpecAt at this
      rw [hp] at this
      exact this
  | err e => rw [hq] at hp; simp at hp
  | panic => rw [hq] at hpre; exact absurd hpre (by simp)

/-- **Witness** (`crosschainmsg-count-makeslice-panic`): 37 arbitrary bytes followed by the count 2^63 -/
theorem C20_ccm_asShipped_panics :
    (match parseCCMsg .asShipped ⟨List.replicate 37 0 ++ [0xff, 0, 0, 0, 0, 0, 0, 0, 0x80], 0⟩ with
      | .panic => true
      | _ => false) = true := by decide +kernel

/-- an accepted message re-encodes to the consumed bytes (all variants) -/
theorem C20_ccm_reencode (V : Variant) (s : Src) (w : s.wf) (m : CCMsg) (s' : Src)
    (hp : parseCCMsg V s = .ok m s') : serCCMsg m = consumed s s' := by
  have hpre := parseCCMPrefix_spec s w
  unfold SpecAt at hpre
  unfold parseCCMsg at hp
  rw [bind_eval] at hp
  cases hq : parseCCMPrefix s with
  | ok a s1 =>
    rw [hq] at hp hpre
    simp only at hp
    obtain ⟨adv1, hseg1⟩ := hpre
    have hok : V = .asShipped → makeslicePanics a.2.2.2 = false := by
      intro hV
      subst hV
      cases hb : makeslicePanics a.2.2.2
      · rfl
      · unfold parseCCMRest at hp
        simp [hb] at hp
    have := parseCCMRest_spec V a hok s1 (adv1.wf w)
    unfold SpecAt at this
    rw [hp] at this
    obtain ⟨adv2, hseg2, hl, hv, hh, hr⟩ := this
    rw [← seg_eq_consumed, seg_trans adv1 adv2, hseg1, hseg2]
    unfold serCCMsg serList
    rw [hl, hv, hh, hr]
  | err e => rw [hq] at hp; simp at hp
  | panic => rw [hq] at hp; simp at hp

/-! ### Witnesses: the as-shipped decoder violates the full statement (these are also the replay lines of the two
recorded findings), and the hypotheses of the theorems above are satisfiable -/

/-- a key library that knows one key with two encodings: `[4,1,2,3]` (alternative) and `[2,1]` (canonical) -/
def exKeys : Keys := ⟨fun b => if b = [4, 1, 2, 3] ∨ b = [2, 1] then some [2, 1] else none⟩

/-- unsigned part: height 7, empty consensus payload -/
def exUnsigned : Bytes := List.replicate 104 0 ++ [7, 0, 0, 0] ++ List.replicate 8 0 ++ [0] ++ List.replicate 20 0

/-- one bookkeeper in the alternative encoding, one signature -/
def exHdrAlt : Bytes := exUnsigned ++ [1, 4, 4, 1, 2, 3] ++ [1, 2, 0xaa, 0xbb]
/-- the same header with the canonical encoding of the same key -/
def exHdrCanon : Bytes := exUnsigned ++ [1, 2, 2, 1] ++ [1, 2, 0xaa, 0xbb]
/-- bookkeeper count 2^63 (`int(n) < 0`), then signature count 0 -/
def exHdrWrap : Bytes := exUnsigned ++ [0xff, 0, 0, 0, 0, 0, 0, 0, 0x80] ++ [0]

theorem C20_witness_alt_eval : (match parseHeader .asShipped exKeys ⟨exHdrAlt, 0⟩ with
      | .ok h s' => serHeader h != consumed ⟨exHdrAlt, 0⟩ s' && s'.off == exHdrAlt.length && h.bookkeepers == [[2, 1]]
      | _ => false) = true := by decide +kernel

theorem C20_witness_count_eval : (match parseHeader .asShipped exKeys ⟨exHdrWrap, 0⟩ with
      | .ok h s' => serHeader h != consumed ⟨exHdrWrap, 0⟩ s' && s'.off == exHdrWrap.length && h.bookkeepers == []
      | _ => false) = true := by decide +kernel

theorem C20_witness_alt_wf : (⟨exHdrAlt, 0⟩ : Src).wf := ⟨Nat.zero_le _, by decide +kernel⟩
theorem C20_witness_count_wf : (⟨exHdrWrap, 0⟩ : Src).wf := ⟨Nat.zero_le _, by decide +kernel⟩

/-- **Counterexample 1** (`noncanonical-bookkeeper-key-reencode`): a header with a bookkeeper blob in an alternative
encoding is accepted and re-encodes to different bytes. -/
theorem C20_asShipped_counterexample : ¬ C20_full_statement .asShipped := by
  intro hfull
  have key := C20_witness_alt_eval
  cases hp : parseHeader .asShipped exKeys ⟨exHdrAlt, 0⟩ with
  | ok h s' =>
    rw [hp] at key
    have := hfull exKeys ⟨exHdrAlt, 0⟩ h s' C20_witness_alt_wf hp
    simp [this] at key
  | err e => rw [hp] at key; simp at key
  | panic => rw [hp] at key; simp at key

/-- **Counterexample 2** (`header-list-count-int-wrap-reencode`): all blobs canonical (there are none), but the
bookkeeper count `2^63` is accepted as "no bookkeepers" and re-encoded as `00`. -/
theorem C20_asShipped_counterexample_count :
    ¬ (∀ (K : Keys) (s : Src) (h : Header) (s' : Src), s.wf → parseHeader .asShipped K s = .ok h s' →
        h.bookkeepers = h.bkRaw → serHeader h = consumed s s') := by
  intro hfull
  have key := C20_witness_count_eval
  cases hp : parseHeader .asShipped exKeys ⟨exHdrWrap, 0⟩ with
  | ok h s' =>
    rw [hp] at key
    obtain ⟨_, post⟩ := header_post_of_ok (s := ⟨exHdrWrap, 0⟩) C20_witness_count_wf hp
    have hb : h.bookkeepers = [] := by
      simp only [Bool.and_eq_true, beq_iff_eq] at key
      exact key.2
    have hraw : h.bkRaw = [] := by
      have := post.2.2.2.2.1
      rw [hb] at this
      exact List.eq_nil_of_length_eq_zero this.symm
    have := hfull exKeys ⟨exHdrWrap, 0⟩ h s' C20_witness_count_wf hp (by rw [hb, hraw])
    simp [this] at key
  | err e => rw [hp] at key; simp at key
  | panic => rw [hp] at key; simp at key

/-- non-vacuity of `C20_header_reencode_partial`: a header that satisfies all its hypotheses -/
example : (match parseHeader .asShipped exKeys ⟨exHdrCanon, 0⟩ with
      | .ok h s' => h.bookkeepers == h.bkRaw && decide (h.bkCount < two63) && decide (h.sigCount < two63) &&
          h.sigData == [[0xaa, 0xbb]] && s'.off == exHdrCanon.length && h.u.height == 7
      | _ => false) = true := by decide +kernel

/-- the sound variant rejects both witnesses (non-canonical blob; count read literally: the next byte is not a key) -/
example : (match parseHeader .sound exKeys ⟨exHdrAlt, 0⟩, parseHeader .sound exKeys ⟨exHdrWrap, 0⟩ with
      | .err .invalid, .err .invalid => true
      | _, _ => false) = true := by decide +kernel

/-- non-vacuity of the block theorems: a block with an empty transaction list (root = zero hash) is accepted -/
def exHashes : Hashes := ⟨fun t => t.hashInput, fun a b => a ++ b, fun x => x⟩
def exBlock : Bytes := List.replicate 137 0 ++ [0, 0] ++ [0, 0, 0, 0] ++ [9]
example : (match parseBlock .asShipped exKeys ⟨fun _ => .error .invalid⟩ exHashes ⟨exBlock, 0⟩ with
      | .ok b s' => b.txs.isEmpty && s'.off == 143 && b.header.u.txRoot == zeroHash
      | _ => false) = true := by decide +kernel

/-- duplicate-free lists with the same root and a collision-free node function are equal: a concrete instance with an
injective `node` (concatenation of 1-byte hashes) where `C20_txroot_binds` yields its first disjunct -/
example : computeMerkleRoot (fun a b => a ++ b) [[1], [2], [3]] ≠ computeMerkleRoot (fun a b => a ++ b) [[1], [3], [2]] := by
  decide

end OntVerif.Props.C20
