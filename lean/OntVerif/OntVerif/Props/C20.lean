import OntVerif.Proofs.BlockRt
/-!
# C20 — Block encoding round-trips and binds the transaction list

Property theorems only (helper lemmas: `Proofs/Block.lean`, `Proofs/Tx.lean`).  Model: `Model/Block.lean` —
`parseHeader` = `Header.Deserialization`, `parseBlock` = `Block.Deserialization` (`BlockFromRawBytes`),
`serHeader`/`serBlock` = `Serialization`/`ToArray`, `headerHashInput` = what `Header.Hash` hashes,
`computeMerkleRoot` = `common.ComputeMerkleRoot`.  Abstract parameters: `K.canon` (public-key decode + re-encode),
`R` (go-ethereum RLP, only through C19), `hs` (hash functions).

The shipped decoder (`Variant.asShipped`) does **not** re-encode to the input for a bookkeeper key blob that
`keypair.DeserializePublicKey` accepts but that is not the canonical serialisation (recorded low-severity finding: the
block hash is not affected).  `Variant.sound` (reject non-canonical blobs) satisfies the full statement.  Two further
defects found here are repaired in /repo and no longer in the model: list counts `≥ 2^63` (`int(n) < 0`: zero
iterations) and the `makeslice` panic of `CrossChainMsg.Deserialization`; their witnesses stay in `corpus/C20/`.
-/
namespace OntVerif.Props.C20
open OntVerif.Util OntVerif.Model.Codec OntVerif.Model.Tx OntVerif.Model.Block
open OntVerif.Proofs.Codec OntVerif.Proofs.Tx OntVerif.Proofs.Block

/-- **No panic** on any byte string, for the header and the block decoder -/
theorem C20_total_header (V : Variant) (K : Keys) (s : Src) (w : s.wf) : parseHeader V K s ≠ .panic := by
  have := parseHeader_spec V K s w
  unfold SpecAt at this
  intro h; rw [h] at this; exact this

theorem C20_total (V : Variant) (K : Keys) (R : Rlp) (hs : Hashes) (s : Src) (w : s.wf) :
    parseBlock V K R hs s ≠ .panic := by
  have := parseBlock_spec V K R hs s w
  unfold SpecAt at this
  intro h; rw [h] at this; exact this

/-- the full round-trip statement for headers -/
def C20_full_statement (V : Variant) : Prop :=
  ∀ (K : Keys) (s : Src) (h : Header) (s' : Src), s.wf → parseHeader V K s = .ok h s' → serHeader h = consumed s s'

/-- **Header round trip, as shipped**: the decoded header re-encodes to the consumed bytes provided every bookkeeper
blob is its own canonical encoding. -/
theorem C20_header_reencode_partial (K : Keys) (s : Src) (w : s.wf) (h : Header) (s' : Src)
    (hp : parseHeader .asShipped K s = .ok h s')
    (hcanon : h.bookkeepers = h.bkRaw) :
    serHeader h = consumed s s' := by
  obtain ⟨_, post⟩ := header_post_of_ok w hp
  rw [← seg_eq_consumed]
  exact header_reencode post hcanon

/-- the hypothesis `h.bookkeepers = h.bkRaw` says: every blob on the wire is a fixed point of decode-then-encode -/
theorem C20_canon_hypothesis_meaning (V : Variant) (K : Keys) (s : Src) (w : s.wf) (h : Header) (s' : Src)
    (hp : parseHeader V K s = .ok h s') :
    h.bookkeepers = h.bkRaw ↔ ∀ i (hi : i < h.bkRaw.length), K.canon h.bkRaw[i] = some h.bkRaw[i] := by
  obtain ⟨_, _, _, _, _, hlen, hcan, _⟩ := header_post_of_ok w hp
  constructor
  · intro heq i hi
    have := hcan i hi (by rw [hlen]; exact hi)
    simp only [heq] at this
    exact this
  · intro hall
    apply List.ext_getElem hlen
    intro i h1 h2
    have := hcan i h2 h1
    rw [hall i h2] at this
    exact (Option.some.inj this).symm

/-- **Header round trip, sound variant**: unconditional. -/
theorem C20_sound_full : C20_full_statement .sound := by
  intro K s h s' w hp
  obtain ⟨_, post⟩ := header_post_of_ok w hp
  rw [← seg_eq_consumed]
  exact header_reencode post (post.2.2.2.2.2.2 rfl)

/-- **Block round trip**: header as above, then the u32 count and the `Raw` of every transaction (C19). -/
theorem C20_reencode_partial (K : Keys) (R : Rlp) (hR : R.canonical) (hs : Hashes) (s : Src) (w : s.wf)
    (b : Block) (s' : Src) (hp : parseBlock .asShipped K R hs s = .ok b s')
    (hcanon : b.header.bookkeepers = b.header.bkRaw) :
    serBlock b = consumed s s' := by
  obtain ⟨_, s1, adv1, adv2, hpost, hlt, _, _, hseg⟩ := block_post_of_ok w hp
  rw [← seg_eq_consumed, seg_trans adv1 adv2, hseg hR,
    ← header_reencode hpost hcanon]
  unfold serBlock
  rw [Nat.mod_eq_of_lt (by omega), List.append_assoc]

theorem C20_reencode_sound (K : Keys) (R : Rlp) (hR : R.canonical) (hs : Hashes) (s : Src) (w : s.wf)
    (b : Block) (s' : Src) (hp : parseBlock .sound K R hs s = .ok b s') : serBlock b = consumed s s' := by
  obtain ⟨_, s1, adv1, adv2, hpost, hlt, _, _, hseg⟩ := block_post_of_ok w hp
  rw [← seg_eq_consumed, seg_trans adv1 adv2, hseg hR, ← header_reencode hpost (hpost.2.2.2.2.2.2 rfl)]
  unfold serBlock
  rw [Nat.mod_eq_of_lt (by omega), List.append_assoc]

/-- **Root mismatch is rejected**: an accepted block's transaction root is the merkle root of its transactions' hashes. -/
theorem C20_root_checked (V : Variant) (K : Keys) (R : Rlp) (hs : Hashes) (s : Src) (w : s.wf) (b : Block) (s' : Src)
    (hp : parseBlock V K R hs s = .ok b s') :
    b.header.u.txRoot = computeMerkleRoot hs.node (b.txs.map hs.txHash) := by
  obtain ⟨_, s1, _, _, _, _, _, hroot, _⟩ := block_post_of_ok w hp
  exact hroot

/-- **Duplicates are rejected**: the transaction hashes of an accepted block are pairwise different. -/
theorem C20_dup_rejected (V : Variant) (K : Keys) (R : Rlp) (hs : Hashes) (s : Src) (w : s.wf) (b : Block) (s' : Src)
    (hp : parseBlock V K R hs s = .ok b s') : (b.txs.map hs.txHash).Nodup := by
  obtain ⟨_, s1, _, _, _, _, hnd, _, _⟩ := block_post_of_ok w hp
  exact hnd

/-- **The header hash covers exactly the unsigned fields**: its input is the serialisation of the unsigned fields —
(1) two headers with the same unsigned fields are hashed from the same bytes whatever their bookkeepers and signatures
are, (2) two decoded headers that differ in any unsigned field are hashed from different bytes, and (3) the input is
the part of the consumed bytes in front of the bookkeeper list. -/
theorem C20_hash_covers (V : Variant) (K : Keys) (s₁ s₂ : Src) (w₁ : s₁.wf) (w₂ : s₂.wf) (h₁ h₂ : Header) (s₁' s₂' : Src)
    (p₁ : parseHeader V K s₁ = .ok h₁ s₁') (p₂ : parseHeader V K s₂ = .ok h₂ s₂') :
    (h₁.u = h₂.u → headerHashInput h₁ = headerHashInput h₂) ∧
    (headerHashInput h₁ = headerHashInput h₂ → h₁.u = h₂.u) ∧
    (∃ rest, consumed s₁ s₁' = headerHashInput h₁ ++ rest) := by
  obtain ⟨_, post1⟩ := header_post_of_ok w₁ p₁
  obtain ⟨_, post2⟩ := header_post_of_ok w₂ p₂
  refine ⟨fun h => by unfold headerHashInput; rw [h], ?_, ?_⟩
  · intro h
    exact serHeaderU_inj _ _ post1.2.1 post2.2.1 h
  · rw [← seg_eq_consumed, post1.1]
    exact ⟨_, by unfold headerHashInput; rw [List.append_assoc]⟩

/-- a collision of the node hash: two different pairs with the same hash -/
def Collision (node : Bytes → Bytes → Bytes) : Prop := ∃ a b c d, (a ≠ c ∨ b ≠ d) ∧ node a b = node c d

/-- **The transaction root binds the transaction list** (collision-extraction form).  Two duplicate-free hash lists
with the same `ComputeMerkleRoot` are equal, unless one of the explicit ambiguities of this tree is exhibited:
a collision of the node hash; a *leaf equal to an inner node* (a transaction hash that is the hash of a 64-byte pair —
the trees then have different depths); or the all-zero hash as a leaf / node (the root of the empty list).
The duplicate-free hypothesis is what `C20_dup_rejected` provides and is necessary: `[a,b,c]` and `[a,b,c,c]` have the
same root. -/
theorem C20_txroot_binds (node : Bytes → Bytes → Bytes) (xs ys : List Bytes) (hx : xs.Nodup) (hy : ys.Nodup)
    (h : computeMerkleRoot node xs = computeMerkleRoot node ys) :
    xs = ys ∨ Collision node ∨ (∃ x, x ∈ xs ++ ys ∧ ∃ p q, x = node p q) ∨
      (zeroHash ∈ xs ++ ys ∨ ∃ p q, node p q = zeroHash) := by
  by_cases hc : Collision node
  · exact Or.inr (Or.inl hc)
  have inj : NodeInj node := by
    intro a b c d hn
    by_cases hac : a = c
    · by_cases hbd : b = d
      · exact ⟨hac, hbd⟩
      · exact absurd ⟨a, b, c, d, Or.inr hbd, hn⟩ hc
    · exact absurd ⟨a, b, c, d, Or.inl hac, hn⟩ hc
  -- a non-empty list whose root is the zero hash
  have zero_case : ∀ l : List Bytes, l ≠ [] → computeMerkleRoot node l = zeroHash →
      zeroHash ∈ l ∨ ∃ p q, node p q = zeroHash := by
    intro l hne hz
    obtain ⟨k, hk⟩ := root_iter node l hne
    rw [hz] at hk
    cases k with
    | zero => left; show zeroHash ∈ iter node 0 l; rw [hk]; simp
    | succ k =>
      right
      obtain ⟨p, q, hpq⟩ := iter_mem_node node (k+1) (by omega) l zeroHash (by rw [hk]; simp)
      exact ⟨p, q, hpq.symm⟩
  by_cases hxe : xs = []
  · by_cases hye : ys = []
    · left; rw [hxe, hye]
    · right; right; right
      rw [hxe, root_nil] at h
      rcases zero_case ys hye h.symm with hz | hz
      · left; simp [hz]
      · right; exact hz
  · by_cases hye : ys = []
    · right; right; right
      rw [hye, root_nil] at h
      rcases zero_case xs hxe h with hz | hz
      · left; simp [hz]
      · right; exact hz
    · obtain ⟨i, hi⟩ := root_iter node xs hxe
      obtain ⟨j, hj⟩ := root_iter node ys hye
      rw [h] at hi
      rcases iter_eq node inj xs ys hx hy i j (by rw [hi, hj]) with heq | ⟨d, hd, hxd⟩ | ⟨d, hd, hyd⟩
      · exact Or.inl heq
      · right; right; left
        obtain ⟨x, r, hxr⟩ := List.exists_cons_of_ne_nil hxe
        have hmem : x ∈ iter node d ys := by rw [← hxd, hxr]; simp
        exact ⟨x, by rw [hxr]; simp, iter_mem_node node d hd ys x hmem⟩
      · right; right; left
        obtain ⟨y, r, hyr⟩ := List.exists_cons_of_ne_nil hye
        have hmem : y ∈ iter node d xs := by rw [← hyd, hyr]; simp
        exact ⟨y, by rw [hyr]; simp, iter_mem_node node d hd xs y hmem⟩

/-- the duplicate-free hypothesis cannot be dropped: the classic duplicate-last ambiguity -/
theorem C20_dup_last_same_root (node : Bytes → Bytes → Bytes) (a b c : Bytes) :
    computeMerkleRoot node [a, b, c] = computeMerkleRoot node [a, b, c, c] := rfl


/-! ### The converse direction: the encoding of a canonical block is accepted and decodes to that block -/

/-- **Header round trip, converse**: a header whose unsigned fields have the wire widths (`WfHU`: uint32 version /
timestamp / height, uint64 consensus data, 32-byte hashes, 20-byte next bookkeeper, payload shorter than 2^64), whose
bookkeeper blobs are fixed points of key decode-then-encode (`K.canon k = some k`) and whose wire-level counts are the
list lengths (`HeaderCanon`), is decoded from its own encoding — anywhere in any buffer, by both variants — to exactly
itself, consuming exactly the encoding. -/
theorem C20_roundtrip_header (V : Variant) (K : Keys) (h : Header) (hc : HeaderCanon K h)
    (pre rest : Bytes) (hlen : (pre ++ serHeader h ++ rest).length < two64) :
    parseHeader V K ⟨pre ++ serHeader h ++ rest, pre.length⟩
      = .ok h ⟨pre ++ serHeader h ++ rest, pre.length + (serHeader h).length⟩ :=
  fwd_parseHeader V K h hc (by simp only [List.length_append] at hlen; omega) _ _ hlen (by simp) (seg_of_append pre _ rest)

/-- **Block round trip, converse**: a block with a canonical header, well-formed deploy/invoke transactions
(`wfFields`, C19), fewer than 2^32 of them, pairwise different transaction hashes and the matching merkle root is
decoded from `serBlock b` to exactly `b`. -/
theorem C20_roundtrip (V : Variant) (K : Keys) (R : Rlp) (hs : Hashes) (b : Block)
    (hh : HeaderCanon K b.header)
    (htx : ∀ t ∈ b.txs, ∃ u sigs, wfFields u sigs = true ∧ t = mkTx u sigs)
    (hn : b.txs.length < 256 ^ 4) (hnd : (b.txs.map hs.txHash).Nodup)
    (hroot : b.header.u.txRoot = computeMerkleRoot hs.node (b.txs.map hs.txHash))
    (pre rest : Bytes) (hlen : (pre ++ serBlock b ++ rest).length < two64) :
    parseBlock V K R hs ⟨pre ++ serBlock b ++ rest, pre.length⟩
      = .ok b ⟨pre ++ serBlock b ++ rest, pre.length + (serBlock b).length⟩ := by
  have hc : BlockCanon K R hs b := by
    refine ⟨hh, ?_, hn, hnd, hroot⟩
    intro t ht
    obtain ⟨u, sigs, hw, rfl⟩ := htx t ht
    exact fwd_of_wfFields R u sigs hw
  exact fwd_parseBlock V K R hs b hc (by simp only [List.length_append] at hlen; omega) _ _ hlen (by simp)
    (seg_of_append pre _ rest)

/-- the hypotheses of `C20_roundtrip` are exactly what the decoder establishes when every key blob is canonical:
an accepted block (Ontology-shape transactions) with canonical blobs satisfies them, so decode ∘ encode ∘ decode = decode -/
theorem C20_decoded_is_canon (V : Variant) (K : Keys) (R : Rlp) (hs : Hashes) (s : Src) (w : s.wf) (b : Block) (s' : Src)
    (hp : parseBlock V K R hs s = .ok b s') (hcanon : b.header.bookkeepers = b.header.bkRaw) :
    HeaderCanon K b.header ∧ b.txs.length < 256 ^ 4 ∧ (b.txs.map hs.txHash).Nodup ∧
    b.header.u.txRoot = computeMerkleRoot hs.node (b.txs.map hs.txHash) := by
  obtain ⟨_, s1, _, _, hpost, hlt, hnd, hroot, _⟩ := block_post_of_ok w hp
  obtain ⟨_, hu, hbl, hsl, hlen, hcan, _⟩ := hpost
  refine ⟨⟨hu, ?_, hcanon.symm, by rw [hcanon, hbl], hsl.symm⟩, hlt, hnd, hroot⟩
  intro k hk
  obtain ⟨i, hi, rfl⟩ := List.getElem_of_mem hk
  have := hcan i (by rw [← hlen]; exact hi) hi
  simp only [hcanon] at this ⊢
  exact this

/-! ### `RawHeader.Deserialization` -/

theorem C20_rawheader_total (s : Src) (w : s.wf) : parseRawHeader s ≠ .panic := by
  have := parseRawHeader_spec s w
  unfold SpecAt at this
  intro h; rw [h] at this; exact this

/-- `RawHeader.Payload` is exactly the consumed bytes (so `RawHeader.Serialization` reproduces the input) -/
theorem C20_rawheader_payload (s : Src) (w : s.wf) (r : RawHeader) (s' : Src)
    (hp : parseRawHeader s = .ok r s') :
    r.payload = consumed s s' ∧ s'.bs = s.bs ∧ s.off ≤ s'.off ∧ s'.off ≤ s.bs.length := by
  have := parseRawHeader_spec s w
  unfold SpecAt at this
  rw [hp] at this
  obtain ⟨adv, hpl⟩ := this
  exact ⟨hpl, adv.1, adv.2.1, by have := adv.2.2; rw [adv.1] at this; exact this⟩

/-! ### `CrossChainMsg.Deserialization` -/

theorem C20_ccm_total (s : Src) (w : s.wf) : parseCCMsg s ≠ .panic := by
  have := parseCCMsg_spec s w
  unfold SpecAt at this
  intro h; rw [h] at this; exact this

/-- an accepted message re-encodes to the consumed bytes -/
theorem C20_ccm_reencode (s : Src) (w : s.wf) (m : CCMsg) (s' : Src)
    (hp : parseCCMsg s = .ok m s') : serCCMsg m = consumed s s' := by
  have := parseCCMsg_spec s w
  unfold SpecAt at this
  rw [hp] at this
  rw [← seg_eq_consumed, this.2]

/-! ### Witnesses: the as-shipped decoder violates the full statement (these are also the replay lines of the two
recorded findings), and the hypotheses of the theorems above are satisfiable -/

/-- a key library that knows one key with two encodings: `[4,1,2,3]` (alternative) and `[2,1]` (canonical) -/
def exKeys : Keys := ⟨fun b => if b = [4, 1, 2, 3] ∨ b = [2, 1] then some [2, 1] else none⟩

/-- unsigned part: height 7, empty consensus payload -/
def exUnsigned : Bytes := List.replicate 104 0 ++ [7, 0, 0, 0] ++ List.replicate 8 0 ++ [0] ++ List.replicate 20 0

/-- one bookkeeper in the alternative encoding, one signature -/
def exHdrAlt : Bytes := exUnsigned ++ [1, 4, 4, 1, 2, 3] ++ [1, 2, 0xaa, 0xbb]
/-- the same header with the canonical encoding of the same key -/
def exHdrCanon : Bytes := exUnsigned ++ [1, 2, 2, 1] ++ [1, 2, 0xaa, 0xbb]
theorem C20_witness_alt_eval : (match parseHeader .asShipped exKeys ⟨exHdrAlt, 0⟩ with
      | .ok h s' => serHeader h != consumed ⟨exHdrAlt, 0⟩ s' && s'.off == exHdrAlt.length && h.bookkeepers == [[2, 1]]
      | _ => false) = true := by decide +kernel

theorem C20_witness_alt_wf : (⟨exHdrAlt, 0⟩ : Src).wf := ⟨Nat.zero_le _, by decide +kernel⟩

/-- **Counterexample 1** (`noncanonical-bookkeeper-key-reencode`): a header with a bookkeeper blob in an alternative
encoding is accepted and re-encodes to different bytes. -/
theorem C20_asShipped_counterexample : ¬ C20_full_statement .asShipped := by
  intro hfull
  have key := C20_witness_alt_eval
  cases hp : parseHeader .asShipped exKeys ⟨exHdrAlt, 0⟩ with
  | ok h s' =>
    rw [hp] at key
    have := hfull exKeys ⟨exHdrAlt, 0⟩ h s' C20_witness_alt_wf hp
    simp [this] at key
  | err e => rw [hp] at key; simp at key
  | panic => rw [hp] at key; simp at key

/-- non-vacuity of `C20_header_reencode_partial`: a header that satisfies all its hypotheses -/
example : (match parseHeader .asShipped exKeys ⟨exHdrCanon, 0⟩ with
      | .ok h s' => h.bookkeepers == h.bkRaw && h.sigData == [[0xaa, 0xbb]] && s'.off == exHdrCanon.length && h.u.height == 7
      | _ => false) = true := by decide +kernel

/-- the sound variant rejects the witness; a count of 2^63 is read literally by both variants (the next byte is not a key) -/
example : (match parseHeader .sound exKeys ⟨exHdrAlt, 0⟩,
      parseHeader .asShipped exKeys ⟨exUnsigned ++ [0xff, 0, 0, 0, 0, 0, 0, 0, 0x80] ++ [0], 0⟩ with
      | .err .invalid, .err .invalid => true
      | _, _ => false) = true := by decide +kernel

/-- `RawHeader` and `CrossChainMsg` accept concrete inputs -/
example : (match parseRawHeader ⟨exHdrAlt, 0⟩ with
      | .ok r s' => r.height == 7 && r.payload == exHdrAlt && s'.off == exHdrAlt.length
      | _ => false) = true := by decide +kernel

example : (match parseCCMsg ⟨List.replicate 37 0 ++ [1, 2, 0xaa, 0xbb, 9], 0⟩ with
      | .ok m s' => m.sigData == [[0xaa, 0xbb]] && s'.off == 41
      | _ => false) = true := by decide +kernel

/-- non-vacuity of the block theorems: a block with an empty transaction list (root = zero hash) is accepted -/
def exHashes : Hashes := ⟨fun t => t.hashInput, fun a b => a ++ b, fun x => x⟩
def exBlock : Bytes := List.replicate 137 0 ++ [0, 0] ++ [0, 0, 0, 0] ++ [9]
example : (match parseBlock .asShipped exKeys ⟨fun _ => .error .invalid⟩ exHashes ⟨exBlock, 0⟩ with
      | .ok b s' => b.txs.isEmpty && s'.off == 143 && b.header.u.txRoot == zeroHash
      | _ => false) = true := by decide +kernel

/-- duplicate-free lists with the same root and a collision-free node function are equal: a concrete instance with an
injective `node` (concatenation of 1-byte hashes) where `C20_txroot_binds` yields its first disjunct -/
example : computeMerkleRoot (fun a b => a ++ b) [[1], [2], [3]] ≠ computeMerkleRoot (fun a b => a ++ b) [[1], [3], [2]] := by
  decide

/-- non-vacuity of `C20_roundtrip_header` / `C20_roundtrip`: a concrete canonical header and an empty block around it -/
def exHeader : Header :=
  ⟨⟨0, List.replicate 32 0, zeroHash, List.replicate 32 0, 0, 7, 0, [], List.replicate 20 0⟩,
   [[2, 1]], [[0xaa, 0xbb]], 1, [[2, 1]], 1⟩

example : HeaderCanon exKeys exHeader := by
  refine ⟨⟨by decide, by decide, by decide, by decide, by decide, by decide, by decide, by decide, by decide⟩, ?_, rfl, rfl, rfl⟩
  intro k hk
  have : k = [2, 1] := by simpa [exHeader] using hk
  subst this
  decide

example : serHeader exHeader = exHdrCanon := by decide +kernel

example : (∀ t ∈ (⟨exHeader, []⟩ : Block).txs, ∃ u sigs, wfFields u sigs = true ∧ t = mkTx u sigs) ∧
    ((⟨exHeader, []⟩ : Block).txs.map exHashes.txHash).Nodup ∧
    exHeader.u.txRoot = computeMerkleRoot exHashes.node ((⟨exHeader, []⟩ : Block).txs.map exHashes.txHash) :=
  ⟨fun t ht => absurd ht (by simp), List.nodup_nil, rfl⟩

end OntVerif.Props.C20
