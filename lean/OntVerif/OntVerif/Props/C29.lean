import OntVerif.Proofs.Participant
/-!
# C29 — each VBFT round selects well-formed proposer, endorser and committer sets

`Model/Participant.lean` mirrors `calcParticipant` / `calcParticipantPeers` of `consensus/vbft/node_utils.go`
(tied to the real functions by the C29 correspondence harness). The theorems hold for **every** seed, every position
table, every `N` field and every `c ≥ 1`; the seed enters only through `calcParticipant`, and the general form
`C29_wellformed_any_picks` does not even use how picks are computed.
-/
namespace OntVerif.Props.C29
open OntVerif.Model.Participant OntVerif.Proofs.Participant

/-- a valid chain configuration as far as participant selection is concerned: `C ≥ 1` (enforced by
`genConsensusPayload`), at least `3C+1` configured peers with distinct indexes, position table over configured peers -/
def ValidCfg (c : Nat) (pos peers : List Nat) : Prop :=
  1 ≤ c ∧ 3 * c + 1 ≤ peers.length ∧ peers.Nodup ∧ ∀ x ∈ pos, x ∈ peers

instance (c : Nat) (pos peers : List Nat) : Decidable (ValidCfg c pos peers) := by unfold ValidCfg; infer_instance

/-- what the property demands of one round's selection -/
def WellFormed (c : Nat) (peers : List Nat) (s : Sel) : Prop :=
  s.proposers.length = c + 1 ∧ s.proposers.Nodup ∧
  s.endorsers.Nodup ∧ 2 * c + 1 ≤ s.endorsers.length ∧
  s.committers.Nodup ∧ 2 * c + 1 ≤ s.committers.length ∧
  (∀ x ∈ s.proposers, x ∈ peers) ∧ (∀ x ∈ s.endorsers, x ∈ peers) ∧ (∀ x ∈ s.committers, x ∈ peers)

instance (c : Nat) (peers : List Nat) (s : Sel) : Decidable (WellFormed c peers s) := by unfold WellFormed; infer_instance

/-- General form: whatever stream of picks drives the table walk (each pick the stop sentinel or a configured peer),
whatever the table length and the `N` field, the selection is well formed. -/
theorem C29_wellformed_any_picks (pick : Nat → Nat) (posLen c N : Nat) (peers : List Nat)
    (hpick : ∀ k, pick k = maxU32 ∨ pick k ∈ peers)
    (hc : 1 ≤ c) (hlen : 3 * c + 1 ≤ peers.length) (hnd : peers.Nodup) :
    ∃ s, calcParticipantPeersOf pick posLen c N peers = some s ∧ WellFormed c peers s := by
  obtain ⟨gN, gS, gL⟩ := gather_spec pick posLen c N peers hpick hnd hlen
  obtain ⟨s, hs, h1, h2, h3, h4, h5, h6, h7, h8, h9⟩ := split_spec c _ hc gN gL
  exact ⟨s, hs, h1, h2, h3, h4, h5, h6, fun x hx => gS x (h7 x hx), fun x hx => gS x (h8 x hx), fun x hx => gS x (h9 x hx)⟩

/-- **C29.** For every seed `vrf`, every valid configuration and every `N` field: the round has `C+1` (distinct)
proposers, at least `2C+1` distinct endorsers and `2C+1` distinct committers, all configured peers. -/
theorem C29_wellformed (vrf : Nat → Nat) (pos peers : List Nat) (c N : Nat) (h : ValidCfg c pos peers) :
    ∃ s, calcParticipantPeers vrf pos c N peers = some s ∧ WellFormed c peers s := by
  obtain ⟨hc, hlen, hnd, hpos⟩ := h
  apply C29_wellformed_any_picks _ _ _ _ _ _ hc hlen hnd
  intro k
  rcases calcParticipant_mem vrf pos k with h | h
  · exact Or.inl h
  · exact Or.inr (hpos _ h)

/-- **Determinism.** The selection is a function of the 64 seed bytes and the configuration: two seeds that agree on
bytes `0…63` give the same three lists (being a Lean function, it has no other inputs). -/
theorem C29_deterministic (vrf vrf' : Nat → Nat) (pos peers : List Nat) (c N : Nat)
    (h : ∀ i, i < 64 → vrf i % 256 = vrf' i % 256) :
    calcParticipantPeers vrf pos c N peers = calcParticipantPeers vrf' pos c N peers := by
  unfold calcParticipantPeers
  have : calcParticipant vrf pos = calcParticipant vrf' pos := funext fun k => calcParticipant_congr vrf vrf' pos k h
  rw [this]

/-- `C ≥ 1` is needed: with `C = 0` a one-peer round has no committer (the top-up loops start at proposer 1).
`genConsensusPayload` rejects `C = 0`. -/
theorem C29_c0_counterexample :
    ¬ (∀ s, calcParticipantPeers (fun _ => 0) [1] 0 1 [1] = some s → WellFormed 0 [1] s) := by
  decide

/-- fewer than `3C+1` peers: the sets cannot be filled (here `N = 3`, `C = 1`: only 2 committers) -/
theorem C29_fewpeers_counterexample :
    ¬ (∀ s, calcParticipantPeers (fun _ => 0) [1, 2, 3] 1 3 [1, 2, 3] = some s → WellFormed 1 [1, 2, 3] s) := by
  decide

/-! ### Which configurations does the code itself accept?

`governance.CheckVBFTConfig`, `governance.UpdateConfig` and `vconfig.genConsensusPayload` require `K ≥ 2C+1` (and `K ≥ 7`),
not `K ≥ 3C+1`. `checkConfig .asShipped` mirrors that test, `checkConfig .sound` adds `3C+1 ≤ K`. -/

/-- every configuration that passes the configuration check gives well-formed rounds, for every seed and table -/
def CheckedStmt (v : Variant) : Prop :=
  ∀ (vrf : Nat → Nat) (pos peers : List Nat) (K C : Nat), checkConfig v K C peers = true → (∀ x ∈ pos, x ∈ peers) →
    ∃ s, calcParticipantPeers vrf pos C K peers = some s ∧ WellFormed C peers s

theorem C29_checked_sound : CheckedStmt .sound := by
  intro vrf pos peers K C h hpos
  unfold checkConfig at h
  have h' := of_decide_eq_true h
  obtain ⟨h1, h2, _, _, h5, _, h7⟩ := h'
  have h7' := h7 rfl
  exact C29_wellformed vrf pos peers C K ⟨by omega, by omega, h5, hpos⟩

instance (o : Option Sel) (c : Nat) (peers : List Nat) : Decidable (∃ s, o = some s ∧ WellFormed c peers s) :=
  match o with
  | none => isFalse (fun ⟨_, h, _⟩ => by cases h)
  | some s =>
    if h : WellFormed c peers s then isTrue ⟨s, rfl, h⟩
    else isFalse (fun ⟨s', h', hw⟩ => by cases h'; exact h hw)

/-- As shipped the check admits `K = 7, C = 3` (`7 ≥ 2·3+1`): seven peers cannot supply `C+1 = 4` proposers and then
`2C+1 = 7` endorsers that exclude the first proposer — the round has 6 endorsers and 6 committers.
(Known finding; replay `V 00…00 7 3 1,2,3,4,5,6,7,1,2,3,4,5,6,7 1,2,3,4,5,6,7` on the real `CheckVBFTConfig` + `calcParticipantPeers`.) -/
theorem C29_asShipped_counterexample : ¬ CheckedStmt .asShipped := by
  intro h
  have := h (fun _ => 0) [1, 2, 3, 4, 5, 6, 7, 1, 2, 3, 4, 5, 6, 7] [1, 2, 3, 4, 5, 6, 7] 7 3 (by decide) (by decide)
  revert this
  decide

/-! ### Non-vacuity -/
example : checkConfig .sound 10 3 [1, 2, 3, 4, 5, 6, 7, 8, 9, 10] = true := by decide
example : checkConfig .asShipped 7 3 [1, 2, 3, 4, 5, 6, 7] = true ∧ checkConfig .sound 7 3 [1, 2, 3, 4, 5, 6, 7] = false := by decide
example : ValidCfg 1 [1, 1, 1, 1, 1, 1, 1, 1] [1, 2, 3, 4] := by decide
example : calcParticipantPeers (fun _ => 0) [1, 1, 1, 1, 1, 1, 1, 1] 1 4 [1, 2, 3, 4]
    = some ⟨[1, 2], [3, 2, 4], [4, 2, 3]⟩ := by decide
example : ValidCfg 2 [7, 6, 5, 4, 3, 2, 1, 7, 6, 5, 4, 3, 2, 1] [7, 6, 5, 4, 3, 2, 1] := by decide
example : ∃ s, calcParticipantPeers (fun i => 37 * i + 11) [7, 6, 5, 4, 3, 2, 1, 7, 6, 5, 4, 3, 2, 1] 2 7 [7, 6, 5, 4, 3, 2, 1] = some s ∧
    s.endorsers.length = 5 ∧ s.committers.length = 5 := by decide

end OntVerif.Props.C29
