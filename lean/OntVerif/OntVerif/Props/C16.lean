import OntVerif.Proofs.SigCheck
/-!
# C16 — Only correctly signed transactions paid by a signer are accepted

Property theorems only (helper lemmas: `Proofs/SigCheck.lean`).  The model is `Model/SigCheck.lean`
(`checkTransactionSignatures`, `RawSig.GetSig`, `GetProgramInfo`, `GetParamInfo`, `Verify`, `VerifyMultiSignature`,
`AddressFromPubKey`, `AddressFromMultiPubKeys`), tied to the Go code by the harness `harness/cmd/c16`.
Cryptography is abstract (`Crypto`): the theorems are about the logic around it — which keys are parsed from the
script, how many signatures are required, which message every verification receives, distinctness, payer membership.

`checkSigs cfg C tx = .ok addrs` is "the validator accepts the signatures of `tx`; `tx.SignedAddr = addrs`".
`tx.hashInput` are the unsigned bytes captured by the decoder (`Model/Tx.lean`, C19), `C.H` the double SHA-256.

One recorded defect is a configuration switch (`Cfg`): `dupKeys` (a script may list one key several times and each
occurrence counts); a panic of the library call is a failed verification ( the guarded library call.  Everything is proved for every configuration unless
a hypothesis says otherwise.
-/
namespace OntVerif.Props.C16
open OntVerif.Util OntVerif.Model.Tx OntVerif.Model.SigCheck OntVerif.Proofs.SigCheck

section
variable {Key Sig : Type} [DecidableEq Key]

/-- What acceptance establishes for one signature set `rs = (invoke, verify)` and its account `a`: both scripts
parse, `1 ≤ m ≤ n ≤ 16`, at least `m` signatures, the first `m` signatures each verify **over the hash of the
unsigned bytes** under keys at pairwise distinct indexes of the script, and `a` is the account of `(keys, m)`. -/
def SetAccepted (C : Crypto Key Sig) (tx : Tx) (rs : Bytes × Bytes) (a : Addr) : Prop :=
  ∃ sigs m keys, getSig C.toLib rs = some (sigs, m, keys) ∧ 1 ≤ m ∧ m ≤ keys.length ∧
    keys.length ≤ MULTI_SIG_MAX_PUBKEY_SIZE ∧ m ≤ sigs.length ∧
    SetOK C.toLib (fun k s => C.verify k (C.H tx.hashInput) s) keys m sigs ∧ setAddr C.toLib keys m = .ok a

/-- Accepted ⇒ correctly signed and paid by a signer (the check as a function of the decoded fields). -/
theorem C16_accept_sound_fields (cfg : Cfg) (C : Crypto Key Sig) (tx : Tx) (addrs : List Addr)
    (h : checkSigs cfg C tx = .ok addrs) :
    tx.sigs.length ≤ TX_MAX_SIG_SIZE ∧ All2 (SetAccepted C tx) tx.sigs addrs ∧ tx.payer ∈ addrs := by
  obtain ⟨h1, h2, h3⟩ := checkSigsWith_ok cfg C.toLib (verifier C tx) tx addrs h
  refine ⟨h1, ?_, h3⟩
  refine (checkAll_ok cfg C.toLib _ tx.sigs addrs h2).imp ?_
  intro rs a hrs
  obtain ⟨sigs, m, keys, f⟩ := checkSigSet_ok cfg C.toLib _ rs a hrs
  refine ⟨sigs, m, keys, f.parsed, f.m_pos, f.m_le, f.n_le, f.enough, ?_, f.addr⟩
  exact f.matched.imp (fun k s hv => (guard_ok _).mp hv)

/-- **Accepted ⇒ correctly signed and paid by a signer, for EVERY state of the transaction object.**
The validator's input is a `types.Transaction` whose exported field `SignedAddr` may already have been filled -
by `GetSignatureAddresses()` (which the transaction pool calls before validation and which verifies nothing), by an
earlier `VerifyTransaction`, or by direct assignment.  Whatever `pre` is: acceptance establishes the signature
facts about `tx` itself, and afterwards `SignedAddr` is exactly the validator's list. -/
theorem C16_accept_sound (cfg : Cfg) (C : Crypto Key Sig) (tx : Tx) (pre : List Addr) (addrs : List Addr)
    (h : (checkSigsObj cfg C ⟨tx, pre⟩).1 = .ok addrs) :
    tx.sigs.length ≤ TX_MAX_SIG_SIZE ∧ All2 (SetAccepted C tx) tx.sigs addrs ∧ tx.payer ∈ addrs ∧
      (checkSigsObj cfg C ⟨tx, pre⟩).2 = ⟨tx, addrs⟩ := by
  unfold checkSigsObj at h ⊢
  cases hc : checkSigs cfg C tx with
  | ok as =>
    simp only [hc, Verdict.ok.injEq] at h ⊢
    subst h
    obtain ⟨h1, h2, h3⟩ := C16_accept_sound_fields cfg C tx as hc
    exact ⟨h1, h2, h3, rfl⟩
  | reject => simp [hc] at h
  | panic => simp [hc] at h

/-- the verdict does not depend on the state of the object … -/
theorem C16_state_irrelevant (cfg : Cfg) (C : Crypto Key Sig) (wasmOK : Bytes → Bool) (tx : Tx) (pre pre' : List Addr) :
    (checkSigsObj cfg C ⟨tx, pre⟩).1 = (checkSigsObj cfg C ⟨tx, pre'⟩).1 ∧
    (verifyObj cfg C wasmOK ⟨tx, pre⟩).1 = (verifyObj cfg C wasmOK ⟨tx, pre'⟩).1 := by
  have e : (checkSigsObj cfg C ⟨tx, pre⟩).1 = (checkSigsObj cfg C ⟨tx, pre'⟩).1 := by
    unfold checkSigsObj
    cases checkSigs cfg C tx <;> rfl
  refine ⟨e, ?_⟩
  unfold verifyObj checkSigsObj
  cases checkSigs cfg C tx <;> simp <;> split <;> rfl

theorem runPres_tx (cfg : Cfg) (C : Crypto Key Sig) (wasmOK : Bytes → Bool) (o : TxObj) (ops : List PreOp) :
    (runPres cfg C wasmOK o ops).2.tx = o.tx := by
  induction ops generalizing o with
  | nil => rfl
  | cons op r ih =>
    simp only [runPres]
    rw [ih]
    cases op with
    | getAddrs => simp only [runPre, getSigAddrs]; split <;> rfl
    | verify =>
      simp only [runPre, verifyObj, checkSigsObj]
      cases checkSigs cfg C o.tx <;> simp <;> split <;> rfl
    | hash => rfl
    | toArray => rfl
    | setAddrs as => rfl

/-- … nor on any sequence of getter calls, earlier verification passes or assignments to `SignedAddr` that
precede it: the verdict is the verdict on a freshly decoded copy. -/
theorem C16_pre_ops_irrelevant (cfg : Cfg) (C : Crypto Key Sig) (wasmOK : Bytes → Bool) (tx : Tx) (pre : List Addr)
    (ops : List PreOp) :
    (verifyObj cfg C wasmOK (runPres cfg C wasmOK ⟨tx, pre⟩ ops).2).1 = (verifyObj cfg C wasmOK ⟨tx, []⟩).1 := by
  have ht := runPres_tx cfg C wasmOK ⟨tx, pre⟩ ops
  generalize (runPres cfg C wasmOK ⟨tx, pre⟩ ops).2 = o at ht
  obtain ⟨tx', sa⟩ := o
  simp only at ht
  subst ht
  exact (C16_state_irrelevant cfg C wasmOK tx' sa []).2

/-- after an accepting pass, `GetSignatureAddresses()` (what `CheckWitness` consults) returns the validator's list,
whatever was cached before -/
theorem C16_seen_after_validation (cfg : Cfg) (C : Crypto Key Sig) (tx : Tx) (pre : List Addr) (addrs : List Addr)
    (h : (checkSigsObj cfg C ⟨tx, pre⟩).1 = .ok addrs) :
    (getSigAddrs cfg C.toLib (checkSigsObj cfg C ⟨tx, pre⟩).2).1 = addrs := by
  obtain ⟨_, _, hp, hs⟩ := C16_accept_sound cfg C tx pre addrs h
  rw [hs]
  have hne : addrs.length ≠ 0 := by
    intro h0
    have : addrs = [] := List.eq_nil_of_length_eq_zero h0
    simp [this] at hp
  simp [getSigAddrs, hne]

/-- **Payer.** The validator accepts only if the payer is one of the accounts derived from the signature sets;
with any other payer the transaction is rejected (whatever the signatures are). -/
theorem C16_payer (cfg : Cfg) (C : Crypto Key Sig) (tx : Tx) (accts : List Addr)
    (hd : derived cfg C tx = .ok accts) (hp : tx.payer ∉ accts) : checkSigs cfg C tx = .reject := by
  unfold checkSigs checkSigsWith
  unfold derived at hd
  split
  · rfl
  · rw [hd]; simp [hp]

theorem C16_payer_of_accept (cfg : Cfg) (C : Crypto Key Sig) (tx : Tx) (addrs : List Addr)
    (h : checkSigs cfg C tx = .ok addrs) : derived cfg C tx = .ok addrs ∧ tx.payer ∈ addrs := by
  obtain ⟨_, h2, h3⟩ := checkSigsWith_ok cfg C.toLib (verifier C tx) tx addrs h
  exact ⟨h2, h3⟩

/-- **The hash binds.** The verdict depends on the verification function only through its values at the message
`H(unsigned bytes)`: two libraries that agree there (and on parsing) give the same verdict, however they differ on
every other message.  So every `verify` call the validator makes receives `H(tx.hashInput)`. -/
theorem C16_hash_binds (cfg : Cfg) (C C' : Crypto Key Sig) (tx : Tx) (hl : C'.toLib = C.toLib) (hH : C'.H = C.H)
    (hv : ∀ k s, C'.verify k (C.H tx.hashInput) s = C.verify k (C.H tx.hashInput) s) :
    checkSigs cfg C' tx = checkSigs cfg C tx := by
  have : verifier C' tx = verifier C tx := by
    funext k s
    simp only [verifier, txMsg, hH, hv]
  simp only [checkSigs, hl, this]

omit [DecidableEq Key] in
/-- … and a change of the signed content changes that message, or exhibits a collision of `H`. -/
theorem C16_hash_binds_collision (C : Crypto Key Sig) (tx tx' : Tx) (hne : tx.hashInput ≠ tx'.hashInput) :
    txMsg C tx ≠ txMsg C tx' ∨ (C.H tx.hashInput = C.H tx'.hashInput ∧ tx.hashInput ≠ tx'.hashInput) := by
  by_cases h : C.H tx.hashInput = C.H tx'.hashInput
  · exact Or.inr ⟨h, hne⟩
  · exact Or.inl h

omit [DecidableEq Key] in
/-- **Distinct indexes are distinct keys when the script lists no key twice.** -/
theorem C16_distinct_keys_partial (C : Lib Key Sig) (vf : Key → Sig → VRes) (keys : List Key) (m : Nat)
    (sigs : List Bytes) (h : SetOK C vf keys m sigs) (hk : keys.Nodup) : SetOKKeys C vf keys m sigs :=
  h.toKeys hk

omit [DecidableEq Key] in
/-- … and only then: a script lists no key twice iff different indexes always hold different keys. -/
theorem C16_distinct_indexes_iff (keys : List Key) :
    keys.Nodup ↔ ∀ i j, i < keys.length → keys[i]? = keys[j]? → i = j := by
  constructor
  · intro hn i j hi he
    exact (List.getElem?_inj hi hn).mp he
  · intro h
    induction keys with
    | nil => exact List.nodup_nil
    | cons k ks ih =>
      refine List.nodup_cons.mpr ⟨?_, ih ?_⟩
      · intro hm
        obtain ⟨n, hn, hk⟩ := List.getElem_of_mem hm
        have := h 0 (n + 1) (by simp) (by simp [List.getElem?_eq_getElem hn, hk])
        omega
      · intro i j hi he
        have := h (i + 1) (j + 1) (by simpa using hi) (by simpa using he)
        omega

/-- **No panic.** With the guarded library call (`signature.verify`, repaired in /repo) and
a library whose key serialisation is never empty, the signature check cannot panic: the index expressions
`sig.SigData[0]`, `sigs[i]` and the `PushBytes` panic are unreachable. -/
theorem C16_no_panic (cfg : Cfg) (C : Crypto Key Sig)
    (hser : ∀ k, (C.serKey k).length ≠ 0) (tx : Tx) : checkSigs cfg C tx ≠ .panic :=
  checkSigs_no_panic cfg C hser tx

/-- the loops of `GetParamInfo` / `GetProgramInfo` never run out of the fuel the model gives them: the result is the
same for every sufficient amount (so `none` always stands for a parse error of the Go code, never for exhaustion) -/
theorem C16_fuel_irrelevant (f f' : Nat) (bs : Bytes) (acc : List Bytes) (h : bs.length < f) (h' : bs.length < f') :
    paramLoop f bs = paramLoop f' bs ∧ bufLoop f bs acc = bufLoop f' bs acc :=
  ⟨paramLoop_fuel f f' bs h h', bufLoop_fuel f f' bs acc h h'⟩

/-- The statement at full strength: accepted ⇒ every signature set verifies with the required number of
**distinct keys**, and the payer is one of the signer accounts. -/
def C16_full_statement (cfg : Cfg) : Prop :=
  ∀ (Key Sig : Type) [DecidableEq Key] (C : Crypto Key Sig) (tx : Tx) (addrs : List Addr),
    checkSigs cfg C tx = .ok addrs →
      All2 (fun rs a => ∃ sigs m keys, getSig C.toLib rs = some (sigs, m, keys) ∧
          SetOKKeys C.toLib (fun k s => C.verify k (C.H tx.hashInput) s) keys m sigs ∧
          setAddr C.toLib keys m = .ok a) tx.sigs addrs
      ∧ tx.payer ∈ addrs

end

/-- With duplicate keys rejected (`dupKeys := .sound`) the full statement holds. -/
theorem C16_full_sound (cfg : Cfg) (hs : cfg.dupKeys = .sound) : C16_full_statement cfg := by
  intro Key Sig _ C tx addrs h
  obtain ⟨_, h2, h3⟩ := checkSigsWith_ok cfg C.toLib (verifier C tx) tx addrs h
  refine ⟨?_, h3⟩
  refine (checkAll_ok cfg C.toLib _ tx.sigs addrs h2).imp ?_
  intro rs a hrs
  obtain ⟨sigs, m, keys, f⟩ := checkSigSet_ok cfg C.toLib _ rs a hrs
  refine ⟨sigs, m, keys, f.parsed, ?_, f.addr⟩
  exact (f.matched.imp (fun k s hv => (guard_ok _).mp hv)).toKeys (f.nodup hs)

/-! ## Witnesses (toy library `Proofs.SigCheck.toy`: a key is 4 bytes `[id,0,0,0]`, the signature of key `id` over any
message is `[id]`, `h160` and `H` are the identity) -/

/-- `PUSH2 K7 K7 K7 PUSH3 CHECKMULTISIG` -/
def dupScript : Bytes := [0x52, 4, 7, 0, 0, 0, 4, 7, 0, 0, 0, 4, 7, 0, 0, 0, 0x53, 0xAE]
/-- two pushes of the one signature of key 7 -/
def dupInvoke : Bytes := [1, 7, 1, 7]
def dupTx : Tx := ⟨0, 0xd1, 0, 0, 0, dupScript, .invoke [], [(dupInvoke, dupScript)], [], []⟩

/-- the shipped validator accepts a 2-of-3 script that lists one key three times, signed by that one key -/
theorem C16_dup_accepted : checkSigs Cfg.asShipped toy dupTx = .ok [dupScript] := by decide

/-- … which the full statement forbids: two distinct keys would have to be `7` both. -/
theorem C16_asShipped_counterexample : ¬ C16_full_statement Cfg.asShipped := by
  intro h
  obtain ⟨hall, _⟩ := h Nat Nat toy dupTx [dupScript] C16_dup_accepted
  cases hall with
  | cons h1 _ =>
    obtain ⟨sigs, m, keys, hg, ⟨ks, hl, hn, ha⟩, _⟩ := h1
    have hg' : getSig toy.toLib (dupInvoke, dupScript) = some ([[7], [7]], 2, [7, 7, 7]) := by decide
    rw [hg'] at hg
    simp only [Option.some.injEq, Prod.mk.injEq] at hg
    obtain ⟨rfl, rfl, rfl⟩ := hg
    cases ha with
    | cons a1 ha2 =>
      cases ha2 with
      | cons a2 ha3 =>
        cases ha3
        have e1 := a1.1
        have e2 := a2.1
        simp at e1 e2
        subst e1 e2
        simp at hn


/-- a library panic (toy: signature `[0x0b]`) is a failed verification, not a panic of the validator -/
example : checkSigs Cfg.asShipped toy ⟨0, 0xd1, 0, 0, 0, [0xEE, 200], .invoke [], [([1, 0x0b], [4, 200, 0, 0, 0, 0xAC])], [], []⟩
      = .reject := by decide

/-- the repaired check rejects the duplicate-key script -/
example : checkSigs Cfg.sound toy dupTx = .reject := by decide

/-! Non-vacuity: a 2-of-3 script with three different keys, signed by keys 9 and 5 (in that order), plus a
single-key set; the payer is the multi-signature account. -/

def okScript : Bytes := [0x52, 4, 5, 0, 0, 0, 4, 7, 0, 0, 0, 4, 9, 0, 0, 0, 0x53, 0xAE]
def okTx : Tx := ⟨0, 0xd1, 0, 0, 0, okScript, .invoke [],
  [([1, 9, 1, 5], okScript), ([1, 3], [4, 3, 0, 0, 0, 0xAC])], [], []⟩

example : checkSigs Cfg.asShipped toy okTx = .ok [okScript, [4, 3, 0, 0, 0, 0xAC]] := by decide
example : checkSigs Cfg.sound toy okTx = .ok [okScript, [4, 3, 0, 0, 0, 0xAC]] := by decide
/-- same signer twice for two slots of a duplicate-free script: rejected -/
example : checkSigs Cfg.asShipped toy { okTx with sigs := [([1, 9, 1, 9], okScript)] } = .reject := by decide
/-- payer not among the derived accounts: rejected (`C16_payer` is not vacuous) -/
example : derived Cfg.asShipped toy { okTx with payer := [1, 2, 3] } = .ok [okScript, [4, 3, 0, 0, 0, 0xAC]] ∧
    checkSigs Cfg.asShipped toy { okTx with payer := [1, 2, 3] } = .reject := by decide
/-- `C16_hash_binds`: a library that accepts everything on other messages changes nothing -/
example : checkSigs Cfg.asShipped { toy with verify := fun k msg s => if msg = [] then toy.verify k msg s else .ok } okTx
    = checkSigs Cfg.asShipped toy okTx :=
  C16_hash_binds _ _ _ _ rfl rfl (fun _ _ => by simp [okTx, toy])

/-! Object state: a forged transaction (signature of key 3 where key 9 and 5 are required; payer not a signer) whose
`SignedAddr` was filled by the getter before validation. -/

def forgedTx : Tx := { okTx with sigs := [([1, 3, 1, 3], okScript)] }
def forgedAfterGetter : TxObj := (getSigAddrs Cfg.asShipped toy.toLib ⟨forgedTx, []⟩).2

/-- the getter filled the cache from the claimed script, verifying nothing … -/
example : forgedAfterGetter.signedAddr = [okScript] := by decide
/-- … the validator still rejects (instance of `C16_state_irrelevant`) … -/
example : (checkSigsObj Cfg.asShipped toy forgedAfterGetter).1 = .reject := by decide
/-- … whereas a validator that trusts a non-empty `SignedAddr` accepts the forgery: the mirrored model of such a
change falsifies `C16_accept_sound` (no signature of the script's keys verifies). -/
theorem C16_trusting_validator_unsound :
    (checkSigsObjTrusting Cfg.asShipped toy forgedAfterGetter).1 = .ok [okScript] ∧
    checkSigs Cfg.asShipped toy forgedAfterGetter.tx = .reject := by decide
/-- verifying twice: same verdict, same list -/
example : (checkSigsObj Cfg.asShipped toy (checkSigsObj Cfg.asShipped toy ⟨okTx, []⟩).2)
    = (checkSigsObj Cfg.asShipped toy ⟨okTx, []⟩) := by decide

end OntVerif.Props.C16
