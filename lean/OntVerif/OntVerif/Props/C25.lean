import OntVerif.Proofs.CrossVM
/-!
# C25 — Cross-VM parameter codec round-trips and rejects malformed input

Model: `Model/CrossVM.lean` (`EncodeValue`, `DecodeValue`, `DeserializeCallParam`, `parseNotify`) on top of the
`ZeroCopySource` model of C18.  `Res.fuel` = recursion budget exhausted, `Res.panic` = Go slice panic.
-/
namespace OntVerif.Props.C25
open OntVerif.Util OntVerif.Model.Codec OntVerif.Model.CrossVM OntVerif.Proofs.Codec OntVerif.Proofs.CrossVM

/-- **Round trip, anywhere in a buffer**: for every well-formed value of the grammar (byte arrays, strings, addresses,
booleans, 128-bit integers, hashes, arbitrarily nested lists) the encoder's output, placed at any position of any
buffer, decodes to the same value and leaves the cursor just behind it. -/
theorem C25_rt_at (v : Val) (hw : v.wf) (enc : Bytes) (he : encV v = some enc) (pre rest : Bytes)
    (hl : (pre ++ enc ++ rest).length < two64) :
    decodeValue ⟨pre ++ enc ++ rest, pre.length⟩ = .ok (v, ⟨pre ++ enc ++ rest, pre.length + enc.length⟩) := by
  unfold decodeValue budget
  exact rtV v hw enc he _ pre rest _ rfl rfl hl _ (by simp; omega)

/-- **Round trip**: `DecodeValue(EncodeValue(v)) = v`, all bytes consumed. -/
theorem C25_rt (v : Val) (hw : v.wf) (enc : Bytes) (he : encV v = some enc) (hl : enc.length < two64) :
    decodeValue ⟨enc, 0⟩ = .ok (v, ⟨enc, enc.length⟩) := by
  have := C25_rt_at v hw enc he [] [] (by simpa using hl)
  simpa using this

/-- the two wrappers: version byte 0 (`DeserializeCallParam`) and the "evt\0" prefix (`parseNotify`) -/
theorem C25_rt_callparam (v : Val) (hw : v.wf) (enc : Bytes) (he : encV v = some enc) (hl : enc.length < two64) :
    deserializeCallParam (0 :: enc) = .ok v := by
  unfold deserializeCallParam
  simp only [C25_rt v hw enc he hl]

theorem C25_rt_notify (v : Val) (hw : v.wf) (enc : Bytes) (he : encV v = some enc) (hl : enc.length < two64) :
    parseNotify (0x65 :: 0x76 :: 0x74 :: 0x00 :: enc) = .ok v := by
  unfold parseNotify
  simp only [C25_rt v hw enc he hl]

/-- the encoder accepts every well-formed value (its only error is an integer outside the i128 range) -/
theorem C25_encodable (v : Val) (hw : v.wf) : ∃ enc, encV v = some enc := encV_some v hw

/-- **Totality and termination**: on every byte string, at every cursor position, `DecodeValue` returns a value or
one of its two errors: the recursion budget `2·(unread bytes)+2` is never exhausted (`.fuel` unreachable — the
nesting depth plus the number of loop iterations is bounded by the bytes left), no slice expression is out of range
(`.panic` unreachable), and on success the buffer is untouched and the cursor has strictly advanced within it. -/
theorem C25_total (s : Src) (w : s.wf) :
    match decodeValue s with
    | .ok (_, s') => s'.bs = s.bs ∧ s.off < s'.off ∧ s'.off ≤ s'.bs.length
    | .err _ => True
    | .fuel => False
    | .panic => False := by
  have h := (total_aux (budget s)).1 s w (by unfold budget rem; omega)
  unfold decodeValue
  generalize decV (budget s) s = r at h
  cases r with
  | ok p => exact ⟨h.1.1, h.2, h.1.2.2⟩
  | err e => trivial
  | fuel => exact h
  | panic => exact h

/-- every larger budget suffices as well: the explicit measure, for all fuel values -/
theorem C25_measure (s : Src) (w : s.wf) (f : Nat) (hf : 2 * (s.bs.length - s.off) + 1 ≤ f) :
    ∀ r, decV f s = r → r matches .ok _ | .err _ := by
  intro r hr
  have h := (total_aux f).1 s w hf
  rw [hr] at h
  cases r <;> simp_all [Res.Safe]

/-- the recursion budget is immaterial: every budget at least as large as the one `decodeValue` uses gives the same
result (so the model function is the unbounded recursion of the Go code) -/
theorem C25_budget_irrelevant (s : Src) (w : s.wf) (f : Nat) (hf : budget s ≤ f) : decV f s = decodeValue s := by
  have h := (total_aux (budget s)).1 s w (by unfold budget rem; omega)
  have hnf : isFuel (decV (budget s) s) = false := by
    cases hd : decV (budget s) s <;> simp_all [Res.Safe, isFuel]
  obtain ⟨k, rfl⟩ : ∃ k, f = budget s + k := ⟨f - budget s, by omega⟩
  exact fuel_irrelevant s (budget s) hnf k

/-- the wrappers are total on all byte strings -/
theorem C25_total_callparam (input : Bytes) (hl : input.length < two64) :
    match deserializeCallParam input with
    | .ok _ => True | .err _ => True | .fuel => False | .panic => False := by
  cases hd : deserializeCallParam input <;> simp only [] <;> unfold deserializeCallParam at hd <;> split at hd
  all_goals first
    | cases hd
    | (rename_i t
       have w : (⟨t, 0⟩ : Src).wf := ⟨Nat.zero_le _, by show t.length < two64; simp at hl; omega⟩
       have h := C25_total ⟨t, 0⟩ w
       split at hd <;> simp_all)

theorem C25_total_notify (input : Bytes) (hl : input.length < two64) :
    match parseNotify input with
    | .ok _ => True | .err _ => True | .fuel => False | .panic => False := by
  cases hd : parseNotify input <;> simp only [] <;> unfold parseNotify at hd <;> split at hd
  all_goals first
    | cases hd
    | (rename_i t
       have w : (⟨t, 0⟩ : Src).wf := ⟨Nat.zero_le _, by show t.length < two64; simp at hl; omega⟩
       have h := C25_total ⟨t, 0⟩ w
       split at hd <;> simp_all)

/-- **Malformed input is rejected — canonicity**: whenever `DecodeValue` accepts, at any cursor of any buffer, the bytes
it consumed are exactly the encoder's output for the value returned, and that value is well-formed. So the decoder
accepts nothing but encoder outputs (irregular booleans, short items, unknown tags, wrong counts are all errors). -/
theorem C25_canonical (s : Src) (w : s.wf) (v : Val) (s' : Src) (h : decodeValue s = .ok (v, s')) :
    encV v = some ((s.bs.drop s.off).take (s'.off - s.off)) ∧ v.wf := by
  obtain ⟨h1, h2, _⟩ := (canon_aux (budget s)).1 s w v s' h
  exact ⟨h1, h2⟩

/-- decoding is injective: two byte strings that decode completely to the same value are equal -/
theorem C25_decode_injective (b₁ b₂ : Bytes) (h₁ : b₁.length < two64) (h₂ : b₂.length < two64) (v : Val)
    (d₁ : decodeValue ⟨b₁, 0⟩ = .ok (v, ⟨b₁, b₁.length⟩)) (d₂ : decodeValue ⟨b₂, 0⟩ = .ok (v, ⟨b₂, b₂.length⟩)) :
    b₁ = b₂ := by
  have c₁ := (C25_canonical ⟨b₁, 0⟩ ⟨Nat.zero_le _, h₁⟩ v _ d₁).1
  have c₂ := (C25_canonical ⟨b₂, 0⟩ ⟨Nat.zero_le _, h₂⟩ v _ d₂).1
  rw [c₁] at c₂
  simpa using c₂

/-! ### Non-vacuity -/
def sample : Val := .list [.bytes [1, 2], .str [], .list [.bool true, .int (-5), .list []], .addr (List.replicate 20 9)]
theorem C25_sample_wf : sample.wf := by
  simp [sample, Val.wf, wfL, two32, two127]
example : ∃ enc, encV sample = some enc ∧ enc.length = 67 := by refine ⟨_, rfl, ?_⟩; decide
example : decodeValue ⟨[0x10, 2, 0, 0, 0, 3, 1, 0x10, 0, 0, 0, 0, 7], 0⟩
    = .ok (.list [.bool true, .list []], ⟨[0x10, 2, 0, 0, 0, 3, 1, 0x10, 0, 0, 0, 0, 7], 12⟩) := by rfl
example : decodeValue ⟨[0x10, 0xff, 0xff, 0xff, 0xff, 3, 1], 0⟩ = .err .format := by rfl   -- hostile element count
example : decodeValue ⟨[3, 2], 0⟩ = .err .format := by rfl                                 -- irregular bool
example : decodeValue ⟨[6], 0⟩ = .err .type := by rfl
example : (⟨[0x10, 0xff, 0xff, 0xff, 0xff, 3, 1], 0⟩ : Src).wf := by unfold Src.wf two64; decide

end OntVerif.Props.C25
