import OntVerif.Proofs.Token
/-!
# C06 — Native token operations conserve supply and respect authorization

Property theorems only.  Model: `Model/Token.lean` (ONT and ONG contracts: `transfer`, `approve`, `transferFrom` and their
V2 forms — a version-1 amount `n` is `n * ScaleFactor` base units, after which both forms run the same code — including
the ONG grant an ONT balance change triggers), tied to the Go code by the correspondence harness `harness/cmd/c06`
(real contracts on a real `CacheDB`, one cache per call, committed iff `err == nil`).  Helper lemmas: `Proofs/Token.lean`.

All statements are for every environment (signers, calling contract, block time, `PreExec`, network constants, **any**
`CalcUnbindOng`), every state (arbitrary balances, allowances, unbound offsets — not only reachable ones) and every call.
`txStep` is the transaction level (the cache of a failed invocation is dropped), `exec` the raw invocation with the
cache it leaves behind.
-/
namespace OntVerif.Props.C06
open OntVerif.Model.Token OntVerif.Proofs.Token

/-- **Conservation (one call)**: whatever the call and its outcome — success, `false`, error, panic — the committed
state has the same sum of ONT balances and the same sum of ONG balances over every duplicate-free account list that
contains the accounts the call names and the ONT contract address (the holder of the undistributed ONG). -/
theorem C06_conserve (env : Env) (s : St) (op : Op) (l : List Addr) (hn : l.Nodup) (hp : ∀ a ∈ opAddrs op, a ∈ l)
    (ho : env.ontAddr ∈ l) :
    sumBal l (txStep env s op).2.ont = sumBal l s.ont ∧ sumBal l (txStep env s op).2.ong = sumBal l s.ong := by
  rw [txStep_eq]
  simp only
  split
  · rename_i hc
    cases exec_rel env s op with
    | inl p => rw [p] at hc; exact absurd hc (by decide)
    | inr c => exact c.sums l hn hp ho
  · exact ⟨rfl, rfl⟩

/-- **Conservation (histories)**: any sequence of calls, each with its own signers / caller / block time -/
theorem C06_conserve_history (h : List (Env × Op)) (s : St) (l : List Addr) (hn : l.Nodup)
    (hp : ∀ eo ∈ h, (∀ a ∈ opAddrs eo.2, a ∈ l) ∧ eo.1.ontAddr ∈ l) :
    sumBal l (run h s).ont = sumBal l s.ont ∧ sumBal l (run h s).ong = sumBal l s.ong := by
  induction h generalizing s with
  | nil => exact ⟨rfl, rfl⟩
  | cons eo rest ih =>
    obtain ⟨env, op⟩ := eo
    simp only [run]
    have h1 := hp (env, op) (by simp)
    have c := C06_conserve env s op l hn h1.1 h1.2
    have r := ih (txStep env s op).2 (fun eo m => hp eo (by simp [m]))
    exact ⟨r.1.trans c.1, r.2.trans c.2⟩

/-- … and even the cache a *failed* call leaves behind (which the transaction discards) is balanced, unless the call
died in a Go panic between the debit and the credit -/
theorem C06_conserve_cache (env : Env) (s : St) (op : Op) (l : List Addr) (hn : l.Nodup)
    (hp : ∀ a ∈ opAddrs op, a ∈ l) (ho : env.ontAddr ∈ l) (hnp : (exec env s op).1 ≠ .err .panic) :
    sumBal l (exec env s op).2.ont = sumBal l s.ont ∧ sumBal l (exec env s op).2.ong = sumBal l s.ong := by
  cases exec_rel env s op with
  | inl p => exact absurd p hnp
  | inr c => exact c.sums l hn hp ho

/-- **No negative balance / no underflow**: a debit is refused unless the balance covers it, and then writes exactly
the difference (balances are naturals: there is no wrap-around to hide behind) -/
theorem C06_no_underflow (t : Tok) (a : Addr) (v : Nat) :
    (t.bal a < v → ∃ t', reduceFrom t a v = .fail .insufficient t' ∧ t' = t) ∧
    (∀ old t', reduceFrom t a v = .ok old t' → v ≤ t.bal a ∧ t'.bal a = t.bal a - v) := by
  constructor
  · intro h
    refine ⟨t, ?_, rfl⟩
    unfold reduceFrom
    simp only [h, if_true]
  · intro old t' h
    obtain ⟨_, e2, e3⟩ := reduceFrom_ok _ _ _ _ _ h
    exact ⟨e2, by rw [e3, setBal_bal_self]⟩

/-- **Authorization, transfer / transferV2** (any number of states): an account of the call's token that ends with
less than it had witnessed the call — it is among the transaction's signature addresses or is the calling contract -/
theorem C06_auth_transfer (env : Env) (s : St) (k : Token) (xs : List Xfer) (a : Addr)
    (hlt : ((txStep env s (.transfer k xs)).2.tok k).bal a < (s.tok k).bal a) :
    witness env env.caller a = true := by
  rw [txStep_eq] at hlt
  simp only at hlt
  split at hlt
  · rename_i hc
    cases exec_transfer_rel env s k xs with
    | inl p => rw [p] at hc; exact absurd hc (by decide)
    | inr c => exact c.1.own.1 a hlt
  · omega

/-- a call that returns `false` without an error (transferFrom of a zero amount) has not written anything -/
theorem C06_false_noop (env : Env) (s : St) (op : Op) (hf : (exec env s op).1 = .retFalse) : (exec env s op).2 = s := by
  cases op with
  | transfer k xs =>
    simp only [exec] at hf
    split at hf <;> cases hf
  | approve k frm to v =>
    cases exec_approve_cases env s k frm to v with
    | inl e => rw [e.1] at hf; cases hf
    | inr e => exact e.2
  | transferFrom k sender frm to v =>
    by_cases hv : v = 0
    · simp only [exec, hv, if_true]
    · exfalso
      simp only [exec, if_neg hv] at hf
      split at hf
      · cases hf
      · split at hf
        · cases hf
        · split at hf <;> cases hf

/-- **Authorization, transferFrom / transferFromV2**: an account that ends with less is the `from` account; the sender
passed the (time-dependent) witness rule; the amount was within the allowance `from → sender`, and that allowance went
down by exactly the amount -/
theorem C06_auth_transferFrom (env : Env) (s : St) (k : Token) (sender frm to : Addr) (v : Nat) (a : Addr)
    (hlt : ((txStep env s (.transferFrom k sender frm to v)).2.tok k).bal a < (s.tok k).bal a) :
    a = frm ∧ transferFromAllowed env env.caller sender frm to = true ∧ v ≤ (s.tok k).allow frm sender ∧
    ((txStep env s (.transferFrom k sender frm to v)).2.tok k).allow frm sender + v = (s.tok k).allow frm sender := by
  rw [txStep_eq] at hlt ⊢
  simp only at hlt ⊢
  split at hlt
  · rename_i hc
    rw [if_pos hc]
    cases hr : (exec env s (.transferFrom k sender frm to v)).1 with
    | err e => rw [hr] at hc; exact absurd hc (by simp [Res.commits])
    | retFalse =>
      -- BYTE_FALSE: nothing was written
      rw [C06_false_noop env s _ hr] at hlt; omega
    | ok =>
      have hx : exec env s (.transferFrom k sender frm to v) = (.ok, (exec env s (.transferFrom k sender frm to v)).2) := by
        rw [← hr]
      obtain ⟨a1, a2, a3, a4, _⟩ := exec_transferFrom_ok env s k sender frm to v _ hx
      rw [a4] at hlt ⊢
      have e : a = frm := movedTok_bal_lt _ frm to a v hlt
      refine ⟨e, a1, a2, ?_⟩
      rw [movedTok_allow, setAllow_allow, if_pos ⟨rfl, rfl⟩]
      omega
  · omega

/-- **Authorization, approve / approveV2**: no balance of either token moves; an allowance changes only for the pair
named by the call, only to the amount named, and only if the owner witnessed the call -/
theorem C06_auth_approve (env : Env) (s : St) (k : Token) (frm to : Addr) (v : Nat) :
    (txStep env s (.approve k frm to v)).2.ont.bal = s.ont.bal ∧
    (txStep env s (.approve k frm to v)).2.ong.bal = s.ong.bal ∧
    ∀ x y, ((txStep env s (.approve k frm to v)).2.tok k).allow x y ≠ (s.tok k).allow x y →
      witness env env.caller frm = true ∧ x = frm ∧ y = to ∧
      ((txStep env s (.approve k frm to v)).2.tok k).allow x y = v := by
  rw [txStep_eq]
  simp only
  cases exec_approve_cases env s k frm to v with
  | inl e =>
    obtain ⟨e1, e2, _, e4⟩ := e
    rw [e1, e4]
    simp only [Res.commits, if_true]
    refine ⟨by cases k <;> rfl, by cases k <;> rfl, ?_⟩
    intro x y hne
    rw [tok_setTok, setAllow_allow] at hne ⊢
    by_cases hxy : x = frm ∧ y = to
    · rw [if_pos hxy]; exact ⟨e2, hxy.1, hxy.2, rfl⟩
    · rw [if_neg hxy] at hne; exact absurd rfl hne
  | inr e =>
    obtain ⟨⟨er, e1, _⟩, e2⟩ := e
    rw [e1]
    simp only [Res.commits]
    exact ⟨rfl, rfl, fun x y hne => absurd rfl hne⟩

/-- **The other token**: an ONG call does not touch ONT storage (nor the unbound offsets); an ONT call can take ONG
only from the ONT contract's own pool (the accrued ONG it pays out — "only a transfer between holders") -/
theorem C06_cross_token (env : Env) (s : St) (op : Op) :
    match opToken op with
    | .ong => (txStep env s op).2.ont = s.ont ∧ (txStep env s op).2.off = s.off
    | .ont => ∀ a, (txStep env s op).2.ong.bal a < s.ong.bal a → a = env.ontAddr := by
  rw [txStep_eq]
  simp only
  have hr := exec_rel env s op
  cases hk : opToken op with
  | ong =>
    simp only
    split
    · rename_i hc
      cases hr with
      | inl p => rw [p] at hc; exact absurd hc (by decide)
      | inr c =>
        have o := c.other
        rw [hk] at o
        exact o
    · exact ⟨rfl, rfl⟩
  | ont =>
    simp only
    intro a hlt
    split at hlt
    · rename_i hc
      cases hr with
      | inl p => rw [p] at hc; exact absurd hc (by decide)
      | inr c =>
        have o := c.other
        rw [hk] at o
        exact o.1 a hlt
    · omega

/-- **A failed call changes nothing** (transaction level): when the invocation returns an error or panics the
transaction's cache is dropped … -/
theorem C06_fail_noop (env : Env) (s : St) (op : Op) (hf : (txStep env s op).1.commits = false) :
    (txStep env s op).2 = s := by
  rw [txStep_eq] at hf ⊢
  simp only at hf ⊢
  rw [hf]; rfl


/-- a transfer state with amount zero is skipped before any check: it needs no witness and writes nothing -/
theorem C06_zero_transfer_noop (env : Env) (s : St) (k : Token) (frm to : Addr) :
    exec env s (.transfer k [⟨frm, to, 0⟩]) = (.ok, s) := by
  simp [exec, transferLoop, xferStep]

/-- **Authorization** (the property's sentence in one statement): if a call leaves account `a` of the call's token
with less than it had, then `a` witnessed the call, or the call is a `transferFrom` out of `a` by a sender that passed
the witness rule, for an amount within the allowance `a → sender`, which went down by exactly that amount. -/
theorem C06_auth (env : Env) (s : St) (op : Op) (a : Addr)
    (hlt : ((txStep env s op).2.tok (opToken op)).bal a < (s.tok (opToken op)).bal a) :
    witness env env.caller a = true ∨
    ∃ sender to v, op = .transferFrom (opToken op) sender a to v ∧
      transferFromAllowed env env.caller sender a to = true ∧ v ≤ (s.tok (opToken op)).allow a sender ∧
      ((txStep env s op).2.tok (opToken op)).allow a sender + v = (s.tok (opToken op)).allow a sender := by
  cases op with
  | transfer k xs => exact Or.inl (C06_auth_transfer env s k xs a hlt)
  | approve k frm to v =>
    exfalso
    obtain ⟨e1, e2, _⟩ := C06_auth_approve env s k frm to v
    cases k with
    | ont => simp only [opToken, St.tok] at hlt; rw [e1] at hlt; omega
    | ong => simp only [opToken, St.tok] at hlt; rw [e2] at hlt; omega
  | transferFrom k sender frm to v =>
    obtain ⟨e1, e2, e3, e4⟩ := C06_auth_transferFrom env s k sender frm to v a hlt
    subst e1
    exact Or.inr ⟨sender, to, v, rfl, e2, e3, e4⟩

/-! ### Non-vacuity: concrete calls on a concrete state -/

/-- signer 1; block time 1000 s after the holder deadline; `CalcUnbindOng` = balance × seconds -/
def exEnv : Env :=
  { signers := [1], caller := none, time := 2500, preExec := false, genesis := 1000, D := 500, ontAddr := 10, govAddr := 12,
    ontSupply := 1000000000000000000, ongSupply := 1000000000000000000000000000, calcOng := fun b s e => some (b * (e - s)) }

/-- account 1 holds 5 ONT, account 3 has allowed account 1 to spend 4 ONT of its 4 ONT, the ONT contract (10) holds the ONG pool -/
def exSt : St :=
  { ont := ⟨fun a => if a = 1 then 5 * SF else if a = 3 then 4 * SF else 0, fun o sp => if o = 3 ∧ sp = 1 then 4 * SF else 0⟩,
    ong := ⟨fun a => if a = 10 then 1000000 * SF else 0, fun _ _ => 0⟩, off := fun _ => 0 }

-- an ONT transfer after the deadline: 2 ONT move, and the 5 ONT × 1500 s of accrued ONG leave the ONT contract's pool
example :
    let r := txStep exEnv exSt (.transfer .ont [⟨1, 2, 2 * SF⟩])
    r.1 = .ok ∧ r.2.ont.bal 1 = 3 * SF ∧ r.2.ont.bal 2 = 2 * SF ∧ r.2.ong.bal 1 = 7500 * SF ∧
    r.2.ong.bal 10 = 992500 * SF ∧ r.2.off 1 = 1500 := by decide
-- the hypothesis of C06_auth_transfer is met (account 1 ends with less), and account 1 is indeed the signer
example : ((txStep exEnv exSt (.transfer .ont [⟨1, 2, 2 * SF⟩])).2.tok .ont).bal 1 < (exSt.tok .ont).bal 1 := by decide
-- the same transfer without account 1's signature fails and changes nothing
example : (txStep { exEnv with signers := [2] } exSt (.transfer .ont [⟨1, 2, 2 * SF⟩])).1 = .err .auth := by decide
-- a self-transfer: debit written, credit re-reads the reduced balance — the balance ends unchanged
example : (txStep exEnv exSt (.transfer .ont [⟨1, 1, 2 * SF⟩])).2.ont.bal 1 = 5 * SF := by decide
-- a two-state transfer whose second state fails: the cache holds the first state's writes, the transaction drops them
example :
    let op := Op.transfer .ont [⟨1, 2, 2 * SF⟩, ⟨1, 2, 9 * SF⟩]
    (exec exEnv exSt op).1 = .err .insufficient ∧ (exec exEnv exSt op).2.ont.bal 2 = 2 * SF ∧
    (txStep exEnv exSt op).2.ont.bal 2 = 0 := by decide
-- transferFrom within the allowance (hypothesis of C06_auth_transferFrom), beyond it, and of a zero amount
example : ((txStep exEnv exSt (.transferFrom .ont 1 3 2 (3 * SF))).2.tok .ont).bal 3 < (exSt.tok .ont).bal 3 ∧
    (txStep exEnv exSt (.transferFrom .ont 1 3 2 (3 * SF))).2.ont.allow 3 1 = SF := by decide
example : (txStep exEnv exSt (.transferFrom .ont 1 3 2 (4 * SF + 1))).1 = .err .allowance := by decide
example : (exec exEnv exSt (.transferFrom .ont 1 3 2 0)).1 = .retFalse := by decide
-- the lists of C06_conserve exist: accounts 1, 2, 3 and the ONT contract
example : [1, 2, 3, 10].Nodup ∧ (∀ a ∈ opAddrs (.transfer .ont [⟨1, 2, 2 * SF⟩]), a ∈ [1, 2, 3, 10]) ∧ exEnv.ontAddr ∈ [1, 2, 3, 10] := by
  decide

end OntVerif.Props.C06
