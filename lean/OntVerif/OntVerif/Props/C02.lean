import OntVerif.Proofs.ExecBlock
import OntVerif.Props.C17
import OntVerif.Gen.ExecGlobals
/-!
# C02 — Every node derives the same state from the same blocks

Property theorems only (helper lemmas: `Proofs/ExecBlock.lean`; model: `Model/ExecBlock.lean` on top of the storage model
`Model/KV.lean` of C03/C04; signer derivations: `Model/SigCheck.lean` of C16/C17; harness `harness/cmd/c02`).

`executeBlock env node perm signers b` is `LedgerStoreImp.executeBlock`: a total function of the node's persisted state,
its state merkle tree, the (refreshed) gas table, the block, and - per transaction - the witness predicate
`a ∈ signers tx`.  `handleTransaction` (the VM) is a parameter that receives exactly those.  Two nodes are two values of
`signers`: `seen cfg C true` (this node ran `validation.VerifyTransaction`: `SignedAddr` from the parsed keys) and
`seen cfg C false` (the transaction arrived inside a block: hash of every raw verification script).

* `C02_deterministic`: nothing else enters - not the order in which `GAS_TABLE.Range` fills the block's gas table, not the
  order in which the validator's Go map fills `SignedAddr` (`C02_signer_order_free`), not what the process-global gas table
  held before once the state defines every key (`C02_table_from_state`); the write set and its hash are those of
  `Model/KV.lean`, whose independence of the write history is C03 (`C03_final_content`, `C03_change_hash`).
* `C02_same_if_signers_agree`: if for every transaction both nodes' signer lists have the same members, both nodes compute
  the same results and end in the same state, block after block.  What remains - `C02_remaining_obligation` - **is C17**.
* It is discharged by C17 for the repaired fallback (`C02_full_sound`) and for canonical scripts
  (`C02_nodes_agree_canonical`), and refuted for the shipped fallback (`C02_asShipped_counterexample`): C17's unsorted
  2-of-2 transaction executed by a handler that does what fee charging does - `CheckWitness(payer)`.
-/
namespace OntVerif.Props.C02
open OntVerif.Util OntVerif.Model.KV OntVerif.Model.ExecBlock OntVerif.Proofs.ExecBlock
open OntVerif.Model.SigCheck OntVerif.Proofs.SigCheck

section
variable {Tx Tree : Type}

/-- **Determinism.** Two executions of the same block - on nodes that hold the same persisted state, the same state tree,
the same configuration and the same (refreshed) gas table, with ANY two enumeration orders of the gas table and signer
lists that have the same members for every transaction of the block - give the same result, the same overlay and the
same table.  No other input exists. -/
theorem C02_deterministic (env : Env Tx Tree) (n₁ n₂ : Node Tree) (perm₁ perm₂ : List (String × Nat) → List (String × Nat))
    (s₁ s₂ : Tx → List Bytes) (b : Block Tx)
    (hstore : n₁.store = n₂.store) (htree : n₁.tree = n₂.tree) (hchk : n₁.checkHeight = n₂.checkHeight)
    (hG : blockTable env n₁ b = blockTable env n₂ b) (hkeys : ((blockTable env n₁ b).map (·.1)).Nodup)
    (hp₁ : ∀ l, (perm₁ l).Perm l) (hp₂ : ∀ l, (perm₂ l).Perm l)
    (hs : ∀ tx ∈ b.txs, ∀ a, a ∈ s₁ tx ↔ a ∈ s₂ tx) :
    executeBlock env n₁ perm₁ s₁ b = executeBlock env n₂ perm₂ s₂ b := by
  have hl : gasLookup (perm₁ (blockTable env n₁ b)) = gasLookup (perm₂ (blockTable env n₂ b)) := by
    rw [← hG]
    have h1 := gasLookup_perm _ _ (hp₁ (blockTable env n₁ b)).symm hkeys
    have h2 := gasLookup_perm _ _ (hp₂ (blockTable env n₁ b)).symm hkeys
    rw [← h1, ← h2]
  simp only [executeBlock]
  rw [hl, ← hG, ← hstore, ← htree, ← hchk,
    txLoop_congr env _ b.ctx s₁ s₂ _ b.txs (fun tx ht => witness_congr (hs tx ht))]

/-- the refreshed table is a function of the state once the state gives every key a value: two processes whose global
tables have the same keys - whatever values they held - work with the same table -/
theorem C02_table_from_state (env : Env Tx Tree) (n₁ n₂ : Node Tree) (b : Block Tx) (hh : b.ctx.height ≠ 0)
    (hstore : n₁.store = n₂.store) (hk : n₁.gasGlobal.map (·.1) = n₂.gasGlobal.map (·.1))
    (hall : ∀ e ∈ n₁.gasGlobal, env.param n₁.store e.1 ≠ none) : blockTable env n₁ b = blockTable env n₂ b := by
  simp only [blockTable, hh, ne_eq, not_false_eq_true, if_true]
  rw [← hstore]
  exact refresh_state_only _ _ _ hk hall

/-- **Same blocks, same signer sets ⇒ same results and same final state**, for any sequence of blocks. -/
theorem C02_same_if_signers_agree (env : Env Tx Tree) (perm : List (String × Nat) → List (String × Nat))
    (s₁ s₂ : Tx → List Bytes) (node : Node Tree) (blocks : List (Block Tx))
    (hs : ∀ b ∈ blocks, ∀ tx ∈ b.txs, ∀ a, a ∈ s₁ tx ↔ a ∈ s₂ tx) :
    applyChain env perm s₁ node blocks = applyChain env perm s₂ node blocks :=
  applyChain_congr env perm s₁ s₂ blocks (fun b hb tx ht => witness_congr (hs b hb tx ht)) node

/-- the order (and multiplicity) in which the validator's Go map yields `SignedAddr` is invisible -/
theorem C02_signer_order_free (env : Env Tx Tree) (perm : List (String × Nat) → List (String × Nat))
    (s₁ s₂ : Tx → List Bytes) (node : Node Tree) (blocks : List (Block Tx)) (hp : ∀ tx, (s₁ tx).Perm (s₂ tx)) :
    applyChain env perm s₁ node blocks = applyChain env perm s₂ node blocks :=
  C02_same_if_signers_agree env perm s₁ s₂ node blocks (fun _ _ tx _ _ => (hp tx).mem_iff)

/-- conversely: if two nodes end up with different results, some transaction of some block has an account that is a
signer on one node and not on the other -/
theorem C02_divergence_needs_signer_difference (env : Env Tx Tree) (perm : List (String × Nat) → List (String × Nat))
    (s₁ s₂ : Tx → List Bytes) (node : Node Tree) (blocks : List (Block Tx))
    (hne : applyChain env perm s₁ node blocks ≠ applyChain env perm s₂ node blocks) :
    ∃ b ∈ blocks, ∃ tx ∈ b.txs, ∃ a, ¬ (a ∈ s₁ tx ↔ a ∈ s₂ tx) := by
  apply Classical.byContradiction
  intro hno
  apply hne
  apply C02_same_if_signers_agree
  intro b hb tx ht a
  apply Classical.byContradiction
  intro h
  exact hno ⟨b, hb, tx, ht, a, h⟩

end

/-! ## No hidden process-global state

`executeBlock` above is a function of the node's persisted state, its state tree, the refreshed gas table, the block and the
signer sets.  That is only a faithful picture of the Go code if execution keeps no OTHER state in the process: a package-level
variable written while blocks execute survives from block to block but not across a restart, so a restarted node and a node
that ran since genesis could derive different states from the same blocks (two ledgers replayed inside ONE process share such
a variable and agree, which is why the differential harness cannot be the only tie here).  `Gen/ExecGlobals.lean` is
regenerated from the source on every run: the set of package-level variables of the execution-path packages
(`smartcontract/…`, `vm/neovm/…`, `core/store/ledgerstore`, `core/store/overlaydb`) that are assigned, element- or
field-assigned, have their address taken or are mutated through `Store`/`Delete`/`Add`/… outside `func init()`. -/

/-- the reviewed ones, and why each is not an input of execution:
* `native.Contracts` - the native-contract registry, filled by the `Register…` functions the packages' `init`s call; constant
  once the process runs;
* `neovm.GAS_TABLE` - **modelled**: `Node.gasGlobal`, refreshed from the state at the start of every block
  (`C02_table_from_state`: a function of the state once the state defines every key);
* `wasmvm.CodeCache` - compiled wasm modules keyed by the hash of their code (a memo of a function of the code);
* `wasmvm.nextServiceDataIdx`, `wasmvm.serviceData` - the handle table through which the wasm JIT calls back into the
  running service; entries live for one invocation (the JIT is a stub in this sandbox). -/
def reviewedProcessGlobals : List String :=
  ["smartcontract/service/native.Contracts",
   "smartcontract/service/neovm.GAS_TABLE",
   "smartcontract/service/wasmvm.CodeCache",
   "smartcontract/service/wasmvm.nextServiceDataIdx",
   "smartcontract/service/wasmvm.serviceData"]

/-- **Execution has no hidden process-global state beyond the reviewed variables** - in particular no memo of a governed
opcode fee that would survive `refreshGlobalParam`.  Re-checked by the kernel against the regenerated fact. -/
theorem C02_no_hidden_process_state :
    OntVerif.Gen.ExecGlobals.runtimeWritten.map (·.1) = reviewedProcessGlobals := by decide

/-- the scan is not vacuous: it covers the execution-path packages and sees their package-level variables -/
theorem C02_process_state_scan_nonvacuous :
    30 ≤ OntVerif.Gen.ExecGlobals.scannedPackages ∧ 150 ≤ OntVerif.Gen.ExecGlobals.packageLevelVars := by decide

/-! ## The two nodes of the property: validated vs. fallback signer derivation (C17) -/

section
variable {Key Sig Tree : Type} [DecidableEq Key]
abbrev OTx := OntVerif.Model.Tx.Tx

/-- what is left to show for a given chain: every transaction authorizes the same accounts on both nodes. **This is the
statement of C17** (`Props.C17.C17_full_statement`), restricted to the transactions of the chain. -/
def C02_remaining_obligation (cfg : Cfg) (C : Crypto Key Sig) (blocks : List (Block OTx)) : Prop :=
  ∀ b ∈ blocks, ∀ tx ∈ b.txs, sameSet (seen cfg C true tx) (seen cfg C false tx)

/-- the verifying node and the syncing node agree on every block as soon as C17's statement holds for its transactions -/
theorem C02_nodes_agree_of_C17 (cfg : Cfg) (C : Crypto Key Sig) (env : Env OTx Tree)
    (perm : List (String × Nat) → List (String × Nat)) (node : Node Tree) (blocks : List (Block OTx))
    (h : C02_remaining_obligation cfg C blocks) :
    applyChain env perm (seen cfg C true) node blocks = applyChain env perm (seen cfg C false) node blocks :=
  C02_same_if_signers_agree env perm _ _ node blocks (fun b hb tx ht a => h b hb tx ht a)

/-- shipped fallback, canonical scripts: C17's `C17_equal_on_canonical_seen` discharges the obligation -/
theorem C02_nodes_agree_canonical (cfg : Cfg) (hf : cfg.fallback = .asShipped) (C : Crypto Key Sig) (env : Env OTx Tree)
    (perm : List (String × Nat) → List (String × Nat)) (node : Node Tree) (blocks : List (Block OTx))
    (hacc : ∀ b ∈ blocks, ∀ tx ∈ b.txs, ∃ addrs, checkSigs cfg C tx = .ok addrs)
    (hcan : ∀ b ∈ blocks, ∀ tx ∈ b.txs, ∀ rs ∈ tx.sigs, Canonical C.toLib rs.2) :
    applyChain env perm (seen cfg C true) node blocks = applyChain env perm (seen cfg C false) node blocks := by
  apply C02_nodes_agree_of_C17
  intro b hb tx ht a
  obtain ⟨addrs, hok⟩ := hacc b hb tx ht
  rw [OntVerif.Props.C17.C17_equal_on_canonical_seen cfg hf C tx addrs hok (hcan b hb tx ht)]

end

/-- The statement at full strength: any chain of blocks whose transactions the validator accepts gives the same results
and the same final state on the node that validated them and on the node that did not. -/
def C02_full_statement (cfg : Cfg) : Prop :=
  ∀ (Key Sig Tree : Type) [DecidableEq Key] (C : Crypto Key Sig) (env : Env OTx Tree)
    (perm : List (String × Nat) → List (String × Nat)) (node : Node Tree) (blocks : List (Block OTx)),
    (∀ b ∈ blocks, ∀ tx ∈ b.txs, ∃ addrs, checkSigs cfg C tx = .ok addrs) →
    applyChain env perm (seen cfg C true) node blocks = applyChain env perm (seen cfg C false) node blocks

/-- With the fallback derivation repaired (C17's `.sound`) the full statement holds. -/
theorem C02_full_sound (cfg : Cfg) (hf : cfg.fallback = .sound) : C02_full_statement cfg := by
  intro Key Sig Tree _ C env perm node blocks hacc
  apply C02_nodes_agree_of_C17
  intro b hb tx ht
  obtain ⟨addrs, hok⟩ := hacc b hb tx ht
  exact OntVerif.Props.C17.C17_full_sound cfg hf Key Sig C tx addrs hok

/-! ## Witness: the shipped fallback.  A handler that does what fee charging does (`CheckWitness(payer)`, then a write),
over the toy library of `Proofs/SigCheck.lean`; the transaction is C17's unsorted 2-of-2. -/

def toyEnv : Env OTx Unit where
  gasPrice := fun tx => tx.gasPrice
  handle := fun _ _ wit tx i _ c =>
    some ⟨((c.put stStorage tx.payer (if wit tx.payer then [1] else [2])).commit),
      ⟨tx.hashInput, if wit tx.payer then 1 else 0, 0, 0, i, [], []⟩, [], []⟩
  param := fun _ _ => none
  evmWitness := fun _ => []
  H := id
  bloomOf := fun _ => []
  crossRoot := fun _ => []
  totalStateHash := fun _ => []
  rootWith := fun _ h => h
  treeAppend := fun _ _ => ()
  emptyHash := []

def toyNode : Node Unit := ⟨[], (), [("a", 1)], 0⟩
def toyChain : List (Block OTx) := [⟨⟨1, 1, []⟩, [OntVerif.Props.C17.unsortedTx]⟩]

/-- the validating node records success and writes 1, the syncing node records failure and writes 2 -/
theorem C02_toy_diverges :
    (applyChain toyEnv id (seen Cfg.asShipped toy true) toyNode toyChain).1 ≠
    (applyChain toyEnv id (seen Cfg.asShipped toy false) toyNode toyChain).1 := by decide

theorem C02_asShipped_counterexample : ¬ C02_full_statement Cfg.asShipped := by
  intro h
  have := h Nat Nat Unit toy toyEnv id toyNode toyChain (by
    intro b hb tx ht
    simp only [toyChain, List.mem_singleton] at hb
    subst hb
    simp only [List.mem_singleton] at ht
    subst ht
    exact ⟨_, OntVerif.Props.C17.C17_unsorted_accepted⟩)
  exact C02_toy_diverges (congrArg Prod.fst this)

/-- with the repaired fallback the same chain gives the same results (instance of `C02_full_sound`) -/
example : (applyChain toyEnv id (seen Cfg.sound toy true) toyNode toyChain).1 =
    (applyChain toyEnv id (seen Cfg.sound toy false) toyNode toyChain).1 := by decide

/-- non-vacuity of `C02_nodes_agree_canonical` / `C02_same_if_signers_agree`: C17's canonical transaction, two blocks,
the second one empty; the result is not the trivial one -/
example : (applyChain toyEnv id (seen Cfg.asShipped toy true) toyNode
      [⟨⟨1, 1, []⟩, [OntVerif.Props.C17.canonTx]⟩, ⟨⟨2, 2, []⟩, []⟩]).1 =
    (applyChain toyEnv id (seen Cfg.asShipped toy false) toyNode
      [⟨⟨1, 1, []⟩, [OntVerif.Props.C17.canonTx]⟩, ⟨⟨2, 2, []⟩, []⟩]).1 ∧
    ((applyChain toyEnv id (seen Cfg.asShipped toy true) toyNode
      [⟨⟨1, 1, []⟩, [OntVerif.Props.C17.canonTx]⟩, ⟨⟨2, 2, []⟩, []⟩]).1.map (·.writeSet)) =
      [[(stStorage :: OntVerif.Props.C17.sortedScript, [1])], []] := by decide

/-- non-vacuity of `C02_deterministic`'s gas-table hypothesis: a reversed enumeration order gives the same lookups -/
example : gasLookup [("a", 1), ("b", 2), ("c", 3)] = gasLookup [("c", 3), ("a", 1), ("b", 2)] :=
  gasLookup_perm _ _ (by decide) (by decide)

end OntVerif.Props.C02
