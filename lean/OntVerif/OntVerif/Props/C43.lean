import OntVerif.Proofs.Bloom
/-!
# C43 — Block log blooms never miss a log of the block; the section bit index agrees with the block blooms

Model: `Model/Bloom.lean`. go-ethereum's `LogsBloom` / `Bloom.Test` / `bloombits.Generator` are modelled (not verified); Keccak is the
abstract function `idx3`. The byte/bit conventions of the model are tied to the code by the harness `harness/cmd/c43`.
-/
namespace OntVerif.Props.C43
open OntVerif.Util OntVerif.Model.Bloom OntVerif.Proofs.Bloom

/-- **No log is missed**: for every block (any list of transactions with or without receipt), every receipt, every log of it:
the address and every topic test positive in the block bloom — for all log lists and every bit-selection function `idx3`. -/
theorem C43_contains (idx3 : Bytes → Idx3) (receipts : List (Option (List Log))) (logs : List Log) (l : Log)
    (hr : some logs ∈ receipts) (hl : l ∈ logs) :
    test (blockBloom idx3 receipts) (idx3 l.address) = true ∧
    ∀ t ∈ l.topics, test (blockBloom idx3 receipts) (idx3 t) = true :=
  test_foldLogs idx3 (allLogs receipts) 0 l (mem_allLogs hr hl)

/-- the hypotheses of `C43_contains` are satisfiable, and the conclusion is not trivial (a datum with other bits tests negative) -/
example :
    let idx3 : Bytes → Idx3 := fun b => if b = [1] then (3, 4, 5) else if b = [2] then (4, 2047, 0) else (9, 9, 9)
    let l : Log := ⟨[1], [[2]]⟩
    some [l] ∈ [none, some [l]] ∧ l ∈ [l] ∧ test (blockBloom idx3 [none, some [l]]) (idx3 [2]) = true ∧
      test (blockBloom idx3 [none, some [l]]) (idx3 [7]) = false := by
  refine ⟨by simp, by simp, ?_, ?_⟩
  · simp [blockBloom, allLogs, logsBloom, addLog, add, test, BitVec.getLsbD_or, BitVec.getLsbD_twoPow]
  · simp [blockBloom, allLogs, logsBloom, addLog, add, test, BitVec.getLsbD_or, BitVec.getLsbD_twoPow]
    decide

/-- **The section index is the transposition of the block blooms**: for every section size `S` (a multiple of 8, as the generator
demands) and every `S` blooms, `PutBloomIndex` does not panic and writes 2048 vectors such that for every bit `i` and every
position `j`, bit `j` (MSB numbering: byte `j/8`, mask `1 << (7 - j%8)`) of vector `i` is bit `i` of the bloom of block `j`. -/
theorem C43_section_agrees (S : Nat) (hS : S % 8 = 0) (blooms : List Bloom) (hlen : blooms.length = S) :
    ∃ vs, sectionVectors S blooms = some vs ∧ ∃ hv : vs.length = 2048,
      ∀ i (hi : i < 2048) j (hj : j < S), (vs[i]'(by omega)).getMsbD j = (blooms[j]'(by omega)).getLsbD i := by
  obtain ⟨g', e1, n1, l1, a1, _⟩ := addAll_spec (S := S) blooms ⟨zeroVecs S, 0⟩ (by simp [hlen]) (zeroVecs_length S)
  simp only [Nat.zero_add] at e1 n1 a1
  obtain ⟨vs, e2, lv, hv⟩ := bitsets_spec g' (by omega) 2048 0 (by omega) l1
  refine ⟨vs, ?_, lv, ?_⟩
  · simp [sectionVectors, newGen, hS, e1, e2]
  · intro i hi j hj
    rw [hv i hi, BitVec.getMsbD_eq_getLsbD]
    simp only [Nat.zero_add]
    rw [a1 i hi j (by omega), zeroVecs_getLsbD]
    simp [hj]

/-- a generator for a section size that is not a multiple of 8 is refused (the model keeps the error branch) -/
example : sectionVectors 12 (List.replicate 12 0) = none := by simp [sectionVectors, newGen]

end OntVerif.Props.C43
