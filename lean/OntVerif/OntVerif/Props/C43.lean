import OntVerif.Proofs.BloomBook
import OntVerif.Gen.BloomAlias
import OntVerif.Gen.BloomCollect
/-!
# C43 — Block log blooms never miss a log of the block; the section bit index agrees with the block blooms

Model: `Model/Bloom.lean`. go-ethereum's `LogsBloom` / `Bloom.Test` / `bloombits.Generator` are modelled (not verified); Keccak is the
abstract function `idx3`. The byte/bit conventions of the model are tied to the code by the harness `harness/cmd/c43`.
-/
namespace OntVerif.Props.C43
open OntVerif.Util OntVerif.Model.Bloom OntVerif.Proofs.Bloom

/-- **No log is missed**: for every block (any list of transactions with or without receipt), every receipt — successful OR
FAILED: the status is a field of the receipt that the collection does not look at —, every log of it: the address and every topic
test positive in the block bloom, for all log lists and every bit-selection function `idx3`. -/
theorem C43_contains (idx3 : Bytes → Idx3) (receipts : List (Option Receipt)) (r : Receipt) (l : Log)
    (hr : some r ∈ receipts) (hl : l ∈ r.logs) :
    test (blockBloom idx3 receipts) (idx3 l.address) = true ∧
    ∀ t ∈ l.topics, test (blockBloom idx3 receipts) (idx3 t) = true :=
  test_foldLogs idx3 (allLogs receipts) 0 l (mem_allLogs hr hl)

/-- the hypotheses of `C43_contains` are satisfiable, and the conclusion is not trivial (a datum with other bits tests negative) -/
example :
    let idx3 : Bytes → Idx3 := fun b => if b = [1] then (3, 4, 5) else if b = [2] then (4, 2047, 0) else (9, 9, 9)
    let l : Log := ⟨[1], [[2]]⟩
    some ⟨false, [l]⟩ ∈ [none, some (⟨false, [l]⟩ : Receipt)] ∧ l ∈ [l] ∧
      test (blockBloom idx3 [none, some ⟨false, [l]⟩]) (idx3 [2]) = true ∧
      test (blockBloom idx3 [none, some ⟨false, [l]⟩]) (idx3 [7]) = false := by
  refine ⟨by simp, by simp, ?_, ?_⟩
  · simp [blockBloom, allLogs, logsBloom, addLog, add, test, BitVec.getLsbD_or, BitVec.getLsbD_twoPow]
  · simp [blockBloom, allLogs, logsBloom, addLog, add, test, BitVec.getLsbD_or, BitVec.getLsbD_twoPow]
    decide

/-- **a FAILED receipt counts**: a block whose only EVM transaction failed (reverted / out of gas / insufficient funds) but paid a
gas fee has a receipt with status failed that carries the fee-transfer log of the ONG contract; its address and its three topics
are in the block bloom (instance of `C43_contains`), and the bloom is not empty -/
example :
    let idx3 : Bytes → Idx3 := fun b => if b = [0, 2] then (3, 4, 5) else if b = [0xdd] then (4, 2047, 0) else (9, 10, 11)
    let fee : Log := ⟨[0, 2], [[0xdd], [0xaa], [0xbb]]⟩          -- ONG contract; Transfer signature, payer, fee receiver
    let receipts : List (Option Receipt) := [none, some ⟨true, [fee]⟩]      -- a native transaction, then the failed EVM transaction
    (test (blockBloom idx3 receipts) (idx3 fee.address) = true ∧
      ∀ t ∈ fee.topics, test (blockBloom idx3 receipts) (idx3 t) = true) ∧ blockBloom idx3 receipts ≠ 0 := by
  intro idx3 fee receipts
  refine ⟨C43_contains idx3 receipts ⟨true, [fee]⟩ fee (by simp [receipts]) (by simp), ?_⟩
  intro h
  have h1 := (C43_contains idx3 receipts ⟨true, [fee]⟩ fee (by simp [receipts]) (by simp)).1
  rw [h] at h1
  simp [test] at h1

/-! ### How `executeBlock` collects the logs (`Gen/BloomCollect.lean`, regenerated from `ledger_store.go` on every run)

The model's `allLogs` takes the logs of every transaction that has a receipt and never looks at the receipt status.  Tie to the
source: inside the loop over `block.Transactions` the collecting statement is `allLogs = append(allLogs, receipt.Logs...)`, the ONLY
condition around it is `receipt != nil` (no status test, no other guard), nothing else assigns `allLogs`, and the loop has no
`continue` / `break` that would skip a transaction. -/

open OntVerif.Gen.BloomCollect in
theorem C43_collects_every_receipt :
    collectAppend = "append(allLogs, receipt.Logs...)" ∧ collectGuards = ["receipt != nil"] ∧
    collectOtherWrites = [] ∧ loopSkips = [] := by decide

/-- **The section index is the transposition of the block blooms**: for every section size `S` (a multiple of 8, as the generator
demands) and every `S` blooms, `PutBloomIndex` does not panic and writes 2048 vectors such that for every bit `i` and every
position `j`, bit `j` (MSB numbering: byte `j/8`, mask `1 << (7 - j%8)`) of vector `i` is bit `i` of the bloom of block `j`. -/
theorem C43_section_agrees (S : Nat) (hS : S % 8 = 0) (blooms : List Bloom) (hlen : blooms.length = S) :
    ∃ vs, sectionVectors S blooms = some vs ∧ ∃ hv : vs.length = 2048,
      ∀ i (hi : i < 2048) j (hj : j < S), (vs[i]'(by omega)).getMsbD j = (blooms[j]'(by omega)).getLsbD i := by
  obtain ⟨g', e1, n1, l1, a1, _⟩ := addAll_spec (S := S) blooms ⟨zeroVecs S, 0⟩ (by simp [hlen]) (zeroVecs_length S)
  simp only [Nat.zero_add] at e1 n1 a1
  obtain ⟨vs, e2, lv, hv⟩ := bitsets_spec g' (by omega) 2048 0 (by omega) l1
  refine ⟨vs, ?_, lv, ?_⟩
  · simp [sectionVectors, newGen, hS, e1, e2]
  · intro i hi j hj
    rw [hv i hi, BitVec.getMsbD_eq_getLsbD]
    simp only [Nat.zero_add]
    rw [a1 i hi j (by omega), zeroVecs_getLsbD]
    simp [hj]

/-- a generator for a section size that is not a multiple of 8 is refused (the model keeps the error branch) -/
example : sectionVectors 12 (List.replicate 12 0) = none := by simp [sectionVectors, newGen]

/-! ### The Go aliasing facts the value-based model of `bloomCache` relies on (`Gen/BloomAlias.lean`, regenerated from
`core/store/ledgerstore/block_store.go` on every run)

`bloomCache` is a `map[uint32]*types2.Bloom`; the model keeps a bloom VALUE per height.  That is faithful only if every
`bloomCache[h] = &x` takes the address of a variable that is a distinct variable per stored height (a by-value parameter of a
function that stores once per call, or a variable declared inside the body of the loop that stores it) and nothing writes through an
entry.  If `LoadBloomBits` took the address of a variable declared outside its loop, every reloaded entry would alias it. -/

open OntVerif.Gen.BloomAlias in
theorem C43_cache_entries_distinct :
    cacheStoresDistinct = true ∧ cacheStores.length = 2 ∧ cacheWritesThroughEntry = [] := by decide

/-- every committed height belongs to exactly one section -/
theorem C43_one_section (S : Nat) (hS : 0 < S) (h : Nat) : ∃ k, (k * S ≤ h ∧ h < k * S + S) ∧ ∀ k', (k' * S ≤ h ∧ h < k' * S + S) → k' = k := by
  refine ⟨h / S, ⟨Nat.div_mul_le_self h S, ?_⟩, fun k' hk => ?_⟩
  · have := Nat.lt_mul_div_succ h hS
    rw [Nat.mul_add, Nat.mul_one, Nat.mul_comm] at this; exact this
  · exact (Nat.div_eq_of_lt_le hk.1 (by rw [Nat.succ_mul]; exact hk.2)).symm

/-! ## bookkeeping of the block store

A history is a start (`fresh`: this build creates the genesis block; `legacy cur`: a block store written up to `cur` by a build
without the bloom index) followed by any sequence of block commits and reopenings.  `given h` is the bloom of block `h`
(blocks below `adh` carry no EVM log: the transaction pool refuses EIP-155 transactions there). -/

/-- what the final state must satisfy -/
def Good (S adh : Nat) (given : Nat → Bloom) (st : Start) (s : St) : Prop :=
  ∃ c, s.store.cur = some c ∧
    -- every height from the filter start on reads back the bloom of its block (`GetBloomData`)
    (∀ h, s.mem.filterStart ≤ h → h ≤ c → getBloomData s.store h = given h) ∧
    -- every complete section from the filter start on was indexed from exactly the blooms of its heights, in order
    (∀ k, s.mem.filterStart ≤ k * S → k * S + S ≤ c + 1 → lookup k s.store.index = some (secBlooms given (k * S) S)) ∧
    -- on a chain built by this build from genesis that covers every height at which EVM logs can exist
    (st = .fresh →
      (∀ h, adh ≤ h → h ≤ c → getBloomData s.store h = given h) ∧
      (∀ k, adh / S * S ≤ k * S → k * S + S ≤ c + 1 → lookup k s.store.index = some (secBlooms given (k * S) S)))

/-- the property for one variant of the code: no history panics (nil dereference of a missing cache entry in `SaveBloomData`,
`panic(err)` in `PutBloomIndex`) and every history ends in a good state — for every section size, chain, start and schedule -/
def C43_full_statement (v : Variant) : Prop :=
  ∀ (S adh : Nat) (given : Nat → Bloom) (st : Start) (ops : List Op), 0 < S → S % 8 = 0 → (∀ h, h < adh → given h = 0) →
    match run v S adh given st ops with
    | none => False
    | some s => Good S adh given st s

private theorem good_of_inv {S adh : Nat} {given : Nat → Bloom} {st : Start} {lo c : Nat} {s : St} (I : Inv S given lo c s)
    (hf : st = .fresh → lo ≤ minFilterStart S adh) : Good S adh given st s := by
  refine ⟨c, I.st.cur, fun h a b => I.st.stored h (by have := I.lo_fs; omega) b,
    fun k a b => I.st.index k (by have := I.lo_fs; omega) b, fun e => ⟨fun h a b => ?_, fun k a b => ?_⟩⟩
  · exact I.st.stored h (by have := hf e; have := minFilterStart_le S adh; omega) b
  · exact I.st.index k (by have := hf e; unfold minFilterStart at this; omega) b

/-- the two halves together: the bit vectors `PutBloomIndex` derives from the bloom list recorded for section `k` of a good state
are the transposition of the blooms of the blocks `k*S … k*S+S-1` -/
theorem C43_index_bits (S : Nat) (hS8 : S % 8 = 0) (given : Nat → Bloom) (k : Nat) :
    ∃ vs, sectionVectors S (secBlooms given (k * S) S) = some vs ∧ ∃ hv : vs.length = 2048,
      ∀ i (hi : i < 2048) j (_ : j < S), (vs[i]'(by omega)).getMsbD j = (given (k * S + j)).getLsbD i := by
  obtain ⟨vs, e, hv, h⟩ := C43_section_agrees S hS8 (secBlooms given (k * S) S) (secBlooms_length given S (k * S))
  refine ⟨vs, e, hv, fun i hi j hj => ?_⟩
  rw [h i hi j hj, secBlooms_getElem]

/-- **Bookkeeping, repaired code** (`fixes/C43-filterstart-height.patch`): the full statement. -/
theorem C43_bookkeeping : C43_full_statement .sound := by
  intro S adh given st ops hS h8 hg
  have hS2 : 2 ≤ S := by omega
  unfold run
  cases st with
  | fresh =>
    obtain ⟨s0, e0, i0, k0⟩ := start_fresh_sound (given := given) adh hS2
    obtain ⟨s', c', e1, i1⟩ := runOps_keyed .sound adh hS h8 ops i0 k0
    simp only [e0, e1]
    exact good_of_inv i1 (fun _ => Nat.le_refl _)
  | legacy cur0 =>
    obtain ⟨s0, lo, e0, i0, k0⟩ := start_legacy_sound (given := given) adh cur0 hS hg
    obtain ⟨s', c', e1, i1⟩ := runOps_keyed .sound adh hS h8 ops i0 k0
    simp only [e0, e1]
    exact good_of_inv i1 (fun e => by cases e)

/-- **Bookkeeping, code as shipped**: the statement holds for every chain this build starts from its own genesis block — whatever
the section size, the chain length, the blooms and the schedule of restarts (including the restart that replaces the filter start 0
by the section count `ceil(h/S)`, and main-net shapes where heights below `MinFilterStart` are skipped). -/
theorem C43_bookkeeping_partial (S adh : Nat) (given : Nat → Bloom) (ops : List Op) (hS : 0 < S) (h8 : S % 8 = 0) :
    match run .asShipped S adh given .fresh ops with
    | none => False
    | some s => Good S adh given .fresh s := by
  have hS2 : 2 ≤ S := by omega
  unfold run
  obtain ⟨s0, e0, i0⟩ := start_fresh_asShipped (given := given) adh hS2
  obtain ⟨s', lo', c', e1, i1, b1⟩ := runOps_asShipped adh hS h8 ops i0 (Nat.zero_le _)
  simp only [e0, e1]
  exact good_of_inv i1 (fun _ => b1)

/-- **As shipped, legacy data**: a block store written up to height 9 by a build without the index (sections of 8 blocks, `adh` = 0)
gets the filter start `(9+7)/8 = 2` — a section count — so height 2 is inside the advertised range `[filter start, current]` but reads
back the empty bloom although its block has a log.  (On the real code: `B 0 j10000 …`, filter start 3 instead of 12288.) -/
theorem C43_asShipped_counterexample : ¬ C43_full_statement .asShipped := by
  intro h
  have e : ∃ s, run .asShipped 8 0 exGiven (.legacy 9) [] = some s ∧ s.mem.filterStart = 2 ∧ s.store.cur = some 9 ∧
      s.store.blooms = ∅ := by
    refine ⟨_, rfl, ?_, ?_, ?_⟩ <;> simp [loadBloomBits, filterStartOf, initStart, emptyStore]
  obtain ⟨s, es, e1, e2, e3⟩ := e
  have := h 8 0 exGiven (.legacy 9) [] (by omega) (by omega) (fun _ hlt => by omega)
  rw [es] at this
  obtain ⟨c, hc, h1, _⟩ := this
  rw [e2] at hc
  have h2 := h1 2 (by omega) (by simp at hc; omega)
  simp [getBloomData, e3, exGiven] at h2

/-- the hypotheses are satisfiable and the statements are not vacuous: a concrete history (sections of 8 blocks) that crosses a
section boundary, restarts in the middle of the next section and completes it runs without panic, in both variants -/
example : (run .asShipped 8 0 exGiven .fresh (List.replicate 9 .save ++ [.reopen] ++ List.replicate 6 .save)).isSome = true ∧
    (run .sound 8 0 exGiven .fresh (List.replicate 9 .save ++ [.reopen] ++ List.replicate 6 .save)).isSome = true ∧
    (run .sound 8 0 exGiven (.legacy 9) (List.replicate 8 .save)).isSome = true := by
  have a := C43_bookkeeping_partial 8 0 exGiven (List.replicate 9 .save ++ [.reopen] ++ List.replicate 6 .save) (by omega) (by omega)
  have b := C43_bookkeeping 8 0 exGiven .fresh (List.replicate 9 .save ++ [.reopen] ++ List.replicate 6 .save) (by omega) (by omega)
    (fun _ h => by omega)
  have c := C43_bookkeeping 8 0 exGiven (.legacy 9) (List.replicate 8 .save) (by omega) (by omega) (fun _ h => by omega)
  refine ⟨?_, ?_, ?_⟩
  · revert a; cases run .asShipped 8 0 exGiven .fresh (List.replicate 9 .save ++ [.reopen] ++ List.replicate 6 .save) <;> simp
  · revert b; cases run .sound 8 0 exGiven .fresh (List.replicate 9 .save ++ [.reopen] ++ List.replicate 6 .save) <;> simp
  · revert c; cases run .sound 8 0 exGiven (.legacy 9) (List.replicate 8 .save) <;> simp

/-- a missing cache entry does panic in the model (the error branch is kept): saving the last height of a section on a block store
whose cache was never loaded -/
example : saveBloomData 8 ⟨newMem, emptyStore⟩ 7 0 = none := by
  simp [saveBloomData, newMem, emptyStore, collect]

end OntVerif.Props.C43
