import OntVerif.Proofs.BlockPool
import OntVerif.Gen.VbftIntake
/-!
# C31 — Commit is declared only with a verifiable two-thirds signer quorum

Model: `Model/BlockPool.lean` (literal mirror of the pool intake functions, `getCommitConsensus`, `commitDone`, and of
the one check `service.go` performs before intake: `msg.Verify(public key of the p2p sender)`), tied to the real
`BlockPool` by `harness/cmd/c31`. Signatures and hashes are abstract; `genuineFor N c p i` says that peer `i < N` has,
somewhere in the candidate state `c`, a signature that verifies under `i`'s key for the hash of a block proposed by `p`.
`order` is Go's map iteration order (any duplicate-free key list).

The full statement is **false for the shipped code** (`.asShipped`) in five distinct ways, each with a `decide`-checked
witness below and a known-finding class replayed on the real pool; it is proved for the `.sound` variant (intake
compares claimed index with sender, signed hash with the stored proposal, verifies every `EndorsersSig` entry, counts
the proposer once) and, for `.asShipped`, under the hypothesis that every signature reaching the pool is genuine.
-/
namespace OntVerif.Props.C31
open OntVerif.Model.BlockPool OntVerif.Gen.Quorum OntVerif.Proofs.BlockPool

/-- **C31.** For every history of delivered messages, every map iteration order and every `C`: when `commitDone`
declares `(p, _, true)`, at least `N-(N-1)/3` distinct consensus peers have a genuine signature for `p` in the pool. -/
def C31_full_statement (v : Variant) : Prop :=
  ∀ (N C Csrv : Nat) (endorsers : List Nat) (hist : List Delivery) (order : List Nat) (p : Nat) (fe : Bool),
    order.Nodup →
    commitDone v N Csrv endorsers (run v N {} hist) order C = (p, fe, true) →
    commitConsensus_q N ≤ genuineCount N (run v N {} hist) p

/-- the repaired intake satisfies the property, for all `N`, histories (including every forged message), orders -/
theorem C31_sound : C31_full_statement .sound := by
  intro N C Csrv endorsers hist order p fe hn h
  exact commitDone_count .sound N Csrv endorsers _ order C p fe (inv_run_sound N {} hist (inv_empty N)) hn
    (fun e => by cases e) h

/-- the shipped code satisfies it on histories in which every signature is what the message claims
(`CleanDelivery`: claimed index = sender, signed hash = a block of the named proposer, `EndorsersSig` entries and the
`ProposerSig` copy verify, no proposer vouching for itself) — i.e. the counting itself is right, the intake is not -/
theorem C31_asShipped_partial (N C Csrv : Nat) (endorsers : List Nat) (hist : List Delivery) (order : List Nat)
    (p : Nat) (fe : Bool) (hclean : ∀ d ∈ hist, CleanDelivery N d) (hn : order.Nodup)
    (h : commitDone .asShipped N Csrv endorsers (run .asShipped N {} hist) order C = (p, fe, true)) :
    commitConsensus_q N ≤ genuineCount N (run .asShipped N {} hist) p := by
  obtain ⟨inv, ns⟩ := inv_run_asShipped N {} hist (inv_empty N) (fun _ h => by simp at h) hclean
  exact commitDone_count .asShipped N Csrv endorsers _ order C p fe inv hn (fun _ => ns) h

/-! ### Counterexamples for the shipped code (each is the replay line of a known finding) -/

private def B (p ver : Nat) (fe : Bool) : Hash := .block p ver fe

/-- one commit message from faulty peer 3 claiming endorsers `{0,1,2}` with junk signatures (N = 4) -/
def witnessForgedEndorsers : List Delivery :=
  [.commit 3 ⟨3, 3, B 3 0 false, false, .valid 3 (B 3 0 false), [(0, .junk 1), (1, .junk 1), (2, .junk 0)], .valid 3 (B 3 0 false)⟩]

theorem C31_asShipped_counterexample : ¬ C31_full_statement .asShipped := by
  intro h
  have := h 4 1 1 [0, 1, 2, 3] witnessForgedEndorsers [0, 1, 2, 3] 3 false (by decide) (by decide)
  revert this
  decide

/-- a history on which the model of the shipped code declares commit for `p` with fewer than `q` genuine signers -/
def Violates (N : Nat) (hist : List Delivery) (order : List Nat) (p : Nat) : Prop :=
  (commitDone .asShipped N 1 [0, 1, 2, 3] (run .asShipped N {} hist) order 1).2.2 = true ∧
  (commitDone .asShipped N 1 [0, 1, 2, 3] (run .asShipped N {} hist) order 1).1 = p ∧
  genuineCount N (run .asShipped N {} hist) p < commitConsensus_q N

instance (N : Nat) (hist : List Delivery) (order : List Nat) (p : Nat) : Decidable (Violates N hist order p) := by
  unfold Violates; infer_instance

theorem C31_violated_forged_endorser_sigs : Violates 4 witnessForgedEndorsers [0, 1, 2, 3] 3 := by decide

/-- faulty peer 3 sends endorsements signed with its own key in the names of peers 0 and 2 (and its own) -/
theorem C31_violated_index_not_bound_to_sender :
    Violates 4 [.proposal ⟨1, 0, .valid 1 (B 1 0 false), .valid 1 (B 1 0 true)⟩,
      .endorse 3 ⟨0, 1, B 1 0 false, false, .valid 3 (B 1 0 false)⟩,
      .endorse 3 ⟨2, 1, B 1 0 false, false, .valid 3 (B 1 0 false)⟩,
      .endorse 3 ⟨3, 1, B 1 0 false, false, .valid 3 (B 1 0 false)⟩] [0, 1, 2, 3] 1 := by decide

/-- peers 0 and 2 sign a hash that is no block at all, naming proposer 1 -/
theorem C31_violated_hash_not_bound_to_proposal :
    Violates 4 [.proposal ⟨1, 0, .valid 1 (B 1 0 false), .valid 1 (B 1 0 true)⟩,
      .endorse 0 ⟨0, 1, .other 7, false, .valid 0 (.other 7)⟩,
      .endorse 2 ⟨2, 1, .other 7, false, .valid 2 (.other 7)⟩] [0, 1, 2, 3] 1 := by decide

/-- the proposer is recorded as committer of its own proposal and counted again by the `+1` -/
theorem C31_violated_proposer_counted_twice :
    Violates 4 [.proposal ⟨1, 0, .valid 1 (B 1 0 false), .valid 1 (B 1 0 true)⟩,
      .commit 1 ⟨1, 1, B 1 0 false, false, .valid 1 (B 1 0 false), [(0, .valid 0 (B 1 0 false))], .valid 1 (B 1 0 false)⟩]
      [0, 1, 2, 3] 1 := by decide

/-- the `+1` is added although no signature of the proposer is in the pool -/
theorem C31_violated_proposer_presumed :
    Violates 4 [.commit 0 ⟨0, 1, B 1 0 false, false, .junk 1, [(2, .valid 2 (B 1 0 false))], .valid 0 (B 1 0 false)⟩]
      [0, 1, 2, 3] 1 := by decide

/-! ### Map iteration order -/

private def eN (i p : Nat) : Delivery := .endorse i ⟨i, p, B p 0 false, false, .valid i (B p 0 false)⟩
private def eE (i p : Nat) : Delivery := .endorse i ⟨i, p, B p 0 true, true, .valid i (B p 0 true)⟩

/-- the `forEmpty` component of the verdict depends on the iteration order (the `done` component and the quorum
statement above hold for every order). Corpus line
`P 4 1 0,1,2,3 e,0,0,1,8,0,0.8;e,0,0,1,10,1,0.10;e,1,1,1,8,0,1.8;e,1,1,1,10,1,1.10;e,2,2,1,8,0,2.8;e,3,3,1,10,1,3.10;cd`. -/
theorem C31_forEmpty_depends_on_map_order :
    let c := run .asShipped 4 {} [eN 0 1, eE 0 1, eN 1 1, eE 1 1, eN 2 1, eE 3 1]
    commitDone .asShipped 4 1 [0, 1, 2, 3] c [0, 1, 2, 3] 1 = (1, false, true) ∧
    commitDone .asShipped 4 1 [0, 1, 2, 3] c [3, 0, 1, 2] 1 = (1, true, true) := by decide

/-- `done` does not depend on the iteration order as long as no stored entry names the sentinel proposer `MaxUint32`
(the commit-message path does not iterate a map at all; on the signature-count path "no verdict" means that no
proposer has more than `N-(N-1)/3-1` non-empty endorse signatures, a property of the multiset of entries) -/
theorem C31_done_order_independent (v : Variant) (N Csrv : Nat) (endorsers : List Nat) (c : Cand) (o1 o2 : List Nat)
    (C : Nat) (hp : o1.Perm o2)
    (hs : ∀ i sigs, lookup i c.endorseSigs = some sigs → ∀ s ∈ sigs, s.proposer ≠ maxU32) :
    (commitDone v N Csrv endorsers c o1 C).2.2 = (commitDone v N Csrv endorsers c o2 C).2.2 := by
  unfold commitDone
  rcases getCommitConsensus v c.commitMsgs C N with ⟨p1, fe1⟩
  simp only
  by_cases hp1 : p1 = maxU32
  · have hb : (p1 == maxU32) = true := by simp [hp1]
    simp only [hb, if_true]
    have key := cdOuter_done_order_independent (isEndorser N Csrv endorsers) (commitDone_C N) c.endorseSigs o1 o2 hp hs fe1
    rcases h1 : cdOuter (isEndorser N Csrv endorsers) (commitDone_C N) (visit c.endorseSigs o1) 0 (fun _ => 0) fe1 with ⟨a1, b1⟩
    rcases h2 : cdOuter (isEndorser N Csrv endorsers) (commitDone_C N) (visit c.endorseSigs o2) 0 (fun _ => 0) fe1 with ⟨a2, b2⟩
    rw [h1, h2] at key
    simp only at key ⊢
    by_cases ha1 : a1 = maxU32
    · have ha2 := key.mp ha1
      simp [ha1, ha2]
    · have ha2 : a2 ≠ maxU32 := fun e => ha1 (key.mpr e)
      simp [ha1, ha2]
  · have hb : (p1 == maxU32) = false := by simp [hp1]
    simp [hb]

/-- with entries naming the sentinel proposer `MaxUint32` even `done` depends on the order: the inner `break` on the
sentinel skips the rest of that endorser's list. Corpus line
`P 4 1 0,1,2,3 e,0,0,1,8,0,0.8;e,0,0,4294967295,34359738360,0,0.34359738360;e,1,1,1,8,0,1.8;e,1,1,4294967295,34359738360,0,1.34359738360;e,2,2,4294967295,34359738360,0,2.34359738360;e,2,2,1,8,0,2.8;e,3,3,4294967295,34359738360,0,3.34359738360;cd`. -/
theorem C31_done_depends_on_map_order_with_sentinel :
    let c := run .asShipped 4 {} [eN 0 1, eN 0 maxU32, eN 1 1, eN 1 maxU32, eN 2 maxU32, eN 2 1, eN 3 maxU32]
    commitDone .asShipped 4 1 [0, 1, 2, 3] c [0, 1, 2, 3] 1 = (maxU32, false, false) ∧
    commitDone .asShipped 4 1 [0, 1, 2, 3] c [2, 0, 1, 3] 1 = (1, false, true) := by decide

/-! ### The intake gate of `service.go` (structural fact, regenerated by factgen on every run: `Gen/VbftIntake.lean`)

The model's `deliver` assumes that EVERY consensus message passes `msg.Verify(sender key)` before it reaches
`onConsensusMsg` / the msg pool (from where `startNewRound` and the fast-forward loop load parked messages of later rounds
into the block pool without verifying again). -/
/-- in the per-peer receive loop the deserialised message is verified under no condition on the message itself (only
"deserialised" and "sender key known"), and every hand-over of it (`onConsensusMsg`, any other call taking it, any channel
send) is dominated by the passed verification — no hand-over path without `Verify` -/
theorem C31_intake_verified :
    OntVerif.Gen.VbftIntake.intakeUnderstood = true ∧ 1 ≤ OntVerif.Gen.VbftIntake.verifyCalls ∧
    OntVerif.Gen.VbftIntake.verifyGuards.all (fun g => g == "deserialize-ok" || g == "key-known") = true ∧
    1 ≤ OntVerif.Gen.VbftIntake.handovers.length ∧
    OntVerif.Gen.VbftIntake.handovers.all (fun h => h.2.2) = true := by decide

/-! ### Non-vacuity -/

/-- an honest N = 4 run: proposal of 1, endorsements of 0 and 2, commit of 3 carrying them — clean, declared, quorum 3 -/
def honestRun : List Delivery :=
  [.proposal ⟨1, 0, .valid 1 (B 1 0 false), .valid 1 (B 1 0 true)⟩,
   .endorse 0 ⟨0, 1, B 1 0 false, false, .valid 0 (B 1 0 false)⟩,
   .endorse 2 ⟨2, 1, B 1 0 false, false, .valid 2 (B 1 0 false)⟩,
   .commit 3 ⟨3, 1, B 1 0 false, false, .valid 1 (B 1 0 false),
     [(0, .valid 0 (B 1 0 false)), (2, .valid 2 (B 1 0 false))], .valid 3 (B 1 0 false)⟩]

example : commitDone .sound 4 1 [0, 1, 2, 3] (run .sound 4 {} honestRun) [0, 1, 2, 3] 1 = (1, false, true) ∧
    genuineCount 4 (run .sound 4 {} honestRun) 1 = 4 := by decide
example : commitDone .asShipped 4 1 [0, 1, 2, 3] (run .asShipped 4 {} honestRun) [3, 2, 1, 0] 1 = (1, false, true) := by decide
example : ∀ d ∈ honestRun, CleanDelivery 4 d := by
  intro d hd
  simp only [honestRun, List.mem_cons, List.mem_nil_iff, or_false] at hd
  rcases hd with rfl | rfl | rfl | rfl <;> simp [CleanDelivery, isBlockHashOf, genuineSig, B, Commit.signers]
/-- the forged history is rejected piecewise by the sound intake: nothing is declared -/
example : (commitDone .sound 4 1 [0, 1, 2, 3] (run .sound 4 {} witnessForgedEndorsers) [0, 1, 2, 3] 1).2.2 = false := by decide

end OntVerif.Props.C31
