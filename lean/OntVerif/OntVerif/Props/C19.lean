import OntVerif.Proofs.TxRt
/-!
# C19 — Transaction encoding is canonical and its hash binds the signed content

Property theorems only (helper lemmas: `Proofs/Tx.lean`).  Model: `Model/Tx.lean` — `deserialize` is
`Transaction.Deserialization` (Ontology shapes deploy / invoke-neo / invoke-wasm and the EIP-155 wrapper),
`fromRawBytes` is `TransactionFromRawBytes`, `serTx` is the encoder determined by the parsed fields
(`MutableTransaction.serialize`; `00 d3 varbytes(rlp)` for EIP-155).  All statements are about an arbitrary cursor
position of an arbitrary buffer (a transaction inside a block or a network message).

go-ethereum's RLP decoder / sender recovery / hash are the abstract parameter `R : Rlp`; the only assumption ever
made about it is `R.canonical` (it accepts exactly the encoder's output), and only for the EIP-155 shape.
-/
namespace OntVerif.Props.C19
open OntVerif.Util OntVerif.Model.Codec OntVerif.Model.Tx OntVerif.Proofs.Codec OntVerif.Proofs.Tx

/-- **No panic**: on every byte string, at every cursor position, the decoder returns (a transaction or an error):
no slice/index expression of the Go code is out of range — including the `BackUp`/`NextBytes` re-reads whose
length is a uint64 difference. -/
theorem C19_total (R : Rlp) (s : Src) (w : s.wf) : deserialize R s ≠ .panic := by
  have := deserialize_spec R s w
  unfold SpecAt at this
  intro h
  rw [h] at this
  exact this

theorem C19_total_raw (R : Rlp) (raw : Bytes) (h : raw.length < two64) : fromRawBytes R raw ≠ .panic := by
  unfold fromRawBytes
  split
  · intro h; cases h
  · exact C19_total R ⟨raw, 0⟩ ⟨Nat.zero_le _, h⟩

/-- **Canonical**: if the decoder accepts, then re-serialising the parsed fields gives exactly the bytes it consumed,
and `tx.Raw` (what `ToArray`/`Serialization` emit) is those bytes; the cursor stays inside the buffer. -/
theorem C19_canonical (R : Rlp) (hR : R.canonical) (s : Src) (w : s.wf) (t : Tx) (s' : Src)
    (h : deserialize R s = .ok t s') :
    s'.bs = s.bs ∧ s.off ≤ s'.off ∧ s'.off ≤ s.bs.length ∧
    serTx t = consumed s s' ∧ t.raw = consumed s s' := by
  obtain ⟨adv, post⟩ := post_of_ok w h
  have hlen : s'.off ≤ s.bs.length := by have := adv.2.2; rw [adv.1] at this; exact this
  refine ⟨adv.1, adv.2.1, hlen, ?_⟩
  rw [← seg_eq_consumed]
  rcases post with ⟨hseg, hraw, _, hne, _, _⟩ | ⟨code, e, hdec, hseg, hfrom, _⟩
  · refine ⟨?_, hraw⟩
    rw [hseg]
    unfold serTx
    split
    · rename_i e he; exact absurd he (hne.not_eip e)
    · rfl
  · obtain ⟨hv, hty, hpl, hraw, _, _⟩ := fromEip155_ok hfrom
    have henc := hR code e hdec
    constructor
    · unfold serTx
      rw [hpl]
      simp only
      rw [hv, hty, henc, hseg]
    · rw [hraw, henc, hseg]

/-- For the three Ontology shapes no assumption about any library is needed. -/
theorem C19_canonical_ont (R : Rlp) (s : Src) (w : s.wf) (t : Tx) (s' : Src)
    (h : deserialize R s = .ok t s') (hty : t.txType ≠ 0xd3) :
    serTx t = consumed s s' ∧ t.raw = consumed s s' ∧ serTx t = serUnsigned t.unsigned ++ serSigs t.sigs := by
  obtain ⟨adv, post⟩ := post_of_ok w h
  rw [← seg_eq_consumed]
  rcases post with ⟨hseg, hraw, _, hne, _, _⟩ | ⟨code, e, hdec, hseg, hfrom, _⟩
  · have : serTx t = serUnsigned t.unsigned ++ serSigs t.sigs := by
      unfold serTx
      split
      · rename_i e he; exact absurd he (hne.not_eip e)
      · rfl
    exact ⟨by rw [hseg, this], hraw, this⟩
  · exact absurd (fromEip155_ok hfrom).2.1 hty

/-- **One encoding per field tuple**: two accepted byte strings (anywhere, in any buffers) whose parsed fields agree
are the same byte string — there is no second encoding of a transaction (no malleability through var-uint widths,
length fields, attribute count, signature framing or RLP forms). -/
theorem C19_one_encoding (R : Rlp) (hR : R.canonical) (s₁ s₂ : Src) (w₁ : s₁.wf) (w₂ : s₂.wf)
    (t₁ t₂ : Tx) (s₁' s₂' : Src)
    (h₁ : deserialize R s₁ = .ok t₁ s₁') (h₂ : deserialize R s₂ = .ok t₂ s₂')
    (hu : t₁.unsigned = t₂.unsigned) (hs : t₁.sigs = t₂.sigs) :
    consumed s₁ s₁' = consumed s₂ s₂' ∧ t₁.raw = t₂.raw := by
  obtain ⟨_, _, _, e1, r1⟩ := C19_canonical R hR s₁ w₁ t₁ s₁' h₁
  obtain ⟨_, _, _, e2, r2⟩ := C19_canonical R hR s₂ w₂ t₂ s₂' h₂
  have hser : serTx t₁ = serTx t₂ := by
    have hv : t₁.version = t₂.version := congrArg TxU.version hu
    have hty : t₁.txType = t₂.txType := congrArg TxU.txType hu
    have hp : t₁.payload = t₂.payload := congrArg TxU.payload hu
    unfold serTx
    rw [hp, hu, hs, hv, hty]
  exact ⟨by rw [← e1, ← e2, hser], by rw [r1, r2, ← e1, ← e2, hser]⟩

/-- **The hash input is the unsigned content**: for the Ontology shapes the bytes that are hashed
(`rawUnsigned`, obtained by `BackUp`+`NextBytes`) are exactly the serialisation of the unsigned fields and are
the prefix of the consumed bytes that precedes the signature list; for EIP-155 they are the RLP payload and the
transaction carries no `Sigs`.  (`hash = H hashInput` with `H = sha256∘sha256`, resp. `keccak256`.) -/
theorem C19_hash_unsigned (R : Rlp) (s : Src) (w : s.wf) (t : Tx) (s' : Src)
    (h : deserialize R s = .ok t s') :
    t.hashInput = hashInputOf t ∧
    (t.txType ≠ 0xd3 → consumed s s' = t.hashInput ++ serSigs t.sigs) ∧
    (t.txType = 0xd3 → t.sigs = [] ∧ ∃ code, consumed s s' = [0, 0xd3] ++ writeVarBytes code ∧
        ∃ e, R.decode code = .ok e ∧ t.hashInput = e.enc) := by
  obtain ⟨adv, post⟩ := post_of_ok w h
  rw [← seg_eq_consumed]
  rcases post with ⟨hseg, hraw, hhi, hne, _, _⟩ | ⟨code, e, hdec, hseg, hfrom, _⟩
  · refine ⟨?_, fun _ => by rw [hseg, hhi], ?_⟩
    · unfold hashInputOf
      split
      · rename_i e he; exact absurd he (hne.not_eip e)
      · exact hhi
    · intro hty
      -- an Ontology-shape transaction never has type 0xd3: `deserializeOntUnsigned` rejects it
      exact absurd hty hne.2.1
  · obtain ⟨hv, hty, hpl, hraw, hhi, hsg⟩ := fromEip155_ok hfrom
    refine ⟨?_, fun hne => absurd hty hne, fun _ => ⟨hsg, code, hseg, e, hdec, hhi⟩⟩
    unfold hashInputOf
    rw [hpl]
    exact hhi


/-- **Signatures do not change the hash**: two accepted transactions with the same unsigned fields hash the same
bytes, whatever their signature lists are. -/
theorem C19_hash_sig_independent (R : Rlp) (s₁ s₂ : Src) (w₁ : s₁.wf) (w₂ : s₂.wf) (t₁ t₂ : Tx) (s₁' s₂' : Src)
    (h₁ : deserialize R s₁ = .ok t₁ s₁') (h₂ : deserialize R s₂ = .ok t₂ s₂')
    (hu : t₁.unsigned = t₂.unsigned) : t₁.hashInput = t₂.hashInput := by
  rw [(C19_hash_unsigned R s₁ w₁ t₁ s₁' h₁).1, (C19_hash_unsigned R s₂ w₂ t₂ s₂' h₂).1]
  have hp : t₁.payload = t₂.payload := congrArg TxU.payload hu
  unfold hashInputOf
  rw [hp, hu]

/-- **Any change of the unsigned bytes changes the hash input** (Ontology shapes): the hash input *is* the part of
the consumed bytes in front of the signature list, so two accepted encodings with different unsigned parts are
hashed from different inputs, and equal inputs + equal signature lists mean equal encodings. -/
theorem C19_hash_input_is_prefix (R : Rlp) (s₁ s₂ : Src) (w₁ : s₁.wf) (w₂ : s₂.wf) (t₁ t₂ : Tx) (s₁' s₂' : Src)
    (h₁ : deserialize R s₁ = .ok t₁ s₁') (h₂ : deserialize R s₂ = .ok t₂ s₂')
    (n₁ : t₁.txType ≠ 0xd3) (n₂ : t₂.txType ≠ 0xd3)
    (hh : t₁.hashInput = t₂.hashInput) (hs : t₁.sigs = t₂.sigs) : consumed s₁ s₁' = consumed s₂ s₂' := by
  rw [(C19_hash_unsigned R s₁ w₁ t₁ s₁' h₁).2.1 n₁, (C19_hash_unsigned R s₂ w₂ t₂ s₂' h₂).2.1 n₂, hh, hs]

/-- **The hash input determines the signed content** (Ontology shapes): two accepted transactions that are hashed from
the same bytes have the same version, type, nonce, gas price, gas limit, payer and payload — so, for a collision-free
hash, equal hashes mean equal unsigned content (`C19_hash_sig_independent` is the converse). -/
theorem C19_hash_binds_fields (R : Rlp) (s₁ s₂ : Src) (w₁ : s₁.wf) (w₂ : s₂.wf) (t₁ t₂ : Tx) (s₁' s₂' : Src)
    (h₁ : deserialize R s₁ = .ok t₁ s₁') (h₂ : deserialize R s₂ = .ok t₂ s₂')
    (n₁ : t₁.txType ≠ 0xd3) (n₂ : t₂.txType ≠ 0xd3)
    (hh : t₁.hashInput = t₂.hashInput) : t₁.unsigned = t₂.unsigned := by
  obtain ⟨_, post1⟩ := post_of_ok w₁ h₁
  obtain ⟨_, post2⟩ := post_of_ok w₂ h₂
  rcases post1 with ⟨_, _, hi1, wf1, _, _⟩ | ⟨_, e, _, _, hfrom, _⟩
  · rcases post2 with ⟨_, _, hi2, wf2, _, _⟩ | ⟨_, e, _, _, hfrom, _⟩
    · rw [hi1, hi2] at hh
      exact serUnsigned_inj _ _ wf1 wf2 hh
    · exact absurd (fromEip155_ok hfrom).2.1 n₂
  · exact absurd (fromEip155_ok hfrom).2.1 n₁

/-- **Size limit**: `TransactionFromRawBytes` rejects every input longer than `MAX_TX_SIZE` … -/
theorem C19_size_raw (R : Rlp) (raw : Bytes) (h : raw.length > MAX_TX_SIZE) : fromRawBytes R raw = .err .invalid := by
  unfold fromRawBytes
  simp [h]

/-- … and `Deserialization` (a transaction inside a larger source, e.g. a block) never accepts a transaction that
occupies more than `MAX_TX_SIZE` bytes, nor more than `TX_MAX_SIG_SIZE` signature entries. -/
theorem C19_size (R : Rlp) (s : Src) (w : s.wf) (t : Tx) (s' : Src) (h : deserialize R s = .ok t s') :
    s'.off - s.off ≤ MAX_TX_SIZE ∧ t.sigs.length ≤ TX_MAX_SIG_SIZE := by
  obtain ⟨adv, post⟩ := post_of_ok w h
  rw [← seg_length adv]
  rcases post with ⟨_, _, _, _, hsz, hsg⟩ | ⟨code, e, hdec, hseg, hfrom, hsz⟩
  · exact ⟨hsz, hsg⟩
  · refine ⟨hsz, ?_⟩
    rw [(fromEip155_ok hfrom).2.2.2.2.2]
    exact Nat.zero_le _

/-! ### The converse direction: every well-formed field tuple's encoding is accepted and decodes to that tuple -/

theorem C19_serTx_mkTx (u : TxU) (sigs : List (Bytes × Bytes)) (hw : wfFields u sigs = true) :
    serTx (mkTx u sigs) = serUnsigned u ++ serSigs sigs := by
  unfold serTx mkTx Tx.unsigned
  simp only
  split
  · rename_i e he
    have := (wfFields_unpack hw).2.1
    rw [he] at this
    simp [wfPayload] at this
  · rfl

/-- **Round trip (deploy / invoke)**: for every field tuple that satisfies the decidable predicate `wfFields`
(version 0; type `d1`/`d2` with an invoke payload or `d0` with a deploy payload passing `validateDeployCode`;
nonce < 2^32, gas price and limit < 2^64, 20-byte payer; at most 16 signature entries; encoding at most `MAX_TX_SIZE`
bytes), `Transaction.Deserialization` started at the encoding — at any position of any buffer — returns exactly that
tuple (with `Raw` = the encoding and the hash input = the unsigned part) and consumes exactly the encoding. -/
theorem C19_roundtrip (R : Rlp) (u : TxU) (sigs : List (Bytes × Bytes)) (hw : wfFields u sigs = true)
    (pre rest : Bytes) (hlen : (pre ++ serTx (mkTx u sigs) ++ rest).length < two64) :
    deserialize R ⟨pre ++ serTx (mkTx u sigs) ++ rest, pre.length⟩
      = .ok (mkTx u sigs) ⟨pre ++ serTx (mkTx u sigs) ++ rest, pre.length + (serTx (mkTx u sigs)).length⟩ := by
  rw [C19_serTx_mkTx u sigs hw] at hlen ⊢
  exact deserialize_fwd R u sigs hw _ _ hlen (by simp) (seg_of_append pre _ rest)

/-- the same through `TransactionFromRawBytes` on exactly the encoding -/
theorem C19_roundtrip_raw (R : Rlp) (u : TxU) (sigs : List (Bytes × Bytes)) (hw : wfFields u sigs = true) :
    fromRawBytes R (serTx (mkTx u sigs))
      = .ok (mkTx u sigs) ⟨serTx (mkTx u sigs), (serTx (mkTx u sigs)).length⟩ := by
  have h := C19_roundtrip R u sigs hw [] []
  simp only [List.nil_append, List.append_nil, List.length_nil, Nat.zero_add] at h
  have hsz : (serTx (mkTx u sigs)).length ≤ MAX_TX_SIZE := by
    rw [C19_serTx_mkTx u sigs hw]; exact (wfFields_unpack hw).2.2.2.2.2.2.2
  have hmax : MAX_TX_SIZE < two64 := by decide
  unfold fromRawBytes
  rw [if_neg (by omega)]
  exact h (by omega)

/-- `wfFields` is exactly what the decoder guarantees: every accepted Ontology-shape transaction is `mkTx` of a
well-formed tuple.  Together with `C19_roundtrip`: the decoder's image is the set of well-formed tuples, and
encode/decode are mutually inverse between well-formed tuples and accepted byte strings. -/
theorem C19_decoded_is_wf (R : Rlp) (s : Src) (w : s.wf) (t : Tx) (s' : Src)
    (h : deserialize R s = .ok t s') (hty : t.txType ≠ 0xd3) :
    wfFields t.unsigned t.sigs = true ∧ t = mkTx t.unsigned t.sigs := by
  obtain ⟨adv, post⟩ := post_of_ok w h
  rcases post with ⟨hseg, hraw, hhi, hwf, hsz, hsg⟩ | ⟨_, e, _, _, hfrom, _⟩
  · obtain ⟨h1, _, h3, h4, h5, h6, _, _, hpl⟩ := hwf
    constructor
    · unfold wfFields
      rw [hseg] at hsz
      simp only [Bool.and_eq_true, beq_iff_eq, decide_eq_true_eq]
      exact ⟨⟨⟨⟨⟨⟨⟨h1, hpl⟩, h3⟩, h4⟩, h5⟩, h6⟩, hsg⟩, hsz⟩
    · cases t
      simp only [mkTx, Tx.unsigned] at hraw hhi hseg ⊢
      rw [hraw, hhi, hseg]
  · exact absurd (fromEip155_ok hfrom).2.1 hty

/-! ### Non-vacuity: the decoder accepts concrete, non-trivial inputs (so the implications above are not empty),
and the library assumption is satisfiable -/

/-- a library instance: accepts exactly one blob -/
def exRlp : Rlp := ⟨fun c => if c = [0xc0] then .ok ⟨7, 2000000000, 21000, some (List.replicate 20 0xaa), [1, 2], [0xc0]⟩
                              else .error .invalid⟩

example : exRlp.canonical := by
  intro c t h
  unfold exRlp at h
  simp only at h
  split at h
  · rename_i hc; injection h with h; subst h; exact hc.symm
  · cases h


/-- a well-formed deploy tuple with two signature entries (hypothesis of `C19_roundtrip`) -/
example : wfFields ⟨0, 0xd0, 7, 2500, 20000, List.replicate 20 0xaa,
    .deploy [0x51, 0x52] 1 [110] [118] [97] [101] [100]⟩ [([1, 2], [3]), ([], [4, 5])] = true := by decide +kernel

/-- invoke transaction (code `ab cd`) with one signature entry, embedded at offset 1 of a longer buffer -/
def exBytes : Bytes := [9, 0x00, 0xd1] ++ List.replicate 40 0 ++ [2, 0xab, 0xcd, 0, 1, 1, 0x51, 0, 7, 7]

example : (match deserialize exRlp ⟨exBytes, 1⟩ with
    | .ok t s' => t.sigs == [([0x51], [])] && s'.off == 51 && t.payload == .invoke [0xab, 0xcd] &&
        t.raw == (exBytes.drop 1).take 50 && t.hashInput == (exBytes.drop 1).take 46
    | _ => false) = true := by decide +kernel

/-- the EIP-155 shape -/
example : (match deserialize exRlp ⟨[0x00, 0xd3, 1, 0xc0, 5], 0⟩ with
    | .ok t s' => t.nonce == 7 && t.gasPrice == 2 && s'.off == 4 && t.raw == [0x00, 0xd3, 1, 0xc0] && t.txType == 0xd3
    | _ => false) = true := by decide +kernel

/-- non-canonical encodings of the same fields are rejected: widened attribute count, widened signature count -/
example : (match deserialize exRlp ⟨[0x00, 0xd1] ++ List.replicate 40 0 ++ [0, 0xfd, 0, 0, 0], 0⟩,
                 deserialize exRlp ⟨[0x00, 0xd1] ++ List.replicate 40 0 ++ [0, 0, 0xfd, 0, 0], 0⟩ with
    | .err .irregular, .err .irregular => true
    | _, _ => false) = true := by decide +kernel

end OntVerif.Props.C19
