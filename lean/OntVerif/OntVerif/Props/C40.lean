import OntVerif.Proofs.BlockStore
/-!
# C40 — Chain queries agree with each other for every stored block

Model: `Model/BlockStore.lean` (block store key spaces, header index cache window with its eviction loop, block / transaction
caches, restart = reload of the window from the store).  A history is any list of `commit b` / `restart` operations.
`Good` says what a chain is: block `i` has height `i`, a header hash names one block, a transaction hash names one transaction of
one block (`TxDistinct`).  Hash functions are arbitrary.
-/
namespace OntVerif.Props.C40
open OntVerif.Model.BlockStore OntVerif.Proofs.BlockStore OntVerif.Gen.LedgerQuery

/-- **All five queries agree with the committed block, for every committed height, in every reachable state** — after any
interleaving of commits and restarts, whether or not the height is still inside the header index window (the window only decides
which branch of `GetBlockHash` answers) and whatever the block / transaction caches retained. -/
theorem C40_agree (P : Prims) (ops : List Op) (l : Ledger) (h : runOps P ops emptyLedger = some l)
    (g : Good P (committed ops)) (i : Nat) (b : Block) (hb : (committed ops)[i]? = some b) :
    getBlockHash l i = some (P.hH b.hdr)
      ∧ getBlockByHeight l i = some b
      ∧ getBlockByHash l (P.hH b.hdr) = some b
      ∧ getHeaderByHash l (P.hH b.hdr) = some b.hdr
      ∧ ∀ t ∈ b.txs, getTransaction l (P.hT t) = some (t, i) := by
  have inv := inv_runOps P ops [] emptyLedger l (inv_empty P) h (by simpa using g)
  simp only [List.nil_append] at inv
  exact queries_agree P _ l inv g i b hb

/-- heights evicted from the header index window (and heights never cached after a restart) are answered from the store, with the
same result -/
theorem C40_evicted (P : Prims) (ops : List Op) (l : Ledger) (h : runOps P ops emptyLedger = some l)
    (g : Good P (committed ops)) (i : Nat) (b : Block) (hb : (committed ops)[i]? = some b)
    (_ev : mapGet i l.cache.idx = none) : l.store.hgt i = some (P.hH b.hdr) ∧ getBlockHash l i = some (P.hH b.hdr) := by
  have inv := inv_runOps P ops [] emptyLedger l (inv_empty P) h (by simpa using g)
  simp only [List.nil_append] at inv
  exact ⟨inv.hgt i b hb, (C40_agree P ops l h g i b hb).1⟩

/-- a restart of a ledger that holds at least one block of a chain always succeeds (every height of the reloaded window has a
stored hash), so the hypothesis `runOps … = some l` of `C40_agree` is met by every history that starts with a commit -/
theorem C40_history_runs (P : Prims) (ops : List Op) (b0 : Block) (g : Good P (committed (.commit b0 :: ops)))
    (noSync : ∀ x, Op.syncHeader x ∉ ops) :
    ∃ l, runOps P (.commit b0 :: ops) emptyLedger = some l := by
  have key : ∀ (ops : List Op) (bs : List Block) (l : Ledger), (∀ x, Op.syncHeader x ∉ ops) → Inv P bs l → bs ≠ [] →
      Good P (bs ++ committed ops) → ∃ l', runOps P ops l = some l' := by
    intro ops
    induction ops with
    | nil => intro bs l _ _ _ _; exact ⟨l, rfl⟩
    | cons op r ih =>
      intro bs l ns inv ne g
      have nsr : ∀ x, Op.syncHeader x ∉ r := fun x hx => ns x (by simp [hx])
      cases op with
      | syncHeader x => exact absurd (by simp) (ns x)
      | commit b =>
        have e : bs ++ committed (Op.commit b :: r) = (bs ++ [b]) ++ committed r := by simp [committed]
        rw [e] at g
        simp only [runOps, step]
        exact ih _ _ nsr (inv_commit P bs b l inv (good_prefix_append g)) (by simp) g
      | restart =>
        have e : bs ++ committed (Op.restart :: r) = bs ++ committed r := by simp [committed]
        rw [e] at g
        simp only [runOps, step]
        have tot := restart_total P bs l inv ne
        cases hr : restart l with
        | none => rw [hr] at tot; cases tot
        | some l1 => exact ih _ _ nsr (inv_restart P bs l l1 inv hr) ne g
  simp only [runOps, step]
  have g1 : Good P ([] ++ [b0]) := good_prefix_append (ys := committed ops) (by simpa [committed] using g)
  exact key ops [b0] _ noSync (inv_commit P [] b0 emptyLedger (inv_empty P) g1) (by simp) (by simpa [committed] using g)

/-! ### what happens when a transaction hash repeats -/

def demo : Prims := ⟨fun h => h.height * 1000003 + h.salt + 1, fun t => t⟩
def r0 : Block := ⟨⟨0, 0⟩, [7]⟩
def r1 : Block := ⟨⟨1, 0⟩, [7]⟩
def repeatLedger : Ledger := commit demo r1 (commit demo r0 emptyLedger)

/-- if the same transaction is committed in block 0 and again in block 1, the transaction record is overwritten: the recorded
height is that of the LAST block containing it, so the fifth query disagrees with block 0 — while the four block/header queries
still return both blocks unchanged.  `TxDistinct` is exactly the hypothesis that rules this out. -/
theorem C40_repeat_witness :
    getTransaction repeatLedger (demo.hT 7) = some (7, 1)
      ∧ getBlockByHeight repeatLedger 0 = some r0 ∧ getBlockByHash repeatLedger (demo.hH r0.hdr) = some r0
      ∧ getBlockByHeight repeatLedger 1 = some r1
      ∧ ¬ TxDistinct demo [r0, r1] := by
  refine ⟨by decide, by decide, by decide, by decide, ?_⟩
  intro h
  have := (h 0 1 r0 r1 7 7 rfl rfl (by decide) (by decide) rfl).2
  omega

/-- and with the caches emptied by a restart it is the store record that reports the later height -/
example : (restart repeatLedger).map (fun l => getTransaction l 7) = some (some (7, 1)) := by decide

/-! ### Non-vacuity: a concrete chain with a restart in the middle meets the hypotheses -/
def c0 : Block := ⟨⟨0, 0⟩, []⟩
def c1 : Block := ⟨⟨1, 2⟩, [1, 2]⟩
def c2 : Block := ⟨⟨2, 1⟩, [3]⟩

theorem goodChain : Good demo [c0, c1, c2] := by
  have idx : ∀ (i : Nat) (b : Block), [c0, c1, c2][i]? = some b → (i = 0 ∧ b = c0) ∨ (i = 1 ∧ b = c1) ∨ (i = 2 ∧ b = c2) := by
    intro i b h
    match i, h with
    | 0, h => simp at h; exact Or.inl ⟨rfl, h.symm⟩
    | 1, h => simp at h; exact Or.inr (Or.inl ⟨rfl, h.symm⟩)
    | 2, h => simp at h; exact Or.inr (Or.inr ⟨rfl, h.symm⟩)
    | n + 3, h => simp at h
  refine ⟨?_, ?_, ?_⟩
  · intro i b h
    rcases idx i b h with ⟨rfl, rfl⟩ | ⟨rfl, rfl⟩ | ⟨rfl, rfl⟩ <;> rfl
  · intro i j b b' h h' e
    rcases idx i b h with ⟨rfl, rfl⟩ | ⟨rfl, rfl⟩ | ⟨rfl, rfl⟩ <;>
      rcases idx j b' h' with ⟨rfl, rfl⟩ | ⟨rfl, rfl⟩ | ⟨rfl, rfl⟩ <;> first | rfl | (revert e; decide)
  · intro i j b b' t t' h h' m m' e
    have e' : t = t' := e
    subst e'
    rcases idx i b h with ⟨rfl, rfl⟩ | ⟨rfl, rfl⟩ | ⟨rfl, rfl⟩ <;>
      rcases idx j b' h' with ⟨rfl, rfl⟩ | ⟨rfl, rfl⟩ | ⟨rfl, rfl⟩ <;>
      first
        | exact ⟨rfl, rfl⟩
        | (exfalso; revert m m'; simp only [c0, c1, c2, List.mem_cons, List.mem_nil_iff, or_false]; intro m m'; first | (rcases m with rfl | rfl <;> simp at m') | (subst m; simp at m'))

example : ∃ l, runOps demo [.commit c0, .commit c1, .restart, .commit c2] emptyLedger = some l :=
  C40_history_runs demo _ c0 (by simpa [committed] using goodChain) (by simp)

example : (runOps demo [.commit c0, .commit c1, .restart, .commit c2] emptyLedger).map (fun l => getBlockByHeight l 1) = some (some c1) := by
  decide

/-! ### the exact window of the header index cache

`HEADER_INDEX_MAX_SIZE`, the guard `first < curBlockHeight`, `cacheSize := curBlockHeight - first + 1`, the loop condition
`cacheSize > MAX` and the reload start `cur - MAX + 1` are regenerated from the source (`Gen/LedgerQuery.lean`); the theorems are
stated over those definitions.  `MAX` below is `OntVerif.Gen.LedgerQuery.headerIndexMaxSize`. -/

/-- what a window `[lo, hiE)` means for the cache of ledger `l` -/
def WindowIs (l : Ledger) (lo hiE : Nat) : Prop :=
  l.cache.first = lo ∧ l.cache.last + 1 = hiE ∧ l.cache.idx.length + lo = hiE
    ∧ ∀ k, (mapGet k l.cache.idx).isSome ↔ (lo ≤ k ∧ k < hiE)

private theorem windowIs_of_lwin {l : Ledger} {lo hiE : Nat} (w : LWin l lo hiE) : WindowIs l lo hiE := by
  have h1 := w.lo_le
  have hlt : lo < hiE := by rcases w.hi with e | e <;> omega
  exact ⟨w.win.first, w.win.last hlt, w.win.keys.len, w.win.keys.keys⟩

/-- **General window theorem**: after any history that starts with the genesis commit, the cache holds exactly the heights
`[lo, hiE)` that the arithmetic specification `specRun` predicts (commit at height h: `lo := max lo (h - MAX)`, top `h`;
restart: `lo := loadStart cur`, top `cur`; header sync of height cur+1: `lo := max lo (cur+1 - MAX)`, top `cur+1`). -/
theorem C40_window (P : Prims) (b0 : Block) (ops : List Op) (l : Ledger)
    (h : runOps P (.commit b0 :: ops) emptyLedger = some l) (g : Good P (committed (.commit b0 :: ops))) :
    ∃ lo hiE, specRun ops (0, 0, 1) = some (l.curHeight, lo, hiE) ∧ WindowIs l lo hiE := by
  simp only [runOps, step] at h
  have g' : Good P ([b0] ++ committed ops) := by simpa [committed] using g
  have g1 : Good P ([] ++ [b0]) := good_prefix_append (ys := committed ops) g'
  have h0 : b0.hdr.height = 0 := g1.heights 0 b0 rfl
  have inv := inv_commit P [] b0 emptyLedger (inv_empty P) g1
  obtain ⟨lo, hiE, h1, h2⟩ := window_runOps P ops [b0] _ l 0 1 inv (by simp) (lwin_genesis P b0 h0) h g'
  have e : (commit P b0 emptyLedger).curHeight = 0 := by simp [commit, h0]
  rw [e] at h1
  exact ⟨lo, hiE, h1, windowIs_of_lwin h2⟩

/-- **Live window** (no restart, no header ahead): after the genesis commit and `n` further commits the cache holds exactly the
`MAX+1` newest heights `n-MAX … n` (all of `0 … n` while `n ≤ MAX`). -/
theorem C40_window_live (P : Prims) (b0 : Block) (ops : List Op) (l : Ledger) (hc : ∀ op ∈ ops, Op.isCommit op = true)
    (h : runOps P (.commit b0 :: ops) emptyLedger = some l) (g : Good P (committed (.commit b0 :: ops))) :
    l.curHeight = ops.length ∧ WindowIs l (ops.length - headerIndexMaxSize) (ops.length + 1) := by
  obtain ⟨lo, hiE, h1, h2⟩ := C40_window P b0 ops l h g
  have := specRun_commits ops hc 0
  simp only [Nat.zero_sub, Nat.zero_add] at this
  rw [this] at h1
  simp only [Option.some.injEq, Prod.mk.injEq] at h1
  obtain ⟨e1, e2, e3⟩ := h1
  subst e2 e3
  exact ⟨e1.symm, h2⟩

/-- **Window after a restart**: exactly the `MAX` newest heights `cur-MAX+1 … cur` (all of `0 … cur` while `cur < MAX`) — one less
than the live window. -/
theorem C40_window_after_restart (P : Prims) (b0 : Block) (ops : List Op) (l : Ledger)
    (h : runOps P (.commit b0 :: (ops ++ [.restart])) emptyLedger = some l) (g : Good P (committed (.commit b0 :: (ops ++ [.restart])))) :
    WindowIs l (loadStart l.curHeight) (l.curHeight + 1) := by
  obtain ⟨lo, hiE, h1, h2⟩ := C40_window P b0 _ l h g
  rw [specRun_append] at h1
  cases hs : specRun ops (0, 0, 1) with
  | none => simp [hs] at h1
  | some st =>
    obtain ⟨cur, lo0, hi0⟩ := st
    simp only [hs, specRun, specStep, Option.some.injEq, Prod.mk.injEq] at h1
    obtain ⟨e1, e2, e3⟩ := h1
    subst e1 e2 e3
    exact h2

/-- **The boundary height after a restart** (`cur - MAX`, the oldest height of the live window): it is NOT in the reloaded
window, `GetBlockHash` answers it from the store, and all five queries still return the committed block. -/
theorem C40_boundary_after_restart (P : Prims) (b0 : Block) (ops : List Op) (l : Ledger)
    (h : runOps P (.commit b0 :: (ops ++ [.restart])) emptyLedger = some l) (g : Good P (committed (.commit b0 :: (ops ++ [.restart]))))
    (long : headerIndexMaxSize ≤ l.curHeight) (b : Block)
    (hb : (committed (.commit b0 :: (ops ++ [.restart])))[l.curHeight - headerIndexMaxSize]? = some b) :
    mapGet (l.curHeight - headerIndexMaxSize) l.cache.idx = none
      ∧ l.store.hgt (l.curHeight - headerIndexMaxSize) = some (P.hH b.hdr)
      ∧ getBlockHash l (l.curHeight - headerIndexMaxSize) = some (P.hH b.hdr)
      ∧ getBlockByHeight l (l.curHeight - headerIndexMaxSize) = some b
      ∧ getBlockByHash l (P.hH b.hdr) = some b ∧ getHeaderByHash l (P.hH b.hdr) = some b.hdr
      ∧ ∀ t ∈ b.txs, getTransaction l (P.hT t) = some (t, l.curHeight - headerIndexMaxSize) := by
  have w := C40_window_after_restart P b0 ops l h g
  have hp := maxSize_pos
  have hnone : mapGet (l.curHeight - headerIndexMaxSize) l.cache.idx = none := by
    cases hq : mapGet (l.curHeight - headerIndexMaxSize) l.cache.idx with
    | none => rfl
    | some x =>
      have := (w.2.2.2 (l.curHeight - headerIndexMaxSize)).mp (by rw [hq]; rfl)
      have hls : loadStart l.curHeight = l.curHeight - headerIndexMaxSize + 1 := by
        unfold loadStart
        have : l.curHeight + 1 > headerIndexMaxSize := by omega
        simp only [this, if_true]
      omega
  obtain ⟨a1, a2, a3, a4, a5⟩ := C40_agree P _ l h g _ b hb
  exact ⟨hnone, (C40_evicted P _ l h g _ b hb hnone).1, a1, a2, a3, a4, a5⟩

/-- **Second trigger: header sync on a long live chain.**  After the genesis commit and `n ≥ MAX` further commits, `AddHeader` of the
header for height `n+1` runs the eviction with the post-commit height `n`: the window becomes `n+1-MAX … n+1` and the boundary
height `n - MAX` leaves the cache — it is answered from the store, all queries unchanged. -/
theorem C40_window_after_header_sync (P : Prims) (b0 : Block) (ops : List Op) (x : Hash) (l : Ledger)
    (hc : ∀ op ∈ ops, Op.isCommit op = true)
    (h : runOps P (.commit b0 :: (ops ++ [.syncHeader x])) emptyLedger = some l)
    (g : Good P (committed (.commit b0 :: (ops ++ [.syncHeader x])))) :
    l.curHeight = ops.length ∧ WindowIs l (ops.length + 1 - headerIndexMaxSize) (ops.length + 2)
      ∧ (headerIndexMaxSize ≤ ops.length → mapGet (ops.length - headerIndexMaxSize) l.cache.idx = none)
      ∧ ∀ i b, (committed (.commit b0 :: (ops ++ [.syncHeader x])))[i]? = some b →
          getBlockHash l i = some (P.hH b.hdr) ∧ getBlockByHeight l i = some b := by
  obtain ⟨lo, hiE, h1, h2⟩ := C40_window P b0 _ l h g
  rw [specRun_append] at h1
  have hs := specRun_commits ops hc 0
  simp only [Nat.zero_sub, Nat.zero_add] at hs
  have hm : max (ops.length - headerIndexMaxSize) (ops.length + 1 - headerIndexMaxSize) = ops.length + 1 - headerIndexMaxSize := by omega
  simp only [hs, specRun, specStep, if_true, hm, Option.some.injEq, Prod.mk.injEq] at h1
  obtain ⟨e1, e2, e3⟩ := h1
  subst e2 e3
  refine ⟨e1.symm, h2, ?_, fun i b hb => ⟨(C40_agree P _ l h g i b hb).1, (C40_agree P _ l h g i b hb).2.1⟩⟩
  intro long
  cases hq : mapGet (ops.length - headerIndexMaxSize) l.cache.idx with
  | none => rfl
  | some y =>
    have := (h2.2.2.2 (ops.length - headerIndexMaxSize)).mp (by rw [hq]; rfl)
    have := maxSize_pos
    omega

/-! ### a candidate header synced ahead, then a DIFFERENT block committed at that height

`Op.syncHeader x` indexes an arbitrary hash `x` for the next height (a validly signed candidate that `AddHeader` accepted); the commit of
block `b` at that height calls `setHeaderIndex` again and `mapSet` OVERWRITES the entry.  `C40_agree` quantifies over all histories, so it
covers this shape; the corollary states it explicitly, and the structural fact ties the overwrite to the source. -/

/-- history `… ; syncHeader x ; commit b ; …` with `x` any hash, in particular not the hash of `b`: every query by height and by hash
returns the committed block `b` (not the candidate), before and after any later restart -/
theorem C40_commit_overwrites_candidate (P : Prims) (pre post : List Op) (x : Hash) (b : Block) (l : Ledger)
    (h : runOps P (pre ++ [.syncHeader x, .commit b] ++ post) emptyLedger = some l)
    (g : Good P (committed (pre ++ [.syncHeader x, .commit b] ++ post))) :
    getBlockHash l b.hdr.height = some (P.hH b.hdr) ∧ getBlockByHeight l b.hdr.height = some b
      ∧ getBlockByHash l (P.hH b.hdr) = some b ∧ getHeaderByHash l (P.hH b.hdr) = some b.hdr := by
  have hc : committed (pre ++ [.syncHeader x, .commit b] ++ post) = committed pre ++ b :: committed post := by
    have app : ∀ a c : List Op, committed (a ++ c) = committed a ++ committed c := by
      intro a c
      induction a with
      | nil => rfl
      | cons o r ih => cases o <;> simp [committed, ih]
    simp [app, committed]
  have hb : (committed (pre ++ [.syncHeader x, .commit b] ++ post))[(committed pre).length]? = some b := by
    rw [hc]; simp
  have hh : b.hdr.height = (committed pre).length := g.heights _ b hb
  obtain ⟨a1, a2, a3, a4, _⟩ := C40_agree P _ l h g _ b hb
  rw [hh]
  exact ⟨a1, a2, a3, a4⟩

/-- the index write in `setHeaderIndex` is the unguarded first statement `this.headerIndex[curHeaderHeight] = blockHash` (regenerated from
the source): an entry left by header sync is overwritten by the commit, as `mapSet` does in the model -/
theorem C40_source_index_overwrite : OntVerif.Gen.LedgerQuery.setHeaderIndexOverwrites = true := by decide

/-- in the model the second write wins -/
example (h : Nat) (x y : Hash) (idx : List (Nat × Hash)) : mapGet h (mapSet h y (mapSet h x idx)) = some y := by
  rw [mapGet_mapSet]; simp

/-! ### every transaction of a stored block comes back, whatever their number -/

/-- block-by-hash and block-by-height return ALL transactions of the committed block, in order, for every block length (the model
rebuilds the list from the stored hash list with no bound; this is `C40_agree` read on the transaction list) -/
theorem C40_all_transactions_returned (P : Prims) (ops : List Op) (l : Ledger) (h : runOps P ops emptyLedger = some l)
    (g : Good P (committed ops)) (i : Nat) (b : Block) (hb : (committed ops)[i]? = some b) :
    (getBlockByHash l (P.hH b.hdr)).map (·.txs) = some b.txs ∧ (getBlockByHeight l i).map (·.txs) = some b.txs
      ∧ (getBlockByHash l (P.hH b.hdr)).map (·.txs.length) = some b.txs.length := by
  obtain ⟨_, a2, a3, _, _⟩ := C40_agree P ops l h g i b hb
  rw [a2, a3]; exact ⟨rfl, rfl, rfl⟩

/-- regenerated structural fact: in `loadHeaderWithTx` the loop that reads the transaction hashes of a stored block is bounded by the
count decoded from the record, unmodified (no clamp between decoding and the loop) -/
theorem C40_source_reads_all_tx_hashes : OntVerif.Gen.LedgerQuery.txHashLoopRunsDecodedCount = true := by decide

end OntVerif.Props.C40
