import OntVerif.Proofs.Gov
import OntVerif.Driver.GovLines
/-!
# C11 — Governance holds exactly the ONT that participants have staked

Property theorems only (lemmas in `Proofs/Gov.lean`).  The model is `Model/Gov.lean`, tied to the Go code by the
correspondence harness `harness/cmd/c11` (real contract behind `native.NativeService`, compared after every operation).

Every theorem quantifies over **all** operation lists `ops : List Op` – every method of the contract that the model knows
(`Op`), with arbitrary arguments and witnesses, valid or not – and over all deployments `g : Genesis`.  A rejected or
panicking operation leaves the state untouched (`C11_rejected_unchanged`), so rejected operations are part of every history.

`initSt true g` is the deployment in which the contract received the ONT of the genesis peers' `InitPos`;
`initSt false g` is what `InitConfig` alone produces (the code as shipped records the stakes without receiving ONT).
-/
namespace OntVerif.Props.C11
open OntVerif.Model.Gov OntVerif.Proofs.Gov

/-- what the property states: after every history the ONT held by the contract equals Σ TotalStake + Σ PenaltyStake -/
def Stmt (funded : Bool) : Prop :=
  ∀ (g : Genesis) (ops : List Op), BankInv (run ops (initSt funded g)).bank

/-- a rejected (or panicking) operation changes nothing -/
theorem C11_rejected_unchanged (op : Op) (s : St) (h : (exec op s).2 ≠ .ok) : (exec op s).1 = s := by
  rcases exec_cases op s with ⟨e, _⟩ | ⟨b', acts, bank', _, _, he⟩
  · exact e
  · rw [he] at h; exact absurd rfl h

/-- **Balance identity, one step**: from *any* state in which the identity holds, every operation (accepted or not)
leads to a state in which it holds. -/
theorem C11_balance_step (op : Op) (s : St) (h : BankInv s.bank) : BankInv (exec op s).1.bank :=
  exec_preserve BankInv act_BankInv op s h

/-- **Balance identity, all histories** (funded deployment): the contract's ONT balance equals the sum of all recorded total
stakes plus all penalty stakes after every sequence of operations. -/
theorem C11_balance : Stmt true := by
  intro g ops
  apply run_preserve BankInv act_BankInv
  apply genesis_BankInv
  simp [BankInv, emptyBank, msum]

/-- the same as an executable check (`Bank.balanced` is what the harness evaluates on the real contract) -/
theorem C11_balance_decidable (g : Genesis) (ops : List Op) : (run ops (initSt true g)).bank.balanced = true := by
  have := C11_balance g ops
  unfold BankInv at this
  simp [Bank.balanced, this]

/-- **The code as shipped**: `InitConfig` records Σ InitPos of total stake without any ONT reaching the contract, and every
later operation preserves exactly that gap: ONT held + Σ genesis InitPos = Σ TotalStake + Σ PenaltyStake. -/
theorem C11_balance_partial (g : Genesis) (ops : List Op) :
    let b := (run ops (initSt false g)).bank
    b.govOnt + genesisTotal g.peers = msum b.stakes + msum b.penInit + msum b.penAuth := by
  intro b
  have key : BankInvOff (genesisTotal g.peers) b := by
    apply run_preserve (BankInvOff (genesisTotal g.peers)) (act_BankInvOff _)
    obtain ⟨h1, h2, h3, h4⟩ := genesis_unfunded g.peers (emptyBank g)
    unfold BankInvOff
    simp only [initSt]
    rw [h1, h2, h3, h4]
    simp [emptyBank, msum]
  exact key

/-- concrete counterexample for the code as shipped: the deployment of the correspondence harness, empty history
(this is also the replay of finding `initconfig-total-stake-without-ont`) -/
theorem C11_asShipped_counterexample : ¬ Stmt false := by
  intro h
  have := h OntVerif.Driver.GovLines.genesis []
  unfold BankInv at this
  revert this
  decide

/-- **Withdraw is bounded by the unfrozen positions**: an accepted `withdraw` pays the caller exactly the amount by which
the sum of its `WithdrawUnfreezePos` decreases (so never more than it had unfrozen), and touches no other address'
unfrozen positions. -/
theorem C11_withdraw_bound (w a : Nat) (items : List (Nat × Nat)) (s : St)
    (h : (exec (.wd w a items) s).2 = .ok) :
    let s' := (exec (.wd w a items) s).1
    mget s'.bank.ont a + unfSum a s'.book.auths = mget s.bank.ont a + unfSum a s.book.auths ∧
    (∀ a', a' ≠ a → unfSum a' s'.book.auths = unfSum a' s.book.auths ∧ mget s'.bank.ont a' = mget s.bank.ont a') := by
  intro s'
  rcases exec_cases (.wd w a items) s with ⟨_, hne⟩ | ⟨b', acts, bank', hp, ha, he⟩
  · exact absurd h hne
  · have hs' : s' = { book := b', bank := bank' } := by simp [s', he]
    simp only [plan] at hp
    split at hp
    · cases hp
    · split at hp
      · cases hp
      · rename_i auths total hl
        cases hp
        obtain ⟨u1, u2⟩ := wdLoop_unf _ _ _ _ _ _ _ hl
        simp only [Bank.acts, Bank.act] at ha
        split at ha
        · cases ha
        · rename_i b1 hb1
          cases ha
          split at hb1
          · cases hb1
          · split at hb1
            · cases hb1
            · cases hb1
              rw [hs']
              constructor
              · simp only [mget_madd]; simp; omega
              · intro a' hne
                refine ⟨u2 a' hne, ?_⟩
                simp only [mget_madd]; simp [hne]

/-- **Cumulative bound**: after every history, what an address has withdrawn from the contract never exceeds what it has
deposited; the difference is its recorded total stake plus what was moved into penalty stakes. -/
theorem C11_withdrawn_le_deposited (g : Genesis) (ops : List Op) (a : Nat) :
    let b := (run ops (initSt true g)).bank
    mget b.dep a = mget b.wd a + mget b.pen a + mget b.stakes a ∧ mget b.wd a ≤ mget b.dep a := by
  intro b
  have h : LedgerInv b := by
    apply run_preserve LedgerInv act_LedgerInv
    apply genesis_LedgerInv
    intro k; simp [emptyBank, mget]
  exact ⟨h a, by have := h a; omega⟩

/-- the ledgers of the previous theorem are the real ONT flows: for every address, (ONT held + deposited) and
(withdrawn + received from penalty stakes) move in lockstep through every history, starting from any state. -/
theorem C11_ledger_faithful (ops : List Op) (s : St) (a : Nat) :
    let b := (run ops s).bank
    mget b.ont a + mget b.dep a + (mget s.bank.wd a + mget s.bank.paid a) =
      mget s.bank.ont a + mget s.bank.dep a + (mget b.wd a + mget b.paid a) :=
  run_flow ops s a

/-- consequence: an address that was never paid out of a penalty stake never holds more ONT than it started with -/
theorem C11_no_gain (g : Genesis) (ops : List Op) (a : Nat)
    (hg : ∀ p ∈ g.peers, p.2.1 ≠ a)
    (hp : mget (run ops (initSt true g)).bank.paid a = 0) :
    mget (run ops (initSt true g)).bank.ont a ≤ mget g.ont a := by
  have h1 := run_flow ops (initSt true g) a
  have h2 := (C11_withdrawn_le_deposited g ops a).2
  -- in the initial state the address has no ledger entries
  have init : ∀ (l : List (Nat × Nat × Nat)) (b : Bank), (∀ p ∈ l, p.2.1 ≠ a) →
      mget (genesisStakes true l b).dep a = mget b.dep a ∧ mget (genesisStakes true l b).wd a = mget b.wd a ∧
      mget (genesisStakes true l b).paid a = mget b.paid a ∧ mget (genesisStakes true l b).ont a = mget b.ont a := by
    intro l
    induction l with
    | nil => intro b _; simp [genesisStakes]
    | cons x r ih =>
      intro b hl
      obtain ⟨id, owner, pos⟩ := x
      have ho : a ≠ owner := fun e => hl (id, owner, pos) (by simp) e.symm
      simp only [genesisStakes]
      obtain ⟨i1, i2, i3, i4⟩ := ih _ (fun p hp => hl p (by simp [hp]))
      rw [i1, i2, i3, i4]
      simp [mget_madd, ho]
  obtain ⟨i1, i2, i3, i4⟩ := init g.peers (emptyBank g) hg
  have e : (initSt true g).bank = genesisStakes true g.peers (emptyBank g) := rfl
  unfold flowL flowR at h1
  rw [e, i1, i2, i3, i4] at h1
  have z1 : mget (emptyBank g).dep a = 0 := rfl
  have z2 : mget (emptyBank g).wd a = 0 := rfl
  have z3 : mget (emptyBank g).paid a = 0 := rfl
  have z4 : (emptyBank g).ont = g.ont := rfl
  rw [z1, z2, z3, z4, hp] at h1
  omega

/-! Non-vacuity: a concrete history on the harness deployment in which a node registers, is authorized, an epoch passes,
the authorizer unauthorizes, two more epochs pass and it withdraws – every step accepted, the identity holds with
non-trivial numbers. -/
set_option maxRecDepth 100000 in
open OntVerif.Driver.GovLines in
example :
    let ops : List Op := [.ht 9000000, .reg 6 3 6 20000, .maxauth 6 3 6 100000, .auth 9 9 [(3, 1000)], .ht 9000001, .commit 12,
      .unauth 9 9 [(3, 500)], .ht 9000002, .commit 12, .ht 9000003, .commit 12, .wd 9 9 [(3, 500)]]
    let s := run ops (initSt true genesis)
    s.bank.govOnt = 101500 ∧ mget s.bank.stakes 9 = 500 ∧ mget s.bank.ont 9 = 299500 ∧ s.book.view = 4 ∧ s.bank.balanced = true := by
  decide

end OntVerif.Props.C11
