import OntVerif.Proofs.KV
/-!
# C08 — EVM snapshot revert restores exactly the observable state

Model: `StateDB` in `Model/KV.lean` (mirror of `smartcontract/storage/statedb.go`: `Snapshot` = deep clone of the
transaction memdb + copy of `Suicided` + `len(logs)` + `refund`; `RevertToSnapshot(i)` puts them back and truncates
the snapshot stack to `i`; `DiscardSnapshot(i)` only truncates). Tied to the real `StateDB` by `harness/cmd/c08`
(which is also what detects a `DeepClone` that shares memory — value semantics is an assumption of the model).

"Snapshot `i`" is the snapshot pushed by the most recent `Snapshot()` call that returned `i`; it is alive as long as the
stack depth stays above `i` (`StaysAbove`). Any nesting of snapshots, reverts and discards above it is allowed.
-/
namespace OntVerif.Props.C08
open OntVerif.Util OntVerif.Model.KV OntVerif.Model.KV.StateDB OntVerif.Proofs.KV OntVerif.Proofs.KV.SDB

/-- **Main theorem.** Take a snapshot in ANY state `s1` (it gets id `i = depth`). Run ANY history of mutations and nested
snapshot / revert / discard operations during which snapshot `i` stays alive. Then `RevertToSnapshot(i)` succeeds and
the whole state — transaction memdb (hence every storage slot, nonce, code hash, code, ONG balance), `Suicided`, log
list, refund counter, and the snapshot stack below `i` — is exactly `s1` again. (Only the sticky error flag of the
overlay, which is not part of the property, is not rolled back.) -/
theorem C08_revert (s1 : StateDB) (ops : List SOp)
    (alive : StaysAbove s1.snaps.length s1.snapshot.1 ops) :
    (s1.snapshot.1.runOps ops).revert (s1.snapshot.2 : Int)
      = some { s1 with dbErr := (s1.snapshot.1.runOps ops).dbErr } :=
  revert_of_above (above_run ops (above_snapshot s1) alive)

/-- every getter reads after the revert what it read when the snapshot was taken -/
theorem C08_getters (s1 : StateDB) (ops : List SOp)
    (alive : StaysAbove s1.snaps.length s1.snapshot.1 ops) :
    ∃ s3, (s1.snapshot.1.runOps ops).revert (s1.snaps.length : Int) = some s3 ∧
      (∀ a k, s3.getState a k = s1.getState a k) ∧ (∀ a, s3.getNonce a = s1.getNonce a) ∧
      (∀ a, s3.getCodeHash a = s1.getCodeHash a) ∧ (∀ a, s3.getCode a = s1.getCode a) ∧
      (∀ a, s3.getBalance a = s1.getBalance a) ∧ (∀ a, s3.hasSuicided a = s1.hasSuicided a) ∧
      (∀ a, s3.exist a = s1.exist a) ∧ (∀ a, s3.empty a = s1.empty a) ∧
      s3.logs = s1.logs ∧ s3.refund = s1.refund ∧ s3.snaps = s1.snaps :=
  ⟨_, C08_revert s1 ops alive, fun _ _ => rfl, fun _ => rfl, fun _ => rfl, fun _ => rfl, fun _ => rfl,
    fun _ => rfl, fun _ => rfl, fun _ => rfl, rfl, rfl, rfl⟩

/-- `DiscardSnapshot` keeps the current state: only the stack is cut -/
theorem C08_discard (s s' : StateDB) (i : Int) (h : s.discard i = some s') :
    s'.cache = s.cache ∧ s'.suicided = s.suicided ∧ s'.logs = s.logs ∧ s'.refund = s.refund ∧
      s'.snaps = s.snaps.take i.toNat := by
  simp only [StateDB.discard] at h
  split at h
  · cases h
  · split at h
    · cases h
    · cases h; exact ⟨rfl, rfl, rfl, rfl, rfl⟩

/-- index validity mirrors the panics of the Go code: `idx+1 > len(snapshots)` or a negative index -/
theorem C08_revert_panics_iff (s : StateDB) (i : Int) :
    s.revert i = none ↔ (i < 0 ∨ s.snaps.length ≤ i.toNat) := by
  simp only [StateDB.revert]
  by_cases hneg : i < 0
  · simp [hneg]
  · simp only [hneg, if_false, false_or]
    cases h : s.snaps[i.toNat]? with
    | none => simpa using List.getElem?_eq_none_iff.mp h
    | some sn =>
      have := (List.getElem?_eq_some_iff.mp h).1
      simp; omega

theorem C08_discard_panics_iff (s : StateDB) (i : Int) :
    s.discard i = none ↔ (i < 0 ∨ s.snaps.length ≤ i.toNat) := by
  simp only [StateDB.discard]
  by_cases hneg : i < 0
  · simp [hneg]
  · simp only [hneg, if_false, false_or]
    by_cases h : i.toNat + 1 > s.snaps.length
    · simp [h]; omega
    · simp [h]; omega

/-! ### Non-vacuity: a nested history (snapshot 0; mutations; snapshot 1; mutation; revert 1; log; snapshot 1 again;
discard 1) keeps snapshot 0 alive, and the revert restores a state with a non-empty memdb, log and refund -/
def s1ex : StateDB :=
  ({ cache := ⟨[], ⟨[], [([5, 1], [9])]⟩⟩ } : StateDB).runOps
    [.mutate (.setNonce [1] 5), .mutate (.addLog [7]), .mutate (.addRefund 3), .mutate (.addBalance [2] 10)]
def opsEx : List SOp :=
  [.mutate (.setNonce [1] 6), .mutate (.suicide [1]), .snapshot, .mutate (.subBalance [2] 4), .mutate (.addLog [8]),
   .revert 1, .mutate (.addLog [9]), .snapshot, .mutate (.subRefund 2), .discard 1, .revert 7]
example : StaysAbove s1ex.snaps.length s1ex.snapshot.1 opsEx := by decide
example : (s1ex.snapshot.1.runOps opsEx).getNonce [1] = 6 ∧ s1ex.getNonce [1] = 5 ∧ s1ex.logs = [[7]] ∧
    (s1ex.snapshot.1.runOps opsEx).logs = [[7], [9]] ∧ (s1ex.snapshot.1.runOps opsEx).hasSuicided [1] = true := by decide
example : ((s1ex.snapshot.1.runOps opsEx).revert 0).map (·.getNonce [1]) = some 5 := by decide

end OntVerif.Props.C08
