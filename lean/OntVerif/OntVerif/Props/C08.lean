import OntVerif.Proofs.KVLive
import OntVerif.Gen.StateAlias
/-!
# C08 — EVM snapshot revert restores exactly the observable state

Model: `StateDB` in `Model/KV.lean` (mirror of `smartcontract/storage/statedb.go`: `Snapshot` = deep clone of the
transaction memdb + copy of `Suicided` + `len(logs)` + `refund`; `RevertToSnapshot(i)` puts them back and truncates
the snapshot stack to `i`; `DiscardSnapshot(i)` only truncates). Tied to the real `StateDB` by `harness/cmd/c08`
(which is also what detects a `DeepClone` that shares memory — value semantics is an assumption of the model).

"Snapshot `i`" is the snapshot pushed by the most recent `Snapshot()` call that returned `i`; it is alive as long as the
stack depth stays above `i` (`StaysAbove`). Any nesting of snapshots, reverts and discards above it is allowed.
-/
namespace OntVerif.Props.C08
open OntVerif.Util OntVerif.Model.KV OntVerif.Model.KV.StateDB OntVerif.Proofs.KV OntVerif.Proofs.KV.SDB
open OntVerif.Model.KVLive OntVerif.Proofs.KVLive

/-- **Main theorem.** Take a snapshot in ANY state `s1` (it gets id `i = depth`). Run ANY history of mutations and nested
snapshot / revert / discard operations during which snapshot `i` stays alive. Then `RevertToSnapshot(i)` succeeds and
the whole state — transaction memdb (hence every storage slot, nonce, code hash, code, ONG balance), `Suicided`, log
list, refund counter, and the snapshot stack below `i` — is exactly `s1` again. (Only the sticky error flag of the
overlay, which is not part of the property, is not rolled back.) -/
theorem C08_revert (s1 : StateDB) (ops : List SOp)
    (alive : StaysAbove s1.snaps.length s1.snapshot.1 ops) :
    (s1.snapshot.1.runOps ops).revert (s1.snapshot.2 : Int)
      = some { s1 with dbErr := (s1.snapshot.1.runOps ops).dbErr } :=
  revert_of_above (above_run ops (above_snapshot s1) alive)

/-- every getter reads after the revert what it read when the snapshot was taken -/
theorem C08_getters (s1 : StateDB) (ops : List SOp)
    (alive : StaysAbove s1.snaps.length s1.snapshot.1 ops) :
    ∃ s3, (s1.snapshot.1.runOps ops).revert (s1.snaps.length : Int) = some s3 ∧
      (∀ a k, s3.getState a k = s1.getState a k) ∧ (∀ a, s3.getNonce a = s1.getNonce a) ∧
      (∀ a, s3.getCodeHash a = s1.getCodeHash a) ∧ (∀ a, s3.getCode a = s1.getCode a) ∧
      (∀ a, s3.getBalance a = s1.getBalance a) ∧ (∀ a, s3.hasSuicided a = s1.hasSuicided a) ∧
      (∀ a, s3.exist a = s1.exist a) ∧ (∀ a, s3.empty a = s1.empty a) ∧
      s3.logs = s1.logs ∧ s3.refund = s1.refund ∧ s3.snaps = s1.snaps :=
  ⟨_, C08_revert s1 ops alive, fun _ _ => rfl, fun _ => rfl, fun _ => rfl, fun _ => rfl, fun _ => rfl,
    fun _ => rfl, fun _ => rfl, fun _ => rfl, rfl, rfl, rfl⟩

/-- `DiscardSnapshot` keeps the current state: only the stack is cut -/
theorem C08_discard (s s' : StateDB) (i : Int) (h : s.discard i = some s') :
    s'.cache = s.cache ∧ s'.suicided = s.suicided ∧ s'.logs = s.logs ∧ s'.refund = s.refund ∧
      s'.snaps = s.snaps.take i.toNat := by
  simp only [StateDB.discard] at h
  split at h
  · cases h
  · split at h
    · cases h
    · cases h; exact ⟨rfl, rfl, rfl, rfl, rfl⟩

/-- index validity mirrors the panics of the Go code: `idx+1 > len(snapshots)` or a negative index -/
theorem C08_revert_panics_iff (s : StateDB) (i : Int) :
    s.revert i = none ↔ (i < 0 ∨ s.snaps.length ≤ i.toNat) := by
  simp only [StateDB.revert]
  by_cases hneg : i < 0
  · simp [hneg]
  · simp only [hneg, if_false, false_or]
    cases h : s.snaps[i.toNat]? with
    | none => simpa using List.getElem?_eq_none_iff.mp h
    | some sn =>
      have := (List.getElem?_eq_some_iff.mp h).1
      simp; omega

theorem C08_discard_panics_iff (s : StateDB) (i : Int) :
    s.discard i = none ↔ (i < 0 ∨ s.snaps.length ≤ i.toNat) := by
  simp only [StateDB.discard]
  by_cases hneg : i < 0
  · simp [hneg]
  · simp only [hneg, if_false, false_or]
    by_cases h : i.toNat + 1 > s.snaps.length
    · simp [h]; omega
    · simp [h]; omega

/-! ### The Go aliasing facts the value-based model relies on, regenerated from the source on every run (`Gen/StateAlias.lean`)

The model copies values; Go shares memory unless the code copies. `C08_revert` is a statement about the Go code only under
these facts (a refactor that drops one of the copies changes the generated definitions and these theorems stop checking):
(A1) `MemDB.DeepClone` builds a MemDB whose slice fields are new backing arrays and sets every field; the only things two
MemDBs can share are the comparer and the random source of the skip-list heights. (A2) `Snapshot()` stores that clone, a map
freshly `make`d and filled from `Suicided`, `len(logs)` and `refund`; a snapshot holds no slice. (A3) `RevertToSnapshot`
assigns the four parts back and cuts the stack. (A4) `logs` is only appended to (`AddLog`) or cut (`RevertToSnapshot`), so the
first `logsSize` elements are never overwritten while a snapshot that recorded `logsSize` is alive; the `CacheDB.memdb` pointer
is only replaced by `RevertToSnapshot`; the live `Suicided` map is only written by `Suicide`, replaced by `RevertToSnapshot`
(with the popped snapshot's own map) and by `CommitToCacheDB`. -/

open OntVerif.Gen.StateAlias in
/-- (A1) `DeepClone` returns one `MemDB{…}` literal that sets every field, with new backing arrays for the slice fields;
the only reference-typed fields two MemDBs can share are listed -/
theorem C08_alias_deepclone :
    deepCloneSlicesFresh = true ∧ deepCloneSetsAllFields = true ∧ deepCloneReturnsLiteral = true ∧
    memDBRefFields = [("cmp", "comparer.BasicComparer"), ("rnd", "*rand.Rand"), ("kvData", "[]byte"), ("nodeData", "[]int")] := by
  decide

open OntVerif.Gen.StateAlias in
/-- (A2) `Snapshot()` pushes one `snapshot{…}` literal: a DeepClone of the memdb, a FRESH copy of the `Suicided` map, the
current length of `logs` and the current `refund`; the struct holds no slice -/
theorem C08_alias_snapshot :
    snapshotMapFreshCopy = true ∧ snapshotMemdbCloned = true ∧ snapshotRecordsLogsLen = true ∧ snapshotRecordsRefund = true ∧
    snapshotPushed = true ∧ snapshotLiteralFields = ["changes", "logsSize", "refund", "suicided"] ∧
    snapshotStruct = [("changes", "*overlaydb.MemDB"), ("suicided", "map[common.Address]bool"), ("logsSize", "int"), ("refund", "uint64")] := by
  decide

open OntVerif.Gen.StateAlias in
/-- (A3) `RevertToSnapshot` unconditionally restores the four parts from the saved snapshot and cuts the stack, and does
nothing else (apart from the bounds check) -/
theorem C08_alias_revert :
    revertAssignments = ["recv.Suicided=saved.suicided", "recv.cacheDB.memdb=saved.changes", "recv.logs=recv.logs[:saved.logsSize]",
      "recv.refund=saved.refund", "recv.snapshots=recv.snapshots[:idx]"] ∧ revertOtherStatements = [] := by
  decide

open OntVerif.Gen.StateAlias in
/-- (A4) who writes the log slice, the memdb pointer and the `Suicided` map, and how -/
theorem C08_alias_writers :
    logsWrites = [("AddLog", "append"), ("RevertToSnapshot", "truncate")] ∧
    memdbPointerWrites = [("RevertToSnapshot", "snapshot-field:changes")] ∧
    suicidedWrites = [("CommitToCacheDB", "fresh-make"), ("RevertToSnapshot", "snapshot-field:suicided"), ("Suicide", "set-entry:Suicided")] := by
  decide

/-! ### `StateDB.Commit` / `CommitToCacheDB` (`Model/KVLive.lean`) -/

/-- a commit between a snapshot and its revert: the snapshot stack is cut to length 0, so EVERY later `RevertToSnapshot` /
`DiscardSnapshot` of an id handed out before is rejected (panics) — a commit cannot be followed by a revert that restores
something else than promised; it simply ends the lifetime of all snapshots (`StaysAbove` fails at that point). Snapshots taken
afterwards are covered by `C08_revert`, which starts from any state. There is no `Finalise`/`IntermediateRoot` in this StateDB. -/
theorem C08_commit_kills_snapshots (s : StateDB) (i : Int) :
    (commit s).snaps = [] ∧ (commitToCacheDB s).snaps = [] ∧
    (commit s).revert i = none ∧ (commit s).discard i = none ∧
    (commitToCacheDB s).revert i = none ∧ (commitToCacheDB s).discard i = none := by
  refine ⟨rfl, rfl, ?_, ?_, ?_, ?_⟩
  · exact (C08_revert_panics_iff _ i).mpr (by rw [(commit_snaps s).1]; simp <;> omega)
  · exact (C08_discard_panics_iff _ i).mpr (by rw [(commit_snaps s).1]; simp <;> omega)
  · exact (C08_revert_panics_iff _ i).mpr (by rw [(commitToCacheDB_snaps s).1]; simp <;> omega)
  · exact (C08_discard_panics_iff _ i).mpr (by rw [(commitToCacheDB_snaps s).1]; simp <;> omega)

/-- what `CommitToCacheDB` does to the self-destructed accounts: no account record, no code hash, no storage slot left (for ANY
slot, whatever layer it lived in), the mark is cleared; the lower layers are not written -/
theorem C08_commit_destroys (s : StateDB) (inv : Inv s.cache) (a : Bytes) (ha : a ∈ s.suicided) :
    (commitToCacheDB s).getNonce a = 0 ∧ (commitToCacheDB s).getCodeHash a = zeroHash ∧
    (∀ slot, (commitToCacheDB s).getState a slot = zeroHash) ∧ (commitToCacheDB s).hasSuicided a = false ∧
    (commitToCacheDB s).cache.backend = s.cache.backend := by
  obtain ⟨_, bk, h⟩ := kill_fold s.suicided s.cache inv [] (by simp)
  obtain ⟨h1, h2⟩ := h a (Or.inr ha)
  have hacct : (commitToCacheDB s).getEthAccount a = ⟨0, zeroHash⟩ := by
    have : (commitToCacheDB s).cache.get stEthAccount a = [] := h2
    simp [StateDB.getEthAccount, this]
  refine ⟨by simp [StateDB.getNonce, hacct], by simp [StateDB.getCodeHash, hacct], ?_, rfl, bk⟩
  intro slot
  have : (commitToCacheDB s).cache.get stStorage (a ++ slot) = [] := h1 (a ++ slot) (List.prefix_append a slot)
  simp only [StateDB.getState, this]
  decide

/-! ### Non-vacuity: a nested history (snapshot 0; mutations; snapshot 1; mutation; revert 1; log; snapshot 1 again;
discard 1) keeps snapshot 0 alive, and the revert restores a state with a non-empty memdb, log and refund -/
def s1ex : StateDB :=
  ({ cache := ⟨[], ⟨[], [([5, 1], [9])]⟩⟩ } : StateDB).runOps
    [.mutate (.setNonce [1] 5), .mutate (.addLog [7]), .mutate (.addRefund 3), .mutate (.addBalance [2] 10)]
def opsEx : List SOp :=
  [.mutate (.setNonce [1] 6), .mutate (.suicide [1]), .snapshot, .mutate (.subBalance [2] 4), .mutate (.addLog [8]),
   .revert 1, .mutate (.addLog [9]), .snapshot, .mutate (.subRefund 2), .discard 1, .revert 7]
example : StaysAbove s1ex.snaps.length s1ex.snapshot.1 opsEx := by decide
example : (s1ex.snapshot.1.runOps opsEx).getNonce [1] = 6 ∧ s1ex.getNonce [1] = 5 ∧ s1ex.logs = [[7]] ∧
    (s1ex.snapshot.1.runOps opsEx).logs = [[7], [9]] ∧ (s1ex.snapshot.1.runOps opsEx).hasSuicided [1] = true := by decide
example : ((s1ex.snapshot.1.runOps opsEx).revert 0).map (·.getNonce [1]) = some 5 := by decide

end OntVerif.Props.C08
