import OntVerif.Model.Quorum
import Mathlib.Data.Fintype.Card
/-!
# C28 — BFT quorum thresholds always intersect in an honest peer

All threshold formulas below are the *generated* definitions of `Gen/Quorum.lean` (extracted from
`block_validator.go`, `node_utils.go`, `block_pool.go`, `ledger_store.go`, `address.go` on every run), so the
theorems are re-proved against what the code says now. `N`, `C` range over all naturals.
-/
namespace OntVerif.Props.C28
open OntVerif.Gen.Quorum OntVerif.Model.Quorum

/-- Counting core: two sets of peers whose sizes add up to more than `N + C` share a peer outside any `C`-set. -/
theorem inter_outside_faulty {N C a b : Nat} (A B F : Finset (Fin N))
    (hA : a ≤ A.card) (hB : b ≤ B.card) (hF : F.card ≤ C) (hq : N + C + 1 ≤ a + b) :
    ∃ p, p ∈ A ∧ p ∈ B ∧ p ∉ F := by
  classical
  have hU : (A ∪ B).card ≤ N := by simpa using Finset.card_le_univ (A ∪ B)
  have hIE := Finset.card_union_add_card_inter A B
  have hI : C + 1 ≤ (A ∩ B).card := by omega
  have hlt : F.card < (A ∩ B).card := by omega
  obtain ⟨p, hp, hnp⟩ := Finset.exists_mem_notMem_of_card_lt_card hlt
  exact ⟨p, (Finset.mem_inter.mp hp).1, (Finset.mem_inter.mp hp).2, hnp⟩

/-- arithmetic heart, re-checked by `omega` against the regenerated formulas -/
theorem need_sum (s t : QSite) (N C : Nat) (h : 3 * C + 1 ≤ N) : N + C + 1 ≤ need s N + need t N := by
  cases s <;> cases t <;>
    simp only [need, blockValidator_m, ledgerStore_m, addrFromBookkeepers_m, crossChainMsg_m, commitDone_strict,
      commitDone_C, commitConsensus_q] <;> omega

/-- **C28 (quorum intersection).** For every `N ≥ 3C+1`, any two signer sets that meet the thresholds of any two of the
sealing / committing / verifying sites share a peer outside any set `F` of at most `C` faulty peers. -/
theorem C28_intersect (s t : QSite) (N C : Nat) (h : 3 * C + 1 ≤ N) (A B F : Finset (Fin N))
    (hA : need s N ≤ A.card) (hB : need t N ≤ B.card) (hF : F.card ≤ C) :
    ∃ p, p ∈ A ∧ p ∈ B ∧ p ∉ F :=
  inter_outside_faulty A B F hA hB hF (need_sum s t N C h)

/-- **Endorsement thresholds** (`endorseDone`: more than `C` endorsements, at least `C+1` endorsers; VBFT header check:
`C+1` distinct listed members): any set that large contains a peer outside any `C` faulty peers. -/
theorem C28_endorse_honest (N C : Nat) (A F : Finset (Fin N)) (hF : F.card ≤ C)
    (hA : endorseDone_strict C ≤ A.card ∨ endorseDone_min C ≤ A.card ∨ ledgerStore_vbft_members C ≤ A.card) :
    ∃ p, p ∈ A ∧ p ∉ F := by
  have : F.card < A.card := by
    simp only [endorseDone_strict, endorseDone_min, ledgerStore_vbft_members] at hA
    omega
  exact Finset.exists_mem_notMem_of_card_lt_card this

/-- The commit-message path counts `k` recorded signer indexes and adds one for the proposer. When the proposer is not
itself among the recorded signers the vouching set has `k+1 ≥ q` members and `C28_intersect` applies
(`QSite.commitMsgQuorum`). -/
theorem C28_commitMsg_distinct (N k : Nat) (h : commitConsensusReached N k = true) :
    need .commitMsgQuorum N ≤ distinctVouchers k false := by
  unfold commitConsensusReached commitConsensus_lhs at h
  have h' := (of_decide_eq_true h).2
  simp [need, distinctVouchers]
  exact h'

/-- …but the code adds the `+1` unconditionally: if the proposer is also a recorded signer only `q-1` distinct peers
vouch, and two such sets need not share an honest peer. Witness `N = 4, C = 1`: `{0,1}` and `{0,2}` with `0` faulty.
(Recorded as a known finding; whether a proposer can be recorded as signer is decided on the real code by the harness.) -/
theorem C28_commitMsg_double_count_counterexample :
    ¬ (∀ (N C k : Nat) (A B F : Finset (Fin N)), 3 * C + 1 ≤ N → commitConsensusReached N k = true →
        distinctVouchers k true ≤ A.card → distinctVouchers k true ≤ B.card → F.card ≤ C →
        ∃ p, p ∈ A ∧ p ∈ B ∧ p ∉ F) := by
  intro h
  have := h 4 1 2 {0, 1} {0, 2} {0} (by omega) (by decide) (by decide) (by decide) (by decide)
  revert this
  decide

/-- For the record (C32): the VBFT header path verifies only `n - 6n/7` signatures, which is not a quorum. -/
theorem C28_vbft_header_sig_count_is_not_a_quorum : ledgerStore_vbft_m 7 = 1 ∧ ¬ (7 + 2 + 1 ≤ ledgerStore_vbft_m 7 + ledgerStore_vbft_m 7) := by
  decide

/-! ### Non-vacuity -/
example : ∃ (A B F : Finset (Fin 4)), need .blockValidator 4 ≤ A.card ∧ need .commitSigQuorum 4 ≤ B.card ∧ F.card ≤ 1 :=
  ⟨{0, 1, 2}, {1, 2, 3}, {1}, by decide, by decide, by decide⟩
example : need .blockValidator 7 = 5 ∧ need .commitSigQuorum 7 = 5 ∧ need .commitMsgQuorum 7 = 5 := by decide

end OntVerif.Props.C28
