import OntVerif.Proofs.AddBlock
import OntVerif.Gen.AddBlockOrder
/-!
# C39 — Invalid blocks are rejected without changing the ledger

Model: `Model/AddBlock.lean` — the add-block pipeline as the list of its guards and effects **in source order**
(`AddBlock`/`SubmitBlock` → `verifyHeader` → `saveBlock` → `submitBlock` → stores), preceded for blocks that arrive as bytes by the
checks of `Block.Deserialization`.  `run` keeps every effect executed before a failing guard, so the no-op theorems below are
statements about that order.  Hashes, signatures, merkle accumulators and execution are arbitrary functions (`Prims`).
-/
namespace OntVerif.Props.C39
open OntVerif.Model.AddBlock OntVerif.Proofs.AddBlock

/-- outcome is not "added" and the whole ledger — the three stores AND the in-memory height, current hash, header index,
header cache, block-root and state-root accumulators, open batches — is exactly what it was -/
def Untouched (r : Outcome × Ledger) (l : Ledger) : Prop := r.1 ≠ .added ∧ r.2 = l

/-- **Reject ⇒ no-op**, syncing path (`AddBlock`): whatever the block, the expected state root, the ledger and the primitives,
if the block is not added nothing changed. -/
theorem C39_reject_noop (P : Prims) (b : Block) (sr : Hash) (l : Ledger)
    (h : (addBlock P b sr l).1 ≠ .added) : (addBlock P b sr l).2 = l := by
  rcases run_guardsFirst _ (addBlock_guardsFirst P b sr) l with ⟨_, h2, _⟩ | ⟨h1, _⟩
  · exact h2
  · exact absurd (by rw [addBlock, h1]) h

/-- the same for bytes from a peer (`BlockFromRawBytes` + `AddBlock`) -/
theorem C39_reject_noop_bytes (P : Prims) (b : Block) (sr : Hash) (l : Ledger)
    (h : (addBlockBytes P b sr l).1 ≠ .added) : (addBlockBytes P b sr l).2 = l := by
  rcases run_guardsFirst _ (addBlockBytes_guardsFirst P b sr) l with ⟨_, h2, _⟩ | ⟨h1, _⟩
  · exact h2
  · exact absurd (by rw [addBlockBytes, h1]) h

/-- the same for the consensus path (`ExecuteBlock` + `SubmitBlock`) -/
theorem C39_reject_noop_submit (P : Prims) (b : Block) (l : Ledger)
    (h : (submitBlock P b l).1 ≠ .added) : (submitBlock P b l).2 = l := by
  rcases run_guardsFirst _ (submitBlock_guardsFirst P b) l with ⟨_, h2, _⟩ | ⟨h1, _⟩
  · exact h2
  · exact absurd (by rw [submitBlock, h1]) h

/-- and for header sync (`AddHeader`) -/
theorem C39_reject_noop_header (P : Prims) (h : Hdr) (l : Ledger)
    (hr : (addHeader P h l).1 ≠ .added) : (addHeader P h l).2 = l := by
  rcases run_guardsFirst _ (addHeader_guardsFirst P h) l with ⟨_, h2, _⟩ | ⟨h1, _⟩
  · exact h2
  · exact absurd (by rw [addHeader, h1]) hr

/-- **Exactly the acceptable blocks are added**: `AddBlock` adds the block iff it is the next height, its previous header is
known at height-1 with a smaller timestamp, the bookkeeper set hashes to the previous NextBookkeeper, the multi-signature
verifies, the ledger is not closing, execution succeeds with the expected state root (unless the block is empty) and the block
root matches, and the previous hash is the current block hash. -/
theorem C39_added_iff (P : Prims) (b : Block) (sr : Hash) (l : Ledger) :
    (addBlock P b sr l).1 = .added ↔ Acceptable P l b sr := by
  rw [← addBlock_passes]
  rcases run_guardsFirst _ (addBlock_guardsFirst P b sr) l with ⟨h1, _, s, hs, hp⟩ | ⟨h1, h2⟩
  · constructor
    · intro h; exact absurd h h1
    · intro h; rw [h s hs] at hp; cases hp
  · constructor
    · intro _; exact h2
    · intro _; rw [addBlock, h1]

/-- bytes pipeline: additionally no duplicated transaction and the header's transaction root is the merkle root of the transactions -/
theorem C39_added_iff_bytes (P : Prims) (b : Block) (sr : Hash) (l : Ledger) :
    (addBlockBytes P b sr l).1 = .added
      ↔ (hasDup (b.txs.map P.txHash) = false ∧ b.hdr.u.txRoot = P.merkleRoot (b.txs.map P.txHash) ∧ Acceptable P l b sr) := by
  rw [← addBlock_passes]
  have key : (∀ s ∈ addBlockBytesSteps P b sr, Step.passes l s = true)
      ↔ (hasDup (b.txs.map P.txHash) = false ∧ b.hdr.u.txRoot = P.merkleRoot (b.txs.map P.txHash)
          ∧ ∀ s ∈ addBlockSteps P b sr, Step.passes l s = true) := by
    simp only [addBlockBytesSteps, decodeSteps, List.mem_append, or_imp, forall_and, List.mem_cons, List.mem_nil_iff, or_false,
      forall_eq, Step.passes]
    by_cases hd : hasDup (b.txs.map P.txHash) = true <;> by_cases hr : b.hdr.u.txRoot = P.merkleRoot (b.txs.map P.txHash) <;>
      simp [hd, hr]
  rw [← key]
  rcases run_guardsFirst _ (addBlockBytes_guardsFirst P b sr) l with ⟨h1, _, s, hs, hp⟩ | ⟨h1, h2⟩
  · constructor
    · intro h; exact absurd h h1
    · intro h; rw [h s hs] at hp; cases hp
  · constructor
    · intro _; exact h2
    · intro _; rw [addBlockBytes, h1]

/-! ### the other outcome: an added block leaves exactly the specified ledger -/

/-- **Post-state of acceptance** (syncing path): an acceptable block is added and the resulting ledger IS `addedLedger` — the three
stores get exactly the batches `blockBatch` / `stateBatch` / `eventBatch` on top (header record with the transaction hashes, hash by
height, current block, every transaction with its height, bloom; state root and both merkle accumulators, the executed write set;
event records), the in-memory height, current hash, header index, both accumulators are advanced and the block's header leaves the
header cache.  With `C39_reject_noop` and `C39_added_iff` this characterises both outcomes of `AddBlock` completely. -/
theorem C39_added_state (P : Prims) (b : Block) (sr : Hash) (l : Ledger) (a : Acceptable P l b sr) :
    ∃ ws st, execRes P l b = some (ws, st) ∧ addBlock P b sr l = (.added, addedLedger P b l ws st) := by
  obtain ⟨ws, st, he, _⟩ := a.exec
  refine ⟨ws, st, he, ?_⟩
  rcases run_guardsFirst _ (addBlock_guardsFirst P b sr) l with ⟨h1, _, _⟩ | ⟨h1, _⟩
  · exact absurd ((C39_added_iff P b sr l).mpr a) h1
  · rw [addBlock, h1, addBlock_effects P b sr l ws st he]

/-- the same ledger results on the consensus path (`ExecuteBlock` + `SubmitBlock`) -/
theorem C39_added_state_submit (P : Prims) (b : Block) (l : Ledger) (ws : Hash) (st : St) (he : execRes P l b = some (ws, st))
    (h : (submitBlock P b l).1 = .added) : submitBlock P b l = (.added, addedLedger P b l ws st) := by
  rcases run_guardsFirst _ (submitBlock_guardsFirst P b) l with ⟨h1, _, _⟩ | ⟨h1, _⟩
  · exact absurd h h1
  · rw [submitBlock, h1, submitBlock_effects P b l ws st he]

/-- what the queries see afterwards: the block is the tip, is found by hash and by height, the state is the executed state and
both accumulators have one more leaf -/
theorem C39_added_reads (P : Prims) (b : Block) (sr : Hash) (l : Ledger) (a : Acceptable P l b sr) :
    ∃ ws st, execRes P l b = some (ws, st) ∧
      let l' := (addBlock P b sr l).2
      l'.mem.curHeight = b.hdr.u.height ∧ l'.mem.curHash = P.hdrHash b.hdr.u
        ∧ lookupHeader l' (P.hdrHash b.hdr.u) = some b.hdr
        ∧ findBlockHash b.hdr.u.height l'.disk.block = some (P.hdrHash b.hdr.u)
        ∧ curState l'.disk.state = st
        ∧ l'.mem.blockLeaves = l.mem.blockLeaves ++ [b.hdr.u.txRoot] ∧ l'.mem.deltaLeaves = l.mem.deltaLeaves ++ [ws] := by
  obtain ⟨ws, st, he, e⟩ := C39_added_state P b sr l a
  refine ⟨ws, st, he, ?_⟩
  rw [e]
  exact addedLedger_reads P b l ws st

/-! ### per-field: a wrong field ⇒ not added and nothing changed -/

private theorem untouched_of_not_acceptable {P b sr l} (h : ¬ Acceptable P l b sr) : Untouched (addBlock P b sr l) l := by
  have : (addBlock P b sr l).1 ≠ .added := fun ha => h ((C39_added_iff P b sr l).mp ha)
  exact ⟨this, C39_reject_noop P b sr l this⟩

/-- wrong height (stale, too far ahead, anything but current+1) -/
theorem C39_height_checked (P b sr l) (h : b.hdr.u.height ≠ (l.mem.curHeight + 1) % u32) : Untouched (addBlock P b sr l) l :=
  untouched_of_not_acceptable fun a => h a.next.2

/-- unknown previous hash -/
theorem C39_prev_unknown_checked (P b sr l) (h : lookupHeader l b.hdr.u.prev = none) : Untouched (addBlock P b sr l) l :=
  untouched_of_not_acceptable fun a => by obtain ⟨ph, hp, _⟩ := a.header.prev; rw [h] at hp; cases hp

/-- previous hash of a header that is not at height-1 (an older block, …) -/
theorem C39_prev_height_checked (P b sr l ph) (hp : lookupHeader l b.hdr.u.prev = some ph)
    (h : (ph.u.height + 1) % u32 ≠ b.hdr.u.height) : Untouched (addBlock P b sr l) l :=
  untouched_of_not_acceptable fun a => by
    obtain ⟨ph', hp', hh, _⟩ := a.header.prev
    rw [hp] at hp'; cases hp'; exact h hh

/-- non-increasing timestamp -/
theorem C39_timestamp_checked (P b sr l ph) (hp : lookupHeader l b.hdr.u.prev = some ph)
    (h : b.hdr.u.ts ≤ ph.u.ts) : Untouched (addBlock P b sr l) l :=
  untouched_of_not_acceptable fun a => by
    obtain ⟨ph', hp', _, ht, _⟩ := a.header.prev
    rw [hp] at hp'; cases hp'; omega

/-- bookkeeper set that does not hash to the NextBookkeeper of the previous header (or has no address at all) -/
theorem C39_bookkeeper_checked (P b sr l ph) (hp : lookupHeader l b.hdr.u.prev = some ph)
    (h : P.addrOf b.hdr.keys ≠ some ph.u.nextBk) : Untouched (addBlock P b sr l) l :=
  untouched_of_not_acceptable fun a => by
    obtain ⟨ph', hp', _, _, ha⟩ := a.header.prev
    rw [hp] at hp'; cases hp'; exact h ha

/-- insufficient valid signatures: the multi-signature check fails -/
theorem C39_signatures_checked (P b sr l)
    (h : verifyMulti P (P.hdrHash b.hdr.u) b.hdr.keys (OntVerif.Gen.Quorum.ledgerStore_m b.hdr.keys.length) b.hdr.sigs ≠ none) :
    Untouched (addBlock P b sr l) l :=
  untouched_of_not_acceptable fun a => h a.header.sigs

/-- wrong block root -/
theorem C39_blockroot_checked (P b sr l) (h : P.rootWith l.mem.blockLeaves b.hdr.u.txRoot ≠ b.hdr.u.blockRoot) :
    Untouched (addBlock P b sr l) l :=
  untouched_of_not_acceptable fun a => h a.root

/-- wrong state root on a non-empty block -/
theorem C39_stateroot_checked (P b sr l ws st) (he : execRes P l b = some (ws, st)) (hne : b.txs ≠ [])
    (h : P.stateRootWith l.mem.deltaLeaves ws ≠ sr) : Untouched (addBlock P b sr l) l :=
  untouched_of_not_acceptable fun a => by
    obtain ⟨ws', st', he', hs⟩ := a.exec
    rw [he] at he'; cases he'
    rcases hs with hs | hs
    · exact hne hs
    · exact h hs

/-- bad transaction root, block delivered as bytes -/
theorem C39_txroot_checked (P b sr l) (h : b.hdr.u.txRoot ≠ P.merkleRoot (b.txs.map P.txHash)) :
    Untouched (addBlockBytes P b sr l) l := by
  have : (addBlockBytes P b sr l).1 ≠ .added := fun ha => h ((C39_added_iff_bytes P b sr l).mp ha).2.1
  exact ⟨this, C39_reject_noop_bytes P b sr l this⟩

/-- duplicated transaction, block delivered as bytes -/
theorem C39_duptx_checked (P b sr l) (h : hasDup (b.txs.map P.txHash) = true) :
    Untouched (addBlockBytes P b sr l) l := by
  have : (addBlockBytes P b sr l).1 ≠ .added := fun ha => by
    have := ((C39_added_iff_bytes P b sr l).mp ha).1
    rw [h] at this; cases this
  exact ⟨this, C39_reject_noop_bytes P b sr l this⟩

/-- `AddBlock` on an in-memory block object does not recompute the transaction root; but a block in which ONLY the transaction
root is wrong (the block root is the one of the true transaction root) is still refused unless the block-root accumulator collides. -/
theorem C39_txroot_object_single_field (P b sr l)
    (h : b.hdr.u.txRoot ≠ P.merkleRoot (b.txs.map P.txHash))
    (hb : b.hdr.u.blockRoot = P.rootWith l.mem.blockLeaves (P.merkleRoot (b.txs.map P.txHash))) :
    Untouched (addBlock P b sr l) l
      ∨ (P.rootWith l.mem.blockLeaves b.hdr.u.txRoot = P.rootWith l.mem.blockLeaves (P.merkleRoot (b.txs.map P.txHash))
          ∧ b.hdr.u.txRoot ≠ P.merkleRoot (b.txs.map P.txHash)) := by
  by_cases hc : P.rootWith l.mem.blockLeaves b.hdr.u.txRoot = b.hdr.u.blockRoot
  · right; exact ⟨by rw [hc, hb], h⟩
  · left; exact C39_blockroot_checked P b sr l hc

/-! ### the previous hash must be the current block (guard added by `fixes/C39-prev-hash-is-tip.patch`, now in the tree) -/

/-- wrong previous hash: anything but the hash of the current block — an unknown hash, an older block, or a header that only sits
in the header cache -/
theorem C39_prev_checked (P : Prims) (b : Block) (sr : Hash) (l : Ledger) (h : b.hdr.u.prev ≠ l.mem.curHash) :
    Untouched (addBlock P b sr l) l :=
  untouched_of_not_acceptable fun a => h a.tip

private theorem submit_untouched_of_failing_step {P : Prims} {b : Block} {l : Ledger}
    (hp : ∃ s ∈ submitBlockSteps P b, Step.passes l s = false) : Untouched (submitBlock P b l) l := by
  have na : (submitBlock P b l).1 ≠ .added := by
    rcases run_guardsFirst _ (submitBlock_guardsFirst P b) l with ⟨h1, _, _⟩ | ⟨_, h2⟩
    · exact h1
    · obtain ⟨s, hs, hf⟩ := hp
      rw [h2 s hs] at hf; cases hf
  exact ⟨na, C39_reject_noop_submit P b l na⟩

/-- the same on the consensus path -/
theorem C39_prev_checked_submit (P : Prims) (b : Block) (l : Ledger) (h : b.hdr.u.prev ≠ l.mem.curHash) :
    Untouched (submitBlock P b l) l :=
  submit_untouched_of_failing_step
    ⟨.guard "header.PrevBlockHash!=this.GetCurrentBlockHash()" (fun l => if b.hdr.u.prev ≠ l.mem.curHash then some .prevTip else none),
      by simp [submitBlockSteps, heightGuards], by simp [Step.passes, h]⟩

/-! ### the header cache never excuses the signature check

Headers that arrived through `AddHeader` (header sync) sit in the header cache under their hash, and the hash covers only the
unsigned fields.  `verifyHeader` consults that cache for the PREVIOUS header only.  The ledger `l` in `C39_signatures_checked` is
arbitrary, so the theorem already holds for every header-cache content; the statements below make that explicit, including the case
in which the cache holds a header with the very hash of the arriving block (the block's own valid header, delivered earlier). -/

theorem C39_signatures_checked_any_header_cache (P : Prims) (b : Block) (sr : Hash) (l : Ledger) (cache : List (Hash × Hdr))
    (h : verifyMulti P (P.hdrHash b.hdr.u) b.hdr.keys (OntVerif.Gen.Quorum.ledgerStore_m b.hdr.keys.length) b.hdr.sigs ≠ none) :
    Untouched (addBlock P b sr { l with mem := { l.mem with hdrCache := cache } }) { l with mem := { l.mem with hdrCache := cache } } :=
  C39_signatures_checked P b sr _ h

/-- in particular after the block's own valid header went through `AddHeader` -/
theorem C39_signatures_checked_after_own_header (P : Prims) (b : Block) (sr : Hash) (l : Ledger) (valid : Hdr)
    (_same : P.hdrHash valid.u = P.hdrHash b.hdr.u)
    (h : verifyMulti P (P.hdrHash b.hdr.u) b.hdr.keys (OntVerif.Gen.Quorum.ledgerStore_m b.hdr.keys.length) b.hdr.sigs ≠ none) :
    Untouched (addBlock P b sr (addHeader P valid l).2) (addHeader P valid l).2 :=
  C39_signatures_checked P b sr _ h

/-- and on the consensus path (`ExecuteBlock` + `SubmitBlock`), for every ledger hence every header-cache content -/
theorem C39_signatures_checked_submit (P : Prims) (b : Block) (l : Ledger)
    (h : verifyMulti P (P.hdrHash b.hdr.u) b.hdr.keys (OntVerif.Gen.Quorum.ledgerStore_m b.hdr.keys.length) b.hdr.sigs ≠ none) :
    Untouched (submitBlock P b l) l :=
  submit_untouched_of_failing_step
    ⟨.guard "VerifyMultiSignature"
        (fun _ => verifyMulti P (P.hdrHash b.hdr.u) b.hdr.keys (OntVerif.Gen.Quorum.ledgerStore_m b.hdr.keys.length) b.hdr.sigs),
      by simp [submitBlockSteps, verifyHeaderSteps],
      by
        cases hv : verifyMulti P (P.hdrHash b.hdr.u) b.hdr.keys (OntVerif.Gen.Quorum.ledgerStore_m b.hdr.keys.length) b.hdr.sigs with
        | none => exact absurd hv h
        | some e => simp [Step.passes]⟩

/-- bookkeeper set replaced (same header hash): refused for every header-cache content, both paths use the same guard list -/
theorem C39_bookkeeper_checked_any_header_cache (P : Prims) (b : Block) (sr : Hash) (l : Ledger) (cache : List (Hash × Hdr)) (ph : Hdr)
    (hp : lookupHeader { l with mem := { l.mem with hdrCache := cache } } b.hdr.u.prev = some ph)
    (h : P.addrOf b.hdr.keys ≠ some ph.u.nextBk) :
    Untouched (addBlock P b sr { l with mem := { l.mem with hdrCache := cache } }) { l with mem := { l.mem with hdrCache := cache } } :=
  C39_bookkeeper_checked P b sr _ ph hp h

/-- the scenario that the unrepaired code accepted (replay `A 1 fork;os1:prev=f`, kept in corpus/C39): a second signed header for
height 1 is put into the header cache by `AddHeader`, the regular block 1 is added, and a correctly signed block 2 names the
*cached* header as its predecessor.  Every check of `verifyHeader` passes for it (`HeaderOK`), only the previous-hash guard
refuses it. -/
def witnessLedger : Ledger :=
  let l0 := genesis demoPrims
  let alt := validNext demoPrims l0 [] 1
  let l1 := (addHeader demoPrims alt.hdr l0).2
  let b1 := validNext demoPrims l1 [5] 0
  (addBlock demoPrims b1 (stateRootOf demoPrims l1 b1) l1).2

def witnessBlock : Block :=
  let alt := validNext demoPrims (genesis demoPrims) [] 1
  let b := validNext demoPrims witnessLedger [6] 0
  let u := { b.hdr.u with prev := demoPrims.hdrHash alt.hdr.u }
  { b with hdr := { u := u, keys := [1], sigs := [sign demoPrims 1 u] } }

theorem C39_fork_header_witness_refused :
    (addBlock demoPrims witnessBlock (stateRootOf demoPrims witnessLedger witnessBlock) witnessLedger).1 = .rejected .prevTip
      ∧ (run (verifyHeaderSteps demoPrims witnessBlock.hdr) witnessLedger).1 = .added := by
  decide

/-- **Insufficient valid signatures**: when the multi-signature check passes, the required number `m = n - (n-1)/3` of
signatures is present, there are at least `m` bookkeeper keys, and each of the first `m` signatures parses and verifies under a
listed key (every key is consumed by at most one signature).  So a header with fewer than `m` such signatures is refused
(`C39_signatures_checked`). -/
theorem C39_signatures_sufficient (P : Prims) (h : Hdr)
    (hv : verifyMulti P (P.hdrHash h.u) h.keys (OntVerif.Gen.Quorum.ledgerStore_m h.keys.length) h.sigs = none) :
    let m := OntVerif.Gen.Quorum.ledgerStore_m h.keys.length
    m ≤ h.sigs.length ∧ m ≤ h.keys.length ∧ ∀ s ∈ h.sigs.take m, s.wf = true ∧ ∃ k ∈ h.keys, P.verify k (P.hdrHash h.u) s = true :=
  verifyMulti_sound P _ _ _ _ hv

/-- a rejected block does not influence what happens next: any later delivery behaves as if it had never been seen -/
theorem C39_retry (P b sr l b' sr') (h : (addBlock P b sr l).1 ≠ .added) :
    addBlock P b' sr' (addBlock P b sr l).2 = addBlock P b' sr' l := by
  rw [C39_reject_noop P b sr l h]

/-! ### the order of the model's guards and effects is the order of the statements in the source

`Gen/AddBlockOrder.lean` is regenerated from package `ledgerstore` on every run (go/ast).  Each entry point — `AddBlock`, `SubmitBlock`,
`AddHeader` — becomes ONE list of events in execution order, with the same-package pipeline helpers (`verifyHeader`, `saveBlock`,
`submitBlock`, `saveBlockTo*Store`, and whatever is extracted from or inlined into them) expanded in place and the texts made
canonical (locals inlined, multi-value locals written `<callee>#<i>`, receiver `this`, parameters named by their type).  Kinds: `guard`
/ `stop` / `errguard`, `write` (a leaf call from which a store-writing method or an in-memory mutator is reachable), and `c…` for events
inside a conditional block.  The theorems stop checking when a validation moves behind a write in the source, when a check or a
write is added, dropped or reordered — not when locals are renamed, expressions hoisted or blocks moved between helpers. -/
section source
open OntVerif.Gen.AddBlockOrder

def isWrite (e : String × String) : Bool := e.1 = "write" ∨ e.1 = "cwrite"

/-- no validation of the block (`guard` / `stop`, conditional or not) after the first write; `errguard`s after a write only propagate
the I/O error of the write itself -/
def validationsFirst : List (String × String) → Bool
  | [] => true
  | e :: r => if isWrite e then r.all (fun x => x.1 ≠ "guard" ∧ x.1 ≠ "stop" ∧ x.1 ≠ "cguard" ∧ x.1 ≠ "cstop") else validationsFirst r

theorem C39_source_validations_first :
    validationsFirst addBlockFlat = true ∧ validationsFirst submitBlockFlat = true ∧ validationsFirst addHeaderFlat = true
      ∧ verifyHeaderStoreWrites = [] := by
  decide

/-- the unconditional checks before the first write, minus the two the model does not have (the `Height == 0` shortcut of
`verifyHeader`, unreachable behind the next-height guard, and the store-error guard of the previous-header lookup) -/
def modelGuards (evs : List (String × String)) : List String :=
  (((evs.takeWhile fun e => !isWrite e).filter fun e => e.1 = "guard" ∨ e.1 = "stop" ∨ e.1 = "errguard").map (·.2)).filter
    fun t => t ≠ "header.Height==0" ∧ t ≠ "err!=nil&&err!=scom.ErrNotFound"

/-- the writes, minus the calls that are no-ops under the model's assumptions (pruning disabled, `ccMsg = nil`, no cross-chain states) -/
def modelWrites (evs : List (String × String)) : List String :=
  ((evs.filter isWrite).map (·.2)).filter
    fun w => w ≠ "this.tryPruneBlock" ∧ w ≠ "this.crossChainStore.SaveMsgToCrossChainStore" ∧ w ≠ "this.stateStore.SaveCrossStates"

def notEffectSites (ss : List Step) : List String := (ss.filter (fun s => !s.isEffect)).map Step.site
def effectSites (ss : List Step) : List String := (ss.filter Step.isEffect).map Step.site

set_option maxRecDepth 16384 in
/-- **the model's pipeline IS the source's pipeline**: for each entry point the model's guards are, one for one and in order, the
source's unconditional checks, and the model's effects are, one for one and in order, the source's writes (the consensus path of
the model starts with the two checks of `ExecuteBlock`, which is a separate entry point in the source) -/
theorem C39_source_order (P : Prims) (b : Block) (sr : Hash) :
    notEffectSites (addBlockSteps P b sr) = modelGuards addBlockFlat
    ∧ effectSites (addBlockSteps P b sr) = modelWrites addBlockFlat
    ∧ (notEffectSites (submitBlockSteps P b)).drop 2 = modelGuards submitBlockFlat
    ∧ effectSites (submitBlockSteps P b) = modelWrites submitBlockFlat
    ∧ notEffectSites (addHeaderSteps P b.hdr) = modelGuards addHeaderFlat
    ∧ effectSites (addHeaderSteps P b.hdr) = modelWrites addHeaderFlat := by
  have g1 : modelGuards addBlockFlat = ["header.Height<=this.GetCurrentBlockHeight()", "header.Height!=(this.GetCurrentBlockHeight()+1)",
      "header.PrevBlockHash!=this.GetCurrentBlockHash()", "GetHeaderByHash#0==nil", "GetHeaderByHash#0.Height+1!=header.Height",
      "GetHeaderByHash#0.Timestamp>=header.Timestamp", "AddressFromBookkeepers", "GetHeaderByHash#0.NextBookkeeper!=AddressFromBookkeepers#0",
      "VerifyMultiSignature", "header.Height>0&&header.Height<=this.GetCurrentBlockHeight()", "this.closing",
      "header.Height>0&&header.Height!=(this.GetCurrentBlockHeight()+1)", "executeBlock",
      "len(block.Transactions)!=0&&executeBlock#0.MerkleRoot!=stateMerkleRoot",
      "header.Height!=0&&this.GetBlockRootWithNewTxRoots(header.Height,[]common.Uint256{header.TransactionsRoot})!=header.BlockRoot"] := by decide
  have w1 : modelWrites addBlockFlat = ["this.blockStore.NewBatch", "this.stateStore.NewBatch", "this.eventStore.NewBatch", "this.setHeaderIndex",
      "this.blockStore.SaveCurrentBlock", "this.blockStore.SaveBlockHash", "this.blockStore.SaveBlock", "this.blockStore.SaveBloomData",
      "SaveNotify", "this.stateStore.AddStateMerkleTreeRoot", "this.stateStore.AddBlockMerkleTreeRoot", "this.stateStore.SaveCurrentBlock",
      ".WriteSet.ForEach", "this.eventStore.SaveEventNotifyByBlock", "this.eventStore.SaveCurrentBlock", "this.blockStore.CommitTo",
      "this.eventStore.CommitTo", "this.stateStore.CommitTo", "this.setCurrentBlock", "this.delHeaderCache"] := by decide
  have g2 : modelGuards submitBlockFlat = ["this.closing", "header.Height<=this.GetCurrentBlockHeight()", "header.Height!=(this.GetCurrentBlockHeight()+1)",
      "header.PrevBlockHash!=this.GetCurrentBlockHash()", "GetHeaderByHash#0==nil", "GetHeaderByHash#0.Height+1!=header.Height",
      "GetHeaderByHash#0.Timestamp>=header.Timestamp", "AddressFromBookkeepers", "GetHeaderByHash#0.NextBookkeeper!=AddressFromBookkeepers#0",
      "VerifyMultiSignature",
      "header.Height!=0&&this.GetBlockRootWithNewTxRoots(header.Height,[]common.Uint256{header.TransactionsRoot})!=header.BlockRoot"] := by decide
  have w2 : modelWrites submitBlockFlat = modelWrites addBlockFlat := by decide
  have g3 : modelGuards addHeaderFlat = ["header.Height!=(this.GetCurrentHeaderHeight()+1)", "GetHeaderByHash#0==nil",
      "GetHeaderByHash#0.Height+1!=header.Height", "GetHeaderByHash#0.Timestamp>=header.Timestamp", "AddressFromBookkeepers",
      "GetHeaderByHash#0.NextBookkeeper!=AddressFromBookkeepers#0", "VerifyMultiSignature"] := by decide
  have w3 : modelWrites addHeaderFlat = ["this.addHeaderCache", "this.setHeaderIndex"] := by decide
  refine ⟨?_, ?_, ?_, ?_, ?_, ?_⟩
  · rw [g1]; rfl
  · rw [w1]; rfl
  · rw [g2]; rfl
  · rw [w2, w1]; rfl
  · rw [g3]; rfl
  · rw [w3]; rfl
end source

/-! ### Non-vacuity: concrete chain, valid block added, each mutated field refused -/
section examples
def P0 := demoPrims
def L1 : Ledger := (addBlock P0 (validNext P0 (genesis P0) [1] 0) (stateRootOf P0 (genesis P0) (validNext P0 (genesis P0) [1] 0)) (genesis P0)).2
def B2 : Block := validNext P0 L1 [2, 3] 0
def resign (u : Unsigned) : Block := { hdr := { u := u, keys := [1], sigs := [sign P0 1 u] }, txs := B2.txs }

example : L1.mem.curHeight = 1 := by decide
example : (addBlock P0 B2 (stateRootOf P0 L1 B2) L1).1 = .added := by decide
example : Acceptable P0 L1 B2 (stateRootOf P0 L1 B2) := (C39_added_iff _ _ _ _).mp (by decide)
example : (addBlockBytes P0 B2 (stateRootOf P0 L1 B2) L1).1 = .added := by decide
example : (submitBlock P0 B2 L1).1 = .added := by decide
example : (addBlock P0 B2 (stateRootOf P0 L1 B2) L1).2.mem.curHeight = 2 := by decide
-- re-signed single-field mutations, each caught by its own guard
example : (addBlock P0 (resign { B2.hdr.u with height := 3 }) (stateRootOf P0 L1 B2) L1).1 = .rejected .notNext := by decide
example : (addBlock P0 (resign { B2.hdr.u with height := 1 }) (stateRootOf P0 L1 B2) L1).1 = .ignored := by decide
example : (addBlock P0 (resign { B2.hdr.u with prev := [42] }) (stateRootOf P0 L1 B2) L1).1 = .rejected .prevTip := by decide
example : (addBlock P0 (resign { B2.hdr.u with prev := P0.hdrHash genesisBlock.hdr.u }) (stateRootOf P0 L1 B2) L1).1 = .rejected .prevTip := by decide
example : (addHeader P0 (resign { B2.hdr.u with prev := P0.hdrHash genesisBlock.hdr.u }).hdr L1).1 = .rejected .prevHeight := by decide
example : (addHeader P0 (resign { B2.hdr.u with prev := [42] }).hdr L1).1 = .rejected .prevUnknown := by decide
example : (addBlock P0 (resign { B2.hdr.u with ts := 101 }) (stateRootOf P0 L1 B2) L1).1 = .rejected .timestamp := by decide
example : (addBlock P0 (resign { B2.hdr.u with blockRoot := [] }) (stateRootOf P0 L1 B2) L1).1 = .rejected .blockRoot := by decide
example : (addBlock P0 B2 [] L1).1 = .rejected .stateRoot := by decide
example : (addBlockBytes P0 (resign { B2.hdr.u with txRoot := [] }) (stateRootOf P0 L1 B2) L1).1 = .rejected .txRoot := by decide
example : (addBlock P0 { B2 with hdr := { B2.hdr with sigs := [] } } (stateRootOf P0 L1 B2) L1).1 = .rejected .sigCount := by decide
example : (addBlock P0 { B2 with hdr := { B2.hdr with keys := [2], sigs := [sign P0 2 B2.hdr.u] } } (stateRootOf P0 L1 B2) L1).1 = .rejected .bkMismatch := by decide
-- the block's own valid header is in the header cache (delivered by AddHeader); the block then arrives without signatures / with
-- another key: refused on both paths, the ledger (header cache included) untouched
example : (addHeader P0 B2.hdr L1).1 = .added := by decide
example : (addBlock P0 { B2 with hdr := { B2.hdr with sigs := [] } } (stateRootOf P0 L1 B2) (addHeader P0 B2.hdr L1).2).1 = .rejected .sigCount := by decide
example : (submitBlock P0 { B2 with hdr := { B2.hdr with sigs := [] } } (addHeader P0 B2.hdr L1).2).1 = .rejected .sigCount := by decide
example : (addBlock P0 { B2 with hdr := { B2.hdr with keys := [2], sigs := [sign P0 2 B2.hdr.u] } } (stateRootOf P0 L1 B2) (addHeader P0 B2.hdr L1).2).1 = .rejected .bkMismatch := by decide
example : (addBlock P0 B2 (stateRootOf P0 L1 B2) (addHeader P0 B2.hdr L1).2).1 = .added := by decide
-- raw mutation (signature left): caught by the signature check
example : (addBlock P0 { B2 with hdr := { B2.hdr with u := { B2.hdr.u with consData := 5 } } } (stateRootOf P0 L1 B2) L1).1 = .rejected .sigInvalid := by decide
end examples

end OntVerif.Props.C39
