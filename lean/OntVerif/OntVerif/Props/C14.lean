import OntVerif.Proofs.NeoVal
/-!
# C14 — NeoVM value serialization round-trips and rejects cycles safely

Model: `Model/NeoVal.lean` (values on an explicit heap; detector mirrored literally; `Variant.asShipped` / `.sound`),
tied to `vm/neovm/types` by the correspondence harness `harness/cmd/c14`.
-/
namespace OntVerif.Props.C14
open OntVerif.Util OntVerif.Model.Codec OntVerif.Model.NeoVal OntVerif.Proofs.NeoVal

/-- **Cycles are rejected by the detector and by `Serialize`** (third clause of the property, the part that is still
unrepaired): for every heap, every value from which a reference cycle is reachable — through any element position,
through map entries, at any distance — and every Go map iteration order, the detector answers "circular" and `Serialize`
returns the circular-reference error (it neither produces bytes nor runs into the size limit).
`BuildParamToNative` was repaired in the tree (060d8e9c) and has its own plain theorem below. -/
def CycleRejected (var : Variant) : Prop :=
  ∀ (perm : Perm) (h : Heap) (v : Val), perm.valid → CycleReachable h v →
    (∀ path, detect var perm path h v = true) ∧ serialize var perm h v = .error .cycle

/-- full statement for the sound detector: no hypothesis on the heap (dangling references, ill-sorted maps, any size) -/
theorem C14_cycle_rejected : CycleRejected .sound := by
  intro perm h v _ hc
  have hd : ∀ path, detect .sound perm path h v = true := by
    intro path
    simp [detect, detSound, hasCycle_of_reachable h v hc]
  exact ⟨hd, by simp [serialize, serFuel, MAX_BYTEARRAY_SIZE, ser, hd]⟩

/-- **`BuildParamToNative` always returns** (code as it is, both detector variants, every heap, value and iteration
order): the recursion budget `|heap| + 2` of the model is never exhausted, because the containers on the recursion
path are pairwise different objects.  Before 060d8e9c this was false (`a = [1, a]` recursed until the stack limit). -/
theorem C14_buildParam_terminates (var : Variant) (perm : Perm) (h : Heap) (v : Val) :
    buildParamToNative var perm h v ≠ .error .fuel :=
  natvP_no_fuel var perm h _ [] [] v List.nodup_nil (by intro x hx; cases hx) (by simp)

/-- **`BuildParamToNative` rejects every value from which a cycle is reachable, at any element position** (code as it
is, both detector variants, every iteration order): it never produces bytes and never diverges; the error is the
circular-reference error, or `ERR_BAD_TYPE` when the traversal meets a map first (a map is refused before anything below
it is visited — so a cycle that runs through a map value cannot be entered).  On heaps without maps the error is the
circular-reference error. -/
theorem C14_buildParam_cycle_rejected (var : Variant) (perm : Perm) (h : Heap) (nd : NoDangling h) (v : Val)
    (hv : ∀ r, v = .ref r → r < h.length) (hc : CycleReachable h v) :
    buildParamToNative var perm h v = .error .cycle ∨
    (buildParamToNative var perm h v = .error .badtype ∧ ∃ (r : Ref) (es : List Entry), h[r]? = some (Obj.map es)) := by
  cases hr : buildParamToNative var perm h v with
  | ok out => exact absurd hc (natvP_ok_acyclic var perm h _ _ _ _ out hr)
  | error e =>
    rcases natvP_err var perm h nd _ _ _ _ e hv hr with rfl | rfl | ⟨rfl, hm⟩
    · exact .inl rfl
    · exact absurd hr (C14_buildParam_terminates var perm h v)
    · exact .inr ⟨rfl, hm⟩

theorem C14_buildParam_cycle_rejected_nomap (var : Variant) (perm : Perm) (h : Heap) (nd : NoDangling h) (v : Val)
    (hv : ∀ r, v = .ref r → r < h.length) (hm : ∀ (r : Ref) (es : List Entry), h[r]? ≠ some (Obj.map es))
    (hc : CycleReachable h v) : buildParamToNative var perm h v = .error .cycle := by
  rcases C14_buildParam_cycle_rejected var perm h nd v hv hc with h1 | ⟨_, r, es, h2⟩
  · exact h1
  · exact absurd h2 (hm r es)

/-- **The sound detector is exact, and its explicit bound is adequate**: on a heap without dangling references the `|heap|`
rounds of the cycle search (each round inspects every object once — polynomial also on DAG-shaped sharing) never reject
for lack of rounds: the detector answers "circular" exactly when a cycle is reachable or the (order independent) depth
rule fires.  In particular acyclic values keep the verdict of the depth rule. -/
theorem C14_sound_detector_exact (perm : Perm) (path : List Nat) (h : Heap) (nd : NoDangling h) (r : Ref) (hr : r < h.length) :
    detect .sound perm path h (.ref r) = true ↔
      (CycleReachable h (.ref r) ∨ chainDeep perm path h (MAX_STRUCT_DEPTH + 1) (.ref r) = true) := by
  simp only [detect, detSound, Bool.or_eq_true]
  constructor
  · rintro (hc | hd)
    · exact .inl (reachable_of_hasCycle h nd r hr hc)
    · exact .inr hd
  · rintro (hc | hd)
    · exact .inl (hasCycle_of_reachable h _ hc)
    · exact .inr hd

/-- the witness `a = [1, a]` -/
def cexHeap : Heap := [.arr [.int 1, .ref 0]]

theorem cexHeap_cyclic : CycleReachable cexHeap (.ref 0) :=
  ⟨0, 0, .refl 0, ⟨_, rfl, by decide⟩, .refl 0⟩

/-- **as shipped the statement is false**: on `a = [1, a]` the detector answers "fine" (and `Serialize` unrolls the
cycle until the size limit). -/
theorem C14_asShipped_counterexample : ¬ CycleRejected .asShipped := by
  intro hS
  have h := (hS Perm.id cexHeap (.ref 0) (fun _ _ _ => List.Perm.refl _) cexHeap_cyclic).1 []
  revert h
  decide

theorem C14_asShipped_witness_detector : detect .asShipped Perm.id [] cexHeap (.ref 0) = false := by decide
/-- the old `Native.Invoke` witness: with the shipped detector the on-path set now stops it (position 1), and a cycle
through a map value ends at the map -/
theorem C14_buildParam_witness :
    buildParamToNative .asShipped Perm.id cexHeap (.ref 0) = .error .cycle ∧
    buildParamToNative .asShipped Perm.id [.arr [.int 1, .ref 1], .map [⟨[], .int 0, .int 0⟩, ⟨[1], .int 1, .ref 0⟩]] (.ref 0)
      = .error .badtype := by decide
theorem C14_sound_witness : detect .sound Perm.id [] cexHeap (.ref 0) = true := by decide

/-- **What the shipped detector does guarantee** (`_partial`: the statement restricted to cycles along the first-element
chain): if following element 0 of arrays/structs (and the only entry of one-entry maps) from object `r` leads back to
`r`, the detector answers "circular" under every iteration order and `Serialize` returns the error.
Missing w.r.t. `CycleRejected`: cycles that use an element at a position > 0 or an entry of a map with ≥ 2 entries
(`C14_asShipped_counterexample`). -/
theorem C14_cycle_rejected_asShipped_partial (perm : Perm) (hv : perm.valid) (h : Heap) (r : Ref)
    (hc : FirstCycle h r) :
    (∀ path, detect .asShipped perm path h (.ref r) = true) ∧
    serialize .asShipped perm h (.ref r) = .error .cycle := by
  have hd : ∀ path, detect .asShipped perm path h (.ref r) = true := fun path =>
    detShipped_of_neverEnds perm hv path h _ r [] (neverEnds_of_firstCycle hc)
  exact ⟨hd, by simp [serialize, serFuel, MAX_BYTEARRAY_SIZE, ser, hd]⟩

/-- non-vacuity: `a = [a, 1]` and the one-entry map `m = {k: [m]}` have first-element cycles -/
example : FirstCycle [.arr [.ref 0, .int 1]] 0 := ⟨1, by decide, by decide⟩
example : FirstCycle [.map [⟨[1], .int 1, .ref 1⟩], .arr [.ref 0]] 0 := ⟨2, by decide, by decide⟩

/-- **Decoding is total**: for every byte string (shorter than 2^64) `Deserialize` either returns a value together with a
cursor inside the buffer, or one of the error kinds eof / irregular / depth / itemsize / bigint / arraysize / badtype.
The model's `panic` (a Go slice expression out of range in `ZeroCopySource`) and `fuel` (recursion deeper than
`MAX_COUNT + 2`) outcomes are unreachable. -/
theorem C14_decode_total (bs : Bytes) (hlen : bs.length < two64) :
    (∃ t s', deserialize bs = .ok (t, s') ∧ s'.bs = bs ∧ s'.off ≤ bs.length) ∨
    (∃ e, deserialize bs = .error e ∧ e ≠ .panic ∧ e ≠ .fuel) := by
  have h := deserialize_good bs hlen
  cases hr : deserialize bs with
  | error e => rw [hr] at h; exact .inr ⟨e, rfl, h⟩
  | ok p =>
    obtain ⟨t, s'⟩ := p
    rw [hr] at h
    obtain ⟨h1, _, h3⟩ := h
    exact .inl ⟨t, s', rfl, h1, by rw [h1] at h3; exact h3⟩

example : deserialize [0x80, 0x02, 0x01, 0x01, 0x02, 0x01, 0xff] =
    .ok (.arr [.bool true, .int (-1)], ⟨[0x80, 0x02, 0x01, 0x01, 0x02, 0x01, 0xff], 7⟩) := by rfl
example : deserialize [0x80, 0x02, 0x01, 0x02] = .error .irregular := by rfl
example : deserialize [0x82, 0x01, 0x80, 0x00, 0x01, 0x01] = .error .badtype := by rfl

/-- **Round trip** (first clause of the property). `v` is a value of heap `h` that denotes the tree `t`
(`unfold h MAX_COUNT v = some t`: no cycle is reachable from `v` and containers are nested at most `MAX_COUNT = 1024`
deep; shared sub-structures are allowed and are unfolded). If `Serialize` succeeds (which includes the 1 MB size limit and
the detector's verdict) then `Deserialize` of the produced bytes consumes them entirely and returns exactly `t`.
Holds for both detector variants and every iteration order.
Equality is equality of trees, i.e. *up to integer representation* (the model's integers are mathematical integers: the
int64 / big.Int representations of a VM integer are identified) and *up to map key order* (a map is its key-sorted
entry list, both in the heap and in the tree).  `WFHeap`: arrays/structs have at most 1024 elements, maps are keyed by
`AsBytes` of their key values, integers fit in 32 bytes (the decoder rejects larger ones). -/
theorem C14_roundtrip (var : Variant) (perm : Perm) (hv : perm.valid) (h : Heap) (w : WFHeap h) (v : Val) (hok : valOK v)
    (t : Tree) (hu : unfold h MAX_COUNT v = some t) (out : Bytes) (hs : serialize var perm h v = .ok out) :
    deserialize out = .ok (t, ⟨out, out.length⟩) :=
  roundtrip var perm hv h w v hok t hu out hs

/-- non-vacuity: `[ {"": 0, 01: true}, s, s ]` with a shared struct `s = {-1}`; serialization succeeds under both variants -/
def rtHeap : Heap := [.arr [.ref 1, .ref 2, .ref 2], .map [⟨[], .int 0, .int 0⟩, ⟨[1], .bool true, .bool true⟩], .struct [.int (-1)]]

example : serialize .asShipped Perm.id rtHeap (.ref 0) =
    .ok [0x80, 3, 0x82, 2, 2, 0, 2, 0, 1, 1, 1, 1, 0x81, 1, 2, 1, 0xff, 0x81, 1, 2, 1, 0xff] := by decide
example : serialize .sound Perm.id rtHeap (.ref 0) = serialize .asShipped Perm.id rtHeap (.ref 0) := by decide
example : unfold rtHeap MAX_COUNT (.ref 0) = some (.arr [.map [([], .int 0, .int 0), ([1], .bool true, .bool true)],
    .struct [.int (-1)], .struct [.int (-1)]]) := by rfl
example : WFHeap rtHeap := by
  have hcases : ∀ (r : Ref) (o : Obj), rtHeap[r]? = some o →
      (r = 0 ∧ o = rtHeap[0]) ∨ (r = 1 ∧ o = rtHeap[1]) ∨ (r = 2 ∧ o = rtHeap[2]) := by
    intro r o h
    match r, h with
    | 0, h => exact .inl ⟨rfl, (Option.some.inj h).symm⟩
    | 1, h => exact .inr (.inl ⟨rfl, (Option.some.inj h).symm⟩)
    | 2, h => exact .inr (.inr ⟨rfl, (Option.some.inj h).symm⟩)
    | n+3, h => simp [rtHeap] at h
  refine ⟨?_, ?_, ?_, ?_⟩
  · intro r vs h
    rcases hcases r _ h with ⟨_, e⟩ | ⟨_, e⟩ | ⟨_, e⟩ <;> simp [rtHeap] at e
    subst e; decide
  · intro r vs h
    rcases hcases r _ h with ⟨_, e⟩ | ⟨_, e⟩ | ⟨_, e⟩ <;> simp [rtHeap] at e
    subst e; decide
  · intro r es h
    rcases hcases r _ h with ⟨_, e⟩ | ⟨_, e⟩ | ⟨_, e⟩ <;> simp [rtHeap] at e
    subst e
    exact ⟨by unfold SortedK; decide, by decide, by decide⟩
  · intro r o h
    rcases hcases r _ h with ⟨_, e⟩ | ⟨_, e⟩ | ⟨_, e⟩ <;> subst e <;> decide

end OntVerif.Props.C14
