import OntVerif.Proofs.NeoVal
/-!
# C14 — NeoVM value serialization round-trips and rejects cycles safely

Model: `Model/NeoVal.lean` (values on an explicit heap; detector mirrored literally; `Variant.asShipped` / `.sound`),
tied to `vm/neovm/types` by the correspondence harness `harness/cmd/c14`.
-/
namespace OntVerif.Props.C14
open OntVerif.Util OntVerif.Model.Codec OntVerif.Model.NeoVal OntVerif.Proofs.NeoVal

/-- **Cycles are rejected** (the third clause of the property): for every heap, every value from which a reference cycle
is reachable — through any element position, through map entries, at any distance — and every Go map iteration order,
the detector answers "circular", and `Serialize` and `BuildParamToNative` return the circular-reference error (they
neither produce bytes, nor run into the size limit, nor fail to return). -/
def CycleRejected (var : Variant) : Prop :=
  ∀ (perm : Perm) (h : Heap) (v : Val), perm.valid → CycleReachable h v →
    (∀ path, detect var perm path h v = true) ∧
    serialize var perm h v = .error .cycle ∧
    buildParamToNative var perm h v = .error .cycle

/-- full statement for the sound detector: no hypothesis on the heap (dangling references, ill-sorted maps, any size) -/
theorem C14_cycle_rejected : CycleRejected .sound := by
  intro perm h v _ hc
  have hd : ∀ path, detect .sound perm path h v = true := by
    intro path
    simp [detect, detSound, hasCycle_of_reachable h v hc]
  refine ⟨hd, ?_, ?_⟩
  · simp [serialize, serFuel, MAX_BYTEARRAY_SIZE, ser, hd]
  · simp [buildParamToNative, natv, hd]

/-- the witness `a = [1, a]` -/
def cexHeap : Heap := [.arr [.int 1, .ref 0]]

theorem cexHeap_cyclic : CycleReachable cexHeap (.ref 0) :=
  ⟨0, 0, .refl 0, ⟨_, rfl, by decide⟩, .refl 0⟩

/-- **as shipped the statement is false**: on `a = [1, a]` the detector answers "fine" and `BuildParamToNative` does not
return (`.fuel`: the recursion nests deeper than the number of objects and nothing can stop it). -/
theorem C14_asShipped_counterexample : ¬ CycleRejected .asShipped := by
  intro hS
  have h := (hS Perm.id cexHeap (.ref 0) (fun _ _ _ => List.Perm.refl _) cexHeap_cyclic).1 []
  revert h
  decide

theorem C14_asShipped_witness_detector : detect .asShipped Perm.id [] cexHeap (.ref 0) = false := by decide
theorem C14_asShipped_witness_native :
    buildParamToNative .asShipped Perm.id cexHeap (.ref 0) = .error .fuel := by decide
theorem C14_sound_witness : detect .sound Perm.id [] cexHeap (.ref 0) = true ∧
    buildParamToNative .sound Perm.id cexHeap (.ref 0) = .error .cycle := by decide

end OntVerif.Props.C14
