import OntVerif.Model.PreExec
import OntVerif.Gen.PreExec
import OntVerif.Gen.PreExecX
/-!
# C42 — Pre-execution never changes persisted state

Model: `Model/PreExec.lean`.  Two legs:
* the layering theorem: pre-execution runs ANY program (every request, every execution outcome) on a fresh overlay over the
  persistent store and returns the store it was given — the store is an input of the interpreter, never an output; the only
  function that turns overlay writes into store content is `commitBlock`, which pre-execution does not call;
* the structural fact regenerated from the Go source on every run (`Gen/PreExec.lean`, go/ast reachability by name inside package
  `ledgerstore`): the bodies of `PreExecute*`, `executeEip155Tx`, `TraceEip155Tx`, `GetCacheDB` and everything they reach in the
  package contain no call of a store-writing method.  It is what entitles the model to give `preExec` no access to a commit.
-/
namespace OntVerif.Props.C42
open OntVerif.Model.PreExec

/-- **Pre-execution is a no-op on everything persisted**, for every ledger state, every request kind and every program the VM
may run (writes, deletions, cache commits, notifications, failures at any point). -/
theorem C42_noop (p : Persist) (r : Request) : (preExec p r).2 = p := by
  unfold preExec
  cases r.kind <;> rfl

/-- the same for `PreExecuteContractBatch` -/
theorem C42_noop_batch (p : Persist) (rs : List Request) : (preExecBatch p rs).2 = p := by
  induction rs with
  | nil => rfl
  | cons r rs ih =>
    simp only [preExecBatch]
    rw [C42_noop p r]
    exact ih

/-- any number of pre-executions, in any order -/
theorem C42_noop_sequence (p : Persist) (rs : List Request) : rs.foldl (fun q r => (preExec q r).2) p = p := by
  induction rs with
  | nil => rfl
  | cons r rs ih => rw [List.foldl_cons, C42_noop]; exact ih

/-- hence height, state roots, event records and every stored key are what they were -/
theorem C42_observables (p : Persist) (r : Request) :
    (preExec p r).2.height = p.height ∧ (preExec p r).2.stateRoots = p.stateRoots ∧ (preExec p r).2.events = p.events
      ∧ ∀ k, (preExec p r).2.kv k = p.kv k := by
  rw [C42_noop]; exact ⟨rfl, rfl, rfl, fun _ => rfl⟩

/-- a pre-execution's result does not depend on earlier pre-executions (nothing leaks through the store) -/
theorem C42_independent (p : Persist) (r1 r2 : Request) : (preExec (preExec p r1).2 r2).1 = (preExec p r2).1 := by
  rw [C42_noop]

/-- in a batch every request sees the original store: the i-th result is the result of that request alone -/
theorem C42_batch_pointwise (p : Persist) (rs : List Request) : (preExecBatch p rs).1 = rs.map (fun r => (preExec p r).1) := by
  induction rs with
  | nil => rfl
  | cons r rs ih =>
    simp only [preExecBatch, List.map]
    rw [C42_noop p r, ih]

/-! ### two-phase commit: pre-executions between `ExecuteBlock` and `SubmitBlock` -/

/-- `Add` = `ExecuteBlock` then `SubmitBlock` -/
theorem C42_execute_then_submit (p : Persist) (prog : Prog) (root : Nat) :
    submitBlock p (executeBlock p prog root) = (executeAndCommit p prog root).2 := by
  unfold submitBlock executeBlock executeAndCommit
  cases h : interp p prog ⟨[], [], []⟩ with
  | mk o s => cases o <;> simp

/-- **Any pre-executions in the window between `ExecuteBlock(b)` and `SubmitBlock(b, result)` are invisible**: what gets persisted
is what the block executed to, exactly as if no pre-execution had happened (the execution result is a value; nothing a
pre-execution does can reach it or the store). -/
theorem C42_preexec_between_execute_and_submit (p : Persist) (prog : Prog) (root : Nat) (rs : List Request) :
    submitBlock (rs.foldl (fun q r => (preExec q r).2) p) (executeBlock p prog root) = submitBlock p (executeBlock p prog root) := by
  rw [C42_noop_sequence]

/-! ### the theorem is not about an inert model: writes ARE visible inside the run, and the commit path DOES persist them -/

/-- inside a pre-execution the program reads its own write (through cache and overlay) … -/
theorem C42_write_visible_inside (p : Persist) (k : Key) (v : Val) :
    (preExec p ⟨.invoke, .put k v (.get k fun x => .ret [x.getD 0]), true⟩).1 = .ok [v] [] := by
  simp [preExec, interp, cacheGet, memGet]

/-- … also after `CacheDB.Commit()` moved it into the overlay … -/
theorem C42_write_visible_after_cache_commit (p : Persist) (k : Key) (v : Val) :
    (preExec p ⟨.eip155, .put k v (.commit (.get k fun x => .ret [x.getD 0])), true⟩).1 = .ok [v] [] := by
  simp [preExec, interp, cacheGet, overlayGet, memGet]

/-- … while the block-commit path applied to the very same program stores the value -/
theorem C42_commit_path_persists (p : Persist) (k : Key) (v : Val) (root : Nat) :
    (executeAndCommit p (.put k v (.ret [])) root).2.kv k = some v ∧ (executeAndCommit p (.put k v (.ret [])) root).2.height = p.height + 1 := by
  simp [executeAndCommit, interp, commitBlock, applyWrites]

/-- layering (C04-style): an overlay read returns the newest write of the overlay, else the store -/
theorem C42_overlay_read (p : Persist) (ov : MemDB) (k : Key) :
    overlayGet p ov k = match memGet k ov with | some v => v | none => p.kv k := rfl

/-! ### structural fact, regenerated from the source on every run -/

/-- no pre-execution entry point of package `ledgerstore`, nor anything it reaches inside the package, calls `CommitTo`,
`BatchCommit`, `BatchPut`, `BatchDelete`, `NewBatch`, `BatchPutRawKeyVal`, `BatchDeleteRawKey`, `Put`, `Delete`, `SaveCurrentBlock`
or `ClearAll` -/
theorem C42_structural_no_store_write : OntVerif.Gen.PreExec.storeWriteCalls = [] := rfl

/-- aliasing assumption, tied to the source: every function of `ledgerstore` / `overlaydb` that returns an `*OverlayDB` is a fresh
allocation (`&OverlayDB{…}` or a call of such a function) — no pooling, no recycling of an overlay whose write set may still be
referenced by an execution result -/
theorem C42_structural_overlays_fresh :
    OntVerif.Gen.PreExec.overlayProviders.all (fun e => e.2) = true ∧ OntVerif.Gen.PreExec.overlayProviders ≠ [] := by
  decide

/-- control: the same analysis started at `AddBlock` does find store writes (the detector is not blind), and the entry points
were found -/
theorem C42_structural_control : OntVerif.Gen.PreExec.controlWriteCalls ≠ [] ∧ "LedgerStoreImp.PreExecuteContractWithParam" ∈ OntVerif.Gen.PreExec.reachable
    ∧ "LedgerStoreImp.executeEip155Tx" ∈ OntVerif.Gen.PreExec.reachable ∧ "StateStore.HandleEIP155Transaction" ∈ OntVerif.Gen.PreExec.reachable := by
  decide

/-! ### the structural fact across package boundaries

`Gen/PreExecX.lean` (factgen group PreExecX, regenerated per run): every non-test package of the module is parsed and the call graph is
walked from the same entry points through the VM services, the native contracts and the EVM — exact resolution where a light
syntactic type inference knows the receiver type, interface calls to every implementer (method-set cover by name), untyped receivers
to every method of that name on a type the file can mention, dynamic calls (service maps, native method registry, opcode tables) to
every address-taken function of the identical signature.  Every mention — call or method value — of a store-writing method is
classified by the inferred receiver type. -/

/-- in the whole reachable set (≈1700 functions) there is no call and no method value of `Put` / `Delete` / `Batch*` / `NewBatch` /
`CommitTo` / `Write` / `ClearAll` on a persistent store (`PersistStore`, `LevelDBStore`, goleveldb `DB`, the four ledgerstore
stores, `OverlayDB.CommitTo`), and none on a receiver whose type could not be inferred -/
theorem C42_crosspkg_no_store_write :
    OntVerif.Gen.PreExecX.typedStoreWrites = [] ∧ OntVerif.Gen.PreExecX.untypedWriteCalls = [] := ⟨rfl, rfl⟩

/-- quality of the walk: every dynamic call site was resolved through its exact function signature (none by arity only), the
execution engines are in the reachable set, and the same walk started at `AddBlock` does find persistent writes -/
theorem C42_crosspkg_control :
    OntVerif.Gen.PreExecX.dynamicCallSitesWithoutSignature = 0 ∧ 0 < OntVerif.Gen.PreExecX.dynamicCallSites
      ∧ 0 < OntVerif.Gen.PreExecX.controlTypedWrites ∧ 1000 < OntVerif.Gen.PreExecX.reachableCount
      ∧ "smartcontract/service/neovm.StoragePut" ∈ OntVerif.Gen.PreExecX.mustReach
      ∧ "vm/evm.EVM.Call" ∈ OntVerif.Gen.PreExecX.mustReach := by
  decide

/-! ### Non-vacuity -/
example : (preExec ⟨fun _ => none, 3, [], []⟩ ⟨.invoke, .put 1 2 (.notify 5 (.ret [])), true⟩).1 = .ok [] [5] := by decide
example : (preExec ⟨fun _ => none, 3, [], []⟩ ⟨.invoke, .put 1 2 (.fail 4), true⟩).1 = .fail 4 := by decide
example : (preExec ⟨fun _ => none, 3, [], []⟩ ⟨.invoke, .put 1 2 (.ret []), true⟩).2.kv 1 = none := by decide
example : (executeAndCommit ⟨fun _ => none, 3, [], []⟩ (.put 1 2 (.ret [])) 0).2.kv 1 = some 2 := by decide

end OntVerif.Props.C42
