import OntVerif.Proofs.MigrateB
/-!
# C44 — Contract migration and destruction move or remove all of its storage

Model: `Model/Migrate.lean` on top of the three storage layers of `Model/KV.lean` (C04). `Cache` = transaction memdb of
`CacheDB` over the block overlay over the persistent store; `c.get stStorage k` is `CacheDB.Get(k)` (`[]` = absent);
`Inv c` (the three layers are strictly sorted) is an invariant of every history (`C04_inv_run`, and the `Inv` conjuncts below).
`migrate` / `clean` run the real loop shape — a join iterator whose memory side is a **live** cursor on the very memdb the loop
body writes (`Cursor`, `iterLoop`) — and the theorems hold for ALL layouts: entries pending in the transaction cache, in the
block overlay, in the store, tombstones shadowing lower layers, keys of any length including the bare prefix.
Addresses are 20 bytes (`[20]byte` in Go): with that key scheme no address is a proper prefix of another contract's keys.
Tied to the real code by `harness/cmd/c44`.
-/
namespace OntVerif.Props.C44
open OntVerif.Util OntVerif.Model.KV OntVerif.Model.Migrate OntVerif.Proofs.KV OntVerif.Proofs.Migrate

/-- **Migration.** After `MigrateContractStorage(old, new, h)`: every entry that was readable under the old address is
readable under the new one with the same value; nothing is readable under the old address (by `Get` and by the prefix
iterator); entries of the new address that are not overwritten and all other storage are unchanged; the old contract is gone,
marked destroyed once tracking is active (`track ≤ h`), a marker is never removed; the lower layers are untouched. -/
theorem C44_migrate (track : Nat) (c : Cache) (inv : Inv c) (old new : Bytes) (h : Nat)
    (ho : old.length = 20) (hn : new.length = 20) (hne : old ≠ new) :
    (∀ sfx v, c.get stStorage (old ++ sfx) = v → v ≠ [] → (migrate track c old new h).get stStorage (new ++ sfx) = v) ∧
    (∀ k, old <+: k → (migrate track c old new h).get stStorage k = []) ∧
    (∀ n, (migrate track c old new h).iterate old n = []) ∧
    (∀ sfx, c.get stStorage (old ++ sfx) = [] →
      (migrate track c old new h).get stStorage (new ++ sfx) = c.get stStorage (new ++ sfx)) ∧
    (∀ k, ¬ old <+: k → ¬ new <+: k → (migrate track c old new h).get stStorage k = c.get stStorage k) ∧
    isPresent (migrate track c old new h) old = false ∧
    (track ≤ h → isDestroyed (migrate track c old new h) old = true) ∧
    (isDestroyed c old = true → isDestroyed (migrate track c old new h) old = true) ∧
    (migrate track c old new h).backend = c.backend ∧ Inv (migrate track c old new h) :=
  migrate_full track c inv old new h ho hn hne

/-- **Destruction.** After `CleanContractStorage(addr, h)` no storage entry of the contract is readable (by `Get` and by the
prefix iterator), every other entry is unchanged, the contract is gone and marked destroyed once tracking is active. -/
theorem C44_destroy (track : Nat) (c : Cache) (inv : Inv c) (addr : Bytes) (h : Nat) :
    (∀ k, addr <+: k → (clean track c addr h).get stStorage k = []) ∧
    (∀ n, (clean track c addr h).iterate addr n = []) ∧
    (∀ k, ¬ addr <+: k → (clean track c addr h).get stStorage k = c.get stStorage k) ∧
    isPresent (clean track c addr h) addr = false ∧
    (track ≤ h → isDestroyed (clean track c addr h) addr = true) ∧
    (isDestroyed c addr = true → isDestroyed (clean track c addr h) addr = true) ∧
    (clean track c addr h).backend = c.backend ∧ Inv (clean track c addr h) :=
  clean_full track c inv addr h

/-- `CleanContractStorageData` alone (the EVM self-destruct path) -/
theorem C44_clean_data (c : Cache) (inv : Inv c) (addr : Bytes) :
    (∀ k, addr <+: k → (cleanData c addr).get stStorage k = []) ∧
    (∀ k, ¬ addr <+: k → (cleanData c addr).get stStorage k = c.get stStorage k) ∧
    (cleanData c addr).backend = c.backend ∧ Inv (cleanData c addr) := by
  obtain ⟨i, b, r1, r2⟩ := cleanData_spec c inv addr
  refine ⟨r1, fun k hk => r2 _ (fun hp => hk ?_), b, i⟩
  rw [List.cons_prefix_cons] at hp; exact hp.2

/-! ## Never again

`Sys` = one interop service call of an executing contract (NeoVM or wasm), with an arbitrary executing address / arguments;
`Tx` = invoke transaction (`cache.Reset()`, any list of calls, `Commit()` iff none failed), deploy transaction, block commit.
Every sequence is covered, including ones no real execution can produce. The operator's `removeDestroyedContract(a)`
(global-params contract, the designed way to lift a marker) is excluded by hypothesis. -/

/-- The full statement, for a variant of the service calls.
(1) inside an execution: once `a` reads as destroyed, after ANY further calls it still does and no storage value has appeared
or changed under `a` (values can only disappear);
(2) across transactions: once the marker of `a` is committed to the block overlay, after ANY transactions the same holds for
the committed state, and a deploy transaction for `a` is refused. -/
def C44_full_statement (v : Variant) : Prop :=
  (∀ (track h : Nat) (c : Cache) (a : Bytes) (calls : List Sys), Inv c → a.length = 20 → isDestroyed c a = true →
    (∀ s ∈ calls, s.WF ∧ s ≠ .removeDestroyed a) →
    ∀ c', runCalls v track h c calls = some c' →
      isDestroyed c' a = true ∧ isPresent c' a = false ∧
      ∀ k, a <+: k → c'.get stStorage k = c.get stStorage k ∨ c'.get stStorage k = []) ∧
  (∀ (track : Nat) (c : Cache) (a : Bytes) (txs : List Tx), Inv c → a.length = 20 → c.backend.get (stDestroyed :: a) ≠ [] →
    (∀ t ∈ txs, t.WF ∧ t.noRemove a) →
    (runTxs v track c txs).backend.get (stDestroyed :: a) ≠ [] ∧
    (∀ k, a <+: k → (runTxs v track c txs).backend.get (stStorage :: k) = c.backend.get (stStorage :: k) ∨
      (runTxs v track c txs).backend.get (stStorage :: k) = []) ∧
    ∀ h val, ((Tx.deploy h a val).run v track (runTxs v track c txs)).2 = .err)

/-- **Never again** — holds in full for the variant in which the storage writes of both VMs check that the contract whose
storage they write still exists (`Variant.sound`). -/
theorem C44_never_again : C44_full_statement .sound := by
  refine ⟨?_, ?_⟩
  · intro track h c a calls inv ha hd hall c' hr
    obtain ⟨_, k2, k3⟩ := runCalls_keeps .sound track h a ha calls c inv hd
      (fun s hs => ⟨(hall s hs).1, (hall s hs).2, Or.inl rfl⟩) c' hr
    exact ⟨k2, isPresent_false_of _ _ (Or.inl k2), k3⟩
  · intro track c a txs inv ha hm hall
    obtain ⟨k1, k2, k3⟩ := runTxs_keeps .sound track a ha txs c inv hm
      (fun t ht => ⟨(hall t ht).1, (hall t ht).2, Or.inl rfl⟩)
    exact ⟨k2, k3, fun h val => (deploy_refused .sound track _ k1 a k2 h val).1⟩

/-- As shipped the same holds for every sequence that contains no storage write executed in the name of `a` itself
(`Storage.Put/Delete` with `a`'s context, wasm `storage_write/delete` while `a` is the executing contract): deploy
transactions, `Contract.Create`, migrations to `a`, and the writes of every other contract never touch a destroyed address. -/
theorem C44_never_again_partial :
    (∀ (track h : Nat) (c : Cache) (a : Bytes) (calls : List Sys), Inv c → a.length = 20 → isDestroyed c a = true →
      (∀ s ∈ calls, s.WF ∧ s ≠ .removeDestroyed a ∧ ¬ s.writesAs a) →
      ∀ c', runCalls .asShipped track h c calls = some c' →
        isDestroyed c' a = true ∧ isPresent c' a = false ∧
        ∀ k, a <+: k → c'.get stStorage k = c.get stStorage k ∨ c'.get stStorage k = []) ∧
    (∀ (track : Nat) (c : Cache) (a : Bytes) (txs : List Tx), Inv c → a.length = 20 → c.backend.get (stDestroyed :: a) ≠ [] →
      (∀ t ∈ txs, t.WF ∧ t.noRemove a ∧ t.noWriteAs a) →
      (runTxs .asShipped track c txs).backend.get (stDestroyed :: a) ≠ [] ∧
      (∀ k, a <+: k → (runTxs .asShipped track c txs).backend.get (stStorage :: k) = c.backend.get (stStorage :: k) ∨
        (runTxs .asShipped track c txs).backend.get (stStorage :: k) = []) ∧
      ∀ h val, ((Tx.deploy h a val).run .asShipped track (runTxs .asShipped track c txs)).2 = .err) := by
  refine ⟨?_, ?_⟩
  · intro track h c a calls inv ha hd hall c' hr
    obtain ⟨_, k2, k3⟩ := runCalls_keeps .asShipped track h a ha calls c inv hd
      (fun s hs => ⟨(hall s hs).1, (hall s hs).2.1, Or.inr (hall s hs).2.2⟩) c' hr
    exact ⟨k2, isPresent_false_of _ _ (Or.inl k2), k3⟩
  · intro track c a txs inv ha hm hall
    obtain ⟨k1, k2, k3⟩ := runTxs_keeps .asShipped track a ha txs c inv hm
      (fun t ht => ⟨(hall t ht).1, (hall t ht).2.1, Or.inr (hall t ht).2.2⟩)
    exact ⟨k2, k3, fun h val => (deploy_refused .asShipped track _ k1 a k2 h val).1⟩

/-- the address used by the examples: twenty zero bytes -/
def aEx : Bytes := List.replicate 20 0
/-- the transaction cache right after `aEx` destroyed itself at height 7 (tracking active from 0): marker pending in the cache -/
def cDead : Cache := ⟨[(stDestroyed :: aEx, [7, 0, 0, 0])], ⟨[], []⟩⟩

/-- **As shipped the statement is false**: a contract that has just destroyed itself (or migrated away) calls
`System.Storage.Put` — `checkStorageContext` returns `errors.NewDetailErr(nil, …) = nil` for the missing contract — and the
value is stored under the destroyed address. The same happens with the wasm `storage_write`. This is the replay of the
finding `storage-left-under-contract-gone-in-tx-*`. -/
theorem C44_asShipped_counterexample : ¬ C44_full_statement .asShipped := by
  intro h
  have := (h.1 0 7 cDead aEx [.neoPut aEx [1] [2]] ⟨by decide, by decide, by decide⟩ (by decide) (by decide)
    (by intro s hs; simp only [List.mem_singleton] at hs; subst hs; exact ⟨(by decide : aEx.length = 20), by simp⟩)
    (cDead.put stStorage (aEx ++ [1]) (rawItem [2])) (by decide)).2.2 (aEx ++ [1]) (by decide)
  revert this
  decide

/-- … and so it is with the wasm write -/
example : ∃ c', runCalls .asShipped 0 7 cDead [.wasmWrite aEx [1] [2]] = some c' ∧ c'.get stStorage (aEx ++ [1]) = rawItem [2] :=
  ⟨_, rfl, by decide⟩

/-- per call, in a state where `a` reads as destroyed: the sound variant refuses every write in its name; both variants
refuse to deploy to it (`Contract.Create` leaves the state unchanged: as shipped it "succeeds" with a typed-nil
`*DeployCode` on the stack, see the finding `engine-panic-nil-deref`), to migrate to it, to destroy it again, to call it. -/
theorem C44_refused (v : Variant) (track h : Nat) (c : Cache) (a : Bytes) (hd : isDestroyed c a = true) (k val : Bytes) (self : Bytes) :
    ((Sys.neoPut a k val).run .sound track h c).cache? = none ∧
    ((Sys.neoDelete a k).run .sound track h c).cache? = none ∧
    ((Sys.wasmWrite a k val).run .sound track h c).cache? = none ∧
    ((Sys.wasmDelete a k).run .sound track h c).cache? = none ∧
    ((Sys.neoCreate a val).run v track h c).cache? = some c ∧
    ((Sys.wasmCreate a val).run v track h c).cache? = none ∧
    ((Sys.neoMigrate self a val).run v track h c).cache? = none ∧
    ((Sys.wasmMigrate self a val).run v track h c).cache? = none ∧
    ((Sys.neoDestroy a).run v track h c).cache? = none ∧
    ((Sys.appCall a).run v track h c).cache? = none := by
  have hg : getContract c a = .destroyed := by unfold getContract; simp [hd]
  have hp : isPresent c a = false := isPresent_false_of _ _ (Or.inl hd)
  simp [Sys.run, hg, hp, Outcome.cache?]

/-- a deploy transaction for a destroyed address is refused (and leaves the committed state alone), in both variants -/
theorem C44_redeploy_refused (v : Variant) (track : Nat) (c : Cache) (inv : Inv c) (a : Bytes)
    (hm : c.backend.get (stDestroyed :: a) ≠ []) (h : Nat) (val : Bytes) :
    ((Tx.deploy h a val).run v track c).2 = .err ∧ ((Tx.deploy h a val).run v track c).1.backend = c.backend := by
  obtain ⟨h1, h2⟩ := deploy_refused v track c inv a hm h val
  exact ⟨h1, by rw [h2]; rfl⟩

/-! ### Non-vacuity and the activation height -/

/-- a layout with the old contract's entries in all three layers: a pending write and a pending tombstone in the transaction
cache, an overwrite and a tombstone in the block overlay, the bare-prefix key and a shadowed key in the store; plus a
neighbour address sharing 19 bytes -/
def oldEx : Bytes := List.replicate 19 0xaa ++ [0]
def newEx : Bytes := List.replicate 19 0xaa ++ [1]
def cEx : Cache :=
  ⟨[(stStorage :: oldEx ++ [2], [9]), (stStorage :: oldEx ++ [3], [])],
   ⟨[(stStorage :: oldEx ++ [1], [8]), (stStorage :: oldEx ++ [4], [])],
    [(stContract :: oldEx, [1]), (stStorage :: oldEx, [5]), (stStorage :: oldEx ++ [1], [6]), (stStorage :: oldEx ++ [3], [7]),
     (stStorage :: oldEx ++ [4], [7]), (stStorage :: newEx ++ [9], [4])]⟩⟩
example : Inv cEx := ⟨by decide, by decide, by decide⟩
example : cEx.iterate oldEx 100 = [(oldEx, [5]), (oldEx ++ [1], [8]), (oldEx ++ [2], [9])] := by decide
example : (migrate 10 cEx oldEx newEx 10).iterate [] 100 =
    [(newEx, [5]), (newEx ++ [1], [8]), (newEx ++ [2], [9]), (newEx ++ [9], [4])] := by decide
example : getContract cEx oldEx = .present [1] ∧ getContract (migrate 10 cEx oldEx newEx 10) oldEx = .destroyed := by decide
/-- before the activation height no marker is written: the address can be deployed again (by design) -/
example : getContract (clean 10 cEx oldEx 9) oldEx = .absent ∧ (clean 10 cEx oldEx 9).iterate oldEx 100 = [] ∧
    ((Tx.deploy 9 oldEx [1]).run .asShipped 10 ((clean 10 cEx oldEx 9).commit)).2 = .ok := by decide
/-- from the activation height on it cannot -/
example : ((Tx.deploy 11 oldEx [1]).run .asShipped 10 ((clean 10 cEx oldEx 10).commit)).2 = .err := by decide
example : isDestroyed cDead aEx = true ∧ Inv cDead := ⟨by decide, by decide, by decide, by decide⟩

end OntVerif.Props.C44
