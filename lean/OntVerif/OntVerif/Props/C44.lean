import OntVerif.Proofs.MigrateB
/-!
# C44 — Contract migration and destruction move or remove all of its storage

Model: `Model/Migrate.lean` on top of the three storage layers of `Model/KV.lean` (C04). `Cache` = transaction memdb of
`CacheDB` over the block overlay over the persistent store; `c.get stStorage k` is `CacheDB.Get(k)` (`[]` = absent);
`Inv c` (the three layers are strictly sorted) is an invariant of every history (`C04_inv_run`, and the `Inv` conjuncts below).
`migrate` / `clean` run the real loop shape — a join iterator whose memory side is a **live** cursor on the very memdb the loop
body writes (`Cursor`, `iterLoop`) — and the theorems hold for ALL layouts: entries pending in the transaction cache, in the
block overlay, in the store, tombstones shadowing lower layers, keys of any length including the bare prefix.
Addresses are 20 bytes (`[20]byte` in Go): with that key scheme no address is a proper prefix of another contract's keys.
Tied to the real code by `harness/cmd/c44`.
-/
namespace OntVerif.Props.C44
open OntVerif.Util OntVerif.Model.KV OntVerif.Model.Migrate OntVerif.Proofs.KV OntVerif.Proofs.Migrate

/-- **Migration.** After `MigrateContractStorage(old, new, h)`: every entry that was readable under the old address is
readable under the new one with the same value; nothing is readable under the old address (by `Get` and by the prefix
iterator); entries of the new address that are not overwritten and all other storage are unchanged; the old contract is gone,
marked destroyed once tracking is active (`track ≤ h`), a marker is never removed; the lower layers are untouched. -/
theorem C44_migrate (track : Nat) (c : Cache) (inv : Inv c) (old new : Bytes) (h : Nat)
    (ho : old.length = 20) (hn : new.length = 20) (hne : old ≠ new) :
    (∀ sfx v, c.get stStorage (old ++ sfx) = v → v ≠ [] → (migrate track c old new h).get stStorage (new ++ sfx) = v) ∧
    (∀ k, old <+: k → (migrate track c old new h).get stStorage k = []) ∧
    (∀ n, (migrate track c old new h).iterate old n = []) ∧
    (∀ sfx, c.get stStorage (old ++ sfx) = [] →
      (migrate track c old new h).get stStorage (new ++ sfx) = c.get stStorage (new ++ sfx)) ∧
    (∀ k, ¬ old <+: k → ¬ new <+: k → (migrate track c old new h).get stStorage k = c.get stStorage k) ∧
    isPresent (migrate track c old new h) old = false ∧
    (track ≤ h → isDestroyed (migrate track c old new h) old = true) ∧
    (isDestroyed c old = true → isDestroyed (migrate track c old new h) old = true) ∧
    (migrate track c old new h).backend = c.backend ∧ Inv (migrate track c old new h) :=
  migrate_full track c inv old new h ho hn hne

/-- **Destruction.** After `CleanContractStorage(addr, h)` no storage entry of the contract is readable (by `Get` and by the
prefix iterator), every other entry is unchanged, the contract is gone and marked destroyed once tracking is active. -/
theorem C44_destroy (track : Nat) (c : Cache) (inv : Inv c) (addr : Bytes) (h : Nat) :
    (∀ k, addr <+: k → (clean track c addr h).get stStorage k = []) ∧
    (∀ n, (clean track c addr h).iterate addr n = []) ∧
    (∀ k, ¬ addr <+: k → (clean track c addr h).get stStorage k = c.get stStorage k) ∧
    isPresent (clean track c addr h) addr = false ∧
    (track ≤ h → isDestroyed (clean track c addr h) addr = true) ∧
    (isDestroyed c addr = true → isDestroyed (clean track c addr h) addr = true) ∧
    (clean track c addr h).backend = c.backend ∧ Inv (clean track c addr h) :=
  clean_full track c inv addr h

/-- `CleanContractStorageData` alone (the EVM self-destruct path) -/
theorem C44_clean_data (c : Cache) (inv : Inv c) (addr : Bytes) :
    (∀ k, addr <+: k → (cleanData c addr).get stStorage k = []) ∧
    (∀ k, ¬ addr <+: k → (cleanData c addr).get stStorage k = c.get stStorage k) ∧
    (cleanData c addr).backend = c.backend ∧ Inv (cleanData c addr) := by
  obtain ⟨i, b, r1, r2⟩ := cleanData_spec c inv addr
  refine ⟨r1, fun k hk => r2 _ (fun hp => hk ?_), b, i⟩
  rw [List.cons_prefix_cons] at hp; exact hp.2

end OntVerif.Props.C44
