import OntVerif.Proofs.EvmTx
/-!
# C07 — EVM transactions conserve ONG and advance the sender nonce by one

Model: `Model/EvmTx.lean` (`preCheck`, `buyGas`, `TransitionDb`, `refundGas`/`handleGasFee`, fee payment, top level of
`evm.Call`/`evm.Create`, `StateDB.Commit`), the interpreter a black box whose state-DB effects below the top-level
frame are a universally quantified trace with its own snapshot / revert / discard operations.
All theorems: every state, message, chain/height, every trace — the interpreter guarantees a theorem needs are its
explicit hypotheses (`NoNonceTouch`, `NoDebit`, `InAccts`, gas left ≤ gas given).
-/
namespace OntVerif.Props.C07
open OntVerif.Model.EvmTx OntVerif.Proofs.EvmTx

variable {σ : Type} {v : Variant}

/-- unfolding of an accepted transition -/
theorem transition_ok (env : Env) (s : St σ) (msg : Msg) (out : EvmOutcome σ) (clean : List Addr → σ → σ)
    (s' : St σ) (r : Result) (h : transition v env s msg out clean = .ok (s', r)) :
    let b := buyGas env (s.bal msg.sender) msg
    let m0 : MSt σ := subBal ⟨s, [], false, false, []⟩ msg.sender b.2.1
    let e := execPhase v m0 msg out b.1
    let f := settle env e.1 msg b.1 e.2.1 e.2.2.2 b.2.2
    f.1.dbErr = false ∧ s' = commit f.1 clean ∧ r = ⟨b.1 - f.2, e.2.2.1, b.2.2⟩ ∧
    (msg.checkNonce = true → s.nonce msg.sender = msg.nonce) := by
  unfold transition at h
  split at h; · cases h
  split at h; · cases h
  next h1 h2 =>
  dsimp only at h ⊢
  split at h; · cases h
  split at h; · cases h
  next _ hdb =>
  cases h
  refine ⟨by simpa using hdb, rfl, rfl, ?_⟩
  intro hc
  simp [hc] at h1 h2
  omega

theorem m0_facts (env : Env) (s : St σ) (msg : Msg) :
    let b := buyGas env (s.bal msg.sender) msg
    let m0 : MSt σ := subBal ⟨s, [], false, false, []⟩ msg.sender b.2.1
    m0.dbErr = false ∧ m0.suicided = [] ∧ m0.st.nonce = s.nonce ∧ m0.st.bal = upd s.bal msg.sender (s.bal msg.sender - b.2.1) := by
  dsimp only
  have hle := (buyGas_le env (s.bal msg.sender) msg).1
  have : ¬ s.bal msg.sender < (buyGas env (s.bal msg.sender) msg).2.1 := by omega
  simp [subBal, this]

/-- **Nonce mismatch ⇒ rejected**: the transition returns an error (`HandleEIP155Transaction` then marks the overlay as
failed: the block is rejected and no state is produced at all — an error result carries no state). -/
theorem C07_reject_noop (env : Env) (s : St σ) (msg : Msg) (out : EvmOutcome σ) (clean : List Addr → σ → σ)
    (hc : msg.checkNonce = true) (hn : s.nonce msg.sender ≠ msg.nonce) :
    transition v env s msg out clean = .error .nonceTooHigh ∨ transition v env s msg out clean = .error .nonceTooLow := by
  unfold transition
  by_cases h1 : s.nonce msg.sender < msg.nonce
  · left; simp [hc, h1]
  · right
    have h2 : s.nonce msg.sender > msg.nonce := by omega
    simp [hc, h1, h2]

/-- …and conversely an accepted transaction had exactly the account nonce -/
theorem C07_accept_nonce_eq (env : Env) (s : St σ) (msg : Msg) (out : EvmOutcome σ) (clean : List Addr → σ → σ)
    (s' : St σ) (r : Result) (h : transition v env s msg out clean = .ok (s', r)) (hc : msg.checkNonce = true) :
    s.nonce msg.sender = msg.nonce :=
  (transition_ok env s msg out clean s' r h).2.2.2 hc

/-- **Nonce + 1 exactly** on every accepted transaction: success, revert, out of gas, intrinsic-gas failure,
insufficient funds for the value, creation, creation colliding with an existing account. -/
theorem C07_nonce (env : Env) (s : St σ) (msg : Msg) (out : EvmOutcome σ) (clean : List Addr → σ → σ)
    (s' : St σ) (r : Result) (h : transition v env s msg out clean = .ok (s', r))
    (hin : ∀ e ∈ out.inner, NoNonceTouch msg.sender e) (hd : msg.isCreate = true → msg.dest ≠ msg.sender) :
    s'.nonce msg.sender = s.nonce msg.sender + 1 := by
  obtain ⟨hdb, hs', _, _⟩ := transition_ok env s msg out clean s' r h
  obtain ⟨_, hsu, hno, _⟩ := m0_facts env s msg
  have hp := execPhase_nonce (v := v) (subBal ⟨s, [], false, false, []⟩ msg.sender (buyGas env (s.bal msg.sender) msg).2.1) msg out
    (buyGas env (s.bal msg.sender) msg).1 (by rw [hsu]; simp) hin hd
  have hst := settle_nonce env (execPhase v (subBal ⟨s, [], false, false, []⟩ msg.sender (buyGas env (s.bal msg.sender) msg).2.1) msg out
    (buyGas env (s.bal msg.sender) msg).1).1 msg (buyGas env (s.bal msg.sender) msg).1
    (execPhase v (subBal ⟨s, [], false, false, []⟩ msg.sender (buyGas env (s.bal msg.sender) msg).2.1) msg out (buyGas env (s.bal msg.sender) msg).1).2.1
    (execPhase v (subBal ⟨s, [], false, false, []⟩ msg.sender (buyGas env (s.bal msg.sender) msg).2.1) msg out (buyGas env (s.bal msg.sender) msg).1).2.2.2
    (buyGas env (s.bal msg.sender) msg).2.2
  rw [hst.2.2] at hdb
  rcases hp with hp | hp
  · rw [hp] at hdb; cases hdb
  · rw [hs']
    simp only [commit, hst.1, hst.2.1]
    rw [hno] at hp
    simp [hp.2, hp.1]

/-- **Charge bound**: the sender pays at most `gasLimit·gasPrice + value`. -/
theorem C07_charge_bound (env : Env) (s : St σ) (msg : Msg) (out : EvmOutcome σ) (clean : List Addr → σ → σ)
    (s' : St σ) (r : Result) (h : transition v env s msg out clean = .ok (s', r))
    (hin : ∀ e ∈ out.inner, NoDebit msg.sender e) :
    s.bal msg.sender ≤ s'.bal msg.sender + msg.gasLimit * msg.gasPrice + msg.value := by
  obtain ⟨hdb, hs', _, _⟩ := transition_ok env s msg out clean s' r h
  obtain ⟨_, _, _, hb⟩ := m0_facts env s msg
  have hbg := buyGas_le env (s.bal msg.sender) msg
  have hp := execPhase_lb (v := v) (subBal ⟨s, [], false, false, []⟩ msg.sender (buyGas env (s.bal msg.sender) msg).2.1) msg out
    (buyGas env (s.bal msg.sender) msg).1 hin
  have hst := settle_nonce env (execPhase v (subBal ⟨s, [], false, false, []⟩ msg.sender (buyGas env (s.bal msg.sender) msg).2.1) msg out
    (buyGas env (s.bal msg.sender) msg).1).1 msg (buyGas env (s.bal msg.sender) msg).1
    (execPhase v (subBal ⟨s, [], false, false, []⟩ msg.sender (buyGas env (s.bal msg.sender) msg).2.1) msg out (buyGas env (s.bal msg.sender) msg).1).2.1
    (execPhase v (subBal ⟨s, [], false, false, []⟩ msg.sender (buyGas env (s.bal msg.sender) msg).2.1) msg out (buyGas env (s.bal msg.sender) msg).1).2.2.2
    (buyGas env (s.bal msg.sender) msg).2.2
  have hlb := settle_lb env (execPhase v (subBal ⟨s, [], false, false, []⟩ msg.sender (buyGas env (s.bal msg.sender) msg).2.1) msg out
    (buyGas env (s.bal msg.sender) msg).1).1 msg (buyGas env (s.bal msg.sender) msg).1
    (execPhase v (subBal ⟨s, [], false, false, []⟩ msg.sender (buyGas env (s.bal msg.sender) msg).2.1) msg out (buyGas env (s.bal msg.sender) msg).1).2.1
    (execPhase v (subBal ⟨s, [], false, false, []⟩ msg.sender (buyGas env (s.bal msg.sender) msg).2.1) msg out (buyGas env (s.bal msg.sender) msg).1).2.2.2
    (buyGas env (s.bal msg.sender) msg).2.2
  rw [hst.2.2] at hdb
  rcases hp with hp | hp
  · rw [hp] at hdb; cases hdb
  · rw [hs']
    simp only [commit]
    rw [hb, upd_same] at hp
    omega

/-- **Conservation (partial: without SELFDESTRUCT-to-self)**: over any duplicate-free account list containing the
sender, the recipient / created contract, the fee receiver and every account the interpreter touched, the sum of ONG
balances is unchanged — on every chain id except main net before block 15380000 with a balance-adjusted gas purchase,
and outside the one-off refund block 13920628 (both exceptions are vacuous when the balance covers `gasLimit·gasPrice`). -/
theorem C07_conserve_partial (env : Env) (s : St σ) (msg : Msg) (out : EvmOutcome σ) (clean : List Addr → σ → σ)
    (s' : St σ) (r : Result) (h : transition v env s msg out clean = .ok (s', r))
    (accts : List Addr) (hnd : accts.Nodup) (hs : msg.sender ∈ accts) (hd : msg.dest ∈ accts) (hf : env.feeReceiver ∈ accts)
    (hin : ∀ e ∈ out.inner, InAccts v accts e)
    (hgas : out.gasLeft ≤ (buyGas env (s.bal msg.sender) msg).1)
    (hc : msg.gasLimit * msg.gasPrice ≤ s.bal msg.sender ∨
          ((env.mainnet = false ∨ forkHeight ≤ env.height) ∧ env.height ≠ refundHeight)) :
    total accts s'.bal = total accts s.bal := by
  obtain ⟨hdb, hs', _, _⟩ := transition_ok env s msg out clean s' r h
  obtain ⟨_, _, _, hb⟩ := m0_facts env s msg
  have hbg := buyGas_le env (s.bal msg.sender) msg
  obtain ⟨hex, hadj⟩ := buyGas_exact env (s.bal msg.sender) msg hc
  -- total after buying gas
  have ht0 : total accts (subBal (⟨s, [], false, false, []⟩ : MSt σ) msg.sender (buyGas env (s.bal msg.sender) msg).2.1).st.bal
      + (buyGas env (s.bal msg.sender) msg).2.1 = total accts s.bal := by
    rw [hb]
    have := total_upd_mem accts s.bal msg.sender (s.bal msg.sender - (buyGas env (s.bal msg.sender) msg).2.1) hnd hs
    omega
  have hp := execPhase_total (v := v) accts _ hnd (subBal ⟨s, [], false, false, []⟩ msg.sender (buyGas env (s.bal msg.sender) msg).2.1) msg out
    (buyGas env (s.bal msg.sender) msg).1 rfl hs hd hin
  have hg := execPhase_gas (v := v) (subBal ⟨s, [], false, false, []⟩ msg.sender (buyGas env (s.bal msg.sender) msg).2.1) msg out
    (buyGas env (s.bal msg.sender) msg).1 hgas
  have hst := settle_nonce env (execPhase v (subBal ⟨s, [], false, false, []⟩ msg.sender (buyGas env (s.bal msg.sender) msg).2.1) msg out
    (buyGas env (s.bal msg.sender) msg).1).1 msg (buyGas env (s.bal msg.sender) msg).1
    (execPhase v (subBal ⟨s, [], false, false, []⟩ msg.sender (buyGas env (s.bal msg.sender) msg).2.1) msg out (buyGas env (s.bal msg.sender) msg).1).2.1
    (execPhase v (subBal ⟨s, [], false, false, []⟩ msg.sender (buyGas env (s.bal msg.sender) msg).2.1) msg out (buyGas env (s.bal msg.sender) msg).1).2.2.2
    (buyGas env (s.bal msg.sender) msg).2.2
  have hsett := settle_total accts env (execPhase v (subBal ⟨s, [], false, false, []⟩ msg.sender (buyGas env (s.bal msg.sender) msg).2.1) msg out
    (buyGas env (s.bal msg.sender) msg).1).1 msg (buyGas env (s.bal msg.sender) msg).1
    (execPhase v (subBal ⟨s, [], false, false, []⟩ msg.sender (buyGas env (s.bal msg.sender) msg).2.1) msg out (buyGas env (s.bal msg.sender) msg).1).2.1
    (execPhase v (subBal ⟨s, [], false, false, []⟩ msg.sender (buyGas env (s.bal msg.sender) msg).2.1) msg out (buyGas env (s.bal msg.sender) msg).1).2.2.2
    (buyGas env (s.bal msg.sender) msg).2.2 hnd hs hf hg hadj
  rw [hst.2.2] at hdb
  rcases hp with hp | hp
  · rw [hp] at hdb; cases hdb
  · rw [hs']
    simp only [commit]
    rw [hsett.1, hp]
    omega


/-- every effect only names accounts of the list (no restriction on SELFDESTRUCT beneficiaries) -/
def InAcctsAll (l : List Addr) : Eff σ → Prop
  | .transfer a b _ => a ∈ l ∧ b ∈ l
  | .suicide a b => a ∈ l ∧ b ∈ l
  | _ => True

/-- the conservation clause of the property at full strength: every trace, including SELFDESTRUCT to self -/
def C07_full_statement (v : Variant) : Prop :=
  ∀ (env : Env) (s : St Unit) (msg : Msg) (out : EvmOutcome Unit) (s' : St Unit) (r : Result),
    transition v env s msg out (fun _ x => x) = .ok (s', r) →
    ∀ accts : List Addr, accts.Nodup → msg.sender ∈ accts → msg.dest ∈ accts → env.feeReceiver ∈ accts →
    (∀ e ∈ out.inner, InAcctsAll accts e) →
    out.gasLeft ≤ (buyGas env (s.bal msg.sender) msg).1 →
    (msg.gasLimit * msg.gasPrice ≤ s.bal msg.sender ∨
          ((env.mainnet = false ∨ forkHeight ≤ env.height) ∧ env.height ≠ refundHeight)) →
    total accts s'.bal = total accts s.bal

/-- full strength for the conserving variant -/
theorem C07_conserve_sound : C07_full_statement .sound := by
  intro env s msg out s' r h accts hnd hs hd hf hin hgas hc
  refine C07_conserve_partial env s msg out _ s' r h accts hnd hs hd hf ?_ hgas hc
  intro e he
  have := hin e he
  cases e <;> simp_all [InAccts, InAcctsAll]

/-! ## Concrete instances (0 = fee receiver, 1 = sender, 2 = recipient / contract, 3 = third account) -/

def envT : Env := ⟨false, 100, 0⟩
def st0 (balS balD : Nat) (nS nD : Nat) : St Unit :=
  ⟨fun a => if a = 1 then balS else if a = 2 then balD else 0, fun a => if a = 1 then nS else if a = 2 then nD else 0, ()⟩
def callMsg (nonce value gasLimit gasPrice : Nat) : Msg := ⟨1, false, 2, nonce, value, gasLimit, gasPrice, 21000, true⟩
def createMsg (nonce value gasLimit gasPrice : Nat) : Msg := ⟨1, true, 2, nonce, value, gasLimit, gasPrice, 53000, true⟩
def obs4 (v : Variant) (env : Env) (s : St Unit) (msg : Msg) (out : EvmOutcome Unit) :=
  observe [0, 1, 2, 3] (transition v env s msg out (fun _ x => x))

/-- the recorded finding: a contract holding 7·10^17 is called with value 10^17 and executes `ADDRESS SELFDESTRUCT`;
gas price 500 gwei, 13001 gas used. As shipped the 8·10^17 vanish … -/
theorem C07_selfdestruct_self_burns :
    obs4 .asShipped envT (st0 (10^18) (7 * 10^17) 0 1) (callMsg 0 (10^17) 100000 (5 * 10^11)) ⟨false, [.suicide 2 2], false, 86999, 0⟩
      = .done [13001 * 5 * 10^11, 10^18 - 10^17 - 13001 * 5 * 10^11, 0, 0] [0, 1, 0, 0] ⟨13001, false, false⟩ := by decide

/-- … in the conserving variant they stay at the (deleted) contract's address -/
example :
    obs4 .sound envT (st0 (10^18) (7 * 10^17) 0 1) (callMsg 0 (10^17) 100000 (5 * 10^11)) ⟨false, [.suicide 2 2], false, 86999, 0⟩
      = .done [13001 * 5 * 10^11, 10^18 - 10^17 - 13001 * 5 * 10^11, 8 * 10^17, 0] [0, 1, 0, 0] ⟨13001, false, false⟩ := by decide

theorem C07_asShipped_counterexample : ¬ C07_full_statement .asShipped := by
  intro h
  have hobs := C07_selfdestruct_self_burns
  unfold obs4 at hobs
  cases hx : transition .asShipped envT (st0 (10^18) (7 * 10^17) 0 1) (callMsg 0 (10^17) 100000 (5 * 10^11))
      ⟨false, [.suicide 2 2], false, 86999, 0⟩ (fun _ x => x) with
  | error e => rw [hx] at hobs; simp [observe] at hobs
  | ok p =>
    rw [hx] at hobs
    simp only [observe] at hobs
    injection hobs with hb _ _
    have := h envT _ _ _ p.1 p.2 hx [0, 1, 2, 3] (by decide) (by decide) (by decide) (by decide)
      (by intro e he; simp at he; subst he; exact ⟨by decide, by decide⟩) (by decide) (by right; decide)
    simp only [total] at this
    rw [hb] at this
    revert this
    decide

/-- nonce mismatch in both directions -/
example : obs4 .asShipped envT (st0 (10^18) 0 3 0) (callMsg 4 1 21000 (5 * 10^11)) ⟨false, [], false, 0, 0⟩ = .rejected .nonceTooHigh := by decide
example : obs4 .asShipped envT (st0 (10^18) 0 3 0) (callMsg 2 1 21000 (5 * 10^11)) ⟨false, [], false, 0, 0⟩ = .rejected .nonceTooLow := by decide

/-- plain value transfer: 21000·price to the fee receiver, value to the recipient, nonce 3 → 4 -/
example : obs4 .asShipped envT (st0 (10^18) 5 3 0) (callMsg 3 1000 21000 (5 * 10^11)) ⟨false, [], false, 0, 0⟩
    = .done [21000 * 5 * 10^11, 10^18 - 1000 - 21000 * 5 * 10^11, 1005, 0] [0, 4, 0, 0] ⟨21000, false, false⟩ := by decide

/-- REVERT in the callee after it forwarded value to a third account: everything but gas and nonce is undone -/
example : obs4 .asShipped envT (st0 (10^18) 500 0 1) (callMsg 0 1000 50000 (5 * 10^11))
      ⟨false, [.snapshot, .transfer 2 3 700, .discard 0], true, 20000, 0⟩
    = .done [30000 * 5 * 10^11, 10^18 - 30000 * 5 * 10^11, 500, 0] [0, 1, 1, 0] ⟨30000, true, false⟩ := by decide

/-- gas limit below the intrinsic gas: all gas consumed, nonce still +1 -/
example : obs4 .asShipped envT (st0 (10^18) 0 0 0) (callMsg 0 1000 20999 (5 * 10^11)) ⟨false, [], false, 0, 0⟩
    = .done [20999 * 5 * 10^11, 10^18 - 20999 * 5 * 10^11, 0, 0] [0, 1, 0, 0] ⟨20999, true, false⟩ := by decide

/-- creation that reverts, and creation colliding with an existing account: creator nonce +1, new account untouched -/
example : obs4 .asShipped envT (st0 (10^18) 0 7 0) (createMsg 7 1000 100000 (10^9)) ⟨false, [.other id], true, 40000, 0⟩
    = .done [60000 * 10^9, 10^18 - 60000 * 10^9, 0, 0] [0, 8, 0, 0] ⟨60000, true, false⟩ := by decide
example : obs4 .asShipped envT (st0 (10^18) 0 7 1) (createMsg 7 1000 100000 (10^9)) ⟨true, [], false, 47000, 0⟩
    = .done [100000 * 10^9, 10^18 - 100000 * 10^9, 0, 0] [0, 8, 1, 0] ⟨100000, true, false⟩ := by decide

/-- successful creation with endowment -/
example : obs4 .asShipped envT (st0 (10^18) 0 7 0) (createMsg 7 1000 100000 (10^9)) ⟨false, [.other id], false, 40000, 0⟩
    = .done [60000 * 10^9, 10^18 - 1000 - 60000 * 10^9, 1000, 0] [0, 8, 1, 0] ⟨60000, false, false⟩ := by decide

/-- balance below gasLimit·price: gas is adjusted to ⌊balance/price⌋; off main net the remainder stays with the sender … -/
example : obs4 .asShipped envT (st0 (30000 * 10^9 + 123) 0 0 0) (callMsg 0 0 100000 (10^9)) ⟨false, [], false, 9000, 0⟩
    = .done [21000 * 10^9, 9000 * 10^9 + 123, 0, 0] [0, 1, 0, 0] ⟨21000, false, true⟩ := by decide
/-- … on main net before block 15380000 the whole balance is taken and the remainder (123) is destroyed … -/
example : obs4 .asShipped ⟨true, 100, 0⟩ (st0 (30000 * 10^9 + 123) 0 0 0) (callMsg 0 0 100000 (10^9)) ⟨false, [], false, 9000, 0⟩
    = .done [21000 * 10^9, 9000 * 10^9, 0, 0] [0, 1, 0, 0] ⟨21000, false, true⟩ := by decide
/-- … and at block 13920628 an adjusted transaction mints 429567499999828173 on ANY chain id (`handleGasFee` is not
gated by the chain id): the reason for the `env.height ≠ refundHeight` hypothesis of the conservation theorem -/
example : obs4 .asShipped ⟨false, 13920628, 0⟩ (st0 (30000 * 10^9 + 123) 0 0 0) (callMsg 0 0 100000 (10^9)) ⟨false, [], false, 9000, 0⟩
    = .done [21000 * 10^9, 9000 * 10^9 + 123 + 429567499999828173, 0, 0] [0, 1, 0, 0] ⟨21000, false, true⟩ := by decide

end OntVerif.Props.C07
