import OntVerif.Proofs.SyncHeader
/-!
# C32 — Synced block headers carry signatures of more than C consensus peers

Property theorems only (helper lemmas: `Proofs/SyncHeader.lean`; model: `Model/SyncHeader.lean`, on top of the
`VerifyMultiSignature` model of `Model/SigCheck.lean`; harness `harness/cmd/c32`).  The two thresholds
`ledgerStore_vbft_m n = n - n*6/7` and `ledgerStore_vbft_members c = c+1` are the **generated** definitions of
`Gen/Quorum.lean` (extracted from `verifyHeader` on every run).

`addHeader v parseSig vf idOf st h = .ok st'` is "`LedgerStoreImp.AddHeader(h)` returned nil on a node holding `st`".
`governing st h` is the configuration `verifyHeader` checks `h` against (`chainConfigHeight`, its `C`, the ids of
`vbftPeerInfoMap[chainConfigHeight]`).  `validSigners … ids bk sigs` are the distinct members of that configuration for
which the header carries a key and a signature verifying under it over the header hash.

* `.asShipped`: only `m = N - 6N/7` signatures are verified (N = 7: one), on distinct bookkeeper *indexes*; the `C+1`
  requirement is on *listed* distinct members.  The full statement is false (`C32_asShipped_counterexample`); what holds is
  `C32_accept_partial`, and the full conclusion whenever the list names no id twice and `C+1 ≤ m`
  (`C32_asShipped_full_when`).
* `.sound` (no id listed twice, `max m (C+1)` signatures verified): the full statement holds (`C32_full_sound`).
-/
namespace OntVerif.Props.C32
open OntVerif.Util OntVerif.Model.SigCheck OntVerif.Model.SyncHeader OntVerif.Proofs.SigCheck OntVerif.Proofs.SyncHeader
open OntVerif.Gen.Quorum

section
variable {Key Sig Id Hash : Type} [DecidableEq Id] [DecidableEq Hash]

/-- the configuration the node checks `h` against: `(chainConfigHeight, C, ids of vbftPeerInfoMap[chainConfigHeight])` -/
def governing (st : Store Key Id Hash) (h : Hdr Key Id Hash) : Option (Nat × Nat × List Id) :=
  match byHash st h.prev, h.payload with
  | some prevHdr, some p =>
    match lookupCfg st prevHdr p with
    | .ok r => some r
    | .error _ => none
  | _, _ => none

/-- **What acceptance establishes, either variant**: the header extends the tip, a governing configuration exists, at
least `m` bookkeepers are listed, every listed bookkeeper is a member, `C+1` (as `uint32`; `.sound`: exactly, and no id
twice) distinct members are *listed*, and the first `sigsNeeded` signatures verify over the header hash under bookkeepers
at pairwise distinct **indexes** of the list. -/
theorem C32_accept_partial (v : Variant) (parseSig : Bytes → Option Sig) (vf : Key → Hash → Sig → VRes) (idOf : Key → Id)
    (st st' : Store Key Id Hash) (h : Hdr Key Id Hash) (ha : addHeader v parseSig vf idOf st h = .ok st') :
    h.height = (st.hdrs.length - 1) + 1 ∧
    ∃ ch c ids, governing st h = some (ch, c, ids) ∧
      QuorumFacts v parseSig (fun k s => vf k h.hash s) idOf c ids h.bookkeepers h.sigData := by
  obtain ⟨hh, st1, hv, _⟩ := addHeader_ok v parseSig vf idOf st st' h ha
  obtain ⟨prevHdr, p, ch, c, ids, h1, _, _, h4, h5, h6, _⟩ :=
    verifyHeader_ok v parseSig vf idOf st st1 h (by omega) hv
  refine ⟨hh, ch, c, ids, ?_, checkQuorum_ok v parseSig _ idOf c ids _ _ h6⟩
  simp [governing, h1, h4, h5]

/-- in particular (shipped code, `C+1` not wrapping): at least `C+1` distinct members are **listed** and at least
`m = N - 6N/7` signatures verify at distinct indexes -/
theorem C32_asShipped_listed_partial (parseSig : Bytes → Option Sig) (vf : Key → Hash → Sig → VRes) (idOf : Key → Id)
    (st st' : Store Key Id Hash) (h : Hdr Key Id Hash) (ha : addHeader .asShipped parseSig vf idOf st h = .ok st') :
    ∃ ch c ids, governing st h = some (ch, c, ids) ∧
      (c + 1 < U32 → c + 1 ≤ (dedup (h.bookkeepers.map idOf)).length) ∧
      (∀ k ∈ h.bookkeepers, idOf k ∈ ids) ∧
      SetOK (libOf parseSig) (fun k s => vf k h.hash s) h.bookkeepers (ledgerStore_vbft_m (dedup ids).length) h.sigData := by
  obtain ⟨_, ch, c, ids, hg, f⟩ := C32_accept_partial .asShipped parseSig vf idOf st st' h ha
  refine ⟨ch, c, ids, hg, ?_, f.members, f.matched⟩
  intro hc
  have hl := f.listed
  simp only [ledgerStore_vbft_members] at hl
  have := Nat.mod_le (dedup (h.bookkeepers.map idOf)).length U32
  rw [Nat.mod_eq_of_lt hc] at hl
  omega

/-- The statement at full strength: an accepted header carries valid signatures, over its hash, of at least `C+1`
distinct members of the configuration governing its height. -/
def C32_full_statement (v : Variant) : Prop :=
  ∀ (Key Sig Id Hash : Type) [DecidableEq Id] [DecidableEq Hash] (parseSig : Bytes → Option Sig)
    (vf : Key → Hash → Sig → VRes) (idOf : Key → Id) (st st' : Store Key Id Hash) (h : Hdr Key Id Hash),
    addHeader v parseSig vf idOf st h = .ok st' →
    ∃ ch c ids, governing st h = some (ch, c, ids) ∧
      c + 1 ≤ (validSigners parseSig (fun k s => vf k h.hash s) idOf ids h.bookkeepers h.sigData).length

/-- **Shipped code, where it does hold**: the bookkeeper list names no id twice and the configuration is such that
`C+1 ≤ m = N - 6N/7` (e.g. N = 8, C = 1). -/
theorem C32_asShipped_full_when (parseSig : Bytes → Option Sig) (vf : Key → Hash → Sig → VRes) (idOf : Key → Id)
    (st st' : Store Key Id Hash) (h : Hdr Key Id Hash) (ha : addHeader .asShipped parseSig vf idOf st h = .ok st')
    (hn : (h.bookkeepers.map idOf).Nodup) :
    ∃ ch c ids, governing st h = some (ch, c, ids) ∧
      (c + 1 ≤ ledgerStore_vbft_m (dedup ids).length →
        c + 1 ≤ (validSigners parseSig (fun k s => vf k h.hash s) idOf ids h.bookkeepers h.sigData).length) := by
  obtain ⟨_, ch, c, ids, hg, f⟩ := C32_accept_partial .asShipped parseSig vf idOf st st' h ha
  refine ⟨ch, c, ids, hg, fun hc => ?_⟩
  have := signers_ge parseSig (fun k s => vf k h.hash s) idOf ids h.bookkeepers h.sigData _ f.members hn f.matched
  simp only [sigsNeeded] at this
  omega

/-- the store after an accepted header: the header is appended to the index and becomes reachable by hash, and
`vbftPeerInfoMap[height]` is set exactly when the header carries a new chain configuration; nothing else changes. -/
theorem C32_store_update (v : Variant) (parseSig : Bytes → Option Sig) (vf : Key → Hash → Sig → VRes) (idOf : Key → Id)
    (st st' : Store Key Id Hash) (h : Hdr Key Id Hash) (ha : addHeader v parseSig vf idOf st h = .ok st') :
    st'.hdrs = st.hdrs ++ [h] ∧ st'.known = st.known ++ [h] ∧ st'.blockHeight = st.blockHeight ∧
    ∃ p, h.payload = some p ∧
      st'.peerMap = (match p.newCfg with | some nc => (h.height, nc.peers) :: st.peerMap | none => st.peerMap) := by
  obtain ⟨hh, st1, hv, rfl⟩ := addHeader_ok v parseSig vf idOf st st' h ha
  obtain ⟨_, p, _, _, _, _, _, _, h4, _, _, rfl⟩ := verifyHeader_ok v parseSig vf idOf st st1 h (by omega) hv
  cases hn : p.newCfg <;> exact ⟨by simp, by simp, by simp, p, h4, by simp [hn]⟩

/-- **A rejected header changes nothing** - neither the index, nor the headers reachable by hash, nor the recorded peer
sets, nor the block height: whatever verdict a later header gets is the verdict it would have got without it. -/
theorem C32_reject_noop (v : Variant) (parseSig : Bytes → Option Sig) (vf : Key → Hash → Sig → VRes) (idOf : Key → Id)
    (st : Store Key Id Hash) (h : Hdr Key Id Hash) (e : Rej)
    (hr : (stepHeader v parseSig vf idOf st h).2 = some e) : (stepHeader v parseSig vf idOf st h).1 = st := by
  unfold stepHeader at hr ⊢
  cases ha : addHeader v parseSig vf idOf st h with
  | ok st' => rw [ha] at hr; simp at hr
  | error e' => rfl

/-- **A rejected block changes nothing either**, with one exception of the shipped code: a block whose header passes
`verifyHeader` and whose block root is wrong has already written `vbftPeerInfoMap[height]` (`.sound`: not even that).
In particular a block rejected BY `verifyHeader` (non-member bookkeeper, too few members, bad signature, …) leaves the
recorded peer sets as they were. -/
theorem C32_block_reject_noop (v : Variant) (parseSig : Bytes → Option Sig) (vf : Key → Hash → Sig → VRes)
    (idOf : Key → Id) (st st' : Store Key Id Hash) (h : Hdr Key Id Hash) (rootOK : Bool) (e : Rej)
    (ha : addBlock v parseSig vf idOf st h rootOK = (st', some e)) (hne : e ≠ .blockRoot ∨ v = .sound) : st' = st := by
  rcases addBlock_cases v parseSig vf idOf st st' h rootOK (some e) ha with
    ⟨_, h2, _⟩ | ⟨_, _, h2, _⟩ | ⟨_, h2, _⟩ | ⟨_, _, _, h2, _⟩ | ⟨_, st1, _, ⟨_, h3, h4⟩ | ⟨_, h3, _⟩⟩
  · exact h2
  · exact h2
  · exact h2
  · exact h2
  · rcases hne with hne | hne
    · simp only [Option.some.injEq] at h3; exact absurd h3 hne
    · subst hne; exact h4
  · simp at h3

/-- any rejected block, either variant: index, reachable headers and block height are untouched -/
theorem C32_block_reject_frame (v : Variant) (parseSig : Bytes → Option Sig) (vf : Key → Hash → Sig → VRes)
    (idOf : Key → Id) (st st' : Store Key Id Hash) (h : Hdr Key Id Hash) (rootOK : Bool) (e : Rej)
    (ha : addBlock v parseSig vf idOf st h rootOK = (st', some e)) :
    st'.hdrs = st.hdrs ∧ st'.known = st.known ∧ st'.blockHeight = st.blockHeight := by
  rcases addBlock_cases v parseSig vf idOf st st' h rootOK (some e) ha with
    ⟨_, rfl, _⟩ | ⟨_, _, rfl, _⟩ | ⟨_, rfl, _⟩ | ⟨_, _, _, rfl, _⟩ | ⟨_, st1, _, ⟨_, _, h4⟩ | ⟨_, h3, _⟩⟩
  · exact ⟨rfl, rfl, rfl⟩
  · exact ⟨rfl, rfl, rfl⟩
  · exact ⟨rfl, rfl, rfl⟩
  · exact ⟨rfl, rfl, rfl⟩
  · cases v <;> simp only at h4 <;> subst h4 <;> exact ⟨rfl, rfl, rfl⟩
  · simp at h3

/-- a block above the committed height that is accepted went through the same check as a header: `C32_accept_partial`
holds for it (and `C32_full_sound`'s conclusion under `.sound`) -/
theorem C32_block_accept_partial (v : Variant) (parseSig : Bytes → Option Sig) (vf : Key → Hash → Sig → VRes)
    (idOf : Key → Id) (st st' : Store Key Id Hash) (h : Hdr Key Id Hash) (rootOK : Bool)
    (ha : addBlock v parseSig vf idOf st h rootOK = (st', none)) (hh : st.blockHeight < h.height) :
    h.height = st.blockHeight + 1 ∧
    ∃ ch c ids, governing st h = some (ch, c, ids) ∧
      QuorumFacts v parseSig (fun k s => vf k h.hash s) idOf c ids h.bookkeepers h.sigData := by
  rcases addBlock_cases v parseSig vf idOf st st' h rootOK none ha with
    ⟨h1, _, _⟩ | ⟨_, _, _, h3⟩ | ⟨_, _, h3⟩ | ⟨_, _, _, _, h3⟩ | ⟨h1, st1, hv, ⟨_, h3, _⟩ | _⟩
  · omega
  · simp at h3
  · simp at h3
  · simp at h3
  · simp at h3
  · obtain ⟨prevHdr, p, ch, c, ids, g1, _, _, g4, g5, g6, _⟩ :=
      verifyHeader_ok v parseSig vf idOf st st1 h (by omega) hv
    refine ⟨h1, ch, c, ids, ?_, checkQuorum_ok v parseSig _ idOf c ids _ _ g6⟩
    simp [governing, g1, g4, g5]

omit [DecidableEq Id] [DecidableEq Hash] in
/-- for a header WITHOUT a new chain configuration the configuration height is the header's own `LastConfigBlockNum`
field: the header chooses which stored configuration it is checked against (see `staleCfg` below). -/
theorem C32_config_height_is_header_field (prevHdr : Hdr Key Id Hash) (p : Payload Id) (hn : p.newCfg = none) :
    cfgHeight prevHdr p = .ok p.lastCfg := by
  simp [cfgHeight, hn]

end

/-- **Repaired check** (no id listed twice, `max m (C+1)` signatures verified): the full statement holds. -/
theorem C32_full_sound : C32_full_statement .sound := by
  intro Key Sig Id Hash _ _ parseSig vf idOf st st' h ha
  obtain ⟨_, ch, c, ids, hg, f⟩ := C32_accept_partial .sound parseSig vf idOf st st' h ha
  refine ⟨ch, c, ids, hg, ?_⟩
  have hl := f.listed
  simp only at hl
  have := signers_ge parseSig (fun k s => vf k h.hash s) idOf ids h.bookkeepers h.sigData _ f.members hl.2 f.matched
  simp only [sigsNeeded, ledgerStore_vbft_members] at this
  omega

/-! ## Witnesses.  Toy world: keys, ids, hashes are numbers, `idOf = id`; the signature of key `k` over the message `msg` is
the two bytes `[k, msg]`. -/

def toyParse : Bytes → Option (Nat × Nat)
  | [a, b] => some (a.toNat, b.toNat)
  | _ => none

def toyVf (k : Nat) (msg : Nat) (s : Nat × Nat) : VRes := if s.1 = k ∧ s.2 = msg then .ok else .bad

/-- the reason of a rejection (`none`: accepted) -/
def rejOf {α : Type} : Except Rej α → Option Rej
  | .ok _ => none
  | .error e => some e

theorem ok_of_rejOf {α : Type} {e : Except Rej α} (h : rejOf e = none) : ∃ a, e = .ok a := by
  cases e with
  | ok a => exact ⟨a, rfl⟩
  | error e => simp [rejOf] at h

abbrev THdr := Hdr Nat Nat Nat
abbrev TStore := Store Nat Nat Nat

/-- genesis header of a 7-peer configuration with C = 2 (ids 0…6), hash 0 -/
def gen7 : THdr := ⟨0, 0, 99, 0, some ⟨4294967295, some ⟨2, [0, 1, 2, 3, 4, 5, 6]⟩⟩, [], []⟩
def st7 : TStore := ⟨[gen7], [gen7], [(0, [0, 1, 2, 3, 4, 5, 6])], 0⟩

/-- height 1, three listed members, ONE signature (of member 0) -/
def forged : THdr := ⟨1, 1, 0, 1, some ⟨0, none⟩, [0, 1, 2], [[0, 1]]⟩

/-- the shipped check accepts it … -/
theorem C32_forged_accepted : rejOf (addHeader .asShipped toyParse toyVf id st7 forged) = none := by decide

/-- … although exactly one member signed: the full statement fails for the shipped code (N = 7, C = 2) -/
theorem C32_asShipped_counterexample : ¬ C32_full_statement .asShipped := by
  intro hfull
  obtain ⟨st', hacc⟩ := ok_of_rejOf C32_forged_accepted
  obtain ⟨ch, c, ids, hg, hc⟩ := hfull Nat (Nat × Nat) Nat Nat toyParse toyVf id st7 st' forged hacc
  have hg' : governing st7 forged = some (0, 2, [0, 1, 2, 3, 4, 5, 6]) := by decide
  rw [hg'] at hg
  simp only [Option.some.injEq, Prod.mk.injEq] at hg
  obtain ⟨rfl, rfl, rfl⟩ := hg
  revert hc
  decide

/-- the repaired check rejects it (three signatures would be needed) -/
example : rejOf (addHeader .sound toyParse toyVf id st7 forged) = some .sigCount := by decide

/-- variant *one signer counted on two indexes*: N = 14, C = 4, m = 2; the list names member 0 twice (five distinct members
listed), the SAME signature of member 0 is supplied twice and matches index 0, then index 1 -/
def gen14 : THdr := ⟨0, 0, 99, 0, some ⟨4294967295, some ⟨4, [0, 1, 2, 3, 4, 5, 6, 7, 8, 9, 10, 11, 12, 13]⟩⟩, [], []⟩
def st14 : TStore := ⟨[gen14], [gen14], [(0, [0, 1, 2, 3, 4, 5, 6, 7, 8, 9, 10, 11, 12, 13])], 0⟩
def dupForged : THdr := ⟨1, 1, 0, 1, some ⟨0, none⟩, [0, 0, 1, 2, 3, 4], [[0, 1], [0, 1]]⟩

theorem C32_duplicate_signer_accepted :
    rejOf (addHeader .asShipped toyParse toyVf id st14 dupForged) = none ∧
    (validSigners toyParse (fun k s => toyVf k 1 s) id [0, 1, 2, 3, 4, 5, 6, 7, 8, 9, 10, 11, 12, 13]
      dupForged.bookkeepers dupForged.sigData).length = 1 := by decide

example : rejOf (addHeader .sound toyParse toyVf id st14 dupForged) = some .dupBk := by decide

/-- variant *`C+1` wraps*: a configuration with `C = 2^32 - 1` asks for `uint32(C+1) = 0` listed members; with an empty peer
list `m = 0` as well, so a header with no bookkeeper and no signature is accepted -/
def genWrap : THdr := ⟨0, 0, 99, 0, some ⟨4294967295, some ⟨4294967295, []⟩⟩, [], []⟩
theorem C32_wrap_accepted :
    rejOf (addHeader .asShipped toyParse toyVf id ⟨[genWrap], [genWrap], [(0, [])], 0⟩ ⟨1, 1, 0, 1, some ⟨0, none⟩, [], []⟩) = none ∧
    rejOf (addHeader .sound toyParse toyVf id ⟨[genWrap], [genWrap], [(0, [])], 0⟩ ⟨1, 1, 0, 1, some ⟨0, none⟩, [], []⟩)
      = some .fewMembers := by
  decide

/-- variant *stale configuration chosen by the header*: height 1 installs a new configuration (ids 7…13, C = 2); the header
at height 2 names `LastConfigBlockNum = 0` and is checked against - and signed by one member of - the OLD configuration.
Both variants of the model follow the code here (the lookup is not part of the repair). -/
def cfgHdr : THdr := ⟨1, 1, 0, 1, some ⟨0, some ⟨2, [7, 8, 9, 10, 11, 12, 13]⟩⟩, [0, 1, 2], [[0, 1]]⟩
def staleCfg : THdr := ⟨2, 2, 1, 2, some ⟨0, none⟩, [0, 1, 2], [[0, 2]]⟩
def staleAccepted (v : Variant) : Bool :=
  match addHeader v toyParse toyVf id st7 cfgHdr with
  | .error _ => false
  | .ok st1 =>
    decide (st1.peerMap = [(1, [7, 8, 9, 10, 11, 12, 13]), (0, [0, 1, 2, 3, 4, 5, 6])]) &&
    decide (governing st1 staleCfg = some (0, 2, [0, 1, 2, 3, 4, 5, 6])) &&
    decide (rejOf (addHeader v toyParse toyVf id st1 staleCfg) = none)
theorem C32_stale_config_accepted : staleAccepted .asShipped = true := by decide

/-! ### Header sync ahead of block sync: a bogus BLOCK for an already indexed height.
`h1` (height 1) genuinely installs the configuration 0…6 again, `h2` follows it; then a block for height 1 announcing the
outsiders 7…13 and signed by them is delivered through `AddBlock`: rejected (`nonMember`), and the store is unchanged
(`C32_block_reject_noop`), so the header for height 3 signed by the outsiders is rejected and the genuine one accepted. -/
def h1 : THdr := ⟨1, 1, 0, 1, some ⟨0, some ⟨2, [0, 1, 2, 3, 4, 5, 6]⟩⟩, [0, 1, 2, 3, 4], [[0, 1], [1, 1], [2, 1], [3, 1], [4, 1]]⟩
def h2 : THdr := ⟨2, 2, 1, 2, some ⟨1, none⟩, [2, 3, 4, 5, 6], [[2, 2], [3, 2], [4, 2], [5, 2], [6, 2]]⟩
def bogusBlock (sigs : List Bytes) (bk : List Nat) : THdr :=
  ⟨3, 1, 0, 1, some ⟨0, some ⟨2, [7, 8, 9, 10, 11, 12, 13]⟩⟩, bk, sigs⟩
def outsider3 : THdr := ⟨4, 3, 2, 3, some ⟨1, none⟩, [7, 8, 9, 10, 11], [[7, 4], [8, 4], [9, 4], [10, 4], [11, 4]]⟩
def genuine3 : THdr := ⟨5, 3, 2, 3, some ⟨1, none⟩, [0, 1, 2, 3, 4], [[0, 5], [1, 5], [2, 5], [3, 5], [4, 5]]⟩

def aheadStore (v : Variant) : TStore :=
  (stepHeader v toyParse toyVf id (stepHeader v toyParse toyVf id st7 h1).1 h2).1

theorem C32_bogus_block_rejected_and_harmless (v : Variant) :
    (aheadStore v).hdrs.length = 3 ∧
    (addBlock v toyParse toyVf id (aheadStore v) (bogusBlock [[7, 3], [8, 3], [9, 3]] [7, 8, 9]) true).2 = some .nonMember ∧
    (stepHeader v toyParse toyVf id
      (addBlock v toyParse toyVf id (aheadStore v) (bogusBlock [[7, 3], [8, 3], [9, 3]] [7, 8, 9]) true).1 outsider3).2
        = some .nonMember ∧
    (stepHeader v toyParse toyVf id
      (addBlock v toyParse toyVf id (aheadStore v) (bogusBlock [[7, 3], [8, 3], [9, 3]] [7, 8, 9]) true).1 genuine3).2
        = none := by
  cases v <;> decide

/-- the exception of `C32_block_reject_noop` is real for the shipped code: the bogus block lists three members, carries ONE
member signature (enough for `verifyHeader`, N = 7) and a wrong block root - it is rejected, but the peer set recorded
for height 1 is now the outsiders', and the header for height 3 signed by outsiders only is accepted -/
theorem C32_asShipped_rejected_block_updates_map :
    (addBlock .asShipped toyParse toyVf id (aheadStore .asShipped) (bogusBlock [[0, 3]] [0, 1, 2]) false).2 = some .blockRoot ∧
    (stepHeader .asShipped toyParse toyVf id
      (addBlock .asShipped toyParse toyVf id (aheadStore .asShipped) (bogusBlock [[0, 3]] [0, 1, 2]) false).1 outsider3).2
        = none ∧
    (stepHeader .sound toyParse toyVf id
      (addBlock .sound toyParse toyVf id (aheadStore .sound) (bogusBlock [[0, 3], [1, 3], [2, 3]] [0, 1, 2]) false).1 outsider3).2
        = some .nonMember := by decide

/-! Non-vacuity: a header accepted by BOTH variants (three members sign), and N = 8, C = 1 where the shipped code is
enough (`C32_asShipped_full_when`: m = 2 = C+1). -/

def honest : THdr := ⟨1, 1, 0, 1, some ⟨0, none⟩, [4, 1, 6], [[6, 1], [4, 1], [1, 1]]⟩
example : rejOf (addHeader .sound toyParse toyVf id st7 honest) = none ∧
    rejOf (addHeader .asShipped toyParse toyVf id st7 honest) = none ∧
    (validSigners toyParse (fun k s => toyVf k 1 s) id [0, 1, 2, 3, 4, 5, 6] honest.bookkeepers honest.sigData).length = 3 := by
  decide

def gen8 : THdr := ⟨0, 0, 99, 0, some ⟨4294967295, some ⟨1, [0, 1, 2, 3, 4, 5, 6, 7]⟩⟩, [], []⟩
example : ledgerStore_vbft_m 8 = 2 ∧
    rejOf (addHeader .asShipped toyParse toyVf id ⟨[gen8], [gen8], [(0, [0, 1, 2, 3, 4, 5, 6, 7])], 0⟩
      ⟨1, 1, 0, 1, some ⟨0, none⟩, [3, 5], [[5, 1], [3, 1]]⟩) = none ∧
    rejOf (addHeader .asShipped toyParse toyVf id ⟨[gen8], [gen8], [(0, [0, 1, 2, 3, 4, 5, 6, 7])], 0⟩
      ⟨1, 1, 0, 1, some ⟨0, none⟩, [3, 5], [[5, 1], [5, 1]]⟩) = some .sigFail := by decide

/-- wrong-message and undecodable signatures are rejected; a non-member bookkeeper is rejected -/
example : rejOf (addHeader .asShipped toyParse toyVf id st7 ⟨1, 1, 0, 1, some ⟨0, none⟩, [0, 1, 2], [[0, 9]]⟩) = some .sigFail ∧
    rejOf (addHeader .asShipped toyParse toyVf id st7 ⟨1, 1, 0, 1, some ⟨0, none⟩, [0, 1, 2], [[]]⟩) = some .sigData ∧
    rejOf (addHeader .asShipped toyParse toyVf id st7 ⟨1, 1, 0, 1, some ⟨0, none⟩, [0, 1, 9], [[0, 1]]⟩) = some .nonMember ∧
    rejOf (addHeader .asShipped toyParse toyVf id st7 ⟨1, 1, 0, 1, some ⟨0, none⟩, [0, 1, 1], [[0, 1]]⟩) = some .fewMembers := by
  decide

end OntVerif.Props.C32
