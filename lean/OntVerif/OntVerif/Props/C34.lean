import OntVerif.Model.VbftProto
import OntVerif.Model.VbftImpl
import OntVerif.Gen.SealGates
import OntVerif.Gen.VbftIntake
import OntVerif.Props.C28
import OntVerif.Props.C31
import Mathlib.Data.Fintype.Card
import Mathlib.Data.Finset.Card
/-!
# C34 — Honest VBFT nodes never seal different blocks at the same height

Layered.

**Protocol layer** (`Model/VbftProto.lean`): the abstract commit protocol — honest nodes endorse at most one non-empty
and one empty block per height, commit once per height, seal only on commit messages from `N-(N-1)/3` distinct nodes;
Byzantine nodes send anything under their own identity; the history only grows (any delay, loss, reordering, timeout).
`C34_proto_safe` proves agreement for ALL `N ≥ 3C+1`, all reachable states, by a history invariant and the quorum
intersection theorem `C28_intersect` (over the threshold formula regenerated from `getCommitConsensus`).

**Implementation layer** (`Model/BlockPool.lean`, `Model/VbftImpl.lean`): refinement obligations of the Go decision
functions — "returns done ⇒ the protocol-layer guard holds". `setProposalEndorsed` and `setProposalCommitted` meet
theirs (`C34_obl_endorse_once`, `C34_obl_commit_once`). `commitDone` does **not** meet the seal guard: it counts
signatures that were never verified (C31) and, even with every signature genuine, counts proposal and endorse
signatures as commit votes and pools them by proposer index (`C34_seal_obligation_fails_*`). Therefore
`C34_impl_statement .asShipped` is refuted (`C34_impl_asShipped_counterexample`, N = 4, one Byzantine node, replayed on
two real `BlockPool`s by `harness/cmd/c34`), and repairing the intake as in C31 `.sound` alone does not restore it
(`C34_impl_counterexample_genuine_signatures`). What is NOT modelled: `service.go`'s event loop (timers, syncing,
network, which proposal a node endorses and when it evaluates the decision functions) — these are the schedule.
-/
namespace OntVerif.Props.C34
open OntVerif.Model.VbftProto OntVerif.Gen.Quorum OntVerif.Model.Quorum

/-! ## Protocol layer -/

/-- history invariant: an honest node's commit message exists only for the one block it committed to;
a sealed block has a commit quorum in the history -/
structure ProtoInv {N : Nat} (faulty : Fin N → Bool) (s : St N) : Prop where
  commitOnce : ∀ i h b, faulty i = false → Msg.commit h i b ∈ s.hist → (s.node i).committed h = some b
  sealedQuorum : ∀ i h b, (s.node i).sealed h = some b → commitQuorum s.hist h b

theorem commitQuorum_mono {N : Nat} (hist : List (Msg N)) (m : Msg N) (h : Nat) (b : Blk)
    (q : commitQuorum hist h b) : commitQuorum (m :: hist) h b := by
  obtain ⟨l, a, c, d⟩ := q
  exact ⟨l, a, c, fun j hj => List.mem_cons_of_mem _ (d j hj)⟩

theorem protoInv_step {N : Nat} (faulty : Fin N → Bool) (s t : St N) (inv : ProtoInv faulty s)
    (st : Step faulty s t) : ProtoInv faulty t := by
  cases st with
  | endorse i h b hi guard =>
    refine ⟨fun j k c hj hm => ?_, fun j k c hs => ?_⟩
    · simp only [List.mem_cons] at hm
      rcases hm with hm | hm
      · cases hm
      · have := inv.commitOnce j k c hj hm
        simp only [updNode]; split
        · rename_i e; subst e; exact this
        · exact this
    · apply commitQuorum_mono
      apply inv.sealedQuorum j k c
      simp only [updNode] at hs; split at hs
      · rename_i e; subst e; exact hs
      · exact hs
  | endorseEmpty i h b hi guard =>
    refine ⟨fun j k c hj hm => ?_, fun j k c hs => ?_⟩
    · simp only [List.mem_cons] at hm
      rcases hm with hm | hm
      · cases hm
      · have := inv.commitOnce j k c hj hm
        simp only [updNode]; split
        · rename_i e; subst e; exact this
        · exact this
    · apply commitQuorum_mono
      apply inv.sealedQuorum j k c
      simp only [updNode] at hs; split at hs
      · rename_i e; subst e; exact hs
      · exact hs
  | commit i h b hi guard =>
    refine ⟨fun j k c hj hm => ?_, fun j k c hs => ?_⟩
    · simp only [List.mem_cons] at hm
      rcases hm with hm | hm
      · cases hm
        simp [updNode, setAt]
      · have := inv.commitOnce j k c hj hm
        simp only [updNode]; split
        · rename_i e; subst e
          simp only [setAt]; split
          · rename_i e2; subst e2; rw [guard] at this; cases this
          · exact this
        · exact this
    · apply commitQuorum_mono
      apply inv.sealedQuorum j k c
      simp only [updNode] at hs; split at hs
      · rename_i e; subst e; exact hs
      · exact hs
  | sealBlock i h b hi guard once =>
    refine ⟨fun j k c hj hm => ?_, fun j k c hs => ?_⟩
    · have := inv.commitOnce j k c hj hm
      simp only [updNode]; split
      · rename_i e; subst e; exact this
      · exact this
    · simp only [updNode] at hs; split at hs
      · rename_i e; subst e
        simp only [setAt] at hs; split at hs
        · rename_i e2; subst e2; cases hs; exact guard
        · exact inv.sealedQuorum j k c hs
      · exact inv.sealedQuorum j k c hs
  | byz m hm =>
    refine ⟨fun j k c hj hmem => ?_, fun j k c hs => commitQuorum_mono _ _ _ _ (inv.sealedQuorum j k c hs)⟩
    simp only [List.mem_cons] at hmem
    rcases hmem with e | hmem
    · subst e; simp [Msg.signer, hj] at hm
    · exact inv.commitOnce j k c hj hmem

theorem protoInv_reach {N : Nat} (faulty : Fin N → Bool) (s : St N) (r : Reach faulty s) : ProtoInv faulty s := by
  induction r with
  | init => exact ⟨fun _ _ _ _ h => by simp at h, fun _ _ _ h => by simp at h⟩
  | step s t _ st ih => exact protoInv_step faulty s t ih st

/-- **C34, protocol layer.** For all `N`, `C` with `N ≥ 3C+1`, at most `C` Byzantine nodes, every reachable state (any
interleaving of honest steps and arbitrary Byzantine messages, any delays/losses/reorderings): two seals at the same
height are for the same block. -/
theorem C34_proto_safe (N C : Nat) (hN : 3 * C + 1 ≤ N) (faulty : Fin N → Bool)
    (hF : (Finset.univ.filter (fun i => faulty i = true)).card ≤ C) (s : St N) (r : Reach faulty s)
    (i j : Fin N) (h : Nat) (b b' : Blk) (hi : (s.node i).sealed h = some b) (hj : (s.node j).sealed h = some b') :
    b = b' := by
  have inv := protoInv_reach faulty s r
  obtain ⟨l, ln, ll, lm⟩ := inv.sealedQuorum i h b hi
  obtain ⟨l', ln', ll', lm'⟩ := inv.sealedQuorum j h b' hj
  obtain ⟨p, pa, pb, pf⟩ := OntVerif.Props.C28.C28_intersect .commitMsgQuorum .commitMsgQuorum N C hN l.toFinset l'.toFinset _
    (by rw [List.toFinset_card_of_nodup ln]; exact ll) (by rw [List.toFinset_card_of_nodup ln']; exact ll') hF
  have hp : faulty p = false := by
    simp only [Finset.mem_filter, Finset.mem_univ, true_and] at pf
    cases hfp : faulty p <;> simp_all
  have c1 := inv.commitOnce p h b hp (lm p (List.mem_toFinset.mp pa))
  have c2 := inv.commitOnce p h b' hp (lm' p (List.mem_toFinset.mp pb))
  rw [c1] at c2
  exact Option.some.inj c2

/-! ### Non-vacuity: a reachable N = 4 state in which two honest nodes sealed (the same) block -/
section nonvacuous
private def nf : Fin 4 → Bool := fun _ => false
private def s1 : St 4 := { hist := [.commit 1 0 7], node := updNode (fun _ => {}) 0 { committed := setAt (fun _ => none) 1 7 } }
example : ∃ s : St 4, Reach nf s ∧ (s.node 0).sealed 1 = some 7 ∧ (s.node 3).sealed 1 = some 7 := by
  have r0 : Reach nf ({} : St 4) := .init
  have r1 := Reach.step _ _ r0 (Step.commit {} 0 1 7 rfl rfl)
  have r2 := Reach.step _ _ r1 (Step.commit _ 1 1 7 rfl rfl)
  have r3 := Reach.step _ _ r2 (Step.commit _ 2 1 7 rfl rfl)
  have q : ∀ (s : St 4), Msg.commit 1 0 7 ∈ s.hist → Msg.commit 1 1 7 ∈ s.hist → Msg.commit 1 2 7 ∈ s.hist →
      commitQuorum s.hist 1 7 := fun s a b c =>
    ⟨[0, 1, 2], by decide, by decide, fun j hj => by
      simp only [List.mem_cons, List.mem_nil_iff, or_false] at hj
      rcases hj with rfl | rfl | rfl <;> assumption⟩
  have r4 := Reach.step _ _ r3 (Step.sealBlock _ 0 1 7 rfl (q _ (by simp) (by simp) (by simp)) rfl)
  have r5 := Reach.step _ _ r4 (Step.sealBlock _ 3 1 7 rfl (q _ (by simp) (by simp) (by simp)) rfl)
  exact ⟨_, r5, by simp [updNode, setAt], by simp [updNode, setAt]⟩
end nonvacuous

/-! ## Implementation layer: refinement obligations of the Go decision functions -/
section impl
open OntVerif.Model.BlockPool OntVerif.Model.VbftImpl OntVerif.Proofs.BlockPool

/-- `setProposalEndorsed` returns no error for a non-empty endorsement ⇒ the node had endorsed no other non-empty
proposal (protocol guard of `Step.endorse`); afterwards the endorsement is recorded -/
theorem C34_obl_endorse_once (c c' : Cand) (p : Nat) (h : setProposalEndorsed c p false = (true, c')) :
    (c.endorsedP = none ∨ c.endorsedP = some p) ∧ c'.endorsedP = some p := by
  unfold setProposalEndorsed at h
  cases he : c.endorsedP with
  | none => simp [he] at h; subst h; simp
  | some q =>
    simp [he] at h
    obtain ⟨h1, h2⟩ := h
    subst h2; subst h1
    exact ⟨Or.inr rfl, he⟩

/-- … and for an empty endorsement ⇒ no empty endorsement before (guard of `Step.endorseEmpty`) -/
theorem C34_obl_endorse_empty_once (c c' : Cand) (p : Nat) (h : setProposalEndorsed c p true = (true, c')) :
    c.endorsedEmptyP = none ∧ c'.endorsedEmptyP = some p := by
  unfold setProposalEndorsed at h
  cases he : c.endorsedEmptyP with
  | none => simp [he] at h; subst h; simp
  | some q => simp [he] at h

/-- `setProposalCommitted` returns no error ⇒ the node had not committed at this height (guard of `Step.commit`) -/
theorem C34_obl_commit_once (c c' : Cand) (p : Nat) (fe : Bool) (h : setProposalCommitted c p fe = (true, c')) :
    c.committedP = none ∧ c.committedEmptyP = none ∧ (c'.committedP = some p ∨ c'.committedEmptyP = some p) := by
  unfold setProposalCommitted at h
  cases h1 : c.committedP <;> cases h2 : c.committedEmptyP <;> simp [h1, h2] at h
  cases fe <;> simp at h <;> subst h <;> simp

/-! ### The seal gates of `service.go` (structural facts, regenerated by factgen on every run: `Gen/SealGates.lean`)

Every call of a seal entry point in `consensus/vbft` (`setCommitDone`, `makeSealed`, `sealProposal`, `sealBlock`,
`fastForwardBlock`, `setBlockSealed`, `chainStore.AddBlock`) with the decision function whose `done` result guards it. The
refinement obligation that `C34_proto_safe` needs from the event loop — *seal only on a commit verdict, for the block number the
verdict is about* — is checked on these facts; timers and scheduling are not modelled. -/
section gates
open OntVerif.Gen.SealGates

/-- what a seal site must look like -/
def siteOk (s : Site) : Bool :=
  if s.callee == "setCommitDone" then
    -- `if …, done := pool.commitDone(b, chainCfg.C, chainCfg.N); done { pool.setCommitDone(b) …`
    s.guard == "commitDone" && s.guardArgs == s.args ++ ["chainCfg.C", "chainCfg.N"] && s.args.length == 1
  else if s.callee == "makeSealed" then
    -- `if proposer, forEmpty, done := pool.commitDone(b, C, N); done { … proposal := findBlockProposal(b, proposer, forEmpty) … makeSealed(proposal, forEmpty)`
    match s.guardArgs, s.guardResults with
    | [b, "chainCfg.C", "chainCfg.N"], [r0, r1, _] =>
      s.guard == "commitDone" && s.args == ["proposal", r1] &&
      s.proposalFrom == "self.findBlockProposal(" ++ b ++ ", " ++ r0 ++ ", " ++ r1 ++ ")"
    | _, _ => false
  else if s.callee == "sealBlock" then
    -- fast-forward over buffered commit messages: the commit-message quorum; or a relay inside sealProposal / fastForwardBlock
    (s.func == "actionLoop" && s.guard == "getCommitConsensus" && s.guardArgs == ["commitMsgs", "int(chainCfg.C)", "int(chainCfg.N)"])
    || (s.guard == "relay" && (s.func == "sealProposal" || s.func == "fastForwardBlock"))
  else if s.callee == "sealProposal" then s.guard == "action:SealBlock"      -- consumer of the action made by makeSealed
  else if s.callee == "setBlockSealed" then s.guard == "relay" && s.func == "sealBlock"
  else if s.callee == "AddBlock" then s.guard == "relay" && s.func == "setBlockSealed"
  else if s.callee == "fastForwardBlock" then s.guard == "sync" && s.file == "consensus/vbft/node_sync.go"  -- synced blocks: C32's matter
  else false

/-- **every seal site of the shipped event loop is guarded by a commit verdict on the same block number** (or relays one /
belongs to the syncer). A seal on `endorseDone`, on another block number, in an `else` branch, or an unguarded new seal
site makes this fail. -/
theorem C34_seal_sites_guarded : sites.all siteOk = true := by decide

/-- the three decision sites exist and use `commitDone` (these names select the gate the model and the harness evaluate) -/
theorem C34_decision_gates : msgCommitGate = "commitDone" ∧ commitTimeoutGate = "commitDone" ∧ newRoundGate = "commitDone" ∧
    (sites.filter (fun s => s.callee == "setCommitDone")).length = 3 ∧
    (sites.filter (fun s => s.callee == "makeSealed")).length = 2 := by decide
/-- **the proposal that is sealed is the one the commit verdict names**: every `return <proposal>` of `findBlockProposal`
(block-pool loop and msg-pool fallback loop) sits under a guard comparing the proposal's proposer with the requested
proposer (`Gen/VbftIntake.lean`, regenerated on every run) -/
theorem C34_proposal_lookup_by_proposer :
    OntVerif.Gen.VbftIntake.lookupUnderstood = true ∧ 1 ≤ OntVerif.Gen.VbftIntake.proposalReturns.length ∧
    OntVerif.Gen.VbftIntake.proposalReturns.all (fun r => r.2.contains "proposer-eq") = true := by decide
end gates

/-- peers `i < N` whose *commit message* for `p` with a genuine committer signature is stored in the pool -/
def commitVotes (N : Nat) (c : Cand) (p : Nat) : Nat :=
  ((List.range N).filter fun i => c.commitMsgs.any fun m =>
    m.proposer == p && m.committer == i && genuineSig i p m.forEmpty m.sig).length

/-- the seal guard of the protocol layer, as an obligation on `commitDone` -/
def C34_seal_obligation (v : Variant) : Prop :=
  ∀ (N C Csrv : Nat) (endorsers : List Nat) (hist : List Delivery) (order : List Nat) (p : Nat) (fe : Bool),
    order.Nodup → commitDone v N Csrv endorsers (run v N {} hist) order C = (p, fe, true) →
    commitConsensus_q N ≤ commitVotes N (run v N {} hist) p

/-- not met by the shipped code, even on a history of genuine messages only: the proposal and two endorsements (no commit
message at all) make `commitDone` declare commit -/
theorem C34_seal_obligation_fails_asShipped : ¬ C34_seal_obligation .asShipped := by
  intro h
  have := h 4 1 1 [0, 1, 2, 3] (OntVerif.Props.C31.honestRun.take 3) [0, 1, 2, 3] 1 false (by decide) (by decide)
  revert this
  decide

/-- … nor by the C31-repaired intake: the signatures are genuine, but they are not commit votes -/
theorem C34_seal_obligation_fails_sound : ¬ C34_seal_obligation .sound := by
  intro h
  have := h 4 1 1 [0, 1, 2, 3] (OntVerif.Props.C31.honestRun.take 3) [0, 1, 2, 3] 1 false (by decide) (by decide)
  revert this
  decide

/-- implementation-level agreement: for every well-formed world (`N ≥ 3C+1`, at most `C` Byzantine nodes) and every
schedule of node steps, deliveries and Byzantine messages, the honest nodes' sealed blocks agree -/
def C34_impl_statement (v : Variant) : Prop :=
  ∀ (N C : Nat) (faulty : List Nat) (ops : List Op),
    wellFormed { N := N, C := C, faulty := faulty } = true →
    agree (runOps v { N := N, C := C, faulty := faulty } ops) = true

private def B (p ver : Nat) (fe : Bool) : Hash := .block p ver fe
private def o4 : List Nat := [0, 1, 2, 3]

/-- Byzantine proposer 3 equivocates (version 0 to node 0, version 1 to node 1) and backs each version with ONE commit
message claiming endorsers 0,1,2 with junk signatures. Wire form (replayed on two real pools):
`H 4 1 3 P,0,3,0;P,1,3,1;FC,3,3,3,24,0,3.24,3.24,0=j1+1=j1+2=j1;D,0,0;S,0;FC,3,3,3,28,0,3.28,3.28,0=j1+1=j1+2=j1;D,1,1;S,1` -/
def forgedHistory : List Op :=
  [.propose 0 3 0, .propose 1 3 1,
   .forgeC 3 ⟨3, 3, B 3 0 false, false, .valid 3 (B 3 0 false), [(0, .junk 1), (1, .junk 1), (2, .junk 1)], .valid 3 (B 3 0 false)⟩,
   .deliver 0 0, .seal 0 o4,
   .forgeC 3 ⟨3, 3, B 3 1 false, false, .valid 3 (B 3 1 false), [(0, .junk 1), (1, .junk 1), (2, .junk 1)], .valid 3 (B 3 1 false)⟩,
   .deliver 1 1, .seal 1 o4]

theorem C34_impl_asShipped_counterexample : ¬ C34_impl_statement .asShipped := by
  intro h
  have := h 4 1 [3] forgedHistory (by decide)
  revert this
  decide

/-- the C31-repaired intake rejects that attack … -/
theorem C34_forged_history_harmless_when_sound :
    agree (runOps .sound { N := 4, C := 1, faulty := [3] } forgedHistory) = true := by decide

/-- … but agreement still fails with every signature genuine and every hash right: honest 0 is second proposer and also
endorses Byzantine leader 3's block, honest 1 endorses and commits 3's block, honest 2 endorses and commits 0's block,
Byzantine 3 endorses 0's block. Node 1 counts {3 (proposal), 1, 0} for block 3, node 2 counts {0 (proposal), 2, 3} for
block 0. Wire: `H 4 1 3 P,0,0,0;P,1,0,0;P,2,0,0;P,0,3,0;P,1,3,0;E,1,3,0;E,2,0,0;E,0,3,0;K,1;K,2;FE,3,3,0,0,0,3.0;D,2,1;S,1;D,5,2;S,2` -/
def genuineHistory : List Op :=
  [.propose 0 0 0, .propose 1 0 0, .propose 2 0 0, .propose 0 3 0, .propose 1 3 0,
   .endorse 1 3 false, .endorse 2 0 false, .endorse 0 3 false,
   .commit 1 o4, .commit 2 o4,
   .forgeE 3 ⟨3, 0, B 0 0 false, false, .valid 3 (B 0 0 false)⟩,
   .deliver 2 1, .seal 1 o4, .deliver 5 2, .seal 2 o4]

theorem C34_impl_counterexample_genuine_signatures :
    ¬ C34_impl_statement .asShipped ∧ ¬ C34_impl_statement .sound := by
  constructor
  · intro h
    have := h 4 1 [3] genuineHistory (by decide)
    revert this
    decide
  · intro h
    have := h 4 1 [3] genuineHistory (by decide)
    revert this
    decide

/-! ### What the shipped decision functions do guarantee -/

/-- two sets of peer indexes below `N` whose sizes add up to more than `N + C` share a peer outside any `C`-set -/
theorem inter_outside_faulty_nat {N C a b : Nat} (A B F : Finset Nat) (hAN : A ⊆ Finset.range N) (hBN : B ⊆ Finset.range N)
    (hA : a ≤ A.card) (hB : b ≤ B.card) (hF : F.card ≤ C) (hq : N + C + 1 ≤ a + b) :
    ∃ p, p ∈ A ∧ p ∈ B ∧ p ∉ F := by
  have hU : (A ∪ B).card ≤ N := by
    have := Finset.card_le_card (Finset.union_subset hAN hBN)
    simpa using this
  have hIE := Finset.card_union_add_card_inter A B
  have hlt : F.card < (A ∩ B).card := by omega
  obtain ⟨p, hp, hnp⟩ := Finset.exists_mem_notMem_of_card_lt_card hlt
  exact ⟨p, (Finset.mem_inter.mp hp).1, (Finset.mem_inter.mp hp).2, hnp⟩

theorem genuineCount_eq_card (N : Nat) (c : Cand) (p : Nat) :
    genuineCount N c p = ((Finset.range N).filter (fun i => genuineFor N c p i = true)).card := by
  unfold genuineCount
  rw [Finset.card_def]
  simp [Finset.filter, Finset.range, Multiset.range]

/-- honest peers (outside `F`) have signed blocks of at most one (proposer, version) among the signatures that occur in
the two pools -/
def HonestSingle (F : Finset Nat) (cX cY : Cand) : Prop :=
  ∀ h, h ∉ F → ∀ p v fe p' v' fe',
    (sigOccurs cX (.valid h (.block p v fe)) = true ∨ sigOccurs cY (.valid h (.block p v fe)) = true) →
    (sigOccurs cX (.valid h (.block p' v' fe')) = true ∨ sigOccurs cY (.valid h (.block p' v' fe')) = true) →
    p = p' ∧ v = v'

/-- **C34, implementation layer, what the shipped decision functions DO guarantee.** Two pools (of two nodes, any `N ≥ 3C+1`,
any faulty set `F` of at most `C` peers), any iteration orders. IF
* every signature stored in either pool is genuine (`Inv`: claimed index = signer, hash = a block of the named proposer —
  established by the `.sound` intake, violated by the shipped intake, see C31; monitored on the real pools by the harness),
* every block signature in a pool is over the version of the proposal that pool stores (`VersionBound`; idem),
* for the shipped counting: no proposer is recorded as signer of its own proposal (`NoSelfVouch`),
* every honest peer has signed blocks of at most ONE (proposer, version) at this height (`HonestSingle` — an assumption
  on `service.go`'s event loop: proposal, endorsement (full or empty) and commit of one node all concern one proposal;
  monitored on the real `Server`s by the harness, and NOT guaranteed by the event loop once a timeout fires),
THEN two `commitDone` verdicts name the same proposer and both pools hold the same version of its proposal.
(The empty/full flag is not covered: see `C34_partial_does_not_cover_forEmpty`.) -/
theorem C34_impl_safe_partial (v : Variant) (N C : Nat) (hN : 3 * C + 1 ≤ N) (F : Finset Nat) (hF : F.card ≤ C)
    (cX cY : Cand) (invX : Inv N cX) (invY : Inv N cY) (vbX : VersionBound cX) (vbY : VersionBound cY)
    (nsX : v = .asShipped → NoSelfVouch cX) (nsY : v = .asShipped → NoSelfVouch cY)
    (single : HonestSingle F cX cY)
    (CsrvX CsrvY CX CY : Nat) (eX eY oX oY : List Nat) (hoX : oX.Nodup) (hoY : oY.Nodup)
    (p p' : Nat) (fe fe' : Bool)
    (hX : commitDone v N CsrvX eX cX oX CX = (p, fe, true))
    (hY : commitDone v N CsrvY eY cY oY CY = (p', fe', true)) :
    p = p' ∧ ∃ ver, storedVer cX p = some ver ∧ storedVer cY p' = some ver := by
  have qX := commitDone_count v N CsrvX eX cX oX CX p fe invX hoX nsX hX
  have qY := commitDone_count v N CsrvY eY cY oY CY p' fe' invY hoY nsY hY
  rw [genuineCount_eq_card] at qX qY
  have hsum := OntVerif.Props.C28.need_sum .commitMsgQuorum .commitMsgQuorum N C hN
  simp only [need] at hsum
  obtain ⟨h, hA, hB, hnF⟩ := inter_outside_faulty_nat _ _ F (Finset.filter_subset _ _) (Finset.filter_subset _ _) qX qY hF hsum
  have gX := (Finset.mem_filter.mp hA).2
  have gY := (Finset.mem_filter.mp hB).2
  obtain ⟨v1, f1, o1⟩ := genuineFor_occurs N cX p h gX
  obtain ⟨v2, f2, o2⟩ := genuineFor_occurs N cY p' h gY
  obtain ⟨e1, e2⟩ := single h hnF p v1 f1 p' v2 f2 (Or.inl o1) (Or.inr o2)
  subst e1; subst e2
  exact ⟨rfl, v1, vbX _ _ _ _ o1, vbY _ _ _ _ o2⟩

/-- with the C31-repaired intake the first three hypotheses hold by construction: only `HonestSingle` is needed -/
theorem C34_impl_safe_partial_sound (N C : Nat) (hN : 3 * C + 1 ≤ N) (F : Finset Nat) (hF : F.card ≤ C)
    (histX histY : List Delivery)
    (single : HonestSingle F (run .sound N {} histX) (run .sound N {} histY))
    (CsrvX CsrvY CX CY : Nat) (eX eY oX oY : List Nat) (hoX : oX.Nodup) (hoY : oY.Nodup)
    (p p' : Nat) (fe fe' : Bool)
    (hX : commitDone .sound N CsrvX eX (run .sound N {} histX) oX CX = (p, fe, true))
    (hY : commitDone .sound N CsrvY eY (run .sound N {} histY) oY CY = (p', fe', true)) :
    p = p' ∧ ∃ ver, storedVer (run .sound N {} histX) p = some ver ∧ storedVer (run .sound N {} histY) p' = some ver :=
  C34_impl_safe_partial .sound N C hN F hF _ _ (inv_run_sound N {} histX (inv_empty N)) (inv_run_sound N {} histY (inv_empty N))
    (vbi_run_sound N {} histX vbi_empty).versionBound (vbi_run_sound N {} histY vbi_empty).versionBound
    (fun e => by cases e) (fun e => by cases e) single CsrvX CsrvY CX CY eX eY oX oY hoX hoY p p' fe fe' hX hY

section partialExamples
private def Bk (p ver : Nat) (fe : Bool) : Hash := .block p ver fe
private def prop1 : Delivery := .proposal ⟨1, 0, .valid 1 (Bk 1 0 false), .valid 1 (Bk 1 0 true)⟩
private def endorseFull (i : Nat) : Delivery := .endorse i ⟨i, 1, Bk 1 0 false, false, .valid i (Bk 1 0 false)⟩
private def commitEmpty (i : Nat) : Delivery :=
  .commit i ⟨i, 1, Bk 1 0 true, true, .valid 1 (Bk 1 0 true), [], .valid i (Bk 1 0 true)⟩
private def o7 : List Nat := [0, 1, 2, 3, 4, 5, 6]

/-- the theorem says nothing about the empty/full flag, and nothing can be said: N = 7, every message genuine, every
honest peer signs only blocks of proposal (1, version 0) — the full block when endorsing, the empty block when committing
after a timeout. One pool sees the endorsements and declares the full block, the other sees the commits and declares
the empty block (`empty-and-full-block-of-one-proposal`). -/
theorem C34_partial_does_not_cover_forEmpty :
    commitDone .sound 7 2 o7 (run .sound 7 {} [prop1, endorseFull 0, endorseFull 2, endorseFull 3, endorseFull 4]) o7 2
      = (1, false, true) ∧
    commitDone .sound 7 2 o7 (run .sound 7 {} [prop1, commitEmpty 0, commitEmpty 2, commitEmpty 3, commitEmpty 4]) o7 2
      = (1, true, true) := by decide

set_option maxRecDepth 8000 in
/-- `HonestSingle` is the hypothesis that `genuineHistory` (all signatures genuine, sound intake) violates: honest peer 0
signs block 0 as its proposer and block 3 as endorser -/
theorem C34_genuine_counterexample_breaks_HonestSingle :
    let w := OntVerif.Model.VbftImpl.runOps .sound { N := 4, C := 1, faulty := [3] } genuineHistory
    ¬ HonestSingle {3} (w.node 1).cand (w.node 2).cand := by
  intro w h
  have := h 0 (by decide) 0 0 false 3 0 false (Or.inr (by decide)) (Or.inl (by decide))
  exact absurd this.1 (by decide)

/-- non-vacuity of `C34_impl_safe_partial_sound`: two pools of an honest N = 4 round -/
example : commitDone .sound 4 1 [0, 1, 2, 3] (run .sound 4 {} OntVerif.Props.C31.honestRun) [0, 1, 2, 3] 1 = (1, false, true) ∧
    commitDone .sound 4 1 [0, 1, 2, 3] (run .sound 4 {} (OntVerif.Props.C31.honestRun.take 3)) [2, 0, 1, 3] 1 = (1, false, true) := by
  decide
end partialExamples

-- non-vacuity: an honest round in the implementation model on which all three honest nodes seal the same block
set_option maxRecDepth 8000 in
example : sealedBlocks (runOps .asShipped { N := 4, C := 1, faulty := [3] }
    [.propose 0 1 0, .propose 1 1 0, .propose 2 1 0, .endorse 0 1 false, .endorse 2 1 false,
     .deliver 0 2, .deliver 1 0, .deliver 0 1, .deliver 1 1, .commit 0 o4, .commit 2 o4, .deliver 2 1, .deliver 3 1,
     .deliver 2 2, .deliver 3 0, .seal 0 o4, .seal 1 o4, .seal 2 o4]) = [(1, 0, false), (1, 0, false), (1, 0, false)] := by decide

end impl
end OntVerif.Props.C34
