import OntVerif.Proofs.NeoExec
import OntVerif.Proofs.NeoExecInv
import OntVerif.Proofs.NeoExecAlloc
import OntVerif.Proofs.NativeDec
import OntVerif.Gen.PanicSites
import OntVerif.Gen.CloneCounter
/-!
# C12 — No transaction or pre-execution request can crash the node

A theorem cannot exhibit a Go panic, a stack overflow or an out-of-memory kill. What is LOGIC is modelled and proved here; the rest
of the execution path is explored by `harness/cmd/c12` with crash isolation (see `props/C12.json` for the exact split).

Proved, for ALL inputs:
* `Model/NeoExec.lean` — the executor's stack / flow / splice / array / struct / map opcodes as a machine over byte code, every Go
  index, slice, element assignment and `make` through `goIdx / goSlice / goSet / goMake` (`R.panic` where Go panics), every explicit
  bounds check mirrored literally: no state and no opcode byte leads to `panic` (`C12_step_total_no_oob`, `C12_run_total`);
* the recursive value operations that C14 does not cover stop within an explicit budget on EVERY heap, cyclic or shared
  (`C12_clone_terminates`, `C12_convert_terminates`, `C12_buildResult_terminates`, and `C12_buildParamToNative_terminates` for the code
  as repaired by 060d8e9c); the function as it was before the repair did not return on `a = [1, a]`, for any budget
  (`C12_historical_buildParamToNative_diverges`); the one process death the model still contains, `reflect.DeepEqual` out of stack under
  EQUAL, is an explicit outcome with a witness (`C12_deepEqual_overflow_witness`);
* a struct operand of APPEND / SETITEM is copied under ONE counter for the whole copy: at most `MAX_CLONE_LENGTH + 1` struct objects per
  copy, additively per opcode (`C12_clone_alloc_bound`, `C12_append_setitem_alloc_bound`), and the Go function threads its counter the
  same way (`C12_clone_counter_shared`);
* `Model/NativeDec.lean` — the native contracts' decoders that loop over an announced count are total and run at most
  `len(input)` iterations (`C12_count_loop_bounded`, `C12_decode_total_*`);
* the set of KINDS of explicit `panic(` calls and of loops / allocations / index operations driven by a decoded count, extracted from
  the Go sources on every run, is included in the reviewed set (`C12_panic_sites_reviewed`, `C12_count_sites_reviewed`).
-/
namespace OntVerif.Props.C12
open OntVerif.Util OntVerif.Model.NeoVal OntVerif.Model.NeoExec OntVerif.Proofs.NeoExec
open OntVerif.Model.NativeDec OntVerif.Proofs.NativeDec

/-! ## (a) the executor -/

/-- **No opcode indexes out of range.** For every machine state (any code, any reader position — also past the end —, any stacks, any
heap, both feature flags), every `Serialize` evaluator and every opcode byte, one `ExecuteOp` / `SystemCall` yields a new state, a VM
fault, lies outside the model, or is the one modelled process death (`overflow`: `reflect.DeepEqual` under EQUAL out of stack; a
`Serialize` evaluator that does not return); it never reaches a Go index / slice / `make` outside its range and no loop of the model runs
out of budget. (`dangling` is excluded from the initial machine on by `C12_step_closed` / `C12_invoke_total`.) -/
theorem C12_step_total_no_oob (serF : Heap → Val → Except VErr Bytes) (m : M) (op : Nat) :
    (∃ m', step serF m op = .ok m') ∨ step serF m op = .fault ∨ step serF m op = .unmod ∨ step serF m op = .overflow ∨
      step serF m op = .dangling := by
  have h := step_safe serF m op
  cases hs : step serF m op with
  | ok m' => exact .inl ⟨m', rfl⟩
  | fault => exact .inr (.inl rfl)
  | unmod => exact .inr (.inr (.inl rfl))
  | overflow => exact .inr (.inr (.inr (.inl rfl)))
  | dangling => exact .inr (.inr (.inr (.inr rfl)))
  | panic => rw [hs] at h; exact h.elim
  | fuel => rw [hs] at h; exact h.elim

/-- the same for a whole invocation (the loop of `NeoVmService.Invoke`), any number of steps -/
theorem C12_run_total (serF : Heap → Val → Except VErr Bytes) (n : Nat) (m : M) : run serF n m ≠ .panic ∧ run serF n m ≠ .fuel := by
  induction n generalizing m with
  | zero =>
    unfold run
    have hb := readByte_safe m.code m.pos
    split
    · exact ⟨nofun, nofun⟩
    · split
      · exact ⟨nofun, nofun⟩
      · split
        · split <;> exact ⟨nofun, nofun⟩
        · exact ⟨nofun, nofun⟩
  | succ n ih =>
    unfold run
    have hb := readByte_safe m.code m.pos
    split
    · exact ⟨nofun, nofun⟩
    · split
      · exact ⟨nofun, nofun⟩
      · split
        · rename_i op pos _
          have hs := step_safe serF { m with pos := pos } op.toNat
          split
          · exact ih _
          · exact ⟨nofun, nofun⟩
          · rename_i hp; rw [hp] at hs; exact hs.elim
          · exact ⟨nofun, nofun⟩
          · exact ⟨nofun, nofun⟩
          · rename_i hp; rw [hp] at hs; exact hs.elim
          · exact ⟨nofun, nofun⟩
        · exact ⟨nofun, nofun⟩
        · rename_i hp; rw [hp] at hb; exact hb.elim
        · exact ⟨nofun, nofun⟩

/-- **References never dangle.** `WF m`: every reference on the stacks and inside heap objects points into the heap (what a Go pointer
does by construction). Every opcode (and the three modelled syscalls) preserves `WF` and never takes the model's `dangling` branch on a
`WF` machine, for every `Serialize` evaluator that does not invent a dangling reference on a closed heap (`SerClosed`; the model's own
`serialize` is one: `C12_serialize_closed`). -/
theorem C12_step_closed (serF : Heap → Val → Except VErr Bytes) (hs : SerClosed serF) (m : M) (w : WF m) (op : Nat) :
    step serF m op ≠ .dangling ∧ ∀ m', step serF m op = .ok m' → WF m' := by
  have h := step_inv serF hs m op w
  cases hst : step serF m op with
  | ok m' => rw [hst] at h; exact ⟨nofun, fun m'' e => by injection e with e; subst e; exact h⟩
  | dangling => rw [hst] at h; exact h.elim
  | fault => exact ⟨nofun, nofun⟩
  | panic => exact ⟨nofun, nofun⟩
  | unmod => exact ⟨nofun, nofun⟩
  | fuel => exact ⟨nofun, nofun⟩
  | overflow => exact ⟨nofun, nofun⟩

theorem C12_serialize_closed (var : Variant) (perm : Perm) (hv : perm.valid) : SerClosed (serialize var perm) :=
  serialize_closed var perm hv

/-- the hypothesis of `C12_step_closed` is satisfiable: the initial machine of every invocation, and a machine holding the cyclic `a = [1, a]` -/
example : WF { code := [0x51], allowEOF := true } := wf_init _ _ _
example : WF { code := [], eval := [.ref 0], heap := [.arr [.int 1, .ref 0]] } := by
  refine ⟨?_, ?_, ?_⟩
  · intro v hv
    simp only [List.mem_singleton] at hv
    subst hv
    exact Nat.zero_lt_one
  · intro v hv
    cases hv
  · intro o ho
    simp only [List.mem_singleton] at ho
    subst ho
    intro v hv
    simp only [List.mem_cons, List.not_mem_nil, or_false] at hv
    rcases hv with h | h <;> subst h
    · trivial
    · exact Nat.zero_lt_one

/-- **The executor part of the property, from the initial machine**: for every byte code, both feature flags and every number of steps
(with the model's own `Serialize`, code as shipped, any valid map iteration order), an invocation ends in a final (closed) machine, in a
VM fault, at an opcode / syscall outside the model, at the step limit, or in the modelled stack overflow of `reflect.DeepEqual` — never
in a Go panic, an exhausted model budget or a dangling reference. -/
theorem C12_invoke_total (perm : Perm) (hv : perm.valid) (n : Nat) (code : Bytes) (allowEOF disableHasKey : Bool) :
    let r := run (serialize .asShipped perm) n { code := code, allowEOF := allowEOF, disableHasKey := disableHasKey }
    (∃ m', r = .halt m' ∧ WF m') ∨ r = .fault ∨ r = .unmod ∨ r = .steplimit ∨ r = .overflow := by
  intro r
  have h1 := C12_run_total (serialize .asShipped perm) n { code := code, allowEOF := allowEOF, disableHasKey := disableHasKey }
  have h2 := run_inv (serialize .asShipped perm) (serialize_closed _ perm hv) n
    { code := code, allowEOF := allowEOF, disableHasKey := disableHasKey } (wf_init code allowEOF disableHasKey)
  cases hr : r with
  | halt m' => exact .inl ⟨m', rfl, h2.2 m' hr⟩
  | fault => exact .inr (.inl rfl)
  | unmod => exact .inr (.inr (.inl rfl))
  | steplimit => exact .inr (.inr (.inr (.inl rfl)))
  | overflow => exact .inr (.inr (.inr (.inr rfl)))
  | panic => exact absurd hr h1.1
  | fuel => exact absurd hr h1.2
  | dangling => exact absurd hr h2.1

/-- **The one modelled process death has a witness**: two separately built values struct [array [array …]] nested one level deeper than the
budget make the model of `reflect.DeepEqual` run out of stack, for every budget — in particular for `DEEPEQ_LEVELS` (≈ 2.95·10^5 levels,
measured: 1 GB of goroutine stack at ~3.4 KB per level). The Go witness is the thorough-tier line `V 8000000 …` (findings/C12.json,
class `fatal-stack-overflow:lib:reflect<types.VmValue.Equals`). -/
theorem C12_deepEqual_overflow_witness (L : Nat) : deepVal (nestH (L + 1)) L [] (.ref 0) (.ref 1) = .overflow :=
  deepVal_overflow_witness L

/-- **`ValueStack`**: `Pop`, `Peek`, `Remove`, `Insert`, `Swap`, `Push` for every stack content and every index (negative, huge, = len) -/
theorem C12_stack_ops_total (d : Stack) (i j : Int) (t : Val) :
    R.safe (vsPop d) ∧ R.safe (vsPeek d i) ∧ R.safe (vsRemove d i) ∧ R.safe (vsInsert d i t) ∧ R.safe (vsSwap d i j) ∧ R.safe (vsPush d t) :=
  ⟨vsPop_safe d, vsPeek_safe d i, vsRemove_safe d i, vsInsert_safe d i t, vsSwap_safe d i j, vsPush_safe d t⟩

/-- **the code reader**: PUSHBYTES / PUSHDATA lengths that read past the end of the code, with and without `AllowReaderEOF` -/
theorem C12_reader_total (allowEOF : Bool) (code : Bytes) (pos k : Nat) (count : Nat) :
    R.safe (readByte code pos) ∧ R.safe (readUintN code pos k) ∧ R.safe (readBytes allowEOF code pos count) :=
  ⟨readByte_safe _ _, readUintN_safe _ _ _, readBytes_safe_nat _ _ _ _⟩

/-- the only attacker-sized allocation of the executor (`make([]byte, count)` in `VmReader.ReadBytes`) is bounded by what is left of the
code, or by 1 MiB under `AllowReaderEOF` -/
theorem C12_readBytes_alloc_bound (allowEOF : Bool) (code : Bytes) (pos : Nat) (count : Int) (b : Bytes) (p : Nat)
    (h : readBytes allowEOF code pos count = .ok (b, p)) :
    (b.length : Int) = count ∧ count ≤ (if allowEOF then 1048576 else (code.length : Int)) := by
  unfold readBytes at h
  simp only at h
  by_cases hc : (if allowEOF = true then (1048576 : Int) else ↑(rdLen code pos)) < count
  · rw [if_pos hc] at h; cases h
  · rw [if_neg hc] at h
    unfold goMake at h
    by_cases h0 : 0 ≤ count
    · rw [if_pos h0] at h
      change readInto code pos (List.replicate count.toNat (0 : UInt8)).length = _ at h
      unfold readInto at h
      by_cases hp : pos ≥ code.length
      · rw [if_pos hp] at h; cases h
      · rw [if_neg hp] at h
        obtain ⟨tail, _, e2⟩ := rbind_eq_ok (x := goSlice code (pos : Int) (code.length : Int)) h
        injection e2 with e2
        injection e2 with e2 _
        subst e2
        refine ⟨?_, ?_⟩
        · simp only [List.length_append, List.length_take, List.length_replicate]
          omega
        · cases allowEOF
          · simp only [Bool.false_eq_true, if_false] at hc ⊢
            unfold rdLen at hc
            split at hc <;> omega
          · simp only [if_true] at hc ⊢
            omega
    · rw [if_neg h0] at h
      cases h

/-! ## (a') recursive value operations: termination with an explicit bound on every heap -/

/-- **`StructValue.Clone`** (SETITEM / APPEND of a struct): on every heap — cyclic, shared, dangling — `MAX_CLONE_LENGTH + 3` nested
calls are enough: the budget is never the reason the model stops (the `*length > MAX_CLONE_LENGTH` check of the code is). -/
theorem C12_clone_terminates (h0 : Heap) (r : Ref) (h : Heap) : R.safe (cloneStruct CLONE_FUEL h0 r h 0) :=
  cloneStruct_safe _ _ _ _ _ (by unfold CLONE_FUEL; omega) (by unfold CLONE_FUEL OntVerif.Model.NeoProg.MAX_CLONE_LENGTH; omega)

/-- **the clone counter is shared by the whole recursion** (`cloneStruct(s, length *int)`: `*length++` per element, the limit checked at
the entry of every nested struct): the nested structs are entered at strictly increasing counter values `≤ MAX_CLONE_LENGTH`, so one
successful `Clone` creates at most `MAX_CLONE_LENGTH + 1` struct objects — on every heap, whatever is shared or cyclic in it. (A counter
per root-to-leaf path would let `s.append(s)` double the number of copied structs per round.) -/
theorem C12_clone_alloc_bound (h : Heap) (r r' : Ref) (h' : Heap) (len' : Nat)
    (e : cloneStruct CLONE_FUEL h r h 0 = .ok (r', h', len')) :
    h.length < h'.length ∧ h'.length ≤ h.length + OntVerif.Model.NeoProg.MAX_CLONE_LENGTH + 1 :=
  OntVerif.Proofs.NeoExecAlloc.clone_alloc_bound _ _ _ _ _ _ e

/-- **the Go code counts the way the model does** (`Gen/CloneCounter.lean`, extracted by role on every run): the worker reachable from
`StructValue.Clone` that calls itself has a counter parameter of pointer type, increments it through the pointer, forwards that very
parameter in every recursive call, `Clone` passes the address of a local of its own, and the early exit compares the counter with
`MAX_CLONE_LENGTH` (`>`), whose value is the model's. A counter passed by value is the verdict "by-value: …" and breaks this theorem. -/
theorem C12_clone_counter_shared :
    OntVerif.Gen.CloneCounter.verdict = "shared" ∧ OntVerif.Gen.CloneCounter.limitCheck = "MAX_CLONE_LENGTH >" ∧
    OntVerif.Gen.CloneCounter.limit = OntVerif.Model.NeoProg.MAX_CLONE_LENGTH := by decide

/-- **APPEND and SETITEM copy a struct operand by value, and the copy is the only allocation**: either opcode grows the heap by at most
`MAX_CLONE_LENGTH + 1` objects — additively per executed opcode, so k opcodes of a program add at most k * 1025 struct objects through
copies (the self-append / self-setitem programs of corpus/C12/structclone.ops end with the VM error at round 12) -/
theorem C12_append_setitem_alloc_bound (m m' : M) (e : opAppend m = .ok m' ∨ opSetItem m = .ok m') :
    m.heap.length ≤ m'.heap.length ∧ m'.heap.length ≤ m.heap.length + (OntVerif.Model.NeoProg.MAX_CLONE_LENGTH + 1) := by
  rcases e with e | e
  · exact OntVerif.Proofs.NeoExecAlloc.opAppend_alloc m m' e
  · exact OntVerif.Proofs.NeoExecAlloc.opSetItem_alloc m m' e

/-- **`ConvertNeoVmValueHexString`** (Runtime.Notify; the result of a pre-execution): `MAX_COUNT + 3` nested calls are enough on every heap -/
theorem C12_convert_terminates (h : Heap) (v : Val) : R.safe (convHex h CONV_FUEL v (0, 0)) ∧ R.safe (convertHexOk h v) :=
  ⟨convHex_safe _ _ _ _ _ (by unfold CONV_FUEL; omega) (by unfold CONV_FUEL MAX_COUNT; omega), convertHexOk_safe h v⟩

/-- **`BuildResultFromNeo`** (result of a NeoVM contract called from wasm): 208 nested calls are enough on every heap -/
theorem C12_buildResult_terminates (h : Heap) (v : Val) : R.safe (buildRes h BUILD_FUEL v 0) :=
  buildRes_safe _ _ _ _ (by unfold BUILD_FUEL MAX_PARAM_LENGTH; omega) (by unfold BUILD_FUEL; omega)

/-- **`BuildParamToNative` as it is** (`natvP`: the shipped detector at every level plus the on-path check of 060d8e9c), both detector
variants, every heap — cyclic, shared, dangling —, every iteration order: `|heap| + 2` nested calls are enough, the budget is never the
reason it stops (the containers on the recursion path are pairwise different objects). This is C14's `C14_buildParam_terminates`,
restated here because it is the C12 repair. What remains unbounded is the WORK on shared values and the DEPTH on acyclic ones (known
findings `…shared-value-unfolding>1e7`, `…acyclic-depth>100000`): `|heap| + 2` levels is a bound on the recursion, not on the stack Go has. -/
theorem C12_buildParamToNative_terminates (var : Variant) (perm : Perm) (h : Heap) (v : Val) :
    buildParamToNative var perm h v ≠ .error .fuel :=
  OntVerif.Proofs.NeoVal.natvP_no_fuel var perm h _ [] [] v List.nodup_nil (by intro x hx; cases hx) (by simp)

/-- **HISTORICAL** (`natv`: `BuildParamToNative` before 060d8e9c; no longer in the tree): on `a = [1, a]` the shipped detector sees
nothing and the old function exhausted EVERY recursion budget — the fatal stack overflow recorded as
`fatal-stack-overflow:types.VmValue.BuildParamToNative:native-invoke-cyclic-value` (status fixed). -/
theorem C12_historical_buildParamToNative_diverges (f : Nat) (path : List Nat) :
    natv .asShipped Perm.id cyc f path (.ref 0) = .error .fuel := by
  induction f generalizing path with
  | zero => rfl
  | succ f ih =>
    unfold natv
    rw [det_cyc]
    have hh : cyc[0]? = some (.arr [.int 1, .ref 0]) := rfl
    simp only [Bool.false_eq_true, if_false, hh]
    cases f with
    | zero => rfl
    | succ f =>
      unfold serList
      rw [natv_cyc_int]
      simp only
      unfold serList
      rw [ih]

/-- the same value through the other recursions: Clone, the hex-string conversion and BuildResultFromNeo all stop -/
example : (match convertHexOk [.arr [.int 1, .bytes [1, 2]], .struct [.ref 0, .ref 0]] (.ref 1) with | .ok true => true | _ => false) = true := by decide
set_option maxRecDepth 8000 in
example : (match buildRes [.arr [.ref 0]] BUILD_FUEL (.ref 0) 0 with | .fault => true | _ => false) = true := by decide

/-! ## (b) native argument decoders -/

/-- **Count loops are bounded by the input, not by the announced count.** For every item decoder that consumes at least one byte per
success, the loop `for i := 0; uint64(i) < n; i++` started with budget `remaining + 1` ends with a list or an error for EVERY `n`
(up to 2^64-1); the cursor only advances and the list is no longer than the bytes consumed. -/
theorem C12_count_loop_bounded {α : Type} (item : OntVerif.Model.Codec.Src → D α) (hi : Dec item) (n : Nat) (s : OntVerif.Model.Codec.Src) (w : s.wf) :
    D.good (loopN item (budget s) n s []) ∧
    ∀ l s', loopN item (budget s) n s [] = .ok l s' → l.length ≤ s'.off - s.off ∧ l.length ≤ n := by
  obtain ⟨g, a⟩ := loopN_total hi (budget s) n s [] w (by unfold budget; have := w.1; omega)
  refine ⟨g, fun l s' e => ?_⟩
  obtain ⟨_, h1, h2⟩ := a l s' e
  simp only [List.length_nil] at h1 h2
  omega

/-- `ont` / `ong` `transfer`: `TransferStates.Deserialization` (both value decoders) -/
theorem C12_decode_total_transferStates (wrapping : Bool) (input : Bytes) (hl : input.length < OntVerif.Model.Codec.two64) :
    D.good (dTransferStates wrapping input) ∧ ∀ l s', dTransferStates wrapping input = .ok l s' → l.length ≤ input.length := by
  have hd := dList_dec (dTransferState_dec wrapping)
  refine ⟨hd.good _ (wf0 input hl), ?_⟩
  intro l s' e
  unfold dTransferStates dList at e
  obtain ⟨n, s1, e1, e2⟩ := dbind_ok e
  have a1 := (dVarUint_dec.adv _ _ _ (wf0 input hl) e1).1
  obtain ⟨_, a⟩ := loopN_total (dTransferState_dec wrapping) (budget s1) n s1 [] (a1.wf (wf0 input hl)) (by unfold budget; have := a1.2.2; omega)
  obtain ⟨a2, h1, _⟩ := a l s' e2
  have := a2.2.2
  have hb : s'.bs.length = input.length := by rw [a2.1, a1.1]
  simp only [List.length_nil] at h1
  omega

/-- `transferV2` -/
theorem C12_decode_total_transferStatesV2 (input : Bytes) (hl : input.length < OntVerif.Model.Codec.two64) : D.good (dTransferStatesV2 input) :=
  (dList_dec dTransferStateV2_dec).good _ (wf0 input hl)

/-- `transferFrom` -/
theorem C12_decode_total_transferFrom (input : Bytes) (hl : input.length < OntVerif.Model.Codec.two64) : D.good (dTransferFrom input) := by
  unfold dTransferFrom
  exact (bind_dec dAddress_dec fun _ => (bind_dec (dTransferState_dec false) fun _ => post_ok _).post).good _ (wf0 input hl)

/-- governance `blackNode` (the shape of every `PeerPubkeyList` decoder) -/
theorem C12_decode_total_blackNodeParam (input : Bytes) (hl : input.length < OntVerif.Model.Codec.two64) : D.good (dBlackNodeParam input) :=
  (dList_dec dVarBytes_dec).good _ (wf0 input hl)

/-- governance `authorizeForPeer` / `unAuthorizeForPeer` / `withdraw`: two count loops -/
theorem C12_decode_total_authorizeForPeerParam (input : Bytes) (hl : input.length < OntVerif.Model.Codec.two64) :
    D.good (dAuthorizeForPeerParam input) := by
  unfold dAuthorizeForPeerParam
  refine (bind_dec dAddress_dec fun _ => ?_).good _ (wf0 input hl)
  refine (bind_dec dVarUint_dec fun n => ?_).post
  refine post_ite (post_err _) ?_
  refine bind_post (loopN_post dVarBytes_dec n []) fun _ => ?_
  refine (bind_dec dVarUint_dec fun m => ?_).post
  refine bind_post (loopN_post dU32_dec m []) fun _ => ?_
  exact post_ite (post_err _) (post_ok _)

/-- auth `assignFuncsToRole` / `assignOntIDsToRole` -/
theorem C12_decode_total_funcsToRoleParam (input : Bytes) (hl : input.length < OntVerif.Model.Codec.two64) : D.good (dFuncsToRoleParam input) := by
  unfold dFuncsToRoleParam
  refine (bind_dec dAddress_dec fun _ => ?_).good _ (wf0 input hl)
  refine (bind_dec dVarBytes_dec fun _ => ?_).post
  refine (bind_dec dVarBytes_dec fun _ => ?_).post
  refine (bind_dec (dList_dec dVarBytes_dec) fun _ => ?_).post
  exact (bind_dec dVarUint_dec fun _ => post_ok _).post

/-- ontid signer lists and group blobs (recursion depth cut at `MAX_DEPTH = 8` by the code) -/
theorem C12_decode_total_ontid (data : Bytes) (hl : data.length < OntVerif.Model.Codec.two64) : D.good (dSigners data) ∧ D.good (dGroup data) :=
  ⟨(dList_dec dSigner_dec).good _ (wf0 data hl), rDeserialize_good _ data hl⟩

/-- an announced count of 2^64-1 with nothing behind it: an error after zero iterations, no allocation -/
example : (match dTransferStates false [0x09, 0xff, 0xff, 0xff, 0xff, 0xff, 0xff, 0xff, 0xff, 0x00] with
    | .err .eof => true | _ => false) = true := by decide
example : (match dTransferStates false ([0x01, 0x01] ++ [0x14] ++ List.replicate 20 1 ++ [0x14] ++ List.replicate 20 2 ++ [0x01, 0x05]) with
    | .ok l _ => l.map (·.value) | _ => []) = [5] := by decide

/-! ## (d) explicit `panic(` calls and operations on decoded counts: the reviewed KINDS

`Gen/PanicSites.lean` (regenerated from the Go sources on every run) lists site KINDS as sets: package, operation with its operands
named by role (`$c` a count decoded from the input, `$v` any other run-time value), whether a count-bounded loop reads and can leave,
and the dominating guards of the operands — after inlining simply-defined locals and looking through same-package helpers in both
directions. The theorems below state INCLUSION in the reviewed sets: extracting, inlining or deduplicating code removes or keeps kinds
and proves as before; a new kind, a kind that lost a guard, a count-bounded loop that stopped reading is outside the reviewed set and
breaks the build until it is triaged (disposition per kind in `props/C12.json`). -/

/-- the reviewed kinds of explicit `panic(` calls -/
def reviewedPanicKinds : List String := [
  "core/states: panic('toolargetokenbalance')",
  "smartcontract/service/evm: panic(ErrGasUintOverflow)",
  "smartcontract/service/native/cross_chain/common: panic(fmt.Errorf('invalidheader%dovermaxversion:%d',$v.Version,CURR_HEADER_VERSION)) if $v.Version>CURR_HEADER_VERSION",
  "smartcontract/service/native/governance: panic('balancelessthansplitFeetowithdraw!')",
  "smartcontract/service/native/governance: panic('incomelessthandappIncome!')",
  "smartcontract/service/native/ontid: panic('groupmembertypeerror')",
  "smartcontract/service/native/ontid: panic('invalidgroupmembertype')",
  "smartcontract/service/native/ontid: panic('invalidmembertype')",
  "smartcontract/service/native/testsuite: panic('unimplemented')",
  "smartcontract/service/wasmvm: panic($v) if $v!=nil ; $v==nil",
  "smartcontract/service/wasmvm: panic($v) if $v!=nil",
  "smartcontract/service/wasmvm: panic(fmt.Errorf('[RaiseException]ContractRaiseException:%s/n',$v))",
  "smartcontract/storage: panic('cannottorevertsnapshot')",
  "smartcontract/storage: panic('todo')",
  "smartcontract/storage: panic(fmt.Sprintf('Refundcounterbelowzero(gas:%d>refund:%d)',$v,$v.refund)) if $v>$v.refund",
  "vm/neovm/types: panic('unreachable!')",
  "vm/neovm: panic('unreachable')"]

/-- the reviewed kinds of loops / allocations / index operations whose bound, size or index derives from a decoded count -/
def reviewedCountKinds : List String := [
  "core/states: loop <int($c) $c=NextUint32 body:reads",
  "smartcontract/service/native/auth: loop <$c $c=DecodeVarUint body:reads",
  "smartcontract/service/native/auth: loop <$c $c=NextUint32 body:reads",
  "smartcontract/service/native/cross_chain/common: loop <int($c) $c=NextVarUint body:reads",
  "smartcontract/service/native/cross_chain/header_sync: loop <$c $c=DecodeVarUint body:reads",
  "smartcontract/service/native/global_params: loop <$c $c=DecodeVarUint body:reads",
  "smartcontract/service/native/governance: loop <$c $c=DecodeUint32 body:reads",
  "smartcontract/service/native/governance: loop <$c $c=DecodeVarUint body:reads if $c<=1024",
  "smartcontract/service/native/governance: loop <$c $c=DecodeVarUint body:reads",
  "smartcontract/service/native/ont: loop <$c $c=DecodeVarUint body:reads",
  "smartcontract/service/native/ontfs: loop <$c $c=DecodeVarUint body:reads if $c!=0",
  "smartcontract/service/native/ontfs: loop <$c $c=DecodeVarUint body:reads",
  "smartcontract/service/native/ontid: index [$c-1] $c=DecodeUint32 if $c<=uint32(len($v)) ; $c>=1",
  "smartcontract/service/native/ontid: index [uint32($c)-1] $c=DecodeVarUint if !$v[uint32($c)-1].revoked ; uint32($c)!=0 ; uint32($c)<=uint32(len($v))",
  "smartcontract/service/native/ontid: index [uint32($c)-1] $c=DecodeVarUint if !$v[uint32($c)-1].revoked ; uint32($c)<=uint32(len($v)) ; uint32($c)>=1",
  "smartcontract/service/native/ontid: index [uint32($c)-1] $c=DecodeVarUint if uint32($c)!=0 ; uint32($c)<=uint32(len($v))",
  "smartcontract/service/native/ontid: index [uint32($c)-1] $c=DecodeVarUint if uint32($c)<=uint32(len($v)) ; uint32($c)>=1",
  "smartcontract/service/native/ontid: loop <$c $c=DecodeVarUint body:reads",
  "smartcontract/service/native/ontid: loop <int($c) $c=DecodeVarUint body:reads",
  "vm/neovm/types: loop <int($c) $c=NextVarUint body:reads",
  "vm/neovm/utils: make([]byte,int($c)) $c=ReadVarInt if int($c)<=$v"]

set_option maxRecDepth 20000 in
/-- **a new kind of explicit `panic(` under smartcontract/, vm/neovm/, core/states/, tx_handler.go — another package, another argument,
a weaker guard — breaks the build until it is triaged**; fewer kinds, or more copies of a reviewed kind, do not -/
theorem C12_panic_sites_reviewed : ∀ k ∈ OntVerif.Gen.PanicSites.panicKinds, k ∈ reviewedPanicKinds := by decide

set_option maxRecDepth 20000 in
/-- **a new kind of loop, `make`, index, slice or division driven by a decoded count — or a reviewed one that lost a guard or no longer
reads in its body — breaks the build until it is triaged** -/
theorem C12_count_sites_reviewed : ∀ k ∈ OntVerif.Gen.PanicSites.countKinds, k ∈ reviewedCountKinds := by decide

/-! ## the property at model level -/

/-- the machine on a concrete program: `a = []; a.append(1); a.append(a)` leaves the cyclic array on the stack -/
example : (match run (serialize .asShipped Perm.id) 100 { code := [0x00, 0xC5, 0x76, 0x51, 0xC8, 0x76, 0x76, 0xC8] } with
    | .halt m => (m.eval, m.heap) | _ => ([], [])) = ([.ref 0], [.arr [.int 1, .ref 0]]) := by decide
/-- boundary indexes fault, they do not panic: PICK with n = depth, SUBSTR past the end, PUSHDATA4 announcing 4 GiB -/
example : (match run (serialize .asShipped Perm.id) 100 { code := [0x55, 0x51, 0x79] } with | .fault => true | _ => false) = true := by decide
example : (match run (serialize .asShipped Perm.id) 100 { code := [0x02, 0x61, 0x62, 0x51, 0x52, 0x7F] } with | .fault => true | _ => false) = true := by decide
example : (match run (serialize .asShipped Perm.id) 100 { code := [0x4E, 0xff, 0xff, 0xff, 0xff] } with | .fault => true | _ => false) = true := by decide

/-- the widened subset: `2 * 3` through C13's integer model; EQUAL on two structs through the DeepEqual model (the syscalls are exercised by the X lines) -/
example : (match run (serialize .asShipped Perm.id) 100 { code := [0x52, 0x53, 0x95] } with
    | .halt m => m.eval | _ => []) = [.int 6] := by decide
example : (match run (serialize .asShipped Perm.id) 100 { code := [0x51, 0xC6, 0x51, 0xC6, 0x87] } with
    | .halt m => m.eval | _ => []) = [.bool true] := by decide

/-- **Full statement at model level**: every modelled operation ends in a value or an error for every input — except where the model
says `overflow` (EQUAL on two structs deeper than Go's stack: known finding, `C12_deepEqual_overflow_witness`). -/
def C12_full_statement (var : Variant) : Prop :=
  (∀ (serF : Heap → Val → Except VErr Bytes) (m : M) (op : Nat), R.safe (step serF m op)) ∧
  (∀ (h : Heap) (v : Val), R.safe (convertHexOk h v) ∧ R.safe (buildRes h BUILD_FUEL v 0)) ∧
  (∀ (h0 : Heap) (r : Ref) (h : Heap), R.safe (cloneStruct CLONE_FUEL h0 r h 0)) ∧
  (∀ (perm : Perm) (h : Heap) (v : Val), buildParamToNative var perm h v ≠ .error .fuel)

/-- the full statement holds for the code as it is (and for the sound detector of C14) -/
theorem C12_full (var : Variant) : C12_full_statement var :=
  ⟨step_safe, fun h v => ⟨convertHexOk_safe h v, C12_buildResult_terminates h v⟩, C12_clone_terminates,
   fun perm h v => C12_buildParamToNative_terminates var perm h v⟩

end OntVerif.Props.C12
