import OntVerif.Proofs.Program
/-!
# C23 — Signature scripts parse back to their keys and give order-free addresses

Model: `Model/Program.lean` (`ProgramBuilder`, `ProgramFromPubKey`, `ProgramFromMultiPubKey`, `GetProgramInfo`,
`GetParamInfo`, `AddressFromMultiPubKeys`, `keypair.SortPublicKeys`' comparison).  Keys are opaque: `canon` is
`SerializePublicKey ∘ DeserializePublicKey` (an arbitrary partial function here), the script hash `H` is arbitrary.
-/
namespace OntVerif.Props.C23
open OntVerif.Util OntVerif.Model.Codec OntVerif.Model.Program OntVerif.Proofs.Codec OntVerif.Proofs.Program

/-- what the theorems need to know about a key: it has a non-empty serialization shorter than 4 GiB that
`DeserializePublicKey`/`SerializePublicKey` reproduce (true for every key object: real ones have 33–67 bytes) -/
def KeyOK (canon : Bytes → Option Bytes) (k : Key) : Prop :=
  canon k.ser = some k.ser ∧ 0 < k.ser.length ∧ k.ser.length < 4294967296

/-- **Single-key script**: `GetProgramInfo(ProgramFromPubKey(k)) = ([k], 1)`. -/
theorem C23_single_rt (canon : Bytes → Option Bytes) (k : Key) (hk : KeyOK canon k) :
    ∃ prog, programFromPubKey k = some prog ∧ getProgramInfo canon prog = .ok ([k.ser], 1) := by
  obtain ⟨hc, h0, h32⟩ := hk
  have hp : ∃ p, pushBytes k.ser = some p := by
    unfold pushBytes
    have : ¬ k.ser.length = 0 := by omega
    simp only [this, if_false]
    repeat' split
    all_goals exact ⟨_, rfl⟩
  obtain ⟨p, hp⟩ := hp
  refine ⟨p ++ [CHECKSIG], by simp [programFromPubKey, hp], ?_⟩
  obtain ⟨c, tail, _, _, _, h2, h5, _⟩ := pushBytes_shape k.ser p hp
  unfold getProgramInfo
  have hlen : ¬ (p ++ [CHECKSIG]).length ≤ 2 := by simp; omega
  simp only [hlen, if_false, List.getLast?_append, List.getLast?_singleton, Option.some_or, beq_self_eq_true, if_true]
  have htake : (p ++ [CHECKSIG]).take ((p ++ [CHECKSIG]).length - 1) = p := by simp
  rw [htake]
  unfold readPubKey
  rw [readBytes_push k.ser p hp h32 p [] [] 0 (by simp) rfl (by unfold two64; omega)]
  simp [hc, expectEOF]


/-- **m-of-n script**: for every key list and threshold the builder accepts, parsing the built script returns the
keys in sorted order (as serialized) and the same `m`. -/
theorem C23_multi_rt (canon : Bytes → Option Bytes) (keys : List Key) (m : Int)
    (hk : ∀ k ∈ keys, KeyOK canon k) (hp : paramsOK m keys.length = true) :
    ∃ prog, programFromMultiPubKey keys m = .ok prog ∧
      getProgramInfo canon prog = .ok ((sortKeys keys).map (·.ser), m.toNat) := by
  unfold paramsOK maxPubKeys at hp
  simp only [Bool.and_eq_true, decide_eq_true_eq] at hp
  obtain ⟨⟨⟨hm1, hmn⟩, hn1⟩, hn16⟩ := hp
  -- the sorted keys
  have hperm := sortKeys_perm keys
  have hslen : (sortKeys keys).length = keys.length := hperm.length_eq
  have hsk : ∀ k ∈ sortKeys keys, KeyOK canon k := fun k hk' => hk k (hperm.mem_iff.mp hk')
  generalize hks : (sortKeys keys).map (·.ser) = ks
  have hkslen : ks.length = keys.length := by rw [← hks]; simp [hslen]
  have hks_ok : ∀ d ∈ ks, canon d = some d ∧ 0 < d.length ∧ d.length < 4294967296 := by
    intro d hd
    rw [← hks] at hd
    obtain ⟨k, hk', rfl⟩ := List.mem_map.mp hd
    exact hsk k hk'
  obtain ⟨b, hb⟩ := pushAll_some ks (fun d hd => (hks_ok d hd).2.1)
  have hmN : (1 : Nat) ≤ m.toNat ∧ m.toNat ≤ keys.length := by omega
  have hmv : ((m.toNat : Nat) : Int) = m := by omega
  have hpm := pushNum_small m.toNat hmN.1 (by omega)
  have hpn := pushNum_small keys.length (by omega) hn16
  refine ⟨[numOp m.toNat] ++ b ++ [numOp keys.length] ++ [CHECKMULTISIG], ?_, ?_⟩
  · unfold programFromMultiPubKey paramsOK maxPubKeys
    have : (decide (1 ≤ m) && decide (m ≤ (keys.length : Int)) && decide (keys.length > 1) && decide (keys.length ≤ 16)) = true := by
      simp; omega
    simp only [this, Bool.not_true, Bool.false_eq_true, if_false, hks, hb, hpm, hslen, hpn]
  · -- split the pushes into the first m and the rest
    have hsplit : ks = ks.take m.toNat ++ ks.drop m.toNat := by simp
    obtain ⟨b1, b2, hb1, hb2, hbe⟩ := pushAll_append (ks.take m.toNat) (ks.drop m.toNat) b (by rw [← hsplit]; exact hb)
    have hl1 : (ks.take m.toNat).length = m.toNat := by simp; omega
    have hblen := pushAll_length ks b hb (fun d hd => (hks_ok d hd).2.2)
    generalize hprog : [numOp m.toNat] ++ b ++ [numOp keys.length] ++ [CHECKMULTISIG] = prog
    have hplen : prog.length = b.length + 3 := by rw [← hprog]; simp
    have hl64 : prog.length < two64 := by
      rw [hplen]; unfold two64
      have : ks.length ≤ 16 := by omega
      have : ks.length * 4294967301 ≤ 16 * 4294967301 := Nat.mul_le_mul_right _ this
      omega
    unfold getProgramInfo
    have hlen : ¬ prog.length ≤ 2 := by omega
    have hlast : prog.getLast? = some CHECKMULTISIG := by rw [← hprog, List.getLast?_append]; simp
    have hne : (CHECKMULTISIG == CHECKSIG) = false := by decide
    simp only [hlen, if_false, hlast, hne, Bool.false_eq_true, beq_self_eq_true, if_true]
    rw [readNum_op m.toNat hmN.1 (by omega) prog [] (b ++ [numOp keys.length] ++ [CHECKMULTISIG]) 0 (by simp [← hprog]) rfl]
    simp only
    have hk1 : ∀ d ∈ ks.take m.toNat, canon d = some d ∧ d.length < 4294967296 :=
      fun d hd => ⟨(hks_ok d (List.mem_of_mem_take hd)).1, (hks_ok d (List.mem_of_mem_take hd)).2.2⟩
    have hrk := readKeys_pushAll canon (ks.take m.toNat) b1 hb1 hk1 prog [numOp m.toNat]
      (b2 ++ [numOp keys.length] ++ [CHECKMULTISIG]) (0 + 1) (by simp [← hprog, hbe]) (by simp) hl64
    rw [hl1] at hrk
    rw [hrk]
    simp only
    have hk2 : ∀ d ∈ ks.drop m.toNat, d.length < 4294967296 :=
      fun d hd => (hks_ok d (List.mem_of_mem_drop hd)).2.2
    have hl2 : (ks.drop m.toNat).length + 2 ≤ prog.length - (0 + 1 + b1.length) + 1 := by
      have := (pushAll_length _ b2 hb2 hk2).2
      rw [hplen, hbe]; simp only [List.length_append]; omega
    rw [readBuffers_pushAll (ks.drop m.toNat) b2 hb2 hk2 keys.length (by omega) hn16 prog ([numOp m.toNat] ++ b1) []
      (0 + 1 + b1.length) (by simp [← hprog, hbe]) (by simp; omega) hl64 _ hl2]
    have heof : expectEOF ⟨prog, 0 + 1 + b1.length + b2.length + 2⟩ = true := by
      unfold expectEOF; simp [hplen, hbe]; omega
    simp only [heof, Bool.not_true, Bool.false_eq_true, if_false, List.getLast?_append, List.getLast?_singleton,
      Option.some_or, List.dropLast_concat, int64OfBig_small keys.length hn16]
    rw [canonAll_id canon _ (fun d hd => (hks_ok d (List.mem_of_mem_drop hd)).1)]
    simp only [← hsplit, hkslen]
    simp
    unfold maxPubKeys; omega


/-- **Order-free**: any two orderings of the same keys give the same script, hence — whatever the hash is — the same
multi-signature address. (`rank` = what `SortPublicKeys` compares; the hypothesis: keys that compare equal serialize equally.) -/
theorem C23_perm (l₁ l₂ : List Key) (hp : l₁.Perm l₂) (hinj : ∀ a ∈ l₁, ∀ b ∈ l₁, rank a = rank b → a.ser = b.ser) (m : Int) :
    programFromMultiPubKey l₁ m = programFromMultiPubKey l₂ m ∧
    ∀ {Addr : Type} (H : Bytes → Addr), addressFromMultiPubKeys H l₁ m = addressFromMultiPubKeys H l₂ m := by
  have h1 : programFromMultiPubKey l₁ m = programFromMultiPubKey l₂ m := by
    unfold programFromMultiPubKey
    simp only [sortKeys_ser_congr l₁ l₂ hp hinj, hp.length_eq, (sortKeys_perm l₁).length_eq, (sortKeys_perm l₂).length_eq]
  refine ⟨h1, ?_⟩
  intro Addr H
  unfold addressFromMultiPubKeys
  rw [h1, hp.length_eq]

/-- **The parser only accepts valid thresholds and key counts**, on every byte string: a single-key script yields one
key and m = 1, a multi-signature script yields 1 ≤ m ≤ n and 2 ≤ n ≤ 16. -/
theorem C23_parse_valid (canon : Bytes → Option Bytes) (prog : Bytes) (keys : List Bytes) (m : Nat)
    (h : getProgramInfo canon prog = .ok (keys, m)) :
    (m = 1 ∧ keys.length = 1) ∨ (1 ≤ m ∧ m ≤ keys.length ∧ 2 ≤ keys.length ∧ keys.length ≤ 16) := by
  unfold getProgramInfo at h
  split at h
  · cases h
  split at h
  · cases h
  split at h
  · -- CHECKSIG
    split at h
    · cases h
    · split at h
      · cases h
      · injection h with h; injection h with h1 h2
        subst h1 h2
        left; simp
  split at h
  · -- CHECKMULTISIG
    split at h
    · cases h
    split at h
    · cases h
    split at h
    · cases h
    split at h
    · cases h
    split at h
    · cases h
    simp only at h
    split at h
    · cases h
    split at h
    · cases h
    split at h
    · cases h
    rename_i hcount hpar
    injection h with h; injection h with h1 h2
    subst h1 h2
    right
    simp only [Bool.and_eq_false_iff, not_or, decide_eq_false_iff_not, Bool.not_eq_eq_eq_not, Bool.not_true] at hpar
    simp only [ne_eq, Decidable.not_not] at hcount
    unfold maxPubKeys at hpar
    omega
  · cases h


/-- the comparison of `keypair.SortPublicKeys` is the lexicographic order on (type, curve, X, Y) resp. (type, raw bytes) —
in particular *not* the order of the serialized bytes (which start with the parity of Y) -/
theorem C23_less_is_rank (a b : Key) : less a b = true ↔ rank a < rank b := less_iff a b

/-- the sorted arrangement is unique: the result of `SortPublicKeys` is sorted, a permutation of its input, and any
two lists with these properties coincide (so the unstable `sort.Sort` of the implementation and the merge sort of the
model cannot differ) -/
theorem C23_sort_unique (l s : List Key) (hinj : ∀ a ∈ l, ∀ b ∈ l, rank a = rank b → a = b)
    (hs : s.Pairwise (fun a b => less b a = false)) (hp : s.Perm l) : s = sortKeys l := by
  apply List.Perm.eq_of_pairwise (le := fun a b => kle a b = true)
  · intro a b ha hb h1 h2
    rw [kle_iff] at h1 h2
    exact hinj a (hp.mem_iff.mp ha) b ((sortKeys_perm l).mem_iff.mp hb) (List.le_antisymm h1 h2)
  · refine hs.imp ?_
    intro a b h; unfold kle; simp [h]
  · exact sortKeys_sorted l
  · exact hp.trans (sortKeys_perm l).symm

/-- **Invalid thresholds / key counts are rejected by the builder** (and no address is derived): `m < 1`, `m > n`,
`n ≤ 1`, `n > 16`. -/
theorem C23_build_reject (keys : List Key) (m : Int)
    (h : m < 1 ∨ m > (keys.length : Int) ∨ keys.length ≤ 1 ∨ keys.length > 16) :
    programFromMultiPubKey keys m = .error .param ∧
    ∀ {Addr : Type} (H : Bytes → Addr), addressFromMultiPubKeys H keys m = .error .param := by
  have hp : paramsOK m keys.length = false := by
    unfold paramsOK maxPubKeys
    rcases h with h | h | h | h <;> simp <;> omega
  constructor
  · unfold programFromMultiPubKey; simp [hp]
  · intro Addr H; unfold addressFromMultiPubKeys; simp [hp]

/-- a script with an invalid threshold or key count is rejected, on every byte string (contrapositive of `C23_parse_valid`) -/
theorem C23_parse_reject (canon : Bytes → Option Bytes) (prog : Bytes) (keys : List Bytes) (m : Nat)
    (hbad : m = 0 ∨ m > keys.length ∨ keys.length = 0 ∨ keys.length > 16) :
    getProgramInfo canon prog ≠ .ok (keys, m) := by
  intro h
  have := C23_parse_valid canon prog keys m h
  omega

/-- **Totality**: on every byte string (and every behaviour of the key decoder) `GetProgramInfo` returns a result or
one of its errors — no slice expression out of range (`.panic`), and the `for { … }` loop over the remaining pushes
ends within `unread bytes + 1` iterations (`.fuel` unreachable). -/
theorem C23_total (canon : Bytes → Option Bytes) (prog : Bytes) (hl : prog.length < two64) :
    getProgramInfo canon prog ≠ .error .panic ∧ getProgramInfo canon prog ≠ .error .fuel := by
  have h := getProgramInfo_safe canon prog hl
  cases hr : getProgramInfo canon prog with
  | ok a => simp
  | error e => rw [hr] at h; exact ⟨by intro hc; injection hc with hc; exact h.1 hc, by intro hc; injection hc with hc; exact h.2 hc⟩

/-- the same for `GetParamInfo` -/
theorem C23_total_params (prog : Bytes) (hl : prog.length < two64) :
    getParamInfo prog ≠ .error .panic ∧ getParamInfo prog ≠ .error .fuel := by
  have h := getParamInfo_safe prog hl
  cases hr : getParamInfo prog with
  | ok a => simp
  | error e => rw [hr] at h; exact ⟨by intro hc; injection hc with hc; exact h.1 hc, by intro hc; injection hc with hc; exact h.2 hc⟩

/-- **Parameter scripts**: `GetParamInfo(ProgramFromParams(sigs)) = sigs` for non-empty signatures below 4 GiB -/
theorem C23_params_rt (sigs : List Bytes) (hk : ∀ k ∈ sigs, 0 < k.length ∧ k.length < 4294967296)
    (prog : Bytes) (hp : programFromParams sigs = some prog) (hl : prog.length < two64) :
    getParamInfo prog = .ok sigs := by
  unfold getParamInfo
  have hlen := (pushAll_length sigs prog hp (fun k hk' => (hk k hk').2)).2
  exact readParams_pushAll sigs prog hp (fun k hk' => (hk k hk').2) prog [] 0 (by simp) rfl hl _ (by omega)

/-! ### Non-vacuity -/
def k1 : Key := ⟨[2, 1, 1, 1], .ecdsa, 2, 5, 7, []⟩
def k2 : Key := ⟨[3, 0, 0, 9], .ecdsa, 2, 3, 8, []⟩     -- smaller X, larger serialization
def k3 : Key := ⟨[0x14, 0x19, 7, 7], .eddsa, 0, 0, 0, [7, 7]⟩
def canon4 (b : Bytes) : Option Bytes := if b.length = 4 then some b else none
example : ∀ k ∈ [k1, k2, k3, k1], KeyOK canon4 k := by simp [KeyOK, canon4, k1, k2, k3]
example : paramsOK 2 [k1, k2, k3, k1].length = true := by decide
example : [k1, k2, k3, k1].Perm [k3, k1, k1, k2] := by decide
example : ∀ a ∈ [k1, k2, k3, k1], ∀ b ∈ [k1, k2, k3, k1], rank a = rank b → a = b := by decide
example : ∀ a ∈ [k1, k2, k3, k1], ∀ b ∈ [k1, k2, k3, k1], rank a = rank b → a.ser = b.ser := by decide
example : less k2 k1 = true ∧ bytesLt k1.ser k2.ser = true := by decide
/-- a hand-assembled, unsorted 1-of-2 script is accepted as it stands; m = 0, m > n, n = 1 and a count that only
matches modulo 2^64 … -/
example : getProgramInfo canon4 [0x51, 4, 2, 1, 1, 1, 4, 3, 0, 0, 9, 0x52, 0xAE] = .ok ([[2, 1, 1, 1], [3, 0, 0, 9]], 1) := by rfl
example : getProgramInfo canon4 [0x00, 4, 2, 1, 1, 1, 4, 3, 0, 0, 9, 0x52, 0xAE] = .error .param := by rfl
example : getProgramInfo canon4 [0x53, 4, 2, 1, 1, 1, 4, 3, 0, 0, 9, 0x52, 0xAE] = .error .opcode := by rfl
example : getProgramInfo canon4 [0x51, 4, 2, 1, 1, 1, 0x51, 0xAE] = .error .param := by rfl
example : getProgramInfo canon4 [0x51, 4, 2, 1, 1, 1, 4, 3, 0, 0, 9, 9, 1, 0, 0, 0, 0, 0, 0, 0, 2, 0xAE]
    = .ok ([[2, 1, 1, 1], [3, 0, 0, 9]], 1) := by rfl
example : getProgramInfo canon4 [4, 2, 1, 1, 1, 0xAC] = .ok ([[2, 1, 1, 1]], 1) := by rfl
example : getParamInfo [1, 7, 0x4C, 0, 0x4D, 1, 0, 9] = .ok [[7], [], [9]] := by rfl

end OntVerif.Props.C23
